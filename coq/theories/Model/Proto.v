(* Model/Proto.v — the receive loop of Netceptor.runProtocol (pkg/netceptor/netceptor.go) as a
   function of the session state and ONE datagram, for both protocol phases, together with the
   parts of the functions it calls that decide whether a datagram can crash the process or
   change what the node knows: translateDataToMessage (length and hash checks),
   handleRoutingUpdate (self-origin / duplicate-node branch, seenUpdates, knownNodeInfo),
   handleServiceAdvertisement (embedded-pointer dereference, keep/replace/cancel),
   removeConnection, sendRejectMessage.

   Go partial operations are kept partial: [Panic] is an outcome, produced at exactly the two
   places where the pinned code indexes or dereferences without a guard:
     PEmptyDatagram : msgType := data[0] on a zero-length datagram          (netceptor.go:1910)
     PNilAdvert     : si.NodeID with the embedded *ServiceAdvertisement nil (netceptor.go:1720)
   and at the one place where it recurses without bound (found by the C07 harness):
     PPingLoop      : handlePing answering a packet from its own ping service to itself:
                      handlePing -> sendMessage -> handleMessageData -> handlePing -> ...
                      ("fatal error: stack overflow", the runtime kills the process)
   A [variant] says which guards are present; [repaired] is /repo after the two "fix:" commits
   (empty datagram ignored, content-less advertisement refused, ping from the ping service not
   answered, empty node ID rejected),
   [pinned] is the historical code.  Everything else is common to both.

   Oracles (fields of [env]): the JSON tokenizer [tok] (see Model/PJson.v) and the 64-bit
   name hash [hash] (highwayhash with the all-zero key); nothing is assumed of either.
   Not modelled (other properties' models): what handleMessageData does with a decoded packet
   beyond local delivery to a listening service (forwarding, ping, unreachable: C02/C10/C16),
   the flooding of accepted updates and advertisements (C06/C18), knownConnectionCosts rows
   other than the node's own (C01).  Go maps are association lists. *)
From Coq Require Import String.
From Receptor Require Export Model.PJson.
Open Scope list_scope.
Open Scope N_scope.

(* ---------- environment, node, session ---------- *)

Record env := { tok : bytes -> option json; hash : bytes -> N }.

Record node := {
  n_id : bytes;                               (* s.nodeID *)
  n_epoch : N;                                (* s.epoch *)
  n_conns : list (bytes * dy);                (* s.connections: remote ID -> connInfo.Cost *)
  n_selfrow : list (bytes * dy);              (* s.knownConnectionCosts[s.nodeID] *)
  n_hashes : list (N * bytes);                (* s.nameHashes: hash -> first name registered *)
  n_listeners : list bytes;                   (* services in s.listenerRegistry *)
  n_seen : list bytes;                        (* s.seenUpdates (keys) *)
  n_known : list (bytes * (N * N));           (* s.knownNodeInfo: origin -> (epoch, sequence) *)
  n_ads : list (bytes * bytes * option N);    (* s.serviceAdsReceived: (node, service, Time) *)
  n_wd : list (bytes * bytes * option N);     (* s.serviceAdsWithdrawn: time of the newest withdrawal *)
  n_down : bool                               (* s.Shutdown() has been called *)
}.

Record binfo := {                             (* BackendInfo *)
  bi_cost : dy; bi_nodecost : list (bytes * dy); bi_allowed : option (list bytes) }.

Record sess := {
  s_bi : binfo;
  s_est : bool;                               (* established *)
  s_rest : bool;                              (* remoteEstablished *)
  s_id : bytes;                               (* remoteNodeID *)
  s_cost : dy                                 (* connectionCost *)
}.

Definition sess_init (bi : binfo) : sess :=
  {| s_bi := bi; s_est := false; s_rest := false; s_id := []; s_cost := bi_cost bi |}.

Record variant := { v_guard_empty : bool; v_guard_nilad : bool; v_guard_ping : bool; v_reject_noid : bool;
                    v_remove_late : bool (* used by Model/Admit.v only *) }.
Definition repaired : variant :=
  {| v_guard_empty := true; v_guard_nilad := true; v_guard_ping := true; v_reject_noid := true; v_remove_late := true |}.
Definition pinned : variant :=
  {| v_guard_empty := false; v_guard_nilad := false; v_guard_ping := false; v_reject_noid := false; v_remove_late := false |}.

Inductive panic_point := PEmptyDatagram | PNilAdvert | PPingLoop.

(* what one datagram made observable beyond the state *)
Inductive event :=
| EDeliver (from fromsvc payload : bytes)     (* packet handed to a local listener's recvChan *)
| EHandled                                    (* packet decoded and passed on to handleMessageData *)
| ENotify (suspected : N).                    (* sendRoutingUpdate(suspected): duplicate-node notice *)

Inductive outcome :=
| Cont (st : node * sess) (evs : list event)  (* the loop goes on to the next datagram *)
| Stop (n : node) (reject : bool)             (* runProtocol returns (the session is closed);
                                                 reject: a type-3 message was written first *)
| Panic (p : panic_point).

(* ---------- small helpers ---------- *)

Fixpoint adel {V} (m : list (bytes * V)) (k : bytes) : list (bytes * V) :=
  match m with
  | [] => []
  | (k', v) :: r => if beq_bytes k k' then adel r k else (k', v) :: adel r k
  end.

Definition amem {V} (m : list (bytes * V)) (k : bytes) : bool :=
  match aget m k with Some _ => true | None => false end.

Fixpoint bmem (k : bytes) (l : list bytes) : bool :=
  match l with [] => false | x :: r => beq_bytes k x || bmem k r end.

Definition isnil {A} (l : list A) : bool := match l with [] => true | _ => false end.

Definition set_conns (n : node) (c s : list (bytes * dy)) : node :=
  {| n_id := n_id n; n_epoch := n_epoch n; n_conns := c; n_selfrow := s; n_hashes := n_hashes n;
     n_listeners := n_listeners n; n_seen := n_seen n; n_known := n_known n; n_ads := n_ads n; n_wd := n_wd n;
     n_down := n_down n |}.

(* removeConnection *)
Definition remove_conn (n : node) (id : bytes) : node :=
  if isnil id then n else set_conns n (adel (n_conns n) id) (adel (n_selfrow n) id).

(* AddNameHash: "localhost" (strings.EqualFold, i.e. simple case folding) stands for the node
   itself; an existing entry for the same hash is kept *)
Definition is_localhost (name : bytes) : bool :=
  beq_bytes (fold_key name) (fold_key (str "localhost"%string)).

Fixpoint hget (t : list (N * bytes)) (h : N) : option bytes :=
  match t with [] => None | (h', nm) :: r => if h =? h' then Some nm else hget r h end.

Definition add_hash (E : env) (n : node) (name : bytes) : node :=
  let name := if is_localhost name then n_id n else name in
  let h := hash E name in
  match hget (n_hashes n) h with
  | Some _ => n
  | None =>
    {| n_id := n_id n; n_epoch := n_epoch n; n_conns := n_conns n; n_selfrow := n_selfrow n;
       n_hashes := n_hashes n ++ [(h, name)]; n_listeners := n_listeners n; n_seen := n_seen n;
       n_known := n_known n; n_ads := n_ads n; n_wd := n_wd n; n_down := n_down n |}
  end.

(* ---------- data packets: translateDataToMessage + local delivery ---------- *)

Definition be (b : bytes) : N := fold_left (fun a x => a * 256 + x) b 0.
Definition slice (b : bytes) (i j : nat) : bytes := firstn (j - i) (skipn i b).

(* stringFromFixedLenBytes: strip trailing NUL bytes *)
Fixpoint rstrip0 (b : bytes) : bytes :=
  match b with
  | [] => []
  | x :: r => match rstrip0 r with
              | [] => if x =? 0 then [] else [x]
              | r' => x :: r'
              end
  end.

Record msgdata := { md_from : bytes; md_fromsvc : bytes; md_to : bytes; md_tosvc : bytes;
                    md_hops : N; md_data : bytes }.

Definition decode_data (n : node) (d : bytes) : option msgdata :=
  if Nat.ltb (List.length d) 36 then None      (* "data too short to be a valid message" *)
  else match hget (n_hashes n) (be (slice d 4 12)), hget (n_hashes n) (be (slice d 12 20)) with
       | Some f, Some t =>
         Some {| md_from := f; md_fromsvc := rstrip0 (slice d 20 28); md_to := t;
                 md_tosvc := rstrip0 (slice d 28 36); md_hops := nth 1 d 0; md_data := skipn 36 d |}
       | _, _ => None                    (* "hash not found" *)
       end.

Definition sv_ping : bytes := str "ping"%string.
Definition sv_unreach : bytes := str "unreach"%string.

(* handlePing: the answer goes from <self>:ping to the packet's source.  When that source is
   the node itself the answer is dispatched locally at once (sendMessage -> handleMessageData):
   to a listener, to handleUnreachable (which cannot parse the empty payload), to nobody
   ("service unknown"), or — source service "ping" — to handlePing again, without end.
   [None] = that unbounded recursion. *)
Definition handle_ping (V : variant) (n : node) (m : msgdata) : option (list event) :=
  if v_guard_ping V && beq_bytes (md_fromsvc m) sv_ping then Some []
  else if beq_bytes (md_from m) (n_id n) then
    if beq_bytes (md_fromsvc m) sv_ping then None
    else if beq_bytes (md_fromsvc m) sv_unreach then Some []
    else if bmem (md_fromsvc m) (n_listeners n) then Some [EDeliver (n_id n) sv_ping []]
    else Some []
  else Some [EHandled].                        (* forwarded towards the source: C02/C10 *)

(* handleMessageData on a decoded packet (no firewall rules) *)
Definition data_events (V : variant) (n : node) (m : msgdata) : option (list event) :=
  if beq_bytes (md_to m) (n_id n) then
    if beq_bytes (md_tosvc m) sv_ping then handle_ping V n m
    else if beq_bytes (md_tosvc m) sv_unreach then Some []   (* handleUnreachable: notification only *)
    else if bmem (md_tosvc m) (n_listeners n) then Some [EDeliver (md_from m) (md_fromsvc m) (md_data m)]
    else Some []                               (* unknown service: an "unreachable" goes back *)
  else Some [EHandled].                        (* forwardMessage: C02/C10 *)

(* ---------- handleRoutingUpdate (the part that can stop the node or change what it knows) ---------- *)

Definition set_known (n : node) (seen : list bytes) (known : list (bytes * (N * N))) : node :=
  {| n_id := n_id n; n_epoch := n_epoch n; n_conns := n_conns n; n_selfrow := n_selfrow n;
     n_hashes := n_hashes n; n_listeners := n_listeners n; n_seen := seen; n_known := known;
     n_ads := n_ads n; n_wd := n_wd n; n_down := n_down n |}.

Definition shut_down (n : node) : node :=
  {| n_id := n_id n; n_epoch := n_epoch n; n_conns := n_conns n; n_selfrow := n_selfrow n;
     n_hashes := n_hashes n; n_listeners := n_listeners n; n_seen := n_seen n; n_known := n_known n;
     n_ads := n_ads n; n_wd := n_wd n; n_down := true |}.

(* some listed connection cost is not > 0 *)
Definition nonpositive_cost (ri : rupd) : bool :=
  existsb (fun kv => negb (dy_pos (snd kv))) (match ru_conns ri with Some m => m | None => [] end).

Definition handle_ru (E : env) (n : node) (ri : rupd) : node * list event :=
  if isnil (ru_node ri) then (n, [])                       (* "peer is still trying to initialize" *)
  else if nonpositive_cost ri then (n, [])                 (* /repo 06678b3: ignored as a whole *)
  else if beq_bytes (ru_node ri) (n_id n) then
    if ru_epoch ri =? n_epoch n then (n, [])
    else if ru_dup ri =? n_epoch n then (shut_down n, [])  (* "We are a duplicate node": s.Shutdown() *)
    else if n_epoch n <? ru_epoch ri then (n, [ENotify (ru_epoch ri)])
    else (n, [])
  else if bmem (ru_uid ri) (n_seen n) then (n, [])
  else
    let seen := n_seen n ++ [ru_uid ri] in
    if negb (ru_dup ri =? 0) then
      match aget (n_known n) (ru_node ri) with
      | Some (e, _) =>
        if e =? ru_dup ri
        then (set_known n seen (aset (n_known n) (ru_node ri) (ru_epoch ri, ru_seq ri)), [])
        else (set_known n seen (n_known n), [])
      | None => (set_known n seen (n_known n), [])
      end
    else
      match aget (n_known n) (ru_node ri) with
      | Some (e, q) =>
        if (ru_epoch ri <? e) || ((ru_epoch ri =? e) && (ru_seq ri <=? q))
        then (set_known n seen (n_known n), [])
        else (set_known n seen (aset (n_known n) (ru_node ri) (ru_epoch ri, ru_seq ri)), [])
      | None =>
        (add_hash E (set_known n seen (aset (n_known n) (ru_node ri) (ru_epoch ri, ru_seq ri))) (ru_node ri), [])
      end.

(* ---------- handleServiceAdvertisement ---------- *)

(* time.Time.After; None is the zero time (year 1), earlier than every modelled instant *)
Definition tafter (a b : option N) : bool :=
  match a, b with
  | Some x, Some y => y <? x
  | Some _, None => true
  | None, _ => false
  end.

Fixpoint ads_get (l : list (bytes * bytes * option N)) (nd sv : bytes) : option (option N) :=
  match l with
  | [] => None
  | (n', s', t) :: r => if beq_bytes nd n' && beq_bytes sv s' then Some t else ads_get r nd sv
  end.

Fixpoint ads_del (l : list (bytes * bytes * option N)) (nd sv : bytes) : list (bytes * bytes * option N) :=
  match l with
  | [] => []
  | (n', s', t) :: r => if beq_bytes nd n' && beq_bytes sv s' then ads_del r nd sv else (n', s', t) :: ads_del r nd sv
  end.

Definition set_ads (n : node) (ads wd : list (bytes * bytes * option N)) : node :=
  {| n_id := n_id n; n_epoch := n_epoch n; n_conns := n_conns n; n_selfrow := n_selfrow n;
     n_hashes := n_hashes n; n_listeners := n_listeners n; n_seen := n_seen n; n_known := n_known n;
     n_ads := ads; n_wd := wd; n_down := n_down n |}.

(* handleServiceAdvertisement after decoding (with the withdrawal tombstones of /repo 2170f3c) *)
Definition store_ad (n : node) (a : advert) : node :=
  let nd := ad_node a in let sv := ad_service a in
  let buried := match ads_get (n_wd n) nd sv with
                | Some w => negb (tafter (ad_time a) w)
                | None => false
                end in
  if buried then n else
  let keep := match ads_get (n_ads n) nd sv with
              | Some cur => negb (tafter (ad_time a) cur)
              | None => false
              end in
  if keep then n
  else if ad_cancel a
       then set_ads n (ads_del (n_ads n) nd sv) (ads_del (n_wd n) nd sv ++ [(nd, sv, ad_time a)])
       else set_ads n (ads_del (n_ads n) nd sv ++ [(nd, sv, ad_time a)]) (ads_del (n_wd n) nd sv).

(* ---------- admission (connection not established, MsgTypeRoute) ---------- *)

Definition allowed (bi : binfo) (id : bytes) : bool :=
  match bi_allowed bi with None => true | Some l => bmem id l end.

Definition cost_for (bi : binfo) (id : bytes) : dy :=
  match aget (bi_nodecost bi) id with Some c => c | None => bi_cost bi end.

(* the decision taken under connLock, as a function of the connections map only *)
Definition admissible (V : variant) (self : bytes) (bi : binfo) (conns : list (bytes * dy)) (id : bytes) : bool :=
  negb (v_reject_noid V && isnil id) && negb (beq_bytes id self) && allowed bi id && negb (amem conns id).

Definition establish (E : env) (n : node) (s : sess) (id : bytes) : node * sess :=
  let c := cost_for (s_bi s) id in
  (add_hash E (set_conns n (n_conns n ++ [(id, c)]) (aset (n_selfrow n) id c)) id,
   {| s_bi := s_bi s; s_est := true; s_rest := false; s_id := id; s_cost := c |}).

(* ---------- one datagram ---------- *)

Definition set_rest (s : sess) : sess :=
  {| s_bi := s_bi s; s_est := s_est s; s_rest := true; s_id := s_id s; s_cost := s_cost s |}.

Definition step_route_est (E : env) (n : node) (s : sess) (ri : rupd) : outcome :=
  if negb (beq_bytes (ru_fwd ri) (s_id s)) then
    Stop (remove_conn n (s_id s)) true         (* "remote node ID changed unexpectedly" *)
  else if beq_bytes (ru_node ri) (s_id s) then
    match aget (match ru_conns ri with Some m => m | None => [] end) (n_id n) with
    | None =>
      if s_rest s then Stop (remove_conn n (s_id s)) true   (* "no longer lists us" *)
      else Cont (n, s) []                       (* late initialization request: not processed *)
    | Some rc =>
      if negb (dy_eqb rc (s_cost s)) then Stop (remove_conn n (s_id s)) true  (* cost disagreement *)
      else let '(n', evs) := handle_ru E n ri in Cont (n', set_rest s) evs
    end
  else let '(n', evs) := handle_ru E n ri in Cont (n', s) evs.

Definition step_advert (V : variant) (n : node) (s : sess) (j : json) : outcome :=
  match decode_advert j with
  | JErr => Cont (n, s) []
  | JOk a =>
    if ad_present a then Cont (store_ad n a, s) []
    else if v_guard_nilad V then Cont (n, s) []          (* "service advertisement has no content" *)
    else Panic PNilAdvert
  end.

Definition proto_step_gen (V : variant) (E : env) (st : node * sess) (data : bytes) : outcome :=
  let '(n, s) := st in
  match data with
  | [] => if v_guard_empty V then Cont st [] else Panic PEmptyDatagram
  | ty :: body =>
    if s_est s then
      if ty =? 0 then
        match decode_data n data with
        | None => Cont st []
        | Some m => match data_events V n m with
                    | Some evs => Cont st evs
                    | None => Panic PPingLoop
                    end
        end
      else if ty =? 1 then
        match tok E body with
        | None => Cont st []                               (* json.Unmarshal: syntax error *)
        | Some j => match decode_routing_update j with
                    | JErr => Cont st []
                    | JOk ri => step_route_est E n s ri
                    end
        end
      else if ty =? 2 then
        match tok E body with
        | None => Cont st []
        | Some j => step_advert V n s j
        end
      else if ty =? 3 then Stop (remove_conn n (s_id s)) false   (* peer rejected us *)
      else Cont st []                                      (* "Unknown message type" *)
    else
      if ty =? 1 then
        match tok E body with
        | None => Cont st []
        | Some j =>
          match decode_routing_update j with
          | JErr => Cont st []
          | JOk ri =>
            let id := ru_fwd ri in
            if admissible V (n_id n) (s_bi s) (n_conns n) id
            then Cont (establish E n s id) []
            else Stop n true                               (* sendAndLogConnectionRejection *)
          end
        end
      else if ty =? 3 then Stop n false    (* removeConnection(""): nothing to remove *)
      else Cont st []
  end.

Definition proto_step := proto_step_gen repaired.
Definition proto_step_pinned := proto_step_gen pinned.

(* ctx / ci.Context done (peer hung up, idle timeout, shutdown): the loop's other select arm *)
Definition proto_hangup (st : node * sess) : node := remove_conn (fst st) (s_id (snd st)).

(* ---------- a finite sequence of datagrams on one session ---------- *)

Inductive run_result :=
| RCont (st : node * sess) (evs : list event)
| RStop (n : node) (reject : bool) (evs : list event)
| RPanic (p : panic_point).

Fixpoint proto_run_gen (V : variant) (E : env) (st : node * sess) (ds : list bytes) (acc : list event) : run_result :=
  match ds with
  | [] => RCont st acc
  | d :: r =>
    match proto_step_gen V E st d with
    | Cont st' evs => proto_run_gen V E st' r (acc ++ evs)
    | Stop n rej => RStop n rej acc
    | Panic p => RPanic p
    end
  end.

Definition proto_run E st ds := proto_run_gen repaired E st ds [].
Definition proto_run_pinned E st ds := proto_run_gen pinned E st ds [].

(* ---------- correspondence cases ---------- *)

(* oracles as finite tables supplied with each case *)
Fixpoint tbl_get {V} (t : list (bytes * V)) (k : bytes) : option V :=
  match t with [] => None | (k', v) :: r => if beq_bytes k k' then Some v else tbl_get r k end.

Definition env_of (toks : list (bytes * json)) (hashes : list (bytes * N)) : env :=
  {| tok := tbl_get toks; hash := fun nm => match tbl_get hashes nm with Some h => h | None => 0 end |}.

Definition costs_eqb (a b : list (bytes * dy)) : bool := amap_eqb dy_eqb a b.

Definition known_eqb (a b : list (bytes * (N * N))) : bool :=
  amap_eqb (fun x y => (fst x =? fst y) && (snd x =? snd y)) a b.

Fixpoint ads_sub (a b : list (bytes * bytes * option N)) : bool :=
  match a with
  | [] => true
  | (nd, sv, t) :: r => match ads_get b nd sv with Some t' => otime_eqb t t' | None => false end && ads_sub r b
  end.
Definition ads_eqb (a b : list (bytes * bytes * option N)) : bool :=
  Nat.eqb (List.length a) (List.length b) && ads_sub a b && ads_sub b a.

(* "node:service" as netceptor.Addr.String() prints the source of a delivered packet *)
Definition deliv_of (evs : list event) : list (bytes * bytes) :=
  flat_map (fun e => match e with EDeliver f fs p => [(f ++ [58] ++ fs, p)] | _ => [] end) evs.

Fixpoint deliv_eqb (a b : list (bytes * bytes)) : bool :=
  match a, b with
  | [], [] => true
  | (x, p) :: a', (y, q) :: b' => beq_bytes x y && beq_bytes p q && deliv_eqb a' b'
  | _, _ => false
  end.

(* what the harness observed after the sequence *)
Record proto_obs := {
  o_closed : bool;                        (* the node closed the session *)
  o_reject : bool;                        (* a type-3 message was written to it *)
  o_conns : list (bytes * dy);            (* Status().Connections *)
  o_selfrow : list (bytes * dy);          (* Status().KnownConnectionCosts[self] *)
  o_known : list (bytes * (N * N));       (* knownNodeInfo *)
  o_ads : list (bytes * bytes * option N);(* serviceAdsReceived *)
  o_deliv : list (bytes * bytes);         (* packets read from the "probe" listener *)
  o_done : bool                           (* NetceptorDone() closed *)
}.

Definition node_agrees (n : node) (evs : list event) (o : proto_obs) : bool :=
  if n_down n then o_done o              (* after Shutdown every session tears its state down *)
  else negb (o_done o) && costs_eqb (n_conns n) (o_conns o) && costs_eqb (n_selfrow n) (o_selfrow o) &&
       known_eqb (n_known n) (o_known o) && ads_eqb (n_ads n) (o_ads o) &&
       deliv_eqb (deliv_of evs) (o_deliv o).

Record proto_case := {
  pc_toks : list (bytes * json);          (* tokenizer oracle: body -> value tree (absent = invalid JSON) *)
  pc_hashes : list (bytes * N);           (* hash oracle *)
  pc_node : node;                         (* the node before the session (with its other connections) *)
  pc_bi : binfo;
  pc_dgrams : list bytes;
  pc_obs : proto_obs }.

Definition proto_check (c : proto_case) : bool :=
  let E := env_of (pc_toks c) (pc_hashes c) in
  match proto_run E (pc_node c, sess_init (pc_bi c)) (pc_dgrams c) with
  | RPanic _ => false                     (* the repaired loop never panics (theorem); the child lived *)
  | RStop n rej evs =>
    (n_down n || (o_closed (pc_obs c) && Bool.eqb rej (o_reject (pc_obs c)))) && node_agrees n evs (pc_obs c)
  | RCont (n, _) evs =>
    (n_down n || (negb (o_closed (pc_obs c)) && negb (o_reject (pc_obs c)))) && node_agrees n evs (pc_obs c)
  end.

(* ---------- stream backends: where datagram boundaries come from ---------- *)

(* proto_step sees whole datagrams.  On stream backends (TCP, ExternalBackend over a net.Conn)
   pkg/framer cuts them out of the byte stream: two header bytes, little endian, announce the
   length.  Here that length is a number in N, never wrapped; the implementation computes it in
   Go integers, and this model is only right if that arithmetic agrees with N on ALL 65536 header
   values (an addition carried out in uint16 would wrap 65534/65535 to 0/1 and slice out of
   range).  That agreement is not proved: the C07 harness checks it exhaustively on the real
   framer (all 65536 headers x no / short / sufficient tail: ready iff the announced bytes have
   arrived, exactly those bytes are returned, the rest is left, no panic) and at the boundaries
   over real stream sessions. *)
Definition frame_pop (b : bytes) : option (bytes * bytes) :=
  match b with
  | lo :: hi :: r =>
    let n := N.to_nat (lo + 256 * hi) in
    if Nat.leb n (List.length r) then Some (firstn n r, skipn n r) else None
  | _ => None
  end.

(* the C07 harness emits both kinds of cases into one stream *)
Inductive c07_case := CJson (c : pjson_case) | CProto (c : proto_case).
Definition c07_check (c : c07_case) : bool :=
  match c with CJson j => pjson_check j | CProto p => proto_check p end.
