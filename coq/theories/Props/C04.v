(* Props/C04.v — property C04: acknowledged work units survive crash/restart with identity and
   outcome.  Only statements, each closed by [exact], and their assumptions.
   Models: Model/Fs.v (file system, atomic operations, a kill = a prefix), Model/Status.v (the
   record and when a file content is one), Model/Crash.v (every workceptor operation as its
   file-system steps; histories of the daemon and of the command runner; [recover] =
   scanForUnit + Restart), tied to the code by `./check C04`.

   The statement at full strength ([C04_full_statement]: for every scenario, every interleaving
   of daemon and runner, every step at which the daemon can die) does NOT hold of the code as it
   is: [C04_refuted].  What holds is [C04_partial]: every crash point outside the two
   truncate->write windows.  The refuting crash is replayed on the real binary by the harness
   (VERIF_CRASH=update.truncated:n); see known_findings.json. *)
From Receptor Require Import Model.Crash Model.CrashMirror Proofs.Fs Proofs.Status Proofs.Crash Proofs.CrashMirror.
Open Scope N_scope.

(* ---------- the model's files are the file system's ---------- *)

(* each step of the unit model is the file-system operation it stands for *)
Theorem C04_model_is_fs : forall u fs o,
  well_typed u fs ->
  project u (apply_op fs (fsop_of u o)) = uapply (project u fs) o /\
  well_typed u (apply_op fs (fsop_of u o)).
Proof. exact project_apply. Qed.
Print Assumptions C04_model_is_fs.

(* ... and touches nothing outside the unit's directory: units do not disturb each other, a mix
   of local and remote submissions is the units one by one *)
Theorem C04_units_independent : forall u o fs q,
  is_under (unitp u) q = false -> fs_get (apply_op fs (fsop_of u o)) q = fs_get fs q.
Proof. exact fsop_frame. Qed.
Print Assumptions C04_units_independent.

(* what is written is read back; an empty file is not a record *)
Theorem C04_record_round_trip : forall s, parse (encode s) = Some s.
Proof. exact parse_encode. Qed.
Print Assumptions C04_record_round_trip.

Theorem C04_empty_is_no_record : parse [] = None.
Proof. exact parse_nil. Qed.
Print Assumptions C04_empty_is_no_record.

(* ---------- refuted at full strength ---------- *)

(* A local command unit that has FINISHED (Succeeded, 5 bytes of output).  The daemon is killed
   between the truncation and the rewrite of the record in which it clears the runner's PID.
   After the restart the unit is listed as Failed, with an empty work type ("Unknown WorkType"),
   the file is rewritten that way, and it stays so after any number of further restarts. *)
Theorem C04_refuted :
  wf_scenario witness_sc = true /\ cp_runner witness_cp = false /\
  in_window witness_sc witness_cp = true /\
  let o := experiment witness_sc witness_cp in
  o_acked o = true /\
  o_before o = Some (mkStatus S_SUCCEEDED 5 emit_t (XCmd 4242)) /\
  v_listed (o_restart o) = true /\ v_known (o_restart o) = false /\
  v_status (o_restart o) = mkStatus S_FAILED 5 [] XNone /\
  v_status (o_again o) = mkStatus S_FAILED 5 [] XNone /\
  holds witness_sc witness_cp = false.
Proof. exact C04_refuted_thm. Qed.
Print Assumptions C04_refuted.

Theorem C04_full_statement_is_false : ~ C04_full_statement.
Proof. exact C04_full_statement_refuted. Qed.
Print Assumptions C04_full_statement_is_false.

(* the same window while the unit has not been started yet: the work type is lost *)
Theorem C04_refuted_never_started :
  in_window witness_sc witness_cp_pending = true /\
  let o := experiment witness_sc witness_cp_pending in
  o_acked o = true /\ s_wtype (v_status (o_restart o)) = [] /\ v_known (o_restart o) = false /\
  holds witness_sc witness_cp_pending = false.
Proof. exact C04_refuted_pending_thm. Qed.
Print Assumptions C04_refuted_never_started.

(* ... and for a remote unit started on node "b": work type and binding are lost *)
Theorem C04_refuted_remote :
  wf_scenario witness_remote = true /\ in_window witness_remote witness_cp_remote = true /\
  let o := experiment witness_remote witness_cp_remote in
  o_acked o = true /\
  o_before o = Some (mkStatus S_PENDING 0 remote_name (XRemote [98] emit_t [85; 49] true)) /\
  v_status (o_restart o) = mkStatus S_FAILED 0 [] XNone /\
  holds witness_remote witness_cp_remote = false.
Proof. exact C04_refuted_remote_thm. Qed.
Print Assumptions C04_refuted_remote.

(* the quantifier of the property also names the death of the runner process: when the runner
   is killed (here between two rewrites, no window involved) the command goes on writing but
   nobody ever records its end — the unit is Running for ever, before and after any restart *)
Theorem C04_runner_killed_never_completes :
  let o := experiment witness_sc witness_cp_runner in
  o_acked o = true /\ in_window witness_sc witness_cp_runner = false /\
  s_wtype (v_status (o_restart o)) = emit_t /\
  s_state (v_status (o_final o)) = S_RUNNING /\
  s_state (v_status (o_again o)) = S_RUNNING /\
  stdout_content (o_final_fs o) = [1; 2; 3].
Proof. exact runner_killed_never_completes_thm. Qed.
Print Assumptions C04_runner_killed_never_completes.

(* ---------- what does hold ---------- *)

(* C04_partial: for EVERY scenario (local command or remote work, any output, any exit status),
   EVERY interleaving of the daemon's and the producer's operations, EVERY operation and step at
   which the daemon dies EXCEPT between the truncation and the rewrite of a status record, and any
   progress of a surviving runner while the node is down: a unit whose ID had been returned is
   listed with its work type and binding; if it had finished it reports the same state and size
   and its output is complete; if it is being produced it is followed to a finished state with the
   full size and output; if it never started it is Failed; and one more crash/restart changes
   nothing. *)
Theorem C04_partial : forall sc cp,
  wf_scenario sc = true -> cp_runner cp = false -> in_window sc cp = false -> holds sc cp = true.
Proof. exact C04_partial_thm. Qed.
Print Assumptions C04_partial.

(* crash_recovery_idempotent: after the first restart of a unit at rest — with an intact record,
   or with the record emptied in the window, whose first restart already is the loss — any
   number of further kill/restart cycles answers the same *)
Theorem C04_crash_recovery_idempotent : forall types x k,
  uf_dir x = true -> (exists s, uf_status x = Some (encode s)) \/ uf_status x = Some [] ->
  same_answer (snd (recover types (cycles types x (S k)))) (snd (recover types (cycles types x 1))).
Proof. exact crash_recovery_idempotent_thm. Qed.
Print Assumptions C04_crash_recovery_idempotent.

(* final states are fixed points of recovery: a unit at rest in ANY final state the code records —
   Succeeded, Failed, Canceled; command, started remote, or of an unknown type — with an intact
   record is answered with exactly that record after a restart, and nothing but the lock file is
   touched; the same after any number of restarts *)
Theorem C04_final_states_fixed : forall types x s,
  uf_dir x = true -> uf_status x = Some (encode s) -> st_final (s_state s) = true ->
  (kind_of types (s_wtype s) = KRemote -> started s = true) ->
  exists known mon,
    recover types x = (locked x, mkView true known s mon) /\ core (locked x) = core x.
Proof. exact final_states_fixed_thm. Qed.
Print Assumptions C04_final_states_fixed.

Theorem C04_final_states_fixed_cycles : forall types x s k,
  uf_dir x = true -> uf_status x = Some (encode s) -> st_final (s_state s) = true ->
  (kind_of types (s_wtype s) = KRemote -> started s = true) ->
  core (cycles types x k) = core x /\ v_status (snd (recover types (cycles types x k))) = s.
Proof. exact final_states_fixed_cycles_thm. Qed.
Print Assumptions C04_final_states_fixed_cycles.

(* a remote unit that never started and has Failed (its time to live ran out, it was cancelled
   locally, an earlier restart failed it) is marked Failed again by every restart: the record —
   state, size, work type, binding — is rewritten as it was *)
Theorem C04_failed_unstarted_remote_fixed : forall types x s,
  uf_dir x = true -> uf_status x = Some (encode s) ->
  kind_of types (s_wtype s) = KRemote -> started s = false ->
  s_state s = S_FAILED -> s_size s = stdout_size x ->
  snd (recover types x) = mkView true true s false /\
  uf_status (fst (recover types x)) = Some (encode s) /\ core (fst (recover types x)) = core x.
Proof. exact failed_unstarted_remote_fixed_thm. Qed.
Print Assumptions C04_failed_unstarted_remote_fixed.

(* The start-up scan over the whole data directory (scanForUnits): what it does with the entry
   of a name, and what the daemon then answers for it, is what it does with that entry alone —
   no other entry's presence, content or failure and no position in the directory order enters. *)
Theorem C04_scan_independent : forall types d n,
  dlookup n (scan_dir types d) = option_map (scan_entry types) (dlookup n d).
Proof. exact scan_independent_thm. Qed.
Print Assumptions C04_scan_independent.

Theorem C04_scan_other_entries_irrelevant : forall types d1 d2 n,
  dlookup n d1 = dlookup n d2 ->
  dlookup n (scan_dir types d1) = dlookup n (scan_dir types d2).
Proof. exact scan_other_entries_irrelevant_thm. Qed.
Print Assumptions C04_scan_other_entries_irrelevant.

(* whatever is put in front of, behind or between: a unit is recovered as if it were alone *)
Theorem C04_scan_crowd_irrelevant : forall types before after n x,
  dlookup n before = None ->
  dlookup n (scan_dir types (before ++ (n, DUnit x) :: after)) = Some (scan_entry types (DUnit x)).
Proof. exact scan_crowd_irrelevant_thm. Qed.
Print Assumptions C04_scan_crowd_irrelevant.

(* a scan that gives up at the first entry it counts as a failure (whatever the criterion) never
   reaches the unit behind it; the real one does *)
Theorem C04_scan_stop_at_first_failure_refuted : forall fails types n1 n2 e x,
  fails e = true -> n1 <> n2 ->
  dlookup n2 (scan_stop fails types [(n1, e); (n2, DUnit x)]) = None /\
  dlookup n2 (scan_dir types [(n1, e); (n2, DUnit x)]) = Some (scan_entry types (DUnit x)).
Proof. exact scan_stop_refuted_thm. Qed.
Print Assumptions C04_scan_stop_at_first_failure_refuted.

(* Remote work, the output behind the record: a started remote unit with an intact record in ANY
   state (Succeeded and Failed included) and ANY number of output bytes stored is monitored again
   after the restart; its record is answered unchanged and, the executing node holding the
   output, `work results` ends with everything up to the recorded size. *)
Theorem C04_output_behind_record_recovered : forall types x s,
  uf_dir x = true -> uf_status x = Some (encode s) ->
  kind_of types (s_wtype s) = KRemote -> started s = true ->
  let v := snd (recover types x) in
  v_listed v = true /\ v_status v = s /\ v_monitored v = true /\
  forall stored remote_len, s_size s <= remote_len ->
    results_end v (stored_in_the_end v stored remote_len) = true.
Proof. exact output_behind_record_recovered_thm. Qed.
Print Assumptions C04_output_behind_record_recovered.

(* ... whereas the command unit's rule (a complete unit is not monitored again) on a remote unit
   leaves fewer bytes than recorded for ever: `work results` never ends *)
Theorem C04_remote_skip_complete_refuted : forall types x s stored remote_len,
  uf_dir x = true -> uf_status x = Some (encode s) -> st_complete (s_state s) = true ->
  kind_of types (s_wtype s) = KRemote -> started s = true -> stored < s_size s ->
  let v := snd (recover_skip_complete types x) in
  v_status v = s /\ stored_in_the_end v stored remote_len = stored /\
  results_end v (stored_in_the_end v stored remote_len) = false.
Proof. exact skip_complete_refuted_thm. Qed.
Print Assumptions C04_remote_skip_complete_refuted.

(* the hypotheses of C04_partial are satisfiable by a non-trivial history: the finished unit of
   the refutation, the same operation of the daemon, killed one step later (after the rewrite) *)
Example C04_nonvacuous :
  wf_scenario witness_sc = true /\ cp_runner witness_cp_after = false /\
  in_window witness_sc witness_cp_after = false /\
  o_acked (experiment witness_sc witness_cp_after) = true /\
  v_status (o_restart (experiment witness_sc witness_cp_after)) = mkStatus S_SUCCEEDED 5 emit_t XNone.
Proof. exact nonvacuous_thm. Qed.
