(* Props/C14.v — property C14: status records are updated atomically with respect to every other
   reader and writer.  Only statements, each closed by [exact], and their assumptions.
   Model: Model/Lock.v (the step sequence of StatusFileData.UpdateFullStatus / Load / Save of
   pkg/workceptor/workunitbase.go, N goroutines x M processes as one list of model processes,
   every schedule), tied to the code by `./check C14` (strace projection + stress). *)
From Receptor Require Import Model.Lock Proofs.Lock Model.LockMem Proofs.LockMem.
Open Scope N_scope.

(* For EVERY schedule: whenever the lock is free, the file, every process' in-memory record and
   the log of what every Read returned are exactly those of executing the same operations ONE
   AT A TIME in lock-acquisition order (linearizability; the file may be absent at the start). *)
Theorem C14_linearizable : forall (R : Type) (file0 : fcontent R) (progs : list (list (op R) * R)) sched,
  let c := run true sched (init file0 progs) in
  let a := atomic_run (a_init file0 progs) (c_order c) in
  c_lock c = None ->
  c_file c = a_file a /\ map p_mem (c_procs c) = a_mems a /\ c_reads c = a_reads a.
Proof. exact linearizable. Qed.
Print Assumptions C14_linearizable.

(* ... so, when no Save (which replaces the record by the saver's in-memory one) is among them,
   the stored record is the fold of ALL update functions in that order over the record stored
   before: no update is lost, each is applied to the latest stored record *)
Theorem C14_updates_linearizable : forall (R : Type) (r0 : R) (progs : list (list (op R) * R)) sched,
  let c := run true sched (init (FRec r0) progs) in
  c_lock c = None -> no_saves (c_order c) = true ->
  c_file c = FRec (apply_all (upd_fns (c_order c)) r0).
Proof. exact updates_linearizable. Qed.
Print Assumptions C14_updates_linearizable.

(* ... and when all programs have finished, that order contains every operation of every process
   exactly once, in program order (holds with or without the lock) *)
Theorem C14_no_update_lost : forall (R : Type) locking (file0 : fcontent R) (progs : list (list (op R) * R)) sched,
  let c := run locking sched (init file0 progs) in
  all_done c = true ->
  forall q pm, nth_error progs q = Some pm -> ops_of q (c_order c) = fst pm.
Proof. exact no_update_lost. Qed.
Print Assumptions C14_no_update_lost.

(* a reader never sees a partially written record: at EVERY point of EVERY schedule of programs of
   updates, loads AND saves, everything any Read step (of a Load or of an update) has returned is
   a whole record, the one stored after a prefix of the order — never the empty file between
   Truncate/OpenTrunc and Write *)
Theorem C14_loads_see_whole_records : forall (R : Type) (r0 : R) (progs : list (list (op R) * R)) sched,
  let c := run true sched (init (FRec r0) progs) in
  forall pv, In pv (c_reads c) ->
  exists n r, (n <= length (c_order c))%nat /\ snd pv = FRec r /\
              a_file (atomic_run (a_init (FRec r0) progs) (firstn n (c_order c))) = FRec r.
Proof. exact loads_see_whole_records. Qed.
Print Assumptions C14_loads_see_whole_records.

(* ... without Saves: the fold of the update functions of that prefix *)
Theorem C14_loads_see_fold_of_prefix : forall (R : Type) (r0 : R) (progs : list (list (op R) * R)) sched,
  let c := run true sched (init (FRec r0) progs) in
  no_saves (c_order c) = true ->
  forall pv, In pv (c_reads c) ->
  exists n, (n <= length (c_order c))%nat /\
            snd pv = FRec (apply_all (upd_fns (firstn n (c_order c))) r0).
Proof. exact loads_see_fold_of_prefix. Qed.
Print Assumptions C14_loads_see_fold_of_prefix.

(* the same without assuming that a record exists at the start (first update of a fresh file) *)
Theorem C14_reads_are_prefix_states : forall (R : Type) (file0 : fcontent R) (progs : list (list (op R) * R)) sched,
  let c := run true sched (init file0 progs) in
  forall pv, In pv (c_reads c) ->
  exists n, (n <= length (c_order c))%nat /\
            snd pv = a_file (atomic_run (a_init file0 progs) (firstn n (c_order c))).
Proof. exact reads_are_prefix_states. Qed.
Print Assumptions C14_reads_are_prefix_states.

(* fields owned by one writer are not wiped by another, on the counters the stress harness uses:
   for every schedule, when all programs are done the own counter of every writer is the number
   of ITS updates and the shared counter their total *)
Theorem C14_counters_exact : forall (progs : list (list kop)) sched,
  let nw := length progs in
  let c := run true sched (init (FRec (crec0 nw)) (kprogs nw progs)) in
  no_ksave progs = true -> all_done c = true -> c_lock c = None ->
  exists r, c_file c = FRec r /\
            snd r = map (fun ks => N.of_nat (count_incr ks)) progs /\
            fst r = nsum (snd r).
Proof. exact counters_exact. Qed.
Print Assumptions C14_counters_exact.

(* what breaks it — the same steps without lockStatusFile (mutation "drop the lock"): a schedule
   in which both writers finish and one update is lost (the result is the fold of NO order) *)
Theorem C14_without_lock_refuted :
  let c := run false lost_sched (init (FRec (0, 0)) two_writers) in
  all_done c = true /\ c_file c = FRec (0, 1) /\
  c_file c <> FRec (apply_all (upd_fns (c_order c)) (0, 0)) /\
  apply_all [inc_fst; inc_snd] (0, 0) = (1, 1) /\ apply_all [inc_snd; inc_fst] (0, 0) = (1, 1).
Proof. exact lockless_lost_update. Qed.
Print Assumptions C14_without_lock_refuted.

(* ... and a reader that finds the file empty although a record was stored all the time *)
Theorem C14_without_lock_torn_read_refuted :
  let c := run false torn_sched (init (FRec (0, 0)) writer_and_reader) in
  In (1%nat, FEmpty) (c_reads c).
Proof. exact lockless_torn_read. Qed.
Print Assumptions C14_without_lock_torn_read_refuted.

(* ... and Save with its truncating open BEFORE the lock (seeded mutation): a reader holding the
   lock finds the file empty *)
Theorem C14_save_truncating_before_lock_refuted :
  let c := run_early early_trunc_sched (init (FRec (0, 0)) saver_and_reader) in
  In (1%nat, FEmpty) (c_reads c) /\ all_done c = true /\ c_file c = FRec (5, 5).
Proof. exact save_truncating_before_lock_refuted. Qed.
Print Assumptions C14_save_truncating_before_lock_refuted.

(* ... and saveStdoutSize done as Load ; Save (two critical sections; seeded mutation) instead of the
   one locked read-modify-write of the code: the update between them is lost *)
Theorem C14_load_then_save_refuted :
  let c := run true loadsave_sched (init (FRec (0, 0)) loadsave_and_writer) in
  all_done c = true /\ c_lock c = None /\
  upd_fns (c_order c) = [inc_fst] /\ c_file c = FRec (0, 0) /\
  apply_all (upd_fns (c_order c)) (0, 0) = (1, 0).
Proof. exact load_then_save_refuted. Qed.
Print Assumptions C14_load_then_save_refuted.

(* an update is a function of the STORED record, read under the lock - never of the writer's cached
   copy: the stored record after any schedule is the same whatever the writers had cached *)
Theorem C14_update_independent_of_cache : forall (R : Type) (r0 : R) (progs1 progs2 : list (list (op R) * R)) sched,
  map fst progs1 = map fst progs2 ->
  let c1 := run true sched (init (FRec r0) progs1) in
  let c2 := run true sched (init (FRec r0) progs2) in
  c_lock c1 = None -> no_saves (c_order c1) = true ->
  c_file c1 = c_file c2.
Proof. exact update_independent_of_cache. Qed.
Print Assumptions C14_update_independent_of_cache.

(* ... and the shortcut "my cached record already has these values, skip the update" (seeded
   mutation) drops an update while reporting success: set 1, other writer sets 2, set 1 again *)
Theorem C14_cached_shortcut_refuted :
  let c := run_cached same_nn repeat_sched (init (FRec (0, 0)) repeat_writers) in
  let c' := run true repeat_sched (init (FRec (0, 0)) repeat_writers) in
  all_done c = true /\ c_file c = FRec (2, 0) /\
  all_done c' = true /\ c_file c' = FRec (1, 0).
Proof. exact cached_shortcut_refuted. Qed.
Print Assumptions C14_cached_shortcut_refuted.

(* the daemon's launch step "record the runner's pid" (command.go runCommand) must therefore be an
   update of the STORED record.  Recording it by Save of the daemon's in-memory copy (seeded
   mutation) is exactly the refuted composition above: the copy was read before the runner wrote
   (OLoad), the runner updates the record (OUpd), the Save puts the stale copy back - the very
   witness of C14_load_then_save_refuted, restated here under its own name *)
Theorem C14_pid_recorded_by_save_refuted :
  let c := run true loadsave_sched (init (FRec (0, 0)) loadsave_and_writer) in
  all_done c = true /\ c_lock c = None /\
  upd_fns (c_order c) = [inc_fst] /\ c_file c = FRec (0, 0) /\
  apply_all (upd_fns (c_order c)) (0, 0) = (1, 0).
Proof. exact load_then_save_refuted. Qed.
Print Assumptions C14_pid_recorded_by_save_refuted.

(* the record the daemon REPORTS: the in-memory copy of the long-lived unit object (Model/LockMem.v,
   one event per file-lock section, which C14_linearizable justifies).  With statusLock held around
   the file-lock section (UpdateFullStatus / UpdateBasicStatus / Load of BaseWorkUnit), for every
   trace of updates and Loads of the object and of writes by others (the runner): no update made
   through the object is missing from the in-memory record or from the file, and the in-memory
   record is a record the file held *)
Theorem C14_object_keeps_updates : forall tr r u,
  forallb nested tr = true -> In (EUpd u) tr ->
  let s := mrun tr (minit r) in
  In u (m_mem s) /\ In u (m_file s) /\ is_prefix (m_mem s) (m_file s).
Proof. exact nested_keeps_updates. Qed.
Print Assumptions C14_object_keeps_updates.

(* ... and it IS the stored record whenever the last event went through the object *)
Theorem C14_object_publishes_the_file : forall tr r,
  forallb nested tr = true -> last_through_object tr = true ->
  let s := mrun tr (minit r) in m_mem s = m_file s.
Proof. exact nested_publishes_the_file. Qed.
Print Assumptions C14_object_publishes_the_file.

(* a Load that reads the file without statusLock and assigns the copy afterwards (seeded change
   C14-H): read, an update of the same object runs to its end, publish - the update that returned
   is in the file and missing from the in-memory record *)
Theorem C14_split_load_refuted :
  let s := mrun split_witness (minit []) in
  m_file s = [1%nat] /\ m_mem s = [] /\ ~ In 1%nat (m_mem s) /\ In (EUpd 1) split_witness.
Proof. exact split_load_refuted. Qed.
Print Assumptions C14_split_load_refuted.

(* non-vacuity: with the lock, the schedule of the refutation (completed) loses nothing *)
Example C14_nonvacuous :
  let c := run true (lost_sched ++ [1; 1; 1; 1; 1; 1; 1]%nat) (init (FRec (0, 0)) two_writers) in
  all_done c = true /\ c_file c = FRec (1, 1).
Proof. exact locked_same_schedule. Qed.
