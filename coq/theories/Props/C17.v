(* Props/C17.v — property C17: sockets, listeners and streams close at any time without crash or
   leak.  Only statements, each closed by [exact], and their assumptions.
   Model: Model/Life.v — the bookkeeping (listener registry, subscriptions, goroutines per spawn
   site) of pkg/netceptor's sockets, listeners and connections as a function of the operations
   performed, with explicit Panic outcomes; [Fixed] mirrors the repaired tree, [Pinned] the tree as
   pinned.  PARTIAL by design: goroutine scheduling and quic-go's internals are visible only to
   the harness's runtime oracle (goroutine profile and registries of real meshes); the theorems
   are about the bookkeeping, which `./check C17` ties to the code on every run. *)
From Receptor Require Import Model.Life Proofs.Life.
Open Scope N_scope.

(* "never crashes the process": no history of operations whatsoever — double closes, closes with
   deliverers waiting, closes after shutdown, operations on unknown objects — reaches a panic *)
Theorem C17_close_never_panics : forall h s p, run Fixed s h <> Panic p.
Proof. exact close_never_panics. Qed.
Print Assumptions C17_close_never_panics.

(* "once both ends are done every service name, goroutine and subscription it used is released":
   in ANY state in which every socket and listener is closed, every subscription done and every
   connection closed at both ends, every node's registry is empty and no spawn site has a
   goroutine left *)
Theorem C17_all_closed_releases_everything : forall s n,
  all_closed s = true ->
  registry Fixed s n = [] /\ forall g, goroutines Fixed s g n = 0%nat.
Proof. exact all_closed_releases_everything. Qed.
Print Assumptions C17_all_closed_releases_everything.

(* "resource use does not grow with the number of past connections" — PARTIAL: a connection that
   both ends are done with and that at least one end finished with CloseConnection holds nothing,
   while its listener and everything else lives on ... *)
Theorem C17_finished_connection_releases_partial : forall s c,
  conn_done c = true -> (c_dcc c || c_acc c) = true -> conn_residue Fixed s c = 0%nat.
Proof. exact finished_connection_releases. Qed.
Print Assumptions C17_finished_connection_releases_partial.

(* ... for any number of such connections *)
Theorem C17_finished_connections_hold_nothing_partial : forall s n,
  forallb (fun x => conn_done (snd x) && (c_dcc (snd x) || c_acc (snd x))) (conns s) = true ->
  filter (fun x => (c_dnode (snd x) =? n) && eph_open Fixed s (snd x)) (conns s) = [] /\
  goroutines Fixed s SDial n = 0%nat /\ goroutines Fixed s SAccept n = 0%nat.
Proof. exact finished_connections_hold_nothing. Qed.
Print Assumptions C17_finished_connections_hold_nothing_partial.

(* ... REFUTED without that hypothesis (open finding): when both ends only call Conn.Close, which
   closes one direction of the stream, nothing ever ends the QUIC connection (keep-alives), so the
   dialler's ephemeral service and its goroutines stay for as long as the listener lives *)
Theorem C17_close_close_refuted :
  exists s c, run Fixed init h_close_close = Ok s /\ lookup 2 (conns s) = Some c /\ conn_done c = true /\
              registry Fixed s 0 = [20] /\ conn_residue Fixed s c = 2%nat /\
              goroutines Fixed s SDial 0 = 1%nat /\ goroutines Fixed s SStartUnreachable 0 = 2%nat.
Proof. exact finished_connection_close_close_refuted. Qed.
Print Assumptions C17_close_close_refuted.

(* "shutting a node down stops all of its background activity": after Shutdown, whatever else
   happens, the node has no goroutine at any spawn site *)
Theorem C17_shutdown_stops_all : forall s n s1 h s2 g,
  step Fixed s (Shutdown n) = Ok s1 -> run Fixed s1 h = Ok s2 -> goroutines Fixed s2 g n = 0%nat.
Proof. exact shutdown_stops_all. Qed.
Print Assumptions C17_shutdown_stops_all.

(* "repeatedly": a second Close of a socket changes nothing *)
Theorem C17_close_is_idempotent : forall s id s1,
  step Fixed s (PcClose id) = Ok s1 -> step Fixed s1 (PcClose id) = Ok s1.
Proof. exact close_is_idempotent. Qed.
Print Assumptions C17_close_is_idempotent.

(* CancelRead, SetDeadline..., Read and Write on either end never touch the bookkeeping, so what
   Conn.Close / CloseConnection (or any other operation) releases is the same after any number of
   them - in particular after the peer's CancelRead, when closing the QUIC stream itself fails *)
Theorem C17_stream_op_changes_nothing : forall v s cid d,
  step v s (StreamOp cid d) = Ok s \/ step v s (StreamOp cid d) = Reject.
Proof. exact stream_op_changes_nothing. Qed.
Print Assumptions C17_stream_op_changes_nothing.

Theorem C17_close_releases_the_same_after_stream_ops : forall v s ops o,
  Forall (fun x => exists cid d, x = StreamOp cid d) ops ->
  run v s (ops ++ [o]) = run v s [o].
Proof. exact close_releases_the_same_after_stream_ops. Qed.
Print Assumptions C17_close_releases_the_same_after_stream_ops.

(* Ping leaves nothing behind, answered or not *)
Theorem C17_ping_leaves_nothing : forall s n ok,
  step Fixed s (PingOp n ok) = Ok s \/ step Fixed s (PingOp n ok) = Reject.
Proof. exact ping_leaves_nothing. Qed.
Print Assumptions C17_ping_leaves_nothing.

(* non-vacuity: a history using every kind of object and operation ends in an all-closed state *)
Example C17_nonvacuous :
  exists s, run Fixed init h_full = Ok s /\ all_closed s = true /\ length (conns s) = 2%nat.
Proof. exact full_history_all_closed. Qed.

(* ---------- the pinned tree, as checked facts (each repaired by a fix: commit) ---------- *)
Theorem C17_pinned_double_close_socket_refuted :
  run Pinned init [ListenPacket 1 0 10 true; PcClose 1; PcClose 1] = Panic PNilAdvert.
Proof. exact pinned_double_close_socket_refuted. Qed.
Print Assumptions C17_pinned_double_close_socket_refuted.

Theorem C17_pinned_double_close_listener_refuted :
  run Pinned init [Listen 1 0 10 true; LiClose 1; LiClose 1] = Panic PNilAdvert.
Proof. exact pinned_double_close_listener_refuted. Qed.
Print Assumptions C17_pinned_double_close_listener_refuted.

Theorem C17_pinned_two_deliverers_refuted :
  run Pinned init [ListenPacket 1 0 10 false; Park 1; Park 1; PcClose 1] = Panic PDoubleCloseChan.
Proof. exact pinned_two_deliverers_refuted. Qed.
Print Assumptions C17_pinned_two_deliverers_refuted.

Theorem C17_pinned_dial_closeconnection_refuted :
  (exists s, run Pinned init h_dial_cc = Ok s /\ registry Pinned s 0 = [20] /\ goroutines Pinned s SStartUnreachable 0 = 2%nat) /\
  (exists s, run Fixed init h_dial_cc = Ok s /\ registry Fixed s 0 = [] /\ forall g, goroutines Fixed s g 0 = 0%nat).
Proof. exact pinned_dial_closeconnection_refuted. Qed.
Print Assumptions C17_pinned_dial_closeconnection_refuted.

Theorem C17_pinned_second_close_unregisters_refuted :
  (exists s, run Pinned init h_reuse = Ok s /\ registry Pinned s 0 = []) /\
  (exists s, run Fixed init h_reuse = Ok s /\ registry Fixed s 0 = [10]).
Proof. exact pinned_second_close_unregisters_refuted. Qed.
Print Assumptions C17_pinned_second_close_unregisters_refuted.

Theorem C17_pinned_failed_ping_refuted :
  exists s, run Pinned init [PingOp 0 false; PingOp 0 true; PingOp 0 false; PingOp 0 false] = Ok s /\
            goroutines Pinned s SPing 0 = 3%nat.
Proof. exact pinned_failed_ping_refuted. Qed.
Print Assumptions C17_pinned_failed_ping_refuted.
