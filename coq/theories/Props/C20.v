(* Props/C20.v — property C20: issued certificates carry exactly the requested names.
   Only statements, each closed by [exact], and their assumptions.  Model: Model/San.v (mirrors
   pkg/utils/other_name.go after the "fix:" commit), tied to the code by `./check C20`. *)
From Coq Require Import String.
From Receptor Require Import Model.San Proofs.San.
Open Scope N_scope.

(* MakeReceptorSAN is total on in-memory inputs *)
Theorem C20_encoder_total : forall dns ips ids, exists v, make_san dns ips ids = Ok v.
Proof. exact make_san_total. Qed.
Print Assumptions C20_encoder_total.

(* reading the node IDs back from the encoder's output returns exactly the encoded IDs, for
   every list of IDs (any length below the 2^31 limit of the encoding itself, any UTF-8 content,
   duplicates, empty list) and every list of DNS names and IP addresses *)
Theorem C20_names_round_trip : forall dns ips ids v,
  san_ok dns ips ids = true -> forallb utf8_valid ids = true ->
  make_san dns ips ids = Ok v -> receptor_names v = Ok ids.
Proof. exact san_roundtrip. Qed.
Print Assumptions C20_names_round_trip.

(* ... and for IDs that are not UTF-8 (outside the property's quantifier) an error, never another name *)
Theorem C20_never_a_different_name : forall dns ips ids v,
  san_ok dns ips ids = true -> make_san dns ips ids = Ok v ->
  receptor_names v = Ok ids \/ exists e, receptor_names v = Err e.
Proof. exact decode_never_misnames. Qed.
Print Assumptions C20_never_a_different_name.

(* the extension contains exactly the requested names, in order: DNS, IP, node IDs *)
Theorem C20_exactly_the_requested_names : forall dns ips ids v,
  san_ok dns ips ids = true -> make_san dns ips ids = Ok v ->
  general_names v = Ok (san_pairs dns ips ids).
Proof. exact general_names_make_san. Qed.
Print Assumptions C20_exactly_the_requested_names.

(* the hypotheses are satisfiable by a non-trivial request (300-byte ID) *)
Example C20_nonvacuous :
  san_ok [str "a.example"%string; str "b"%string] [[10; 0; 0; 1]] [id_of_len 300; str "node-1"%string] = true
  /\ forallb utf8_valid [id_of_len 300; str "node-1"%string] = true.
Proof. exact san_ok_example. Qed.

(* the encoder of the pinned tree (fixed two-byte strip) violates the round trip at 113 bytes:
   kept as a theorem so that the historical defect is a checked fact, see known_findings.json *)
Theorem C20_pinned_encoder_refuted : exists ids,
  forallb utf8_valid ids = true /\ san_ok [] [] ids = true /\
  exists v, make_san_fixed2 [] [] ids = Ok v /\ receptor_names v <> Ok ids.
Proof. exact fixed2_refuted. Qed.
Print Assumptions C20_pinned_encoder_refuted.

(* ... and verify as exactly those IDs (appended with property C09's model of ReceptorVerifyFunc,
   Model/Tls.v): for a certificate whose subjectAltName was produced by MakeReceptorSAN from the node
   IDs [ids], presented with good chain / validity / usage facts for the role and an acceptable pin
   list, receptor-name verification with expected ID [x] succeeds if and only if [x] is one of [ids] *)
From Receptor Require Import Model.Tls Proofs.Tls.

Theorem C20_verify_accepts_exactly_requested : forall dns ips ids v vt r pins x f now,
  san_ok dns ips ids = true -> forallb utf8_valid ids = true ->
  make_san dns ips ids = Ok v ->
  f_names f = names_of_san (Some v) ->
  f_present f = true -> f_parses f = true -> role_of vt = Some r ->
  chain_ok r f = true -> time_ok f now = true -> eku_ok r f = true -> pins_ok pins f ->
  (verify (mkCfg vt HOST_RECEPTOR x pins) f now = Accept <-> In x ids).
Proof. exact verify_accepts_exactly_requested. Qed.
Print Assumptions C20_verify_accepts_exactly_requested.
