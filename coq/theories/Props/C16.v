(* Props/C16.v — property C16: senders learn when the target service does not exist; dials to it
   fail fast.  Only statements, each closed by [exact], and their assumptions.
   Model: Model/Unreach.v (handleMessageData / forwardMessage / sendUnreachable /
   handleUnreachable / the per-socket filter of StartUnreachable / monitorUnreachable of the
   repaired tree), tied to the code by `./check C16`.  [rt] is any routing whatsoever (a function
   from two node names to the list of nodes visited); [w] any list of nodes; hypotheses are
   boolean. *)
From Coq Require Import String.
From Receptor Require Import Model.Unreach Proofs.Unreach.
Open Scope N_scope.

(* "only that sender's socket receives it", "naming the original source and destination":
   whatever is sent, through whatever routing, with any hop budget and any fate at the listener,
   every socket that is told anything is the socket bound on the original source node to the
   original source service, and the four fields it reads are the four fields of the datagram *)
Theorem C16_notice_to_sender_only : forall fixed w rt mh hops p f nd s x,
  wf_world w = true ->
  utf8_valid (p_fn p) = true -> utf8_valid (p_fs p) = true ->
  utf8_valid (p_tn p) = true -> utf8_valid (p_ts p) = true ->
  In (nd, s, x) (o_recv (send_gen fixed w rt mh hops p f)) ->
  nd = p_fn p /\ s = p_fs p /\
  (exists n, find_node w nd = Some n /\ In s (nd_bound n)) /\
  nt_fn x = p_fn p /\ nt_tn x = p_tn p /\ nt_fs x = p_fs p /\ nt_ts x = p_ts p.
Proof. exact notice_to_sender_only. Qed.
Print Assumptions C16_notice_to_sender_only.

(* "the sender's socket receives a 'service unknown' notice": the datagram gets through [mid] to
   a live node [d] on which nothing listens on the addressed service, and the notice can travel
   back through [back]: the outcome is exactly one notification, at exactly the sending socket *)
Theorem C16_unknown_service_is_reported : forall w rt mh hops p f mid back d n,
  wf_world w = true ->
  utf8_valid (p_fn p) = true -> utf8_valid (p_fs p) = true ->
  beq_bytes (p_fn p) (p_tn p) = false ->
  too_long (p_fs p) || too_long (p_ts p) = false ->
  rt (p_fn p) (p_tn p) = mid ++ [p_tn p] -> transit_ok w mid hops p = true ->
  find_node w (p_tn p) = Some d -> fw_eval (nd_fw d) p = FwAccept ->
  reserved (p_ts p) = false -> mem (p_ts p) (nd_bound d) = false ->
  rt (p_tn p) (p_fn p) = back ++ [p_fn p] -> transit_ok w back mh (notice_pkt (p_tn p) p) = true ->
  find_node w (p_fn p) = Some n -> fw_eval (nd_fw n) (notice_pkt (p_tn p) p) = FwAccept ->
  mem (p_fs p) (nd_bound n) = true ->
  send w rt mh hops p f = mkout SNone None false [(p_fn p, p_fs p, notif_of (p_tn p) p PUnknown)].
Proof. exact unknown_service_is_reported. Qed.
Print Assumptions C16_unknown_service_is_reported.

(* "or was closed at any moment relative to the send": the socket exists when the datagram
   arrives and is closed before anybody reads it — same answer (repaired tree) *)
Theorem C16_closed_while_waiting_is_reported : forall w rt mh hops p mid back d n,
  wf_world w = true ->
  utf8_valid (p_fn p) = true -> utf8_valid (p_fs p) = true ->
  beq_bytes (p_fn p) (p_tn p) = false ->
  too_long (p_fs p) || too_long (p_ts p) = false ->
  rt (p_fn p) (p_tn p) = mid ++ [p_tn p] -> transit_ok w mid hops p = true ->
  find_node w (p_tn p) = Some d -> fw_eval (nd_fw d) p = FwAccept ->
  reserved (p_ts p) = false -> mem (p_ts p) (nd_bound d) = true ->
  rt (p_tn p) (p_fn p) = back ++ [p_fn p] -> transit_ok w back mh (notice_pkt (p_tn p) p) = true ->
  find_node w (p_fn p) = Some n -> fw_eval (nd_fw n) (notice_pkt (p_tn p) p) = FwAccept ->
  mem (p_fs p) (nd_bound n) = true ->
  send w rt mh hops p FClosedWaiting
  = mkout SNone None false [(p_fn p, p_fs p, notif_of (p_tn p) p PUnknown)].
Proof. exact closed_while_waiting_is_reported. Qed.
Print Assumptions C16_closed_while_waiting_is_reported.

(* a service name of more than 8 bytes never reaches the wire (it would be cut to another name):
   the caller is told at once and nobody else anything *)
Theorem C16_too_long_name_is_refused : forall fixed w rt mh hops p f,
  too_long (p_fs p) || too_long (p_ts p) = true ->
  send_gen fixed w rt mh hops p f = mkout STooLong None false [].
Proof. exact too_long_name_is_refused. Qed.
Print Assumptions C16_too_long_name_is_refused.

(* "a packet silently dropped by policy produces no notice at all": nothing is returned, read or
   told to anybody, on either tree *)
Theorem C16_drop_is_silent : forall fixed w rt mh hops p f mid d rest nd,
  too_long (p_fs p) || too_long (p_ts p) = false ->
  rt (p_fn p) (p_tn p) = mid ++ d :: rest -> transit_ok w mid hops p = true ->
  find_node w d = Some nd -> fw_eval (nd_fw nd) p = FwDrop ->
  send_gen fixed w rt mh hops p f = quiet.
Proof. exact drop_is_silent. Qed.
Print Assumptions C16_drop_is_silent.

(* "a stream dial to such a service is abandoned because of that notice": the dial is cancelled
   exactly when its own socket is told 'service unknown' for the dialled address ... *)
Theorem C16_dial_cancelled_by_notice : forall w rt mh p f,
  dial w rt mh p f = DCancelled <->
  o_sync (send w rt mh mh p f) = SNone /\
  exists x, In (p_fn p, p_fs p, x) (o_recv (send w rt mh mh p f)) /\
            nt_pb x = PUnknown /\ nt_tn x = p_tn p /\ nt_ts x = p_ts p.
Proof. exact dial_cancelled_by_notice. Qed.
Print Assumptions C16_dial_cancelled_by_notice.

(* a notification cancels only the connection it names: on a socket shared by several
   connections (everything one listener has accepted) a monitor fires only for the connection
   with the very same four addresses as the datagram that caused the notification *)
Theorem C16_monitor_only_own_connection : forall fixed w rt mh hops p f nd s x p',
  wf_world w = true ->
  utf8_valid (p_fn p) = true -> utf8_valid (p_fs p) = true ->
  utf8_valid (p_tn p) = true -> utf8_valid (p_ts p) = true ->
  In (nd, s, x) (o_recv (send_gen fixed w rt mh hops p f)) ->
  monitor_match p' (nd, s, x) = true ->
  p_fn p' = p_fn p /\ p_fs p' = p_fs p /\ p_tn p' = p_tn p /\ p_ts p' = p_ts p.
Proof. exact monitor_only_own_connection. Qed.
Print Assumptions C16_monitor_only_own_connection.

(* ... which is what happens when nothing listens there ... *)
Theorem C16_dial_to_unbound_service_is_cancelled : forall w rt mh p f mid back d n,
  wf_world w = true ->
  utf8_valid (p_fn p) = true -> utf8_valid (p_fs p) = true ->
  utf8_valid (p_tn p) = true -> utf8_valid (p_ts p) = true ->
  beq_bytes (p_fn p) (p_tn p) = false ->
  too_long (p_fs p) || too_long (p_ts p) = false ->
  rt (p_fn p) (p_tn p) = mid ++ [p_tn p] -> transit_ok w mid mh p = true ->
  find_node w (p_tn p) = Some d -> fw_eval (nd_fw d) p = FwAccept ->
  reserved (p_ts p) = false -> mem (p_ts p) (nd_bound d) = false ->
  rt (p_tn p) (p_fn p) = back ++ [p_fn p] -> transit_ok w back mh (notice_pkt (p_tn p) p) = true ->
  find_node w (p_fn p) = Some n -> fw_eval (nd_fw n) (notice_pkt (p_tn p) p) = FwAccept ->
  mem (p_fs p) (nd_bound n) = true ->
  dial w rt mh p f = DCancelled.
Proof. exact dial_to_unbound_service_is_cancelled. Qed.
Print Assumptions C16_dial_to_unbound_service_is_cancelled.

(* ... and not when the dial's packets are dropped by policy *)
Theorem C16_dropped_dial_is_not_cancelled : forall w rt mh p f mid d rest nd,
  too_long (p_fs p) || too_long (p_ts p) = false ->
  rt (p_fn p) (p_tn p) = mid ++ d :: rest -> transit_ok w mid mh p = true ->
  find_node w d = Some nd -> fw_eval (nd_fw nd) p = FwDrop ->
  dial w rt mh p f = DTimesOut.
Proof. exact dropped_dial_is_not_cancelled. Qed.
Print Assumptions C16_dropped_dial_is_not_cancelled.

(* the hypotheses are satisfiable: three nodes in a line, unrelated sockets on each, a firewall
   rule on the transit node *)
Example C16_nonvacuous :
  let w := [mknode (str "a") [str "src"; str "x"] []; mknode (str "m") [str "y"] [mkrule None None None (Some (str "blk")) FwDrop];
            mknode (str "b") [str "z"] []] in
  let rt := line_route [str "a"; str "m"; str "b"] in
  let p := mkpkt (str "a") (str "src") (str "b") (str "tgt") in
  wf_world w = true /\ rt (p_fn p) (p_tn p) = [str "a"; str "m"] ++ [p_tn p] /\
  transit_ok w [str "a"; str "m"] 30 p = true /\
  rt (p_tn p) (p_fn p) = [str "b"; str "m"] ++ [p_fn p] /\
  transit_ok w [str "b"; str "m"] 30 (notice_pkt (p_tn p) p) = true /\
  send w rt 30 30 p FRead = mkout SNone None false [(str "a", str "src", notif_of (str "b") p PUnknown)].
Proof. exact unknown_service_hypotheses_hold. Qed.

(* the pinned tree dropped a datagram that was waiting for a socket when the socket was closed:
   nobody read it and nobody was told (repaired by the fix: commit; kept as a checked fact) *)
Theorem C16_closed_while_waiting_pinned_refuted :
  wf_world (ex_world [str "tgt"]) = true /\
  send_pinned (ex_world [str "tgt"]) ex_rt 30 30 ex_pkt FClosedWaiting = quiet /\
  send (ex_world [str "tgt"]) ex_rt 30 30 ex_pkt FClosedWaiting
  = mkout SNone None false [(str "a", str "src", notif_of (str "b") ex_pkt PUnknown)].
Proof. exact closed_while_waiting_pinned_refuted. Qed.
Print Assumptions C16_closed_while_waiting_pinned_refuted.

(* open finding: the notice carries the four names as JSON strings.  Without the UTF-8
   hypotheses the first theorem is false: the socket of a service whose name is not valid UTF-8
   is told nothing and a different socket (bound to the replacement-character spelling) is told
   instead ... *)
Theorem C16_non_utf8_sender_refuted :
  let w := [mknode (str "a") [bad_name; twin_name] []; mknode (str "b") [] []] in
  let p := mkpkt (str "a") bad_name (str "b") (str "tgt") in
  wf_world w = true /\ utf8_valid bad_name = false /\
  exists x, o_recv (send w ex_rt 30 30 p FRead) = [(str "a", twin_name, x)] /\ twin_name <> bad_name.
Proof. exact non_utf8_sender_refuted. Qed.
Print Assumptions C16_non_utf8_sender_refuted.

(* ... and a dial to an unbound service whose name is not valid UTF-8 is not cancelled *)
Theorem C16_non_utf8_target_dial_refuted :
  let w := [mknode (str "a") [str "eph"] []; mknode (str "b") [] []] in
  let p := mkpkt (str "a") (str "eph") (str "b") [110; 111; 255] in
  wf_world w = true /\ dial w ex_rt 30 p FRead = DTimesOut.
Proof. exact non_utf8_target_dial_refuted. Qed.
Print Assumptions C16_non_utf8_target_dial_refuted.
