(* Props/C02.v — property C02: datagrams arrive intact, only at the addressed service, with the
   true source.  Only statements, each closed by [exact], and their assumptions.
   Models: Model/Wire.v (translateDataFromMessage / translateDataToMessage / AddNameHash),
   Model/Framer.v (pkg/framer + the Recv loop of the stream backends), Model/Forward.v
   (handleMessageData / forwardMessage); tied to the code by `./check C02`.
   highwayhash is the Section variable [hash]; its collision freedom on the names in use is the
   explicit hypothesis [hash_inj_on]. *)
From Coq Require Import String.
From Receptor Require Import Model.Wire Model.Framer Model.Forward.
From Receptor Require Import Proofs.Wire Proofs.Framer Proofs.Forward.
Open Scope N_scope.

(* --- intact across the codec: EVERY payload (any length, any bytes), every hop value --- *)

(* a receiver whose table resolves the two name hashes reads back what the sender wrote *)
Theorem C02_decode_encode : forall hash self t m,
  lookup (hash64 hash (canon self (m_from m))) t = Some (canon self (m_from m)) ->
  lookup (hash64 hash (canon self (m_to m))) t = Some (canon self (m_to m)) ->
  svc_ok (m_fsvc m) = true -> svc_ok (m_tsvc m) = true ->
  decode_msg t (encode_msg hash self m) = DOk (canon_msg self m).
Proof. exact decode_encode. Qed.
Print Assumptions C02_decode_encode.

(* the same for a receiver that learned the mesh's names through AddNameHash (in any order,
   with repetitions), node IDs other than the localhost alias, hash injective on those names *)
Theorem C02_decode_encode_mesh : forall hash sself rself ns m,
  hash_inj_on hash (map (canon rself) (rself :: ns)) ->
  In (m_from m) (rself :: ns) -> In (m_to m) (rself :: ns) ->
  is_localhost (m_from m) = false -> is_localhost (m_to m) = false ->
  svc_ok (m_fsvc m) = true -> svc_ok (m_tsvc m) = true ->
  decode_msg (add_names hash rself (init_tbl hash rself) ns) (encode_msg hash sself m) = DOk m.
Proof. exact decode_encode_known. Qed.
Print Assumptions C02_decode_encode_mesh.

Theorem C02_encode_len : forall hash self m,
  length (encode_msg hash self m) = (36 + length (m_data m))%nat.
Proof. exact encode_len. Qed.
Print Assumptions C02_encode_len.

(* service names of 1-8 non-zero bytes survive the fixed 8-byte field; any 8-byte field is
   reproduced when a forwarder writes the name again *)
Theorem C02_strip_pad_id : forall s, svc_ok s = true -> strip_nul (pad8 s) = s.
Proof. exact strip_pad_id. Qed.
Print Assumptions C02_strip_pad_id.

Theorem C02_pad_strip_id : forall x, length x = 8%nat -> pad8 (strip_nul x) = x.
Proof. exact pad_strip_id. Qed.
Print Assumptions C02_pad_strip_id.

(* --- never handed to any other listener: names that do not fit the 8-byte field --- *)

(* SendMessageWithHopsToLive refuses a source or destination service name longer than 8 bytes:
   no packet is made ... *)
Theorem C02_overlong_service_refused : forall hash self m,
  (8 < blen (m_fsvc m) \/ 8 < blen (m_tsvc m)) -> first_hop_packet hash self m = None.
Proof. exact first_hop_refused. Qed.
Print Assumptions C02_overlong_service_refused.

(* ... hence, in every world, nothing is forwarded and nothing is handed to any listener *)
Theorem C02_refused_send_causes_nothing : forall w src fsvc to tsvc data h,
  send_refused fsvc tsvc = true ->
  send_api w src fsvc to tsvc data h = ([], SE_TOOLONG)
  /\ count_deliver (fst (send_api w src fsvc to tsvc data h)) = 0%nat
  /\ count_forward (fst (send_api w src fsvc to tsvc data h)) = 0%nat.
Proof. exact refused_send_causes_nothing. Qed.
Print Assumptions C02_refused_send_causes_nothing.

(* a packet that IS sent carries both service names whole (name, then NULs only): no name
   travels as a prefix of itself *)
Theorem C02_sent_names_whole : forall hash self m p,
  first_hop_packet hash self m = Some p ->
  firstn 8 (skipn 20 p) = m_fsvc m ++ repeat 0 (8 - length (m_fsvc m)) /\
  firstn 8 (skipn 28 p) = m_tsvc m ++ repeat 0 (8 - length (m_tsvc m)) /\
  skipn 36 p = m_data m.
Proof. exact first_hop_names_whole. Qed.
Print Assumptions C02_sent_names_whole.

(* --- however a stream backend fragments or coalesces the framed bytes --- *)

(* frame lengths are below 2^16: on that whole range the two header bytes spell the exact length
   and the receiver's "length + 2" stays below 2^16 + 2, so the model's unbounded arithmetic and
   the 16-bit header agree *)
Theorem C02_frame_header_exact : forall m, flen m < 65536 ->
  exists b0 b1, frame m = b0 :: b1 :: m /\ b0 < 256 /\ b1 < 256 /\ b0 + 256 * b1 = flen m
                /\ b0 + 256 * b1 + 2 <= 65537.
Proof. exact frame_header_exact. Qed.
Print Assumptions C02_frame_header_exact.

(* GetMessage returns a message only from inside the buffer, of exactly the announced length,
   for every header 0 .. 65535 *)
Theorem C02_pop_in_bounds : forall buf m rest, pop buf = Some (m, rest) ->
  exists b0 b1, buf = b0 :: b1 :: m ++ rest /\ flen m = b0 + 256 * b1.
Proof. exact pop_in_bounds. Qed.
Print Assumptions C02_pop_in_bounds.

(* outside the range (>= 65536 bytes) SendData does not refuse, it writes the length modulo
   2^16, and the framing of the link is lost: refuted there, which is why the theorems below
   carry the hypothesis flen m < 65536 (netceptor's packets are at most MTU + 36 = 16420) *)
Theorem C02_oversize_frame_refuted : forall m, flen m = 65536 -> pop (frame m) = Some ([], m).
Proof. exact oversize_frame_garbled. Qed.
Print Assumptions C02_oversize_frame_refuted.

Theorem C02_framer_any_chunking : forall msgs chunks,
  Forall (fun m => flen m < 65536) msgs -> concat chunks = stream msgs ->
  recv_loop (S (length msgs)) [] chunks = msgs.
Proof. exact framer_any_chunking. Qed.
Print Assumptions C02_framer_any_chunking.

(* ... and for a stream cut anywhere: a prefix of the messages, nothing else *)
Theorem C02_framer_stream_cut : forall msgs chunks k,
  Forall (fun m => flen m < 65536) msgs -> concat chunks = firstn k (stream msgs) ->
  exists j, recv_loop (S (length msgs)) [] chunks = firstn j msgs.
Proof. exact framer_stream_cut. Qed.
Print Assumptions C02_framer_stream_cut.

(* --- over any number of forwarding hops --- *)

(* a forwarder re-encodes what it decoded: the packet it sends is the packet it received with
   the hop byte decremented, every other byte identical *)
Theorem C02_forward_preserves : forall hash self t b m,
  tbl_wf hash self t -> bytes_ok b = true -> decode_msg t b = DOk m ->
  nth 0 b 0 = 0 -> nth 2 b 0 = 0 -> nth 3 b 0 = 0 ->
  set_byte1 (encode_msg hash self m) (m_hops m - 1) = set_byte1 b (nth 1 b 0 - 1).
Proof. exact forward_preserves. Qed.
Print Assumptions C02_forward_preserves.

(* whatever the routing tables, connections and hash tables of the mesh are: everything one
   send causes contains at most one hand-over to a listener; it happens on the addressed node,
   at the listener bound to the addressed service, and the packet handed over has the sender's
   node and service, the addressee's and the payload unchanged *)
Theorem C02_delivered_only_to_addressee : forall w a m h,
  (forall n m', In (EDeliver n m') (walk w a m h) ->
     n = m_to m /\ w_listen w n (m_tsvc m) = true /\
     m_from m' = m_from m /\ m_fsvc m' = m_fsvc m /\ m_to m' = m_to m /\
     m_tsvc m' = m_tsvc m /\ m_data m' = m_data m)
  /\ (count_deliver (walk w a m h) <= 1)%nat.
Proof. exact delivered_only_to_addressee. Qed.
Print Assumptions C02_delivered_only_to_addressee.

(* non-vacuity: names at the 8-byte boundary satisfy the guard and round-trip through a table
   built by AddNameHash under an injective hash; a name with a trailing NUL does not *)
Example C02_nonvacuous :
  (svc_ok (str "abcdefgh"%string) = true /\ svc_ok [255] = true /\ svc_ok [97; 0] = false
   /\ strip_nul (pad8 [97; 0]) = [97])
  /\ let ns := [str "node-b"%string; str "c"%string] in
     let m := {| m_from := str "node-b"%string; m_fsvc := str "abcdefgh"%string;
                 m_to := str "a"%string; m_tsvc := [1]; m_hops := 30; m_data := [0; 255; 0] |} in
     decode_msg (add_names toy_hash (str "a"%string) (init_tbl toy_hash (str "a"%string)) ns)
                (encode_msg toy_hash (str "node-b"%string) m) = DOk m.
Proof. split; [vm_compute; repeat split; reflexivity|exact decode_encode_instance]. Qed.
