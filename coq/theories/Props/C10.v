(* Props/C10.v — property C10: the hop limit bounds forwarding; reach iff distance <= hops;
   expiry is reported.  Only statements, each closed by [exact], and their assumptions.
   Model: Model/Forward.v (handleMessageData / forwardMessage / sendUnreachable / ping.go),
   structurally recursive on the hop budget over ARBITRARY routing tables, connection sets, name
   tables and listener sets; tied to the code by `./check C10`. *)
From Coq Require Import String Arith.
From Receptor Require Import Model.Forward Model.TraceLoop Proofs.Forward Proofs.TraceLoop.
Open Scope N_scope.

(* whatever the tables say (loops, phantom routes, anything): a datagram handled with budget h
   is forwarded at most h times; it causes at most one unreachable notice; the notice is
   forwarded at most maxhops times: at most h + maxhops packets on the links in total *)
Theorem C10_hop_bound : forall w a m h,
  (count_forward (route_walk w a m h) <= h)%nat /\
  (length (notices w (route_walk w a m h)) <= 1)%nat /\
  (count_forward (walk w a m h) <= h + w_maxhops w)%nat.
Proof. exact hop_bound. Qed.
Print Assumptions C10_hop_bound.

(* a notice never generates a notice: all notices of a complete walk are those of the
   datagram itself, the notice's own walk adds none *)
Theorem C10_notice_never_generates_notice : forall w a m h,
  notices w (walk w a m h) = notices w (route_walk w a m h).
Proof. exact notice_never_generates_notice. Qed.
Print Assumptions C10_notice_never_generates_notice.

(* if the current route (next-hop chain ns = source .. destination, each link connected, each
   receiver knowing the names) is d links long and the addressed service is bound: handed over
   iff d <= h, after exactly min(d,h) forwards; when h < d the walk ends with Expired at the
   h-th node of the route *)
Theorem C10_reach_iff : forall w m ns d h,
  chain_ok w m ns = true -> length ns = S d ->
  w_listen w (m_to m) (m_tsvc m) = true -> plain_svc (m_tsvc m) = true ->
  let t := route_walk w (hd [] ns) m h in
  delivered t = (d <=? h)%nat /\ count_forward t = Nat.min d h /\
  ((d <= h)%nat -> last t (EExpired [] m) = EDeliver (m_to m) (set_hops m (N.of_nat (h - d)))) /\
  ((h < d)%nat -> last t (EDeliver [] m) = EExpired (nth h ns []) (set_hops m 0)).
Proof. exact reach_iff. Qed.
Print Assumptions C10_reach_iff.

(* ... and that node tells the sender: if it has a route back of b <= maxhops links, the
   origin's unreachable service receives "message expired" naming the datagram, sent by it *)
Theorem C10_expiry_reported : forall w m ns d h bs b,
  chain_ok w m ns = true -> length ns = S d -> (h < d)%nat ->
  beq_bytes (m_fsvc m) svc_unreach = false ->
  let at_ := nth h ns [] in
  let nm := mk_notice w at_ P_EXPIRED (set_hops m 0) in
  chain_ok w nm bs = true -> hd [] bs = at_ -> length bs = S b -> (b <= w_maxhops w)%nat ->
  In (EUnreach (m_from m) (set_hops nm (N.of_nat (w_maxhops w - b)))) (walk w (hd [] ns) m h).
Proof. exact expiry_reported. Qed.
Print Assumptions C10_expiry_reported.

(* ping and traceroute: if the current route src = n0, n1, ..., nd = dst has d <= maxhops links,
   every node of it before dst has a route back to src within maxhops (for its notice) and so
   has dst (for its reply), then traceroute reports exactly n0, n1, ..., n(d-1) as "message
   expired" hops, in order, and ends with the reply of dst *)
Theorem C10_traceroute_lists_path : forall (w0 : world) (src dst eph : bytes),
  is_localhost src = false -> is_localhost dst = false -> plain_svc eph = true ->
  forall (ns : list node) (d : nat),
  chain_ok w0 (origin_msg src eph dst svc_ping [] 0) ns = true ->
  hd [] ns = src -> length ns = S d ->
  forall back : nat -> list node,
  (forall i : nat, (i < d)%nat ->
     chain_ok w0 (mk_notice (with_listener w0 src eph) (nth i ns []) P_EXPIRED
                    (set_hops (origin_msg src eph dst svc_ping [] i) 0)) (back i) = true /\
     hd [] (back i) = nth i ns [] /\ (length (back i) <= S (w_maxhops w0))%nat) ->
  forall rs : list node,
  chain_ok w0 (origin_msg dst svc_ping src eph [] (w_maxhops w0)) rs = true ->
  hd [] rs = dst -> (length rs <= S (w_maxhops w0))%nat ->
  (d <= w_maxhops w0)%nat ->
  traceroute w0 src dst eph = map (fun a => PErr a P_EXPIRED) (removelast ns) ++ [PReply dst].
Proof. exact traceroute_lists_path. Qed.
Print Assumptions C10_traceroute_lists_path.

(* A traceroute ends: in EVERY world — every set of routing tables, loops included, every hop limit
   — it makes at most one probe per budget 0..maxhops, and every result but the last is a
   "message expired" *)
Theorem C10_traceroute_ends : forall (w : world) (src target eph : bytes),
  (length (traceroute w src target eph) <= S (w_maxhops w))%nat /\
  forallb is_expired (removelast (traceroute w src target eph)) = true.
Proof. exact traceroute_bounded. Qed.
Print Assumptions C10_traceroute_ends.

(* The same loop with its counter held in a byte (`hops <= max; hops++` on a byte) is the same
   function for every hop limit below 255 ... *)
Theorem C10_byte_counter_same_below_255 : forall (pingf : nat -> ping_res) (max : N),
  (max < 255)%N ->
  trace_byte pingf max 0 (S (S (N.to_nat max))) = (trace_gen pingf 0 (S (N.to_nat max)), true).
Proof. exact trace_byte_same_below_255. Qed.
Print Assumptions C10_byte_counter_same_below_255.

(* ... and with hop limit 255, when every probe expires (a forwarding loop), the real loop makes
   its 256 probes and ends, while the byte counter wraps to 0 and never ends, whatever the fuel *)
Theorem C10_byte_counter_traceroute_refuted : forall pingf : nat -> ping_res,
  (forall i, is_expired (pingf i) = true) ->
  (length (trace_gen pingf 0 256) = 256)%nat /\
  forall fuel, snd (trace_byte pingf 255 0 fuel) = false.
Proof. exact trace_byte_refuted. Qed.
Print Assumptions C10_byte_counter_traceroute_refuted.

Example C10_nonvacuous_trace_loop :
  (forall i, is_expired (always_expired i) = true) /\
  length (trace_gen always_expired 0 4) = 4%nat /\
  snd (trace_byte always_expired 3 0 6) = true /\
  snd (trace_byte always_expired 255 0 2000) = false.
Proof. exact trace_loop_example. Qed.

(* non-vacuity: a three-node chain a - b - c with converged tables; a sends to c:svc *)
Example C10_nonvacuous :
  let a := str "a"%string in let b := str "b"%string in let c := str "c"%string in
  let svc := str "svc"%string in
  let w := world_of {| d_routes := [(a, [(b, b); (c, b)]); (b, [(a, a); (c, c)]); (c, [(a, b); (b, b)])];
                       d_conns := [(a, [b]); (b, [a; c]); (c, [b])];
                       d_knows := [(a, [a; b; c]); (b, [a; b; c]); (c, [a; b; c])];
                       d_listen := [(c, [svc])]; d_maxhops := 30 |} in
  let m := origin_msg a (str "src"%string) c svc [1; 2; 3] 1 in
  chain_ok w m [a; b; c] = true /\ plain_svc svc = true /\ w_listen w c svc = true
  /\ chain_ok w (mk_notice w b P_EXPIRED (set_hops m 0)) [b; a] = true
  /\ delivered (route_walk w a m 2) = true /\ delivered (route_walk w a m 1) = false
  /\ count_forward (walk w a m 1) = 2%nat
  /\ traceroute w a c (str "ephemerl"%string) = [PErr a P_EXPIRED; PErr b P_EXPIRED; PReply c].
Proof. vm_compute. repeat split; reflexivity. Qed.
