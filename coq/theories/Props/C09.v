(* Props/C09.v — property C09: TLS peers need a trusted chain, a matching pin and the expected
   node ID.  Only statements, each closed by [exact], and their assumptions.
   Model: Model/Tls.v (mirrors ReceptorVerifyFunc / GetClientTLSConfig in pkg/netceptor/netceptor.go,
   PrepareTLSServerConfig in tlsconfig.go and listen in conn.go AFTER the two "fix:" commits to
   conn.go), tied to the code by `./check C09`.  crypto/x509 (chain building, validity window,
   extended key usage, host-name match), SHA-2 and utils.ReceptorNames enter as facts about the
   presented certificate list (record [facts]); ReceptorNames itself is Model/San.v (property C20). *)
From Coq Require Import String.
From Receptor Require Import Model.Tls Proofs.Tls.
Open Scope N_scope.

(* the verifier accepts exactly when: a certificate is presented, every presented certificate
   parses, the pin list is empty or (every pin has a legal length and some pin equals the digest
   of its length), the verification type is valid and the chain is good for that role (trusted
   pool of the role, validity window, usage of the role, and the DNS name when one is expected),
   and — when a receptor node is expected — the name extension parses and names that node *)
Theorem verify_ok_iff : forall c f now,
  verify c f now = Accept <->
  f_present f = true /\ f_parses f = true /\ pins_ok (c_pins c) f /\
  (exists r, role_of (c_vtype c) = Some r /\ x509_ok c r f now) /\ name_ok c f.
Proof. exact verify_ok_iff_proof. Qed.
Print Assumptions verify_ok_iff.

(* failure of any single condition refuses *)
Theorem single_failure_refuses : forall c f now,
  (f_present f = false -> verify c f now <> Accept) /\
  (f_parses f = false -> verify c f now <> Accept) /\
  (role_of (c_vtype c) = None -> verify c f now <> Accept) /\
  ((exists p, In p (c_pins c) /\ legal_len (blen p) = false) -> verify c f now <> Accept) /\
  (c_pins c <> [] -> (forall p, In p (c_pins c) -> pin_matches f p = false) -> verify c f now <> Accept) /\
  (forall r, role_of (c_vtype c) = Some r -> chain_ok r f = false -> verify c f now <> Accept) /\
  (time_ok f now = false -> verify c f now <> Accept) /\
  (forall r, role_of (c_vtype c) = Some r -> eku_ok r f = false -> verify c f now <> Accept) /\
  (c_htype c = HOST_DNS -> c_expected c <> [] -> f_dns f (c_expected c) = false -> verify c f now <> Accept) /\
  (c_htype c = HOST_RECEPTOR -> (forall names, f_names f = Ok names -> ~ In (c_expected c) names) ->
   verify c f now <> Accept).
Proof. exact single_failure_refuses_proof. Qed.
Print Assumptions single_failure_refuses.

(* "is currently valid": the time that counts is the time of the CALL of the verifier (of the
   handshake), an argument of [verify] — not the time the verifier or the TLS configuration was
   built.  Outside the validity window the verifier refuses whatever else holds ... *)
Theorem verify_outside_window_refuses : forall c f now,
  now < f_not_before f \/ f_not_after f < now -> verify c f now <> Accept.
Proof. exact Proofs.Tls.verify_outside_window_refuses. Qed.
Print Assumptions verify_outside_window_refuses.

(* ... the verdict depends on the time of the call only through the validity window ... *)
Theorem verify_time_only_through_window : forall c f now1 now2,
  time_ok f now1 = time_ok f now2 -> verify c f now1 = verify c f now2.
Proof. exact Proofs.Tls.verify_time_only_through_window. Qed.
Print Assumptions verify_time_only_through_window.

(* ... and the same verifier that accepted a certificate refuses it once it has expired *)
Theorem verify_follows_the_clock : forall c f t1 t2,
  verify c f t1 = Accept -> f_not_after f < t2 -> verify c f t2 = Refuse R_X509.
Proof. exact Proofs.Tls.verify_follows_the_clock. Qed.
Print Assumptions verify_follows_the_clock.

(* the configuration layer: pinnedservercert / pinnedclientcert entries become pins of sha256 or
   sha512 size only, so a verifier built from a configuration never stops at the length error *)
Theorem configured_pins_legal : forall l pins,
  decode_fingerprints l = Some pins -> forall p, In p pins -> legal_len (blen p) = true.
Proof. exact configured_pins_legal_proof. Qed.
Print Assumptions configured_pins_legal.

Theorem configured_pins_never_length_error : forall l c f now,
  decode_fingerprints l = Some (c_pins c) -> verify c f now <> Refuse R_PINLEN.
Proof. exact configured_pins_never_length_error_proof. Qed.
Print Assumptions configured_pins_never_length_error.

(* GetClientTLSConfig: an InsecureSkipVerify profile gets nothing installed; otherwise the verifier
   is installed, and crypto/tls' own host-name verification is switched off only in receptor mode *)
Theorem client_config_installs_verifier : forall p expected htype,
  (p_skip p = true ->
     client_config (Found p) expected htype = Ok (Some (mkClient None true (p_server_name p)))) /\
  (p_skip p = false -> htype = HOST_RECEPTOR ->
     client_config (Found p) expected htype =
     Ok (Some (mkClient (Some (mkCfg VERIFY_SERVER HOST_RECEPTOR expected (p_pins p))) true (p_server_name p)))) /\
  (p_skip p = false -> htype = HOST_DNS ->
     client_config (Found p) expected htype =
     Ok (Some (mkClient (Some (mkCfg VERIFY_SERVER HOST_DNS expected (p_pins p))) false expected))).
Proof. exact client_config_shape. Qed.
Print Assumptions client_config_installs_verifier.

(* a backend connection or stream dialled with such a config is established only if the
   verifier accepts the server's certificate *)
Theorem client_connection_needs_verified_server : forall p expected htype tc f now,
  p_skip p = false ->
  client_config (Found p) expected htype = Ok (Some tc) ->
  client_handshake tc f now = true ->
  verify (mkCfg VERIFY_SERVER htype expected (p_pins p)) f now = Accept.
Proof. exact client_handshake_sound. Qed.
Print Assumptions client_connection_needs_verified_server.

(* a server profile with client authentication accepts a handshake only if the verifier accepts
   the client's certificate (an absent certificate is refused by the verifier itself) *)
Theorem server_connection_needs_verified_client : forall sp f now,
  (sp_require sp = true \/ sp_cas sp = true) ->
  server_handshake (server_config sp) f now = true ->
  verify (mkCfg VERIFY_CLIENT HOST_DNS [] (sp_pins sp)) f now = Accept.
Proof. exact server_handshake_sound. Qed.
Print Assumptions server_connection_needs_verified_client.

(* the mutually authenticated stream listener: a stream is accepted only if the client certificate
   passes the configured verification (chain to ClientCAs, validity, client usage, pins) and names
   the node the packets claim to come from — for EVERY node ID, ':' included *)
Theorem listener_binds_claimed_source : forall sp remote f now,
  sp_require sp = true ->
  server_handshake (listener_config (server_config sp) remote) f now = true ->
  verify (mkCfg VERIFY_CLIENT HOST_DNS [] (sp_pins sp)) f now = Accept /\
  verify (name_verifier (a_node remote)) f now = Accept /\
  exists names, f_names f = Ok names /\ In (a_node remote) names.
Proof. exact listener_binds_claimed_source_proof. Qed.
Print Assumptions listener_binds_claimed_source.

(* so a node cannot present another node's identity *)
Theorem listener_refuses_another_nodes_identity : forall sp node service f names now,
  sp_require sp = true -> f_names f = Ok names -> ~ In node names ->
  server_handshake (listener_config (server_config sp) (mkAddr node service)) f now = false.
Proof. exact listener_refuses_foreign_identity. Qed.
Print Assumptions listener_refuses_another_nodes_identity.

(* the pinned tree (name = text before the first ':' of the printed source address) violates it:
   a dial from node "a:b" is accepted with a certificate naming only node "a" ... *)
Theorem listener_binds_claimed_source_refuted :
  exists sp remote f names now,
    sp_require sp = true /\ f_names f = Ok names /\ ~ In (a_node remote) names /\
    server_handshake (listener_config_pinned (server_config sp) remote) f now = true.
Proof. exact listener_binds_claimed_source_refuted_proof. Qed.
Print Assumptions listener_binds_claimed_source_refuted.

(* ... while for node IDs without ':' the name it checked was the claimed source *)
Theorem listener_binds_claimed_source_partial : forall a,
  no_colon (a_node a) = true -> listener_name_split a = a_node a.
Proof. exact listener_split_partial_proof. Qed.
Print Assumptions listener_binds_claimed_source_partial.

(* the pinned tree also replaced the configured verifier, so pinned client certificates were not
   checked on mesh streams; the repaired listener keeps them *)
Theorem listener_pins_refuted :
  exists sp remote f now,
    sp_require sp = true /\ sp_pins sp <> [] /\ ~ pins_ok (sp_pins sp) f /\
    server_handshake (listener_config_pinned (server_config sp) remote) f now = true.
Proof. exact listener_pins_refuted_proof. Qed.
Print Assumptions listener_pins_refuted.

Theorem listener_keeps_pins : forall sp remote f now,
  sp_require sp = true ->
  server_handshake (listener_config (server_config sp) remote) f now = true ->
  pins_ok (sp_pins sp) f.
Proof. exact listener_keeps_pins_proof. Qed.
Print Assumptions listener_keeps_pins.

(* The pin condition of [verify_ok_iff] is about the digests of the peer's OWN certificate
   (rawCerts[0]).  A verifier that looks for the pin among all presented certificates is the same
   function while the peer presents one certificate ... *)
Theorem C09_pin_any_certificate_same_when_alone : forall c f now,
  verify_any c f [] now = verify c f now.
Proof. exact verify_any_alone_proof. Qed.
Print Assumptions C09_pin_any_certificate_same_when_alone.

(* ... and accepts a peer whose certificate matches no pin once that peer appends a pinned
   certificate to its certificate message (elements nothing authenticates) *)
Theorem C09_pin_any_certificate_refuted :
  let c := mkCfg VERIFY_SERVER HOST_RECEPTOR (str "node-a"%string) [repeat 6 32] in
  verify c ex_facts ex_now = Refuse R_PINMISS /\
  ~ pins_ok (c_pins c) ex_facts /\
  verify_any c ex_facts [stranger_facts] ex_now = Accept.
Proof. exact pin_any_certificate_refuted_proof. Qed.
Print Assumptions C09_pin_any_certificate_refuted.

(* non-vacuity: a certificate that is accepted, and the same certificate refused for one reason at
   a time, including the loop-order cases of the pin list (an illegal length is an error whether
   it comes before or after a matching pin) *)
Example C09_nonvacuous :
  verify ex_cfg ex_facts ex_now = Accept
  /\ verify (mkCfg VERIFY_CLIENT HOST_DNS (str "host.example"%string) [ex_d224]) ex_facts ex_now = Accept
  /\ verify (mkCfg VERIFY_SERVER HOST_RECEPTOR (str "node-c"%string) []) ex_facts ex_now = Refuse R_NAME
  /\ verify (mkCfg VERIFY_SERVER HOST_DNS (str "other.example"%string) []) ex_facts ex_now = Refuse R_X509
  /\ verify (mkCfg 0 HOST_RECEPTOR (str "node-a"%string) []) ex_facts ex_now = Refuse R_VTYPE
  /\ verify (mkCfg VERIFY_SERVER HOST_RECEPTOR (str "node-a"%string) [repeat 9 32]) ex_facts ex_now = Refuse R_PINMISS
  /\ verify (mkCfg VERIFY_SERVER HOST_RECEPTOR (str "node-a"%string) [ex_d256; repeat 9 31]) ex_facts ex_now = Refuse R_PINLEN
  /\ verify (mkCfg VERIFY_SERVER HOST_RECEPTOR (str "node-a"%string) [repeat 9 31; ex_d256]) ex_facts ex_now = Refuse R_PINLEN.
Proof. exact verify_nonvacuous. Qed.

Example C09_listener_nonvacuous :
  server_handshake (listener_config (server_config (mkSProfile true true [ex_d256]))
                                    (mkAddr (str "a:b"%string) (str "svc"%string)))
                   (ex_client_facts [str "a:b"%string]) ex_now = true
  /\ server_handshake (listener_config_pinned (server_config (mkSProfile true true [ex_d256]))
                                    (mkAddr (str "a:b"%string) (str "svc"%string)))
                   (ex_client_facts [str "a:b"%string]) ex_now = false.
Proof. exact listener_accepts_own_identity. Qed.
