(* Props/C03.v — property C03: mesh streams are reliable ordered byte pipes despite loss and
   re-routing.  Only statements, each closed by [exact], and their assumptions.
   Model: Model/Bridge.v (utils.bridgeHalf, the stream-open marker of conn.go, and their
   composition with a QUIC stream).  PARTIAL by design: retransmission, congestion control and
   the idle timeout live in quic-go; the end-to-end theorems are conditional on the named
   hypothesis [quic_ok] about it, which `./check C03` samples on real lossy, duplicating,
   reordering and re-routed meshes but no proof covers.  What is receptor's own - the relay, the
   marker, their composition - is proved for every chunking, error position and write failure. *)
From Receptor Require Import Model.Bridge Proofs.Bridge.
Open Scope N_scope.

(* bridgeHalf: the bytes written to the far side are the data of the reads up to the first read
   error or failed write, in order; then exactly one Close, nothing after it, and no Close while
   the relay is still running - for every sequence of Read results and Write results *)
Theorem C03_bridge_exact : forall rs ws,
  writes_of (bridge_half rs ws) = data_of (fst (cut rs ws)) /\
  closes_of (bridge_half rs ws) = (if snd (cut rs ws) then 1 else 0)%nat /\
  exists pre, bridge_half rs ws = pre ++ (if snd (cut rs ws) then [CClose] else []) /\ closes_of pre = 0%nat.
Proof. exact bridge_exact. Qed.
Print Assumptions C03_bridge_exact.

(* with working writes the relay is the identity on the stream, whatever the chunking and
   wherever the error: it writes exactly the bytes read before (and with) the first error, and
   closes exactly once iff the stream ended *)
Theorem C03_relay_is_identity : forall rs,
  writes_of (bridge_half rs []) = fst (stream_of rs) /\
  closes_of (bridge_half rs []) = match snd (stream_of rs) with ROk => 0%nat | _ => 1%nat end.
Proof. exact relay_is_identity. Qed.
Print Assumptions C03_relay_is_identity.

(* with failing writes it writes a prefix of the stream: nothing repeated, reordered or altered *)
Theorem C03_bridge_prefix : forall rs ws,
  exists rest, fst (stream_of rs) = writes_of (bridge_half rs ws) ++ rest.
Proof. exact bridge_prefix. Qed.
Print Assumptions C03_bridge_prefix.

(* the stream-open marker is invisible to the applications: whatever the chunking in which the
   dialler's bytes arrive, the acceptor hands on exactly the bytes after the first (zero) byte,
   and the same end of stream *)
Theorem C03_marker_transparent : forall rs d e,
  stream_of rs = (0 :: d, e) -> exists rest, accept_stream rs = Accepted rest /\ stream_of rest = (d, e).
Proof. exact marker_transparent. Qed.
Print Assumptions C03_marker_transparent.

(* ... and a stream that does not start with it is refused, never mistaken for data *)
Theorem C03_marker_refuses_other_first_byte : forall rs b d e,
  stream_of rs = (b :: d, e) -> (b =? 0) = false -> accept_stream rs = Refused.
Proof. exact marker_refuses_other_first_byte. Qed.
Print Assumptions C03_marker_refuses_other_first_byte.

Theorem C03_marker_refuses_empty_stream : forall rs e,
  stream_of rs = ([], e) -> accept_stream rs = Refused.
Proof. exact marker_refuses_empty_stream. Qed.
Print Assumptions C03_marker_refuses_empty_stream.

(* END TO END, conditional on [quic_ok fair quic]: for every fault schedule the hypothesis calls
   fair, what the acceptor's application reads is exactly what the dialler's application wrote,
   in order, followed by end-of-stream iff the dialler closed *)
Theorem C03_end_to_end : forall (sched : Type) (fair : sched -> bool) (quic : sched -> list call -> list rd),
  quic_ok fair quic ->
  forall sc app, fair sc = true -> wf_calls app = true ->
  exists rest, accept_stream (quic sc (dial_calls app)) = Accepted rest /\
               stream_of rest = (writes_of app, eof_if_closed app).
Proof. exact stream_dialler_to_acceptor. Qed.
Print Assumptions C03_end_to_end.

Theorem C03_end_to_end_back : forall (sched : Type) (fair : sched -> bool) (quic : sched -> list call -> list rd),
  quic_ok fair quic ->
  forall sc app, fair sc = true -> wf_calls app = true ->
  stream_of (quic sc app) = (writes_of app, eof_if_closed app).
Proof. exact stream_acceptor_to_dialler. Qed.
Print Assumptions C03_end_to_end_back.

(* TCP client -> inbound proxy -> stream -> outbound proxy -> TCP server, and the control
   service's connect: the identity on byte sequences, end-of-stream propagated after all data *)
Theorem C03_end_to_end_through_relays : forall (sched : Type) (fair : sched -> bool) (quic : sched -> list call -> list rd),
  quic_ok fair quic ->
  forall sc rs, fair sc = true ->
  exists rest, accept_stream (quic sc (dial_calls (bridge_half rs []))) = Accepted rest /\
    writes_of (bridge_half rest []) = fst (stream_of rs) /\
    closes_of (bridge_half rest []) = (if ended (snd (stream_of rs)) then 1 else 0)%nat.
Proof. exact relay_stream_relay. Qed.
Print Assumptions C03_end_to_end_through_relays.

Theorem C03_end_to_end_through_relays_back : forall (sched : Type) (fair : sched -> bool) (quic : sched -> list call -> list rd),
  quic_ok fair quic ->
  forall sc rs, fair sc = true ->
  writes_of (bridge_half (quic sc (bridge_half rs [])) []) = fst (stream_of rs) /\
  closes_of (bridge_half (quic sc (bridge_half rs [])) []) = (if ended (snd (stream_of rs)) then 1 else 0)%nat.
Proof. exact relay_stream_relay_back. Qed.
Print Assumptions C03_end_to_end_through_relays_back.

(* a connection ended at once by the writing side (CloseConnection) while written bytes are still
   undelivered: whatever the reader was given is a prefix of what was written, and end-of-stream
   is never early - a reader told end-of-stream has every byte, written by a writer that closed.
   [abort_ok] is the check evaluated on the real reads of such streams (CAbort cases). *)
Theorem C03_abrupt_end_prefix : forall written read, abort_ok written read = true ->
  exists rest, writes_of written = fst (stream_of read) ++ rest.
Proof. exact abort_ok_prefix. Qed.
Print Assumptions C03_abrupt_end_prefix.

Theorem C03_abrupt_end_no_early_eof : forall written read, abort_ok written read = true ->
  snd (stream_of read) = REof ->
  fst (stream_of read) = writes_of written /\ closes_of written <> 0%nat.
Proof. exact abort_ok_eof_complete. Qed.
Print Assumptions C03_abrupt_end_no_early_eof.

Theorem C03_abrupt_end_allows_exact : forall written read,
  stream_of read = (writes_of written, eof_if_closed written) -> abort_ok written read = true.
Proof. exact abort_ok_of_exact. Qed.
Print Assumptions C03_abrupt_end_allows_exact.

(* the hypothesis is satisfiable, and the relay theorems are about something *)
Example C03_hypothesis_satisfiable : quic_ok (fun _ : unit => true) perfect_stream.
Proof. exact perfect_stream_ok. Qed.
Example C03_nonvacuous :
  bridge_half [mkrd [1; 2] ROk; mkrd [] ROk; mkrd [3] ROk; mkrd [4; 5] REof; mkrd [6] ROk] []
  = [CWrite [1; 2]; CWrite [3]; CWrite [4; 5]; CClose] /\
  bridge_half [mkrd [1; 2] ROk; mkrd [3] ROk; mkrd [4] ROk] [WOk; WShort]
  = [CWrite [1; 2]; CWrite [3]; CClose] /\
  bridge_half [mkrd [1] ROk; mkrd [] RErr] [] = [CWrite [1]; CClose] /\
  bridge_half [mkrd [1] ROk] [] = [CWrite [1]].
Proof. exact bridge_examples. Qed.
Example C03_abrupt_end_nonvacuous :
  abort_ok [CWrite [1; 2; 3]; CClose] [mkrd [1] ROk; mkrd [] RErr] = true /\
  abort_ok [CWrite [1; 2; 3]; CClose] [mkrd [] RErr] = true /\
  abort_ok [CWrite [1; 2; 3]; CClose] [mkrd [1; 2] ROk; mkrd [3] REof] = true /\
  abort_ok [CWrite [1; 2; 3]; CClose] [mkrd [1] ROk; mkrd [] REof] = false /\
  abort_ok [CWrite [1; 2; 3]; CClose] [mkrd [] REof] = false /\
  abort_ok [CWrite [1; 2; 3]] [mkrd [1; 2; 3] ROk; mkrd [] REof] = false /\
  abort_ok [CWrite [1; 2; 3]; CClose] [mkrd [1; 3] ROk; mkrd [] RErr] = false.
Proof. exact abort_examples. Qed.
