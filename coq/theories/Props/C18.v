(* Props/C18.v — property C18: service advertisements converge; a withdrawn service is never
   resurrected; an older advertisement never replaces a newer one.
   Models: Model/Ads.v (handleServiceAdvertisement, step-exact correspondence by `./check C18`;
   [handle_ad] = the tree after the tombstone "fix:" commit, [handle_ad_pinned] = the pinned tree)
   and Model/AdsWorld.v (a mesh of such nodes, any delivery order, no loss). *)
From Coq Require Import Permutation.
From Receptor Require Import Model.Ads Model.AdsWorld Model.AdsConc Proofs.Ads Proofs.AdsWorld Proofs.AdsConc.
Open Scope N_scope.

(* 1. An advertisement or withdrawal that is not newer than the stored advertisement changes
      nothing and is not relayed. *)
Theorem C18_older_never_replaces_newer : forall st a recv t b,
  listed st (a_node a) (a_svc a) = Some (t, b) -> a_time a <= t -> handle_ad st a recv = (st, []).
Proof. exact older_never_replaces_newer. Qed.
Print Assumptions C18_older_never_replaces_newer.

(* 2. Once a node has learned a withdrawal, then after EVERY further history (any order,
      duplication, delay of older messages) the service is listed again only with an
      advertisement strictly newer than the withdrawal, i.e. advertised anew by its owner. *)
Theorem C18_withdrawn_not_resurrected : forall st a recv h,
  wf st -> a_cancel a = true ->
  match listed st (a_node a) (a_svc a) with Some (t, _) => t < a_time a | None => True end ->
  forall t b, listed (run_ads handle_ad (fst (handle_ad st a recv)) h) (a_node a) (a_svc a) = Some (t, b) ->
  a_time a < t.
Proof. exact withdrawn_not_resurrected. Qed.
Print Assumptions C18_withdrawn_not_resurrected.

(* every state reachable from the empty table satisfies [wf] *)
Theorem C18_wf_reachable : forall conns h, wf (run_ads handle_ad (ads_init conns) h).
Proof. intros conns h. apply wf_run, wf_init. Qed.
Print Assumptions C18_wf_reachable.

(* 3. Knowledge (newest advertisement or withdrawal time per node/service) never regresses. *)
Theorem C18_knowledge_monotone : forall h st n s, know st n s <= know (run_ads handle_ad st h) n s.
Proof. exact knowledge_monotone. Qed.
Print Assumptions C18_knowledge_monotone.

(* 4. A message not newer than a known withdrawal is neither accepted nor relayed: a withdrawal
      is relayed by a node once; relays never go back to the sender. *)
Theorem C18_buried_not_relayed : forall st a recv t,
  tomb_of st (a_node a) (a_svc a) = Some t -> a_time a <= t -> handle_ad st a recv = (st, []).
Proof. exact buried_not_relayed. Qed.
Print Assumptions C18_buried_not_relayed.

Theorem C18_relay_never_back : forall st a recv c x,
  In (c, x) (snd (handle_ad st a recv)) -> c <> recv /\ In c (as_conns st) /\ x = a.
Proof. exact ad_relay_never_back. Qed.
Print Assumptions C18_relay_never_back.

(* 5. CONVERGENCE.  The invariant [Inv] holds right after the owner o has sent its newest
      message M about (n, s) to all its neighbours (C18_invariant_after_origination); it is
      preserved by delivering the messages in flight in ANY order (C18_invariant_preserved);
      and when nothing is in flight any more every node reachable from o lists (n, s) exactly
      as M says (C18_ads_converge). *)
Theorem C18_invariant_after_origination : forall n s T M o, 
  a_node M = n /\ a_svc M = s /\ a_time M = T -> 0 < T ->
  forall w sto, topo_ok w -> node_at w o = Some sto ->
  aw_flight w = ad_msgs o (map (fun c => (c, M)) (as_conns sto)) ->
  (forall i st, node_at w i = Some st -> know st n s <= T /\ (i <> o -> know st n s < T)) ->
  Inv n s T M o w.
Proof. exact originate_inv. Qed.
Print Assumptions C18_invariant_after_origination.

Theorem C18_invariant_preserved : forall n s T M o,
  a_node M = n /\ a_svc M = s /\ a_time M = T -> 0 < T ->
  forall ks w w', Inv n s T M o w -> awrun w ks = Some w' -> Inv n s T M o w'.
Proof. exact awrun_inv. Qed.
Print Assumptions C18_invariant_preserved.

Theorem C18_ads_converge : forall n s T M o,
  a_node M = n /\ a_svc M = s /\ a_time M = T -> 0 < T ->
  forall w u, Inv n s T M o w -> aw_flight w = [] -> reach w o u -> u <> o ->
  exists st, node_at w u = Some st /\
             listed st n s = if a_cancel M then None else Some (T, a_body M).
Proof. exact ads_converge. Qed.
Print Assumptions C18_ads_converge.

(* non-vacuity: a concrete three-node line reaches quiescence and the far node lists the service *)
Example C18_nonvacuous :
  exists w', awrun ex_world [0%nat; 0%nat] = Some w' /\ aw_flight w' = [] /\
             exists st, node_at w' 2 = Some st /\ listed st 0 7 = Some (5, 0).
Proof. exact ex_converged. Qed.

(* 6. The pinned tree violated (2) and relayed a withdrawal for an absent entry every time it
      arrived; both are machine-checked facts about [handle_ad_pinned] (fixed in /repo). *)
Theorem C18_pinned_resurrects :
  listed (run_ads handle_ad_pinned (ads_init [2; 3]) [(mk 5 7 9 true, 2); (mk 5 7 3 false, 3)]) 5 7
  = Some (3, 0).
Proof. exact pinned_resurrects. Qed.
Print Assumptions C18_pinned_resurrects.

Theorem C18_pinned_withdrawal_relayed_again :
  let st1 := fst (handle_ad_pinned (ads_init [2; 3]) (mk 5 7 9 true) 2) in
  snd (handle_ad_pinned st1 (mk 5 7 9 true) 2) <> [].
Proof. exact pinned_withdrawal_relayed_again. Qed.
Print Assumptions C18_pinned_withdrawal_relayed_again.

(* 7. OPEN FINDING (partial): the table has no expiry and no reachability filter — an entry
      changes only through messages about that very service, so a node that stops without
      withdrawing, or becomes unreachable, stays listed.  The convergence statement (5) is
      therefore about the nodes whose messages arrive, not about "live nodes it can reach". *)
Theorem C18_no_expiry_partial : forall h st n s,
  Forall (fun p => (a_node (fst p), a_svc (fst p)) <> (n, s)) h ->
  listed (run_ads handle_ad st h) n s = listed st n s.
Proof. exact listed_changes_only_by_own_messages. Qed.
Print Assumptions C18_no_expiry_partial.

(* 8. CONCURRENT DELIVERY.  Sessions deliver from their own goroutines, so several messages about one
      service can be inside the handler at once.  The handler is one critical section: deciding and
      applying on the same tables ([handle_ad] = [handle_split st st]), hence a concurrent batch acts like
      some sequential order, to which theorems 1-5 apply.  The harness checks exactly that on the real
      node: [conc_ads_check] holds iff the observed table and relays are what the model yields for SOME
      permutation of the batch.  With the decision and the effect in separate critical sections an older
      advertisement replaces a newer one and is relayed. *)
Theorem C18_handler_decides_and_applies_atomically : forall st a recv,
  handle_ad st a recv = handle_split st st a recv.
Proof. exact handle_ad_is_decide_apply. Qed.
Print Assumptions C18_handler_decides_and_applies_atomically.

Theorem C18_linearizability_check_exact : forall c,
  conc_ads_check c = true <-> exists p, Permutation (ca_batch c) p /\ explains c p = true.
Proof. exact conc_ads_check_exact. Qed.
Print Assumptions C18_linearizability_check_exact.

Theorem C18_split_handler_refuted :
  let st0 := ads_init [2; 3] in
  let '(st1, r1) := handle_split st0 st0 ex_new 2 in
  let '(st2, r2) := handle_split st0 st1 ex_old 3 in
  listed st1 5 1 = Some (9, 2) /\ listed st2 5 1 = Some (4, 1) /\ r2 <> [].
Proof. exact split_handler_older_replaces_newer. Qed.
Print Assumptions C18_split_handler_refuted.

Example C18_atomic_handler_keeps_newer :
  let st0 := ads_init [2; 3] in
  let '(st1, r1) := handle_ad st0 ex_new 2 in
  let '(st2, r2) := handle_ad st1 ex_old 3 in
  listed st2 5 1 = Some (9, 2) /\ r2 = [].
Proof. exact atomic_handler_keeps_newer. Qed.
