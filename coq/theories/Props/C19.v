(* Props/C19.v — property C19: secret work parameters are never disclosed by the API nor sent
   without TLS.  Only statements, each closed by [exact], and their assumptions.
   Model: Model/Secrets.v (AllocateRemoteUnit, remoteUnit.Status/UnredactedStatus,
   unitStatusForCFR, reload from the status file), tied to the code by `./check C19`. *)
From Coq Require Import String.
From Receptor Require Import Model.Secrets Proofs.Secrets.
Open Scope N_scope.

(* what "secret" means: with ASCII capitals lowered, the name starts with "secret_" *)
Theorem C19_secret_names : forall k,
  is_secret k = true <-> exists rest, map ascii_lower k = secret_prefix ++ rest.
Proof. exact is_secret_spec. Qed.
Print Assumptions C19_secret_names.

(* For every state, every parameter map p and every submission that leaves a unit behind
   (accepted, or failed only at the ttl after allocation), and for EVERY later history of
   submit / status / list / cancel / release / restart / delivery operations that does not
   allocate the same identifier again: whatever parameter map any reply shows for that unit is
   exactly [redact p] — it contains no secret name, and (k,v) is in it iff (k,v) was submitted
   and k is not secret (same order, values unchanged). *)
Theorem C19_no_secret_in_any_response :
  forall profiles st id node wtype tls ttl p st1 r h,
  step profiles st (Submit id node wtype tls ttl p) = (st1, r) -> leaves_unit r = true ->
  not_resubmitted id h = true ->
  forall x q, In x (snd (run profiles st1 h)) -> shown id x = Some q ->
    q = redact p /\ has_secrets q = false /\
    (forall k v, In (k, v) q <-> In (k, v) p /\ is_secret k = false).
Proof. exact no_secret_in_any_response. Qed.
Print Assumptions C19_no_secret_in_any_response.

(* A remote submission with a secret parameter and no TLS client profile is refused with the
   whole state — index, status files, everything sent so far — unchanged. *)
Theorem C19_refused_before_store : forall profiles st id node wtype ttl_ok p,
  has_secrets p = true ->
  lookup id (mem st) = None -> lookup id (disk st) = None ->
  step profiles st (Submit id node wtype [] ttl_ok p) = (st, RErr E_SECRET).
Proof. exact refused_before_store. Qed.
Print Assumptions C19_refused_before_store.

(* In every history from the empty node, every transmission that carries a secret parameter was
   made with a TLS client profile. *)
Theorem C19_never_sent_without_tls : forall profiles h m,
  In m (sent (fst (run profiles init h))) -> has_secrets (s_params m) = true -> s_tls m <> [].
Proof. exact never_sent_without_tls. Qed.
Print Assumptions C19_never_sent_without_tls.

(* the record kept on disk is the unredacted one: redaction happens on the way out, so it also
   holds after a reload *)
Theorem C19_stored_unredacted : forall profiles st id node wtype tls ttl p st1 r,
  step profiles st (Submit id node wtype tls ttl p) = (st1, r) -> leaves_unit r = true ->
  exists rec, lookup id (disk st1) = Some rec /\ u_params rec = p.
Proof. exact stored_unredacted. Qed.
Print Assumptions C19_stored_unredacted.

(* Kubernetes work units: secret_kube_config and secret_kube_pod are blanked in everything a status
   or list reply is built from *)
Theorem C19_kube_view_hides : forall fl r,
  k_config (kube_view fl r) = [] /\ k_pod (kube_view fl r) = [] /\
  k_namespace (kube_view fl r) = k_namespace r /\ k_image (kube_view fl r) = k_image r.
Proof. exact kube_view_hides. Qed.
Print Assumptions C19_kube_view_hides.

(* ... for every setting of the work type's permission flags: the blanking depends on none of them *)
Theorem C19_kube_view_flag_independent : forall fl fl' r, kube_view fl r = kube_view fl' r.
Proof. exact kube_view_flag_independent. Qed.
Print Assumptions C19_kube_view_flag_independent.

(* non-vacuity: an accepted submission with two secret and two other parameters; status, list
   and list-one replies before and after a restart and a cancel all show the two others *)
Example C19_nonvacuous :
  let '(st1, r) := step [str "cli"%string] init (Submit 1 (str "b") (str "cat") (str "cli") true ex_params)%string in
  leaves_unit r = true /\ not_resubmitted 1 ex_history = true /\
  map (shown 1) (snd (run [str "cli"%string] st1 ex_history))
  = [Some [(str "plain", str "v1"); (str "xsecret_", str "v2")]; None;
     Some [(str "plain", str "v1"); (str "xsecret_", str "v2")]; None;
     Some [(str "plain", str "v1"); (str "xsecret_", str "v2")]]%string.
Proof. exact example_history. Qed.
