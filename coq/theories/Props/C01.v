(* Props/C01.v — property C01: routing converges to least-cost, loop-free next hops.
   Layer 1 (this file, part A): the routing-table computation.  Model/Route.v gives
     - the specification (weights of walks in the known graph),
     - the verified certificate checker [route_check], which `./check C01` runs on the REAL node's
       cost map and routing table for every generated known graph,
     - the algorithm of updateRoutingTable as a transition relation with ARBITRARY pop order.
   Layer 2/3 (part B): the known graph converges to the real topology (Model/RouteWorld.v). *)
From Receptor Require Import Model.Route Proofs.Route Proofs.RouteAlg.
Open Scope N_scope.

(* A1. The checker is sound: a cost map and table it accepts contain exactly the reachable nodes,
       each with its least cost and with a directly connected next hop on a least-cost path;
       unreachable nodes have no entry. *)
Theorem C01_checker_sound : forall g self cs t,
  graph_wf g = true -> all_pos g = true -> route_check g self cs t = true ->
  forall d, is_key g d = true ->
    (forall c, cost_of cs d = Some c -> is_dist g self d c) /\
    (cost_of cs d = None -> unreachable g self d /\ aget d t = None) /\
    (forall h, aget d t = Some h ->
       d <> self /\
       exists w c2, edge g self h = Some w /\ walk g h d c2 /\ is_dist g self d (w + c2)) /\
    (aget d t = None -> d = self \/ unreachable g self d).
Proof. exact route_check_sound. Qed.
Print Assumptions C01_checker_sound.

(* A2. The algorithm, for EVERY pop order: whenever its queue is empty the cost map holds exactly
       the least costs (and no cost for unreachable nodes) ... *)
Theorem C01_rebuild_costs_correct : forall g self, graph_wf g = true -> positive g ->
  forall st v, relax_star g (r_init g self) st -> r_queue st = [] -> is_key g v = true ->
  (forall c, cost_of (r_cost st) v = Some c -> is_dist g self v c) /\
  (cost_of (r_cost st) v = None -> unreachable g self v).
Proof. exact relax_terminal_costs. Qed.
Print Assumptions C01_rebuild_costs_correct.

(* ... every table entry names a direct neighbour on a least-cost path ... *)
Theorem C01_rebuild_next_hops_correct : forall g self, graph_wf g = true -> positive g ->
  forall st, relax_star g (r_init g self) st -> r_queue st = [] ->
  forall d h, In (d, h) (table_of g self st) ->
  is_key g d = true /\
  exists w c2, edge g self h = Some w /\ walk g h d c2 /\ is_dist g self d (w + c2).
Proof. exact relax_terminal_table. Qed.
Print Assumptions C01_rebuild_next_hops_correct.

(* ... and every execution is finite (natural-number costs; the code refuses non-positive costs
   reported by peers since fix 06678b3 — with a negative cycle the loop never ended). *)
Theorem C01_rebuild_terminates : forall g, graph_wf g = true ->
  well_founded (fun b a => relax g a b).
Proof. exact rebuild_terminates. Qed.
Print Assumptions C01_rebuild_terminates.

(* A3. LOOP FREEDOM across the mesh: if every node's table is accepted by the checker for the
       same topology, following next hops from any u reaches d, the distance to d strictly
       decreases at every hop, and no node is visited twice — although different nodes may break
       ties differently. *)
Theorem C01_next_hops_reach : forall g cs_of t_of,
  graph_wf g = true -> all_pos g = true ->
  (forall u, is_key g u = true -> route_check g u (cs_of u) (t_of u) = true) ->
  forall c u d, is_key g u = true -> is_key g d = true -> is_dist g u d c ->
  exists l, follows t_of d u l /\
            (forall x, In x l -> exists cx, is_dist g x d cx /\ cx < c \/ (x = d /\ c = c)) /\
            (forall x, In x l -> exists cx, is_dist g x d cx /\ (u <> d -> cx < c)).
Proof. exact next_hops_reach_without_loop. Qed.
Print Assumptions C01_next_hops_reach.

Theorem C01_next_hops_loop_free : forall g cs_of t_of,
  graph_wf g = true -> all_pos g = true ->
  (forall u, is_key g u = true -> route_check g u (cs_of u) (t_of u) = true) ->
  forall c u d l, is_key g u = true -> is_key g d = true -> is_dist g u d c ->
  follows t_of d u l -> NoDup (u :: l).
Proof. exact next_hops_no_repeat. Qed.
Print Assumptions C01_next_hops_loop_free.

(* non-vacuity: a concrete graph with a tie-free shortest path, an unreachable key, a run of the
   algorithm to an empty queue, and the checker accepting its output *)
Example C01_nonvacuous :
  exists st, run_head 20 ex_g (r_init ex_g 1) = Some st /\
             r_cost st = [(1, Some 0); (2, Some 1); (3, Some 2); (4, Some 3); (9, None)] /\
             table_of ex_g 1 st = [(2, 2); (3, 2); (4, 2)] /\
             route_check ex_g 1 (r_cost st) (table_of ex_g 1 st) = true.
Proof. exact ex_route. Qed.

(* ================= Part B: the known graph converges to the real topology ================= *)
From Receptor Require Import Model.Flood Model.FloodWorld Model.RouteWorld Proofs.RouteWorld Proofs.RouteCompose.

(* B1. CLEAN-ROUND CONVERGENCE.  In a clean world (frozen symmetric topology, every routing update
       in flight tells the truth about its origin), for EVERY interleaving of ticks (a node floods
       its true adjacency with a fresh ID and a newer (epoch, sequence)) and deliveries in ANY
       order: once node o has ticked and nothing is in flight any more, every node connected to
       o holds exactly o's true adjacency.  (Nodes run Model/Flood.v's handle_update, the model
       that `./check C06` ties step-exactly to handleRoutingUpdate.) *)
Theorem C01_known_graph_converges : forall tp ls w w' o v,
  CI tp w -> rrun tp w ls w' -> ticked o ls -> w_flight w' = [] ->
  treach tp o v -> v <> o ->
  exists st, rnode_at w' v = Some st /\ aget o (ns_known st) = Some (tp o).
Proof. exact known_graph_converges. Qed.
Print Assumptions C01_known_graph_converges.

(* the clean-world invariant is preserved by every step (so a clean world stays clean) *)
Theorem C01_clean_preserved : forall tp ls w w', rrun tp w ls w' -> CI tp w -> CI tp w'.
Proof. intros tp ls w w' Hr C. exact (proj1 (rrun_preserves tp ls w w' Hr C)). Qed.
Print Assumptions C01_clean_preserved.

(* B2. COMPOSITION.  If every node's known graph tells the truth about everything it can reach
       (B1; stale entries about unreachable nodes are harmless) and every node's table passes the
       certificate check for its own known graph (A1/A2), then IN THE REAL TOPOLOGY G: each table
       has an entry exactly for the reachable nodes, reports their least cost, routes via a direct
       neighbour strictly closer to the destination, and following next hops never loops. *)
Theorem C01_converged_next_hop : forall tp G kg_of cs_of t_of,
  (forall a, is_key G a = true -> agrees tp a G) ->
  (forall u, is_key G u = true ->
     agrees tp u (kg_of u) /\ graph_wf (kg_of u) = true /\ all_pos (kg_of u) = true /\
     route_check (kg_of u) u (cs_of u) (t_of u) = true) ->
  forall u d c, is_key G u = true -> u <> d -> is_dist G u d c ->
  exists h w c2, aget d (t_of u) = Some h /\ edge G u h = Some w /\ 0 < w /\
                 is_dist G h d c2 /\ c = w + c2 /\ is_key G h = true.
Proof. exact real_next_hop_closer. Qed.
Print Assumptions C01_converged_next_hop.

Theorem C01_converged_table_exact : forall tp G kg_of cs_of t_of,
  (forall a, is_key G a = true -> agrees tp a G) ->
  (forall u, is_key G u = true ->
     agrees tp u (kg_of u) /\ graph_wf (kg_of u) = true /\ all_pos (kg_of u) = true /\
     route_check (kg_of u) u (cs_of u) (t_of u) = true) ->
  forall u d, is_key G u = true -> is_key G d = true -> d <> u ->
  (aget d (t_of u) <> None <-> exists c, is_dist G u d c) /\
  (forall c, is_dist G u d c -> cost_of (cs_of u) d = Some c).
Proof. exact real_table_exact. Qed.
Print Assumptions C01_converged_table_exact.

Theorem C01_converged_loop_free : forall tp G kg_of cs_of t_of,
  (forall a, is_key G a = true -> agrees tp a G) ->
  (forall u, is_key G u = true ->
     agrees tp u (kg_of u) /\ graph_wf (kg_of u) = true /\ all_pos (kg_of u) = true /\
     route_check (kg_of u) u (cs_of u) (t_of u) = true) ->
  forall c u d, is_key G u = true -> is_dist G u d c ->
  exists l, follows t_of d u l /\ NoDup (u :: l) /\
            forall x, In x l -> exists cx, is_dist G x d cx /\ cx < c.
Proof. exact real_next_hops_loop_free. Qed.
Print Assumptions C01_converged_loop_free.

(* non-vacuity of B1: a concrete clean world 1 - 2 - 3, node 1 ticks, two deliveries, quiet, and
   node 3 holds node 1's true adjacency *)
Example C01_clean_nonvacuous :
  exists ls w', rrun ex_tp ex_w0 ls w' /\ ticked 1 ls /\ w_flight w' = [] /\
  exists st, rnode_at w' 3 = Some st /\ aget 1 (ns_known st) = Some (ex_tp 1).
Proof. exact ex_route_converged. Qed.

(* Link bookkeeping (Model/RouteLink.v): the hypothesis "a node's own row is its true adjacency" of part
   B, over every history of establish / removeConnection / end-of-Close events - a session's teardown
   may end long after its removeConnection, with a new session of the same peer established in between. *)
From Receptor Require Import Model.RouteLink Proofs.RouteLink.

Theorem C01_own_row_is_connections : forall h, l_own (lrun false l0 h) = l_conns (lrun false l0 h).
Proof. exact own_row_is_connections_from_start. Qed.
Print Assumptions C01_own_row_is_connections.

(* a deferred clean-up that forgets the peer's costs once more after Close loses the NEW session's row *)
Theorem C01_late_forget_refuted :
  let s := lrun true l0 slow_close_history in l_conns s = [(1, 2)] /\ l_own s = [].
Proof. exact late_forget_refuted. Qed.
Print Assumptions C01_late_forget_refuted.

Example C01_slow_close_nonvacuous :
  let s := lrun false l0 slow_close_history in l_conns s = [(1, 2)] /\ l_own s = [(1, 2)].
Proof. exact slow_close_history_faithful. Qed.
