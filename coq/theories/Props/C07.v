(* Props/C07.v — property C07: no bytes from a backend peer can crash or wedge a node.
   Only statements, each closed by [exact], and their assumptions.  Model: Model/Proto.v
   (runProtocol's receive loop, both phases, with explicit Panic outcomes) over Model/PJson.v
   (encoding/json into the two wire structs); both mirror /repo after the "fix:" commits
   ddf5e1e (empty datagram, content-less advertisement) and e5a150d (ping answering itself),
   and are tied to the code by `./check C07`.  The "wedge" half of the property (a goroutine
   blocked for ever) is not a property of this sequential model: it is checked by the harness's
   runtime oracle only (barrier time-outs, a well-behaved peer's ping answered within 2 s). *)
From Coq Require Import String.
From Receptor Require Import Model.Proto Proofs.PJson Proofs.Proto.
Open Scope list_scope.
Open Scope N_scope.

(* For every tokenizer and hash oracle, every node state, every session state (not established
   or established, any backend policy) and every finite sequence of byte strings, the loop never
   reaches an unguarded index, a nil dereference or an unbounded recursion. *)
Theorem C07_never_panics : forall E st ds p, proto_run E st ds <> RPanic p.
Proof. exact proto_run_never_panics. Qed.
Print Assumptions C07_never_panics.

Theorem C07_step_never_panics : forall E st d p, proto_step E st d <> Panic p.
Proof. exact proto_step_never_panics. Qed.
Print Assumptions C07_step_never_panics.

(* The pinned code is refuted by three one-datagram sequences: the empty datagram (either
   phase), an advertisement whose JSON names no ServiceAdvertisement field, and a ping packet
   from the node's own ping service to itself (found by the harness). *)
Theorem C07_pinned_refuted :
  (exists E st ds p, proto_run_pinned E st ds = RPanic p /\ ds = [[]]) /\
  (exists E st ds p, proto_run_pinned E st ds = RPanic p /\ ds = [2 :: str "{""Cancel"":true}"%string]) /\
  (exists E st ds p, proto_run_pinned E st ds = RPanic p /\ ds = [ping_loop_packet]).
Proof. exact pinned_refuted. Qed.
Print Assumptions C07_pinned_refuted.

(* Whatever one datagram contains, the connection entry and own-row cost edge of every remote
   ID other than the session's own are unchanged, and so are the node's ID, epoch and
   listeners: what the node forwards and answers for its other peers rests on state the
   datagram cannot reach. *)
Theorem C07_other_links_untouched : forall E n s d,
  match proto_step E (n, s) d with
  | Cont (n', s') _ => same_links_except (s_id s') n n'
  | Stop n' _ => same_links_except (s_id s) n n'
  | Panic _ => False
  end.
Proof. exact step_touches_only_own_link. Qed.
Print Assumptions C07_other_links_untouched.

(* Malformed input is ignored outright: the complete state (node and session) is unchanged. *)
Theorem C07_empty_datagram_ignored : forall E st, proto_step E st [] = Cont st [].
Proof. exact empty_ignored. Qed.
Print Assumptions C07_empty_datagram_ignored.

Theorem C07_unknown_type_ignored : forall E st ty body, 4 <= ty -> proto_step E st (ty :: body) = Cont st [].
Proof. exact unknown_type_ignored. Qed.
Print Assumptions C07_unknown_type_ignored.

Theorem C07_invalid_json_ignored : forall E st ty body,
  (ty = 1 \/ ty = 2) -> tok E body = None -> proto_step E st (ty :: body) = Cont st [].
Proof. exact invalid_json_ignored. Qed.
Print Assumptions C07_invalid_json_ignored.

Theorem C07_undecodable_update_ignored : forall E st body j,
  tok E body = Some j -> decode_routing_update j = JErr -> proto_step E st (1 :: body) = Cont st [].
Proof. exact undecodable_update_ignored. Qed.
Print Assumptions C07_undecodable_update_ignored.

Theorem C07_undecodable_advert_ignored : forall E st body j,
  tok E body = Some j ->
  (decode_advert j = JErr \/ exists a, decode_advert j = JOk a /\ ad_present a = false) ->
  proto_step E st (2 :: body) = Cont st [].
Proof. exact undecodable_advert_ignored. Qed.
Print Assumptions C07_undecodable_advert_ignored.

Theorem C07_short_data_ignored : forall E st body,
  (List.length body < 35)%nat -> proto_step E st (0 :: body) = Cont st [].
Proof. exact short_data_ignored. Qed.
Print Assumptions C07_short_data_ignored.

Theorem C07_unknown_hash_ignored : forall E n s d,
  s_est s = true -> nth 0 d 1 = 0 ->
  (hget (n_hashes n) (be (slice d 4 12)) = None \/ hget (n_hashes n) (be (slice d 12 20)) = None) ->
  proto_step E (n, s) d = Cont (n, s) [].
Proof. exact unknown_hash_ignored. Qed.
Print Assumptions C07_unknown_hash_ignored.

(* the embedded *ServiceAdvertisement is non-nil exactly when a member names one of its fields *)
Theorem C07_advert_pointer_allocated_iff_field_named : forall j a, decode_advert j = JOk a ->
  ad_present a = match j with
                 | JObj ms => existsb (fun kv => names_embedded (fst kv)) ms
                 | _ => false
                 end.
Proof. exact decode_advert_present. Qed.
Print Assumptions C07_advert_pointer_allocated_iff_field_named.

(* "keeps running": the ONLY datagram that stops a running node is the duplicate-node notice
   (a routing update naming the node itself, carrying the node's own epoch as
   SuspectedDuplicate) ... *)
Theorem C07_shutdown_only_by_duplicate_notice : forall E n s d,
  n_down n = false ->
  (exists n' s' evs, proto_step E (n, s) d = Cont (n', s') evs /\ n_down n' = true) ->
  s_est s = true /\ duplicate_notice E n d.
Proof. exact shutdown_only_by_duplicate_notice. Qed.
Print Assumptions C07_shutdown_only_by_duplicate_notice.

(* ... so the full statement "the receiving process keeps running" is REFUTED by the faithful
   model: a forged notice stops the node (open finding C07-forged-duplicate-shutdown; the
   harness replays it on the real node) ... *)
Theorem C07_keeps_running_refuted :
  exists E n s d n' s' evs, s_est s = true /\ n_down n = false /\
    proto_step E (n, s) d = Cont (n', s') evs /\ n_down n' = true.
Proof. exact keeps_running_refuted. Qed.
Print Assumptions C07_keeps_running_refuted.

(* ... and the strongest true statement: every finite sequence that contains no such notice
   leaves a running node running, without panic. *)
Theorem C07_keeps_running_partial : forall E ds n s,
  n_down n = false -> no_notice E (n_id n) (n_epoch n) ds = true ->
  exists n', result_node (proto_run E (n, s) ds) = Some n' /\ n_down n' = false.
Proof. exact keeps_running_partial. Qed.
Print Assumptions C07_keeps_running_partial.

(* stream backends: the model's framing returns exactly the announced bytes (length computed in
   N, no wrap-around); that pkg/framer's Go arithmetic agrees on all 65536 header values is
   checked exhaustively by the harness, not proved (see Model/Proto.v frame_pop) *)
Theorem C07_frame_pop_exact : forall b m rest, frame_pop b = Some (m, rest) ->
  exists lo hi, b = lo :: hi :: m ++ rest /\ List.length m = N.to_nat (lo + 256 * hi).
Proof. exact frame_pop_exact. Qed.
Print Assumptions C07_frame_pop_exact.

(* non-vacuity: the repaired loop really runs through the three historical witnesses, and a
   well-formed session really establishes, receives an update and delivers a packet *)
Example C07_nonvacuous :
  proto_run ex_env (ex_node, ex_sess_est) [[]; 2 :: str "{""Cancel"":true}"%string; ping_loop_packet]
  = RCont (ex_node, ex_sess_est) [].
Proof. exact repaired_ignores_witnesses. Qed.
