(* Props/C08.v — property C08: no control-service input can crash or wedge a node; sessions are
   isolated.  Only statements, each closed by [exact], and their assumptions.
   Model: Model/CJson.v + Model/Ctl.v (RunControlSession, every InitFromString / InitFromJSON,
   reply class of every ControlFunc, findUnit -> scanForUnit with its lock steps, the reload
   section), mirroring the tree after four repairs; tied to the code by `./check C08`.
   Oracles, universally quantified: the JSON decoder, strings.ToLower, time.ParseDuration, the
   unit-ID generator.  [foreign_ok nd] only says that the description of the node under test is
   well formed (a "foreign path" contains a path character). *)
From Coq Require Import String.
From Receptor Require Import Model.Ctl Proofs.Ctl.
Open Scope N_scope.

(* For every finite input byte sequence on a session — any bytes, any line lengths, unterminated
   last line with or without a half-close, JSON of any shape, any unit IDs —, in every node state:
   the session yields a sequence of replies; it never reaches a Panic point (unchecked assertion,
   index, unlock of an unheld lock) and never blocks on the unit-index lock. *)
Theorem C08_ctl_total : forall parse lower ttl_ok fresh nd input eof,
  foreign_ok nd = true ->
  exists nd' rs, session parse lower ttl_ok fresh repaired nd input eof = SReplies nd' rs.
Proof. exact ctl_total. Qed.
Print Assumptions C08_ctl_total.

(* ... and the same for the request lines of any number of concurrent sessions in any
   interleaving (a line is executed atomically with respect to the unit index). *)
Theorem C08_ctl_total_interleaved : forall parse lower ttl_ok fresh ls nd,
  foreign_ok nd = true ->
  exists nd', run_schedule parse lower ttl_ok fresh repaired nd ls = Some nd'.
Proof. exact ctl_total_interleaved. Qed.
Print Assumptions C08_ctl_total_interleaved.

(* A non-empty request line that is not a valid command (unknown command word, undecodable JSON,
   missing or non-string `command`, an Init function that refuses its fields) is answered with a
   line starting with ERROR first, and leaves the node exactly as it was. *)
Theorem C08_ctl_error_reply : forall parse lower ttl_ok fresh nd line,
  line <> [] -> valid_line parse lower repaired line = false ->
  exists rs, exec_line parse lower ttl_ok fresh repaired nd line = LReplies nd (RErr :: rs).
Proof. exact ctl_error_reply. Qed.
Print Assumptions C08_ctl_error_reply.

(* Isolation: whatever a line does to the node, it does it as a valid `work` command; every other
   line — of this or any other session — leaves the node unchanged.  (Sessions have no state of
   their own besides the connection.) *)
Theorem C08_ctl_session_isolated : forall parse lower ttl_ok fresh nd line nd' rs,
  exec_line parse lower ttl_ok fresh repaired nd line = LReplies nd' rs -> nd' <> nd ->
  valid_line parse lower repaired line = true /\
  exists sub p, line_cmd parse lower line = Some (IOk (PWork sub p)).
Proof. exact ctl_session_isolated. Qed.
Print Assumptions C08_ctl_session_isolated.

(* a unit ID that names nothing — with or without path characters — changes nothing *)
Theorem C08_unknown_unit_no_effect : forall nd id,
  foreign_ok nd = true -> mem_b id (n_index nd) = false -> mem_b id (n_disk nd) = false ->
  find_unit repaired nd id = NotFound nd.
Proof. exact unknown_unit_no_effect. Qed.
Print Assumptions C08_unknown_unit_no_effect.

(* the repaired findUnit leaves the lock free on every path *)
Theorem C08_lock_released : forall in_index dir_exists registers,
  lock_run lock_free (find_ops repaired in_index dir_exists registers) = LOk lock_free.
Proof. exact find_ops_repaired_ok. Qed.
Print Assumptions C08_lock_released.

(* concurrent reload commands: with the mutex no schedule is fatal *)
Theorem C08_reload_serialized : forall evs, exists k, rl_run true 0 evs = Some k.
Proof. exact reload_serialized. Qed.
Print Assumptions C08_reload_serialized.

(* index lock vs. a unit's status lock: `work list` / `work status` against `work release`, in
   every interleaving of their lock steps, both finish *)
Theorem C08_list_release_no_deadlock :
  lk_explore 20 (lk_init list_ops release_ops) = true /\
  lk_explore 20 (lk_init release_ops list_ops) = true /\
  lk_explore 20 (lk_init list_ops list_ops) = true /\
  lk_explore 20 (lk_init release_ops release_ops) = true.
Proof. exact list_release_no_deadlock. Qed.
Print Assumptions C08_list_release_no_deadlock.

(* a listing that reads unit status inside the index read section (the order opposite to
   Release's) has a deadlocking interleaving — why the phase `list-vs-release` of the harness exists *)
Theorem C08_list_release_nested_refuted : lk_explore 20 (lk_init list_ops_nested release_ops) = false.
Proof. exact list_release_nested_refuted. Qed.
Print Assumptions C08_list_release_nested_refuted.

(* non-vacuity: a well-formed node; a session with CR, empty lines, valid and invalid commands, a
   unit loaded from disk and an unterminated last line executed at the half-close *)
Example C08_nonvacuous :
  foreign_ok ex_node = true /\
  session ex_parse ex_lower (fun _ => true) (fun _ => []) repaired ex_node
          (str "ping n" ++ [13; 10; 10] ++ str "bogus" ++ [10] ++ str "{oops" ++ [10] ++ str "work status d1" ++ [10] ++ str "work list") true
  = SReplies (with_units ex_node [str "u1"; str "d1"] []) [ROk; RErr; RErr; RErr; ROk; ROk].
Proof. exact (conj ex_node_ok example_session). Qed.

(* ---- the historical tree: each defect stays a checked fact (see known_findings.json) ---- *)

(* status with requested_fields of non-list type: unchecked assertion *)
Theorem C08_pinned_status_refuted :
  exec_line ex_parse ex_lower (fun _ => true) (fun _ => []) pinned ex_node
            (str "{""command"":""status"",""requested_fields"":""NodeID""}") = LPanic P_REQUESTED_FIELDS.
Proof. exact pinned_status_refuted. Qed.
Print Assumptions C08_pinned_status_refuted.

(* a unit present only on disk: findUnit asks for the write lock under its own read lock *)
Theorem C08_pinned_lock_refuted :
  exec_line ex_parse ex_lower (fun _ => true) (fun _ => []) pinned ex_node (str "work status d1") = LDeadlock.
Proof. exact pinned_lock_refuted. Qed.
Print Assumptions C08_pinned_lock_refuted.

(* a unit ID leading out of the data directory: answered "unknown", yet indexed *)
Theorem C08_path_escape_refuted :
  exists nd', exec_line ex_parse ex_lower (fun _ => true) (fun _ => []) (mkfix true true false) ex_node
                        (str "work status ../o/f1") = LReplies nd' [RErr]
              /\ n_index nd' = [str "u1"; str "f1"].
Proof. exact path_escape_refuted. Qed.
Print Assumptions C08_path_escape_refuted.

(* two reload commands at once without a lock: concurrent map writes *)
Theorem C08_reload_pinned_refuted : rl_run false 0 [Enter; Enter] = None.
Proof. exact reload_pinned_refuted. Qed.
Print Assumptions C08_reload_pinned_refuted.
