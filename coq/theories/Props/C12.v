(* Props/C12.v — property C12: Firewall: the first matching rule decides at every node; bad
   rules are refused.  Only statements, each closed by [exact], and their assumptions.
   Model: Model/Firewall.v + Model/Regex.v (mirror pkg/netceptor/firewall_rules.go and the rule loop
   of handleMessageData after the "fix:" commit), tied to the code by `./check C12`.

   Vocabulary (Model/Firewall.v):
     matches r p      every field the rule gives equals the packet's field (literal) or the packet's
                      field is in the language of the regular expression (/regex/; inductive [lang])
     decides rs p d   d = Some r: r is the first rule of rs that matches p;  d = None: none does
     verdict d        the action of that rule, Accept when there is none
     effective        what the result of the loop means for the packet (Continue = Accept)
     bad_rule gp raw  raw contains an unknown or non-string key, a non-string value, an unknown or
                      missing action, a malformed pattern (lone slash, unterminated, refused by
                      Go's regexp parser [gp]) or the same key in two spellings *)
From Coq Require Import String.
From Receptor Require Import Model.Firewall Proofs.Regex Proofs.Firewall.
Open Scope N_scope.

(* the executable matcher used by the model is the declarative language *)
Theorem C12_regex_full_match : forall r s, full r s = true <-> lang r s.
Proof. exact full_spec. Qed.
Print Assumptions C12_regex_full_match.

(* EVERY rule list and packet: some rule (or none) decides, and the loop of handleMessageData
   yields exactly the action of the first matching rule, Accept when no rule matches *)
Theorem C12_first_match_decides : forall rules p,
  (exists d, decides rules p d) /\
  (forall d, decides rules p d -> effective (eval rules p) = verdict d).
Proof. exact first_match_decides_thm. Qed.
Print Assumptions C12_first_match_decides.

(* the same, by position: nothing before the rule matches, the rule matches, whatever follows *)
Theorem C12_first_match_by_position : forall pre r post p,
  Forall (fun x => ~ matches x p) pre -> matches r p ->
  effective (eval (pre ++ r :: post) p) = pr_action r.
Proof. exact first_match_positional. Qed.
Print Assumptions C12_first_match_by_position.

Theorem C12_no_match_accepts : forall rules p,
  Forall (fun x => ~ matches x p) rules -> effective (eval rules p) = Accept.
Proof. exact no_match_accepts. Qed.
Print Assumptions C12_no_match_accepts.

(* a field given as /re/ matches iff [full re value], a literal iff equal: each returned rule
   function answers its action exactly when all given fields match *)
Theorem C12_rule_function : forall r p,
  (matches r p <-> forallb (comp_match full p) (pr_comps r) = true) /\
  (matches r p -> rule_fn r p = result_of (pr_action r)) /\
  (~ matches r p -> rule_fn r p = FwContinue).
Proof. exact rule_function_thm. Qed.
Print Assumptions C12_rule_function.

(* accepted / silently dropped / rejected with a notice to the source unless the packet is
   itself from service "unreach" *)
Theorem C12_disposition : forall rules p d,
  decides rules p d -> handle rules p = dictated (verdict d) p.
Proof. exact handle_dictated. Qed.
Print Assumptions C12_disposition.

(* at a node (origin, transit and destination run the same code): what leaves its firewall.  The
   notice is a packet the node originates, so the node's own rules apply to it as well. *)
Theorem C12_node : forall self rules p d,
  decides rules p d ->
  match verdict d with
  | Accept => node_handle self rules p = [(p, None)]
  | Drop => node_handle self rules p = []
  | Reject =>
    if beq_text (p_fromservice p) svc_unreach then node_handle self rules p = []
    else let u := mkU (p_fromnode p) (p_tonode p) (p_fromservice p) (p_toservice p) problem_rejected in
         forall d', decides rules (notice_pkt self u) d' ->
           node_handle self rules p =
           match verdict d' with Accept => [(notice_pkt self u, Some u)] | _ => [] end
  end.
Proof. exact node_firewall_spec_thm. Qed.
Print Assumptions C12_node.

(* along a path: delivered iff the first matching rule of every node on it accepts *)
Theorem C12_path : forall rest visited p,
  chain visited rest p = Delivered <->
  Forall (fun n => forall d, decides (snd n) p d -> verdict d = Accept) rest.
Proof. exact chain_delivered_iff. Qed.
Print Assumptions C12_path.

(* rule installation (AddFirewallRules(rules, clearExisting)): after any history the rules in
   force are those of the last clearing call followed by everything appended since; without a
   clearing call everything is appended in order; replacing by the empty set accepts everything *)
Theorem C12_install_after_clear : forall (A : Type) (h1 : list (list A * bool)) cur new h2,
  install_all cur (h1 ++ (new, true) :: h2) = install_all new h2.
Proof. exact install_after_clear. Qed.
Print Assumptions C12_install_after_clear.

Theorem C12_install_appends : forall (A : Type) (h : list (list A * bool)) cur,
  forallb (fun x => negb (snd x)) h = true -> install_all cur h = cur ++ concat (map fst h).
Proof. exact install_appends. Qed.
Print Assumptions C12_install_appends.

Theorem C12_cleared_accepts_all : forall cur h1 self p,
  node_handle self (install_all cur (h1 ++ [([], true)])) p = [(p, None)].
Proof. exact cleared_accepts_all. Qed.
Print Assumptions C12_cleared_accepts_all.

(* handleMessageData to its end (delivery, ping reply, "service unknown", forwarding, expiry):
   every packet that leaves the node because of [p] — [p] itself, a ping reply, any notice the
   node originates — was accepted by the node's first matching rule *)
Theorem C12_originated_packets_filtered : forall self rules p listening hops q n,
  In (q, n) (node_full self rules p listening hops) -> passes rules q = true.
Proof. exact node_full_passes_thm. Qed.
Print Assumptions C12_originated_packets_filtered.

Theorem C12_node_full_plain : forall self rules p,
  beq_text (p_toservice p) svc_ping = false ->
  node_full self rules p true true = node_handle self rules p.
Proof. exact node_full_plain. Qed.
Print Assumptions C12_node_full_plain.

Theorem C12_ping_self : forall self eph rules,
  (ping_self self eph rules = PingReply <->
   passes rules (mkPkt self eph self svc_ping) = true /\ passes rules (mkPkt self svc_ping self eph) = true).
Proof. exact ping_self_spec. Qed.
Print Assumptions C12_ping_self.

(* a rule set containing anything uninterpretable is refused, whatever Go's regexp parser [gp]
   answers on the patterns; and parsing never panics *)
Theorem C12_bad_rules_refused : forall gp rules,
  existsb (bad_rule gp) rules = true -> exists e, parse_rules gp rules = PErr e.
Proof. exact bad_rules_refused_thm. Qed.
Print Assumptions C12_bad_rules_refused.

Theorem C12_parse_never_panics : forall gp rules, parse_rules gp rules <> PPanic.
Proof. exact parse_rules_never_panics. Qed.
Print Assumptions C12_parse_never_panics.

(* never in a wider form: an accepted set is accepted rule by rule, and each compiled rule
   carries exactly the fields that were written (literal, /regex/ as parsed, or not given) *)
Theorem C12_never_wider : forall gp rules rs,
  parse_rules gp rules = POk rs ->
  Forall2 (fun raw r => exists fr, fill raw = POk fr /\ action_of (f_action fr) = Some (pr_action r) /\
    pr_comps r = field_of gp FromNode (f_fromnode fr) ++ field_of gp ToNode (f_tonode fr)
                 ++ field_of gp FromService (f_fromservice fr) ++ field_of gp ToService (f_toservice fr))
    rules rs.
Proof. exact never_wider_thm. Qed.
Print Assumptions C12_never_wider.

(* non-vacuity: a three-rule set with a regular expression, in mixed key case, is accepted; a
   packet is decided by the second rule, rejected with the notice, and the notice leaves the node *)
Example C12_nonvacuous :
  existsb (bad_rule ex_gp) ex_raw = false /\ parse_rules ex_gp ex_raw = POk ex_rules /\
  decides ex_rules ex_pkt (Some (mkRule [(ToNode, MRe ex_re); (ToService, MLit (str "control"))] Reject)) /\
  handle ex_rules ex_pkt = DReject (Some (mkU (str "n1") (str "ab7b") (str "work") (str "control") problem_rejected)) /\
  node_handle (str "ab7b") ex_rules ex_pkt =
    [(mkPkt (str "ab7b") svc_unreach (str "n1") svc_unreach,
      Some (mkU (str "n1") (str "ab7b") (str "work") (str "control") problem_rejected))].
Proof. exact ex_nonvacuous. Qed.

(* ---------- the pinned tree (before the fix), kept as checked facts; see known_findings.json ---------- *)

(* "^a|b$": a packet from "abc" matches no rule of [reject fromnode=/a|b/] yet was rejected *)
Theorem C12_pinned_anchoring_refuted :
  exists gp raw rules p,
    parse_rules_hist gp raw = POk rules /\ parse_rules gp raw = POk rules /\
    decides rules p None /\ effective (eval_hist rules p) = Reject /\ effective (eval rules p) = Accept.
Proof. exact hist_anchoring_refuted_thm. Qed.
Print Assumptions C12_pinned_anchoring_refuted.

(* pattern errors discarded: "/(/" and "/abc" were accepted as a rule that drops every packet *)
Theorem C12_pinned_widening_refuted :
  existsb (bad_rule gp_none) raw_badre = true /\ existsb (bad_rule gp_none) raw_unterminated = true /\
  parse_rules_hist gp_none raw_badre = POk [mkRule [] Drop] /\
  parse_rules_hist gp_none raw_unterminated = POk [mkRule [] Drop] /\
  (forall p, eval_hist [mkRule [] Drop] p = FwDrop).
Proof. exact hist_widening_refuted_thm. Qed.
Print Assumptions C12_pinned_widening_refuted.

(* a pattern consisting of one slash: slice bounds out of range *)
Theorem C12_pinned_lone_slash_panics : forall gp, parse_rules_hist gp raw_lone_slash = PPanic.
Proof. exact hist_lone_slash_panics_thm. Qed.
Print Assumptions C12_pinned_lone_slash_panics.

(* one key in two spellings: an unknown action overwritten by a known one was accepted *)
Theorem C12_pinned_dup_key_refuted :
  existsb (bad_rule gp_none) raw_dup = true /\ parse_rules_hist gp_none raw_dup = POk [mkRule [] Accept].
Proof. exact hist_dup_key_refuted_thm. Qed.
Print Assumptions C12_pinned_dup_key_refuted.

(* the repaired code refuses all four witnesses *)
Theorem C12_repaired_refuses_witnesses :
  (exists e, parse_rules gp_none raw_badre = PErr e) /\ (exists e, parse_rules gp_none raw_unterminated = PErr e) /\
  (exists e, parse_rules gp_none raw_lone_slash = PErr e) /\ (exists e, parse_rules gp_none raw_dup = PErr e).
Proof. exact repaired_refuses_witnesses. Qed.
Print Assumptions C12_repaired_refuses_witnesses.
