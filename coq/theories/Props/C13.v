(* Props/C13.v — property C13: work units only move forward; release removes them; unit IDs are
   unique.  Only statements, each closed by [exact], and their assumptions.
   Model: Model/WorkLife.v — the writers of one command unit's status record (submit path, runner
   process, waiter goroutine, Cancel, Release, restart) as interleaved programs whose writes are
   C14-atomic read-modify-writes, and AllocateUnit/generateUnitID; it mirrors /repo AFTER commit
   1beb8d4 (Cancel keeps a Succeeded record); the pinned Cancel is [run true].  Tied to the code by
   `./check C13`: every status rewrite of daemon and runner (VERIF_STATUS_LOG) is judged by
   [log_ok] in coqc, the same checker the theorems below are about. *)
From Receptor Require Import Model.WorkLife Proofs.WorkLife.
Open Scope N_scope.

(* Every status log the model can produce — EVERY interleaving of the submit path, the runner,
   the waiter, any number of concurrent cancels/releases/force-releases and the environment,
   without daemon restart — is a chain of the writers' writes, each an allowed transition. *)
Theorem C13_model_logs_are_accepted : forall sched, no_restart sched = true ->
  log_ok false (w_log (run false sched world0)) = true /\
  last_rec h0 (w_log (run false sched world0)) = w_file (run false sched world0).
Proof. exact model_log_ok. Qed.
Print Assumptions C13_model_logs_are_accepted.

(* What the checker's verdict means for ANY log it accepts (model's or implementation's): in the
   history of the stored record, a later record is never in an earlier stage, a Succeeded record
   stays Succeeded with the same size, the size never shrinks while pending/running. *)
Theorem C13_accepted_logs_move_forward : forall pinned log, log_ok pinned log = true ->
  forall i j ri rj, (i <= j)%nat ->
  nth_error (history h0 log) i = Some ri -> nth_error (history h0 log) j = Some rj ->
  stage (st ri) <= stage (st rj) /\
  (st ri = Succeeded -> st rj = Succeeded /\ sz rj = sz ri) /\
  (stage (st rj) <= 1 -> sz ri <= sz rj).
Proof. exact log_ok_history. Qed.
Print Assumptions C13_accepted_logs_move_forward.

Theorem C13_stage_monotone : forall sched, no_restart sched = true ->
  let h := history h0 (w_log (run false sched world0)) in
  forall i j ri rj, (i <= j)%nat -> nth_error h i = Some ri -> nth_error h j = Some rj ->
  stage (st ri) <= stage (st rj).
Proof. exact stage_monotone. Qed.
Print Assumptions C13_stage_monotone.

Theorem C13_succeeded_absorbing : forall sched, no_restart sched = true ->
  let h := history h0 (w_log (run false sched world0)) in
  forall i j ri rj, (i <= j)%nat -> nth_error h i = Some ri -> nth_error h j = Some rj ->
  st ri = Succeeded -> st rj = Succeeded /\ sz rj = sz ri.
Proof. exact succeeded_absorbing. Qed.
Print Assumptions C13_succeeded_absorbing.

Theorem C13_size_monotone_while_running : forall sched, no_restart sched = true ->
  let h := history h0 (w_log (run false sched world0)) in
  forall i j ri rj, (i <= j)%nat -> nth_error h i = Some ri -> nth_error h j = Some rj ->
  stage (st rj) <= 1 -> sz ri <= sz rj.
Proof. exact size_monotone_while_running. Qed.
Print Assumptions C13_size_monotone_while_running.

(* a release / force-release that has run to its end has removed the directory and the index
   entry — every schedule, restarts included, fixed and pinned Cancel alike — and nothing brings
   the unit back: it stays unknown and its record is never written again *)
Theorem C13_release_removes : forall pinned sched i c,
  nth_error (w_cancels (run pinned sched world0)) i = Some c ->
  k_kind c <> 0 -> k_pc c = CEnd ->
  w_dir (run pinned sched world0) = false /\ w_indexed (run pinned sched world0) = false.
Proof. exact release_removes. Qed.
Print Assumptions C13_release_removes.

Theorem C13_released_stays_released : forall pinned sched w,
  w_dir w = false -> w_indexed w = false ->
  w_dir (run pinned sched w) = false /\ w_indexed (run pinned sched w) = false /\
  w_file (run pinned sched w) = w_file w.
Proof. exact released_stays_released. Qed.
Print Assumptions C13_released_stays_released.

(* "cancelling stops the unit's process": the runner never exits while its command lives - it sends
   SIGINT and, when the command is still there after the grace period (it may ignore SIGINT),
   SIGKILL - for every schedule, restarts included ... *)
Theorem C13_runner_gone_command_gone : forall pinned sched,
  gone (w_run (run pinned sched world0)) = true -> w_child (run pinned sched world0) <> CRun.
Proof. exact runner_gone_command_gone. Qed.
Print Assumptions C13_runner_gone_command_gone.

(* ... and Cancel (no daemon restart) records Canceled and answers only when the runner is gone:
   from then on neither the runner nor the command is alive, whatever happens next.  *)
Theorem C13_cancel_stops_process : forall sched i c, no_restart sched = true ->
  nth_error (w_cancels (run false sched world0)) i = Some c -> k_pc c = CWrite ->
  forall sched', let w' := run false sched' (run false sched world0) in
  gone (w_run w') = true /\ w_child w' <> CRun.
Proof. exact cancel_stops_process. Qed.
Print Assumptions C13_cancel_stops_process.

(* ... and, with the launch done under a lock that Cancel takes (/repo a6deca5), EVERY Cancel or
   Release that has done its part leaves the unit without a runner for good: either none was
   launched and none will be, or it is gone, and the command with it.  (Before that fix a cancel
   that arrived before the runner's pid was recorded was a no-op and the unit ran on.) *)
Theorem C13_cancel_always_stops_process : forall sched i c, no_restart sched = true ->
  nth_error (w_cancels (run false sched world0)) i = Some c ->
  (k_pc c = CRmDir \/ k_pc c = CDelIdx \/ k_pc c = CEnd) ->
  forall sched', no_restart sched' = true ->
  let w' := run false sched' (run false sched world0) in
  (w_run w' = RNone \/ gone (w_run w') = true) /\ w_child w' <> CRun.
Proof. exact cancel_always_stops_process. Qed.
Print Assumptions C13_cancel_always_stops_process.

(* a remote unit that is cancelled or released before its work was started on the remote node is
   never submitted afterwards (Cancel stops the submitting job and waits for it), whatever happens
   later; a Cancel that leaves the job alone is refuted *)
Theorem C13_remote_cancel_stops_job : forall a before after,
  a = RmCancel \/ a = RmRelease ->
  r_started (rem_run true before rem0) = false ->
  let r := rem_run true after (rem_step true a (rem_run true before rem0)) in
  r_started r = false /\ r_job r = false.
Proof. exact remote_cancel_stops_job. Qed.
Print Assumptions C13_remote_cancel_stops_job.

Theorem C13_remote_cancel_without_stopping_refuted :
  let r := rem_run false [RmCancel; RmReach true; RmTry] rem0 in
  r_cancelled r = true /\ r_state r = Failed /\ r_started r = true.
Proof. exact remote_cancel_without_stopping_refuted. Qed.
Print Assumptions C13_remote_cancel_without_stopping_refuted.

(* unit IDs: for every candidate stream and every interleaving of allocations (also those that
   fail after creating the directory) and releases, the index never holds an ID twice, and an ID
   handed out was neither in the index nor a directory on disk *)
Theorem C13_ids_unique : forall fuel cands acts s,
  nodup_ids (i_index s) = true -> nodup_ids (i_index (id_run true fuel cands acts s)) = true.
Proof. exact ids_unique. Qed.
Print Assumptions C13_ids_unique.

Theorem C13_alloc_returns_fresh_id : forall fuel cands s fails x,
  i_given (id_step true fuel cands (IAlloc fails) s) = x :: i_given s ->
  mem x (i_index s) = false /\ mem x (i_disk s) = false.
Proof. exact alloc_returns_fresh_id. Qed.
Print Assumptions C13_alloc_returns_fresh_id.

(* ---- what the faithful model refutes ---- *)

(* the pinned Cancel (before 1beb8d4): a cancel racing with a finishing runner replaces Succeeded
   by Canceled, without any restart; kept as a checked fact, see known_findings.json *)
Theorem C13_pinned_cancel_refuted :
  no_restart cancel_race_sched = true /\
  let h := history h0 (w_log (run true cancel_race_sched world0)) in
  nth_error h 6 = Some (mkRec Succeeded 4) /\ nth_error h 7 = Some (mkRec Canceled 4) /\
  log_ok true (w_log (run true cancel_race_sched world0)) = false.
Proof. exact succeeded_absorbing_pinned_refuted. Qed.
Print Assumptions C13_pinned_cancel_refuted.

(* OPEN FINDING: with a daemon restart the stage does go back — Cancel does not wait for a runner
   that is not its child (Canceled, then the runner's tick: Running), and "Pending at restart"
   fails a unit whose runner is alive (Failed, then Running).  C13_stage_monotone above is
   therefore the partial statement "no restart in the history". *)
Theorem C13_stage_monotone_with_restart_refuted :
  (let h := history h0 (w_log (run false restart_cancel_sched world0)) in
   nth_error h 7 = Some (mkRec Canceled 2) /\ nth_error h 8 = Some (mkRec Running 2)) /\
  (let h := history h0 (w_log (run false restart_pending_sched world0)) in
   nth_error h 6 = Some (mkRec Failed 0) /\ nth_error h 7 = Some (mkRec Running 2)) /\
  stage Running < stage Canceled /\ stage Running < stage Failed.
Proof. exact stage_monotone_restart_refuted. Qed.
Print Assumptions C13_stage_monotone_with_restart_refuted.

(* the mutation "generateUnitID does not look at the disk" hands out the directory of a failed
   allocation; with the check the same stream hands out nothing *)
Theorem C13_ids_without_disk_check_refuted :
  let cands := fun _ : nat => 7 in
  let s1 := id_step false 3 cands (IAlloc true) (mkIds [] [] 0 []) in
  let s2 := id_step false 3 cands (IAlloc false) s1 in
  mem 7 (i_disk s1) = true /\ i_given s2 = [7] /\
  i_given (id_step true 3 cands (IAlloc false) (id_step true 3 cands (IAlloc true) (mkIds [] [] 0 []))) = [].
Proof. exact ids_without_disk_check_refuted. Qed.
Print Assumptions C13_ids_without_disk_check_refuted.

(* non-vacuity: the schedule of the pinned refutation is restart-free, and on the repaired Cancel
   it keeps Succeeded *)
Example C13_nonvacuous :
  let h := history h0 (w_log (run false cancel_race_sched world0)) in
  nth_error h 6 = Some (mkRec Succeeded 4) /\ nth_error h 7 = Some (mkRec Succeeded 4).
Proof. exact cancel_race_fixed. Qed.
