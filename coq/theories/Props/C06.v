(* Props/C06.v — property C06: routing knowledge never regresses; updates are applied and
   relayed at most once, never back to the sender, so flooding terminates; a node never accepts
   an update naming itself from its own current run.
   Model: Model/Flood.v (handleRoutingUpdate, step-exact correspondence by `./check C06`) and
   Model/FloodWorld.v (a mesh of such nodes with arbitrary delivery order and loss). *)
From Receptor Require Import Model.Flood Model.FloodWorld Model.FloodConc Model.FloodCases Proofs.Flood Proofs.FloodWorld Proofs.FloodConc Proofs.FloodOrder.
From Coq Require Import Permutation.
Open Scope N_scope.

(* 1. Along EVERY history of ordinary updates and expiries (hence every delivery order,
      duplication and loss), the stored (epoch, sequence) of every origin only moves forward. *)
Theorem C06_info_monotone : forall h st o,
  Forall ordinary h -> pair_le (info_of st o) (info_of (fst (run st h)) o) = true.
Proof. exact flood_info_monotone. Qed.
Print Assumptions C06_info_monotone.

(* 2. An update older than or equal to the stored pair changes neither the stored pair nor the
      connection picture, and is not relayed. *)
Theorem C06_stale_no_effect : forall st u recv p,
  u_susp u = 0 -> aget (u_origin u) (ns_info st) = Some p -> lex_le (u_epoch u, u_seq u) p = true ->
  same_picture (fst (handle_update st u recv)) st /\ relay_obs (snd (handle_update st u recv)) = [].
Proof. exact stale_update_no_effect. Qed.
Print Assumptions C06_stale_no_effect.

(* 3. A replay of an update ID already seen changes nothing and is not relayed. *)
Theorem C06_replay_no_effect : forall st u recv,
  mem_N (u_id u) (ns_seen st) = true ->
  same_picture (fst (handle_update st u recv)) st /\ relay_obs (snd (handle_update st u recv)) = [].
Proof. exact replayed_id_no_effect. Qed.
Print Assumptions C06_replay_no_effect.

(* 4. A genuine (newer, unseen, foreign) update is applied: recorded with its pair and its
      connections. *)
Theorem C06_fresh_applied : forall st u recv,
  u_susp u = 0 -> u_origin u <> 0 -> conns_pos (u_conns u) = true -> u_origin u <> ns_self st ->
  mem_N (u_id u) (ns_seen st) = false ->
  pair_le (Some (u_epoch u, u_seq u)) (info_of st (u_origin u)) = false ->
  let st' := fst (handle_update st u recv) in
  info_of st' (u_origin u) = Some (u_epoch u, u_seq u)
  /\ (aget (u_origin u) (ns_known st') = Some (conns_of (u_conns u))
      \/ (u_conns u = None /\ aget (u_origin u) (ns_known st) = None /\ ns_known st' = ns_known st)
      \/ (exists a, u_conns u = Some a /\ conns_equal (Some a) (aget (u_origin u) (ns_known st)) = true
                    /\ ns_known st' = ns_known st)).
Proof. exact fresh_update_recorded. Qed.
Print Assumptions C06_fresh_applied.

(* 5. Between expiries of its ID an update is relayed in at most one step of ANY history. *)
Theorem C06_relay_at_most_once : forall h st x,
  Forall (no_expire x) h -> (count_relay_steps x (snd (run st h)) <= 1)%nat.
Proof. exact relay_at_most_once. Qed.
Print Assumptions C06_relay_at_most_once.

(* 6. A relay never goes back to the neighbour the update came from, goes only to real
      connections, carries the relaying node as forwarder and the same update. *)
Theorem C06_relay_never_back : forall st u recv c u',
  In (Relay c u') (snd (handle_update st u recv)) ->
  c <> recv /\ In c (ns_conns st) /\ u_fwd u' = ns_self st /\ u_id u' = u_id u
  /\ u_origin u' = u_origin u.
Proof. exact relay_never_back. Qed.
Print Assumptions C06_relay_never_back.

(* 7. An update naming the node itself never changes its picture and is never relayed; one from
      the node's own current run (same epoch) changes nothing at all. *)
Theorem C06_self_origin_never_accepted : forall st u recv,
  u_origin u = ns_self st ->
  same_picture (fst (handle_update st u recv)) st /\ relay_obs (snd (handle_update st u recv)) = []
  /\ (u_epoch u = ns_epoch st -> handle_update st u recv = (st, [])).
Proof. exact self_origin_never_accepted. Qed.
Print Assumptions C06_self_origin_never_accepted.

(* 8. The duplicate-node notice is the one deliberate exception to (1): it rewrites the stored
      pair of its origin only when it names the stored epoch; it never touches the picture. *)
Theorem C06_notice_exception : forall st u recv o,
  u_susp u <> 0 ->
  let st' := fst (handle_update st u recv) in
  ns_known st' = ns_known st /\
  (info_of st' o <> info_of st o ->
   o = u_origin u /\ exists s, info_of st o = Some (u_susp u, s)
                    /\ info_of st' o = Some (u_epoch u, u_seq u)).
Proof. exact notice_only_rewrites_named_epoch. Qed.
Print Assumptions C06_notice_exception.

(* 9. FLOODING TERMINATES: in a mesh of such nodes where no new update is issued, every
      execution — any delivery order, any loss — has at most [potential] steps and creates at most
      (sum over nodes of degree x unseen IDs) relay messages: at most sum-of-degrees per update. *)
Theorem C06_flooding_terminates : forall ids ls w w' n,
  flight_ids_in ids w -> wrun w ls = Some (w', n) ->
  (length ls <= potential ids w)%nat /\ (n <= nodes_weight ids (w_nodes w))%nat.
Proof. exact flooding_bound. Qed.
Print Assumptions C06_flooding_terminates.

(* non-vacuity: a two-step history on a concrete node — a fresh update from origin 5 is recorded
   and relayed to the other connection only; its equal-sequence successor is ignored *)
Definition ex_st : nstate :=
  {| ns_self := 1; ns_epoch := 1000; ns_conns := [2; 3]; ns_info := []; ns_known := [];
     ns_seen := []; ns_down := false |}.
Definition ex_u (id : N) : upd :=
  {| u_origin := 5; u_id := id; u_epoch := 7; u_seq := 1; u_conns := Some [(2, 1)]; u_fwd := 2; u_susp := 0 |}.
Example C06_nonvacuous :
  relay_obs (snd (handle_update ex_st (ex_u 10) 2)) = [(3, 10, 1, 5)]
  /\ info_of (fst (handle_update ex_st (ex_u 10) 2)) 5 = Some (7, 1)
  /\ snd (handle_update (fst (handle_update ex_st (ex_u 10) 2)) (ex_u 11) 2) = [].
Proof. vm_compute. repeat split; reflexivity. Qed.

(* 9b. The node's own row of the connection picture - its first-hand knowledge of its own links, on which
       routing (C01) relies - is never changed by a received update, whatever the update lists. *)
Theorem C06_own_row_untouched : forall st u recv,
  aget (ns_self st) (ns_known (fst (handle_update st u recv))) = aget (ns_self st) (ns_known st).
Proof. exact own_row_untouched. Qed.
Print Assumptions C06_own_row_untouched.

(* 10. CONCURRENT DELIVERY.  Sessions handle their messages in parallel, so the same update can be in
       the hands of several threads at once.  With the duplicate filter as one atomic test-and-set
       (Model/FloodConc.v [step_atomic]), for every number of threads, every assignment of update IDs to
       them and every interleaving, each update ID gets through the filter - and hence is processed and
       relayed (theorems 1-9 describe one pass) - at most once; never if it had been seen before; exactly
       once when every thread has finished, it was new and some thread delivered it. *)
Theorem C06_concurrent_at_most_once : forall ids seen sched x,
  (passes x (snd (run_sched step_atomic seen (fresh_threads ids) sched)) <= 1)%nat.
Proof. exact atomic_at_most_once. Qed.
Print Assumptions C06_concurrent_at_most_once.

Theorem C06_concurrent_seen_never_passes : forall ids seen sched x,
  mem_N x seen = true ->
  passes x (snd (run_sched step_atomic seen (fresh_threads ids) sched)) = 0%nat.
Proof.
  exact (fun ids seen sched x M =>
           eq_trans (atomic_seen_never_passes sched seen x (fresh_threads ids) M) (passes_fresh x ids)).
Qed.
Print Assumptions C06_concurrent_seen_never_passes.

Theorem C06_concurrent_exactly_once : forall ids seen sched x,
  mem_N x seen = false -> In x ids ->
  all_done (snd (run_sched step_atomic seen (fresh_threads ids) sched)) = true ->
  passes x (snd (run_sched step_atomic seen (fresh_threads ids) sched)) = 1%nat.
Proof. exact atomic_exactly_once. Qed.
Print Assumptions C06_concurrent_exactly_once.

(* a filter that looks the ID up and inserts it in two separate critical sections is not enough: the
   interleaving check, check, insert, insert lets both threads through *)
Theorem C06_split_filter_refuted :
  passes 7 (snd (run_sched step_split [] (fresh_threads [7; 7]) [0; 1; 0; 1]%nat)) = 2%nat.
Proof. exact split_filter_passes_twice. Qed.
Print Assumptions C06_split_filter_refuted.

Example C06_concurrent_nonvacuous :
  let r := run_sched step_atomic [] (fresh_threads [7; 7; 9]) [2; 0; 1; 0]%nat in
  all_done (snd r) = true /\ passes 7 (snd r) = 1%nat /\ passes 9 (snd r) = 1%nat /\ fst r = [7; 9].
Proof. vm_compute. repeat split; reflexivity. Qed.

(* 11. THE NEWEST WINS IN EVERY ORDER.  For every history of genuine ordinary updates with distinct fresh
       IDs - any order, any neighbours - the pair the node ends up recording for an origin covers every
       delivered update of that origin, and is the initial pair or a delivered one; for a new origin it is
       exactly the newest.  Concurrent deliveries of DIFFERENT updates of one origin are tied to this by
       the harness's linearizability check: [seq_check] holds iff what the real node recorded is what the
       model yields for SOME order of the batch. *)
Theorem C06_newest_wins_in_every_order : forall h st,
  Forall (fun x => genuine (ns_self st) (fst x)) h ->
  NoDup (map (fun x => u_id (fst x)) h) ->
  (forall x, In x h -> mem_N (u_id (fst x)) (ns_seen st) = false) ->
  forall x, In x h ->
    pair_le (Some (u_epoch (fst x), u_seq (fst x))) (info_of (fst (run st (recvs h))) (u_origin (fst x))) = true.
Proof. exact newest_wins. Qed.
Print Assumptions C06_newest_wins_in_every_order.

Theorem C06_final_pair_is_initial_or_delivered : forall h st o,
  Forall (fun x => u_susp (fst x) = 0) h ->
  info_of (fst (run st (recvs h))) o = info_of st o
  \/ exists x, In x h /\ u_origin (fst x) = o
               /\ info_of (fst (run st (recvs h))) o = Some (u_epoch (fst x), u_seq (fst x)).
Proof. exact final_pair_is_delivered. Qed.
Print Assumptions C06_final_pair_is_initial_or_delivered.

Theorem C06_new_origin_any_order : forall h st o,
  Forall (fun x => genuine (ns_self st) (fst x)) h ->
  NoDup (map (fun x => u_id (fst x)) h) ->
  (forall x, In x h -> mem_N (u_id (fst x)) (ns_seen st) = false) ->
  (forall x, In x h -> u_origin (fst x) = o) ->
  info_of st o = None -> h <> [] ->
  exists x, In x h /\ info_of (fst (run st (recvs h))) o = Some (u_epoch (fst x), u_seq (fst x))
            /\ forall y, In y h -> lex_le (u_epoch (fst y), u_seq (fst y)) (u_epoch (fst x), u_seq (fst x)) = true.
Proof. exact new_origin_any_order. Qed.
Print Assumptions C06_new_origin_any_order.

Theorem C06_linearizability_check_exact : forall c,
  seq_check c = true <-> exists p, Permutation (q_batch c) p /\ seq_explains c p = true.
Proof. exact seq_check_exact. Qed.
Print Assumptions C06_linearizability_check_exact.

Example C06_any_order_nonvacuous :
  let a := ({| u_origin := 5; u_id := 10; u_epoch := 7; u_seq := 1; u_conns := Some [(2, 1)]; u_fwd := 2; u_susp := 0 |}, 2) in
  let b := ({| u_origin := 5; u_id := 11; u_epoch := 7; u_seq := 2; u_conns := Some [(3, 1)]; u_fwd := 3; u_susp := 0 |}, 3) in
  info_of (fst (run ex_st (recvs [a; b]))) 5 = Some (7, 2) /\ info_of (fst (run ex_st (recvs [b; a]))) 5 = Some (7, 2)
  /\ aget 5 (ns_known (fst (run ex_st (recvs [b; a])))) = Some [(3, 1)].
Proof. vm_compute. repeat split; reflexivity. Qed.
