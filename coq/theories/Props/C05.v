(* Props/C05.v — property C05: work results stream exactly the output from any offset and end
   when complete; the local copy of a remote unit's output is always a prefix of the remote
   output and becomes equal to it whatever the link does.
   Only statements, each closed by [exact], and their assumptions.  Models: Model/Results.v
   (Workceptor.GetResults after "fix: work results of a cancelled unit end"), Model/Mirror.v
   (monitorRemoteStatus / monitorRemoteStdout), tied to the code by `./check C05`. *)
From Receptor Require Import Model.Results Model.Writer Model.Mirror Proofs.Results Proofs.Writer Proofs.Mirror.
Open Scope N_scope.

(* For EVERY trace — every output, chunking and timing of the producer, every start offset, every
   moment of asking and every polling schedule, read sizes included — and for either finish
   predicate: the bytes sent so far are a prefix of output[start..]: in order, no gap, no repeat. *)
Theorem C05_results_prefix : forall done start tr,
  is_prefix (concat (fst (results_run_with done start tr)))
            (skipn (N.to_nat start) (output_of tr)) = true.
Proof. exact results_prefix_any. Qed.
Print Assumptions C05_results_prefix.

(* results_exact: under the producer's contract (append-only is built into the events; a finishing
   status is written after the last append and carries the final size) the stream, if it has
   ended, has delivered exactly output[start..] of the final output — and it has not ended before
   the unit was done. *)
Theorem C05_results_exact : forall start tr,
  contract tr = true ->
  let '(cs, fin) := results_run start tr in
  is_prefix (concat cs) (skipn (N.to_nat start) (output_of tr)) = true /\
  (fin = true ->
   concat cs = skipn (N.to_nat start) (output_of tr) /\
   results_done (w_state (world_after tr)) = true).
Proof. exact results_exact_thm. Qed.
Print Assumptions C05_results_exact.

(* ... and that output is final: whatever happens afterwards, nothing is added to it and the
   finished stream stays as it is *)
Theorem C05_results_final : forall start tr tr',
  contract (tr ++ tr') = true -> snd (results_run start tr) = true ->
  output_of (tr ++ tr') = output_of tr /\
  snd (results_run start (tr ++ tr')) = true /\
  fst (results_run start (tr ++ tr')) = fst (results_run start tr).
Proof. exact results_final_thm. Qed.
Print Assumptions C05_results_final.

(* the size of the reads and the timing of the polls are irrelevant to what is delivered *)
Theorem C05_results_schedule_irrelevant : forall start tr1 tr2,
  contract tr1 = true -> contract tr2 = true -> env_only tr1 = env_only tr2 ->
  snd (results_run start tr1) = true -> snd (results_run start tr2) = true ->
  concat (fst (results_run start tr1)) = concat (fst (results_run start tr2)).
Proof. exact results_schedule_irrelevant_thm. Qed.
Print Assumptions C05_results_schedule_irrelevant.

(* without any assumption on the recorded size: the stream ends only on a done unit, at a moment
   when everything recorded has been sent *)
Theorem C05_results_never_earlier : forall done start w ph n,
  ph <> RDone -> fst (reader_step done start w ph n) = RDone ->
  done (w_state w) = true /\ (w_file w = None \/ exists pos, ph = REof pos /\ w_size w <= pos).
Proof. exact reader_finish_covers_thm. Qed.
Print Assumptions C05_results_never_earlier.

(* once the unit is done, the stream ends after at most |output| + 4 further steps of the reader *)
Theorem C05_results_terminates_when_complete : forall start tr polls,
  contract tr = true ->
  results_done (w_state (world_after tr)) = true ->
  (length (output_of tr) + 4 <= length polls)%nat ->
  snd (results_run start (tr ++ map EPoll polls)) = true.
Proof. exact results_terminates_thm. Qed.
Print Assumptions C05_results_terminates_when_complete.

(* Mirrored units.  On the submitting node the record of a remote unit usually becomes final while
   most of its output is still on its way: the producer's contract does not hold there.  Under
   [contract_m] (the local copy exists, is never longer than a final record's size, a final record
   stays) a session that has ended has delivered exactly output[start..], reaching the RECORDED
   size, and whenever the start offset lies below that size the copy was complete when it ended:
   never earlier. *)
Theorem C05_results_exact_mirrored : forall start tr,
  contract_m tr = true ->
  let '(cs, fin) := results_run start tr in
  is_prefix (concat cs) (skipn (N.to_nat start) (output_of tr)) = true /\
  (fin = true ->
   concat cs = skipn (N.to_nat start) (output_of tr) /\
   results_done (w_state (world_after tr)) = true /\
   w_size (world_after tr) <= start + rlen (concat cs) /\
   (start < w_size (world_after tr) -> rlen (output_of tr) = w_size (world_after tr))).
Proof. exact results_exact_mirrored_thm. Qed.
Print Assumptions C05_results_exact_mirrored.

(* ... and what the mirror does afterwards changes nothing of it *)
Theorem C05_results_final_mirrored : forall start tr tr',
  contract_m (tr ++ tr') = true -> snd (results_run start tr) = true ->
  skipn (N.to_nat start) (output_of (tr ++ tr')) = skipn (N.to_nat start) (output_of tr) /\
  snd (results_run start (tr ++ tr')) = true /\
  fst (results_run start (tr ++ tr')) = fst (results_run start tr).
Proof. exact results_final_mirrored_thm. Qed.
Print Assumptions C05_results_final_mirrored.

(* once the record is final and the copy has reached the recorded size the stream ends *)
Theorem C05_results_terminates_mirrored : forall start tr polls,
  results_done (w_state (world_after tr)) = true ->
  w_size (world_after tr) = rlen (output_of tr) ->
  (length (output_of tr) + 4 <= length polls)%nat ->
  snd (results_run start (tr ++ map EPoll polls)) = true.
Proof. exact results_terminates_mirrored_thm. Qed.
Print Assumptions C05_results_terminates_mirrored.

(* A reader whose finish condition compares the position with the current size of the stdout FILE
   instead of the recorded size: for a local unit (producer's contract) it is the real reader ... *)
Theorem C05_filesize_reader_same_on_local_units : forall start tr,
  contract tr = true -> results_run_filesize start tr = results_run start tr.
Proof. exact results_filesize_same_local_thm. Qed.
Print Assumptions C05_filesize_reader_same_on_local_units.

(* ... on a mirrored unit it ends as soon as the record is final — 2 of 5 bytes and a clean end,
   where the real reader waits and delivers all 5: an early end *)
Theorem C05_filesize_results_refuted :
  contract_m early_end_witness = true /\
  w_size (world_after early_end_witness) = 5 /\ output_of early_end_witness = [1; 2; 3; 4; 5] /\
  results_run_filesize 0 early_end_witness = ([[1; 2]], true) /\
  results_run 0 early_end_witness = ([[1; 2]; [3; 4; 5]], true) /\
  ~ (forall start tr, contract_m tr = true -> snd (results_run_filesize start tr) = true ->
       concat (fst (results_run_filesize start tr)) = skipn (N.to_nat start) (output_of tr)).
Proof. exact results_filesize_refuted_thm. Qed.
Print Assumptions C05_filesize_results_refuted.

(* the finish condition of the pinned tree (IsComplete: Succeeded or Failed) never ends the
   results of a cancelled unit, however long the client waits; the repaired one does *)
Theorem C05_pinned_results_refuted :
  contract cancel_witness = true /\
  w_state (world_after cancel_witness) = ST_CANCELED /\
  (forall polls, snd (results_run_pinned 0 (cancel_witness ++ map EPoll polls)) = false) /\
  (forall polls, (6 <= length polls)%nat ->
     snd (results_run 0 (cancel_witness ++ map EPoll polls)) = true).
Proof. exact results_pinned_refuted_thm. Qed.
Print Assumptions C05_pinned_results_refuted.

(* mirror_prefix: after every step of every history — remote writes, status copies, requests,
   deliveries of any size, and a break of the connection at ANY point, any number of times — the
   local stdout is a prefix of the remote stdout *)
Theorem C05_mirror_prefix : forall tr,
  is_prefix (m_local (mrun tr)) (m_remote_out (mrun tr)) = true.
Proof. exact mirror_prefix_thm. Qed.
Print Assumptions C05_mirror_prefix.

(* ... and never shrinks *)
Theorem C05_mirror_monotone : forall tr tr',
  is_prefix (m_local (mrun tr)) (m_local (mrun (tr ++ tr'))) = true.
Proof. exact mirror_monotone_thm. Qed.
Print Assumptions C05_mirror_monotone.

(* mirror_converges: from whatever state the breaks have left the mirror in, once the remote unit
   is complete and nothing breaks any more, the loop (stream runs out; status copied; look; stream
   runs out; look) ends with the stdout monitor stopped and the local output equal to the remote *)
Theorem C05_mirror_converges : forall tr k,
  contract (menv tr) = true ->
  is_complete (w_state (m_remote (mrun tr))) = true ->
  (length (m_remote_out (mrun tr)) + 4 <= k)%nat ->
  let s' := mrun_from (mrun tr) (settle k) in
  m_mode s' = MStopped /\ m_local s' = m_remote_out s' /\ m_remote_out s' = m_remote_out (mrun tr).
Proof. exact mirror_converges_thm. Qed.
Print Assumptions C05_mirror_converges.

(* mirror_converges for EVERY final state of the remote unit — Succeeded, Failed, Canceled: once
   nothing breaks any more the local output becomes equal to the remote output and no stream stays
   open.  (IsComplete does not cover Canceled, so for a cancelled unit the stdout monitor goes on
   looking once a second instead of returning; it has fetched everything all the same.) *)
Theorem C05_mirror_converges_every_final_state : forall tr k,
  contract (menv tr) = true ->
  results_done (w_state (m_remote (mrun tr))) = true ->
  (length (m_remote_out (mrun tr)) + 4 <= k)%nat ->
  let s' := mrun_from (mrun tr) (settle k) in
  m_local s' = m_remote_out s' /\ m_remote_out s' = m_remote_out (mrun tr) /\
  (forall start ph, m_mode s' <> MStream start ph) /\
  (is_complete (w_state (m_remote (mrun tr))) = true -> m_mode s' = MStopped).
Proof. exact mirror_converges_done_thm. Qed.
Print Assumptions C05_mirror_converges_every_final_state.

(* the stdout monitor never stops early: whenever it has returned, the local output is the whole
   remote output of a finished unit *)
Theorem C05_mirror_stops_only_when_equal : forall tr,
  contract (menv tr) = true -> m_mode (mrun tr) = MStopped ->
  m_local (mrun tr) = m_remote_out (mrun tr) /\
  results_done (w_state (m_remote (mrun tr))) = true.
Proof. exact mirror_stopped_thm. Qed.
Print Assumptions C05_mirror_stops_only_when_equal.

(* ... and stays so *)
Theorem C05_mirror_stable : forall tr tr',
  m_mode (mrun tr) = MStopped ->
  m_mode (mrun (tr ++ tr')) = MStopped /\ m_local (mrun (tr ++ tr')) = m_local (mrun tr).
Proof. exact mirror_stable_thm. Qed.
Print Assumptions C05_mirror_stable.

(* mirror_header_any_chunking: on the wire the output of a results stream follows one header
   line, and a byte stream may deliver both in reads of any sizes — the header split at any position,
   its end in the same read as the first output bytes.  For EVERY such chunking the mirror
   (line read through the buffered reader, then copy from that same reader) takes exactly the header
   and appends exactly the bytes that follow it. *)
Theorem C05_mirror_header_any_chunking : forall reads hdr body,
  no_nl hdr = true -> concat reads = hdr ++ 10 :: body ->
  client_mirror reads = Some (hdr ++ [10], body).
Proof. exact mirror_header_any_chunking_thm. Qed.
Print Assumptions C05_mirror_header_any_chunking.

(* ... whereas copying from the raw connection drops what was buffered behind the header *)
Theorem C05_mirror_raw_copy_refuted :
  let reads := [[83; 116]; [114; 10; 1; 2]; [3]] in
  client_mirror reads = Some ([83; 116; 114; 10], [1; 2; 3]) /\
  client_mirror_raw reads = Some ([83; 116; 114; 10], [3]).
Proof. exact mirror_raw_copy_refuted_thm. Qed.
Print Assumptions C05_mirror_raw_copy_refuted.

(* the hypotheses are satisfiable by non-trivial histories: a producer with running ticks read
   from offset 1 with reads of several sizes; a transfer cut twice that then converges *)
Example C05_nonvacuous_results :
  contract contract_example = true /\
  results_run 1 contract_example = ([[2; 3]; [4]; [5; 6]], true).
Proof. exact contract_example_ok. Qed.

Example C05_nonvacuous_mirror :
  contract (menv mirror_example) = true /\
  m_local (mrun mirror_example) = [1; 2; 3; 4; 5] /\
  m_local (mrun (mirror_example ++ settle 10)) = [1; 2; 3; 4; 5; 6] /\
  m_mode (mrun (mirror_example ++ settle 10)) = MStopped.
Proof. exact mirror_example_ok. Qed.

(* ---------- the in-process producer (STDoutWriter, stdio_utils.go) ----------
   For work types whose output is written by the daemon itself the producer's contract is not a
   hypothesis: for EVERY history of writes — any sizes, the file accepting any part of each write,
   with or without an error, the status save failing or not — Size() is the length of the file and
   the recorded size is never ahead of it ... *)
Theorem C05_writer_size_is_file_length : forall ops,
  ws_written (wrun ops) = rlen (ws_file (wrun ops)) /\
  ws_recorded (wrun ops) <= rlen (ws_file (wrun ops)).
Proof. exact writer_inv_thm. Qed.
Print Assumptions C05_writer_size_is_file_length.

(* ... one Write appends exactly the prefix it reports as written and nothing else ... *)
Theorem C05_writer_write_exact : forall s p a e sv,
  let '(s', (n, _)) := w_write false s p a e sv in
  n <= rlen p /\ ws_file s' = ws_file s ++ firstn (N.to_nat n) p /\
  ws_written s' = ws_written s + n /\ ws_state s' = ws_state s.
Proof. exact writer_write_thm. Qed.
Print Assumptions C05_writer_write_exact.

(* ... and a caller that records its finishing status last generates a trace that satisfies the
   producer's contract ... *)
Theorem C05_writer_keeps_contract : forall ops,
  disciplined ops = true -> contract (wtrace ops) = true.
Proof. exact writer_contract_thm. Qed.
Print Assumptions C05_writer_keeps_contract.

(* ... so that, with the reader's polls placed anywhere between the producer's actions, the
   results are a prefix of the file from the start offset and, once ended, exactly that — ended
   only after the finishing status ... *)
Theorem C05_writer_results_exact : forall ops start tr,
  disciplined ops = true -> env_only tr = wtrace ops ->
  let '(cs, fin) := results_run start tr in
  is_prefix (concat cs) (skipn (N.to_nat start) (ws_file (wrun ops))) = true /\
  (fin = true ->
   concat cs = skipn (N.to_nat start) (ws_file (wrun ops)) /\
   results_done (ws_state (wrun ops)) = true).
Proof. exact writer_results_exact_thm. Qed.
Print Assumptions C05_writer_results_exact.

(* ... and they do end *)
Theorem C05_writer_results_terminate : forall ops start polls,
  disciplined ops = true -> results_done (ws_state (wrun ops)) = true ->
  (length (ws_file (wrun ops)) + 4 <= length polls)%nat ->
  snd (results_run start (wtrace ops ++ map EPoll polls)) = true.
Proof. exact writer_results_terminate_thm. Qed.
Print Assumptions C05_writer_results_terminate.

(* A writer that adds what it was ASKED to write instead of what the file accepted: after one
   short write the record is ahead of the output for good, the contract is broken and the results
   of the finished unit never end. *)
Theorem C05_writer_count_asked_refuted :
  disciplined asked_witness = true /\
  ws_recorded (wrun asked_witness) = 1 /\ ws_file (wrun asked_witness) = [1] /\
  results_run 0 (wtrace asked_witness ++ repeat (EPoll 65536) 5) = ([[1]], true) /\
  world_after (wtrace_asked asked_witness) = mkWorld (Some [1]) ST_SUCCEEDED 3 /\
  contract (wtrace_asked asked_witness) = false /\
  (forall polls, snd (results_run 0 (wtrace_asked asked_witness ++ map EPoll polls)) = false).
Proof. exact writer_count_asked_refuted_thm. Qed.
Print Assumptions C05_writer_count_asked_refuted.

(* ---------- the command runner as a producer (command.go) ----------
   The child writes the file, the runner records (Running, size now) at its ticks — a tick's save
   may fail — and one finishing status with the size as it is after the child has been waited for.
   For EVERY such history the producer's contract holds ... *)
Theorem C05_runner_keeps_contract : forall ops,
  exits_last ops = true -> contract (rtrace ops) = true.
Proof. exact runner_contract_thm. Qed.
Print Assumptions C05_runner_keeps_contract.

(* ... so the results of a command unit, with the reader's polls anywhere between the child's
   writes and the runner's ticks, are exact and end only after the recorded exit *)
Theorem C05_runner_results_exact : forall ops start tr,
  exits_last ops = true -> env_only tr = rtrace ops ->
  let '(cs, fin) := results_run start tr in
  is_prefix (concat cs) (skipn (N.to_nat start) (rs_file (rrun ops))) = true /\
  (fin = true ->
   concat cs = skipn (N.to_nat start) (rs_file (rrun ops)) /\
   results_done (rs_state (rrun ops)) = true).
Proof. exact runner_results_exact_thm. Qed.
Print Assumptions C05_runner_results_exact.

Example C05_nonvacuous_runner :
  exits_last runner_example = true /\
  rtrace runner_example =
    [ECreate; ESetStatus ST_RUNNING 0; EAppend [1; 2]; EAppend [3]; ESetStatus ST_RUNNING 3;
     EAppend [4; 5]; ESetStatus ST_FAILED 5] /\
  results_run 1 (rtrace runner_example ++ repeat (EPoll 2) 7) = ([[2; 3]; [4; 5]], true).
Proof. exact runner_example_ok. Qed.

(* short writes, errors with and without progress, a failing save, a finishing status: the
   hypotheses are met by such a history, read from offset 2 in reads of 3 bytes *)
Example C05_nonvacuous_writer :
  disciplined writer_example = true /\
  ws_file (wrun writer_example) = [1; 2; 3; 4; 5; 6; 7; 8] /\
  ws_recorded (wrun writer_example) = 8 /\
  fst (wobs_run wstate0 writer_example) =
    [mkObs 3 false 3 3 0; mkObs 2 true 5 5 0; mkObs 0 true 5 5 0; mkObs 2 true 7 5 0;
     mkObs 0 false 7 7 1; mkObs 1 false 8 8 1; mkObs 0 false 8 8 2] /\
  results_run 2 (wtrace writer_example ++ repeat (EPoll 3) 8) = ([[3; 4; 5]; [6; 7; 8]], true).
Proof. exact writer_example_ok. Qed.
