(* Props/C15.v — property C15: signature-protected work cannot be driven remotely without a
   valid token.  Only statements, each closed by [exact], and their assumptions.
   Model: Model/Sig.v (processSignature ∘ ShouldVerifySignature ∘ VerifySignature and the effects
   of the `work` command interpreter), tied to the code by `./check C15`.
   [jwt] is the JWT library as an oracle on non-empty token strings; the theorems hold for every
   oracle and for nodes with and without a configured verification key. *)
From Coq Require Import ZArith.
From Receptor Require Import Model.Sig Proofs.Sig.
Open Scope N_scope.

(* For every state, connection, token and every command among submit, cancel, release,
   force-release, results: if anything happens (an effect is produced or the set of units
   changes) then a work type decided about the command, and either the connection is the unix
   socket, or that type does not verify and no token was sent, or a key is configured and the
   oracle calls the token valid. *)
Theorem C15_effect_requires_authorization :
  forall (jwt : bytes -> jwt_result) (key_ok : bool) st c tok m st' r effs,
  exec jwt key_ok st c tok m = (st', r, effs) -> protected m = true ->
  (effs <> [] \/ st' <> st) ->
  exists k, deciding_kind st m = Some k /\
    (c = Unix \/
     (should_verify k = false /\ tok = []) \/
     (tok <> [] /\ key_ok = true /\ jwt tok = JValid)).
Proof. exact effect_requires_authorization. Qed.
Print Assumptions C15_effect_requires_authorization.

(* Read the other way: verifying work type, not the unix socket, and the token is absent/empty
   or anything the oracle does not call valid (or no key is configured): the command is refused —
   state unchanged, no unit created, stopped, removed or read, error reply. *)
Theorem C15_unauthorized_refused :
  forall (jwt : bytes -> jwt_result) (key_ok : bool) st c tok m k,
  protected m = true -> deciding_kind st m = Some k ->
  should_verify k = true -> c <> Unix ->
  (tok = [] \/ key_ok = false \/ jwt tok <> JValid) ->
  exists e, exec jwt key_ok st c tok m = (st, RError e, []).
Proof. exact unauthorized_refused. Qed.
Print Assumptions C15_unauthorized_refused.

(* A token sent to a work type that does not expect one is refused as well — on every kind of
   connection. *)
Theorem C15_unexpected_token_refused :
  forall (jwt : bytes -> jwt_result) (key_ok : bool) st c tok m k,
  protected m = true -> deciding_kind st m = Some k ->
  should_verify k = false -> tok <> [] ->
  exists e, exec jwt key_ok st c tok m = (st, RError e, []).
Proof. exact unexpected_token_refused. Qed.
Print Assumptions C15_unexpected_token_refused.

(* the decision itself, exactly *)
Theorem C15_authorize_exactly :
  forall (jwt : bytes -> jwt_result) (key_ok : bool) k c tok,
  authorize jwt key_ok k c tok = Allow <->
  (should_verify k = false /\ tok = []) \/
  (should_verify k = true /\ (c = Unix \/ (tok <> [] /\ key_ok = true /\ jwt tok = JValid))).
Proof. exact authorize_allow_iff. Qed.
Print Assumptions C15_authorize_exactly.

(* Work type names.  The verification decision and the allocation use ONE lookup of the submitted
   name (exact byte equality, like Go's map): a local submit that creates a unit was authorized
   for exactly the class the unit is created with. *)
Theorem C15_decision_for_created_type :
  forall (jwt : bytes -> jwt_result) (key_ok : bool) (r : registry) st c tok newid name signwork st' rp,
  exec_submit_name jwt key_ok r st c tok newid name false signwork = (st', rp, [ECreated newid]) ->
  authorize jwt key_ok (classify r name signwork) c tok = Allow /\
  st' = st ++ [(newid, mkunit (match classify r name signwork with WRemote _ => WRemote false | k => k end) false)].
Proof. exact decision_for_created_type. Qed.
Print Assumptions C15_decision_for_created_type.

(* so a unit of a verifying type is created only over the unix socket or with a valid token *)
Theorem C15_verifying_unit_needs_token :
  forall (jwt : bytes -> jwt_result) (key_ok : bool) (r : registry) st c tok newid name signwork st' rp,
  exec_submit_name jwt key_ok r st c tok newid name false signwork = (st', rp, [ECreated newid]) ->
  reg_lookup name r = Some true -> name <> s_remote ->
  c = Unix \/ (tok <> [] /\ key_ok = true /\ jwt tok = JValid).
Proof. exact verifying_unit_needs_token. Qed.
Print Assumptions C15_verifying_unit_needs_token.

(* and any other spelling (not registered) creates nothing on this node *)
Theorem C15_unknown_name_creates_nothing :
  forall (jwt : bytes -> jwt_result) (key_ok : bool) (r : registry) st c tok newid name signwork,
  reg_lookup name r = None -> name <> s_remote ->
  exists e, exec_submit_name jwt key_ok r st c tok newid name false signwork = (st, RError e, []).
Proof. exact unknown_name_creates_nothing. Qed.
Print Assumptions C15_unknown_name_creates_nothing.

(* The signing side, end to end.  A remote submission (startRemoteUnit at the submitting node,
   createSignature with its signing key and `tokenexpiration`) to a VERIFYING work type of the
   target is let through there iff it was signed, with the key the target verifies with, and has
   not expired. *)
Theorem C15_remote_submit_to_verifying_type :
  forall sk (expiration elapsed : Z) signwork vk (r : registry) target name,
  reg_lookup name r = Some true -> name <> s_remote ->
  (remote_submit_decision sk expiration elapsed signwork vk r target name = Some Allow <->
   signwork = true /\ sk = Some vk /\ (elapsed < expiration)%Z).
Proof. exact remote_submit_to_verifying_type. Qed.
Print Assumptions C15_remote_submit_to_verifying_type.

Theorem C15_remote_submit_to_plain_type :
  forall sk (expiration elapsed : Z) signwork vk (r : registry) target name,
  reg_lookup name r = Some false -> name <> s_remote ->
  (remote_submit_decision sk expiration elapsed signwork vk r target name = Some Allow <-> signwork = false).
Proof. exact remote_submit_to_plain_type. Qed.
Print Assumptions C15_remote_submit_to_plain_type.

(* Which connection is "the local socket": the test compares the WHOLE network name with "unix".
   The network name of a mesh stream contains the node ID, which is free text; whatever the node ID
   (and the de-duplication suffix) is, a mesh stream and a TCP connection are not the local socket *)
Theorem C15_network_name_decides : forall c node suffix,
  conn_is_unix (net_of c node suffix) = is_unix c.
Proof. exact network_name_decides. Qed.
Print Assumptions C15_network_name_decides.

(* ... whereas looking for "unix" anywhere in the name exempts every client of node "munix1" *)
Theorem C15_contains_unix_refuted :
  let node := [109; 117; 110; 105; 120; 49] in
  conn_is_unix (net_of Mesh node []) = false /\
  conn_contains_unix (net_of Mesh node []) = true /\
  ~ (forall c node suffix, conn_contains_unix (net_of c node suffix) = is_unix c).
Proof. exact contains_unix_refuted. Qed.
Print Assumptions C15_contains_unix_refuted.

(* non-vacuity: allowed and refused instances of the hypotheses on a concrete node *)
Example C15_nonvacuous :
  exec ex_jwt true ex_state Tcp [1] (Cancel 1)
    = ([(1, mkunit WVerify true); (2, mkunit WPlain false); (3, mkunit (WRemote true) false)], ROk, [EStopped 1]) /\
  exec ex_jwt true ex_state Mesh [2] (Release 1 true) = (ex_state, RError E_INVALID, []) /\
  exec ex_jwt true ex_state Tcp [] (Results 3) = (ex_state, RError E_EMPTY, []) /\
  exec ex_jwt true ex_state Unix [1] (Cancel 2) = (ex_state, RError E_UNEXPECTED, []) /\
  snd (exec ex_jwt true ex_state Unix [] (Results 1)) = [ERead 1] /\
  exec ex_jwt false ex_state Tcp [1] (Cancel 3) = (ex_state, RError E_NOKEY, []).
Proof. exact example_sig. Qed.
