(* Props/C11.v — property C11: only admissible peers stay connected: allow-list, identity, cost,
   one per ID.  Only statements, each closed by [exact], and their assumptions.
   Model: Model/Admit.v — every session of a node as an automaton over the atomic steps that
   connLock / knownNodeLock define, interleaved in any order ([reachable] quantifies over all
   finite lists of labels: session starts, messages, bookkeeping steps, hang-ups, of any number
   of sessions) — over Model/Proto.v's admission test and decoders; mirrors /repo after the
   "fix:" commits 4decfd1 (empty node ID rejected) and 6afcbbe (connection removed on every exit
   after admission); tied to the code by `./check C11`. *)
From Coq Require Import String.
From Receptor Require Import Model.Admit Model.AdmitHeld Proofs.Proto Proofs.Admit Proofs.AdmitHeld.
Open Scope list_scope.
Open Scope N_scope.

(* In every reachable state, for every interleaving of any number of concurrent sessions, every
   entry (id, c) of s.connections: id is non-empty and not the local ID; exactly one live session
   occupies it; id is on the allow-list of that session's backend when it has one; c is that
   backend's cost for id (per-node override or default); and if the peer has declared a cost for
   the link it is c. *)
Theorem established_only_if_admissible : forall self y id c,
  reachable repaired self y -> aget (y_conns y) id = Some c ->
  id <> [] /\ id <> self /\
  exists i bi p, nth_error (y_sess y) i = Some (bi, p) /\ holds p = Some (id, c) /\
                 allowed bi id = true /\ c = cost_for bi id /\
                 (forall rc, p = PEst id c (Some rc) -> dy_eqb rc c = true) /\
                 (forall j bj pj cj, nth_error (y_sess y) j = Some (bj, pj) -> holds pj = Some (id, cj) -> j = i).
Proof. exact Proofs.Admit.established_only_if_admissible. Qed.
Print Assumptions established_only_if_admissible.

Theorem at_most_one_session_per_id : forall self y i j bi bj p q id c c',
  reachable repaired self y ->
  nth_error (y_sess y) i = Some (bi, p) -> nth_error (y_sess y) j = Some (bj, q) ->
  holds p = Some (id, c) -> holds q = Some (id, c') -> i = j.
Proof. exact Proofs.Admit.at_most_one_session_per_id. Qed.
Print Assumptions at_most_one_session_per_id.

(* the admission test, as a specification *)
Theorem admission_test_spec : forall self bi conns id,
  admissible repaired self bi conns id = true <->
  id <> [] /\ id <> self /\ allowed bi id = true /\ aget conns id = None.
Proof. exact admissible_spec. Qed.
Print Assumptions admission_test_spec.

(* a handshake that fails the test changes nothing but the fate of its own session: no entry,
   no own-row edge (hence no route), the other sessions untouched *)
Theorem rejected_leaves_no_route : forall y i bi ri,
  nth_error (y_sess y) i = Some (bi, PInit) ->
  admissible repaired (y_self y) bi (y_conns y) (ru_fwd ri) = false ->
  let y' := sys_step repaired y (LMsg i (ARoute ri)) in
  y_conns y' = y_conns y /\ y_selfrow y' = y_selfrow y /\
  nth_error (y_sess y') i = Some (bi, PClosed true) /\
  (forall j, j <> i -> nth_error (y_sess y') j = nth_error (y_sess y) j).
Proof. exact Proofs.Admit.rejected_leaves_no_route. Qed.
Print Assumptions rejected_leaves_no_route.

(* whenever no bookkeeping step is pending, every edge of the node's own cost row (the first hop
   of every route) is an established, live connection *)
Theorem no_route_without_connection : forall self y id,
  reachable repaired self y -> quiescent y = true -> amem (y_selfrow y) id = true ->
  exists c i bi decl, aget (y_conns y) id = Some c /\ nth_error (y_sess y) i = Some (bi, PEst id c decl).
Proof. exact Proofs.Admit.no_route_without_connection. Qed.
Print Assumptions no_route_without_connection.

(* a peer that speaks under another ID, stops listing the local node after having listed it, or
   declares a different cost is disconnected by that very message (reject sent), and its
   own-row edge is gone after the session's next step *)
Theorem misbehaving_peer_removed : forall self y i bi id c decl ri,
  reachable repaired self y ->
  nth_error (y_sess y) i = Some (bi, PEst id c decl) ->
  misbehaves (y_self y) id c decl ri ->
  let y1 := sys_step repaired y (LMsg i (ARoute ri)) in
  let y2 := sys_step repaired y1 (LFinish i) in
  aget (y_conns y1) id = None /\ nth_error (y_sess y1) i = Some (bi, PLeaving id true) /\
  aget (y_selfrow y2) id = None /\ nth_error (y_sess y2) i = Some (bi, PClosed true) /\ y_conns y2 = y_conns y1.
Proof. exact Proofs.Admit.misbehaving_peer_removed. Qed.
Print Assumptions misbehaving_peer_removed.

(* a connection is forgotten as soon as its session ends, in whatever phase after admission *)
Theorem forgotten_when_session_ends : forall self y i bi p id c,
  reachable repaired self y ->
  nth_error (y_sess y) i = Some (bi, p) -> holds p = Some (id, c) ->
  let y1 := sys_step repaired y (LHangup i) in
  let y2 := sys_step repaired y1 (LFinish i) in
  aget (y_conns y1) id = None /\ aget (y_conns y2) id = None /\ aget (y_selfrow y2) id = None /\
  nth_error (y_sess y2) i = Some (bi, PClosed false).
Proof. exact Proofs.Admit.forgotten_when_session_ends. Qed.
Print Assumptions forgotten_when_session_ends.

(* "session ended" is ONE event of the automaton whatever its cause (Recv io.EOF or error, Send
   error, backend context cancelled, idle monitor): no reachable state lists a connection whose
   session has ended, and the ending step itself removes the entry.  (That every cause really
   raises this event in the implementation, within a fraction of a second, is what the harness's
   session-endings phase checks.) *)
Theorem no_connection_of_an_ended_session : forall self y,
  reachable repaired self y ->
  (forall id c, aget (y_conns y) id = Some c ->
     exists i bi p, nth_error (y_sess y) i = Some (bi, p) /\ holds p = Some (id, c) /\ ended p = false) /\
  (forall i bi p, nth_error (y_sess y) i = Some (bi, p) -> ended p = true -> holds p = None).
Proof. exact Proofs.Admit.no_connection_of_an_ended_session. Qed.
Print Assumptions no_connection_of_an_ended_session.

Theorem ending_removes_in_one_step : forall self y i bi p id c,
  reachable repaired self y -> nth_error (y_sess y) i = Some (bi, p) -> holds p = Some (id, c) ->
  let y1 := sys_step repaired y (LHangup i) in
  aget (y_conns y1) id = None /\ exists q, nth_error (y_sess y1) i = Some (bi, q) /\ ended q = true.
Proof. exact Proofs.Admit.ending_removes_in_one_step. Qed.
Print Assumptions ending_removes_in_one_step.

(* the pinned code: a handshake without node ID is admitted as connection "" and can never be
   removed (DESIGN §9 row 5) ... *)
Theorem pinned_empty_id_refuted :
  let y := sys_run pinned (sys_init (str "victim"%string))
             [LStart bi1; LMsg 0 (ARoute no_id_update); LFinish 0; LFinish 0; LHangup 0; LFinish 0] in
  aget (y_conns y) [] = Some (Dy false 1 0) /\ aget (y_selfrow y) [] = Some (Dy false 1 0) /\
  nth_error (y_sess y) 0 = Some (bi1, PClosed false).
Proof. exact pinned_admits_empty_id_for_ever. Qed.
Print Assumptions pinned_empty_id_refuted.

(* ... and a session whose context ends while it waits for the routing-table runner is closed
   with its connection and route left behind (found while modelling; reproduced on the code) *)
Theorem pinned_forgotten_when_session_ends_refuted :
  let y := sys_run pinned (sys_init (str "victim"%string))
             [LStart bi1; LMsg 0 (ARoute alpha_update); LFinish 0; LHangup 0; LFinish 0] in
  aget (y_conns y) (str "alpha"%string) = Some (Dy false 1 0) /\
  aget (y_selfrow y) (str "alpha"%string) = Some (Dy false 1 0) /\
  nth_error (y_sess y) 0 = Some (bi1, PClosed false).
Proof. exact pinned_forgets_to_forget. Qed.
Print Assumptions pinned_forgotten_when_session_ends_refuted.

(* why at_most_one_session_per_id needs the admission test and the insertion to be ONE critical
   section: with the test under a read lock and the insertion under a later write lock, two
   sessions announcing the same ID at the same instant are both established, sharing one entry
   (the harness's gate-race phase looks for exactly this on the implementation) *)
Theorem split_check_and_insert_refuted :
  let id := str "twin"%string in
  let st := split_run (str "victim"%string) bi1 ([], [SInit; SInit]) [SCheck 0 id; SCheck 1 id; SInsert 0; SInsert 1] in
  snd st = [SHolding id (Dy false 1 0); SHolding id (Dy false 1 0)] /\ List.length (fst st) = 1%nat.
Proof. exact split_admission_refuted. Qed.
Print Assumptions split_check_and_insert_refuted.

(* the window between the END of a session and its loop noticing it (the loop is inside a message
   handler: firewall rule, slow local service): Model/AdmitHeld.v.  With the code's test (an ID
   that has an entry is taken, whatever the state of its owner), for every schedule of handshakes,
   ends and late clean-ups of any number of sessions, every session registered under an ID owns
   the entry of that ID — a registered session is always listed, and no two share an ID *)
Theorem held_end_holder_owns_entry : forall n ls i id a,
  let st := held_run false (held_init n) ls in
  nth_error (snd st) i = Some (HHolding id a) -> aget (fst st) id = Some i.
Proof. exact strict_holder_owns_entry. Qed.
Print Assumptions held_end_holder_owns_entry.

Theorem held_end_one_holder_per_id : forall n ls i j id a b,
  let st := held_run false (held_init n) ls in
  nth_error (snd st) i = Some (HHolding id a) -> nth_error (snd st) j = Some (HHolding id b) -> i = j.
Proof. exact strict_one_holder_per_id. Qed.
Print Assumptions held_end_one_holder_per_id.

(* a test that does not count an entry whose owner's context has ended (removeConnection still
   deletes by ID): the old loop's clean-up deletes the reconnected session's entry — alive and not
   listed — and a third session is established next to it (the harness's held-end phase plays
   this schedule on the implementation) *)
Theorem held_end_lenient_test_refuted :
  let x := str "xray"%string in
  held_run true (held_init 3) [HHs 0 x; HEnd 0; HHs 1 x; HCleanup 0] = ([], [HGone; HHolding x true; HInit]) /\
  held_run true (held_init 3) [HHs 0 x; HEnd 0; HHs 1 x; HCleanup 0; HHs 2 x]
    = ([(x, 2%nat)], [HGone; HHolding x true; HHolding x true]).
Proof. exact lenient_test_refuted. Qed.
Print Assumptions held_end_lenient_test_refuted.

(* the sequential model of one session (Model/Proto.v, tied to the code byte for byte by C07 and
   C11 cases) is the composition of this file's atomic steps *)
Theorem admission_refines_proto_step : forall E n s body j ri,
  s_est s = false -> tok E body = Some j -> decode_routing_update j = JOk ri ->
  let y' := sys_run repaired (sys_of n (s_bi s) PInit) [LMsg 0 (ARoute ri); LFinish 0; LFinish 0] in
  match proto_step E (n, s) (1 :: body) with
  | Cont (n', s') _ =>
    y_conns y' = n_conns n' /\ y_selfrow y' = n_selfrow n' /\
    y_sess y' = [(s_bi s, PEst (s_id s') (s_cost s') None)] /\ s_est s' = true /\ s_rest s' = false
  | Stop n' rej => y_conns y' = n_conns n' /\ y_selfrow y' = n_selfrow n' /\ y_sess y' = [(s_bi s, PClosed rej)]
  | Panic _ => False
  end.
Proof. exact Proofs.Admit.admission_refines_proto_step. Qed.
Print Assumptions admission_refines_proto_step.

Theorem est_check_refines_step_route_est : forall E n s ri decl,
  s_rest s = is_some decl ->
  match step_route_est E n s ri, est_check (n_id n) (s_id s) (s_cost s) decl ri with
  | Stop n' rej, None => n' = remove_conn n (s_id s) /\ rej = true
  | Cont (n', s') _, Some decl' =>
    n_conns n' = n_conns n /\ n_selfrow n' = n_selfrow n /\ s_id s' = s_id s /\ s_cost s' = s_cost s /\
    s_rest s' = is_some decl'
  | _, _ => False
  end.
Proof. exact Proofs.Admit.est_check_refines_step_route_est. Qed.
Print Assumptions est_check_refines_step_route_est.

(* two running nodes claim the same ID: the earlier one keeps running on everything the later
   one says about itself and answers with a notice naming the later epoch; on that notice the
   later one shuts down *)
Theorem earlier_duplicate_keeps_running : forall E n eb ri,
  n_id n <> [] -> 0 < n_epoch n -> n_epoch n < eb -> n_down n = false ->
  says_about_itself (n_id n) eb ri ->
  n_down (fst (handle_ru E n ri)) = false /\ snd (handle_ru E n ri) = [ENotify eb].
Proof. exact Proofs.Admit.earlier_duplicate_keeps_running. Qed.
Print Assumptions earlier_duplicate_keeps_running.

Theorem later_duplicate_shuts_down : forall E n ea ri,
  n_id n <> [] -> ea <> n_epoch n ->
  ru_node ri = n_id n -> ru_epoch ri = ea -> ru_dup ri = n_epoch n -> nonpositive_cost ri = false ->
  n_down (fst (handle_ru E n ri)) = true.
Proof. exact Proofs.Admit.later_duplicate_shuts_down. Qed.
Print Assumptions later_duplicate_shuts_down.

(* non-vacuity: a reachable, quiescent state with two live connections after a same-ID race *)
Example C11_nonvacuous :
  let y := sys_run repaired (sys_init (str "victim"%string))
             [LStart bi1; LStart bi1; LStart bi1;
              LMsg 1 (ARoute alpha_update); LMsg 0 (ARoute alpha_update);
              LMsg 2 (ARoute {| ru_node := []; ru_uid := []; ru_epoch := 0; ru_seq := 0; ru_conns := None;
                                ru_fwd := str "beta"%string; ru_dup := 0 |});
              LFinish 2; LFinish 1; LFinish 1; LFinish 2] in
  map fst (y_conns y) = [str "alpha"%string; str "beta"%string] /\ quiescent y = true /\
  nth_error (y_sess y) 0 = Some (bi1, PClosed true).
Proof. exact race_example. Qed.
