(* Proofs/Results.v — lemmas about Model/Results.v (property C05, reader half). *)
From Coq Require Import ZArith Lia ZifyN ZifyNat ZifyBool.
From Receptor Require Import Model.Results.
Open Scope N_scope.

(* ---------- lists ---------- *)

Lemma firstn_add {A} (a m : nat) (l : list A) :
  firstn (a + m) l = firstn a l ++ firstn m (skipn a l).
Proof.
  revert l; induction a as [|a IH]; intros l; [reflexivity|].
  destruct l as [|x l]; simpl.
  - now rewrite firstn_nil.
  - f_equal. apply IH.
Qed.

Lemma firstn_firstn_len {A} (b : nat) (l : list A) :
  firstn (length (firstn b l)) l = firstn b l.
Proof.
  revert l; induction b as [|b IH]; intros [|x l]; simpl; try reflexivity.
  f_equal. apply IH.
Qed.

Lemma firstn_extend {A} (a b : nat) (l : list A) :
  firstn a l ++ firstn b (skipn a l) = firstn (a + length (firstn b (skipn a l))) l.
Proof. now rewrite firstn_add, firstn_firstn_len. Qed.

Lemma skipn_add {A} (a b : nat) (l : list A) : skipn (a + b) l = skipn b (skipn a l).
Proof.
  revert l; induction a as [|a IH]; intros l; [reflexivity|].
  destruct l as [|x l]; simpl.
  - now rewrite skipn_nil.
  - apply IH.
Qed.

Lemma firstn_app_le {A} (a : nat) (l y : list A) :
  (a <= length l)%nat -> firstn a (l ++ y) = firstn a l.
Proof.
  intro H. rewrite firstn_app. replace (a - length l)%nat with 0%nat by lia.
  simpl. apply app_nil_r.
Qed.

Lemma skipn_app_any {A} (n : nat) (l y : list A) :
  skipn n (l ++ y) = skipn n l ++ skipn (n - length l) y.
Proof. apply skipn_app. Qed.

Lemma is_prefix_firstn (a : nat) (l : bytes) : is_prefix (firstn a l) l = true.
Proof.
  revert l; induction a as [|a IH]; intros [|x l]; simpl; try reflexivity.
  rewrite N.eqb_refl. apply IH.
Qed.

Lemma is_prefix_spec (a b : bytes) : is_prefix a b = true <-> exists c, b = a ++ c.
Proof.
  revert b; induction a as [|x a IH]; intros b; simpl.
  - split; [intros _; now exists b|reflexivity].
  - destruct b as [|y b]; [split; [discriminate|intros [c Hc]; discriminate]|].
    rewrite andb_true_iff, N.eqb_eq, IH. split.
    + intros [-> [c ->]]. now exists c.
    + intros [c Hc]. inversion Hc; subst. split; [reflexivity|now exists c].
Qed.

Lemma is_prefix_refl a : is_prefix a a = true.
Proof. apply is_prefix_spec. exists []. now rewrite app_nil_r. Qed.

Lemma concat_emit (c : bytes) (cs : list bytes) :
  concat (match c with [] => cs | _ => c :: cs end) = c ++ concat cs.
Proof. destruct c; reflexivity. Qed.

Lemma rlen_app a b : rlen (a ++ b) = rlen a + rlen b.
Proof. unfold rlen. rewrite app_length. lia. Qed.

(* ---------- the world only grows ---------- *)

Lemma env_step_output w e : exists x, w_output (env_step w e) = w_output w ++ x.
Proof.
  destruct e; simpl.
  - destruct (w_file w) eqn:E; unfold w_output; simpl; rewrite ?E; exists []; now rewrite ?app_nil_r.
  - exists b. reflexivity.
  - exists []. unfold w_output; simpl. now rewrite app_nil_r.
  - exists []. now rewrite app_nil_r.
Qed.

Lemma world_after_app t1 t2 : world_after (t1 ++ t2) = fold_left env_step t2 (world_after t1).
Proof. unfold world_after. apply fold_left_app. Qed.

Lemma run_from_world d s tr : forall w ph,
  snd (run_from d s w ph tr) = fold_left env_step tr w.
Proof.
  induction tr as [|e r IH]; intros w ph; [reflexivity|].
  destruct e; simpl; try apply IH.
  destruct (reader_step d s w ph n) as [ph' c].
  specialize (IH w ph'). destruct (run_from d s w ph' r) as [[cs phf] wf]. exact IH.
Qed.

Lemma run_from_app d s t1 : forall t2 w ph,
  run_from d s w ph (t1 ++ t2) =
  let '(c1, ph1, w1) := run_from d s w ph t1 in
  let '(c2, ph2, w2) := run_from d s w1 ph1 t2 in
  (c1 ++ c2, ph2, w2).
Proof.
  induction t1 as [|e r IH]; intros t2 w ph.
  - simpl. now destruct (run_from d s w ph t2) as [[c2 ph2] w2].
  - destruct e; simpl; try apply IH.
    destruct (reader_step d s w ph n) as [ph' c].
    rewrite IH.
    destruct (run_from d s w ph' r) as [[c1 ph1] w1].
    destruct (run_from d s w1 ph1 t2) as [[c2 ph2] w2].
    destruct c; reflexivity.
Qed.

(* ---------- the reader invariant ----------
   [target s w] is what the client is entitled to: the output from the start offset on.  The
   reader has emitted its first [a] bytes. *)
Definition target (s : N) (w : world) : bytes := skipn (N.to_nat s) (w_output w).

Definition pos_ok (s : N) (ph : rphase) (a : nat) : Prop :=
  match ph with
  | RWait => a = 0%nat
  | RRead pos | REof pos => s <= pos /\ a = N.to_nat (pos - s)
  | RDone => True
  end.

Definition rinv (s : N) (w : world) (ph : rphase) (em : bytes) : Prop :=
  exists a, (a <= length (target s w))%nat /\ em = firstn a (target s w) /\ pos_ok s ph a.

Lemma rinv_env s w ph em e : rinv s w ph em -> rinv s (env_step w e) ph em.
Proof.
  intros [a [Ha [Hem Hp]]]. exists a.
  destruct (env_step_output w e) as [x Hx]. unfold target in *. rewrite Hx, skipn_app_any.
  split; [rewrite app_length; lia|]. split; [|exact Hp].
  rewrite firstn_app_le by exact Ha. exact Hem.
Qed.

Lemma slice_target s pos f n : s <= pos ->
  slice f pos n = firstn (N.to_nat n) (skipn (N.to_nat (pos - s)) (skipn (N.to_nat s) f)).
Proof.
  intro H. unfold slice. rewrite <- skipn_add. do 2 f_equal. lia.
Qed.

Lemma rinv_step d s w ph em n :
  rinv s w ph em ->
  rinv s w (fst (reader_step d s w ph n)) (em ++ snd (reader_step d s w ph n)).
Proof.
  intros [a [Ha [Hem Hp]]]. destruct ph as [|pos|pos|]; simpl in *.
  - destruct (w_file w) eqn:Ef; [|destruct (d (w_state w))]; simpl; rewrite app_nil_r;
      exists a; repeat split; auto; try lia.
  - destruct Hp as [Hle Ha'].
    destruct (slice (w_output w) pos (chunk n)) as [|x c] eqn:Es; simpl.
    + rewrite app_nil_r. exists a. repeat split; auto.
    + rewrite <- Es. clear x c Es. set (c := slice (w_output w) pos (chunk n)).
      assert (Hc : c = firstn (N.to_nat (chunk n)) (skipn a (target s w))).
      { unfold c, target. rewrite (slice_target s) by exact Hle. now rewrite Ha'. }
      exists (a + length c)%nat. split; [|split].
      * rewrite Hc, firstn_length, skipn_length. lia.
      * rewrite Hem, Hc. apply firstn_extend.
      * split; [lia|]. unfold rlen. lia.
  - destruct Hp as [Hle Ha'].
    destruct (d (w_state w) && (w_size w <=? pos)); simpl; rewrite app_nil_r;
      exists a; repeat split; auto.
  - rewrite app_nil_r. exists a. repeat split; auto.
Qed.

Lemma rinv_prefix s w ph em : rinv s w ph em -> is_prefix em (target s w) = true.
Proof. intros [a [_ [-> _]]]. apply is_prefix_firstn. Qed.

(* every run, every schedule, any finish predicate: what has been emitted is a prefix of the
   output from the start offset on — no gap, no repeat, no foreign byte *)
Lemma run_from_rinv d s tr : forall w ph em,
  rinv s w ph em ->
  let '(cs, phf, wf) := run_from d s w ph tr in rinv s wf phf (em ++ concat cs).
Proof.
  induction tr as [|e r IH]; intros w ph em H.
  - simpl. now rewrite app_nil_r.
  - destruct e; simpl;
      try (apply IH; apply (rinv_env s w ph em); exact H).
    + apply IH. apply (rinv_env s w ph em ECreate H).
    + apply IH. apply (rinv_env s w ph em (EAppend b) H).
    + apply IH. apply (rinv_env s w ph em (ESetStatus state size) H).
    + pose proof (rinv_step d s w ph em n H) as H1.
      destruct (reader_step d s w ph n) as [ph' c]. simpl in H1.
      specialize (IH w ph' (em ++ c) H1).
      destruct (run_from d s w ph' r) as [[cs phf] wf].
      rewrite concat_emit, app_assoc. exact IH.
Qed.

Lemma rinv0 s : rinv s world0 RWait [].
Proof. exists 0%nat. repeat split; simpl; lia. Qed.

Theorem results_prefix_any : forall d start tr,
  is_prefix (concat (fst (results_run_with d start tr)))
            (skipn (N.to_nat start) (output_of tr)) = true.
Proof.
  intros d s tr. unfold results_run_with, output_of, world_after.
  pose proof (run_from_rinv d s tr world0 RWait [] (rinv0 s)) as H.
  pose proof (run_from_world d s tr world0 RWait) as Hw.
  destruct (run_from d s world0 RWait tr) as [[cs phf] wf]. simpl in *.
  subst wf. apply rinv_prefix in H. exact H.
Qed.

(* ---------- with the producer's contract ---------- *)

Definition cstep (fin : N -> bool) (w : world) (e : env_ev) : bool :=
  match e with
  | EAppend _ => negb (fin (w_state w))
  | ESetStatus st sz => if fin st then sz =? rlen (w_output w) else negb (fin (w_state w))
  | _ => true
  end.

Lemma contract_cons fin w e r :
  contract_from fin w (e :: r) = cstep fin w e && contract_from fin (env_step w e) r.
Proof. reflexivity. Qed.

Lemma contract_app fin t1 : forall w t2,
  contract_from fin w (t1 ++ t2) =
  contract_from fin w t1 && contract_from fin (fold_left env_step t1 w) t2.
Proof.
  induction t1 as [|e r IH]; intros w t2; [reflexivity|].
  rewrite <- app_comm_cons, !contract_cons, IH. simpl. now rewrite andb_assoc.
Qed.

(* a finishing status carries the size of the output *)
Definition winv (fin : N -> bool) (w : world) : Prop :=
  fin (w_state w) = true -> w_size w = rlen (w_output w).

Lemma winv_env fin w e : cstep fin w e = true -> winv fin w -> winv fin (env_step w e).
Proof.
  unfold winv. intros Hc Hw. destruct e; simpl in *.
  - destruct (w_file w) eqn:E; simpl; [exact Hw|].
    intro H. rewrite (Hw H). unfold w_output. simpl. now rewrite E.
  - intro H. rewrite H in Hc. discriminate.
  - intro H. rewrite H in Hc. apply N.eqb_eq in Hc. unfold w_output in *. simpl. exact Hc.
  - exact Hw.
Qed.

(* once finished: the output has been delivered in full and is frozen *)
Definition dinv (fin : N -> bool) (s : N) (w : world) (ph : rphase) (em : bytes) : Prop :=
  ph = RDone -> fin (w_state w) = true /\ em = target s w.

Lemma dinv_env fin s w ph em e :
  cstep fin w e = true -> dinv fin s w ph em -> dinv fin s (env_step w e) ph em.
Proof.
  unfold dinv. intros Hc Hd Hph. destruct (Hd Hph) as [Hf Hem]. destruct e; simpl in *.
  - destruct (w_file w) eqn:E; simpl; [now split|]. split; [exact Hf|].
    rewrite Hem. unfold target, w_output. simpl. now rewrite E.
  - rewrite Hf in Hc. discriminate.
  - rewrite Hf in Hc. destruct (fin state) eqn:E; [|discriminate]. split; [reflexivity|exact Hem].
  - now split.
Qed.

Lemma firstn_ge_all {A} (a : nat) (l : list A) : (length l <= a)%nat -> firstn a l = l.
Proof. apply firstn_all2. Qed.

Lemma dinv_step fin s w ph em n :
  winv fin w -> rinv s w ph em -> dinv fin s w ph em ->
  dinv fin s w (fst (reader_step fin s w ph n)) (em ++ snd (reader_step fin s w ph n)).
Proof.
  intros Hw [a [Ha [Hem Hp]]] Hd. unfold dinv. destruct ph as [|pos|pos|]; simpl in *.
  - destruct (w_file w) eqn:Ef; simpl; [discriminate|].
    destruct (fin (w_state w)) eqn:Ef2; simpl; [|discriminate].
    intros _. split; [reflexivity|]. subst a. rewrite app_nil_r, Hem.
    unfold target, w_output. rewrite Ef. now rewrite skipn_nil.
  - destruct (slice (w_output w) pos (chunk n)); simpl; discriminate.
  - destruct (fin (w_state w)) eqn:Ef; simpl; [|discriminate].
    destruct (w_size w <=? pos) eqn:El; simpl; [|discriminate].
    intros _. split; [reflexivity|]. rewrite app_nil_r, Hem.
    apply firstn_ge_all. destruct Hp as [Hle ->].
    specialize (Hw Ef). unfold target in *. rewrite skipn_length in *.
    unfold rlen in Hw. lia.
  - intros _. rewrite app_nil_r. now apply Hd.
Qed.

Lemma run_from_exact fin s tr : forall w ph em,
  contract_from fin w tr = true -> winv fin w -> rinv s w ph em -> dinv fin s w ph em ->
  let '(cs, phf, wf) := run_from fin s w ph tr in
  winv fin wf /\ rinv s wf phf (em ++ concat cs) /\ dinv fin s wf phf (em ++ concat cs).
Proof.
  induction tr as [|e r IH]; intros w ph em Hc Hw Hr Hd.
  - simpl. rewrite app_nil_r. auto.
  - rewrite contract_cons in Hc. apply andb_true_iff in Hc as [Hc1 Hc2].
    assert (Henv : is_poll e = false ->
                   run_from fin s w ph (e :: r) = run_from fin s (env_step w e) ph r).
    { destruct e; simpl; intros; try reflexivity; discriminate. }
    destruct (is_poll e) eqn:Ep.
    + destruct e; try discriminate. simpl.
      pose proof (rinv_step fin s w ph em n Hr) as H1.
      pose proof (dinv_step fin s w ph em n Hw Hr Hd) as H2.
      destruct (reader_step fin s w ph n) as [ph' c]. simpl in H1, H2, Hc2.
      specialize (IH w ph' (em ++ c) Hc2 Hw H1 H2).
      destruct (run_from fin s w ph' r) as [[cs phf] wf].
      rewrite concat_emit, app_assoc. exact IH.
    + rewrite (Henv eq_refl). apply IH; auto.
      * now apply winv_env.
      * now apply rinv_env.
      * now apply dinv_env.
Qed.

Lemma winv0 fin : fin ST_PENDING = false -> winv fin world0.
Proof. unfold winv. simpl. intros H H'. rewrite H in H'. discriminate. Qed.

Lemma dinv0 fin s : dinv fin s world0 RWait [].
Proof. unfold dinv. discriminate. Qed.

Theorem results_exact_thm : forall start tr,
  contract tr = true ->
  let '(cs, fin) := results_run start tr in
  is_prefix (concat cs) (skipn (N.to_nat start) (output_of tr)) = true /\
  (fin = true ->
   concat cs = skipn (N.to_nat start) (output_of tr) /\
   results_done (w_state (world_after tr)) = true).
Proof.
  intros s tr Hc. unfold results_run, results_run_with, output_of, world_after.
  pose proof (run_from_exact results_done s tr world0 RWait [] Hc
                (winv0 results_done eq_refl) (rinv0 s) (dinv0 results_done s)) as H.
  pose proof (run_from_world results_done s tr world0 RWait) as Hw.
  destruct (run_from results_done s world0 RWait tr) as [[cs phf] wf]. simpl in *.
  subst wf. destruct H as [_ [Hr Hd]]. split; [exact (rinv_prefix _ _ _ _ Hr)|].
  intro Hf. destruct phf; try discriminate. destruct (Hd eq_refl) as [H1 H2]. now split.
Qed.

(* what was the final output when the reader finished stays the final output *)
Lemma contract_frozen fin tr : forall w,
  contract_from fin w tr = true -> fin (w_state w) = true ->
  w_output (fold_left env_step tr w) = w_output w /\ fin (w_state (fold_left env_step tr w)) = true.
Proof.
  induction tr as [|e r IH]; intros w Hc Hf; [now split|].
  rewrite contract_cons in Hc. apply andb_true_iff in Hc as [Hc1 Hc2]. simpl.
  destruct e; simpl in *.
  - destruct (w_file w) eqn:E.
    + now apply IH.
    + destruct (IH (mkWorld (Some []) (w_state w) (w_size w)) Hc2 Hf) as [H1 H2].
      split; [|exact H2]. rewrite H1. unfold w_output. simpl. now rewrite E.
  - rewrite Hf in Hc1. discriminate.
  - rewrite Hf in Hc1. destruct (fin state) eqn:E; [|discriminate].
    destruct (IH (mkWorld (w_file w) state size) Hc2 E) as [H1 H2]. split; [|exact H2].
    rewrite H1. reflexivity.
  - now apply IH.
Qed.

Theorem results_final_thm : forall start tr tr',
  contract (tr ++ tr') = true -> snd (results_run start tr) = true ->
  output_of (tr ++ tr') = output_of tr /\
  snd (results_run start (tr ++ tr')) = true /\
  fst (results_run start (tr ++ tr')) = fst (results_run start tr).
Proof.
  intros s tr tr' Hc Hf. unfold contract in Hc. rewrite contract_app in Hc.
  apply andb_true_iff in Hc as [Hc1 Hc2].
  pose proof (results_exact_thm s tr Hc1) as He.
  unfold results_run, results_run_with in *.
  rewrite run_from_app.
  pose proof (run_from_world results_done s tr world0 RWait) as Hw.
  destruct (run_from results_done s world0 RWait tr) as [[cs phf] wf]. simpl in *. subst wf.
  destruct He as [_ He]. specialize (He Hf). destruct He as [_ Hd].
  destruct phf; try discriminate.
  destruct (contract_frozen results_done tr' _ Hc2 Hd) as [Ho _].
  split; [unfold output_of; rewrite world_after_app; exact Ho|].
  (* a finished reader stays finished and silent *)
  assert (Hstay : forall t w, run_from results_done s w RDone t = ([], RDone, fold_left env_step t w)).
  { induction t as [|e r IH]; intros w; [reflexivity|]. destruct e; simpl; try apply IH.
    now rewrite IH. }
  rewrite Hstay. simpl. split; [reflexivity|apply app_nil_r].
Qed.

(* ---------- termination ---------- *)

Definition measure (w : world) (ph : rphase) : nat :=
  let n := length (w_output w) in
  match ph with
  | RWait => n + 4
  | RRead pos => (n - N.to_nat pos) + 2
  | REof pos => if rlen (w_output w) <=? pos then 1 else (n - N.to_nat pos) + 3
  | RDone => 0
  end.

Lemma slice_nil_eof f pos n : slice f pos (chunk n) = [] -> rlen f <= pos.
Proof.
  unfold slice, chunk, rlen. intro H.
  assert (Hl : length (firstn (N.to_nat (if n =? 0 then 1 else n)) (skipn (N.to_nat pos) f)) = 0%nat)
    by now rewrite H.
  rewrite firstn_length, skipn_length in Hl.
  destruct (n =? 0) eqn:E; lia.
Qed.

Lemma slice_cons_lt f pos n x c : slice f pos n = x :: c -> pos < rlen f.
Proof.
  unfold slice, rlen. intro H.
  assert (Hl : length (firstn (N.to_nat n) (skipn (N.to_nat pos) f)) = S (length c)) by now rewrite H.
  rewrite firstn_length, skipn_length in Hl. lia.
Qed.

Lemma poll_decreases fin s w ph n :
  winv fin w -> fin (w_state w) = true -> ph <> RDone ->
  (measure w (fst (reader_step fin s w ph n)) < measure w ph)%nat.
Proof.
  intros Hw Hf Hne. specialize (Hw Hf). destruct ph as [|pos|pos|]; simpl.
  - destruct (w_file w) eqn:E; simpl.
    + lia.
    + rewrite Hf. simpl. lia.
  - destruct (slice (w_output w) pos (chunk n)) as [|x c] eqn:Es; simpl.
    + apply slice_nil_eof in Es. apply N.leb_le in Es. rewrite Es. lia.
    + apply slice_cons_lt in Es. unfold rlen in *. simpl. lia.
  - rewrite Hf, Hw. simpl. destruct (rlen (w_output w) <=? pos) eqn:E; simpl; lia.
  - congruence.
Qed.

Lemma polls_finish fin s w : forall polls ph,
  winv fin w -> fin (w_state w) = true ->
  (measure w ph <= length polls)%nat ->
  snd (fst (run_from fin s w ph (map EPoll polls))) = RDone.
Proof.
  induction polls as [|n r IH]; intros ph Hw Hf Hm.
  - simpl in *. destruct ph; simpl in Hm; try lia; try reflexivity.
    destruct (rlen (w_output w) <=? pos); lia.
  - simpl. destruct (reader_step fin s w ph n) as [ph' c] eqn:Es.
    assert (Hm' : (measure w ph' <= length r)%nat).
    { assert (Hd : ph <> RDone -> (measure w ph' < measure w ph)%nat).
      { intro Hne. pose proof (poll_decreases fin s w ph n Hw Hf Hne) as Hd.
        now rewrite Es in Hd. }
      destruct ph as [|pos|pos|].
      4: { simpl in Es. inversion Es; subst. simpl. lia. }
      all: specialize (Hd ltac:(discriminate)); simpl length in Hm; lia. }
    specialize (IH ph' Hw Hf Hm').
    destruct (run_from fin s w ph' (map EPoll r)) as [[cs phf] wf]. exact IH.
Qed.

Theorem results_terminates_thm : forall start tr polls,
  contract tr = true ->
  results_done (w_state (world_after tr)) = true ->
  (length (output_of tr) + 4 <= length polls)%nat ->
  snd (results_run start (tr ++ map EPoll polls)) = true.
Proof.
  intros s tr polls Hc Hf Hl. unfold results_run, results_run_with.
  rewrite run_from_app.
  pose proof (run_from_exact results_done s tr world0 RWait [] Hc
                (winv0 results_done eq_refl) (rinv0 s) (dinv0 results_done s)) as H.
  pose proof (run_from_world results_done s tr world0 RWait) as Hw.
  destruct (run_from results_done s world0 RWait tr) as [[cs phf] wf]. simpl in *. subst wf.
  destruct H as [Hwi _].
  assert (Hm : (measure (fold_left env_step tr world0) phf <= length polls)%nat).
  { unfold output_of, world_after in Hl. destruct phf; simpl; try lia.
    destruct (rlen _ <=? pos); lia. }
  pose proof (polls_finish results_done s _ polls phf Hwi Hf Hm) as Hp.
  destruct (run_from results_done s (fold_left env_step tr world0) phf (map EPoll polls))
    as [[c2 ph2] w2]. simpl in Hp. now subst ph2.
Qed.

(* ---------- the pinned finish condition never lets the results of a cancelled unit end ---------- *)

Lemma pinned_never_done s w : w_state w = ST_CANCELED -> forall polls ph,
  ph <> RDone -> w_file w <> None ->
  snd (fst (run_from is_complete s w ph (map EPoll polls))) <> RDone.
Proof.
  intros Hst. induction polls as [|n r IH]; intros ph Hne Hfile; [exact Hne|].
  simpl. destruct (reader_step is_complete s w ph n) as [ph' c] eqn:Es.
  assert (Hne' : ph' <> RDone).
  { destruct ph as [|pos|pos|]; simpl in Es.
    - destruct (w_file w); [inversion Es; discriminate|congruence].
    - destruct (slice (w_output w) pos (chunk n)); inversion Es; discriminate.
    - rewrite Hst in Es. simpl in Es. inversion Es; discriminate.
    - congruence. }
  specialize (IH ph' Hne' Hfile).
  destruct (run_from is_complete s w ph' (map EPoll r)) as [[cs phf] wf]. exact IH.
Qed.

Definition cancel_witness : list env_ev :=
  [ECreate; EAppend [104; 105]; ESetStatus ST_RUNNING 2; ESetStatus ST_CANCELED 2].

Theorem results_pinned_refuted_thm :
  contract cancel_witness = true /\
  w_state (world_after cancel_witness) = ST_CANCELED /\
  (forall polls, snd (results_run_pinned 0 (cancel_witness ++ map EPoll polls)) = false) /\
  (forall polls, (6 <= length polls)%nat ->
     snd (results_run 0 (cancel_witness ++ map EPoll polls)) = true).
Proof.
  split; [reflexivity|]. split; [reflexivity|]. split.
  - intro polls. unfold results_run_pinned, results_run_with. rewrite run_from_app.
    change (run_from is_complete 0 world0 RWait cancel_witness)
      with (@nil bytes, RWait, mkWorld (Some [104; 105]) ST_CANCELED 2).
    cbv iota beta.
    pose proof (pinned_never_done 0 (mkWorld (Some [104; 105]) ST_CANCELED 2) eq_refl polls RWait
                  ltac:(discriminate) ltac:(discriminate)) as H.
    destruct (run_from is_complete 0 _ RWait (map EPoll polls)) as [[cs phf] wf].
    simpl in *. destruct phf; try reflexivity. congruence.
  - intros polls Hl. apply results_terminates_thm; [reflexivity|reflexivity|exact Hl].
Qed.

(* ---------- a non-trivial producer satisfies the contract ---------- *)
Definition contract_example : list env_ev :=
  [ESetStatus ST_PENDING 0; ECreate; EPoll 65536; EAppend [1; 2; 3]; ESetStatus ST_RUNNING 2;
   EPoll 2; EAppend [4]; EPoll 0; ESetStatus ST_RUNNING 4; EAppend [5; 6]; EPoll 65536;
   ESetStatus ST_SUCCEEDED 6; EPoll 1; EPoll 1; EPoll 1; EPoll 1; EPoll 1].

Lemma contract_example_ok :
  contract contract_example = true /\
  results_run 1 contract_example = ([[2; 3]; [4]; [5; 6]], true).
Proof. split; reflexivity. Qed.

(* ---------- the schedule (when and how much the reader reads) does not matter ---------- *)
Definition env_only (tr : list env_ev) : list env_ev := filter (fun e => negb (is_poll e)) tr.

Lemma world_after_env_only tr : forall w,
  fold_left env_step (env_only tr) w = fold_left env_step tr w.
Proof.
  induction tr as [|e r IH]; intro w; [reflexivity|].
  destruct e; simpl; apply IH.
Qed.

Theorem results_schedule_irrelevant_thm : forall start tr1 tr2,
  contract tr1 = true -> contract tr2 = true -> env_only tr1 = env_only tr2 ->
  snd (results_run start tr1) = true -> snd (results_run start tr2) = true ->
  concat (fst (results_run start tr1)) = concat (fst (results_run start tr2)).
Proof.
  intros s tr1 tr2 H1 H2 He F1 F2.
  pose proof (results_exact_thm s tr1 H1) as E1. pose proof (results_exact_thm s tr2 H2) as E2.
  destruct (results_run s tr1) as [c1 f1]. destruct (results_run s tr2) as [c2 f2]. simpl in *.
  destruct E1 as [_ E1]. destruct E2 as [_ E2].
  destruct (E1 F1) as [-> _]. destruct (E2 F2) as [-> _].
  unfold output_of, world_after.
  rewrite <- (world_after_env_only tr1), <- (world_after_env_only tr2). now rewrite He.
Qed.

(* the moment the reader finishes: the unit is done and everything recorded has been sent *)
Lemma reader_finish_covers_thm : forall d start w ph n,
  ph <> RDone -> fst (reader_step d start w ph n) = RDone ->
  d (w_state w) = true /\ (w_file w = None \/ exists pos, ph = REof pos /\ w_size w <= pos).
Proof.
  intros d s w ph n Hne H. destruct ph as [|pos|pos|]; simpl in H.
  - destruct (w_file w); [discriminate|]. destruct (d (w_state w)); [auto|discriminate].
  - destruct (slice (w_output w) pos (chunk n)); discriminate.
  - destruct (d (w_state w)); simpl in H; [|discriminate].
    destruct (w_size w <=? pos) eqn:E; [|discriminate]. apply N.leb_le in E.
    split; [reflexivity|]. right. now exists pos.
  - congruence.
Qed.

(* ---------- mirrored units: the local copy is behind the local record ---------- *)

Definition cstep_m (fin : N -> bool) (w : world) (e : env_ev) : bool :=
  match e with
  | EAppend b => if fin (w_state w) then rlen (w_output w) + rlen b <=? w_size w else true
  | ESetStatus st sz =>
    if fin st
    then (rlen (w_output w) <=? sz) && (has_file w || (sz =? 0)) &&
         (if fin (w_state w) then sz =? w_size w else true)
    else negb (fin (w_state w))
  | _ => true
  end.

Lemma contract_m_cons fin w e r :
  contract_m_from fin w (e :: r) = cstep_m fin w e && contract_m_from fin (env_step w e) r.
Proof. reflexivity. Qed.

Lemma contract_m_app fin t1 : forall w t2,
  contract_m_from fin w (t1 ++ t2) =
  contract_m_from fin w t1 && contract_m_from fin (fold_left env_step t1 w) t2.
Proof.
  induction t1 as [|e r IH]; intros w t2; [reflexivity|].
  rewrite <- app_comm_cons, !contract_m_cons, IH. simpl. now rewrite andb_assoc.
Qed.

(* a finishing record: the copy is not longer than the recorded size, and exists if there is one *)
Definition winv_m (fin : N -> bool) (w : world) : Prop :=
  fin (w_state w) = true -> rlen (w_output w) <= w_size w /\ (w_file w = None -> w_size w = 0).

Lemma winv_m_env fin w e : cstep_m fin w e = true -> winv_m fin w -> winv_m fin (env_step w e).
Proof.
  unfold winv_m. intros Hc Hw. destruct e; simpl in *.
  - destruct (w_file w) eqn:E; simpl.
    + intro H. destruct (Hw H) as [H1 _]. split; [exact H1|]. intro Hn. rewrite E in Hn. discriminate.
    + intro H. destruct (Hw H) as [H1 _]. split; [|discriminate].
      unfold w_output in *. simpl. now rewrite E in H1.
  - intro H. rewrite H in Hc. apply N.leb_le in Hc. rewrite <- rlen_app in Hc. split; [|discriminate].
    unfold w_output at 1. simpl. exact Hc.
  - intro H. rewrite H in Hc.
    apply andb_true_iff in Hc as [Hc _]. apply andb_true_iff in Hc as [H1 H2].
    apply N.leb_le in H1. split; [unfold w_output in *; simpl; exact H1|].
    intro Hn. unfold has_file in H2. rewrite Hn in H2. simpl in H2. now apply N.eqb_eq in H2.
  - exact Hw.
Qed.

(* once finished: everything from the start offset on has been delivered, up to the recorded size *)
Definition dinv_m (fin : N -> bool) (s : N) (w : world) (ph : rphase) (em : bytes) : Prop :=
  ph = RDone -> fin (w_state w) = true /\ em = target s w /\ w_size w <= s + rlen em.

Lemma skipn_app_within (s : nat) (l b : bytes) :
  (length (l ++ b) <= s + length (skipn s l))%nat -> skipn s (l ++ b) = skipn s l.
Proof.
  rewrite app_length, skipn_length. intro H.
  destruct (le_lt_dec (length l + length b) s) as [Hs|Hs].
  - rewrite !skipn_all2; [reflexivity|lia|rewrite app_length; lia].
  - assert (Hb : length b = 0%nat) by lia.
    destruct b; [now rewrite app_nil_r|simpl in Hb; lia].
Qed.

Lemma dinv_m_env fin s w ph em e :
  cstep_m fin w e = true -> dinv_m fin s w ph em -> dinv_m fin s (env_step w e) ph em.
Proof.
  unfold dinv_m. intros Hc Hd Hph. destruct (Hd Hph) as [Hf [Hem Hsz]]. destruct e; simpl in *.
  - destruct (w_file w) eqn:E; simpl; [now repeat split|]. repeat split; auto.
    rewrite Hem. unfold target, w_output. simpl. now rewrite E.
  - rewrite Hf in Hc. apply N.leb_le in Hc. rewrite <- rlen_app in Hc. repeat split; auto.
    rewrite Hem. unfold target.
    change (w_output (mkWorld (Some (w_output w ++ b)) (w_state w) (w_size w))) with (w_output w ++ b).
    symmetry. apply skipn_app_within. rewrite Hem in Hsz. clear Hd. unfold target, rlen in *. lia.
  - rewrite Hf in Hc. destruct (fin state) eqn:E; [|discriminate].
    apply andb_true_iff in Hc as [_ Hc]. apply N.eqb_eq in Hc. subst size.
    repeat split; auto.
  - now repeat split.
Qed.

Lemma dinv_m_step fin s w ph em n :
  winv_m fin w -> rinv s w ph em -> dinv_m fin s w ph em ->
  dinv_m fin s w (fst (reader_step fin s w ph n)) (em ++ snd (reader_step fin s w ph n)).
Proof.
  intros Hw [a [Ha [Hem Hp]]] Hd. unfold dinv_m. destruct ph as [|pos|pos|]; simpl in *.
  - destruct (w_file w) eqn:Ef; simpl; [discriminate|].
    destruct (fin (w_state w)) eqn:Ef2; simpl; [|discriminate].
    intros _. destruct (Hw Ef2) as [_ H0]. specialize (H0 Ef).
    split; [reflexivity|]. subst a. rewrite app_nil_r, Hem.
    unfold target, w_output. rewrite Ef, skipn_nil. split; [reflexivity|]. simpl. lia.
  - destruct (slice (w_output w) pos (chunk n)); simpl; discriminate.
  - destruct (fin (w_state w)) eqn:Ef; simpl; [|discriminate].
    destruct (w_size w <=? pos) eqn:El; simpl; [|discriminate].
    intros _. apply N.leb_le in El. destruct (Hw Ef) as [Hlen _]. destruct Hp as [Hle Hpa].
    assert (Hall : firstn a (target s w) = target s w).
    { apply firstn_ge_all. unfold target in *. rewrite skipn_length in *. unfold rlen in Hlen. lia. }
    split; [reflexivity|]. rewrite app_nil_r, Hem, Hall. split; [reflexivity|].
    unfold rlen. lia.
  - intros _. rewrite app_nil_r. now apply Hd.
Qed.

Lemma run_from_exact_m fin s tr : forall w ph em,
  contract_m_from fin w tr = true -> winv_m fin w -> rinv s w ph em -> dinv_m fin s w ph em ->
  let '(cs, phf, wf) := run_from fin s w ph tr in
  winv_m fin wf /\ rinv s wf phf (em ++ concat cs) /\ dinv_m fin s wf phf (em ++ concat cs).
Proof.
  induction tr as [|e r IH]; intros w ph em Hc Hw Hr Hd.
  - simpl. rewrite app_nil_r. auto.
  - rewrite contract_m_cons in Hc. apply andb_true_iff in Hc as [Hc1 Hc2].
    assert (Henv : is_poll e = false ->
                   run_from fin s w ph (e :: r) = run_from fin s (env_step w e) ph r).
    { destruct e; simpl; intros; try reflexivity; discriminate. }
    destruct (is_poll e) eqn:Ep.
    + destruct e; try discriminate. simpl.
      pose proof (rinv_step fin s w ph em n Hr) as H1.
      pose proof (dinv_m_step fin s w ph em n Hw Hr Hd) as H2.
      destruct (reader_step fin s w ph n) as [ph' c]. simpl in H1, H2, Hc2.
      specialize (IH w ph' (em ++ c) Hc2 Hw H1 H2).
      destruct (run_from fin s w ph' r) as [[cs phf] wf].
      rewrite concat_emit, app_assoc. exact IH.
    + rewrite (Henv eq_refl). apply IH; auto.
      * now apply winv_m_env.
      * now apply rinv_env.
      * now apply dinv_m_env.
Qed.

Lemma winv_m0 fin : fin ST_PENDING = false -> winv_m fin world0.
Proof. unfold winv_m. simpl. intros H H'. rewrite H in H'. discriminate. Qed.

Lemma dinv_m0 fin s : dinv_m fin s world0 RWait [].
Proof. unfold dinv_m. discriminate. Qed.

(* a session on a mirrored unit: if it has ended, the unit is done, exactly output[start..] has
   been delivered, and that reaches the RECORDED size — however far behind the copy was when the
   final record arrived; and the copy, which cannot be longer than the recorded size, is complete
   whenever the start offset lies below that size *)
Theorem results_exact_mirrored_thm : forall start tr,
  contract_m tr = true ->
  let '(cs, fin) := results_run start tr in
  is_prefix (concat cs) (skipn (N.to_nat start) (output_of tr)) = true /\
  (fin = true ->
   concat cs = skipn (N.to_nat start) (output_of tr) /\
   results_done (w_state (world_after tr)) = true /\
   w_size (world_after tr) <= start + rlen (concat cs) /\
   (start < w_size (world_after tr) -> rlen (output_of tr) = w_size (world_after tr))).
Proof.
  intros s tr Hc. unfold results_run, results_run_with, output_of, world_after.
  pose proof (run_from_exact_m results_done s tr world0 RWait [] Hc
                (winv_m0 results_done eq_refl) (rinv0 s) (dinv_m0 results_done s)) as H.
  pose proof (run_from_world results_done s tr world0 RWait) as Hw.
  destruct (run_from results_done s world0 RWait tr) as [[cs phf] wf]. simpl in *.
  subst wf. destruct H as [Hwi [Hr Hd]]. split; [exact (rinv_prefix _ _ _ _ Hr)|].
  intro Hf. destruct phf; try discriminate. destruct (Hd eq_refl) as [H1 [H2 H3]].
  repeat split; auto.
  intro Hlt. destruct (Hwi H1) as [Hle _]. rewrite H2 in H3. unfold target, rlen in *.
  rewrite skipn_length in H3. lia.
Qed.

(* ... and stays so: whatever the mirror does afterwards, the finished stream is still exactly
   output[start..] *)
Theorem results_final_mirrored_thm : forall start tr tr',
  contract_m (tr ++ tr') = true -> snd (results_run start tr) = true ->
  skipn (N.to_nat start) (output_of (tr ++ tr')) = skipn (N.to_nat start) (output_of tr) /\
  snd (results_run start (tr ++ tr')) = true /\
  fst (results_run start (tr ++ tr')) = fst (results_run start tr).
Proof.
  intros s tr tr' Hc Hf.
  pose proof (results_exact_mirrored_thm s (tr ++ tr') Hc) as He2.
  assert (Hc1 : contract_m tr = true).
  { unfold contract_m in *. rewrite contract_m_app in Hc. now apply andb_true_iff in Hc as [Hc _]. }
  pose proof (results_exact_mirrored_thm s tr Hc1) as He1.
  unfold results_run, results_run_with in *. rewrite run_from_app in *.
  destruct (run_from results_done s world0 RWait tr) as [[cs phf] wf]. simpl in *.
  destruct phf; try discriminate.
  assert (Hstay : forall t w, run_from results_done s w RDone t = ([], RDone, fold_left env_step t w)).
  { induction t as [|e r IH]; intros w; [reflexivity|]. destruct e; simpl; try apply IH.
    now rewrite IH. }
  rewrite Hstay in *. simpl in *. rewrite app_nil_r in *.
  destruct He1 as [_ He1]. destruct (He1 eq_refl) as [E1 _].
  destruct He2 as [_ He2]. destruct (He2 eq_refl) as [E2 _].
  repeat split; auto. now rewrite <- E1, <- E2.
Qed.

(* once the record is final and the copy has reached the recorded size, the stream ends *)
Theorem results_terminates_mirrored_thm : forall start tr polls,
  results_done (w_state (world_after tr)) = true ->
  w_size (world_after tr) = rlen (output_of tr) ->
  (length (output_of tr) + 4 <= length polls)%nat ->
  snd (results_run start (tr ++ map EPoll polls)) = true.
Proof.
  intros s tr polls Hf Hsz Hl. unfold results_run, results_run_with.
  rewrite run_from_app.
  pose proof (run_from_world results_done s tr world0 RWait) as Hw.
  destruct (run_from results_done s world0 RWait tr) as [[cs phf] wf]. simpl in *. subst wf.
  unfold output_of, world_after in *.
  assert (Hwi : winv results_done (fold_left env_step tr world0)) by (intros _; exact Hsz).
  assert (Hm : (measure (fold_left env_step tr world0) phf <= length polls)%nat).
  { destruct phf; simpl; try lia. destruct (rlen _ <=? pos); lia. }
  pose proof (polls_finish results_done s _ polls phf Hwi Hf Hm) as Hp.
  destruct (run_from results_done s (fold_left env_step tr world0) phf (map EPoll polls))
    as [[c2 ph2] w2]. simpl in Hp. now subst ph2.
Qed.

(* ---------- the reader that takes the size from the file ---------- *)

(* on a local unit (producer's contract) it is the real reader ... *)
Lemma filesize_same_step fin s w ph n :
  winv fin w -> reader_step fin s (filesize_view w) ph n = reader_step fin s w ph n.
Proof.
  intro Hw. destruct ph as [|pos|pos|]; try reflexivity. simpl.
  destruct (fin (w_state w)) eqn:Ef; [|reflexivity]. now rewrite (Hw Ef).
Qed.

Lemma run_from_filesize_same fin s tr : forall w ph,
  contract_from fin w tr = true -> winv fin w ->
  run_from_filesize fin s w ph tr = run_from fin s w ph tr.
Proof.
  induction tr as [|e r IH]; intros w ph Hc Hw; [reflexivity|].
  rewrite contract_cons in Hc. apply andb_true_iff in Hc as [Hc1 Hc2].
  destruct e.
  1-3: cbn [run_from_filesize run_from]; apply IH; [exact Hc2|now apply winv_env].
  cbn [run_from_filesize run_from]. rewrite filesize_same_step by exact Hw.
  destruct (reader_step fin s w ph n) as [ph' c]. simpl in Hc2. now rewrite IH.
Qed.

Theorem results_filesize_same_local_thm : forall start tr,
  contract tr = true -> results_run_filesize start tr = results_run start tr.
Proof.
  intros s tr Hc. unfold results_run_filesize, results_run, results_run_with.
  now rewrite (run_from_filesize_same results_done s tr world0 RWait Hc (winv0 results_done eq_refl)).
Qed.

(* ... on a mirrored unit it ends as soon as the record is final: 2 of 5 bytes *)
Definition early_end_witness : list env_ev :=
  [ECreate; ESetStatus ST_RUNNING 5; EAppend [1; 2]; ESetStatus ST_SUCCEEDED 5;
   EPoll 65536; EPoll 65536; EPoll 65536; EPoll 65536;
   EAppend [3; 4; 5];
   EPoll 65536; EPoll 65536; EPoll 65536; EPoll 65536].

Theorem results_filesize_refuted_thm :
  contract_m early_end_witness = true /\
  w_size (world_after early_end_witness) = 5 /\ output_of early_end_witness = [1; 2; 3; 4; 5] /\
  results_run_filesize 0 early_end_witness = ([[1; 2]], true) /\
  results_run 0 early_end_witness = ([[1; 2]; [3; 4; 5]], true) /\
  ~ (forall start tr, contract_m tr = true -> snd (results_run_filesize start tr) = true ->
       concat (fst (results_run_filesize start tr)) = skipn (N.to_nat start) (output_of tr)).
Proof.
  repeat split; try reflexivity.
  intro H. specialize (H 0 early_end_witness eq_refl eq_refl). vm_compute in H. discriminate H.
Qed.

(* ---------- the periodic form of the pattern used by the case files ---------- *)
Lemma pat_cyc_samples :
  forallb (fun ol => beq_bytes (pat_cyc (fst ol) (snd ol)) (pat (fst ol) (snd ol)))
          [(0, 1); (64255, 3); (250000, 70000); (1999000, 130000); (64256, 64256); (128511, 64258);
           (1734376, 265624); (0, 0); (64256, 0)] = true.
Proof. vm_compute. reflexivity. Qed.
