(* Proofs/Secrets.v — lemmas for property C19 over Model/Secrets.v. *)
From Coq Require Import String ZArith Lia ZifyN ZifyBool.
From Receptor Require Import Model.Secrets.
Open Scope N_scope.

(* ---------- the secret test ---------- *)

Lemma has_prefix_app p s : has_prefix p s = true <-> exists rest, s = p ++ rest.
Proof.
  revert s; induction p as [|x p IH]; intro s; simpl.
  - split; [intros _; now exists s|reflexivity].
  - destruct s as [|y s]; [split; [discriminate|intros [r H]; discriminate]|].
    rewrite andb_true_iff, N.eqb_eq, IH. split.
    + intros [-> [r ->]]. now exists r.
    + intros [r H]. inversion H; subst. split; [reflexivity|now exists r].
Qed.

(* a name is secret iff, with the 26 ASCII capitals lowered, it starts with "secret_" *)
Lemma is_secret_spec k :
  is_secret k = true <-> exists rest, map ascii_lower k = secret_prefix ++ rest.
Proof. unfold is_secret. apply has_prefix_app. Qed.

Lemma ascii_lower_idem b : ascii_lower (ascii_lower b) = ascii_lower b.
Proof.
  unfold ascii_lower.
  destruct ((65 <=? b) && (b <=? 90)) eqn:E; [|now rewrite E].
  destruct ((65 <=? b + 32) && (b + 32 <=? 90)) eqn:E2; [lia|reflexivity].
Qed.

(* letter case does not matter *)
Lemma is_secret_case_insensitive k k' :
  map ascii_lower k = map ascii_lower k' -> is_secret k = is_secret k'.
Proof. unfold is_secret. now intros ->. Qed.

(* ---------- redaction ---------- *)

Lemma redact_In k v p : In (k, v) (redact p) <-> In (k, v) p /\ is_secret k = false.
Proof.
  unfold redact. rewrite filter_In. unfold secret_entry. simpl.
  now rewrite negb_true_iff.
Qed.

Lemma redact_no_secret p : has_secrets (redact p) = false.
Proof.
  unfold has_secrets, redact. induction p as [|kv p IH]; simpl; [reflexivity|].
  destruct (secret_entry kv) eqn:E; simpl; [exact IH|]. now rewrite E.
Qed.

Lemma redact_nothing_to_hide p : has_secrets p = false -> redact p = p.
Proof.
  unfold has_secrets, redact. induction p as [|kv p IH]; simpl; [reflexivity|].
  intro H. apply orb_false_iff in H as [H1 H2]. rewrite H1. simpl. now rewrite IH.
Qed.

Lemma redact_idem p : redact (redact p) = redact p.
Proof. apply redact_nothing_to_hide, redact_no_secret. Qed.

(* order and multiplicity of the remaining entries are those of the submitted map *)
Lemma redact_app p q : redact (p ++ q) = redact p ++ redact q.
Proof. unfold redact. apply filter_app. Qed.

(* ---------- tables ---------- *)

Lemma lookup_store_same id r t : lookup id (store id r t) = Some r.
Proof.
  induction t as [|[i r'] t IH]; simpl; [now rewrite N.eqb_refl|].
  destruct (i =? id) eqn:E; simpl; [now rewrite E|now rewrite E].
Qed.

Lemma lookup_store_other i id r t : i <> id -> lookup i (store id r t) = lookup i t.
Proof.
  intro Hne. induction t as [|[j r'] t IH]; simpl.
  - destruct (id =? i) eqn:E; [apply N.eqb_eq in E; congruence|reflexivity].
  - destruct (j =? id) eqn:E; simpl.
    + apply N.eqb_eq in E; subst j.
      destruct (id =? i) eqn:E2; [apply N.eqb_eq in E2; congruence|reflexivity].
    + destruct (j =? i); [reflexivity|exact IH].
Qed.

Lemma lookup_remove_same id t : lookup id (remove id t) = None.
Proof.
  induction t as [|[j r'] t IH]; simpl; [reflexivity|].
  destruct (j =? id) eqn:E; [exact IH|]. simpl. now rewrite E.
Qed.

Lemma lookup_remove_other i id t : i <> id -> lookup i (remove id t) = lookup i t.
Proof.
  intro Hne. induction t as [|[j r'] t IH]; simpl; [reflexivity|].
  destruct (j =? id) eqn:E.
  - apply N.eqb_eq in E; subst j.
    destruct (id =? i) eqn:E2; [apply N.eqb_eq in E2; congruence|exact IH].
  - simpl. destruct (j =? i); [reflexivity|exact IH].
Qed.

Lemma lookup_map id (f : unit_rec -> unit_rec) t :
  lookup id (map (fun ir => (fst ir, f (snd ir))) t) = option_map f (lookup id t).
Proof.
  induction t as [|[j r] t IH]; simpl; [reflexivity|]. destruct (j =? id); [reflexivity|exact IH].
Qed.

Lemma assoc_view_map id t :
  assoc_view id (map (fun ir => (fst ir, view_of (snd ir))) t) = option_map view_of (lookup id t).
Proof.
  induction t as [|[j r] t IH]; simpl; [reflexivity|]. destruct (j =? id); [reflexivity|exact IH].
Qed.

(* ---------- refusal before anything is stored or sent ---------- *)

Lemma refused_before_store profiles st id node wtype ttl_ok p :
  has_secrets p = true ->
  lookup id (mem st) = None -> lookup id (disk st) = None ->
  step profiles st (Submit id node wtype [] ttl_ok p) = (st, RErr E_SECRET).
Proof.
  intros Hs Hm Hd. simpl. unfold submit. rewrite Hm, Hd, Hs. reflexivity.
Qed.

(* and an unknown profile is refused in the same way *)
Lemma unknown_profile_refused profiles st id node wtype tls ttl_ok p :
  tls <> [] -> mem_bytes tls profiles = false ->
  lookup id (mem st) = None -> lookup id (disk st) = None ->
  step profiles st (Submit id node wtype tls ttl_ok p) = (st, RErr E_TLS).
Proof.
  intros Hn Hk Hm Hd. simpl. unfold submit. rewrite Hm, Hd, Hk.
  destruct tls; [congruence|reflexivity].
Qed.

(* ---------- what replies show ---------- *)

(* every record of unit [id], in the index or on disk, carries the parameter map [p] *)
Definition holds (id : N) (p : params) (st : state) : Prop :=
  (forall r, lookup id (mem st) = Some r -> u_params r = p) /\
  (forall r, lookup id (disk st) = Some r -> u_params r = p).

Lemma holds_set_both_same id p r st : u_params r = p -> holds id p (set_both id r st).
Proof.
  intro H. split; intro r'; simpl; rewrite lookup_store_same; intro E; inversion E; now subst.
Qed.

Lemma holds_set_both_other i id p r st : i <> id -> holds id p st -> holds id p (set_both i r st).
Proof.
  intros Hne [H1 H2]. split; intro r'; simpl; rewrite lookup_store_other by congruence; auto.
Qed.

Lemma find_spec st id r st' :
  find st id = Some (r, st') ->
  forall i p, holds i p st ->
    holds i p st' /\ (i = id -> u_params r = p) /\ sent st' = sent st /\ disk st' = disk st.
Proof.
  unfold find. intros Hf i p [H1 H2].
  destruct (lookup id (mem st)) as [r0|] eqn:Em.
  - inversion Hf; subst. repeat split; auto. intros ->. now apply H1.
  - destruct (lookup id (disk st)) as [r0|] eqn:Ed; [|discriminate].
    inversion Hf; subst; clear Hf. simpl. repeat split; simpl; auto.
    + intros r' E. destruct (N.eq_dec i id) as [->|Hne].
      * rewrite lookup_store_same in E. inversion E; subst; simpl. now apply H2.
      * rewrite lookup_store_other in E by assumption. now apply H1.
    + intros ->. simpl. now apply H2.
Qed.

Lemma find_none st id : find st id = None -> lookup id (mem st) = None /\ lookup id (disk st) = None.
Proof.
  unfold find. destruct (lookup id (mem st)); [discriminate|].
  destruct (lookup id (disk st)); [discriminate|auto].
Qed.

Definition is_submit_of (id : N) (o : op) : bool :=
  match o with Submit i _ _ _ _ _ => i =? id | _ => false end.

Lemma step_holds profiles st o id p :
  is_submit_of id o = false -> holds id p st ->
  holds id p (fst (step profiles st o)) /\
  (forall q, shown id (snd (step profiles st o)) = Some q -> q = redact p).
Proof.
  intros Hns Hh. destruct o as [i node wtype tls ttl q0| i | i | | i | i | i | ]; simpl in *.
  - (* Submit of another unit *)
    apply N.eqb_neq in Hns. unfold submit.
    destruct (lookup i (mem st)), (lookup i (disk st)); simpl; try (split; [exact Hh|discriminate]).
    destruct (negb (isnil tls) && negb (mem_bytes tls profiles)); simpl; [split; [exact Hh|discriminate]|].
    destruct (has_secrets q0 && isnil tls); simpl; [split; [exact Hh|discriminate]|].
    destruct (negb ttl); simpl; (split; [|discriminate]).
    + now apply holds_set_both_other.
    + now apply holds_set_both_other, holds_set_both_other.
  - (* Deliver *)
    destruct (lookup i (mem st)) as [r|] eqn:Em; simpl; [|split; [exact Hh|discriminate]].
    destruct (u_live r && negb (u_started r)); simpl; (split; [|discriminate]); [|exact Hh].
    destruct Hh as [H1 H2]. destruct (N.eq_dec i id) as [->|Hne].
    + split; intro r'; simpl; rewrite lookup_store_same; intro E; inversion E; subst; simpl; now apply H1.
    + split; intro r'; simpl; rewrite lookup_store_other by congruence; auto.
  - (* Status *)
    destruct (find st i) as [[r st']|] eqn:Ef; simpl; [|split; [exact Hh|discriminate]].
    destruct (find_spec _ _ _ _ Ef id p Hh) as (Hh' & Hp & _ & _). split; [exact Hh'|].
    intros q. destruct (i =? id) eqn:E; [|discriminate].
    apply N.eqb_eq in E. intro Hq. inversion Hq. unfold view_of. simpl. now rewrite Hp by congruence.
  - (* List *)
    split; [exact Hh|]. intros q. rewrite assoc_view_map.
    destruct (lookup id (mem st)) as [r|] eqn:Em; simpl; [|discriminate].
    intro Hq. inversion Hq. destruct Hh as [H1 _]. now rewrite (H1 r Em).
  - (* ListOne *)
    destruct (find st i) as [[r st']|] eqn:Ef; simpl; [|split; [exact Hh|discriminate]].
    destruct (find_spec _ _ _ _ Ef id p Hh) as (Hh' & Hp & _ & _). split; [exact Hh'|].
    intros q. destruct (i =? id) eqn:E; [|discriminate].
    apply N.eqb_eq in E. intro Hq. inversion Hq. simpl. now rewrite Hp by congruence.
  - (* Cancel *)
    destruct (find st i) as [[r st']|] eqn:Ef; simpl; [|split; [exact Hh|discriminate]].
    destruct (find_spec _ _ _ _ Ef id p Hh) as (Hh' & Hp & _ & _). split; [|discriminate].
    destruct (N.eq_dec i id) as [->|Hne].
    + apply holds_set_both_same. simpl. now apply Hp.
    + now apply holds_set_both_other.
  - (* Release *)
    destruct (find st i) as [[r st']|] eqn:Ef; simpl; [|split; [exact Hh|discriminate]].
    destruct (find_spec _ _ _ _ Ef id p Hh) as ([H1 H2] & _ & _ & _). split; [|discriminate].
    destruct (N.eq_dec i id) as [->|Hne].
    + split; intro r'; simpl; rewrite lookup_remove_same; discriminate.
    + split; intro r'; simpl; rewrite lookup_remove_other by congruence; auto.
  - (* Restart *)
    split; [|discriminate]. destruct Hh as [H1 H2]. split; intro r'; simpl; [|now apply H2].
    rewrite lookup_map. destruct (lookup id (disk st)) as [r0|] eqn:Ed; simpl; [|discriminate].
    intro E; inversion E; subst; simpl. now apply H2.
Qed.

Lemma not_resubmitted_cons id o h :
  not_resubmitted id (o :: h) = true -> is_submit_of id o = false /\ not_resubmitted id h = true.
Proof.
  destruct o; simpl; auto. intro H. apply andb_true_iff in H as [H1 H2].
  apply negb_true_iff in H1. auto.
Qed.

Lemma run_holds profiles h : forall st id p,
  not_resubmitted id h = true -> holds id p st ->
  forall x q, In x (snd (run profiles st h)) -> shown id x = Some q -> q = redact p.
Proof.
  induction h as [|o h IH]; intros st id p Hn Hh x q Hin Hs; simpl in *; [contradiction|].
  apply not_resubmitted_cons in Hn as [Hn1 Hn2].
  destruct (step_holds profiles st o id p Hn1 Hh) as [Hh' Hq].
  destruct (step profiles st o) as [st1 r] eqn:Es. simpl in *.
  specialize (IH st1 id p Hn2 Hh').
  destruct (run profiles st1 h) as [st2 rs] eqn:Er. simpl in *.
  destruct Hin as [<-|Hin]; [now apply Hq|]. now apply (IH x q).
Qed.

(* a submission that leaves a unit behind: accepted, or the ttl error that comes after the unit
   has been allocated *)
Definition leaves_unit (r : resp) : bool :=
  match r with RCreated _ => true | RErr e => e =? E_TTL | _ => false end.

Lemma submit_holds profiles st id node wtype tls ttl p st1 r :
  step profiles st (Submit id node wtype tls ttl p) = (st1, r) -> leaves_unit r = true ->
  holds id p st1.
Proof.
  simpl. unfold submit.
  destruct (lookup id (mem st)), (lookup id (disk st)); try (intros E; inversion E; subst; discriminate).
  destruct (negb (isnil tls) && negb (mem_bytes tls profiles)); [intros E; inversion E; subst; discriminate|].
  destruct (has_secrets p && isnil tls); [intros E; inversion E; subst; discriminate|].
  destruct (negb ttl); intros E _; inversion E; subst; now apply holds_set_both_same.
Qed.

Theorem no_secret_in_any_response profiles st id node wtype tls ttl p st1 r h :
  step profiles st (Submit id node wtype tls ttl p) = (st1, r) -> leaves_unit r = true ->
  not_resubmitted id h = true ->
  forall x q, In x (snd (run profiles st1 h)) -> shown id x = Some q ->
    q = redact p /\ has_secrets q = false /\
    (forall k v, In (k, v) q <-> In (k, v) p /\ is_secret k = false).
Proof.
  intros Hs Hl Hn x q Hin Hq.
  assert (q = redact p) as ->.
  { eapply run_holds; eauto. eapply submit_holds; eauto. }
  split; [reflexivity|]. split; [apply redact_no_secret|]. intros k v. apply redact_In.
Qed.

(* ---------- nothing secret leaves the node without TLS ---------- *)

Definition rec_okb (r : unit_rec) : bool :=
  negb (u_live r) || negb (has_secrets (u_params r)) || negb (isnil (u_tls r)).
Definition tbl_ok (t : table) : bool := forallb (fun ir => rec_okb (snd ir)) t.
Definition sent_okb (m : sent_msg) : bool := negb (has_secrets (s_params m)) || negb (isnil (s_tls m)).
Definition inv (st : state) : Prop := tbl_ok (mem st) = true /\ forallb sent_okb (sent st) = true.

Lemma tbl_ok_lookup t id r : tbl_ok t = true -> lookup id t = Some r -> rec_okb r = true.
Proof.
  induction t as [|[j r'] t IH]; simpl; [discriminate|].
  intro H. apply andb_true_iff in H as [H1 H2].
  destruct (j =? id); [intro E; inversion E; now subst|now apply IH].
Qed.

Lemma tbl_ok_store t id r : tbl_ok t = true -> rec_okb r = true -> tbl_ok (store id r t) = true.
Proof.
  intros Ht Hr. induction t as [|[j r'] t IH]; simpl in *; [now rewrite Hr|].
  apply andb_true_iff in Ht as [H1 H2].
  destruct (j =? id); simpl; [now rewrite Hr, H2|]. now rewrite H1, IH.
Qed.

Lemma tbl_ok_remove t id : tbl_ok t = true -> tbl_ok (remove id t) = true.
Proof.
  induction t as [|[j r'] t IH]; simpl; [reflexivity|].
  intro H. apply andb_true_iff in H as [H1 H2].
  destruct (j =? id); simpl; [now apply IH|]. now rewrite H1, IH.
Qed.

Lemma tbl_ok_unlive t : tbl_ok (map (fun ir => (fst ir, unlive (snd ir))) t) = true.
Proof. induction t as [|[j r] t IH]; simpl; [reflexivity|exact IH]. Qed.

Lemma find_inv st id r st' : find st id = Some (r, st') -> inv st -> inv st' /\ (u_live r = true -> rec_okb r = true).
Proof.
  unfold find, inv. intros Hf [H1 H2].
  destruct (lookup id (mem st)) as [r0|] eqn:Em.
  - inversion Hf; subst. repeat split; auto. intros _. eapply tbl_ok_lookup; eauto.
  - destruct (lookup id (disk st)) as [r0|]; [|discriminate]. inversion Hf; subst; simpl.
    split; [split; [|exact H2]|discriminate]. apply tbl_ok_store; [exact H1|reflexivity].
Qed.

Lemma step_inv profiles st o : inv st -> inv (fst (step profiles st o)).
Proof.
  intros Hi. destruct o as [i node wtype tls ttl q0| i | i | | i | i | i | ]; simpl.
  - unfold submit. destruct (lookup i (mem st)), (lookup i (disk st)); simpl; try exact Hi.
    destruct (negb (isnil tls) && negb (mem_bytes tls profiles)); simpl; [exact Hi|].
    destruct (has_secrets q0 && isnil tls) eqn:Ec; simpl; [exact Hi|].
    destruct Hi as [H1 H2].
    destruct (negb ttl); simpl; (split; [|exact H2]).
    + apply tbl_ok_store; [exact H1|reflexivity].
    + apply tbl_ok_store; [apply tbl_ok_store; [exact H1|reflexivity]|].
      unfold rec_okb; simpl. destruct (has_secrets q0), (isnil tls); simpl in *; congruence.
  - destruct (lookup i (mem st)) as [r|] eqn:Em; simpl; [|exact Hi].
    destruct (u_live r && negb (u_started r)) eqn:El; simpl; [|exact Hi].
    destruct Hi as [H1 H2]. pose proof (tbl_ok_lookup _ _ _ H1 Em) as Hr.
    apply andb_true_iff in El as [El _]. unfold rec_okb in Hr. rewrite El in Hr. simpl in Hr.
    split; simpl.
    + apply tbl_ok_store; [exact H1|]. unfold rec_okb; simpl. exact Hr.
    + rewrite H2, andb_true_r. exact Hr.
  - destruct (find st i) as [[r st']|] eqn:Ef; simpl; [|exact Hi]. now destruct (find_inv _ _ _ _ Ef Hi).
  - exact Hi.
  - destruct (find st i) as [[r st']|] eqn:Ef; simpl; [|exact Hi]. now destruct (find_inv _ _ _ _ Ef Hi).
  - destruct (find st i) as [[r st']|] eqn:Ef; simpl; [|exact Hi].
    destruct (find_inv _ _ _ _ Ef Hi) as [[H1 H2] _]. split; simpl; [|exact H2].
    apply tbl_ok_store; [exact H1|reflexivity].
  - destruct (find st i) as [[r st']|] eqn:Ef; simpl; [|exact Hi].
    destruct (find_inv _ _ _ _ Ef Hi) as [[H1 H2] _]. split; simpl; [|exact H2].
    now apply tbl_ok_remove.
  - destruct Hi as [_ H2]. split; simpl; [apply tbl_ok_unlive|exact H2].
Qed.

Lemma run_inv profiles h : forall st, inv st -> inv (fst (run profiles st h)).
Proof.
  induction h as [|o h IH]; intros st Hi; simpl; [exact Hi|].
  pose proof (step_inv profiles st o Hi) as H1.
  destruct (step profiles st o) as [st1 r]. simpl in H1.
  specialize (IH st1 H1). destruct (run profiles st1 h) as [st2 rs]. exact IH.
Qed.

Theorem never_sent_without_tls profiles h m :
  In m (sent (fst (run profiles init h))) -> has_secrets (s_params m) = true -> s_tls m <> [].
Proof.
  intros Hin Hs. assert (inv init) as Hi by (split; reflexivity).
  apply (run_inv profiles h) in Hi. destruct Hi as [_ H2].
  rewrite forallb_forall in H2. specialize (H2 m Hin). unfold sent_okb in H2.
  rewrite Hs in H2. simpl in H2. destruct (s_tls m); [discriminate|discriminate].
Qed.

(* the record on disk is the unredacted one (what resumption after a restart needs) *)
Lemma stored_unredacted profiles st id node wtype tls ttl p st1 r :
  step profiles st (Submit id node wtype tls ttl p) = (st1, r) -> leaves_unit r = true ->
  exists rec, lookup id (disk st1) = Some rec /\ u_params rec = p.
Proof.
  simpl. unfold submit.
  destruct (lookup id (mem st)), (lookup id (disk st)); try (intros E; inversion E; subst; discriminate).
  destruct (negb (isnil tls) && negb (mem_bytes tls profiles)); [intros E; inversion E; subst; discriminate|].
  destruct (has_secrets p && isnil tls); [intros E; inversion E; subst; discriminate|].
  destruct (negb ttl); intros E _; inversion E; subst; simpl; rewrite ?lookup_store_same; eauto.
Qed.

(* a Kubernetes unit's replies show neither secret, whatever they are, and nothing else changes *)
Lemma kube_view_hides fl r :
  k_config (kube_view fl r) = [] /\ k_pod (kube_view fl r) = [] /\
  k_namespace (kube_view fl r) = k_namespace r /\ k_image (kube_view fl r) = k_image r.
Proof. repeat split. Qed.

(* the view does not depend on the permission flags at all *)
Lemma kube_view_flag_independent fl fl' r : kube_view fl r = kube_view fl' r.
Proof. reflexivity. Qed.

(* ---------- a concrete history: hypotheses satisfiable, replies do show the unit ---------- *)

Definition ex_params : params :=
  [(str "SECRET_Token", str "s3"); (str "plain", str "v1"); (str "secret_x", str "s1");
   (str "xsecret_", str "v2")]%string.

Definition ex_history : list op := [Status 1; Restart; List; Cancel 1; ListOne 1].

Lemma example_history :
  let '(st1, r) := step [str "cli"%string] init (Submit 1 (str "b") (str "cat") (str "cli") true ex_params)%string in
  leaves_unit r = true /\ not_resubmitted 1 ex_history = true /\
  map (shown 1) (snd (run [str "cli"%string] st1 ex_history))
  = [Some [(str "plain", str "v1"); (str "xsecret_", str "v2")]; None;
     Some [(str "plain", str "v1"); (str "xsecret_", str "v2")]; None;
     Some [(str "plain", str "v1"); (str "xsecret_", str "v2")]]%string.
Proof. vm_compute. repeat split. Qed.
