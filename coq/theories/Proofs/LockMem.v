(* Proofs/LockMem.v — lemmas for Model/LockMem.v (the in-memory record of a unit object against the stored one) *)
From Coq Require Import List Arith Bool.
Import ListNotations.
From Receptor Require Import Model.LockMem.

Lemma prefix_refl : forall a, is_prefix a a.
Proof. intro a; exists []; now rewrite app_nil_r. Qed.

Lemma prefix_trans : forall a b c, is_prefix a b -> is_prefix b c -> is_prefix a c.
Proof. intros a b c [x ->] [y ->]; exists (x ++ y); now rewrite app_assoc. Qed.

Lemma prefix_app : forall a x, is_prefix a (a ++ x).
Proof. intros; now exists x. Qed.

Lemma prefix_in : forall a b u, is_prefix a b -> In u a -> In u b.
Proof. intros a b u [x ->] H; apply in_or_app; now left. Qed.

Lemma mstep_nested : forall s e, nested e = true -> is_prefix (m_mem s) (m_file s) ->
  is_prefix (m_mem s) (m_mem (mstep s e)) /\ is_prefix (m_mem (mstep s e)) (m_file (mstep s e)).
Proof.
  intros s e Hn Hp; destruct e; cbn in *; try discriminate.
  - split; [eapply prefix_trans; [exact Hp | apply prefix_app] | apply prefix_refl].
  - split; [exact Hp | apply prefix_refl].
  - split; [apply prefix_refl | eapply prefix_trans; [exact Hp | apply prefix_app]].
Qed.

Lemma mrun_nested : forall tr s, forallb nested tr = true -> is_prefix (m_mem s) (m_file s) ->
  is_prefix (m_mem s) (m_mem (mrun tr s)) /\ is_prefix (m_mem (mrun tr s)) (m_file (mrun tr s)).
Proof.
  induction tr as [|e tr IH]; intros s Hn Hp; cbn in *.
  - split; [apply prefix_refl | exact Hp].
  - apply andb_true_iff in Hn as [He Ht].
    destruct (mstep_nested s e He Hp) as [H1 H2].
    destruct (IH (mstep s e) Ht H2) as [H3 H4].
    split; [eapply prefix_trans; eauto | exact H4].
Qed.

(* nested locks: no update made through the object is ever missing from its in-memory record, and
   that record is always a record the file held (a prefix of the stored one) *)
Theorem nested_keeps_updates : forall tr r u,
  forallb nested tr = true -> In (EUpd u) tr ->
  let s := mrun tr (minit r) in
  In u (m_mem s) /\ In u (m_file s) /\ is_prefix (m_mem s) (m_file s).
Proof.
  intros tr r u Hn Hin.
  apply in_split in Hin as [t1 [t2 ->]].
  rewrite forallb_app in Hn. apply andb_true_iff in Hn as [H1 H2]. cbn in H2.
  unfold mrun. rewrite fold_left_app. cbn [fold_left].
  fold (mrun t1 (minit r)). set (s1 := mrun t1 (minit r)).
  destruct (mrun_nested t1 (minit r) H1 (prefix_refl _)) as [_ P1]. fold s1 in P1.
  assert (P2 : is_prefix (m_mem (mstep s1 (EUpd u))) (m_file (mstep s1 (EUpd u)))) by (cbn; apply prefix_refl).
  destruct (mrun_nested t2 (mstep s1 (EUpd u)) H2 P2) as [Q1 Q2].
  assert (I : In u (m_mem (mstep s1 (EUpd u)))) by (cbn; apply in_or_app; right; now left).
  unfold mrun in *. cbn zeta.
  split; [eapply prefix_in; eauto | split; [|exact Q2]].
  eapply prefix_in; [exact Q2|]. eapply prefix_in; eauto.
Qed.

(* ... and when the last event went through the object, the in-memory record IS the stored one *)
Theorem nested_publishes_the_file : forall tr r,
  forallb nested tr = true -> last_through_object tr = true ->
  let s := mrun tr (minit r) in m_mem s = m_file s.
Proof.
  intros tr r Hn Hl. unfold last_through_object in Hl.
  destruct (rev tr) as [|e rt] eqn:E; [discriminate|].
  assert (T : tr = rev rt ++ [e]) by (rewrite <- (rev_involutive tr), E; reflexivity).
  subst tr. cbn zeta. unfold mrun. rewrite fold_left_app. cbn [fold_left].
  rewrite forallb_app in Hn. apply andb_true_iff in Hn as [_ He]. cbn in He.
  destruct e; cbn in *; try discriminate; try reflexivity.
Qed.

(* the split Load (read without statusLock, publish afterwards): an update that has returned is
   missing from the in-memory record although the stored record has it *)
Theorem split_load_refuted :
  let s := mrun split_witness (minit []) in
  m_file s = [1] /\ m_mem s = [] /\ ~ In 1 (m_mem s) /\ In (EUpd 1) split_witness.
Proof. cbn. split; [reflexivity|]. split; [reflexivity|]. split; [tauto|]. right; now left. Qed.

(* the same schedule with the nested Load (one event, before or after the update) loses nothing *)
Example nested_same_schedule :
  m_mem (mrun [ELoad; EUpd 1] (minit [])) = [1] /\ m_mem (mrun [EUpd 1; ELoad] (minit [])) = [1].
Proof. split; reflexivity. Qed.
