(* Proofs/RouteWorld.v — C01 layers 2/3: in the clean phase the known graph converges to the
   real topology, for every interleaving of ticks and deliveries. *)
From Coq Require Import ZArith Lia ZifyN ZifyNat ZifyBool.
From Receptor Require Import Model.RouteWorld Proofs.Flood Proofs.FloodWorld Proofs.AdsWorld.
Open Scope N_scope.

Lemma beq_costs_eq a : forall b, beq_costs a b = true -> a = b.
Proof.
  induction a as [|[k v] r IH]; intros [|[k' v'] r'] H; simpl in H; try discriminate; [reflexivity|].
  apply andb_true_iff in H as [H H3]. apply andb_true_iff in H as [H1 H2].
  apply N.eqb_eq in H1, H2. subst. f_equal. now apply IH.
Qed.

Lemma lex_lt_le a b : lex_lt a b = true -> lex_le a b = true.
Proof. destruct a, b; unfold lex_lt, lex_le; simpl. lia. Qed.
Lemma lex_le_lt_false a b : lex_le a b = true -> lex_lt b a = false.
Proof. destruct a, b; unfold lex_lt, lex_le; simpl. lia. Qed.
Lemma lex_le_false_lt a b : lex_le a b = false -> lex_lt b a = true.
Proof. destruct a, b; unfold lex_lt, lex_le; simpl. lia. Qed.

(* what handling a TRUE update u of origin oo <> self does to a node *)
Definition relayed (st : nstate) (u : upd) : upd :=
  {| u_origin := u_origin u; u_id := u_id u; u_epoch := u_epoch u; u_seq := u_seq u;
     u_conns := u_conns u; u_fwd := ns_self st; u_susp := u_susp u |}.

Record dfacts (st : nstate) (u : upd) (x : node) (adjo : amap N) (st' : nstate) (acts : list action) : Prop := {
  df_self : ns_self st' = ns_self st;
  df_conns : ns_conns st' = ns_conns st;
  df_epoch : ns_epoch st' = ns_epoch st;
  df_seen_mono : forall i, mem_N i (ns_seen st) = true -> mem_N i (ns_seen st') = true;
  df_seen_new : forall i, mem_N i (ns_seen st') = true -> mem_N i (ns_seen st) = true \/ i = u_id u;
  df_processed : mem_N (u_id u) (ns_seen st') = true /\
                 exists p, aget (u_origin u) (ns_info st') = Some p /\ lex_le (pair_of u) p = true;
  df_info_other : forall o, o <> u_origin u -> aget o (ns_info st') = aget o (ns_info st);
  df_info_mono : forall o, pair_le (aget o (ns_info st)) (aget o (ns_info st')) = true;
  df_relays_only : forall c u', In (Relay c u') acts -> u' = relayed st u /\ In c (ns_conns st) /\ c <> x;
  df_cases :
    (ns_info st' = ns_info st /\ ns_known st' = ns_known st /\ relay_obs acts = []) \/
    (mem_N (u_id u) (ns_seen st) = false /\
     aget (u_origin u) (ns_info st') = Some (pair_of u) /\
     aget (u_origin u) (ns_known st') = Some adjo /\
     (forall o, o <> u_origin u ->
        match aget o (ns_known st) with
        | Some adj => aget o (ns_known st') = Some adj \/
                      (o <> ns_self st /\ amem o adjo = false /\
                       aget o (ns_known st') = Some (adel (u_origin u) adj))
        | None => aget o (ns_known st') = None
        end) /\
     (forall c, In c (ns_conns st) -> c <> x -> In (Relay c (relayed st u)) acts))
}.

Lemma in_relays st u x c u' : In (Relay c u') (relays st u x) <->
  u' = relayed st u /\ In c (ns_conns st) /\ c <> x.
Proof.
  unfold relays. rewrite in_map_iff. split.
  - intros [c' [E Hin]]. inversion E; subst. apply filter_In in Hin as [H1 H2].
    repeat split; auto. intro; subst. rewrite N.eqb_refl in H2. discriminate.
  - intros [-> [H1 H2]]. exists c. split; [reflexivity|]. apply filter_In. split; [exact H1|].
    destruct (c =? x) eqn:E; [apply N.eqb_eq in E; contradiction|reflexivity].
Qed.

Lemma deliver_facts st u x adjo :
  u_origin u <> 0 -> u_conns u = Some adjo -> u_susp u = 0 -> conns_pos (u_conns u) = true ->
  u_origin u <> ns_self st -> amem (u_origin u) adjo = false ->
  (mem_N (u_id u) (ns_seen st) = true ->
     exists p, aget (u_origin u) (ns_info st) = Some p /\ lex_le (pair_of u) p = true) ->
  dfacts st u x adjo (fst (handle_update st u x)) (snd (handle_update st u x)).
Proof.
  intros H0 Hc Hs Hp Hself Hnl Hsi. unfold handle_update.
  destruct (u_origin u =? 0) eqn:E0; [lia|]. rewrite Hp. cbn [negb].
  destruct (u_origin u =? ns_self st) eqn:E1; [lia|].
  destruct (mem_N (u_id u) (ns_seen st)) eqn:Eseen.
  { cbn [fst snd]. apply Build_dfacts.
    - reflexivity. - reflexivity. - reflexivity.
    - auto.
    - intros i Hi. now left.
    - split; [exact Eseen|]. now apply Hsi.
    - reflexivity.
    - intro o. apply pair_le_refl.
    - intros c u' [].
    - left. auto. }
  rewrite Hs. change (negb (0 =? 0)) with false. cbv iota.
  destruct (match aget (u_origin u) (ns_info st) with
            | Some p => lex_le (u_epoch u, u_seq u) p | None => false end) eqn:Estale.
  { (* stale *)
    cbn [fst snd]. apply Build_dfacts; cbn [ns_self ns_conns ns_epoch ns_seen ns_info ns_known set_state].
    - reflexivity. - reflexivity. - reflexivity.
    - intros i Hi. now apply mem_sadd_mono.
    - intros i Hi. apply mem_N_In in Hi. apply sadd_In in Hi as [->|Hi]; [now right|left; now apply mem_N_In].
    - split; [apply mem_sadd_same|].
      destruct (aget (u_origin u) (ns_info st)) as [p|]; [|discriminate]. exists p. split; [reflexivity|exact Estale].
    - reflexivity.
    - intro o. apply pair_le_refl.
    - intros c u' [].
    - left. auto. }
  (* accepted *)
  rewrite Hc. cbn [conns_of].
  set (info' := aset (u_origin u) (u_epoch u, u_seq u) (ns_info st)).
  set (changed := negb (conns_equal (Some adjo) (aget (u_origin u) (ns_known st)))).
  set (known' := if changed then prune (ns_self st) (u_origin u) adjo
                                      (aset (u_origin u) adjo (ns_known st))
                 else ns_known st).
  set (st' := set_state st info' known' (sadd (u_id u) (ns_seen st)) (ns_down st)).
  assert (Hrel : forall c u', In (Relay c u') (relays st' u x) <->
                                u' = relayed st u /\ In c (ns_conns st) /\ c <> x).
  { intros c u'. rewrite in_relays. unfold relayed, st'. cbn [ns_self ns_conns set_state]. tauto. }
  cbn [fst snd].
  subst st'.
  apply Build_dfacts; cbn [ns_self ns_conns ns_epoch ns_seen ns_info ns_known set_state].
  - reflexivity. - reflexivity. - reflexivity.
  - intros i Hi. now apply mem_sadd_mono.
  - intros i Hi. apply mem_N_In in Hi. apply sadd_In in Hi as [->|Hi]; [now right|left; now apply mem_N_In].
  - split; [apply mem_sadd_same|]. exists (pair_of u). unfold info'. rewrite aget_aset_same.
    split; [reflexivity|apply lex_le_refl].
  - intros o Ho. unfold info'. now apply aget_aset_other.
  - intro o. unfold info'. destruct (N.eq_dec o (u_origin u)) as [->|Ho].
    + rewrite aget_aset_same. destruct (aget (u_origin u) (ns_info st)) as [p|]; [|reflexivity].
      simpl. now apply lex_not_le_lt.
    + rewrite aget_aset_other by assumption. apply pair_le_refl.
  - intros c u' Hin. apply in_app_or in Hin as [Hin|Hin].
    { destruct (negb (amem (u_origin u) (ns_info st))); simpl in Hin; [destruct Hin as [E|[]]; discriminate|destruct Hin]. }
    apply in_app_or in Hin as [Hin|Hin].
    { destruct changed; simpl in Hin; [destruct Hin as [E|[]]; discriminate|destruct Hin]. }
    apply Hrel in Hin. exact Hin.
  - right. split; [exact Eseen|]. split; [unfold info'; apply aget_aset_same|].
    split; [|split].
    + unfold known'. destruct changed eqn:Ech.
      * rewrite aget_prune, aget_aset_same. f_equal.
        destruct ((u_origin u =? ns_self st) || amem (u_origin u) adjo); [reflexivity|].
        now apply adel_notin.
      * unfold changed in Ech. apply negb_false_iff in Ech. unfold conns_equal in Ech.
        destruct (aget (u_origin u) (ns_known st)) as [b|]; [|discriminate].
        apply beq_costs_eq in Ech. now subst.
    + intros o Ho. unfold known'. destruct changed.
      * rewrite aget_prune, aget_aset_other by assumption.
        destruct (aget o (ns_known st)) as [adj|]; [|reflexivity].
        destruct ((o =? ns_self st) || amem o adjo) eqn:Eb; [now left|].
        apply orb_false_iff in Eb as [Eb1 Eb2]. right. repeat split; auto. lia.
      * destruct (aget o (ns_known st)); [now left|reflexivity].
    + intros c Hin Hne. apply in_or_app. right. apply in_or_app. right.
      apply Hrel. auto.
Qed.

(* ---------- the world ---------- *)
Lemma rnode_at_update w v st' x f : rnode_at w v = Some x ->
  forall i, rnode_at {| w_nodes := update_nth (N.to_nat v) st' (w_nodes w); w_flight := f |} i
            = if i =? v then Some st' else rnode_at w i.
Proof.
  intros Hv i. unfold rnode_at in *. cbn [w_nodes].
  destruct (i =? v) eqn:E.
  - apply N.eqb_eq in E. subst. eapply nth_update_same. exact Hv.
  - apply nth_update_other. apply N.eqb_neq in E. lia.
Qed.

Lemma in_relay_msgs self acts m :
  In m (relay_msgs self acts) <->
  exists c u', In (Relay c u') acts /\ m = {| m_from := self; m_to := c; m_upd := u' |}.
Proof.
  unfold relay_msgs. rewrite in_flat_map. split.
  - intros [a [Ha Hm]]. destruct a; simpl in Hm; try tauto. destruct Hm as [<-|[]]. eauto.
  - intros [c [u' [Ha ->]]]. exists (Relay c u'). split; [exact Ha|]. simpl. now left.
Qed.

Section Clean.
Variable tp : topo.

Record CI (w : world) : Prop := {
  ci_mesh : mesh_ok tp w;
  ci_true : forall m, In m (w_flight w) -> true_upd tp (m_upd m);
  ci_epoch : forall m st, In m (w_flight w) -> rnode_at w (u_origin (m_upd m)) = Some st ->
               ns_epoch st = u_epoch (m_upd m);
  ci_ids : forall m1 m2, In m1 (w_flight w) -> In m2 (w_flight w) ->
             u_id (m_upd m1) = u_id (m_upd m2) ->
             u_origin (m_upd m1) = u_origin (m_upd m2) /\ pair_of (m_upd m1) = pair_of (m_upd m2);
  ci_seen : forall m v st, In m (w_flight w) -> rnode_at w v = Some st -> v <> u_origin (m_upd m) ->
              mem_N (u_id (m_upd m)) (ns_seen st) = true ->
              exists p, aget (u_origin (m_upd m)) (ns_info st) = Some p /\
                        lex_le (pair_of (m_upd m)) p = true
}.

Definition hasP (w : world) (o : node) (P : N * N) (v : node) : Prop :=
  v = o \/ exists st p, rnode_at w v = Some st /\ aget o (ns_info st) = Some p /\ lex_le P p = true.

Record PO (o : node) (P : N * N) (w : world) : Prop := {
  po_K : forall m, In m (w_flight w) -> u_origin (m_upd m) = o ->
           lex_le P (pair_of (m_upd m)) = true -> hasP w o P (m_from m);
  po_J : forall v st w0, rnode_at w v = Some st -> In w0 (ns_conns st) -> w0 <> o -> hasP w o P v ->
           hasP w o P w0 \/
           exists m, In m (w_flight w) /\ m_from m = v /\ m_to m = w0 /\ u_origin (m_upd m) = o /\
                     lex_le P (pair_of (m_upd m)) = true;
  po_G : forall v st p, rnode_at w v = Some st -> v <> o -> aget o (ns_info st) = Some p ->
           lex_le P p = true -> aget o (ns_known st) = Some (tp o)
}.

(* is hasP decidable on a concrete node state: yes *)
Lemma info_ge_dec (st : nstate) o P :
  {p | aget o (ns_info st) = Some p /\ lex_le P p = true} +
  {forall p, aget o (ns_info st) = Some p -> lex_le P p = false}.
Proof.
  destruct (aget o (ns_info st)) as [p|]; [|right; intros p H; discriminate].
  destruct (lex_le P p) eqn:E; [left; exists p; auto|right; intros p' H; inversion H; subst; exact E].
Qed.

(* a message disappears and no node changes (dropped at a missing node, or ignored by its own
   origin): everything is preserved provided the message was not a needed J-witness *)
Lemma shrink_preserves w w' m :
  (forall i, rnode_at w' i = rnode_at w i) ->
  (forall m', In m' (w_flight w') -> In m' (w_flight w)) ->
  (forall m0, In m0 (w_flight w) -> m0 = m \/ In m0 (w_flight w')) ->
  (* m cannot be a witness: its target does not exist, or is its own origin *)
  (rnode_at w (m_to m) = None \/ m_to m = u_origin (m_upd m)) ->
  CI w -> CI w' /\ forall o P, PO o P w -> PO o P w'.
Proof.
  intros Hn Hsub Hdec Hm C. destruct C as [Cm Ct Ce Ci Cs].
  assert (HhasP : forall o P v, hasP w o P v <-> hasP w' o P v).
  { intros o P v. unfold hasP. split; intros [H|[st [p [H1 H2]]]]; auto; right; exists st, p;
      [rewrite Hn|rewrite <- Hn]; auto. }
  split.
  - constructor.
    + destruct Cm as [A B C D]. constructor; auto.
      * intros i st H. rewrite Hn in H. eauto.
      * intros i st H. rewrite Hn in H. eauto.
      * intros a b H. destruct (C a b H) as [H1 [st H2]]. split; [exact H1|]. exists st. now rewrite Hn.
    + intros m' H. apply Ct. auto.
    + intros m' st H1 H2. rewrite Hn in H2. eapply Ce; eauto.
    + intros m1 m2 H1 H2. apply Ci; auto.
    + intros m' v st H1 H2. rewrite Hn in H2. eapply Cs; eauto.
  - intros o P [K J G]. constructor.
    + intros m' H1 H2 H3. apply HhasP. apply K; auto.
    + intros v st w0 Hv Hc Hno Hh. rewrite Hn in Hv. apply HhasP in Hh.
      destruct (J v st w0 Hv Hc Hno Hh) as [Hl|[m0 [Hin [Hf [Ht [Ho Hle]]]]]]; [left; now apply HhasP|].
      destruct (Hdec m0 Hin) as [->|Hin']; [|right; exists m0; auto].
      exfalso. destruct Hm as [Hm|Hm].
      * (* the target is a neighbour of an existing node, hence exists *)
        destruct Cm as [_ B C _]. apply (B v st Hv) in Hc. destruct (C v w0 Hc) as [_ [stw Hw]].
        rewrite Ht in Hm. congruence.
      * congruence.
    + intros v st p Hv. rewrite Hn in Hv. eauto.
Qed.

Lemma lex_le_trans' a b c : lex_le a b = true -> lex_le b c = true -> lex_le a c = true.
Proof. apply lex_le_trans. Qed.

Lemma pair_le_some o (a b : amap (N * N)) p P :
  pair_le (aget o a) (aget o b) = true -> aget o a = Some p -> lex_le P p = true ->
  exists p', aget o b = Some p' /\ lex_le P p' = true.
Proof.
  intros H Ha Hle. rewrite Ha in H. destruct (aget o b) as [p'|]; [|discriminate].
  exists p'. split; [reflexivity|]. simpl in H. eapply lex_le_trans; eauto.
Qed.

(* the node v = m_to m processes the true update of a foreign origin *)
Lemma process_preserves w k m st st' acts :
  CI w -> nth_error (w_flight w) k = Some m -> rnode_at w (m_to m) = Some st ->
  u_origin (m_upd m) <> m_to m ->
  dfacts st (m_upd m) (m_from m) (tp (u_origin (m_upd m))) st' acts ->
  let w' := {| w_nodes := update_nth (N.to_nat (m_to m)) st' (w_nodes w);
               w_flight := remove_nth k (w_flight w) ++ relay_msgs (ns_self st) acts |} in
  CI w' /\ forall o P, PO o P w -> PO o P w'.
Proof.
  intros C Em Ev Hov D w'.
  set (v := m_to m) in *. set (x := m_from m) in *. set (u := m_upd m) in *. set (oo := u_origin u) in *.
  assert (Hm_in : In m (w_flight w)) by (eapply nth_error_In; eauto).
  destruct C as [Cm Ct Ce Ci Cs]. pose proof Cm as [Mself Mconns Msym Mnoself].
  pose proof (Mself v st Ev) as Hsv.
  assert (Hnode : forall i, rnode_at w' i = if i =? v then Some st' else rnode_at w i)
    by (apply rnode_at_update with (x := st); exact Ev).
  assert (Hrest : forall m0, In m0 (remove_nth k (w_flight w)) -> In m0 (w_flight w))
    by (intros; eapply remove_nth_In; eauto).
  destruct (Ct m Hm_in) as [Tu0 [Tuc [Tus Tup]]]. fold u oo in Tu0, Tuc, Tus, Tup.
  (* messages of the new world *)
  assert (Hfl : forall m', In m' (w_flight w') ->
            In m' (remove_nth k (w_flight w)) \/
            (m_from m' = v /\ m_upd m' = relayed st u /\ In (m_to m') (ns_conns st) /\ m_to m' <> x /\
             In (Relay (m_to m') (relayed st u)) acts)).
  { intros m' H. unfold w' in H. cbn [w_flight] in H. apply in_app_or in H as [H|H]; [now left|]. right.
    apply in_relay_msgs in H as [c [u' [Ha ->]]]. cbn [m_from m_to m_upd].
    destruct (df_relays_only _ _ _ _ _ _ D c u' Ha) as [-> [H1 H2]]. rewrite Hsv. repeat split; auto. }
  assert (Hrelayed : u_origin (relayed st u) = oo /\ u_id (relayed st u) = u_id u /\
                     pair_of (relayed st u) = pair_of u /\ u_conns (relayed st u) = u_conns u /\
                     u_susp (relayed st u) = u_susp u /\ u_epoch (relayed st u) = u_epoch u)
    by (unfold relayed, pair_of, oo; cbn; repeat split; reflexivity).
  destruct Hrelayed as [R1 [R2 [R3 [R4 [R5 R6]]]]].
  assert (Hmono : forall i sti, rnode_at w i = Some sti -> exists sti', rnode_at w' i = Some sti' /\
             ns_self sti' = ns_self sti /\ ns_conns sti' = ns_conns sti /\ ns_epoch sti' = ns_epoch sti /\
             (forall o, pair_le (aget o (ns_info sti)) (aget o (ns_info sti')) = true) /\
             (forall j, mem_N j (ns_seen sti) = true -> mem_N j (ns_seen sti') = true)).
  { intros i sti Hi. rewrite Hnode. destruct (i =? v) eqn:E.
    - apply N.eqb_eq in E. subst i. rewrite Ev in Hi. inversion Hi; subst sti. exists st'.
      split; [reflexivity|]. destruct D. repeat split; auto.
    - exists sti. repeat split; auto. intro o. apply pair_le_refl. }
  assert (HhasP : forall o P i, hasP w o P i -> hasP w' o P i).
  { intros o P i [->|[sti [p [Hi [Hp Hle]]]]]; [now left|]. right.
    destruct (Hmono i sti Hi) as [sti' [Hi' [_ [_ [_ [Hinfo _]]]]]].
    destruct (pair_le_some o _ _ p P (Hinfo o) Hp Hle) as [p' [Hp' Hle']]. eauto. }
  (* after processing, v knows at least pair(u) about oo *)
  assert (Hproc : exists p, aget oo (ns_info st') = Some p /\ lex_le (pair_of u) p = true)
    by (apply (df_processed _ _ _ _ _ _ D)).
  split.
  - constructor.
    + constructor; auto.
      * intros i sti Hi. rewrite Hnode in Hi. destruct (i =? v) eqn:E; [|eauto].
        apply N.eqb_eq in E. subst i. inversion Hi; subst sti. rewrite (df_self _ _ _ _ _ _ D). auto.
      * intros i sti Hi. rewrite Hnode in Hi. destruct (i =? v) eqn:E; [|eauto].
        apply N.eqb_eq in E. subst i. inversion Hi; subst sti. rewrite (df_conns _ _ _ _ _ _ D). eauto.
      * intros a b H. destruct (Msym a b H) as [H1 [stb Hb]]. split; [exact H1|].
        destruct (Hmono b stb Hb) as [stb' [Hb' _]]. eauto.
    + intros m' H. destruct (Hfl m' H) as [H0|[_ [Hu _]]]; [apply Ct; auto|].
      rewrite Hu. unfold true_upd. rewrite R1, R4, R5. repeat split; auto.
    + intros m' sto H Ho. destruct (Hfl m' H) as [H0|[_ [Hu _]]].
      * rewrite Hnode in Ho. destruct (u_origin (m_upd m') =? v) eqn:E.
        -- apply N.eqb_eq in E. inversion Ho; subst sto. rewrite (df_epoch _ _ _ _ _ _ D).
           apply (Ce m' st (Hrest _ H0)). now rewrite E.
        -- eapply Ce; eauto.
      * rewrite Hu, R1 in Ho. rewrite Hu, R6. rewrite Hnode in Ho.
        destruct (oo =? v) eqn:E; [apply N.eqb_eq in E; congruence|]. apply (Ce m sto Hm_in Ho).
    + intros m1 m2 H1 H2 Hid.
      destruct (Hfl m1 H1) as [H10|[_ [Hu1 _]]]; destruct (Hfl m2 H2) as [H20|[_ [Hu2 _]]].
      * apply Ci; auto.
      * rewrite Hu2, R1, R3. rewrite Hu2, R2 in Hid. apply (Ci m1 m (Hrest _ H10) Hm_in Hid).
      * rewrite Hu1, R1, R3. rewrite Hu1, R2 in Hid. symmetry in Hid.
        destruct (Ci m2 m (Hrest _ H20) Hm_in Hid) as [A B]. fold u in A, B. fold oo in A.
        split; [symmetry; exact A|symmetry; exact B].
      * rewrite Hu1, Hu2. auto.
    + intros m' i sti H Hi Hio Hseen.
      (* reduce to "same id/origin/pair as some message in flight before" *)
      assert (Hold : exists mo, In mo (w_flight w) /\ u_id (m_upd mo) = u_id (m_upd m') /\
                                u_origin (m_upd mo) = u_origin (m_upd m') /\
                                pair_of (m_upd mo) = pair_of (m_upd m')).
      { destruct (Hfl m' H) as [H0|[_ [Hu _]]]; [exists m'; auto|].
        exists m. rewrite Hu, R1, R2, R3. auto. }
      destruct Hold as [mo [Hmo [Eid [Eor Epr]]]]. rewrite <- Eor, <- Epr. rewrite <- Eor in Hio. rewrite <- Eid in Hseen.
      rewrite Hnode in Hi. destruct (i =? v) eqn:E.
      * apply N.eqb_eq in E. subst i. inversion Hi; subst sti.
        destruct (df_seen_new _ _ _ _ _ _ D _ Hseen) as [Hb|Hb].
        -- destruct (Cs mo v st Hmo Ev Hio Hb) as [p [Hp Hle]].
           eapply pair_le_some; eauto. apply (df_info_mono _ _ _ _ _ _ D).
        -- destruct (Ci mo m Hmo Hm_in Hb) as [Ho Hp]. fold u in Ho, Hp. fold oo in Ho. rewrite Ho, Hp. exact Hproc.
      * eapply Cs; eauto.
  - intros o P [K J G]. constructor.
    + intros m' H Ho Hle. destruct (Hfl m' H) as [H0|[Hf [Hu [_ [_ Hact]]]]].
      * apply HhasP. apply K; auto.
      * (* a relay exists, so u was accepted *)
        rewrite Hu, R1 in Ho. rewrite Hu, R3 in Hle. rewrite Hf. right.
        destruct (df_cases _ _ _ _ _ _ D) as [[_ [_ Hno]]|[_ [Hinfo _]]].
        -- exfalso. rewrite relay_obs_nil_iff in Hno. exact (Hno _ _ Hact).
        -- exists st', (pair_of u). rewrite Hnode, N.eqb_refl. subst o. auto.
    + intros v0 st0 w0 Hv0n Hc0 Hno Hh.
      (* the node v0 before the step *)
      assert (Hb : exists st00, rnode_at w v0 = Some st00 /\ ns_conns st00 = ns_conns st0).
      { rewrite Hnode in Hv0n. destruct (v0 =? v) eqn:E; [|eauto].
        apply N.eqb_eq in E. subst v0. inversion Hv0n; subst st0. exists st. split; [exact Ev|].
        now rewrite (df_conns _ _ _ _ _ _ D). }
      destruct Hb as [st00 [Hv00 Hc00]]. rewrite <- Hc00 in Hc0.
      assert (Hdec : hasP w o P v0 \/ (v0 <> o /\ forall p, aget o (ns_info st00) = Some p -> lex_le P p = false)).
      { destruct (N.eq_dec v0 o) as [->|Hvo]; [left; now left|].
        destruct (info_ge_dec st00 o P) as [[p [Hp Hle]]|Hn]; [left; right; eauto|right; auto]. }
      destruct Hdec as [Hbefore|[Hvo Hnot]].
      * destruct (J v0 st00 w0 Hv00 Hc0 Hno Hbefore) as [Hl|[m0 [Hin [Hf [Ht [Ho Hle]]]]]]; [left; now apply HhasP|].
        destruct (in_remove_nth _ _ _ _ Em Hin) as [->|Hin'].
        -- (* the witness is the message just delivered: w0 = v has processed it *)
           left. fold v in Ht. fold u in Ho, Hle. fold oo in Ho. subst w0. right.
           destruct Hproc as [p [Hp Hlep]]. exists st', p. rewrite Hnode, N.eqb_refl. subst o.
           repeat split; auto. eapply lex_le_trans; eauto.
        -- right. exists m0. split; [unfold w'; cbn [w_flight]; apply in_or_app; now left|auto].
      * (* v0 has just learned: v0 = v accepted u, an update of o that is at least P *)
        destruct Hh as [Hh|[stx [p [Hx [Hp Hle]]]]]; [congruence|].
        assert (v0 = v).
        { destruct (N.eq_dec v0 v) as [|Hne]; [assumption|]. exfalso.
          rewrite Hnode in Hx. destruct (v0 =? v) eqn:E; [apply N.eqb_eq in E; congruence|].
          rewrite Hv00 in Hx. inversion Hx; subst stx. rewrite (Hnot p Hp) in Hle. discriminate. }
        subst v0. rewrite Ev in Hv00. inversion Hv00; subst st00.
        rewrite Hnode, N.eqb_refl in Hx. inversion Hx; subst stx.
        assert (o = oo).
        { destruct (N.eq_dec o oo) as [|Hne]; [assumption|]. exfalso.
          rewrite (df_info_other _ _ _ _ _ _ D o Hne) in Hp. rewrite (Hnot p Hp) in Hle. discriminate. }
        subst o.
        destruct (df_cases _ _ _ _ _ _ D) as [[Hsame _]|[_ [Hinfo [_ [_ Hrel]]]]].
        -- exfalso. rewrite Hsame in Hp. rewrite (Hnot p Hp) in Hle. discriminate.
        -- fold oo in Hinfo. rewrite Hinfo in Hp. inversion Hp; subst p.
           destruct (N.eq_dec w0 x) as [->|Hwx].
           ++ left. apply HhasP. apply (K m Hm_in); [reflexivity|exact Hle].
           ++ right. exists {| m_from := v; m_to := w0; m_upd := relayed st u |}. cbn [m_from m_to m_upd].
              split; [|rewrite R1, R3; auto].
              unfold w'. cbn [w_flight]. apply in_or_app. right. apply in_relay_msgs.
              exists w0, (relayed st u). rewrite Hsv. split; [apply Hrel; auto|reflexivity].
    + intros v0 st0 p Hv0n Hvo Hp Hle. rewrite Hnode in Hv0n. destruct (v0 =? v) eqn:E; [|eauto].
      apply N.eqb_eq in E. subst v0. inversion Hv0n; subst st0.
      destruct (df_cases _ _ _ _ _ _ D) as [[Hi [Hk _]]|[_ [Hinfo [Hknown [Hother _]]]]].
      * rewrite Hk. rewrite Hi in Hp. eauto.
      * destruct (N.eq_dec o oo) as [->|Hne]; [exact Hknown|].
        rewrite (df_info_other _ _ _ _ _ _ D o Hne) in Hp.
        pose proof (G v st p Ev Hvo Hp Hle) as Hg. specialize (Hother o Hne). rewrite Hg in Hother.
        destruct Hother as [H|[_ [Hnl H]]]; [exact H|]. rewrite H. f_equal. apply adel_notin. fold oo.
        destruct (amem oo (tp o)) eqn:Em2; [|reflexivity].
        destruct (Msym o oo Em2) as [Hc _]. congruence.
Qed.

Lemma update_nth_same_val {A} (l : list A) : forall k x, nth_error l k = Some x -> update_nth k x l = l.
Proof.
  induction l as [|y r IH]; intros [|k] x H; simpl in *; try discriminate; [inversion H; reflexivity|].
  f_equal. now apply IH.
Qed.

(* DELIVERY PRESERVES THE INVARIANTS *)
Lemma deliver_preserves w k w' n :
  CI w -> wstep w (Deliver k) = Some (w', n) ->
  CI w' /\ forall o P, PO o P w -> PO o P w'.
Proof.
  intros C Hstep. simpl in Hstep.
  destruct (nth_error (w_flight w) k) as [m|] eqn:Em; [|discriminate].
  assert (Hm_in : In m (w_flight w)) by (eapply nth_error_In; eauto).
  assert (Hdec : forall m0, In m0 (w_flight w) -> m0 = m \/ In m0 (remove_nth k (w_flight w)))
    by (intros; eapply in_remove_nth; eauto).
  fold (rnode_at w (m_to m)) in Hstep.
  destruct (rnode_at w (m_to m)) as [st|] eqn:Ev.
  2:{ inversion Hstep; subst w' n; clear Hstep.
      apply (shrink_preserves w _ m); auto.
      intros m' H. eapply remove_nth_In; eauto. }
  destruct (N.eq_dec (u_origin (m_upd m)) (m_to m)) as [Hself|Hne].
  - (* the update comes back to its own origin: ignored *)
    destruct (ci_mesh _ C) as [Mself _ _ _]. pose proof (Mself _ _ Ev) as Hsv.
    assert (Hig : handle_update st (m_upd m) (m_from m) = (st, [])).
    { destruct (self_origin_never_accepted st (m_upd m) (m_from m) ltac:(congruence)) as [_ [_ H]].
      apply H. symmetry. apply (ci_epoch _ C m st Hm_in). now rewrite Hself. }
    rewrite Hig in Hstep. inversion Hstep; subst w' n; clear Hstep.
    rewrite (update_nth_same_val _ _ _ Ev). cbn [relay_msgs flat_map]. rewrite app_nil_r.
    apply (shrink_preserves w _ m); auto.
    intros m' H. eapply remove_nth_In; eauto.
  - destruct (ci_true _ C m Hm_in) as [T0 [Tc [Ts Tp]]].
    destruct (ci_mesh _ C) as [Mself _ _ Mnoself]. pose proof (Mself _ _ Ev) as Hsv.
    assert (D : dfacts st (m_upd m) (m_from m) (tp (u_origin (m_upd m)))
                  (fst (handle_update st (m_upd m) (m_from m))) (snd (handle_update st (m_upd m) (m_from m)))).
    { apply deliver_facts; auto; [congruence|].
      intro Hs. apply (ci_seen _ C m (m_to m) st Hm_in Ev); auto. }
    destruct (handle_update st (m_upd m) (m_from m)) as [st' acts] eqn:Eh. cbn [fst snd] in D.
    inversion Hstep; subst w' n; clear Hstep.
    apply (process_preserves w k m st st' acts C Em Ev Hne D).
Qed.

(* A TICK PRESERVES THE INVARIANTS AND ESTABLISHES THE ORIGIN'S OWN ONE *)
Lemma tick_preserves w o u st :
  CI w -> rnode_at w o = Some st -> true_upd tp u -> fresh_for w o u ->
  let w' := {| w_nodes := w_nodes w; w_flight := w_flight w ++ tick_msgs o u (ns_conns st) |} in
  CI w' /\ (forall o' P, PO o' P w -> PO o' P w') /\ PO o (pair_of u) w'.
Proof.
  intros C Ho Tu [Fo [Fseen [Fid [Finfo [Fflight Fepoch]]]]] w'.
  destruct C as [Cm Ct Ce Ci Cs].
  assert (Hn : forall i, rnode_at w' i = rnode_at w i) by reflexivity.
  assert (Hfl : forall m, In m (w_flight w') ->
            In m (w_flight w) \/ (m_from m = o /\ m_upd m = u /\ In (m_to m) (ns_conns st))).
  { intros m H. unfold w' in H. cbn [w_flight] in H. apply in_app_or in H as [H|H]; [now left|]. right.
    unfold tick_msgs in H. apply in_map_iff in H as [c [<- Hc]]. cbn. auto. }
  assert (HhasP : forall o' P v, hasP w o' P v <-> hasP w' o' P v) by (intros; reflexivity).
  split; [|split].
  - constructor.
    + destruct Cm as [A B Cc D]. constructor; auto.
    + intros m H. destruct (Hfl m H) as [H0|[_ [-> _]]]; auto.
    + intros m sto H Hso. destruct (Hfl m H) as [H0|[_ [Hu _]]]; [eapply Ce; eauto|].
      rewrite Hu in *. rewrite Fo in Hso. now apply Fepoch.
    + intros m1 m2 H1 H2 Hid.
      destruct (Hfl m1 H1) as [H10|[_ [Hu1 _]]]; destruct (Hfl m2 H2) as [H20|[_ [Hu2 _]]].
      * apply Ci; auto.
      * exfalso. rewrite Hu2 in Hid. exact (Fid m1 H10 Hid).
      * exfalso. rewrite Hu1 in Hid. symmetry in Hid. exact (Fid m2 H20 Hid).
      * rewrite Hu1, Hu2. auto.
    + intros m v stv H Hv Hvo Hs. destruct (Hfl m H) as [H0|[_ [Hu _]]]; [eapply Cs; eauto|].
      rewrite Hu in Hs. rewrite (Fseen v stv Hv) in Hs. discriminate.
  - intros o' P [K J G]. constructor.
    + intros m H Hom Hle. destruct (Hfl m H) as [H0|[Hf [Hu _]]]; [apply K; auto|].
      rewrite Hf. left. rewrite Hu, Fo in Hom. congruence.
    + intros v stv w0 Hv Hc Hno Hh.
      destruct (J v stv w0 Hv Hc Hno Hh) as [Hl|[m0 [Hin H]]]; [now left|].
      right. exists m0. split; [unfold w'; cbn [w_flight]; apply in_or_app; now left|exact H].
    + exact G.
  - constructor.
    + intros m H Hom Hle. destruct (Hfl m H) as [H0|[Hf _]]; [|rewrite Hf; now left].
      exfalso. pose proof (Fflight m H0 Hom) as Hlt. apply lex_lt_le in Hlt.
      (* pair m < pair u <= pair m : impossible *)
      pose proof (lex_le_lt_false _ _ Hle) as Hc. rewrite (Fflight m H0 Hom) in Hc. discriminate.
    + intros v stv w0 Hv Hc Hno [->|[sx [p [Hx [Hp Hle]]]]].
      * right. rewrite Hn in Hv. rewrite Ho in Hv. inversion Hv; subst stv.
        exists {| m_from := o; m_to := w0; m_upd := u |}. cbn [m_from m_to m_upd].
        split; [|repeat split; auto; apply lex_le_refl].
        unfold w'. cbn [w_flight]. apply in_or_app. right. unfold tick_msgs. apply in_map_iff. eauto.
      * exfalso. pose proof (Finfo v sx p Hx Hp) as Hlt.
        pose proof (lex_le_lt_false _ _ Hle) as Hcc. rewrite Hlt in Hcc. discriminate.
    + intros v stv p Hv Hvo Hp Hle. exfalso. pose proof (Finfo v stv p Hv Hp) as Hlt.
      pose proof (lex_le_lt_false _ _ Hle) as Hc. rewrite Hlt in Hc. discriminate.
Qed.

(* every run from a clean world keeps it clean, and every node that has ticked has its invariant *)
Lemma rrun_preserves : forall ls w w', rrun tp w ls w' -> CI w ->
  CI w' /\ (forall o P, PO o P w -> PO o P w') /\ (forall o, ticked o ls -> exists P, PO o P w').
Proof.
  intros ls w w' Hr. induction Hr as [w|w l w1 ls w2 Hs Hr IH]; intro C.
  - split; [exact C|]. split; [auto|]. intros o [u []].
  - assert (H1 : CI w1 /\ (forall o P, PO o P w -> PO o P w1) /\
                 (forall o u, l = RTick o u -> PO o (pair_of u) w1)).
    { inversion Hs; subst.
      - destruct (deliver_preserves _ _ _ _ C H) as [A B]. split; [exact A|]. split; [exact B|].
        intros o u E. discriminate.
      - destruct (tick_preserves w o u st C H H0 H1) as [A [B Cc]]. split; [exact A|]. split; [exact B|].
        intros o' u' E. inversion E; subst. exact Cc. }
    destruct H1 as [C1 [P1 T1]]. destruct (IH C1) as [C2 [P2 T2]].
    split; [exact C2|]. split; [intros o P H; apply P2, P1, H|].
    intros o [u [E|Hin]].
    + exists (pair_of u). apply P2. now apply T1.
    + apply T2. exists u. exact Hin.
Qed.

Lemma rstep_keeps_node w l w1 o : rstep tp w l w1 ->
  (exists s, rnode_at w o = Some s) -> exists s, rnode_at w1 o = Some s.
Proof.
  intros Hs [s Hs0]. inversion Hs; subst.
  - simpl in H. destruct (nth_error (w_flight w) k) as [m|]; [|discriminate].
    destruct (nth_error (w_nodes w) (N.to_nat (m_to m))) as [stm|] eqn:Em.
    + destruct (handle_update stm (m_upd m) (m_from m)) as [st' acts]. inversion H; subst.
      rewrite (rnode_at_update w (m_to m) st' stm _ Em). destruct (o =? m_to m); eauto.
    + inversion H; subst. eauto.
  - eauto.
Qed.

Lemma rrun_keeps_node ls : forall w w' o, rrun tp w ls w' ->
  (exists s, rnode_at w o = Some s) -> exists s, rnode_at w' o = Some s.
Proof.
  intros w w' o Hr. induction Hr as [w0|w0 l w1 ls0 w2 Hs Hr IH]; intro H; [exact H|].
  apply IH. eapply rstep_keeps_node; eauto.
Qed.

Lemma ticked_node_exists ls : forall w w' o, rrun tp w ls w' -> ticked o ls ->
  exists s, rnode_at w' o = Some s.
Proof.
  intros w w' o Hr. induction Hr as [w0|w0 l w1 ls0 w2 Hs Hr IH]; intros [u Hin]; [destruct Hin|].
  destruct Hin as [E|Hin]; [|apply IH; exists u; exact Hin].
  subst l. eapply rrun_keeps_node; [exact Hr|]. inversion Hs; subst. exists st. assumption.
Qed.

(* THE KNOWN GRAPH CONVERGES.  From any clean world, after EVERY interleaving of ticks and
   deliveries in which node o has ticked, once nothing is in flight every node v that is
   connected to o in the real topology holds exactly o's true adjacency as its picture of o. *)
Theorem known_graph_converges : forall ls w w' o v,
  CI w -> rrun tp w ls w' -> ticked o ls -> w_flight w' = [] ->
  treach tp o v -> v <> o ->
  exists st, rnode_at w' v = Some st /\ aget o (ns_known st) = Some (tp o).
Proof.
  intros ls w w' o v C Hr Ht Hq Hreach Hvo.
  destruct (rrun_preserves _ _ _ Hr C) as [C' [_ T]]. destruct (T o Ht) as [P [K J G]].
  destruct (ci_mesh _ C') as [Mself Mconns Msym Mnoself].
  (* the origin exists as a node: it ticked *)
  pose proof (ticked_node_exists _ _ _ _ Hr Ht) as Ho.
  assert (Pv : v = o \/ (hasP w' o P v /\ exists st, rnode_at w' v = Some st)).
  { clear Hvo. induction Hreach as [|x b Hreach IH Hb]; [now left|].
    destruct (N.eq_dec b o) as [->|Hbo]; [now left|]. right.
    destruct (Msym x b Hb) as [_ [stb Hstb]]. split; [|eauto].
    assert (Hx : exists stx, rnode_at w' x = Some stx /\ hasP w' o P x).
    { destruct IH as [->|[Hh [stx Hstx]]]; [destruct Ho as [sto Hsto]; exists sto; split; [exact Hsto|now left]|eauto]. }
    destruct Hx as [stx [Hstx Hhx]].
    assert (Hc : In b (ns_conns stx)) by (apply (Mconns x stx Hstx); exact Hb).
    destruct (J x stx b Hstx Hc Hbo Hhx) as [H|[m [Hin _]]]; [exact H|].
    rewrite Hq in Hin. destruct Hin. }
  destruct Pv as [->|[[->|[st [p [Hst [Hp Hle]]]]] _]]; try congruence.
  exists st. split; [exact Hst|]. eapply G; eauto.
Qed.
End Clean.

(* ---------- a concrete clean world (non-vacuity) ---------- *)
(* line 1 — 2 — 3 (node 0 is the unused empty identifier) *)
Definition ex_tp : topo := fun i =>
  if i =? 1 then [(2, 1)] else if i =? 2 then [(1, 1); (3, 1)] else if i =? 3 then [(2, 1)] else [].
Definition ex_nd (i : node) (conns : list node) : nstate :=
  {| ns_self := i; ns_epoch := 100; ns_conns := conns; ns_info := []; ns_known := []; ns_seen := [];
     ns_down := false |}.
Definition ex_w0 : world :=
  {| w_nodes := [ex_nd 0 []; ex_nd 1 [2]; ex_nd 2 [1; 3]; ex_nd 3 [2]]; w_flight := [] |}.
Definition ex_u1 : upd :=
  {| u_origin := 1; u_id := 77; u_epoch := 100; u_seq := 1; u_conns := Some [(2, 1)]; u_fwd := 1; u_susp := 0 |}.

Lemma ex_nodes i st : rnode_at ex_w0 i = Some st ->
  (i = 0 /\ st = ex_nd 0 []) \/ (i = 1 /\ st = ex_nd 1 [2]) \/ (i = 2 /\ st = ex_nd 2 [1; 3]) \/ (i = 3 /\ st = ex_nd 3 [2]).
Proof.
  unfold rnode_at, ex_w0. cbn [w_nodes]. intro H.
  destruct (N.to_nat i) as [|[|[|[|k]]]] eqn:E; simpl in H; inversion H; subst.
  - left. split; [lia|reflexivity].
  - right; left. split; [lia|reflexivity].
  - right; right; left. split; [lia|reflexivity].
  - right; right; right. split; [lia|reflexivity].
  - destruct k; discriminate.
Qed.

Lemma ex_tp_cases a b : amem b (ex_tp a) = true ->
  (a = 1 /\ b = 2) \/ (a = 2 /\ b = 1) \/ (a = 2 /\ b = 3) \/ (a = 3 /\ b = 2).
Proof.
  unfold ex_tp, amem. destruct (a =? 1) eqn:E1; [|destruct (a =? 2) eqn:E2; [|destruct (a =? 3) eqn:E3]]; cbn [aget].
  - destruct (2 =? b) eqn:Eb; [|discriminate]. intros _. left. lia.
  - destruct (1 =? b) eqn:Eb; [intros _; right; left; lia|].
    destruct (3 =? b) eqn:Eb2; [intros _; right; right; left; lia|discriminate].
  - destruct (2 =? b) eqn:Eb; [|discriminate]. intros _. right; right; right. lia.
  - discriminate.
Qed.

Lemma ex_ci : CI ex_tp ex_w0.
Proof.
  constructor; try (intros m; intros; match goal with H : In _ (w_flight ex_w0) |- _ => destruct H end).
  constructor.
  - intros i st H. destruct (ex_nodes i st H) as [[-> ->]|[[-> ->]|[[-> ->]|[-> ->]]]]; reflexivity.
  - intros i st H c. destruct (ex_nodes i st H) as [[-> ->]|[[-> ->]|[[-> ->]|[-> ->]]]]; cbn [ns_conns ex_nd In].
    + split; [tauto|]. intro Hc. apply ex_tp_cases in Hc. lia.
    + split; [intros [<-|[]]; reflexivity|]. intro Hc. apply ex_tp_cases in Hc. lia.
    + split; [intros [<-|[<-|[]]]; reflexivity|]. intro Hc. apply ex_tp_cases in Hc. lia.
    + split; [intros [<-|[]]; reflexivity|]. intro Hc. apply ex_tp_cases in Hc. lia.
  - intros a b H. destruct (ex_tp_cases a b H) as [[-> ->]|[[-> ->]|[[-> ->]|[-> ->]]]];
      (split; [reflexivity|eexists; reflexivity]).
  - intro a. destruct (amem a (ex_tp a)) eqn:E; [|reflexivity]. apply ex_tp_cases in E. lia.
Qed.

(* node 1 ticks; its update travels 1 -> 2 -> 3; then nothing is in flight and node 3 holds the
   true adjacency of node 1 *)
Example ex_route_converged :
  exists ls w', rrun ex_tp ex_w0 ls w' /\ ticked 1 ls /\ w_flight w' = [] /\
  exists st, rnode_at w' 3 = Some st /\ aget 1 (ns_known st) = Some (ex_tp 1).
Proof.
  set (w1 := {| w_nodes := w_nodes ex_w0; w_flight := w_flight ex_w0 ++ tick_msgs 1 ex_u1 (ns_conns (ex_nd 1 [2])) |}).
  assert (S1 : rstep ex_tp ex_w0 (RTick 1 ex_u1) w1).
  { apply rs_tick with (st := ex_nd 1 [2]); [reflexivity| |].
    - repeat split; try reflexivity. discriminate.
    - repeat split; try reflexivity.
      + intros i st H. destruct (ex_nodes i st H) as [[-> ->]|[[-> ->]|[[-> ->]|[-> ->]]]]; reflexivity.
      + intros m [].
      + intros i st p H Hp. destruct (ex_nodes i st H) as [[-> ->]|[[-> ->]|[[-> ->]|[-> ->]]]]; discriminate.
      + intros m [].
      + intros st H. inversion H. reflexivity. }
  destruct (wstep w1 (Deliver 0)) as [[w2 n2]|] eqn:E2; [|vm_compute in E2; discriminate].
  destruct (wstep w2 (Deliver 0)) as [[w3 n3]|] eqn:E3; [|vm_compute in E2; inversion E2; subst; vm_compute in E3; discriminate].
  exists [RTick 1 ex_u1; RDeliver 0; RDeliver 0], w3.
  assert (Hr : rrun ex_tp ex_w0 [RTick 1 ex_u1; RDeliver 0; RDeliver 0] w3).
  { eapply rr_cons; [exact S1|]. eapply rr_cons; [eapply rs_deliver; exact E2|].
    eapply rr_cons; [eapply rs_deliver; exact E3|]. constructor. }
  assert (Ht : ticked 1 [RTick 1 ex_u1; RDeliver 0; RDeliver 0]) by (exists ex_u1; now left).
  assert (Hq : w_flight w3 = []).
  { vm_compute in E2. inversion E2; subst w2 n2. vm_compute in E3. inversion E3. reflexivity. }
  split; [exact Hr|]. split; [exact Ht|]. split; [exact Hq|].
  apply (known_graph_converges ex_tp _ ex_w0 w3 1 3 ex_ci Hr Ht Hq); [|lia].
  apply (tr_step ex_tp 1 2 3); [apply (tr_step ex_tp 1 1 2); [apply tr_refl|reflexivity]|reflexivity].
Qed.
