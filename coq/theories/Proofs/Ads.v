(* Proofs/Ads.v — C18: an older advertisement never replaces a newer one; a withdrawn service is
   not listed again unless advertised anew; a withdrawal is relayed once. *)
From Coq Require Import ZArith Lia ZifyN ZifyNat ZifyBool.
From Receptor Require Import Model.Ads.
Open Scope N_scope.

(* ---------- two-level maps ---------- *)
Section Map2.
Context {V : Type}.
Implicit Types m : amap (amap V).

Lemma get2_set2_same n s v m : get2 n s (set2 n s v m) = Some v.
Proof. unfold get2, set2. rewrite aget_aset_same. apply aget_aset_same. Qed.

Lemma get2_set2_other n s v m n' s' : (n', s') <> (n, s) ->
  get2 n' s' (set2 n s v m) = get2 n' s' m.
Proof.
  intro H. unfold get2, set2.
  destruct (N.eq_dec n' n) as [->|Hn].
  - rewrite aget_aset_same. assert (s' <> s) by congruence.
    rewrite aget_aset_other by assumption. destruct (aget n m); reflexivity.
  - rewrite aget_aset_other by assumption. reflexivity.
Qed.

Lemma get2_del2_same n s m : get2 n s (del2 n s m) = None.
Proof.
  unfold get2, del2. destruct (aget n m) as [sm|] eqn:E; [|now rewrite E].
  destruct (adel s sm) as [|p r] eqn:Ed.
  - now rewrite aget_adel_same.
  - rewrite aget_aset_same, <- Ed. apply aget_adel_same.
Qed.

Lemma get2_del2_other n s m n' s' : (n', s') <> (n, s) ->
  get2 n' s' (del2 n s m) = get2 n' s' m.
Proof.
  intro H. unfold get2, del2. destruct (aget n m) as [sm|] eqn:E; [|reflexivity].
  destruct (N.eq_dec n' n) as [->|Hn].
  - assert (Hs : s' <> s) by congruence. rewrite E.
    destruct (adel s sm) as [|p r] eqn:Ed.
    + rewrite aget_adel_same. rewrite <- (aget_adel_other s s' sm Hs), Ed. reflexivity.
    + rewrite aget_aset_same, <- Ed. now apply aget_adel_other.
  - destruct (adel s sm); [now rewrite aget_adel_other|now rewrite aget_aset_other].
Qed.
End Map2.

(* ---------- single steps ---------- *)

Definition tomb_of (st : astate) (n s : N) : option N := get2 n s (as_tomb st).

(* the message is accepted: newer than what is listed and newer than the known withdrawal *)
Definition accepts (st : astate) (a : ad) : bool :=
  match listed st (a_node a) (a_svc a) with Some (t, _) => t <? a_time a | None => true end
  && match tomb_of st (a_node a) (a_svc a) with Some t => t <? a_time a | None => true end.

Lemma handle_ad_rejected st a recv : accepts st a = false -> handle_ad st a recv = (st, []).
Proof.
  unfold accepts, handle_ad, listed, tomb_of. intro H.
  destruct (get2 (a_node a) (a_svc a) (as_ads st)) as [[t b]|].
  - destruct (t <? a_time a) eqn:E; [|reflexivity]. simpl.
    destruct (get2 (a_node a) (a_svc a) (as_tomb st)) as [t'|]; [|simpl in H; discriminate].
    simpl in H. rewrite H. reflexivity.
  - simpl. destruct (get2 (a_node a) (a_svc a) (as_tomb st)) as [t'|]; [|simpl in H; discriminate].
    simpl in H. rewrite H. reflexivity.
Qed.

Lemma handle_ad_accepted st a recv : accepts st a = true ->
  let st' := fst (handle_ad st a recv) in
  (a_cancel a = true ->
     listed st' (a_node a) (a_svc a) = None /\ tomb_of st' (a_node a) (a_svc a) = Some (a_time a))
  /\ (a_cancel a = false ->
     listed st' (a_node a) (a_svc a) = Some (a_time a, a_body a) /\ tomb_of st' (a_node a) (a_svc a) = None)
  /\ (forall n s, (n, s) <> (a_node a, a_svc a) ->
        listed st' n s = listed st n s /\ tomb_of st' n s = tomb_of st n s).
Proof.
  unfold accepts, handle_ad, listed, tomb_of. intro H. apply andb_true_iff in H as [H1 H2].
  assert (K : match get2 (a_node a) (a_svc a) (as_ads st) with
              | Some (t, _) => negb (t <? a_time a) | None => false end = false).
  { destruct (get2 (a_node a) (a_svc a) (as_ads st)) as [[t b]|]; [now rewrite H1|reflexivity]. }
  assert (B : match get2 (a_node a) (a_svc a) (as_tomb st) with
              | Some t => negb (t <? a_time a) | None => false end = false).
  { destruct (get2 (a_node a) (a_svc a) (as_tomb st)); [now rewrite H2|reflexivity]. }
  rewrite K, B. cbn [fst as_ads as_tomb set_ads].
  split; [|split].
  - intros Hc. rewrite Hc. split; [apply get2_del2_same|apply get2_set2_same].
  - intros Hc. rewrite Hc. split; [apply get2_set2_same|apply get2_del2_same].
  - intros n s Hne. split.
    + destruct (a_cancel a); [now apply get2_del2_other|now apply get2_set2_other].
    + destruct (a_cancel a); [now apply get2_set2_other|now apply get2_del2_other].
Qed.

(* an advertisement (or withdrawal) that is not newer than the stored advertisement changes
   nothing and is not relayed *)
Theorem older_never_replaces_newer st a recv t b :
  listed st (a_node a) (a_svc a) = Some (t, b) -> a_time a <= t ->
  handle_ad st a recv = (st, []).
Proof.
  intros Hl Hle. apply handle_ad_rejected. unfold accepts. rewrite Hl.
  destruct (t <? a_time a) eqn:E; [lia|reflexivity].
Qed.

(* a message that is not newer than the known withdrawal changes nothing and is NOT relayed:
   in particular a withdrawal is relayed by a node at most once *)
Theorem buried_not_relayed st a recv t :
  tomb_of st (a_node a) (a_svc a) = Some t -> a_time a <= t ->
  handle_ad st a recv = (st, []).
Proof.
  intros Ht Hle. apply handle_ad_rejected. unfold accepts. rewrite Ht.
  destruct (t <? a_time a) eqn:E; [lia|]. apply andb_false_r.
Qed.

Theorem ad_relay_never_back st a recv c x :
  In (c, x) (snd (handle_ad st a recv)) -> c <> recv /\ In c (as_conns st) /\ x = a.
Proof.
  unfold handle_ad.
  destruct (match get2 (a_node a) (a_svc a) (as_ads st) with Some (t, _) => negb (t <? a_time a) | None => false end);
    [simpl; tauto|].
  destruct (match get2 (a_node a) (a_svc a) (as_tomb st) with Some t => negb (t <? a_time a) | None => false end);
    [simpl; tauto|].
  cbn [snd]. unfold ad_relays. rewrite in_map_iff. intros [c' [E Hin]]. inversion E; subst.
  apply filter_In in Hin as [Hin Hne]. cbn [as_conns set_ads] in Hin.
  repeat split; auto. intro; subst. rewrite N.eqb_refl in Hne. discriminate.
Qed.

(* ---------- histories ---------- *)

(* "the withdrawal with time t1 of (n, s) is known": either it is remembered (with its own or a
   newer time) or the service is listed again with a strictly newer advertisement *)
Definition knows_withdrawn (st : astate) (n s t1 : N) : Prop :=
  (exists t', tomb_of st n s = Some t' /\ t1 <= t') \/
  (exists t b, listed st n s = Some (t, b) /\ t1 < t).

Lemma knows_withdrawn_step st a recv n s t1 :
  knows_withdrawn st n s t1 -> knows_withdrawn (fst (handle_ad st a recv)) n s t1.
Proof.
  intro K. destruct (accepts st a) eqn:Ea.
  2:{ rewrite handle_ad_rejected by assumption. exact K. }
  pose proof (handle_ad_accepted st a recv Ea) as [Hc [Hn Ho]]. cbv zeta in *.
  destruct (N.eq_dec n (a_node a)) as [->|Hnn]; [destruct (N.eq_dec s (a_svc a)) as [->|Hss]|].
  - (* the step concerns this very service: it was accepted, so it is newer than everything *)
    unfold accepts in Ea. apply andb_true_iff in Ea as [E1 E2].
    assert (Hnew : t1 < a_time a).
    { destruct K as [[t' [Ht Hle]]|[t [b [Hl Hlt]]]].
      - rewrite Ht in E2. lia.
      - rewrite Hl in E1. lia. }
    destruct (a_cancel a) eqn:Ec.
    + left. exists (a_time a). destruct (Hc eq_refl) as [_ ->]. split; [reflexivity|lia].
    + right. exists (a_time a), (a_body a). destruct (Hn eq_refl) as [-> _]. split; [reflexivity|lia].
  - destruct (Ho (a_node a) s) as [Hl Ht]; [congruence|].
    unfold knows_withdrawn. rewrite Hl, Ht. exact K.
  - destruct (Ho n s) as [Hl Ht]; [congruence|].
    unfold knows_withdrawn. rewrite Hl, Ht. exact K.
Qed.

Lemma knows_withdrawn_run h : forall st n s t1,
  knows_withdrawn st n s t1 -> knows_withdrawn (run_ads handle_ad st h) n s t1.
Proof.
  induction h as [|[a r] l IH]; intros st n s t1 K; [exact K|].
  cbn [run_ads]. apply IH. now apply knows_withdrawn_step.
Qed.

(* well-formed states: a service is never both listed and remembered as withdrawn; every state
   reachable from the empty one is well-formed *)
Definition wf (st : astate) : Prop :=
  forall n s, listed st n s = None \/ tomb_of st n s = None.

Lemma wf_init conns : wf (ads_init conns).
Proof. intros n s. left. reflexivity. Qed.

Lemma wf_step st a recv : wf st -> wf (fst (handle_ad st a recv)).
Proof.
  intros W. destruct (accepts st a) eqn:Ea.
  2:{ rewrite handle_ad_rejected by assumption. exact W. }
  pose proof (handle_ad_accepted st a recv Ea) as [Hc [Hn Ho]]. cbv zeta in *.
  intros n s. destruct (N.eq_dec n (a_node a)) as [->|Hnn]; [destruct (N.eq_dec s (a_svc a)) as [->|Hss]|].
  - destruct (a_cancel a); [left; apply Hc; reflexivity|right; apply Hn; reflexivity].
  - destruct (Ho (a_node a) s) as [-> ->]; [congruence|apply W].
  - destruct (Ho n s) as [-> ->]; [congruence|apply W].
Qed.

Lemma wf_run h : forall st, wf st -> wf (run_ads handle_ad st h).
Proof.
  induction h as [|[a r] l IH]; intros st W; [exact W|]. cbn [run_ads]. apply IH. now apply wf_step.
Qed.

(* WITHDRAWN SERVICES ARE NOT RESURRECTED.  Once a node has learned a withdrawal (it arrived and
   was newer than what the node listed, if anything), then after EVERY further history — any
   order, duplication or delay of older messages — the service is listed again only with an
   advertisement strictly newer than the withdrawal (the owner advertised it anew). *)
Theorem withdrawn_not_resurrected st a recv h :
  wf st -> a_cancel a = true ->
  match listed st (a_node a) (a_svc a) with Some (t, _) => t < a_time a | None => True end ->
  forall t b, listed (run_ads handle_ad (fst (handle_ad st a recv)) h) (a_node a) (a_svc a) = Some (t, b) ->
  a_time a < t.
Proof.
  intros W Hc Hnewer t b Hl.
  assert (K : knows_withdrawn (fst (handle_ad st a recv)) (a_node a) (a_svc a) (a_time a)).
  { destruct (accepts st a) eqn:Ea.
    - destruct (handle_ad_accepted st a recv Ea) as [H1 _]. destruct (H1 Hc) as [_ Ht].
      left. exists (a_time a). split; [exact Ht|lia].
    - rewrite handle_ad_rejected by assumption.
      unfold accepts in Ea. apply andb_false_iff in Ea as [Ea|Ea].
      + destruct (listed st (a_node a) (a_svc a)) as [[t0 b0]|]; [lia|discriminate].
      + destruct (tomb_of st (a_node a) (a_svc a)) as [t'|] eqn:Et; [|discriminate].
        left. exists t'. cbn [fst]. split; [exact Et|lia]. }
  apply (knows_withdrawn_run h) in K.
  pose proof (wf_run h _ (wf_step st a recv W) (a_node a) (a_svc a)) as W2.
  destruct K as [[t' [Ht Hle]]|[t2 [b2 [Hl2 Hlt]]]].
  - destruct W2 as [W2|W2]; congruence.
  - rewrite Hl in Hl2. inversion Hl2; subst. exact Hlt.
Qed.

(* knowledge never regresses: max(listed time, withdrawal time) per (node, service) is
   non-decreasing along every history *)
Definition know (st : astate) (n s : N) : N :=
  N.max (match listed st n s with Some (t, _) => t | None => 0 end)
        (match tomb_of st n s with Some t => t | None => 0 end).

Lemma know_step st a recv n s : know st n s <= know (fst (handle_ad st a recv)) n s.
Proof.
  destruct (accepts st a) eqn:Ea.
  2:{ rewrite handle_ad_rejected by assumption. cbn [fst]. lia. }
  pose proof (handle_ad_accepted st a recv Ea) as [Hc [Hn Ho]]. cbv zeta in *.
  destruct (N.eq_dec n (a_node a)) as [->|Hnn]; [destruct (N.eq_dec s (a_svc a)) as [->|Hss]|].
  - unfold accepts in Ea. apply andb_true_iff in Ea as [E1 E2]. unfold know.
    destruct (a_cancel a).
    + destruct (Hc eq_refl) as [-> ->].
      destruct (listed st (a_node a) (a_svc a)) as [[t0 b0]|], (tomb_of st (a_node a) (a_svc a)); lia.
    + destruct (Hn eq_refl) as [-> ->].
      destruct (listed st (a_node a) (a_svc a)) as [[t0 b0]|], (tomb_of st (a_node a) (a_svc a)); lia.
  - unfold know. destruct (Ho (a_node a) s) as [-> ->]; [congruence|lia].
  - unfold know. destruct (Ho n s) as [-> ->]; [congruence|lia].
Qed.

Theorem knowledge_monotone h : forall st n s, know st n s <= know (run_ads handle_ad st h) n s.
Proof.
  induction h as [|[a r] l IH]; intros st n s; [cbn [run_ads]; lia|].
  cbn [run_ads]. pose proof (know_step st a r n s). specialize (IH (fst (handle_ad st a r)) n s). lia.
Qed.

(* ---------- the pinned tree: both clauses refuted ---------- *)
Definition mk (n s t : N) (c : bool) : ad :=
  {| a_node := n; a_svc := s; a_time := t; a_cancel := c; a_body := 0 |}.

(* withdrawal (time 9) then a delayed older advertisement (time 3): listed again *)
Theorem pinned_resurrects :
  listed (run_ads handle_ad_pinned (ads_init [2; 3]) [(mk 5 7 9 true, 2); (mk 5 7 3 false, 3)]) 5 7
  = Some (3, 0).
Proof. vm_compute. reflexivity. Qed.

(* the same history on the repaired tree *)
Example fixed_does_not :
  listed (run_ads handle_ad (ads_init [2; 3]) [(mk 5 7 9 true, 2); (mk 5 7 3 false, 3)]) 5 7 = None.
Proof. vm_compute. reflexivity. Qed.

(* a withdrawal for an entry that is already gone is relayed again every time it arrives (on a
   cyclic topology it therefore circulates for ever) *)
Theorem pinned_withdrawal_relayed_again :
  let st1 := fst (handle_ad_pinned (ads_init [2; 3]) (mk 5 7 9 true) 2) in
  snd (handle_ad_pinned st1 (mk 5 7 9 true) 2) <> [].
Proof. vm_compute. discriminate. Qed.

Example fixed_withdrawal_relayed_once :
  let st1 := fst (handle_ad (ads_init [2; 3]) (mk 5 7 9 true) 2) in
  snd (handle_ad (ads_init [2; 3]) (mk 5 7 9 true) 2) = [(3, mk 5 7 9 true)]
  /\ snd (handle_ad st1 (mk 5 7 9 true) 2) = [].
Proof. vm_compute. split; reflexivity. Qed.

(* ---------- no expiry: what is listed changes only through messages about that service ---------- *)
(* hence a node that stops without withdrawing (or becomes unreachable) stays listed for ever:
   the "live nodes it can reach" clause of C18 is NOT met by the table itself (open finding) *)
Theorem listed_changes_only_by_own_messages h : forall st n s,
  Forall (fun p => (a_node (fst p), a_svc (fst p)) <> (n, s)) h ->
  listed (run_ads handle_ad st h) n s = listed st n s.
Proof.
  induction h as [|[a r] l IH]; intros st n s Hall; [reflexivity|].
  inversion Hall as [|? ? Ha Hl]; subst. cbn [run_ads fst] in *.
  rewrite IH by assumption.
  destruct (accepts st a) eqn:Ea.
  - destruct (handle_ad_accepted st a r Ea) as [_ [_ Ho]]. apply Ho. congruence.
  - rewrite handle_ad_rejected by assumption. reflexivity.
Qed.

Example dead_node_still_listed :
  (* node 5 advertised service 7 and then died: whatever else happens (here: traffic about other
     services), it stays listed *)
  listed (run_ads handle_ad (ads_init [2]) [(mk 5 7 3 false, 2); (mk 6 7 9 false, 2); (mk 6 7 10 true, 2)]) 5 7
  = Some (3, 0).
Proof. vm_compute. reflexivity. Qed.
