(* Proofs/RouteLink.v — own row = connections under every history of link events, including session
   teardowns that end late; refuted for a deferred clean-up that forgets the peer's costs again. *)
From Coq Require Import NArith List.
From Receptor Require Import Model.RouteLink.
Import ListNotations.
Open Scope N_scope.

Lemma lstep_own_is_conns : forall s e, l_own s = l_conns s -> l_own (lstep false s e) = l_conns (lstep false s e).
Proof.
  intros s e H. destruct e as [p c|p|p]; simpl.
  - destruct (lhas p (l_conns s)); simpl; [exact H | now rewrite H].
  - now rewrite H.
  - exact H.
Qed.

Lemma own_row_is_connections : forall h s, l_own s = l_conns s ->
  l_own (lrun false s h) = l_conns (lrun false s h).
Proof.
  induction h as [|e h IH]; intros s H; simpl; [exact H|].
  apply IH, lstep_own_is_conns, H.
Qed.

Lemma own_row_is_connections_from_start : forall h, l_own (lrun false l0 h) = l_conns (lrun false l0 h).
Proof. intro h. now apply own_row_is_connections. Qed.

(* a late "forget the costs once more": connected to peer 1, own row empty - no route over the link *)
Lemma late_forget_refuted :
  let s := lrun true l0 slow_close_history in l_conns s = [(1, 2)] /\ l_own s = [].
Proof. vm_compute. split; reflexivity. Qed.

Lemma slow_close_history_faithful :
  let s := lrun false l0 slow_close_history in l_conns s = [(1, 2)] /\ l_own s = [(1, 2)].
Proof. vm_compute. split; reflexivity. Qed.
