(* Proofs/Life.v — lemmas about Model/Life.v (property C17). *)
From Coq Require Import Lia.
From Receptor Require Import Model.Life.
Open Scope N_scope.

(* ---------- no operation panics on the repaired tree ---------- *)
Lemma withdraw_fixed : forall s n name, exists s', withdraw Fixed s n name = Ok s'.
Proof. intros. unfold withdraw. destruct (mem2 (n, name) (ads s)); eauto. Qed.

Lemma close_psock_fixed : forall s id k p, close_psock Fixed s id k <> Panic p.
Proof.
  intros s id k p. unfold close_psock. destruct (k_closed k); [discriminate|].
  destruct (k_adv k); [|discriminate].
  match goal with |- withdraw Fixed ?a ?b ?c <> _ => destruct (withdraw_fixed a b c) as [s' E]; rewrite E end.
  discriminate.
Qed.

Lemma close_lis_fixed : forall s id l p, close_lis Fixed s id l <> Panic p.
Proof.
  intros s id l p. unfold close_lis. destruct (l_closed l); [discriminate|].
  destruct (l_adv l); [|discriminate].
  match goal with |- withdraw Fixed ?a ?b ?c <> _ => destruct (withdraw_fixed a b c) as [s' E]; rewrite E end.
  discriminate.
Qed.

Lemma step_fixed_no_panic : forall s o p, step Fixed s o <> Panic p.
Proof.
  intros s o p. destruct o; cbn [step].
  - destruct (_ || _ || _); discriminate.
  - destruct (lookup id (socks s)); [apply close_psock_fixed | discriminate].
  - destruct (lookup sid (socks s)); [|discriminate]. destruct (lookup uid (subs s)); [discriminate|].
    destruct (_ || _); discriminate.
  - destruct (lookup uid (subs s)); discriminate.
  - destruct (lookup sid (socks s)); [|discriminate]. destruct (_ || _); discriminate.
  - destruct (lookup sid (socks s)) as [k|]; [|discriminate]. destruct (k_parked k); discriminate.
  - destruct (_ || _ || _); discriminate.
  - destruct (lookup id (liss s)) as [l|]; [|discriminate].
    pose proof (close_lis_fixed s id l) as H. destruct (close_lis Fixed s id l) as [s'| |q]; try discriminate.
    intro E. inversion E; subst. now apply (H p).
  - destruct (_ || _ || _ || _); discriminate.
  - discriminate.
  - unfold upd_conn. destruct (lookup cid (conns s)); discriminate.
  - unfold upd_conn. destruct (lookup cid (conns s)); discriminate.
  - destruct (is_down s node); discriminate.
  - discriminate.
  - destruct (lookup cid (conns s)); discriminate.
Qed.

Theorem close_never_panics : forall h s p, run Fixed s h <> Panic p.
Proof.
  induction h as [|o h IH]; intros s p; cbn [run]; [discriminate|].
  pose proof (step_fixed_no_panic s o) as H.
  destruct (step Fixed s o) as [s'| |q]; [apply IH | apply IH | exfalso; now apply (H q)].
Qed.

(* the pinned tree: three ways to die *)
Theorem pinned_double_close_socket_refuted :
  run Pinned init [ListenPacket 1 0 10 true; PcClose 1; PcClose 1] = Panic PNilAdvert.
Proof. vm_compute. reflexivity. Qed.
Theorem pinned_double_close_listener_refuted :
  run Pinned init [Listen 1 0 10 true; LiClose 1; LiClose 1] = Panic PNilAdvert.
Proof. vm_compute. reflexivity. Qed.
Theorem pinned_two_deliverers_refuted :
  run Pinned init [ListenPacket 1 0 10 false; Park 1; Park 1; PcClose 1] = Panic PDoubleCloseChan.
Proof. vm_compute. reflexivity. Qed.

(* ---------- counting ---------- *)
Lemma filter_nil : forall {A} (f : A -> bool) l, (forall x, In x l -> f x = false) -> filter f l = [].
Proof.
  induction l as [|x l IH]; intros H; [reflexivity|]. cbn [filter].
  rewrite (H x (or_introl eq_refl)). apply IH. intros y Hy. apply H. now right.
Qed.

Lemma count_zero : forall {A} (f : A -> bool) l, (forall x, In x l -> f x = false) -> count f l = 0%nat.
Proof. intros. unfold count. now rewrite filter_nil. Qed.

Lemma lis_closed_all : forall s, forallb (fun x => l_closed (snd x)) (liss s) = true ->
  forall lid, lis_closed s lid = true.
Proof.
  intros s H lid. unfold lis_closed. induction (liss s) as [|[k l] r IH]; [reflexivity|].
  cbn [forallb snd] in H. apply andb_true_iff in H as [H1 H2]. cbn [lookup].
  destruct (lid =? k); [assumption | now apply IH].
Qed.

Lemma over_when_lis_closed : forall s c, lis_closed s (c_lis c) = true -> over s c = true.
Proof. intros s c H. unfold over. rewrite H. now rewrite !orb_true_r. Qed.

Lemma forallb_In : forall {A} (f : A -> bool) l x, forallb f l = true -> In x l -> f x = true.
Proof. intros A f l x H Hin. rewrite forallb_forall in H. now apply H. Qed.

(* ---------- everything closed => everything released ---------- *)
Theorem all_closed_releases_everything : forall s n,
  all_closed s = true ->
  registry Fixed s n = [] /\ forall g, goroutines Fixed s g n = 0%nat.
Proof.
  intros s n H. unfold all_closed in H.
  apply andb_true_iff in H as [H Hc]. apply andb_true_iff in H as [H Hl]. apply andb_true_iff in H as [Hs Hu].
  pose proof (lis_closed_all s Hl) as Hlc.
  assert (Fs : filter (fun x => (k_node (snd x) =? n) && negb (k_closed (snd x))) (socks s) = []).
  { apply filter_nil. intros x Hx. rewrite (forallb_In _ _ x Hs Hx). now rewrite andb_false_r. }
  assert (Fl : filter (fun x => (l_node (snd x) =? n) && negb (l_closed (snd x))) (liss s) = []).
  { apply filter_nil. intros x Hx. rewrite (forallb_In _ _ x Hl Hx). now rewrite andb_false_r. }
  assert (Fe : filter (fun x => (c_dnode (snd x) =? n) && eph_open Fixed s (snd x)) (conns s) = []).
  { apply filter_nil. intros x Hx. cbn [eph_open]. rewrite over_when_lis_closed by apply Hlc. now rewrite andb_false_r. }
  assert (Os : open_sockets Fixed s n = 0%nat).
  { unfold open_sockets, count. rewrite Fs, Fl, Fe. now destruct (is_down s n). }
  assert (Ca : count (fun x => acc_live s (snd x) n) (conns s) = 0%nat).
  { apply count_zero. intros x Hx. unfold acc_live. rewrite Hlc. cbn. now rewrite !andb_false_r. }
  assert (Cm : count (fun x => dmon_live Fixed s (snd x) n) (conns s) = 0%nat).
  { apply count_zero. intros x Hx. unfold dmon_live. cbn [eph_open]. rewrite over_when_lis_closed by apply Hlc.
    cbn. now rewrite !andb_false_r. }
  assert (Cu : count (fun x => sub_live s (snd x) n) (subs s) = 0%nat).
  { apply count_zero. intros x Hx. unfold sub_live. destruct (lookup (u_sock (snd x)) (socks s)); [|reflexivity].
    rewrite (forallb_In _ _ x Hu Hx). cbn. now rewrite !andb_false_r. }
  assert (Cd : count (fun x => dclean_live Fixed s (snd x) n) (conns s) = 0%nat).
  { apply count_zero. intros x Hx. unfold dclean_live. rewrite over_when_lis_closed by apply Hlc. cbn. now rewrite andb_false_r. }
  split.
  - unfold registry. now rewrite Fs, Fl, Fe.
  - intros g. destruct g; cbn [goroutines]; try rewrite Os; try rewrite Ca; try rewrite Cm; try rewrite Cu; try rewrite Cd; try reflexivity.
    unfold count. rewrite Fl. now destruct (is_down s n).
Qed.

(* ---------- a finished connection ---------- *)
Theorem finished_connection_releases : forall s c,
  conn_done c = true -> (c_dcc c || c_acc c) = true -> conn_residue Fixed s c = 0%nat.
Proof.
  intros s c Hd Hc. unfold conn_done in Hd. apply andb_true_iff in Hd as [Hdd Had].
  assert (Ho : over s c = true).
  { unfold over. apply orb_true_iff in Hc as [E|E]; rewrite E; cbn; [reflexivity | now rewrite orb_true_r]. }
  unfold conn_residue, dclean_live, dmon_live, acc_live. cbn [eph_open]. rewrite Ho, Hdd, Had. cbn.
  now rewrite !andb_false_r.
Qed.

(* resource use does not grow with the number of past connections that were finished with a
   CloseConnection at either end: none of them holds a name or a goroutine, however many *)
Theorem finished_connections_hold_nothing : forall s n,
  forallb (fun x => conn_done (snd x) && (c_dcc (snd x) || c_acc (snd x))) (conns s) = true ->
  filter (fun x => (c_dnode (snd x) =? n) && eph_open Fixed s (snd x)) (conns s) = [] /\
  goroutines Fixed s SDial n = 0%nat /\ goroutines Fixed s SAccept n = 0%nat.
Proof.
  intros s n H.
  assert (Ho : forall x, In x (conns s) -> over s (snd x) = true /\ c_ddone (snd x) = true /\ c_adone (snd x) = true).
  { intros x Hx. pose proof (forallb_In _ _ x H Hx) as E. cbn in E.
    apply andb_true_iff in E as [E1 E2]. unfold conn_done in E1. apply andb_true_iff in E1 as [E3 E4].
    repeat split; try assumption.
    unfold over. apply orb_true_iff in E2 as [E|E]; rewrite E; cbn; [reflexivity | now rewrite orb_true_r]. }
  split; [|split].
  - apply filter_nil. intros x Hx. destruct (Ho x Hx) as (E & _ & _). cbn [eph_open]. rewrite E. now rewrite andb_false_r.
  - cbn [goroutines]. rewrite !count_zero; [reflexivity| |].
    + intros x Hx. destruct (Ho x Hx) as (E & E2 & _). unfold dmon_live. rewrite E2. cbn. now rewrite !andb_false_r.
    + intros x Hx. destruct (Ho x Hx) as (E & _ & _). unfold dclean_live. rewrite E. cbn. now rewrite andb_false_r.
  - cbn [goroutines]. rewrite count_zero; [reflexivity|].
    intros x Hx. destruct (Ho x Hx) as (_ & _ & E). unfold acc_live. rewrite E. cbn. now rewrite !andb_false_r.
Qed.

(* open finding: both ends only half-close (Conn.Close) while the listener lives on *)
Definition h_close_close : list op :=
  [Listen 1 1 10 false; DialOk 2 0 1 20; ConnClose 2 true; ConnClose 2 false].
Theorem finished_connection_close_close_refuted :
  exists s c, run Fixed init h_close_close = Ok s /\ lookup 2 (conns s) = Some c /\ conn_done c = true /\
              registry Fixed s 0 = [20] /\ conn_residue Fixed s c = 2%nat /\
              goroutines Fixed s SDial 0 = 1%nat /\ goroutines Fixed s SStartUnreachable 0 = 2%nat.
Proof. vm_compute. eexists. eexists. repeat split; reflexivity. Qed.

(* the pinned tree leaked the ephemeral socket after CloseConnection as well (fixed) *)
Definition h_dial_cc : list op :=
  [Listen 1 1 10 false; DialOk 2 0 1 20; CloseConnection 2 true; ConnClose 2 false].
Theorem pinned_dial_closeconnection_refuted :
  (exists s, run Pinned init h_dial_cc = Ok s /\ registry Pinned s 0 = [20] /\ goroutines Pinned s SStartUnreachable 0 = 2%nat) /\
  (exists s, run Fixed init h_dial_cc = Ok s /\ registry Fixed s 0 = [] /\ forall g, goroutines Fixed s g 0 = 0%nat).
Proof.
  split; vm_compute; eexists; repeat split; try reflexivity. intros g; destruct g; reflexivity.
Qed.

(* ---------- shutdown ---------- *)
Lemma down_goroutines_zero : forall s n g, is_down s n = true -> goroutines Fixed s g n = 0%nat.
Proof.
  intros s n g H.
  assert (U : up s n = false) by (unfold up; now rewrite H).
  assert (Os : open_sockets Fixed s n = 0%nat) by (unfold open_sockets; now rewrite H).
  assert (Ca : count (fun x => acc_live s (snd x) n) (conns s) = 0%nat).
  { apply count_zero. intros x _. unfold acc_live. rewrite U. now rewrite andb_false_r. }
  assert (Cm : count (fun x => dmon_live Fixed s (snd x) n) (conns s) = 0%nat).
  { apply count_zero. intros x _. unfold dmon_live. rewrite U. now rewrite andb_false_r. }
  assert (Cu : count (fun x => sub_live s (snd x) n) (subs s) = 0%nat).
  { apply count_zero. intros x _. unfold sub_live. destruct (lookup (u_sock (snd x)) (socks s)); [|reflexivity].
    rewrite U. now rewrite andb_false_r. }
  assert (Cd : count (fun x => dclean_live Fixed s (snd x) n) (conns s) = 0%nat).
  { apply count_zero. intros x _. unfold dclean_live. rewrite U. now rewrite andb_false_r. }
  destruct g; cbn [goroutines]; try rewrite Os; try rewrite Ca; try rewrite Cm; try rewrite Cu; try rewrite Cd;
    try rewrite H; reflexivity.
Qed.

Lemma withdraw_down : forall v s n name s', withdraw v s n name = Ok s' -> down s' = down s.
Proof.
  intros v s n name s' H. unfold withdraw in H. destruct (mem2 (n, name) (ads s)).
  - inversion H; reflexivity.
  - destruct v; [inversion H; reflexivity | discriminate].
Qed.

Lemma step_fixed_down : forall s o s' n, step Fixed s o = Ok s' -> is_down s n = true -> is_down s' n = true.
Proof.
  intros s o s' n H D. unfold is_down in *.
  assert (K : down s' = down s \/ exists m, down s' = m :: down s).
  { destruct o; cbn [step] in H.
    - destruct (_ || _ || _); [discriminate|]. inversion H. destruct adv; left; reflexivity.
    - destruct (lookup id (socks s)) as [k|]; [|discriminate]. unfold close_psock in H.
      destruct (k_closed k); [inversion H; now left|].
      destruct (k_adv k); [apply withdraw_down in H; left; exact H | inversion H; now left].
    - destruct (lookup sid (socks s)); [|discriminate]. destruct (lookup uid (subs s)); [discriminate|].
      destruct (_ || _); [discriminate|]. inversion H; now left.
    - destruct (lookup uid (subs s)); [|discriminate]. inversion H; now left.
    - destruct (lookup sid (socks s)); [|discriminate]. destruct (_ || _); [discriminate|]. inversion H; now left.
    - destruct (lookup sid (socks s)) as [k|]; [|discriminate]. destruct (k_parked k); [discriminate|]. inversion H; now left.
    - destruct (_ || _ || _); [discriminate|]. inversion H. destruct adv; left; reflexivity.
    - destruct (lookup id (liss s)) as [l|]; [|discriminate]. unfold close_lis in H.
      destruct (l_closed l); [inversion H; now left|].
      destruct (l_adv l).
      + destruct (withdraw Fixed _ _ _) eqn:E; try discriminate. inversion H; subst. apply withdraw_down in E. left; exact E.
      + inversion H; now left.
    - destruct (_ || _ || _ || _); [discriminate|]. inversion H; now left.
    - inversion H; now left.
    - unfold upd_conn in H. destruct (lookup cid (conns s)); [|discriminate]. inversion H; now left.
    - unfold upd_conn in H. destruct (lookup cid (conns s)); [|discriminate]. inversion H; now left.
    - destruct (is_down s node); [discriminate|]. inversion H; now left.
    - inversion H. right. now exists node.
    - destruct (lookup cid (conns s)); [|discriminate]. inversion H; now left. }
  destruct K as [K | [m K]]; rewrite K; [assumption|].
  unfold memN in *. cbn [existsb]. rewrite D. now rewrite orb_true_r.
Qed.

Lemma run_fixed_down : forall h s s' n, run Fixed s h = Ok s' -> is_down s n = true -> is_down s' n = true.
Proof.
  induction h as [|o h IH]; intros s s' n H D; cbn [run] in H.
  - inversion H; now subst.
  - destruct (step Fixed s o) eqn:E; [|now apply (IH s)|discriminate].
    apply (IH s0); [assumption | now apply (step_fixed_down s o)].
Qed.

Theorem shutdown_stops_all : forall s n s1 h s2 g,
  step Fixed s (Shutdown n) = Ok s1 -> run Fixed s1 h = Ok s2 -> goroutines Fixed s2 g n = 0%nat.
Proof.
  intros s n s1 h s2 g H1 H2. apply down_goroutines_zero. apply (run_fixed_down h s1); [assumption|].
  cbn [step] in H1. inversion H1. unfold is_down, memN. cbn. now rewrite N.eqb_refl.
Qed.

(* ---------- closing twice ---------- *)
Lemma lookup_update_same : forall {A} (k : N) (v v' : A) l, lookup k l = Some v -> lookup k (update k v' l) = Some v'.
Proof.
  induction l as [|[k0 v0] l IH]; intros H; [discriminate|]. cbn [lookup update] in *.
  destruct (k =? k0) eqn:E; cbn [lookup]; rewrite E; [reflexivity | now apply IH].
Qed.

Lemma withdraw_socks : forall v s n name s', withdraw v s n name = Ok s' -> socks s' = socks s.
Proof.
  intros v s n name s' H. unfold withdraw in H. destruct (mem2 (n, name) (ads s)).
  - inversion H; reflexivity.
  - destruct v; [inversion H; reflexivity | discriminate].
Qed.

Theorem close_is_idempotent : forall s id s1,
  step Fixed s (PcClose id) = Ok s1 -> step Fixed s1 (PcClose id) = Ok s1.
Proof.
  intros s id s1 H. cbn [step] in *. destruct (lookup id (socks s)) as [k|] eqn:L; [|discriminate].
  unfold close_psock in H. destruct (k_closed k) eqn:C.
  - inversion H; subst. rewrite L. unfold close_psock. now rewrite C.
  - set (k' := {| k_node := k_node k; k_name := k_name k; k_adv := k_adv k; k_closed := true; k_parked := 0 |}) in *.
    assert (L1 : lookup id (socks s1) = Some k').
    { destruct (k_adv k).
      - apply withdraw_socks in H. rewrite H. cbn [socks set_socks]. now apply lookup_update_same with (v := k).
      - inversion H; subst. cbn [socks set_socks]. now apply lookup_update_same with (v := k). }
    rewrite L1. unfold close_psock. reflexivity.
Qed.

(* the pinned tree: the second Close of an old socket unregisters the newer socket of that name *)
Definition h_reuse : list op :=
  [ListenPacket 1 0 10 false; PcClose 1; ListenPacket 2 0 10 false; PcClose 1].
Theorem pinned_second_close_unregisters_refuted :
  (exists s, run Pinned init h_reuse = Ok s /\ registry Pinned s 0 = []) /\
  (exists s, run Fixed init h_reuse = Ok s /\ registry Fixed s 0 = [10]).
Proof. split; vm_compute; eexists; split; reflexivity. Qed.

(* ---------- the other methods of Conn ---------- *)
(* CancelRead, deadlines, reads and writes change nothing ... *)
Theorem stream_op_changes_nothing : forall v s cid d,
  step v s (StreamOp cid d) = Ok s \/ step v s (StreamOp cid d) = Reject.
Proof. intros. cbn [step]. destruct (lookup cid (conns s)); auto. Qed.

(* ... so Conn.Close and CloseConnection release exactly the same things after any number of
   them (in particular after the peer's CancelRead, when closing the QUIC stream fails) *)
Theorem close_releases_the_same_after_stream_ops : forall v s ops o,
  Forall (fun x => exists cid d, x = StreamOp cid d) ops ->
  run v s (ops ++ [o]) = run v s [o].
Proof.
  intros v s ops o H. induction H as [|x ops [cid [d E]] _ IH]; [reflexivity|].
  subst x. cbn [app run]. destruct (stream_op_changes_nothing v s cid d) as [R|R]; rewrite R; exact IH.
Qed.

(* ---------- ping ---------- *)
Theorem ping_leaves_nothing : forall s n ok, step Fixed s (PingOp n ok) = Ok s \/ step Fixed s (PingOp n ok) = Reject.
Proof. intros. cbn [step]. destruct (is_down s n); auto. Qed.

Theorem pinned_failed_ping_refuted :
  exists s, run Pinned init [PingOp 0 false; PingOp 0 true; PingOp 0 false; PingOp 0 false] = Ok s /\
            goroutines Pinned s SPing 0 = 3%nat.
Proof. vm_compute. eexists. split; reflexivity. Qed.

(* ---------- non-vacuity: a history that uses everything and ends all closed ---------- *)
Definition h_full : list op :=
  [ListenPacket 1 0 10 true; Subscribe 2 1; Park 1; Park 1; Listen 3 1 11 true; DialOk 4 0 3 20; DialOk 5 1 3 21;
   PingOp 0 false; ConnClose 4 true; CloseConnection 5 false; PcClose 1; PcClose 1; SubDone 2; ConnClose 4 false;
   ConnClose 5 true; LiClose 3; LiClose 3].
Example full_history_all_closed :
  exists s, run Fixed init h_full = Ok s /\ all_closed s = true /\ length (conns s) = 2%nat.
Proof. vm_compute. eexists. repeat split; reflexivity. Qed.
