(* Proofs/RouteCompose.v — C01: putting the layers together.  If every node's known graph agrees
   with the real topology on everything the node can reach (Proofs/RouteWorld.v: that is what the
   clean phase converges to; stale entries about unreachable nodes are harmless) and every node's
   table passes the certificate check for its OWN known graph (Proofs/RouteAlg.v: that is what
   the rebuild produces), then in the REAL topology every table holds exactly the reachable
   nodes with least costs and least-cost next hops, and following next hops never loops. *)
From Coq Require Import ZArith Lia ZifyN ZifyNat ZifyBool.
From Receptor Require Import Model.Route Model.RouteWorld Proofs.Route.
Open Scope N_scope.

Section Compose.
Variable tp : topo.

(* g tells the truth about every node reachable from a *)
Definition agrees (a : node) (g : graph) : Prop := forall o, treach tp a o -> aget o g = Some (tp o).

Lemma treach_trans a b c : treach tp a b -> treach tp b c -> treach tp a c.
Proof. intros H1 H2. induction H2; [exact H1|]. eapply tr_step; eauto. Qed.

Lemma agrees_mono a b g : agrees a g -> treach tp a b -> agrees b g.
Proof. intros H Hab o Ho. apply H. eapply treach_trans; eauto. Qed.

(* walks from a node whose reachable part is known truthfully are walks of the real topology *)
Lemma walk_transfer g1 g2 a : agrees a g1 -> agrees a g2 ->
  forall d c, walk g1 a d c -> walk g2 a d c /\ treach tp a d.
Proof.
  intros H1 H2 d c W. induction W as [|u b c w W [IHw IHr] He]; [split; constructor|].
  unfold edge in He. rewrite (H1 u IHr) in He.
  destruct (is_key g1 b); [|discriminate].
  assert (Hb : amem b (tp u) = true) by (unfold amem; now rewrite He).
  assert (Hrb : treach tp a b) by (eapply tr_step; eauto).
  split; [|exact Hrb]. eapply walk_snoc; [exact IHw|].
  unfold edge. rewrite (H2 u IHr). unfold is_key, amem. rewrite (H2 b Hrb). exact He.
Qed.

Lemma is_dist_transfer g1 g2 a d c : agrees a g1 -> agrees a g2 ->
  is_dist g1 a d c -> is_dist g2 a d c.
Proof.
  intros H1 H2 [W M]. split; [apply (walk_transfer g1 g2 a H1 H2 d c W)|].
  intros c' W'. apply M. apply (walk_transfer g2 g1 a H2 H1 d c' W').
Qed.

(* the real topology as a graph G, and every node's own view *)
Variable G : graph.
Variable kg_of : node -> graph.
Variable cs_of : node -> costs.
Variable t_of : node -> table.
Hypothesis HG : forall a, is_key G a = true -> agrees a G.
Hypothesis Hkg : forall u, is_key G u = true ->
  agrees u (kg_of u) /\ graph_wf (kg_of u) = true /\ all_pos (kg_of u) = true /\
  route_check (kg_of u) u (cs_of u) (t_of u) = true.

Lemma key_of_reach u d : is_key G u = true -> treach tp u d -> is_key G d = true /\ is_key (kg_of u) d = true.
Proof.
  intros Hu Hr. destruct (Hkg u Hu) as [Ha _]. split; unfold is_key, amem.
  - now rewrite (HG u Hu d Hr). - now rewrite (Ha d Hr).
Qed.

(* one hop in the REAL topology: the table of u names a neighbour strictly closer to d *)
Theorem real_next_hop_closer u d c : is_key G u = true -> u <> d -> is_dist G u d c ->
  exists h w c2, aget d (t_of u) = Some h /\ edge G u h = Some w /\ 0 < w /\
                 is_dist G h d c2 /\ c = w + c2 /\ is_key G h = true.
Proof.
  intros Hu Hne Hd. destruct (Hkg u Hu) as [Ha [Hwf [Hp Hc]]].
  assert (Hr : treach tp u d) by (destruct Hd as [W _]; apply (walk_transfer G (kg_of u) u (HG u Hu) Ha d c W)).
  destruct (key_of_reach u d Hu Hr) as [HkG Hkk].
  pose proof (is_dist_transfer G (kg_of u) u d c (HG u Hu) Ha Hd) as Hdk.
  destruct (route_check_sound (kg_of u) u (cs_of u) (t_of u) Hwf Hp Hc d Hkk) as [S1 [S2 [S3 S4]]].
  destruct (aget d (t_of u)) as [h|] eqn:Eh.
  2:{ exfalso. destruct (S4 eq_refl) as [E|Hun]; [congruence|]. destruct Hdk as [W _]. exact (Hun _ W). }
  destruct (S3 h eq_refl) as [_ [w [c2 [He [W Hdist]]]]].
  assert (c = w + c2) by (eapply is_dist_unique; eauto). subst c.
  (* transfer the edge and the rest of the walk to the real topology *)
  assert (Hwalk_h : walk (kg_of u) u h w) by (apply walk_edge; exact He).
  destruct (walk_transfer (kg_of u) G u Ha (HG u Hu) h w Hwalk_h) as [WG Hrh].
  destruct (key_of_reach u h Hu Hrh) as [HkGh _].
  assert (HeG : edge G u h = Some w).
  { unfold edge in He |- *. rewrite (Ha u (tr_refl _ _)) in He. rewrite (HG u Hu u (tr_refl _ _)).
    rewrite HkGh. destruct (is_key (kg_of u) h); [exact He|discriminate]. }
  assert (Hpos : 0 < w).
  { clear - He Hp. unfold edge in He. destruct (aget u (kg_of u)) as [adj|] eqn:Ea; [|discriminate].
    destruct (is_key (kg_of u) h); [|discriminate]. apply aget_In in Ea. apply aget_In in He.
    assert (Hadj : all_pos_adj adj = true).
    { revert Ea Hp. generalize (kg_of u). clear. induction g as [|[k a] r IH]; simpl; [tauto|].
      intros [E|E] H; apply andb_true_iff in H as [H1 H2]; [inversion E; subst; exact H1|auto]. }
    revert He Hadj. clear. induction adj as [|[k c] r IH]; simpl; [tauto|].
    intros [E|E] H; apply andb_true_iff in H as [H1 H2]; [inversion E; subst; lia|auto]. }
  exists h, w, c2. split; [reflexivity|]. split; [exact HeG|]. split; [exact Hpos|].
  split; [|split; [reflexivity|exact HkGh]].
  (* h -> d is a least-cost walk of the real topology *)
  assert (Hah : agrees h (kg_of u)) by (eapply agrees_mono; eauto).
  split.
  - apply (walk_transfer (kg_of u) G h Hah (HG h HkGh) d c2 W).
  - intros c' W'. destruct Hd as [_ Hmin].
    specialize (Hmin (w + c') (walk_app _ _ _ _ _ _ (walk_edge _ _ _ _ HeG) W')). lia.
Qed.

(* exactly the reachable nodes, with the least cost of the real topology *)
Theorem real_table_exact u d : is_key G u = true -> is_key G d = true -> d <> u ->
  (aget d (t_of u) <> None <-> exists c, is_dist G u d c) /\
  (forall c, is_dist G u d c -> cost_of (cs_of u) d = Some c).
Proof.
  intros Hu Hkd Hne. destruct (Hkg u Hu) as [Ha [Hwf [Hp Hc]]]. split.
  - split.
    + intro Hn. destruct (aget d (t_of u)) as [h|] eqn:Eh; [|congruence].
      (* an entry exists: d is a key of the known graph with a certified hop *)
      pose proof Hc as Hc'.
      unfold route_check in Hc. apply andb_true_iff in Hc as [Hc1 Hc2].
      unfold table_ok in Hc2. apply andb_true_iff in Hc2 as [_ Hc3]. rewrite forallb_forall in Hc3.
      specialize (Hc3 _ (aget_In _ _ _ Eh)). cbn [fst] in Hc3.
      destruct (route_check_sound (kg_of u) u (cs_of u) (t_of u) Hwf Hp Hc' d Hc3) as [_ [_ [S3 _]]].
      destruct (S3 h Eh) as [_ [w [c2 [_ [_ Hd]]]]]. exists (w + c2).
      eapply is_dist_transfer; [exact Ha|exact (HG u Hu)|exact Hd].
    + intros [c Hd] Hn. destruct (real_next_hop_closer u d c Hu ltac:(congruence) Hd) as [h [_ [_ [Hh _]]]]. congruence.
  - intros c Hd.
    assert (Hr : treach tp u d) by (destruct Hd as [W _]; apply (walk_transfer G (kg_of u) u (HG u Hu) Ha d c W)).
    destruct (key_of_reach u d Hu Hr) as [_ Hkk].
    pose proof (is_dist_transfer G (kg_of u) u d c (HG u Hu) Ha Hd) as Hdk.
    destruct (route_check_sound (kg_of u) u (cs_of u) (t_of u) Hwf Hp Hc d Hkk) as [S1 [S2 _]].
    destruct (cost_of (cs_of u) d) as [c'|] eqn:Ec.
    + f_equal. eapply is_dist_unique; eauto.
    + exfalso. destruct (S2 eq_refl) as [Hun _]. destruct Hdk as [W _]. exact (Hun _ W).
Qed.

(* following next hops in the real topology reaches the destination and never loops *)
Theorem real_next_hops_loop_free : forall c u d,
  is_key G u = true -> is_dist G u d c ->
  exists l, follows t_of d u l /\ NoDup (u :: l) /\
            forall x, In x l -> exists cx, is_dist G x d cx /\ cx < c.
Proof.
  intro c. induction c as [c IH] using (well_founded_induction N.lt_wf_0). intros u d Hu Hd.
  destruct (N.eq_dec u d) as [->|Hne].
  - exists []. split; [constructor|]. split; [constructor; [intros []|constructor]|intros x []].
  - destruct (real_next_hop_closer u d c Hu Hne Hd) as [h [w [c2 [Hh [He [Hw [Hd2 [Hc Hkh]]]]]]]].
    destruct (IH c2 ltac:(lia) h d Hkh Hd2) as [l [Hf [Hnd Hl]]].
    exists (h :: l). split; [econstructor; eauto|]. split.
    + constructor; [|exact Hnd]. intros [E|Hin].
      * subst h. pose proof (is_dist_unique _ _ _ _ _ Hd Hd2). lia.
      * destruct (Hl u Hin) as [cx [Hcx Hlt]]. pose proof (is_dist_unique _ _ _ _ _ Hd Hcx). lia.
    + intros x [<-|Hx]; [exists c2; split; [exact Hd2|lia]|].
      destruct (Hl x Hx) as [cx [Hcx Hlt]]. exists cx. split; [exact Hcx|lia].
Qed.
End Compose.
