(* Proofs/San.v — ReceptorNames inverts MakeReceptorSAN (C20), for node IDs of every length
   and content; and the historical fixed-offset encoder does not. *)
From Coq Require Import String.
From Coq Require Import ZArith Lia ZifyN ZifyNat ZifyBool.
From Receptor Require Import Model.San Proofs.Der.
Open Scope N_scope.

Definition small (b : bytes) : bool := blen b <? 2147483584.   (* 2^31 - 64 *)

Definition san_ok (dns ips ids : list bytes) : bool :=
  forallb small dns && forallb small ips && forallb small ids
  && (blen (san_elems dns ips ids strip_parsed) <? 2147483648).

Lemma be_digits_len fuel : forall n, (length (be_digits fuel n []) <= fuel)%nat.
Proof.
  induction fuel as [|f IH]; intro n; simpl; [lia|].
  destruct (n =? 0); [simpl; lia|].
  rewrite be_digits_acc, app_length. specialize (IH (n / 256)). simpl. lia.
Qed.

Lemma tlv_len_le id c : blen (tlv id c) <= blen c + 10.
Proof.
  unfold tlv, blen. cbn [length]. rewrite app_length. unfold enc_len.
  destruct (_ <? 128); cbn [length]; [lia|].
  pose proof (be_digits_len 8 (N.of_nat (length c))). unfold base256. lia.
Qed.

Lemma small_lt b : small b = true -> blen b < 2147483584.
Proof. unfold small. lia. Qed.

Lemma body_bound id : small id = true -> blen (othername_body id) < 2147483648.
Proof.
  intro H. apply small_lt in H. unfold othername_body. rewrite blen_app.
  pose proof (tlv_len_le ID_OID receptor_oid).
  pose proof (tlv_len_le ID_CTX0_C (tlv ID_UTF8 id)).
  pose proof (tlv_len_le ID_UTF8 id).
  change (blen receptor_oid) with 9 in *. lia.
Qed.

Lemma strip_parsed_ok id : small id = true ->
  strip_parsed (othername_marshalled id) = othername_body id.
Proof.
  intro H. unfold strip_parsed, othername_marshalled.
  rewrite parse_tlv_tlv_nil; [reflexivity|vm_compute; discriminate|now apply body_bound].
Qed.

(* the GeneralNames the encoder emits, as (identifier, content) pairs *)
Definition san_pairs (dns ips ids : list bytes) : list (N * bytes) :=
  map (fun d => (ID_DNS, d)) dns ++ map (fun i => (ID_IP, i)) ips
  ++ map (fun id => (ID_CTX0_C, othername_body id)) ids.

Definition ptlv (p : N * bytes) : bytes := tlv (fst p) (snd p).
Definition pelem (p : N * bytes) : elem :=
  {| e_id := fst p; e_content := snd p; e_full := tlv (fst p) (snd p) |}.

Lemma san_elems_pairs dns ips ids : forallb small ids = true ->
  san_elems dns ips ids strip_parsed = concat (map ptlv (san_pairs dns ips ids)).
Proof.
  intro H. unfold san_elems, san_pairs. rewrite !map_app, !concat_app, !map_map.
  f_equal. f_equal. f_equal.
  induction ids as [|id ids IH]; [reflexivity|].
  cbn [forallb] in H. apply andb_true_iff in H as [H1 H2].
  cbn [map]. rewrite strip_parsed_ok by assumption. unfold ptlv at 1. cbn [fst snd].
  f_equal. now apply IH.
Qed.

Lemma pairs_wf dns ips ids :
  forallb small dns = true -> forallb small ips = true -> forallb small ids = true ->
  Forall (fun p => fst p mod 32 <> 31 /\ blen (snd p) < 2147483648) (san_pairs dns ips ids).
Proof.
  intros Hd Hi Hn. unfold san_pairs. rewrite !Forall_app. repeat split.
  - rewrite Forall_map. rewrite forallb_forall in Hd. apply Forall_forall. intros x Hx.
    cbn [fst snd]. split; [vm_compute; discriminate|]. apply Hd, small_lt in Hx. lia.
  - rewrite Forall_map. rewrite forallb_forall in Hi. apply Forall_forall. intros x Hx.
    cbn [fst snd]. split; [vm_compute; discriminate|]. apply Hi, small_lt in Hx. lia.
  - rewrite Forall_map. rewrite forallb_forall in Hn. apply Forall_forall. intros x Hx.
    cbn [fst snd]. split; [vm_compute; discriminate|]. now apply body_bound, Hn.
Qed.

Lemma concat_len_ge (l : list (N * bytes)) :
  (length l <= length (concat (map ptlv l)))%nat.
Proof.
  induction l as [|p l IH]; [simpl; lia|].
  cbn [map concat length]. rewrite app_length.
  pose proof (tlv_len_ge (fst p) (snd p)) as H. unfold blen in H. unfold ptlv at 1. lia.
Qed.

Lemma parse_san_elems dns ips ids : san_ok dns ips ids = true ->
  parse_tlv (tlv ID_SEQ (san_elems dns ips ids strip_parsed)) =
    Ok (pelem (ID_SEQ, san_elems dns ips ids strip_parsed), [])
  /\ parse_elems (length (san_elems dns ips ids strip_parsed))
                 (san_elems dns ips ids strip_parsed)
     = Ok (map pelem (san_pairs dns ips ids)).
Proof.
  unfold san_ok. rewrite !andb_true_iff. intros [[[Hd Hi] Hn] Ht]. split.
  - apply parse_tlv_tlv_nil; [vm_compute; discriminate|lia].
  - rewrite san_elems_pairs by assumption.
    apply parse_elems_concat; [now apply pairs_wf|apply concat_len_ge].
Qed.

Lemma isnil_tlv id c rest : isnil (tlv id c ++ rest) = false.
Proof. reflexivity. Qed.
Lemma isnil_tlv0 id c : isnil (tlv id c) = false.
Proof. reflexivity. Qed.

Lemma decode_othername_body id : small id = true ->
  decode_othername (pelem (ID_CTX0_C, othername_body id)) =
  if utf8_valid id then Ok (Some id) else Err E_VALUE.
Proof.
  intro Hs. pose proof (small_lt _ Hs) as Hl.
  unfold decode_othername, pelem. cbn [e_id e_content fst snd].
  change (negb (ID_CTX0_C =? ID_CTX0_C)) with false. cbv iota.
  unfold othername_body. cbv zeta. rewrite isnil_tlv.
  rewrite parse_tlv_tlv; [|vm_compute; discriminate|vm_compute; reflexivity].
  cbn [bind e_id e_content].
  change (negb (ID_OID =? ID_OID)) with false. cbv iota.
  change (oid_ok receptor_oid) with true. cbn [negb]. cbv iota.
  rewrite isnil_tlv0.
  pose proof (tlv_len_le ID_UTF8 id).
  rewrite parse_tlv_tlv_nil; [|vm_compute; discriminate|lia].
  cbn [bind e_content]. rewrite beq_bytes_refl.
  unfold parse_string. rewrite isnil_tlv0. unfold tlv.
  rewrite parse_tl_enc; [|vm_compute; discriminate|lia].
  cbn [bind]. change (ID_UTF8 =? 12) with true. cbn [orb]. cbv iota.
  destruct (blen id <=? blen id) eqn:E; [|lia].
  replace (N.to_nat (blen id)) with (length id) by (unfold blen; lia).
  rewrite firstn_all. destruct (utf8_valid id); reflexivity.
Qed.

Lemma decode_names_skip (f : bytes -> N * bytes) l rest :
  (forall x, fst (f x) mod 32 =? 0 = false) ->
  decode_names (map pelem (map f l) ++ rest) = decode_names rest.
Proof.
  intro H. induction l as [|x l IH]; [reflexivity|].
  cbn [map app decode_names]. unfold pelem at 1. cbn [e_id]. rewrite H. apply IH.
Qed.

Lemma decode_names_ids ids : forallb small ids = true ->
  decode_names (map pelem (map (fun id => (ID_CTX0_C, othername_body id)) ids)) =
  if forallb utf8_valid ids then Ok ids else Err E_VALUE.
Proof.
  induction ids as [|id ids IH]; intro H; [reflexivity|].
  cbn [forallb] in H. apply andb_true_iff in H as [H1 H2].
  cbn [map decode_names]. unfold pelem at 1. cbn [e_id fst].
  change (ID_CTX0_C mod 32 =? 0) with true. cbv iota.
  change {| e_id := ID_CTX0_C; e_content := snd (ID_CTX0_C, othername_body id);
            e_full := tlv ID_CTX0_C (snd (ID_CTX0_C, othername_body id)) |}
    with (pelem (ID_CTX0_C, othername_body id)).
  rewrite decode_othername_body by assumption.
  cbn [forallb]. destruct (utf8_valid id); cbn [bind andb]; [|reflexivity].
  rewrite IH by assumption. destruct (forallb utf8_valid ids); reflexivity.
Qed.

(* ---- the round trip, for IDs of every length below the encoding's own limit ---- *)
Theorem receptor_names_make_san dns ips ids : san_ok dns ips ids = true ->
  forall v, make_san dns ips ids = Ok v ->
  receptor_names v = if forallb utf8_valid ids then Ok ids else Err E_VALUE.
Proof.
  intros Hok v Hv. unfold make_san, make_san_with in Hv. inversion Hv; subst v; clear Hv.
  destruct (parse_san_elems dns ips ids Hok) as [H1 H2].
  unfold receptor_names.
  rewrite isnil_tlv0, H1. cbn [bind pelem e_id e_content fst snd].
  change (negb (ID_SEQ =? ID_SEQ)) with false. cbv iota.
  rewrite H2. cbn [bind]. unfold san_pairs. rewrite !map_app.
  rewrite decode_names_skip by (intro; reflexivity).
  rewrite decode_names_skip by (intro; reflexivity).
  apply decode_names_ids.
  unfold san_ok in Hok. rewrite !andb_true_iff in Hok. tauto.
Qed.

Corollary san_roundtrip dns ips ids v :
  san_ok dns ips ids = true -> forallb utf8_valid ids = true ->
  make_san dns ips ids = Ok v -> receptor_names v = Ok ids.
Proof. intros H1 H2 H3. rewrite (receptor_names_make_san _ _ _ H1 _ H3), H2. reflexivity. Qed.

(* reading back never yields a different name: exactly the IDs, or an error *)
Corollary decode_never_misnames dns ips ids v :
  san_ok dns ips ids = true -> make_san dns ips ids = Ok v ->
  receptor_names v = Ok ids \/ exists e, receptor_names v = Err e.
Proof.
  intros H1 H3. rewrite (receptor_names_make_san _ _ _ H1 _ H3).
  destruct (forallb utf8_valid ids); eauto.
Qed.

Corollary make_san_total dns ips ids : exists v, make_san dns ips ids = Ok v.
Proof. unfold make_san, make_san_with. eauto. Qed.

(* the certificate contains exactly the requested names: every GeneralName, in order *)
Theorem general_names_make_san dns ips ids v : san_ok dns ips ids = true ->
  make_san dns ips ids = Ok v ->
  general_names v = Ok (san_pairs dns ips ids).
Proof.
  intros Hok Hv. unfold make_san, make_san_with in Hv. inversion Hv; subst v; clear Hv.
  destruct (parse_san_elems dns ips ids Hok) as [H1 H2].
  unfold general_names. rewrite H1. cbn [bind pelem e_id e_content fst snd].
  change (negb (ID_SEQ =? ID_SEQ)) with false. cbv iota.
  rewrite H2. cbn [bind]. f_equal. rewrite map_map.
  rewrite <- (map_id (san_pairs dns ips ids)) at 2. apply map_ext. now intros [a b].
Qed.

(* ---- the pinned (pre-fix) encoder: refuted at exactly 113 bytes ---- *)
Definition id_of_len (n : nat) : bytes := repeat 110 n.

Example fixed2_ok_112 :
  bind (make_san_fixed2 [] [] [id_of_len 112]) receptor_names = Ok [id_of_len 112].
Proof. vm_compute. reflexivity. Qed.

Theorem fixed2_refuted : exists ids,
  forallb utf8_valid ids = true /\ san_ok [] [] ids = true /\
  exists v, make_san_fixed2 [] [] ids = Ok v /\ receptor_names v <> Ok ids.
Proof.
  exists [id_of_len 113]. split; [vm_compute; reflexivity|]. split; [vm_compute; reflexivity|].
  eexists. split; [reflexivity|]. vm_compute. discriminate.
Qed.

(* non-vacuity: the hypotheses hold for a request with a 300-byte ID, two DNS names and an IP *)
Example san_ok_example :
  san_ok [str "a.example"%string; str "b"%string] [[10; 0; 0; 1]] [id_of_len 300; str "node-1"%string] = true
  /\ forallb utf8_valid [id_of_len 300; str "node-1"%string] = true.
Proof. vm_compute. split; reflexivity. Qed.
