(* Proofs/Mirror.v — lemmas about Model/Mirror.v (property C05, remote half). *)
From Coq Require Import ZArith Lia ZifyN ZifyNat ZifyBool.
From Receptor Require Import Model.Results Model.Mirror Proofs.Results.
Open Scope N_scope.

(* position of the remote reader of an open stream *)
Definition mpos (start : N) (ph : rphase) : option N :=
  match ph with
  | RWait => Some start
  | RRead pos | REof pos => Some pos
  | RDone => None
  end.

(* the local stdout is the beginning of the remote stdout, and an open stream stands exactly at
   the end of the local stdout *)
Definition minv (s : mstate) : Prop :=
  m_local s = firstn (length (m_local s)) (m_remote_out s) /\
  match m_mode s with
  | MStream start ph => mpos start ph = Some (rlen (m_local s))
  | _ => True
  end.

Lemma prefix_len {A} (l r : list A) : l = firstn (length l) r -> (length l <= length r)%nat.
Proof. intro H. rewrite H at 1. rewrite firstn_length. lia. Qed.

Lemma minv_step s e : minv s -> minv (mstep s e).
Proof.
  intros H. pose proof H as [Hp Hm]. destruct e; simpl.
  - (* remote moves *)
    split; [|exact Hm]. unfold m_remote_out in *. simpl.
    destruct (env_step_output (m_remote s) e) as [x Hx]. rewrite Hx.
    rewrite firstn_app_le by (apply prefix_len; exact Hp). exact Hp.
  - case_eq (m_mode s); [intros Em|intros start ph Em|intros Em]; try exact H.
    + split; [exact Hp|exact I].
    + split; [exact Hp|]. rewrite Em in Hm. exact Hm.
  - case_eq (m_mode s); intros; try exact H.
    destruct (is_complete (m_lstate s) && (m_lsize s <=? rlen (m_local s))); simpl.
    + split; [exact Hp|exact I].
    + destruct (rlen (m_local s) <? m_lsize s); simpl.
      * split; [exact Hp|reflexivity].
      * exact H.
  - case_eq (m_mode s); [intros Em|intros start ph Em|intros Em]; try exact H.
    rewrite Em in Hm.
    destruct ph as [|pos|pos|]; simpl in *; try discriminate.
    + destruct (w_file (m_remote s)); simpl.
      * rewrite app_nil_r. split; [exact Hp|exact Hm].
      * destruct (results_done (w_state (m_remote s))); simpl; rewrite app_nil_r;
          (split; [exact Hp|try exact I; exact Hm]).
    + injection Hm as Hpos. subst pos.
      destruct (slice (w_output (m_remote s)) (rlen (m_local s)) (chunk n)) as [|x c] eqn:Es; simpl.
      * rewrite app_nil_r. split; [exact Hp|reflexivity].
      * rewrite <- Es. clear x c Es. set (c := slice (w_output (m_remote s)) (rlen (m_local s)) (chunk n)).
        unfold m_remote_out in *. simpl.
        assert (Hc : c = firstn (N.to_nat (chunk n))
                           (skipn (length (m_local s)) (w_output (m_remote s)))).
        { unfold c, slice. do 2 f_equal. unfold rlen. lia. }
        split; cbn [m_local m_remote m_mode mpos].
        -- rewrite app_length. rewrite Hp at 1. rewrite Hc. apply firstn_extend.
        -- rewrite rlen_app. reflexivity.
    + injection Hm as Hpos. subst pos.
      destruct (results_done (w_state (m_remote s)) && (w_size (m_remote s) <=? rlen (m_local s))); simpl;
        rewrite app_nil_r; (split; [exact Hp|try exact I; reflexivity]).
  - case_eq (m_mode s); intros; try exact H.
    simpl. split; [exact Hp|exact I].
Qed.

Lemma minv0 : minv mstate0.
Proof. split; [reflexivity|exact I]. Qed.

Lemma mrun_minv tr : forall s, minv s -> minv (mrun_from s tr).
Proof.
  induction tr as [|e r IH]; intros s H; [exact H|]. simpl. apply IH. now apply minv_step.
Qed.

Theorem mirror_prefix_thm : forall tr,
  is_prefix (m_local (mrun tr)) (m_remote_out (mrun tr)) = true.
Proof.
  intro tr. destruct (mrun_minv tr mstate0 minv0) as [H _]. unfold mrun. rewrite H. apply is_prefix_firstn.
Qed.

(* the local output never shrinks *)
Lemma mstep_local_grows s e : exists x, m_local (mstep s e) = m_local s ++ x.
Proof.
  destruct e; simpl; try (exists []; now rewrite app_nil_r).
  - destruct (m_mode s); simpl; exists []; now rewrite app_nil_r.
  - destruct (m_mode s); try (exists []; now rewrite app_nil_r).
    destruct (is_complete (m_lstate s) && (m_lsize s <=? rlen (m_local s)));
      [|destruct (rlen (m_local s) <? m_lsize s)]; simpl; exists []; now rewrite app_nil_r.
  - destruct (m_mode s); try (exists []; now rewrite app_nil_r).
    destruct (reader_step results_done start (m_remote s) ph n) as [ph' c]. simpl. now exists c.
  - destruct (m_mode s); simpl; exists []; now rewrite app_nil_r.
Qed.

Theorem mirror_monotone_thm : forall tr tr',
  is_prefix (m_local (mrun tr)) (m_local (mrun (tr ++ tr'))) = true.
Proof.
  intros tr tr'. unfold mrun, mrun_from. rewrite fold_left_app.
  generalize (fold_left mstep tr mstate0). induction tr' as [|e r IH]; intro s; simpl.
  - apply is_prefix_refl.
  - apply is_prefix_spec. destruct (mstep_local_grows s e) as [x Hx].
    specialize (IH (mstep s e)). apply is_prefix_spec in IH as [y Hy].
    exists (x ++ y). rewrite Hy, Hx. now rewrite app_assoc.
Qed.

(* ---------- with the remote producer's contract ---------- *)

Definition minv2 (s : mstate) : Prop :=
  winv results_done (m_remote s) /\
  (is_complete (m_lstate s) = true ->
   results_done (w_state (m_remote s)) = true /\ m_lsize s = rlen (m_remote_out s)) /\
  (m_mode s = MStopped -> is_complete (m_lstate s) = true /\ m_lsize s <= rlen (m_local s)).

Lemma is_complete_done st : is_complete st = true -> results_done st = true.
Proof. unfold results_done. intros ->. reflexivity. Qed.

Definition mcstep (s : mstate) (e : mev) : bool :=
  match e with MEnv ev => cstep results_done (m_remote s) ev | _ => true end.

Lemma minv2_step s e : mcstep s e = true -> minv2 s -> minv2 (mstep s e).
Proof.
  intros Hc H. pose proof H as [Hw [Hl Hs]]. destruct e; simpl in *.
  - split; [now apply winv_env|]. split; [|exact Hs].
    intro Hcomp. destruct (Hl Hcomp) as [Hd Hsz]. unfold m_remote_out in *. simpl.
    destruct e; simpl in *.
    + destruct (w_file (m_remote s)) eqn:E; simpl; [now split|]. split; [exact Hd|].
      rewrite Hsz. unfold w_output. simpl. now rewrite E.
    + rewrite Hd in Hc. discriminate.
    + rewrite Hd in Hc. destruct (results_done state) eqn:E; [|discriminate]. now split.
    + now split.
  - case_eq (m_mode s); [intros Em|intros start ph Em|intros Em]; try exact H;
      (split; [exact Hw|]; split; [|simpl; discriminate]; intro Hcomp; simpl in Hcomp;
       split; [now apply is_complete_done|apply Hw; now apply is_complete_done]).
  - case_eq (m_mode s); [intros Em|intros start ph Em|intros Em]; try exact H.
    destruct (is_complete (m_lstate s) && (m_lsize s <=? rlen (m_local s))) eqn:E1; simpl.
    + split; [exact Hw|]. split; [exact Hl|]. intros _.
      apply andb_true_iff in E1 as [E1 E2]. apply N.leb_le in E2. now split.
    + destruct (rlen (m_local s) <? m_lsize s); simpl.
      * split; [exact Hw|]. split; [exact Hl|discriminate].
      * exact H.
  - case_eq (m_mode s); [intros Em|intros start ph Em|intros Em]; try exact H.
    destruct (reader_step results_done start (m_remote s) ph n) as [ph' c]. simpl.
    split; [exact Hw|]. split; [exact Hl|]. destruct ph'; simpl; discriminate.
  - case_eq (m_mode s); [intros Em|intros start ph Em|intros Em]; try exact H.
    split; [exact Hw|]. split; [exact Hl|simpl; discriminate].
Qed.

Lemma minv2_0 : minv2 mstate0.
Proof.
  split; [apply winv0; reflexivity|]. split; [discriminate|discriminate].
Qed.

Fixpoint mcontract_from (s : mstate) (tr : list mev) : bool :=
  match tr with
  | [] => true
  | e :: r => mcstep s e && mcontract_from (mstep s e) r
  end.

Lemma mstep_remote s e :
  m_remote (mstep s e) = match e with MEnv ev => env_step (m_remote s) ev | _ => m_remote s end.
Proof.
  destruct e; simpl; try reflexivity.
  - now destruct (m_mode s).
  - destruct (m_mode s); try reflexivity.
    destruct (is_complete (m_lstate s) && (m_lsize s <=? rlen (m_local s)));
      [|destruct (rlen (m_local s) <? m_lsize s)]; reflexivity.
  - destruct (m_mode s); try reflexivity.
    now destruct (reader_step results_done start (m_remote s) ph n).
  - now destruct (m_mode s).
Qed.

(* the contract of the remote producer, read off the mirror trace *)
Lemma mcontract_menv tr : forall s,
  contract_from results_done (m_remote s) (menv tr) = mcontract_from s tr.
Proof.
  induction tr as [|e r IH]; intro s; [reflexivity|].
  simpl mcontract_from. rewrite <- IH, mstep_remote.
  destruct e; simpl; try reflexivity.
Qed.

Lemma mrun_minv2 tr : forall s,
  mcontract_from s tr = true -> minv2 s -> minv2 (mrun_from s tr).
Proof.
  induction tr as [|e r IH]; intros s Hc H; [exact H|].
  simpl in Hc. apply andb_true_iff in Hc as [Hc1 Hc2]. simpl. apply IH; [exact Hc2|].
  now apply minv2_step.
Qed.

(* whenever the stdout monitor has returned, the local output is the complete remote output *)
Lemma stopped_equal s : minv s -> minv2 s -> m_mode s = MStopped ->
  m_local s = m_remote_out s /\ results_done (w_state (m_remote s)) = true.
Proof.
  intros [Hp _] [_ [Hl Hs]] Hm. destruct (Hs Hm) as [Hc Hle]. destruct (Hl Hc) as [Hd Hsz].
  split; [|exact Hd]. rewrite Hp. apply firstn_all2. unfold rlen in *. lia.
Qed.

Theorem mirror_stopped_thm : forall tr,
  contract (menv tr) = true -> m_mode (mrun tr) = MStopped ->
  m_local (mrun tr) = m_remote_out (mrun tr) /\
  results_done (w_state (m_remote (mrun tr))) = true.
Proof.
  intros tr Hc Hm. unfold contract in Hc. change world0 with (m_remote mstate0) in Hc.
  rewrite mcontract_menv in Hc.
  apply stopped_equal; [apply mrun_minv, minv0|apply mrun_minv2; [exact Hc|exact minv2_0]|exact Hm].
Qed.

(* ---------- convergence once nothing breaks ---------- *)

Lemma mrun_from_cons s e r : mrun_from s (e :: r) = mrun_from (mstep s e) r.
Proof. reflexivity. Qed.

Lemma polls_noop polls : forall s,
  (forall start ph, m_mode s <> MStream start ph) -> mrun_from s (map MPoll polls) = s.
Proof.
  induction polls as [|n r IH]; intros s H; [reflexivity|].
  change (map MPoll (n :: r)) with (MPoll n :: map MPoll r). rewrite mrun_from_cons.
  assert (E : mstep s (MPoll n) = s).
  { simpl. destruct (m_mode s) eqn:Em; try reflexivity. exfalso. now apply (H start ph). }
  rewrite E. now apply IH.
Qed.

Lemma stream_runs_out : forall polls s start ph,
  m_mode s = MStream start ph -> minv s -> winv results_done (m_remote s) ->
  results_done (w_state (m_remote s)) = true ->
  (measure (m_remote s) ph <= length polls)%nat ->
  let s' := mrun_from s (map MPoll polls) in
  m_mode s' = MIdle /\ m_local s' = m_remote_out s' /\ m_remote s' = m_remote s /\
  m_lstate s' = m_lstate s /\ m_lsize s' = m_lsize s.
Proof.
  induction polls as [|n r IH]; intros s start ph Hm Hi Hw Hd Hl.
  - exfalso. destruct Hi as [_ Hi]. rewrite Hm in Hi.
    destruct ph; simpl in *; try lia; try discriminate.
    destruct (rlen (w_output (m_remote s)) <=? pos); lia.
  - pose proof (minv_step s (MPoll n) Hi) as Hi1.
    pose proof (poll_decreases results_done start (m_remote s) ph n Hw Hd) as Hdec.
    change (map MPoll (n :: r)) with (MPoll n :: map MPoll r). rewrite mrun_from_cons.
    remember (mstep s (MPoll n)) as s1 eqn:Es1.
    assert (Hs1 : s1 = let '(ph', c) := reader_step results_done start (m_remote s) ph n in
                       mkM (m_remote s) (m_lstate s) (m_lsize s) (m_local s ++ c)
                           (match ph' with RDone => MIdle | _ => MStream start ph' end)).
    { rewrite Es1. simpl. now rewrite Hm. }
    destruct (reader_step results_done start (m_remote s) ph n) as [ph' c] eqn:Er.
    simpl fst in Hdec.
    assert (Hph : ph <> RDone).
    { intro E. destruct Hi as [_ Hi]. rewrite Hm, E in Hi. discriminate. }
    specialize (Hdec Hph).
    destruct ph' as [|pos'|pos'|].
    4: { (* the stream ends *)
      assert (Heq : m_local s1 = m_remote_out s1).
      { destruct Hi as [Hp Hpos]. rewrite Hm in Hpos. rewrite Hs1. unfold m_remote_out. simpl.
        destruct ph as [|pos|pos|]; simpl in Er.
        - destruct (w_file (m_remote s)) eqn:Ef; [discriminate|].
          destruct (results_done (w_state (m_remote s))); inversion Er; subst.
          rewrite app_nil_r. unfold m_remote_out, w_output in *. rewrite Ef in *.
          rewrite Hp. now rewrite firstn_nil.
        - destruct (slice (w_output (m_remote s)) pos (chunk n)); discriminate.
        - rewrite Hd in Er. simpl in Er.
          destruct (w_size (m_remote s) <=? pos) eqn:El; inversion Er; subst.
          rewrite app_nil_r. rewrite Hp. apply firstn_all2.
          specialize (Hw Hd). simpl in Hpos. inversion Hpos; subst.
          unfold m_remote_out, rlen in *. lia.
        - congruence. }
      rewrite polls_noop by (rewrite Hs1; simpl; discriminate).
      rewrite Hs1 in *. simpl in *. repeat split; auto. }
    all: (assert (Hm1 : m_mode s1 = MStream start _) by (rewrite Hs1; reflexivity);
          assert (Hr1 : m_remote s1 = m_remote s) by (rewrite Hs1; reflexivity);
          specialize (IH s1 start _ Hm1 Hi1);
          rewrite Hr1 in IH; specialize (IH Hw Hd);
          simpl length in Hl;
          specialize (IH ltac:(lia));
          destruct IH as [I1 [I2 [I3 [I4 I5]]]];
          repeat split; auto; [rewrite I4, Hs1|rewrite I5, Hs1]; reflexivity).
Qed.

Lemma msync_idle s : m_mode s = MIdle ->
  mstep s MSync = mkM (m_remote s) (w_state (m_remote s)) (w_size (m_remote s)) (m_local s) MIdle.
Proof. intro H. simpl. now rewrite H. Qed.

Lemma mloop_idle s : m_mode s = MIdle ->
  mstep s MLoop =
  if is_complete (m_lstate s) && (m_lsize s <=? rlen (m_local s))
  then mkM (m_remote s) (m_lstate s) (m_lsize s) (m_local s) MStopped
  else if rlen (m_local s) <? m_lsize s
       then mkM (m_remote s) (m_lstate s) (m_lsize s) (m_local s) (MStream (rlen (m_local s)) RWait)
       else s.
Proof. intro H. simpl. now rewrite H. Qed.

Lemma mrun_from_app s t1 t2 : mrun_from s (t1 ++ t2) = mrun_from (mrun_from s t1) t2.
Proof. apply fold_left_app. Qed.

Lemma repeat_map_poll k : repeat (MPoll 65536) k = map MPoll (repeat 65536%N k).
Proof. induction k; simpl; congruence. Qed.

Lemma settle_converges s k :
  minv s -> minv2 s ->
  is_complete (w_state (m_remote s)) = true ->
  (length (m_remote_out s) + 4 <= k)%nat ->
  let s' := mrun_from s (settle k) in
  m_mode s' = MStopped /\ m_local s' = m_remote_out s' /\ m_remote s' = m_remote s.
Proof.
  intros Hi Hi2 Hc Hk. pose proof (is_complete_done _ Hc) as Hd.
  destruct Hi2 as [Hw [Hl Hs]].
  assert (Hmeas : forall ph, (measure (m_remote s) ph <= length (repeat 65536%N k))%nat).
  { intro ph. rewrite repeat_length. unfold m_remote_out in Hk.
    destruct ph; simpl; try lia. destruct (rlen _ <=? pos); lia. }
  unfold settle. rewrite !mrun_from_app, !repeat_map_poll.
  (* phase 1: an open stream runs out *)
  set (s1 := mrun_from s (map MPoll (repeat 65536%N k))).
  assert (H1 : m_remote s1 = m_remote s /\ minv s1 /\
               (m_mode s1 = MStopped /\ m_lstate s1 = m_lstate s /\ m_lsize s1 = m_lsize s
                                      /\ m_local s1 = m_local s /\ m_mode s = MStopped
                \/ m_mode s1 = MIdle)).
  { destruct (m_mode s) as [|start ph|] eqn:Em.
    - unfold s1. rewrite polls_noop by (rewrite Em; discriminate). auto.
    - pose proof (stream_runs_out (repeat 65536%N k) s start ph Em Hi Hw Hd (Hmeas ph))
        as [A [B [C [D E]]]].
      split; [exact C|]. split; [apply mrun_minv; exact Hi|]. right. exact A.
    - unfold s1. rewrite polls_noop by (rewrite Em; discriminate). split; [reflexivity|].
      split; [exact Hi|]. left. auto. }
  destruct H1 as [Hr1 [Hi1 Hcase]].
  destruct Hcase as [[Hm1 [Hls1 [Hlz1 [Hlo1 Hm0]]]]|Hm1].
  - (* already stopped: nothing moves *)
    assert (E2 : mrun_from s1 [MSync; MLoop] = s1) by (simpl; rewrite Hm1; simpl; now rewrite Hm1).
    rewrite E2. rewrite polls_noop by (rewrite Hm1; discriminate).
    assert (E3 : mrun_from s1 [MLoop] = s1) by (simpl; now rewrite Hm1).
    rewrite E3. split; [exact Hm1|]. split; [|exact Hr1].
    destruct (Hs Hm0) as [Hc0 Hle]. destruct (Hl Hc0) as [_ Hsz].
    destruct Hi1 as [Hp _]. rewrite Hp. apply firstn_all2.
    unfold m_remote_out in *. rewrite Hr1, Hlo1. unfold rlen in *. lia.
  - (* phase 2: copy the status, look *)
    assert (Hsz : w_size (m_remote s) = rlen (w_output (m_remote s))) by (apply Hw; exact Hd).
    set (s1a := mkM (m_remote s1) (w_state (m_remote s1)) (w_size (m_remote s1)) (m_local s1) MIdle).
    assert (E2 : mrun_from s1 [MSync; MLoop] = mstep s1a MLoop).
    { change (mrun_from s1 [MSync; MLoop]) with (mstep (mstep s1 MSync) MLoop).
      now rewrite (msync_idle s1 Hm1). }
    rewrite E2. rewrite (mloop_idle s1a eq_refl). cbn [s1a m_lstate m_lsize m_local m_remote].
    rewrite Hr1, Hc. cbn [andb].
    destruct (w_size (m_remote s) <=? rlen (m_local s1)) eqn:E.
    + (* everything is there already *)
      rewrite polls_noop by (simpl; discriminate).
      change (mrun_from ?x [MLoop]) with (mstep x MLoop). cbn [mstep m_mode].
      split; [reflexivity|]. split; [|reflexivity].
      cbn [m_local]. unfold m_remote_out. cbn [m_remote].
      destruct Hi1 as [Hp _]. rewrite Hp. unfold m_remote_out. rewrite Hr1.
      apply firstn_all2. apply N.leb_le in E. unfold rlen in *. lia.
    + assert (E' : (rlen (m_local s1) <? w_size (m_remote s)) = true)
        by (apply N.ltb_lt; apply N.leb_gt in E; exact E).
      rewrite E'.
      set (s2 := mkM (m_remote s) (w_state (m_remote s)) (w_size (m_remote s)) (m_local s1)
                     (MStream (rlen (m_local s1)) RWait)).
      assert (Hi2 : minv s2).
      { destruct Hi1 as [Hp _]. split; [|reflexivity].
        unfold s2, m_remote_out in *. cbn [m_local m_remote]. rewrite Hr1 in Hp. exact Hp. }
      (* phase 3: the new stream runs out; phase 4: look again *)
      pose proof (stream_runs_out (repeat 65536%N k) s2 _ _ eq_refl Hi2 Hw Hd (Hmeas RWait))
        as [A [B [C [D E0]]]].
      set (s3 := mrun_from s2 (map MPoll (repeat 65536%N k))) in *.
      change (mrun_from s3 [MLoop]) with (mstep s3 MLoop).
      rewrite (mloop_idle s3 A). rewrite D, E0. cbn [s2 m_lstate m_lsize]. rewrite Hc. cbn [andb].
      assert (Hle : (w_size (m_remote s) <=? rlen (m_local s3)) = true).
      { apply N.leb_le. rewrite B. unfold m_remote_out. rewrite C. cbn [s2 m_remote]. rewrite Hsz. lia. }
      rewrite Hle. cbn [m_mode m_local m_remote]. split; [reflexivity|]. split; [|exact C].
      unfold m_remote_out in *. cbn [m_remote]. exact B.
Qed.

Theorem mirror_converges_thm : forall tr k,
  contract (menv tr) = true ->
  is_complete (w_state (m_remote (mrun tr))) = true ->
  (length (m_remote_out (mrun tr)) + 4 <= k)%nat ->
  let s' := mrun_from (mrun tr) (settle k) in
  m_mode s' = MStopped /\ m_local s' = m_remote_out s' /\ m_remote_out s' = m_remote_out (mrun tr).
Proof.
  intros tr k Hc Hcomp Hk. unfold contract in Hc. change world0 with (m_remote mstate0) in Hc.
  rewrite mcontract_menv in Hc.
  pose proof (mrun_minv tr mstate0 minv0) as Hi.
  pose proof (mrun_minv2 tr mstate0 Hc minv2_0) as Hi2.
  destruct (settle_converges (mrun tr) k Hi Hi2 Hcomp Hk) as [A [B C]].
  split; [exact A|]. split; [exact B|]. unfold m_remote_out. now rewrite C.
Qed.

(* a mirror that has converged stays converged whatever happens next, breaks included *)
Lemma stopped_stays s e : m_mode s = MStopped ->
  m_mode (mstep s e) = MStopped /\ m_local (mstep s e) = m_local s.
Proof.
  intro H. destruct e; simpl; rewrite ?H; simpl; rewrite ?H; auto.
Qed.

Theorem mirror_stable_thm : forall tr tr',
  m_mode (mrun tr) = MStopped ->
  m_mode (mrun (tr ++ tr')) = MStopped /\ m_local (mrun (tr ++ tr')) = m_local (mrun tr).
Proof.
  intros tr tr'. unfold mrun. rewrite mrun_from_app. generalize (mrun_from mstate0 tr).
  induction tr' as [|e r IH]; intros s H; [auto|]. simpl.
  destruct (stopped_stays s e H) as [H1 H2]. destruct (IH _ H1) as [H3 H4].
  split; [exact H3|]. now rewrite H4.
Qed.

(* ---------- non-vacuity: a transfer that is cut twice ---------- *)
Definition mirror_example : list mev :=
  [MEnv ECreate; MEnv (EAppend [1; 2; 3; 4]); MEnv (ESetStatus ST_RUNNING 4); MSync; MLoop;
   MPoll 1; MPoll 2; MBreak; MLoop; MPoll 65536; MPoll 1; MEnv (EAppend [5; 6]); MPoll 1; MPoll 1; MBreak;
   MEnv (ESetStatus ST_SUCCEEDED 6)].

Lemma mirror_example_ok :
  contract (menv mirror_example) = true /\
  m_local (mrun mirror_example) = [1; 2; 3; 4; 5] /\
  m_local (mrun (mirror_example ++ settle 10)) = [1; 2; 3; 4; 5; 6] /\
  m_mode (mrun (mirror_example ++ settle 10)) = MStopped.
Proof. repeat split; reflexivity. Qed.

(* ---------- convergence for a cancelled remote unit ----------
   IsComplete does not cover Canceled: the stdout monitor never returns for a cancelled remote
   unit, it keeps looking once a second — but it fetches everything: the results stream of a
   cancelled unit ends (repaired GetResults), the status copy carries the final size, and the
   next look asks for what is missing. *)
Lemma settle_converges_done s k :
  minv s -> minv2 s ->
  results_done (w_state (m_remote s)) = true -> is_complete (w_state (m_remote s)) = false ->
  (length (m_remote_out s) + 4 <= k)%nat ->
  let s' := mrun_from s (settle k) in
  (m_mode s' = MIdle \/ m_mode s' = MStopped) /\ m_local s' = m_remote_out s' /\ m_remote s' = m_remote s.
Proof.
  intros Hi Hi2 Hd Hc Hk.
  destruct Hi2 as [Hw [Hl Hs]].
  assert (Hmeas : forall ph, (measure (m_remote s) ph <= length (repeat 65536%N k))%nat).
  { intro ph. rewrite repeat_length. unfold m_remote_out in Hk.
    destruct ph; simpl; try lia. destruct (rlen _ <=? pos); lia. }
  unfold settle. rewrite !mrun_from_app, !repeat_map_poll.
  set (s1 := mrun_from s (map MPoll (repeat 65536%N k))).
  assert (H1 : m_remote s1 = m_remote s /\ minv s1 /\
               (m_mode s1 = MStopped /\ m_lstate s1 = m_lstate s /\ m_lsize s1 = m_lsize s
                                      /\ m_local s1 = m_local s /\ m_mode s = MStopped
                \/ m_mode s1 = MIdle)).
  { destruct (m_mode s) as [|start ph|] eqn:Em.
    - unfold s1. rewrite polls_noop by (rewrite Em; discriminate). auto.
    - pose proof (stream_runs_out (repeat 65536%N k) s start ph Em Hi Hw Hd (Hmeas ph))
        as [A [B [C [D E]]]].
      split; [exact C|]. split; [apply mrun_minv; exact Hi|]. right. exact A.
    - unfold s1. rewrite polls_noop by (rewrite Em; discriminate). split; [reflexivity|].
      split; [exact Hi|]. left. auto. }
  destruct H1 as [Hr1 [Hi1 Hcase]].
  destruct Hcase as [[Hm1 [Hls1 [Hlz1 [Hlo1 Hm0]]]]|Hm1].
  - assert (E2 : mrun_from s1 [MSync; MLoop] = s1) by (simpl; rewrite Hm1; simpl; now rewrite Hm1).
    rewrite E2. rewrite polls_noop by (rewrite Hm1; discriminate).
    assert (E3 : mrun_from s1 [MLoop] = s1) by (simpl; now rewrite Hm1).
    rewrite E3. split; [now right|]. split; [|exact Hr1].
    destruct (Hs Hm0) as [Hc0 Hle]. destruct (Hl Hc0) as [_ Hsz].
    destruct Hi1 as [Hp _]. rewrite Hp. apply firstn_all2.
    unfold m_remote_out in *. rewrite Hr1, Hlo1. unfold rlen in *. lia.
  - assert (Hsz : w_size (m_remote s) = rlen (w_output (m_remote s))) by (apply Hw; exact Hd).
    set (s1a := mkM (m_remote s1) (w_state (m_remote s1)) (w_size (m_remote s1)) (m_local s1) MIdle).
    assert (E2 : mrun_from s1 [MSync; MLoop] = mstep s1a MLoop).
    { change (mrun_from s1 [MSync; MLoop]) with (mstep (mstep s1 MSync) MLoop).
      now rewrite (msync_idle s1 Hm1). }
    rewrite E2. rewrite (mloop_idle s1a eq_refl). cbn [s1a m_lstate m_lsize m_local m_remote].
    rewrite Hr1, Hc. cbn [andb].
    destruct (rlen (m_local s1) <? w_size (m_remote s)) eqn:E.
    + set (s2 := mkM (m_remote s) (w_state (m_remote s)) (w_size (m_remote s)) (m_local s1)
                     (MStream (rlen (m_local s1)) RWait)).
      assert (Hi2 : minv s2).
      { destruct Hi1 as [Hp _]. split; [|reflexivity].
        unfold s2, m_remote_out in *. cbn [m_local m_remote]. rewrite Hr1 in Hp. exact Hp. }
      pose proof (stream_runs_out (repeat 65536%N k) s2 _ _ eq_refl Hi2 Hw Hd (Hmeas RWait))
        as [A [B [C [D E0]]]].
      set (s3 := mrun_from s2 (map MPoll (repeat 65536%N k))) in *.
      change (mrun_from s3 [MLoop]) with (mstep s3 MLoop).
      rewrite (mloop_idle s3 A). rewrite D, E0. cbn [s2 m_lstate m_lsize]. rewrite Hc. cbn [andb].
      assert (Hnl : (rlen (m_local s3) <? w_size (m_remote s)) = false).
      { apply N.ltb_ge. rewrite B. unfold m_remote_out. rewrite C. cbn [s2 m_remote]. rewrite Hsz. lia. }
      rewrite Hnl. split; [now left|]. split; [exact B|exact C].
    + (* nothing is missing *)
      fold s1a. rewrite polls_noop by (simpl; discriminate).
      change (mrun_from s1a [MLoop]) with (mstep s1a MLoop).
      rewrite (mloop_idle s1a eq_refl). cbn [s1a m_lstate m_lsize m_local m_remote].
      rewrite Hr1, Hc, E. cbn [andb]. fold s1a.
      split; [now left|]. split; [|exact Hr1].
      unfold s1a, m_remote_out. cbn [m_local m_remote].
      destruct Hi1 as [Hp _]. rewrite Hp. unfold m_remote_out. rewrite Hr1.
      apply firstn_all2. apply N.ltb_ge in E. unfold rlen in *. lia.
Qed.

(* mirror_converges for every final state of the remote unit, Canceled included: once nothing
   breaks any more the local output becomes equal to the remote output; the stdout monitor has
   returned exactly if the state is one that IsComplete covers *)
Theorem mirror_converges_done_thm : forall tr k,
  contract (menv tr) = true ->
  results_done (w_state (m_remote (mrun tr))) = true ->
  (length (m_remote_out (mrun tr)) + 4 <= k)%nat ->
  let s' := mrun_from (mrun tr) (settle k) in
  m_local s' = m_remote_out s' /\ m_remote_out s' = m_remote_out (mrun tr) /\
  (forall start ph, m_mode s' <> MStream start ph) /\
  (is_complete (w_state (m_remote (mrun tr))) = true -> m_mode s' = MStopped).
Proof.
  intros tr k Hc Hd Hk. unfold contract in Hc. change world0 with (m_remote mstate0) in Hc.
  rewrite mcontract_menv in Hc.
  pose proof (mrun_minv tr mstate0 minv0) as Hi.
  pose proof (mrun_minv2 tr mstate0 Hc minv2_0) as Hi2.
  destruct (is_complete (w_state (m_remote (mrun tr)))) eqn:Ec.
  - destruct (settle_converges (mrun tr) k Hi Hi2 Ec Hk) as [A [B C]].
    split; [exact B|]. split; [unfold m_remote_out; now rewrite C|]. split; [|auto].
    intros start ph. rewrite A. discriminate.
  - destruct (settle_converges_done (mrun tr) k Hi Hi2 Hd Ec Hk) as [A [B C]].
    split; [exact B|]. split; [unfold m_remote_out; now rewrite C|]. split; [|discriminate].
    intros start ph. destruct A as [A|A]; rewrite A; discriminate.
Qed.

(* ---------- the header line, for every chunking ---------- *)
Lemma split_nl_some c a rest : split_nl c = Some (a, rest) -> c = a ++ 10 :: rest /\ no_nl a = true.
Proof.
  revert a rest; induction c as [|b r IH]; intros a rest H; simpl in H; [discriminate|].
  destruct (b =? 10) eqn:E.
  - inversion H; subst. apply N.eqb_eq in E. subst b. now split.
  - destruct (split_nl r) as [[a' rest']|] eqn:Es; [|discriminate]. inversion H; subst.
    destruct (IH a' rest eq_refl) as [-> Hn]. split; [reflexivity|]. simpl. now rewrite E.
Qed.

Lemma split_nl_none c : split_nl c = None -> no_nl c = true.
Proof.
  induction c as [|b r IH]; intro H; [reflexivity|]. simpl in H. simpl.
  destruct (b =? 10); [discriminate|]. destruct (split_nl r) as [[a rest]|]; [discriminate|].
  now rewrite IH.
Qed.

(* the first newline of a text is where it is *)
Lemma first_nl_unique a : forall b x y,
  no_nl a = true -> no_nl b = true -> a ++ 10 :: x = b ++ 10 :: y -> a = b /\ x = y.
Proof.
  induction a as [|k a IH]; intros [|j b] x y Ha Hb H; simpl in *.
  - inversion H. now split.
  - inversion H; subst j. simpl in Hb. discriminate.
  - inversion H; subst k. simpl in Ha. discriminate.
  - inversion H; subst j. apply andb_true_iff in Ha as [_ Ha]. apply andb_true_iff in Hb as [_ Hb].
    destruct (IH b x y Ha Hb H2) as [-> ->]. now split.
Qed.

Lemma nl_free_prefix c : forall h x y,
  no_nl c = true -> no_nl h = true -> c ++ x = h ++ 10 :: y ->
  exists h', h = c ++ h' /\ x = h' ++ 10 :: y.
Proof.
  induction c as [|k c IH]; intros h x y Hc Hh H; simpl in *.
  - exists h. now split.
  - destruct h as [|j h]; simpl in H.
    + inversion H; subst k. discriminate.
    + inversion H; subst j. apply andb_true_iff in Hc as [_ Hc]. simpl in Hh.
      apply andb_true_iff in Hh as [_ Hh].
      destruct (IH h x y Hc Hh H2) as [h' [-> ->]]. now exists h'.
Qed.

Lemma no_nl_app a b : no_nl (a ++ b) = no_nl a && no_nl b.
Proof. unfold no_nl. apply forallb_app. Qed.

Lemma read_line_spec reads : forall acc hdr body,
  no_nl hdr = true -> concat reads = hdr ++ 10 :: body ->
  exists buffered r, read_line acc reads = Some (acc ++ hdr ++ [10], buffered, r) /\
                     buffered ++ concat r = body.
Proof.
  induction reads as [|c r IH]; intros acc hdr body Hh Hc; simpl in Hc.
  - destruct hdr; discriminate.
  - simpl. destruct (split_nl c) as [[a rest]|] eqn:Es.
    + destruct (split_nl_some _ _ _ Es) as [-> Ha]. rewrite <- app_assoc in Hc. simpl in Hc.
      destruct (first_nl_unique a hdr _ _ Ha Hh Hc) as [-> Hb].
      exists rest, r. split; [reflexivity|exact Hb].
    + pose proof (split_nl_none _ Es) as Hn.
      destruct (nl_free_prefix c hdr _ _ Hn Hh Hc) as [h' [-> Hx]].
      rewrite no_nl_app in Hh. apply andb_true_iff in Hh as [_ Hh'].
      destruct (IH (acc ++ c) h' body Hh' Hx) as [bf [r' [E B]]].
      exists bf, r'. split; [|exact B]. rewrite E. now rewrite <- !app_assoc.
Qed.

(* mirror_header_any_chunking: however the connection cuts header and output into reads — the
   header split at any position, its end in one read with the first output bytes, the output in any
   pieces — the mirror takes exactly the header line and appends exactly what follows it *)
Theorem mirror_header_any_chunking_thm : forall reads hdr body,
  no_nl hdr = true -> concat reads = hdr ++ 10 :: body ->
  client_mirror reads = Some (hdr ++ [10], body).
Proof.
  intros reads hdr body Hh Hc. unfold client_mirror.
  destruct (read_line_spec reads [] hdr body Hh Hc) as [bf [r [E B]]]. rewrite E. simpl. now rewrite B.
Qed.

(* copying from the connection instead of the reader loses what arrived in the read that ended
   the header line *)
Theorem mirror_raw_copy_refuted_thm :
  let reads := [[83; 116]; [114; 10; 1; 2]; [3]] in
  client_mirror reads = Some ([83; 116; 114; 10], [1; 2; 3]) /\
  client_mirror_raw reads = Some ([83; 116; 114; 10], [3]).
Proof. split; reflexivity. Qed.
