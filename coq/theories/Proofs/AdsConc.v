(* Proofs/AdsConc.v — the atomic handler is decide-then-apply on the same state; separated, an older
   advertisement replaces a newer one and both are relayed. *)
From Receptor Require Import Model.AdsConc.
Open Scope N_scope.

Lemma handle_ad_is_decide_apply st a recv :
  handle_ad st a recv = handle_split st st a recv.
Proof.
  unfold handle_ad, handle_split, decide, apply_ad.
  destruct (match get2 (a_node a) (a_svc a) (as_ads st) with Some (t, _) => negb (t <? a_time a) | None => false end);
    [reflexivity|].
  destruct (match get2 (a_node a) (a_svc a) (as_tomb st) with Some t => negb (t <? a_time a) | None => false end);
    reflexivity.
Qed.

From Coq Require Import Permutation.

(* two threads, both look at the empty table, then the newer one applies and the older one applies after
   it: the older advertisement ends up listed and both are relayed *)
Definition ex_new : ad := {| a_node := 5; a_svc := 1; a_time := 9; a_cancel := false; a_body := 2 |}.
Definition ex_old : ad := {| a_node := 5; a_svc := 1; a_time := 4; a_cancel := false; a_body := 1 |}.
Lemma split_handler_older_replaces_newer :
  let st0 := ads_init [2; 3] in
  let '(st1, r1) := handle_split st0 st0 ex_new 2 in
  let '(st2, r2) := handle_split st0 st1 ex_old 3 in
  listed st1 5 1 = Some (9, 2) /\ listed st2 5 1 = Some (4, 1) /\ r2 <> [].
Proof. vm_compute. repeat split; try reflexivity. discriminate. Qed.

(* the atomic handler in the same order keeps the newer one and relays only it *)
Lemma atomic_handler_keeps_newer :
  let st0 := ads_init [2; 3] in
  let '(st1, r1) := handle_ad st0 ex_new 2 in
  let '(st2, r2) := handle_ad st1 ex_old 3 in
  listed st2 5 1 = Some (9, 2) /\ r2 = [].
Proof. vm_compute. split; reflexivity. Qed.

(* what the harness's check means: the observation equals the model's result for SOME order of the batch *)
Definition explains (c : conc_ads_case) (p : list (ad * node)) : bool :=
  let st0 := run_ads handle_ad (ads_init (ca_conns c)) (ca_pre c) in
  let '(st, rel) := run_collect st0 p in
  beq_ads (as_ads st) (ca_ads c) && rel_meq rel (ca_relays c).

Lemma conc_ads_check_exact c :
  conc_ads_check c = true <-> exists p, Permutation (ca_batch c) p /\ explains c p = true.
Proof.
  unfold conc_ads_check, explains. rewrite existsb_exists. split.
  - intros (p & Hp & H). exists p. split; [now apply perms_sound|exact H].
  - intros (p & Hp & H). exists p. split; [now apply perms_complete|exact H].
Qed.
