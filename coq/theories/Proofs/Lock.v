(* Proofs/Lock.v — linearizability of the status-file protocol of Model/Lock.v (C14):
   for every schedule, the concurrent execution with the lock equals the execution of the same
   operations one at a time in lock-acquisition order; without the lock it does not. *)
From Coq Require Import ZArith Lia ZifyN ZifyNat ZifyBool PeanoNat.
From Receptor Require Import Model.Lock.

(* ---------- lists: replace the n-th element ---------- *)

Lemma upd_length {A} n (x : A) l : length (upd n x l) = length l.
Proof. revert n; induction l as [|h t IH]; intros [|n]; simpl; auto. Qed.

Lemma nth_error_upd_eq {A} n (x : A) l : (n < length l)%nat -> nth_error (upd n x l) n = Some x.
Proof.
  revert n; induction l as [|h t IH]; intros [|n] H; simpl in *; try lia; auto.
  apply IH; lia.
Qed.

Lemma nth_error_upd_neq {A} n m (x : A) l : n <> m -> nth_error (upd n x l) m = nth_error l m.
Proof.
  revert n m; induction l as [|h t IH]; intros [|n] [|m] H; simpl; auto; try congruence.
Qed.

Lemma map_upd {A B} (f : A -> B) n x l : map f (upd n x l) = upd n (f x) (map f l).
Proof. revert n; induction l as [|h t IH]; intros [|n]; simpl; auto. now rewrite IH. Qed.

Lemma upd_upd {A} n (x y : A) l : upd n y (upd n x l) = upd n y l.
Proof. revert n; induction l as [|h t IH]; intros [|n]; simpl; auto. now rewrite IH. Qed.

Lemma upd_same {A} n (x : A) l : nth_error l n = Some x -> upd n x l = l.
Proof.
  revert n; induction l as [|h t IH]; intros [|n] H; simpl in *; try discriminate; auto.
  - now inversion H.
  - now rewrite IH.
Qed.

Lemma nth_error_lt {A} (l : list A) n x : nth_error l n = Some x -> (n < length l)%nat.
Proof. intro H. apply nth_error_Some. congruence. Qed.

Section LockProofs.
Variable R : Type.
Notation conf := (conf R).
Notation astate := (astate R).

Definition mems (c : conf) : list R := map p_mem (c_procs c).

(* ---------- the specification side ---------- *)

Lemma atomic_op_length (a : astate) po : length (a_mems (atomic_op a po)) = length (a_mems a).
Proof.
  unfold atomic_op. destruct (nth_error (a_mems a) (fst po)); auto.
  destruct (snd po); simpl; auto; now rewrite upd_length.
Qed.

Lemma atomic_run_length (a : astate) l : length (a_mems (atomic_run a l)) = length (a_mems a).
Proof.
  unfold atomic_run. revert a; induction l as [|po l IH]; intro a; simpl; auto.
  rewrite IH. apply atomic_op_length.
Qed.

Lemma atomic_run_snoc (a : astate) l po : atomic_run a (l ++ [po]) = atomic_op (atomic_run a l) po.
Proof. unfold atomic_run. now rewrite fold_left_app. Qed.

(* ---------- the invariant ---------- *)

(* process [p] is inside operation [o]; [a] is the state after the operations committed before,
   [m] the record [p] owned then, [mp] the one it owns now *)
Definition inflight (a : astate) (p : nat) (o : op R) (ph : phase R) (m mp : R) (c : conf) : Prop :=
  let m' := read_into (a_file a) m in
  let rd := a_reads a ++ [(p, a_file a)] in
  match ph, o with
  | ULocked f, OUpd g | UOpened f, OUpd g =>
      f = g /\ c_file c = a_file a /\ mp = m /\ c_reads c = a_reads a
  | UReadDone f, OUpd g => f = g /\ c_file c = a_file a /\ mp = m' /\ c_reads c = rd
  | UApplied f, OUpd g => f = g /\ c_file c = a_file a /\ mp = f m' /\ c_reads c = rd
  | UTrunced f, OUpd g => f = g /\ c_file c = FEmpty /\ mp = f m' /\ c_reads c = rd
  | UWritten f, OUpd g => f = g /\ c_file c = FRec (f m') /\ mp = f m' /\ c_reads c = rd
  | LLocked, OLoad | LOpened, OLoad => c_file c = a_file a /\ mp = m /\ c_reads c = a_reads a
  | LReadDone, OLoad => c_file c = a_file a /\ mp = m' /\ c_reads c = rd
  | SvLocked, OSave => c_file c = a_file a /\ mp = m /\ c_reads c = a_reads a
  | SvTrunced, OSave => c_file c = FEmpty /\ mp = m /\ c_reads c = a_reads a
  | SvWritten, OSave => c_file c = FRec m /\ mp = m /\ c_reads c = a_reads a
  | _, _ => False
  end.

Definition Inv (a0 : astate) (c : conf) : Prop :=
  length (c_procs c) = length (a_mems a0) /\
  Forall (fun po => (fst po < length (a_mems a0))%nat) (c_order c) /\
  match c_lock c with
  | None =>
      (forall q pr, nth_error (c_procs c) q = Some pr -> p_phase pr = Idle) /\
      c_file c = a_file (atomic_run a0 (c_order c)) /\
      mems c = a_mems (atomic_run a0 (c_order c)) /\
      c_reads c = a_reads (atomic_run a0 (c_order c))
  | Some p =>
      exists ord' o pr m,
        c_order c = ord' ++ [(p, o)] /\
        nth_error (c_procs c) p = Some pr /\
        (forall q prq, nth_error (c_procs c) q = Some prq -> q <> p -> p_phase prq = Idle) /\
        nth_error (a_mems (atomic_run a0 ord')) p = Some m /\
        mems c = upd p (p_mem pr) (a_mems (atomic_run a0 ord')) /\
        inflight (atomic_run a0 ord') p o (p_phase pr) m (p_mem pr) c
  end.

Lemma inv_init (file0 : fcontent R) (progs : list (list (op R) * R)) : Inv (a_init file0 progs) (init file0 progs).
Proof.
  unfold Inv, init, a_init, mems, init_procs; simpl. repeat split; auto.
  - now rewrite !map_length.
  - intros q pr H. apply nth_error_In in H. apply in_map_iff in H as (x & <- & _). reflexivity.
  - rewrite map_map. reflexivity.
Qed.

(* a step that keeps the lock: only process p's phase/record and the file/read log change *)
Lemma keep_lock a0 (c : conf) p pr ord' o m ph' mp' file' reads' trace' :
  length (c_procs c) = length (a_mems a0) ->
  Forall (fun po => (fst po < length (a_mems a0))%nat) (c_order c) ->
  c_order c = ord' ++ [(p, o)] ->
  nth_error (c_procs c) p = Some pr ->
  (forall q prq, nth_error (c_procs c) q = Some prq -> q <> p -> p_phase prq = Idle) ->
  nth_error (a_mems (atomic_run a0 ord')) p = Some m ->
  mems c = upd p (p_mem pr) (a_mems (atomic_run a0 ord')) ->
  inflight (atomic_run a0 ord') p o ph' m mp'
           (mkConf file' (Some p) (upd p (mkProc (p_ops pr) ph' mp') (c_procs c)) (c_order c) reads' trace') ->
  Inv a0 (mkConf file' (Some p) (upd p (mkProc (p_ops pr) ph' mp') (c_procs c)) (c_order c) reads' trace').
Proof.
  intros Hlen Hord Ho Hp Hidle Hm Hmems Hfl.
  pose proof (nth_error_lt _ _ _ Hp) as Hlt.
  unfold Inv; simpl. split; [now rewrite upd_length|]. split; [assumption|].
  exists ord', o, (mkProc (p_ops pr) ph' mp'), m. simpl.
  split; [assumption|]. split; [now apply nth_error_upd_eq|].
  split.
  { intros q prq Hq Hne. rewrite nth_error_upd_neq in Hq by congruence. eauto. }
  split; [assumption|]. split; [|assumption].
  unfold mems in *; simpl. rewrite map_upd; simpl. rewrite Hmems. apply upd_upd.
Qed.

Lemma busy_holds a0 (c : conf) p pr :
  Inv a0 c -> nth_error (c_procs c) p = Some pr -> p_phase pr <> Idle ->
  c_lock c = Some p /\
  exists ord' o m,
    c_order c = ord' ++ [(p, o)] /\
    (forall q prq, nth_error (c_procs c) q = Some prq -> q <> p -> p_phase prq = Idle) /\
    nth_error (a_mems (atomic_run a0 ord')) p = Some m /\
    mems c = upd p (p_mem pr) (a_mems (atomic_run a0 ord')) /\
    inflight (atomic_run a0 ord') p o (p_phase pr) m (p_mem pr) c.
Proof.
  intros (Hlen & Hord & HI) Hp Hbusy.
  destruct (c_lock c) as [h|].
  - destruct HI as (ord' & o & pr0 & m & Ho & Hh & Hidle & Hm & Hmems & Hfl).
    destruct (Nat.eq_dec p h) as [->|Hne].
    + rewrite Hp in Hh. inversion Hh; subst pr0. split; auto. exists ord', o, m. auto.
    + exfalso. apply Hbusy. eauto.
  - destruct HI as (Hidle & _). exfalso. apply Hbusy. eauto.
Qed.

Lemma step_inv a0 (c : conf) p : Inv a0 c -> Inv a0 (step true p c).
Proof.
  intro HI. unfold step.
  destruct (nth_error (c_procs c) p) as [pr|] eqn:Hp; [|assumption].
  pose proof (nth_error_lt _ _ _ Hp) as Hlt.
  destruct (p_phase pr) eqn:Hph.
  - (* Idle: try to take the lock *)
    destruct HI as (Hlen & Hord & HI).
    destruct (p_ops pr) as [|o rest] eqn:Hops; [unfold Inv; auto|].
    destruct (c_lock c) as [h|] eqn:Hl; simpl; [unfold Inv; rewrite Hl; auto|].
    destruct HI as (Hidle & Hfile & Hmems & Hreads).
    unfold Inv; simpl. split; [now rewrite upd_length|].
    split. { apply Forall_app; split; auto. constructor; auto. simpl. lia. }
    exists (c_order c), o, (mkProc rest (first_phase o) (p_mem pr)), (p_mem pr). simpl.
    split; [reflexivity|]. split; [now apply nth_error_upd_eq|].
    split. { intros q prq Hq Hne. rewrite nth_error_upd_neq in Hq by congruence. eauto. }
    split. { rewrite <- Hmems. unfold mems. now apply map_nth_error. }
    split. { unfold mems; simpl. rewrite map_upd; simpl. now rewrite <- Hmems. }
    destruct o; simpl; auto.
  - (* ULocked *)
    destruct (busy_holds _ _ _ _ HI Hp) as (Hl & ord' & o & m & Ho & Hidle & Hm & Hmems & Hfl); [congruence|].
    destruct HI as (Hlen & Hord & _). rewrite Hph in Hfl. rewrite Hl.
    destruct o; simpl in Hfl; try contradiction. destruct Hfl as (<- & Hf & Hmp & Hr).
    eapply keep_lock; eauto. simpl. auto.
  - (* UOpened: Read *)
    destruct (busy_holds _ _ _ _ HI Hp) as (Hl & ord' & o & m & Ho & Hidle & Hm & Hmems & Hfl); [congruence|].
    destruct HI as (Hlen & Hord & _). rewrite Hph in Hfl. rewrite Hl.
    destruct o; simpl in Hfl; try contradiction. destruct Hfl as (<- & Hf & Hmp & Hr).
    eapply keep_lock; eauto. simpl. rewrite Hf, Hmp, Hr. auto.
  - (* UReadDone: Apply *)
    destruct (busy_holds _ _ _ _ HI Hp) as (Hl & ord' & o & m & Ho & Hidle & Hm & Hmems & Hfl); [congruence|].
    destruct HI as (Hlen & Hord & _). rewrite Hph in Hfl. rewrite Hl.
    destruct o; simpl in Hfl; try contradiction. destruct Hfl as (<- & Hf & Hmp & Hr).
    eapply keep_lock; eauto. simpl. rewrite Hmp. auto.
  - (* UApplied: Trunc *)
    destruct (busy_holds _ _ _ _ HI Hp) as (Hl & ord' & o & m & Ho & Hidle & Hm & Hmems & Hfl); [congruence|].
    destruct HI as (Hlen & Hord & _). rewrite Hph in Hfl. rewrite Hl.
    destruct o; simpl in Hfl; try contradiction. destruct Hfl as (<- & Hf & Hmp & Hr).
    eapply keep_lock; eauto. simpl. auto.
  - (* UTrunced: Write *)
    destruct (busy_holds _ _ _ _ HI Hp) as (Hl & ord' & o & m & Ho & Hidle & Hm & Hmems & Hfl); [congruence|].
    destruct HI as (Hlen & Hord & _). rewrite Hph in Hfl. rewrite Hl.
    destruct o; simpl in Hfl; try contradiction. destruct Hfl as (<- & Hf & Hmp & Hr).
    eapply keep_lock; eauto. simpl. rewrite Hmp at 1. auto.
  - (* UWritten: Unlock *)
    destruct (busy_holds _ _ _ _ HI Hp) as (Hl & ord' & o & m & Ho & Hidle & Hm & Hmems & Hfl); [congruence|].
    destruct HI as (Hlen & Hord & _). rewrite Hph in Hfl.
    destruct o; simpl in Hfl; try contradiction. destruct Hfl as (<- & Hf & Hmp & Hr).
    unfold Inv; simpl. split; [now rewrite upd_length|]. split; [assumption|].
    rewrite Ho, atomic_run_snoc. unfold atomic_op; simpl. rewrite Hm. simpl.
    split.
    { intros q prq Hq. destruct (Nat.eq_dec q p) as [->|Hne].
      - rewrite nth_error_upd_eq in Hq by assumption. now inversion Hq.
      - rewrite nth_error_upd_neq in Hq by congruence. eauto. }
    split; [assumption|]. split; [|assumption].
    unfold mems in *; simpl. rewrite map_upd; simpl. rewrite Hmems, upd_upd, Hmp. reflexivity.
  - (* LLocked *)
    destruct (busy_holds _ _ _ _ HI Hp) as (Hl & ord' & o & m & Ho & Hidle & Hm & Hmems & Hfl); [congruence|].
    destruct HI as (Hlen & Hord & _). rewrite Hph in Hfl. rewrite Hl.
    destruct o; simpl in Hfl; try contradiction. destruct Hfl as (Hf & Hmp & Hr).
    eapply keep_lock; eauto. simpl. auto.
  - (* LOpened: Read *)
    destruct (busy_holds _ _ _ _ HI Hp) as (Hl & ord' & o & m & Ho & Hidle & Hm & Hmems & Hfl); [congruence|].
    destruct HI as (Hlen & Hord & _). rewrite Hph in Hfl. rewrite Hl.
    destruct o; simpl in Hfl; try contradiction. destruct Hfl as (Hf & Hmp & Hr).
    eapply keep_lock; eauto. simpl. rewrite Hf, Hmp, Hr. auto.
  - (* LReadDone: Unlock *)
    destruct (busy_holds _ _ _ _ HI Hp) as (Hl & ord' & o & m & Ho & Hidle & Hm & Hmems & Hfl); [congruence|].
    destruct HI as (Hlen & Hord & _). rewrite Hph in Hfl.
    destruct o; simpl in Hfl; try contradiction. destruct Hfl as (Hf & Hmp & Hr).
    unfold Inv; simpl. split; [now rewrite upd_length|]. split; [assumption|].
    rewrite Ho, atomic_run_snoc. unfold atomic_op; simpl. rewrite Hm. simpl.
    split.
    { intros q prq Hq. destruct (Nat.eq_dec q p) as [->|Hne].
      - rewrite nth_error_upd_eq in Hq by assumption. now inversion Hq.
      - rewrite nth_error_upd_neq in Hq by congruence. eauto. }
    split; [assumption|]. split; [|assumption].
    unfold mems in *; simpl. rewrite map_upd; simpl. rewrite Hmems, upd_upd, Hmp. reflexivity.
  - (* SvLocked: OpenTrunc *)
    destruct (busy_holds _ _ _ _ HI Hp) as (Hl & ord' & o & m & Ho & Hidle & Hm & Hmems & Hfl); [congruence|].
    destruct HI as (Hlen & Hord & _). rewrite Hph in Hfl. rewrite Hl.
    destruct o; simpl in Hfl; try contradiction. destruct Hfl as (Hf & Hmp & Hr).
    eapply keep_lock; eauto. simpl. auto.
  - (* SvTrunced: Write *)
    destruct (busy_holds _ _ _ _ HI Hp) as (Hl & ord' & o & m & Ho & Hidle & Hm & Hmems & Hfl); [congruence|].
    destruct HI as (Hlen & Hord & _). rewrite Hph in Hfl. rewrite Hl.
    destruct o; simpl in Hfl; try contradiction. destruct Hfl as (Hf & Hmp & Hr).
    eapply keep_lock; eauto. simpl. rewrite Hmp at 1. auto.
  - (* SvWritten: Unlock *)
    destruct (busy_holds _ _ _ _ HI Hp) as (Hl & ord' & o & m & Ho & Hidle & Hm & Hmems & Hfl); [congruence|].
    destruct HI as (Hlen & Hord & _). rewrite Hph in Hfl.
    destruct o; simpl in Hfl; try contradiction. destruct Hfl as (Hf & Hmp & Hr).
    unfold Inv; simpl. split; [now rewrite upd_length|]. split; [assumption|].
    rewrite Ho, atomic_run_snoc. unfold atomic_op; simpl. rewrite Hm. simpl.
    split.
    { intros q prq Hq. destruct (Nat.eq_dec q p) as [->|Hne].
      - rewrite nth_error_upd_eq in Hq by assumption. now inversion Hq.
      - rewrite nth_error_upd_neq in Hq by congruence. eauto. }
    split; [assumption|]. split; [|assumption].
    unfold mems in *; simpl. rewrite map_upd; simpl. rewrite Hmems, upd_upd, Hmp. now apply upd_same.
  - (* SvPre: not a phase of this protocol *) exact HI.
Qed.

Lemma run_inv a0 sched (c : conf) : Inv a0 c -> Inv a0 (run true sched c).
Proof.
  unfold run. revert c; induction sched as [|p s IH]; intros c H; simpl; auto.
  apply IH. now apply step_inv.
Qed.


(* ---------- C14, first half: no update is lost, all are applied one at a time ---------- *)

Theorem linearizable (file0 : fcontent R) (progs : list (list (op R) * R)) sched :
  let c := run true sched (init file0 progs) in
  let a := atomic_run (a_init file0 progs) (c_order c) in
  c_lock c = None ->
  c_file c = a_file a /\ map p_mem (c_procs c) = a_mems a /\ c_reads c = a_reads a.
Proof.
  intros c a Hl.
  pose proof (run_inv _ sched _ (inv_init file0 progs)) as (_ & _ & HI).
  fold c in HI. rewrite Hl in HI. destruct HI as (_ & H1 & H2 & H3). auto.
Qed.

Lemma order_in_range (file0 : fcontent R) (progs : list (list (op R) * R)) sched :
  Forall (fun po => (fst po < length progs)%nat) (c_order (run true sched (init file0 progs))).
Proof.
  pose proof (run_inv _ sched _ (inv_init file0 progs)) as (_ & H & _).
  unfold a_init in H; simpl in H. now rewrite map_length in H.
Qed.

(* the file after the operations of [order], when it held a record before *)
Lemma atomic_file_fold order : forall (a : astate) r,
  Forall (fun po => (fst po < length (a_mems a))%nat) order ->
  no_saves order = true ->
  a_file a = FRec r ->
  a_file (atomic_run a order) = FRec (apply_all (upd_fns order) r).
Proof.
  unfold atomic_run, apply_all, no_saves.
  induction order as [|[p o] l IH]; intros a r Hr Hs Hf; simpl; auto.
  inversion Hr as [|? ? Hp Hr']; subst. simpl in Hp, Hs. apply andb_true_iff in Hs as (Hs1 & Hs2).
  destruct (nth_error (a_mems a) p) as [m|] eqn:Hm; [|apply nth_error_None in Hm; lia].
  unfold atomic_op at 2; simpl. rewrite Hm, Hf; simpl.
  destruct o; simpl in *; try discriminate.
  - apply IH; simpl; auto. now rewrite upd_length.
  - apply IH; simpl; auto. now rewrite upd_length.
Qed.

(* with Saves in the order too: once a record is stored, a whole record is stored after every
   operation *)
Lemma atomic_file_whole order : forall (a : astate) r,
  Forall (fun po => (fst po < length (a_mems a))%nat) order ->
  a_file a = FRec r ->
  exists r', a_file (atomic_run a order) = FRec r'.
Proof.
  unfold atomic_run.
  induction order as [|[p o] l IH]; intros a r Hr Hf; simpl; eauto.
  inversion Hr as [|? ? Hp Hr']; subst. simpl in Hp.
  destruct (nth_error (a_mems a) p) as [m|] eqn:Hm; [|apply nth_error_None in Hm; lia].
  unfold atomic_op at 2; simpl. rewrite Hm, Hf; simpl.
  destruct o; simpl.
  - eapply IH; simpl; eauto. now rewrite upd_length.
  - eapply IH; simpl; eauto. now rewrite upd_length.
  - eapply IH; simpl; eauto.
Qed.

Lemma no_saves_firstn n (order : list (nat * op R)) : no_saves order = true -> no_saves (firstn n order) = true.
Proof.
  unfold no_saves. revert n; induction order as [|po l IH]; intros [|n] H; simpl in *; auto.
  apply andb_true_iff in H as (H1 & H2). rewrite H1. simpl. auto.
Qed.

(* ... and when there was no record yet: the first update starts from the in-memory record of
   the process that makes it (UpdateFullStatus skips the read of an empty file) *)
Lemma atomic_loads_on_empty loads : forall (a : astate),
  Forall (fun po => snd po = OLoad) loads -> a_file a = FEmpty ->
  a_file (atomic_run a loads) = FEmpty /\ a_mems (atomic_run a loads) = a_mems a.
Proof.
  unfold atomic_run.
  induction loads as [|[p o] l IH]; intros a Hl Hf; simpl; auto.
  inversion Hl as [|? ? Ho Hl']; subst. simpl in Ho; subst o.
  unfold atomic_op at 2 4; simpl.
  destruct (nth_error (a_mems a) p) as [m|] eqn:Hm; [|now apply IH].
  rewrite Hf; simpl.
  destruct (IH (mkA FEmpty (upd p m (a_mems a)) (a_reads a ++ [(p, FEmpty)])) Hl' eq_refl) as (H1 & H2).
  split; auto. rewrite H2; simpl. now apply upd_same.
Qed.

Lemma atomic_file_fold_empty loads p f rest (a : astate) m :
  Forall (fun po => snd po = OLoad) loads ->
  Forall (fun po => (fst po < length (a_mems a))%nat) rest -> no_saves rest = true ->
  a_file a = FEmpty -> nth_error (a_mems a) p = Some m ->
  a_file (atomic_run a (loads ++ (p, OUpd f) :: rest)) = FRec (apply_all (upd_fns rest) (f m)).
Proof.
  intros Hl Hr Hns Hf Hm. unfold atomic_run. rewrite fold_left_app. simpl.
  destruct (atomic_loads_on_empty loads a Hl Hf) as (H1 & H2). unfold atomic_run in H1, H2.
  unfold atomic_op at 2; simpl. rewrite H2, Hm, H1; simpl.
  apply (atomic_file_fold rest); simpl; auto. now rewrite upd_length.
Qed.

Theorem updates_linearizable (r0 : R) (progs : list (list (op R) * R)) sched :
  let c := run true sched (init (FRec r0) progs) in
  c_lock c = None -> no_saves (c_order c) = true ->
  c_file c = FRec (apply_all (upd_fns (c_order c)) r0).
Proof.
  intros c Hl Hns. destruct (linearizable (FRec r0) progs sched Hl) as (H & _). fold c in H. rewrite H.
  apply atomic_file_fold; auto. unfold a_init; simpl. rewrite map_length. apply order_in_range.
Qed.

(* every operation a process has started is in the order exactly once, in program order *)
Lemma ops_of_app q (l1 l2 : list (nat * op R)) : ops_of q (l1 ++ l2) = ops_of q l1 ++ ops_of q l2.
Proof.
  induction l1 as [|[p o] l IH]; simpl; auto. destruct (Nat.eqb p q); simpl; now rewrite IH.
Qed.

Definition Book (progs : list (list (op R) * R)) (c : conf) : Prop :=
  length (c_procs c) = length progs /\
  forall q pr, nth_error (c_procs c) q = Some pr ->
    exists pm, nth_error progs q = Some pm /\ ops_of q (c_order c) ++ p_ops pr = fst pm.

Lemma book_upd progs (c : conf) p pr ph m file lock reads trace :
  Book progs c -> nth_error (c_procs c) p = Some pr ->
  Book progs (mkConf file lock (upd p (mkProc (p_ops pr) ph m) (c_procs c)) (c_order c) reads trace).
Proof.
  intros (Hlen & HB) Hp. split; simpl; [now rewrite upd_length|].
  intros q prq Hq. destruct (Nat.eq_dec p q) as [<-|Hne].
  - rewrite nth_error_upd_eq in Hq by (eapply nth_error_lt; eauto). inversion Hq; subst prq; simpl. eauto.
  - rewrite nth_error_upd_neq in Hq by assumption. eauto.
Qed.

Lemma step_book locking progs (c : conf) p : Book progs c -> Book progs (step locking p c).
Proof.
  intro HB. unfold step.
  destruct (nth_error (c_procs c) p) as [pr|] eqn:Hp; [|assumption].
  destruct (p_phase pr) eqn:Hph; try (now apply book_upd); try assumption.
  destruct (p_ops pr) as [|o rest] eqn:Hops; [assumption|].
  destruct (locking && is_some (c_lock c)); [assumption|].
  destruct HB as (Hlen & HB). split; simpl; [now rewrite upd_length|].
  intros q prq Hq. rewrite ops_of_app; simpl. destruct (Nat.eq_dec p q) as [<-|Hne].
  - rewrite nth_error_upd_eq in Hq by (eapply nth_error_lt; eauto). inversion Hq; subst prq; simpl.
    rewrite Nat.eqb_refl. destruct (HB _ _ Hp) as (pm & H1 & H2). exists pm. split; auto.
    rewrite <- H2, Hops, <- app_assoc. reflexivity.
  - rewrite nth_error_upd_neq in Hq by assumption.
    destruct (Nat.eqb_neq p q) as [_ E]. rewrite (E Hne), app_nil_r. eauto.
Qed.

Lemma run_book locking progs sched (c : conf) : Book progs c -> Book progs (run locking sched c).
Proof.
  unfold run. revert c; induction sched as [|p s IH]; intros c H; simpl; auto.
  apply IH. now apply step_book.
Qed.

Lemma book_init (file0 : fcontent R) (progs : list (list (op R) * R)) : Book progs (init file0 progs).
Proof.
  unfold Book, init, init_procs; simpl. split; [now rewrite map_length|].
  intros q pr Hq. rewrite nth_error_map in Hq.
  destruct (nth_error progs q) as [pm|]; [|discriminate]. inversion Hq; subst; simpl. eauto.
Qed.

Theorem no_update_lost locking (file0 : fcontent R) (progs : list (list (op R) * R)) sched :
  let c := run locking sched (init file0 progs) in
  all_done c = true ->
  forall q pm, nth_error progs q = Some pm -> ops_of q (c_order c) = fst pm.
Proof.
  intros c Hd q pm Hq.
  destruct (run_book locking progs sched _ (book_init file0 progs)) as (Hlen & HB). fold c in Hlen, HB.
  destruct (nth_error (c_procs c) q) as [pr|] eqn:Hpr.
  - destruct (HB _ _ Hpr) as (pm' & H1 & H2). rewrite Hq in H1. inversion H1; subst pm'.
    unfold all_done in Hd. rewrite forallb_forall in Hd.
    specialize (Hd pr (nth_error_In _ _ Hpr)). unfold proc_done in Hd.
    destruct (p_phase pr); try discriminate. destruct (p_ops pr); try discriminate.
    now rewrite app_nil_r in H2.
  - apply nth_error_None in Hpr. apply nth_error_lt in Hq. lia.
Qed.

(* ---------- C14, second half: a reader never sees a partially written record ---------- *)

Lemma atomic_reads_prefix (a0 : astate) l : a_reads a0 = [] ->
  forall pv, In pv (a_reads (atomic_run a0 l)) ->
  exists n, (n < length l)%nat /\ snd pv = a_file (atomic_run a0 (firstn n l)).
Proof.
  intro H0. induction l as [|po l IH] using rev_ind; intros pv Hin.
  - simpl in Hin. rewrite H0 in Hin. contradiction.
  - rewrite atomic_run_snoc in Hin. rewrite app_length; simpl.
    assert (Hold : In pv (a_reads (atomic_run a0 l)) ->
                   exists n, (n < length l + 1)%nat /\ snd pv = a_file (atomic_run a0 (firstn n (l ++ [po])))).
    { intro Hi. destruct (IH _ Hi) as (n & Hn & E). exists n. split; [lia|].
      rewrite firstn_app. replace (n - length l)%nat with 0%nat by lia. simpl. now rewrite app_nil_r. }
    assert (Hnew : pv = (fst po, a_file (atomic_run a0 l)) ->
                   exists n, (n < length l + 1)%nat /\ snd pv = a_file (atomic_run a0 (firstn n (l ++ [po])))).
    { intros ->. exists (length l). split; [lia|]. simpl.
      rewrite firstn_app, firstn_all, Nat.sub_diag. simpl. now rewrite app_nil_r. }
    unfold atomic_op in Hin. destruct (nth_error _ (fst po)); [|auto].
    destruct (snd po); simpl in Hin; auto; apply in_app_or in Hin as [Hi|[Hi|[]]]; auto.
Qed.

Theorem reads_are_prefix_states (file0 : fcontent R) (progs : list (list (op R) * R)) sched :
  let c := run true sched (init file0 progs) in
  forall pv, In pv (c_reads c) ->
  exists n, (n <= length (c_order c))%nat /\
            snd pv = a_file (atomic_run (a_init file0 progs) (firstn n (c_order c))).
Proof.
  intros c pv Hin.
  pose proof (run_inv _ sched _ (inv_init file0 progs)) as (_ & _ & HI). fold c in HI.
  set (a0 := a_init file0 progs) in *.
  assert (H0 : a_reads a0 = []) by reflexivity.
  destruct (c_lock c) as [p|].
  - destruct HI as (ord' & o & pr & m & Ho & _ & _ & _ & _ & Hfl).
    assert (Hold : In pv (a_reads (atomic_run a0 ord')) ->
      exists n, (n <= length (c_order c))%nat /\ snd pv = a_file (atomic_run a0 (firstn n (c_order c)))).
    { intro Hi. destruct (atomic_reads_prefix a0 ord' H0 _ Hi) as (n & Hn & E).
      exists n. rewrite Ho, app_length. split; [lia|].
      rewrite firstn_app. replace (n - length ord')%nat with 0%nat by lia. simpl. now rewrite app_nil_r. }
    assert (Hnew : In pv (a_reads (atomic_run a0 ord') ++ [(p, a_file (atomic_run a0 ord'))]) ->
      exists n, (n <= length (c_order c))%nat /\ snd pv = a_file (atomic_run a0 (firstn n (c_order c)))).
    { intro Hi. apply in_app_or in Hi as [Hi|[<-|[]]]; auto.
      exists (length ord'). rewrite Ho, app_length. split; [lia|]. simpl.
      rewrite firstn_app, firstn_all, Nat.sub_diag. simpl. now rewrite app_nil_r. }
    unfold inflight in Hfl.
    destruct (p_phase pr), o; try contradiction;
      (destruct Hfl as (_ & _ & _ & Hr) || destruct Hfl as (_ & _ & Hr)); rewrite Hr in Hin; auto.
  - destruct HI as (_ & _ & _ & Hr). rewrite Hr in Hin.
    destruct (atomic_reads_prefix a0 _ H0 _ Hin) as (n & Hn & E). exists n. split; [lia|assumption].
Qed.

Theorem loads_see_whole_records (r0 : R) (progs : list (list (op R) * R)) sched :
  let c := run true sched (init (FRec r0) progs) in
  forall pv, In pv (c_reads c) ->
  exists n r, (n <= length (c_order c))%nat /\ snd pv = FRec r /\
              a_file (atomic_run (a_init (FRec r0) progs) (firstn n (c_order c))) = FRec r.
Proof.
  intros c pv Hin.
  destruct (reads_are_prefix_states (FRec r0) progs sched pv Hin) as (n & Hn & E). fold c in E.
  pose proof (order_in_range (FRec r0) progs sched) as Hr. fold c in Hr.
  rewrite <- (firstn_skipn n (c_order c)) in Hr. apply Forall_app in Hr as (Hr & _).
  destruct (atomic_file_whole (firstn n (c_order c)) (a_init (FRec r0) progs) r0) as (r & Er); auto.
  { unfold a_init; simpl. now rewrite map_length. }
  exists n, r. rewrite E. auto.
Qed.

(* without Saves that record is the fold of the update functions of the prefix *)
Theorem loads_see_fold_of_prefix (r0 : R) (progs : list (list (op R) * R)) sched :
  let c := run true sched (init (FRec r0) progs) in
  no_saves (c_order c) = true ->
  forall pv, In pv (c_reads c) ->
  exists n, (n <= length (c_order c))%nat /\
            snd pv = FRec (apply_all (upd_fns (firstn n (c_order c))) r0).
Proof.
  intros c Hns pv Hin.
  destruct (reads_are_prefix_states (FRec r0) progs sched pv Hin) as (n & Hn & E).
  exists n. split; auto. fold c in E. rewrite E.
  apply atomic_file_fold; auto; [|now apply no_saves_firstn].
  unfold a_init; simpl. rewrite map_length.
  pose proof (order_in_range (FRec r0) progs sched) as Hr. fold c in Hr.
  rewrite <- (firstn_skipn n (c_order c)) in Hr. now apply Forall_app in Hr.
Qed.

End LockProofs.

(* ---------- what breaks it: the same code without lockStatusFile ---------- *)

Definition inc_fst (r : N * N) : N * N := (fst r + 1, snd r).
Definition inc_snd (r : N * N) : N * N := (fst r, snd r + 1).
Definition two_writers : list (list (op (N * N)) * (N * N)) :=
  [([OUpd inc_fst], (0, 0)); ([OUpd inc_snd], (0, 0))].
(* both read, then both write *)
Definition lost_sched : list nat := [0; 0; 0; 1; 1; 1; 0; 0; 0; 0; 1; 1; 1; 1]%nat.

Theorem lockless_lost_update :
  let c := run false lost_sched (init (FRec (0, 0)) two_writers) in
  all_done c = true /\ c_file c = FRec (0, 1) /\
  c_file c <> FRec (apply_all (upd_fns (c_order c)) (0, 0)) /\
  apply_all [inc_fst; inc_snd] (0, 0) = (1, 1) /\ apply_all [inc_snd; inc_fst] (0, 0) = (1, 1).
Proof. vm_compute. repeat split; congruence. Qed.

(* with the lock the very same schedule loses nothing (process 1 simply waits) *)
Example locked_same_schedule :
  let c := run true (lost_sched ++ [1; 1; 1; 1; 1; 1; 1]%nat) (init (FRec (0, 0)) two_writers) in
  all_done c = true /\ c_file c = FRec (1, 1).
Proof. vm_compute. auto. Qed.

Definition writer_and_reader : list (list (op (N * N)) * (N * N)) :=
  [([OUpd inc_fst], (0, 0)); ([OLoad], (7, 7))].
(* the writer has truncated and not yet written when the reader reads *)
Definition torn_sched : list nat := [0; 0; 0; 0; 0; 1; 1; 1]%nat.

Theorem lockless_torn_read :
  let c := run false torn_sched (init (FRec (0, 0)) writer_and_reader) in
  In (1%nat, FEmpty) (c_reads c).
Proof. vm_compute. auto. Qed.

(* Save that truncates BEFORE taking the lock (seeded mutation): a reader that holds the lock
   finds the file empty although a record was stored all the time *)
Definition saver_and_reader : list (list (op (N * N)) * (N * N)) :=
  [([OSave], (5, 5)); ([OLoad], (7, 7))].
(* the reader locks and opens, the saver truncates, the reader reads *)
Definition early_trunc_sched : list nat := [1; 1; 0; 1; 1; 0; 0; 0]%nat.

Theorem save_truncating_before_lock_refuted :
  let c := run_early early_trunc_sched (init (FRec (0, 0)) saver_and_reader) in
  In (1%nat, FEmpty) (c_reads c) /\ all_done c = true /\ c_file c = FRec (5, 5).
Proof. vm_compute. auto. Qed.

(* the code as written, on the same schedule (the saver waits for the lock): the reader sees the
   stored record *)
Example save_under_lock_same_schedule :
  let c := run true (early_trunc_sched ++ [0; 0]%nat) (init (FRec (0, 0)) saver_and_reader) in
  c_reads c = [(1%nat, FRec (0, 0))] /\ all_done c = true /\ c_file c = FRec (5, 5).
Proof. vm_compute. auto. Qed.

(* saveStdoutSize as "Load ; Save" (seeded mutation) instead of one UpdateFullStatus: both halves
   hold the lock, and still the update that falls between them is overwritten by the stale record *)
Definition loadsave_and_writer : list (list (op (N * N)) * (N * N)) :=
  [([OLoad; OSave], (9, 9)); ([OUpd inc_fst], (0, 0))].
Definition loadsave_sched : list nat := [0; 0; 0; 0; 1; 1; 1; 1; 1; 1; 1; 0; 0; 0; 0]%nat.

Theorem load_then_save_refuted :
  let c := run true loadsave_sched (init (FRec (0, 0)) loadsave_and_writer) in
  all_done c = true /\ c_lock c = None /\
  upd_fns (c_order c) = [inc_fst] /\ c_file c = FRec (0, 0) /\
  apply_all (upd_fns (c_order c)) (0, 0) = (1, 0).
Proof. vm_compute. auto. Qed.

(* as /repo does it - one update that sets the size (second component) - nothing is lost, whatever
   the order *)
Example size_update_keeps_other_field :
  let progs := [([OUpd (fun r : N * N => (fst r, 7))], (9, 9)); ([OUpd inc_fst], (0, 0))] in
  c_file (run true [0; 0; 0; 1; 0; 0; 0; 0; 1; 1; 1; 1; 1; 1; 1]%nat (init (FRec (0, 0)) progs)) = FRec (1, 7) /\
  c_file (run true [1; 1; 1; 1; 1; 1; 1; 0; 0; 0; 0; 0; 0; 0]%nat (init (FRec (0, 0)) progs)) = FRec (1, 7).
Proof. vm_compute. auto. Qed.

(* ---------- the counters of the stress harness ---------- *)

Lemma nth_upd_eq {A} n (x d : A) l : (n < length l)%nat -> nth n (upd n x l) d = x.
Proof.
  revert n; induction l as [|h t IH]; intros [|n] H; simpl in *; try lia; auto. apply IH; lia.
Qed.

Lemma nth_upd_neq {A} n m (x d : A) l : n <> m -> nth m (upd n x l) d = nth m l d.
Proof.
  revert n m; induction l as [|h t IH]; intros [|n] [|m] H; simpl; auto; congruence.
Qed.

Definition nsum (l : list N) : N := fold_right N.add 0 l.

Lemma nsum_upd n x l : (n < length l)%nat -> nsum (upd n x l) + nth n l 0 = nsum l + x.
Proof.
  revert n; induction l as [|h t IH]; intros [|n] H; simpl in *; try lia.
  specialize (IH n). lia.
Qed.

Lemma nsum_repeat0 n : nsum (repeat 0 n) = 0.
Proof. induction n; simpl; auto. Qed.

Lemma apply_all_snoc {R} (fs : list (R -> R)) f r : apply_all (fs ++ [f]) r = f (apply_all fs r).
Proof. unfold apply_all. now rewrite fold_left_app. Qed.

Lemma incr_fold nw order : Forall (fun w => (w < nw)%nat) order ->
  let r := apply_all (map incr order) (crec0 nw) in
  fst r = N.of_nat (length order) /\ length (snd r) = nw /\ fst r = nsum (snd r) /\
  forall w, (w < nw)%nat -> nth w (snd r) 0 = N.of_nat (count_occ Nat.eq_dec order w).
Proof.
  induction order as [|w l IH] using rev_ind; intro H.
  - simpl. repeat split; auto using repeat_length.
    + now rewrite nsum_repeat0.
    + intros w Hw. now rewrite nth_repeat.
  - apply Forall_app in H as (Hl & Hw). inversion Hw as [|? ? Hw' _]; subst.
    destruct (IH Hl) as (H1 & H2 & H3 & H4). clear IH.
    rewrite map_app; simpl. rewrite apply_all_snoc.
    set (r := apply_all (map incr l) (crec0 nw)) in *.
    unfold incr; simpl. rewrite upd_length, app_length; simpl.
    repeat split; auto.
    + lia.
    + pose proof (nsum_upd w (nth w (snd r) 0 + 1) (snd r)). lia.
    + intros w' Hw'2. rewrite count_occ_app; simpl.
      destruct (Nat.eq_dec w w') as [->|Hne].
      * rewrite nth_upd_eq by lia. rewrite H4 by lia. lia.
      * rewrite nth_upd_neq by assumption. rewrite H4 by lia. lia.
Qed.

(* the writers of an order, and whose counter each update touches *)
Fixpoint writers (order : list (nat * op crec)) : list nat :=
  match order with
  | [] => []
  | (p, OUpd _) :: r => p :: writers r
  | (_, OLoad) :: r => writers r
  | (_, OSave) :: r => writers r
  end.

Definition own_op (po : nat * op crec) : Prop := snd po = OLoad \/ snd po = OUpd (incr (fst po)).

Lemma upd_fns_writers order : Forall own_op order -> upd_fns order = map incr (writers order).
Proof.
  induction order as [|[p o] l IH]; intro H; simpl; auto.
  inversion H as [|? ? Ho Hl]; subst. destruct Ho as [Ho|Ho]; simpl in Ho; subst o; simpl.
  - auto.
  - f_equal. auto.
Qed.

Definition is_upd (o : op crec) : bool := match o with OUpd _ => true | _ => false end.
Definition is_incr (k : kop) : bool := match k with KIncr => true | _ => false end.
Definition is_ksave (k : kop) : bool := match k with KSave => true | _ => false end.
Definition no_ksave (progs : list (list kop)) : bool := forallb (forallb (fun k => negb (is_ksave k))) progs.

Lemma own_no_saves order : Forall own_op order -> no_saves order = true.
Proof.
  unfold no_saves. induction order as [|[p o] l IH]; intro H; simpl; auto.
  inversion H as [|? ? Ho Hl]; subst. rewrite IH by assumption.
  destruct Ho as [Ho|Ho]; simpl in Ho; subst o; reflexivity.
Qed.
Definition count_incr (ks : list kop) : nat := length (filter is_incr ks).

Lemma count_writers order w :
  count_occ Nat.eq_dec (writers order) w = length (filter is_upd (ops_of w order)).
Proof.
  induction order as [|[p o] l IH]; simpl; auto.
  destruct o; simpl.
  - destruct (Nat.eq_dec p w) as [->|Hne].
    + rewrite Nat.eqb_refl. simpl. now rewrite IH.
    + destruct (Nat.eqb_neq p w) as [_ E]. now rewrite (E Hne).
  - destruct (Nat.eqb p w); simpl; auto.
  - destruct (Nat.eqb p w); simpl; auto.
Qed.

Lemma writers_in order w : In w (writers order) -> exists o, In (w, o) order.
Proof.
  induction order as [|[p o] l IH]; simpl; [contradiction|].
  destruct o; simpl.
  - intros [->|H]; eauto. destruct (IH H) as (o & Ho). eauto.
  - intro H. destruct (IH H) as (o & Ho). eauto.
  - intro H. destruct (IH H) as (o & Ho). eauto.
Qed.

Lemma in_ops_of (order : list (nat * op crec)) p o : In (p, o) order -> In o (ops_of p order).
Proof.
  induction order as [|[q o'] l IH]; simpl; [contradiction|].
  intros [E|H].
  - inversion E; subst. rewrite Nat.eqb_refl. now left.
  - destruct (Nat.eqb q p); [right|]; auto.
Qed.

Lemma kprogs_from_nth nw ps : forall w q,
  nth_error (kprogs_from nw w ps) q =
  option_map (fun ks => (map (kop_op (w + q)) ks, crec0 nw)) (nth_error ps q).
Proof.
  induction ps as [|p r IH]; intros w [|q]; simpl; auto.
  - now rewrite Nat.add_0_r.
  - rewrite IH. now rewrite Nat.add_succ_r.
Qed.

Lemma kprogs_length nw ps : length (kprogs nw ps) = length ps.
Proof.
  unfold kprogs. generalize 0%nat. induction ps as [|p r IH]; intro w; simpl; auto.
Qed.

Lemma filter_kop_op w ks : length (filter is_upd (map (kop_op w) ks)) = count_incr ks.
Proof.
  unfold count_incr. induction ks as [|k r IH]; simpl; auto. destruct k; simpl; auto.
Qed.

(* C14 on the counters: whatever the schedule, when every program has finished the shared counter
   is the number of updates made and every writer's own counter is the number of ITS updates *)
Theorem counters_exact (progs : list (list kop)) sched :
  let nw := length progs in
  let c := run true sched (init (FRec (crec0 nw)) (kprogs nw progs)) in
  no_ksave progs = true -> all_done c = true -> c_lock c = None ->
  exists r, c_file c = FRec r /\
            snd r = map (fun ks => N.of_nat (count_incr ks)) progs /\
            fst r = nsum (snd r).
Proof.
  intros nw c Hnk Hdone Hl.
  pose proof (updates_linearizable _ (crec0 nw) (kprogs nw progs) sched Hl) as Hfile. fold c in Hfile.
  pose proof (order_in_range _ (FRec (crec0 nw)) (kprogs nw progs) sched) as Hrange. fold c in Hrange.
  rewrite kprogs_length in Hrange. fold nw in Hrange.
  pose proof (no_update_lost _ true (FRec (crec0 nw)) (kprogs nw progs) sched Hdone) as Hops. fold c in Hops.
  assert (Hown : Forall own_op (c_order c)).
  { apply Forall_forall. intros [p o] Hin.
    rewrite Forall_forall in Hrange. specialize (Hrange _ Hin). simpl in Hrange.
    destruct (nth_error progs p) as [ks|] eqn:Hks; [|apply nth_error_None in Hks; lia].
    specialize (Hops p (map (kop_op p) ks, crec0 nw)).
    unfold kprogs in Hops. rewrite kprogs_from_nth, Hks in Hops. specialize (Hops eq_refl). simpl in Hops.
    apply in_ops_of in Hin. rewrite Hops in Hin. apply in_map_iff in Hin as (k & <- & Hk).
    unfold own_op; simpl. destruct k; auto.
    exfalso. unfold no_ksave in Hnk. rewrite forallb_forall in Hnk.
    specialize (Hnk ks (nth_error_In _ _ Hks)). rewrite forallb_forall in Hnk.
    specialize (Hnk KSave Hk). discriminate. }
  specialize (Hfile (own_no_saves _ Hown)).
  rewrite (upd_fns_writers _ Hown) in Hfile.
  assert (Hw : Forall (fun w => (w < nw)%nat) (writers (c_order c))).
  { apply Forall_forall. intros w Hin. apply writers_in in Hin as (o & Ho).
    rewrite Forall_forall in Hrange. apply (Hrange _ Ho). }
  destruct (incr_fold nw _ Hw) as (H1 & H2 & H3 & H4).
  eexists. split; [exact Hfile|]. split; [|exact H3].
  apply nth_ext with (d := 0) (d' := 0); [now rewrite map_length|].
  intros w Hlt. rewrite H2 in Hlt. rewrite H4 by assumption. rewrite count_writers.
  destruct (nth_error progs w) as [ks|] eqn:Hks; [|apply nth_error_None in Hks; fold nw in Hks; lia].
  specialize (Hops w (map (kop_op w) ks, crec0 nw)).
  unfold kprogs in Hops. rewrite kprogs_from_nth, Hks in Hops. specialize (Hops eq_refl). simpl in Hops.
  rewrite Hops, filter_kop_op.
  change 0 with ((fun ks => N.of_nat (count_incr ks)) []).
  rewrite map_nth. f_equal. f_equal. erewrite nth_error_nth; eauto.
Qed.

Section CacheIndependence.
Variable R : Type.

(* an update is a function of the STORED record: the writer's cached copy does not enter it *)
Lemma update_uses_stored_record (a : astate R) p f r m :
  a_file a = FRec r -> nth_error (a_mems a) p = Some m ->
  a_file (atomic_op a (p, OUpd f)) = FRec (f r) /\
  nth_error (a_mems (atomic_op a (p, OUpd f))) p = Some (f r).
Proof.
  intros Hf Hm. unfold atomic_op; simpl. rewrite Hm, Hf; simpl. split; auto.
  apply nth_error_upd_eq. eapply nth_error_lt; eauto.
Qed.

(* two configurations that differ only in the cached records of the processes *)
Definition same_ctl (x y : proc R) : Prop := p_ops x = p_ops y /\ p_phase x = p_phase y.
Definition Sim (c1 c2 : conf R) : Prop :=
  c_lock c1 = c_lock c2 /\ c_order c1 = c_order c2 /\ c_trace c1 = c_trace c2 /\
  Forall2 same_ctl (c_procs c1) (c_procs c2).

Lemma Forall2_nth {A B} (P : A -> B -> Prop) l1 l2 : Forall2 P l1 l2 ->
  forall n, match nth_error l1 n, nth_error l2 n with
            | Some x, Some y => P x y
            | None, None => True
            | _, _ => False
            end.
Proof.
  induction 1; intros [|n]; simpl; auto. apply IHForall2.
Qed.

Lemma Forall2_upd {A B} (P : A -> B -> Prop) l1 l2 : Forall2 P l1 l2 ->
  forall n x y, P x y -> Forall2 P (upd n x l1) (upd n y l2).
Proof.
  induction 1; intros [|n] x' y' Hxy; simpl; constructor; auto.
Qed.

Lemma sim_step p (c1 c2 : conf R) : Sim c1 c2 -> Sim (step true p c1) (step true p c2).
Proof.
  intros (Hl & Ho & Ht & Hp). unfold step.
  pose proof (Forall2_nth _ _ _ Hp p) as Hn.
  destruct (nth_error (c_procs c1) p) as [x|], (nth_error (c_procs c2) p) as [y|]; try contradiction;
    [|unfold Sim; auto].
  destruct Hn as (Hops & Hph). rewrite <- Hph, <- Hops.
  destruct (p_phase x); simpl;
    try (unfold Sim; simpl; rewrite ?Hl, ?Ho, ?Ht; repeat split; auto; apply Forall2_upd; auto; split; auto; fail).
  - destruct (p_ops x) as [|o rest]; [unfold Sim; auto|].
    rewrite <- Hl. destruct (is_some (c_lock c1)); simpl; [unfold Sim; auto|].
    unfold Sim; simpl. rewrite Ho, Ht. repeat split; auto. apply Forall2_upd; auto. split; auto.
Qed.

Lemma sim_run sched : forall c1 c2 : conf R, Sim c1 c2 -> Sim (run true sched c1) (run true sched c2).
Proof.
  unfold run. induction sched as [|p s IH]; intros c1 c2 H; simpl; auto. apply IH. now apply sim_step.
Qed.

(* the stored record after any schedule does not depend on the records the writers had cached when
   they started: every update is applied to what is read under the lock *)
Theorem update_independent_of_cache (r0 : R) (progs1 progs2 : list (list (op R) * R)) sched :
  map fst progs1 = map fst progs2 ->
  let c1 := run true sched (init (FRec r0) progs1) in
  let c2 := run true sched (init (FRec r0) progs2) in
  c_lock c1 = None -> no_saves (c_order c1) = true ->
  c_file c1 = c_file c2.
Proof.
  intros Hm c1 c2 Hl Hns.
  assert (HS : Sim c1 c2).
  { apply sim_run. unfold Sim, init, init_procs; simpl. repeat split; auto.
    clear - Hm. revert progs2 Hm. induction progs1 as [|a l IH]; intros [|b l2] Hm; simpl in *; try discriminate; constructor.
    - inversion Hm. split; auto.
    - apply IH. now inversion Hm. }
  destruct HS as (HSl & HSo & _).
  pose proof (updates_linearizable R r0 progs1 sched Hl Hns) as E1. fold c1 in E1.
  assert (Hl2 : c_lock c2 = None) by congruence.
  assert (Hns2 : no_saves (c_order c2) = true) by congruence.
  pose proof (updates_linearizable R r0 progs2 sched Hl2 Hns2) as E2. fold c2 in E2.
  rewrite E1, E2, HSo. reflexivity.
Qed.

End CacheIndependence.

(* the cached shortcut (seeded mutation): writer 0 sets the first field to 1, writer 1 sets it to 2,
   writer 0 sets it to 1 again - its cached record already says 1, the update is skipped and
   reported done; the stored record keeps 2 *)
Definition set_fst (n : N) (r : N * N) : N * N := (n, snd r).
Definition same_nn (a b : N * N) : bool := (fst a =? fst b) && (snd a =? snd b).
Definition repeat_writers : list (list (op (N * N)) * (N * N)) :=
  [([OUpd (set_fst 1); OUpd (set_fst 1)], (0, 0)); ([OUpd (set_fst 2)], (0, 0))].
Definition repeat_sched : list nat :=
  [0; 0; 0; 0; 0; 0; 0; 1; 1; 1; 1; 1; 1; 1; 0; 0; 0; 0; 0; 0; 0]%nat.

Theorem cached_shortcut_refuted :
  let c := run_cached same_nn repeat_sched (init (FRec (0, 0)) repeat_writers) in
  let c' := run true repeat_sched (init (FRec (0, 0)) repeat_writers) in
  all_done c = true /\ c_file c = FRec (2, 0) /\
  all_done c' = true /\ c_file c' = FRec (1, 0).
Proof. vm_compute. auto. Qed.
