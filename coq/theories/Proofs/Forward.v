(* Proofs/Forward.v — lemmas about the forwarding model (Model/Forward.v): hop bound, notices,
   who may receive a datagram, reachability along next-hop chains. *)
From Coq Require Import String ZArith Lia ZifyN ZifyNat ZifyBool.
From Receptor Require Import Model.Forward.
Open Scope N_scope.

Lemma beq_ping_unreach : beq_bytes svc_unreach svc_ping = false.
Proof. vm_compute. reflexivity. Qed.

Lemma count_forward_app a b : count_forward (a ++ b) = (count_forward a + count_forward b)%nat.
Proof. unfold count_forward. rewrite filter_app, app_length. reflexivity. Qed.

Lemma count_deliver_app a b : count_deliver (a ++ b) = (count_deliver a + count_deliver b)%nat.
Proof. unfold count_deliver. rewrite filter_app, app_length. reflexivity. Qed.

Lemma notices_app w a b : notices w (a ++ b) = notices w a ++ notices w b.
Proof.
  induction a as [|e a IH]; cbn [app notices]; [reflexivity|].
  destruct (notice_of w e); cbn [app]; rewrite IH; reflexivity.
Qed.

(* ---------- shape of a walk: forwards, then exactly one terminal event ---------- *)

Definition terminal (e : event) : Prop := is_forward e = false.

Lemma local_dispatch_terminal w a m : terminal (local_dispatch w a m).
Proof.
  unfold local_dispatch, terminal.
  destruct (beq_bytes (m_tsvc m) svc_ping); [reflexivity|].
  destruct (beq_bytes (m_tsvc m) svc_unreach); [reflexivity|].
  destruct (w_listen w a (m_tsvc m)); reflexivity.
Qed.

Lemma route_walk_shape w m h : forall a,
  exists fs e, route_walk w a m h = fs ++ [e] /\ Forall (fun x => is_forward x = true) fs
               /\ terminal e /\ (length fs <= h)%nat.
Proof.
  induction h as [|h IH]; intro a; cbn [route_walk].
  - destruct (beq_bytes (m_to m) a).
    + exists [], (local_dispatch w a (set_hops m (N.of_nat 0))).
      repeat split; [constructor|apply local_dispatch_terminal|cbn; lia].
    + exists [], (EExpired a (set_hops m 0)). repeat split; [constructor|cbn; lia].
  - destruct (beq_bytes (m_to m) a).
    + exists [], (local_dispatch w a (set_hops m (N.of_nat (S h)))).
      repeat split; [constructor|apply local_dispatch_terminal|cbn; lia].
    + destruct (w_route w a (m_to m)) as [nx|].
      2:{ exists [], (ENoRoute a (set_hops m (N.of_nat (S h)))). repeat split; [constructor|cbn; lia]. }
      destruct (w_conn w a nx).
      2:{ exists [], (ENoConn a (set_hops m (N.of_nat (S h))) nx). repeat split; [constructor|cbn; lia]. }
      destruct (w_knows w nx (m_from m) && w_knows w nx (m_to m)).
      * destruct (IH nx) as (fs & e & E & F & T & L).
        exists (EForward a nx (set_hops m (N.of_nat h)) :: fs), e. rewrite E.
        repeat split; [constructor; [reflexivity|exact F]|exact T|cbn [length]; lia].
      * exists [EForward a nx (set_hops m (N.of_nat h))], (EDropped nx (set_hops m (N.of_nat h))).
        repeat split; [constructor; [reflexivity|constructor]|cbn [length]; lia].
Qed.

Lemma count_forward_all fs : Forall (fun x => is_forward x = true) fs -> count_forward fs = length fs.
Proof.
  unfold count_forward. induction 1 as [|x l Hx _ IH]; [reflexivity|].
  cbn [filter]. rewrite Hx. cbn [length]. rewrite IH. reflexivity.
Qed.

Lemma notices_forwards w fs : Forall (fun x => is_forward x = true) fs -> notices w fs = [].
Proof.
  induction 1 as [|x l Hx _ IH]; [reflexivity|]. cbn [notices].
  destruct x; try discriminate. cbn [notice_of]. exact IH.
Qed.

Lemma count_deliver_forwards fs : Forall (fun x => is_forward x = true) fs -> count_deliver fs = 0%nat.
Proof.
  unfold count_deliver. induction 1 as [|x l Hx _ IH]; [reflexivity|].
  destruct x; try discriminate. cbn [filter is_deliver]. exact IH.
Qed.

(* ---------- C10: the hop budget bounds forwarding, whatever the tables say ---------- *)

Lemma route_walk_forward_bound w a m h : (count_forward (route_walk w a m h) <= h)%nat.
Proof.
  destruct (route_walk_shape w m h a) as (fs & e & E & F & T & L). rewrite E.
  rewrite count_forward_app, (count_forward_all fs F).
  unfold count_forward. cbn [filter]. unfold terminal in T. rewrite T. cbn [length]. lia.
Qed.

Lemma route_walk_one_notice w a m h : (length (notices w (route_walk w a m h)) <= 1)%nat.
Proof.
  destruct (route_walk_shape w m h a) as (fs & e & E & F & T & L). rewrite E.
  rewrite notices_app, (notices_forwards w fs F). cbn [app notices].
  destruct (notice_of w e); cbn [length]; lia.
Qed.

Lemma route_walk_one_delivery w a m h : (count_deliver (route_walk w a m h) <= 1)%nat.
Proof.
  destruct (route_walk_shape w m h a) as (fs & e & E & F & T & L). rewrite E.
  rewrite count_deliver_app, (count_deliver_forwards fs F).
  unfold count_deliver. cbn [filter]. destruct (is_deliver e); cbn [length]; lia.
Qed.

Lemma mk_notice_is_notice w a p m : is_notice (mk_notice w a p m) = true.
Proof. unfold is_notice, mk_notice. cbn [m_fsvc m_tsvc]. rewrite beq_bytes_refl. reflexivity. Qed.

Lemma notices_are_notices w t : Forall (fun x => is_notice (snd x) = true) (notices w t).
Proof.
  induction t as [|e t IH]; cbn [notices]; [constructor|].
  destruct (notice_of w e) as [[n nm]|] eqn:E; [|exact IH].
  constructor; [|exact IH]. cbn [snd].
  destruct e; cbn [notice_of] in E; try discriminate.
  - destruct (beq_bytes (m_from m) at_); [discriminate|]. injection E as _ <-. apply mk_notice_is_notice.
  - destruct (beq_bytes (m_fsvc m) svc_unreach); [discriminate|]. injection E as _ <-. apply mk_notice_is_notice.
Qed.

(* a notice never generates a notice, and is never handed to a listener *)
Lemma notice_walk_quiet w m h : is_notice m = true ->
  forall a, notices w (route_walk w a m h) = [] /\ count_deliver (route_walk w a m h) = 0%nat.
Proof.
  unfold is_notice. intro H. apply andb_true_iff in H as [Hf Ht].
  apply beq_bytes_eq in Ht.
  assert (LD : forall a k, local_dispatch w a (set_hops m k) = EUnreach a (set_hops m k)).
  { intros a k. unfold local_dispatch, set_hops. cbn [m_tsvc]. rewrite Ht, beq_ping_unreach, beq_bytes_refl. reflexivity. }
  induction h as [|h IH]; intro a; cbn [route_walk].
  - destruct (beq_bytes (m_to m) a).
    + rewrite LD. split; reflexivity.
    + cbn [notices notice_of set_hops m_fsvc]. rewrite Hf. split; reflexivity.
  - destruct (beq_bytes (m_to m) a).
    + rewrite LD. split; reflexivity.
    + destruct (w_route w a (m_to m)) as [nx|]; [|split; reflexivity].
      destruct (w_conn w a nx); [|split; reflexivity].
      destruct (w_knows w nx (m_from m) && w_knows w nx (m_to m)).
      * destruct (IH nx) as [I1 I2]. cbn [notices notice_of]. split; [exact I1|].
        unfold count_deliver in *. cbn [filter is_deliver]. exact I2.
      * split; reflexivity.
Qed.

Lemma notice_part_quiet w l : Forall (fun x => is_notice (snd x) = true) l ->
  notices w (flat_map (fun x => route_walk w (fst x) (snd x) (w_maxhops w)) l) = []
  /\ count_deliver (flat_map (fun x => route_walk w (fst x) (snd x) (w_maxhops w)) l) = 0%nat.
Proof.
  induction 1 as [|x l Hx _ [I1 I2]]; [split; reflexivity|]. cbn [flat_map].
  destruct (notice_walk_quiet w (snd x) (w_maxhops w) Hx (fst x)) as [Q1 Q2].
  rewrite notices_app, count_deliver_app, Q1, Q2, I1, I2. split; reflexivity.
Qed.

Theorem notice_never_generates_notice w a m h :
  notices w (walk w a m h) = notices w (route_walk w a m h).
Proof.
  unfold walk. rewrite notices_app.
  destruct (notice_part_quiet w _ (notices_are_notices w (route_walk w a m h))) as [Q _].
  rewrite Q, app_nil_r. reflexivity.
Qed.

(* total traffic of one send: at most h forwards, plus at most maxhops for the one notice *)
Theorem hop_bound w a m h :
  (count_forward (route_walk w a m h) <= h)%nat /\
  (length (notices w (route_walk w a m h)) <= 1)%nat /\
  (count_forward (walk w a m h) <= h + w_maxhops w)%nat.
Proof.
  split; [apply route_walk_forward_bound|]. split; [apply route_walk_one_notice|].
  unfold walk. rewrite count_forward_app.
  pose proof (route_walk_forward_bound w a m h) as B.
  pose proof (route_walk_one_notice w a m h) as O.
  destruct (notices w (route_walk w a m h)) as [|x [|y l]]; cbn [flat_map length] in *.
  - unfold count_forward at 2. cbn. lia.
  - rewrite app_nil_r. pose proof (route_walk_forward_bound w (fst x) (snd x) (w_maxhops w)). lia.
  - lia.
Qed.

(* ---------- C02: only the addressee, at most once, with the packet's own fields ---------- *)

Lemma route_walk_deliver_to_addressee w m h : forall a n m',
  In (EDeliver n m') (route_walk w a m h) ->
  n = m_to m /\ (exists k, m' = set_hops m k) /\ w_listen w n (m_tsvc m) = true.
Proof.
  assert (LD : forall a k n m', local_dispatch w a (set_hops m k) = EDeliver n m' ->
             beq_bytes (m_to m) a = true ->
             n = m_to m /\ (exists k, m' = set_hops m k) /\ w_listen w n (m_tsvc m) = true).
  { intros a k n m' E B. apply beq_bytes_eq in B. unfold local_dispatch in E.
    change (m_tsvc (set_hops m k)) with (m_tsvc m) in E.
    destruct (beq_bytes (m_tsvc m) svc_ping); [discriminate|].
    destruct (beq_bytes (m_tsvc m) svc_unreach); [discriminate|].
    destruct (w_listen w a (m_tsvc m)) eqn:L; [|discriminate].
    injection E as <- <-. subst a. split; [reflexivity|]. split; [exists k; reflexivity|exact L]. }
  induction h as [|h IH]; intros a n m' H; cbn [route_walk] in H.
  - destruct (beq_bytes (m_to m) a) eqn:B.
    + destruct H as [H|[]]. apply (LD a _ n m' H B).
    + destruct H as [H|[]]. discriminate.
  - destruct (beq_bytes (m_to m) a) eqn:B.
    + destruct H as [H|[]]. apply (LD a _ n m' H B).
    + destruct (w_route w a (m_to m)) as [nx|]; [|destruct H as [H|[]]; discriminate].
      destruct (w_conn w a nx); [|destruct H as [H|[]]; discriminate].
      destruct H as [H|H]; [discriminate|].
      destruct (w_knows w nx (m_from m) && w_knows w nx (m_to m)).
      * apply (IH nx), H.
      * destruct H as [H|[]]. discriminate.
Qed.

Lemma In_count_deliver n m' t : In (EDeliver n m') t -> (1 <= count_deliver t)%nat.
Proof.
  unfold count_deliver. induction t as [|e t IH]; intros []; cbn [filter].
  - subst e. cbn [is_deliver length]. lia.
  - destruct (is_deliver e); cbn [length]; specialize (IH H); lia.
Qed.

Theorem delivered_only_to_addressee w a m h :
  (forall n m', In (EDeliver n m') (walk w a m h) ->
     n = m_to m /\ w_listen w n (m_tsvc m) = true /\
     m_from m' = m_from m /\ m_fsvc m' = m_fsvc m /\ m_to m' = m_to m /\
     m_tsvc m' = m_tsvc m /\ m_data m' = m_data m)
  /\ (count_deliver (walk w a m h) <= 1)%nat.
Proof.
  destruct (notice_part_quiet w _ (notices_are_notices w (route_walk w a m h))) as [_ Q].
  split.
  - intros n m' H. unfold walk in H. apply in_app_or in H as [H|H].
    + destruct (route_walk_deliver_to_addressee w m h a n m' H) as (E1 & [k E2] & E3).
      subst m'. repeat split; assumption || reflexivity.
    + apply In_count_deliver in H. lia.
  - unfold walk. rewrite count_deliver_app, Q. pose proof (route_walk_one_delivery w a m h). lia.
Qed.

(* a send that is refused for an over-long service name causes nothing anywhere *)
Theorem refused_send_causes_nothing w src fsvc to tsvc data h :
  send_refused fsvc tsvc = true ->
  send_api w src fsvc to tsvc data h = ([], SE_TOOLONG)
  /\ count_deliver (fst (send_api w src fsvc to tsvc data h)) = 0%nat
  /\ count_forward (fst (send_api w src fsvc to tsvc data h)) = 0%nat.
Proof. intro R. unfold send_api. rewrite R. repeat split. Qed.

(* ... and an accepted one is exactly the walk of the datagram *)
Theorem accepted_send_is_walk w src fsvc to tsvc data h :
  send_refused fsvc tsvc = false ->
  fst (send_api w src fsvc to tsvc data h) = walk w src (origin_msg src fsvc to tsvc data h) h.
Proof. intro R. unfold send_api. rewrite R. reflexivity. Qed.

(* ---------- C10: reach iff distance <= hops; expiry reported by the h-th node ---------- *)

Definition delivered (t : list event) : bool := existsb is_deliver t.

(* along a valid next-hop chain the walk is exactly the chain's trace *)
Lemma reach_trace w m ns : forall h,
  chain_ok w m ns = true -> route_walk w (hd [] ns) m h = chain_trace w m ns h.
Proof.
  induction ns as [|n r IH]; intros h C; [discriminate|].
  destruct r as [|n' r'].
  - cbn [chain_ok] in C. cbn [hd chain_trace].
    destruct h; cbn [route_walk]; rewrite C; reflexivity.
  - cbn [chain_ok] in C.
    destruct (beq_bytes (m_to m) n) eqn:B; [discriminate|].
    destruct (w_route w n (m_to m)) as [x|] eqn:R; [|discriminate].
    destruct (beq_bytes x n') eqn:Bx; [|discriminate]. apply beq_bytes_eq in Bx. subst x.
    destruct (w_conn w n n') eqn:Cn; [|discriminate].
    destruct (w_knows w n' (m_from m)) eqn:K1; [|discriminate].
    destruct (w_knows w n' (m_to m)) eqn:K2; [|discriminate].
    cbn [negb andb] in C. cbn [hd chain_trace].
    destruct h as [|h]; cbn [route_walk]; rewrite B; [reflexivity|].
    rewrite R, Cn, K1, K2. cbn [andb]. f_equal. apply (IH h C).
Qed.

Lemma chain_ok_last w m ns : chain_ok w m ns = true -> last ns [] = m_to m.
Proof.
  induction ns as [|n r IH]; [discriminate|]. destruct r as [|n' r'].
  - cbn [chain_ok last]. intro B. apply beq_bytes_eq in B. symmetry. exact B.
  - intro C. cbn [chain_ok] in C. change (last (n :: n' :: r') []) with (last (n' :: r') []).
    apply IH. repeat (apply andb_true_iff in C as [C ?]). assumption.
Qed.

(* d <= h: d forwards, then the local dispatch at the destination with h - d hops left *)
Lemma chain_trace_reached w m ns : forall h d,
  length ns = S d -> (d <= h)%nat ->
  exists fs, chain_trace w m ns h = fs ++ [local_dispatch w (last ns []) (set_hops m (N.of_nat (h - d)))]
             /\ Forall (fun x => is_forward x = true) fs /\ length fs = d.
Proof.
  induction ns as [|n r IH]; intros h d L Hd; [discriminate|]. destruct r as [|n' r'].
  - cbn [length] in L. injection L as <-. exists []. cbn [chain_trace last app].
    rewrite Nat.sub_0_r. repeat split. constructor.
  - destruct d as [|d]; [cbn [length] in L; lia|]. destruct h as [|h]; [lia|].
    change (chain_trace w m (n :: n' :: r') (S h))
      with (EForward n n' (set_hops m (N.of_nat h)) :: chain_trace w m (n' :: r') h).
    destruct (IH h d) as (fs & E & F & Lf); [cbn [length] in *; lia|lia|].
    exists (EForward n n' (set_hops m (N.of_nat h)) :: fs).
    change (last (n :: n' :: r') []) with (last (n' :: r') []).
    rewrite E. replace (S h - S d)%nat with (h - d)%nat by lia.
    repeat split; [constructor; [reflexivity|exact F]|cbn [length]; lia].
Qed.

(* h < d: h forwards, then Expired at the h-th node of the chain *)
Lemma chain_trace_expired w m ns : forall h d,
  length ns = S d -> (h < d)%nat ->
  exists fs, chain_trace w m ns h = fs ++ [EExpired (nth h ns []) (set_hops m 0)]
             /\ Forall (fun x => is_forward x = true) fs /\ length fs = h.
Proof.
  induction ns as [|n r IH]; intros h d L Hd; [discriminate|]. destruct r as [|n' r'].
  - cbn [length] in L. lia.
  - destruct d as [|d]; [lia|]. destruct h as [|h].
    + exists []. cbn [chain_trace nth app]. repeat split. constructor.
    + change (chain_trace w m (n :: n' :: r') (S h))
        with (EForward n n' (set_hops m (N.of_nat h)) :: chain_trace w m (n' :: r') h).
      destruct (IH h d) as (fs & E & F & Lf); [cbn [length] in *; lia|lia|].
      exists (EForward n n' (set_hops m (N.of_nat h)) :: fs).
      change (nth (S h) (n :: n' :: r') []) with (nth h (n' :: r') []).
      rewrite E. repeat split; [constructor; [reflexivity|exact F]|cbn [length]; lia].
Qed.

Lemma delivered_forwards fs e : Forall (fun x => is_forward x = true) fs ->
  delivered (fs ++ [e]) = is_deliver e.
Proof.
  unfold delivered. induction 1 as [|x l Hx _ IH]; cbn [app existsb].
  - apply orb_false_r.
  - destruct x; try discriminate. cbn [is_deliver orb]. exact IH.
Qed.

Definition plain_svc (s : bytes) : bool := negb (beq_bytes s svc_ping) && negb (beq_bytes s svc_unreach).

(* the property: with a current route of d links and a listener on the addressed service, the
   datagram is handed over iff d <= h; it takes exactly min(d,h) forwards; when h < d the
   walk ends with Expired at the h-th node of the route *)
Theorem reach_iff w m ns d h :
  chain_ok w m ns = true -> length ns = S d ->
  w_listen w (m_to m) (m_tsvc m) = true -> plain_svc (m_tsvc m) = true ->
  let t := route_walk w (hd [] ns) m h in
  delivered t = (d <=? h)%nat /\ count_forward t = Nat.min d h /\
  ((d <= h)%nat -> last t (EExpired [] m) = EDeliver (m_to m) (set_hops m (N.of_nat (h - d)))) /\
  ((h < d)%nat -> last t (EDeliver [] m) = EExpired (nth h ns []) (set_hops m 0)).
Proof.
  intros C L Li P t. subst t. rewrite (reach_trace w m ns h C).
  assert (LD : forall k, local_dispatch w (m_to m) (set_hops m k) = EDeliver (m_to m) (set_hops m k)).
  { intro k. unfold local_dispatch, plain_svc in *. change (m_tsvc (set_hops m k)) with (m_tsvc m).
    apply andb_true_iff in P as [P1 P2].
    destruct (beq_bytes (m_tsvc m) svc_ping); [discriminate|].
    destruct (beq_bytes (m_tsvc m) svc_unreach); [discriminate|]. rewrite Li. reflexivity. }
  destruct (Nat.le_gt_cases d h) as [Hd|Hd].
  - destruct (chain_trace_reached w m ns h d L Hd) as (fs & E & F & Lf).
    rewrite E, (chain_ok_last w m ns C), LD.
    rewrite (delivered_forwards fs _ F), count_forward_app, (count_forward_all fs F), !last_last.
    unfold count_forward. cbn [filter is_forward is_deliver length].
    repeat split; try lia.
  - destruct (chain_trace_expired w m ns h d L Hd) as (fs & E & F & Lf).
    rewrite E. rewrite (delivered_forwards fs _ F), count_forward_app, (count_forward_all fs F), !last_last.
    unfold count_forward. cbn [filter is_forward is_deliver length].
    repeat split; try lia.
Qed.

(* ... and the expiry is reported: the node where the budget ran out sends a notice to the
   origin, which reaches the origin's unreachable broker if that node has a route back of at most
   maxhops links *)
Lemma notices_last w fs e : Forall (fun x => is_forward x = true) fs ->
  notices w (fs ++ [e]) = match notice_of w e with Some x => [x] | None => [] end.
Proof.
  intro F. rewrite notices_app, (notices_forwards w fs F). cbn [app notices].
  destruct (notice_of w e); reflexivity.
Qed.

Theorem expiry_reported w m ns d h bs b :
  chain_ok w m ns = true -> length ns = S d -> (h < d)%nat ->
  beq_bytes (m_fsvc m) svc_unreach = false ->
  let at_ := nth h ns [] in
  let nm := mk_notice w at_ P_EXPIRED (set_hops m 0) in
  chain_ok w nm bs = true -> hd [] bs = at_ -> length bs = S b -> (b <= w_maxhops w)%nat ->
  In (EUnreach (m_from m) (set_hops nm (N.of_nat (w_maxhops w - b)))) (walk w (hd [] ns) m h).
Proof.
  intros C L Hd Fs at_ nm Cb Hb Lb Bb.
  unfold walk. apply in_or_app. right. rewrite (reach_trace w m ns h C).
  destruct (chain_trace_expired w m ns h d L Hd) as (fs & E & F & Lf).
  rewrite E, (notices_last w fs _ F). cbn [notice_of].
  change (m_fsvc (set_hops m 0)) with (m_fsvc m). rewrite Fs. cbn [flat_map fst snd].
  rewrite app_nil_r. fold at_. fold nm. rewrite <- Hb.
  rewrite (reach_trace w nm bs _ Cb).
  destruct (chain_trace_reached w nm bs (w_maxhops w) b Lb Bb) as (gs & E' & _ & _).
  rewrite E'. apply in_or_app. right. left.
  rewrite (chain_ok_last w nm bs Cb).
  unfold local_dispatch, nm, mk_notice, set_hops. cbn [m_tsvc m_to m_from].
  rewrite beq_ping_unreach, beq_bytes_refl. reflexivity.
Qed.

(* ---------- ping and traceroute along a route ---------- *)

Lemma chain_ok_ext w m m' ns :
  m_to m = m_to m' -> m_from m = m_from m' -> chain_ok w m ns = chain_ok w m' ns.
Proof.
  intros Et Ef. induction ns as [|n r IH]; [reflexivity|].
  destruct r as [|n' r']; cbn [chain_ok]; rewrite Et; [reflexivity|].
  rewrite Ef. cbn [chain_ok] in IH. rewrite Et, Ef in IH. rewrite IH. reflexivity.
Qed.

Lemma chain_ok_with_listener w n s m ns : chain_ok (with_listener w n s) m ns = chain_ok w m ns.
Proof.
  induction ns as [|a r IH]; [reflexivity|].
  destruct r as [|a' r']; cbn [chain_ok]; [reflexivity|].
  cbn [chain_ok] in IH. rewrite IH. reflexivity.
Qed.

Lemma prefixb_app a b : prefixb a (a ++ b) = true.
Proof. induction a as [|x a IH]; cbn [prefixb app]; [reflexivity|]. rewrite N.eqb_refl. exact IH. Qed.

Lemma find_ping_forwards fs t : Forall (fun x => is_forward x = true) fs -> find_ping (fs ++ t) = find_ping t.
Proof. induction 1 as [|x l Hx _ IH]; [reflexivity|]. destruct x; try discriminate. exact IH. Qed.

Lemma find_notice_forwards s e fs t : Forall (fun x => is_forward x = true) fs ->
  find_notice s e (fs ++ t) = find_notice s e t.
Proof. induction 1 as [|x l Hx _ IH]; [reflexivity|]. destruct x; try discriminate. exact IH. Qed.

Lemma has_deliver_forwards n s fs t : Forall (fun x => is_forward x = true) fs ->
  has_deliver_at n s (fs ++ t) = has_deliver_at n s t.
Proof.
  unfold has_deliver_at. induction 1 as [|x l Hx _ IH]; [reflexivity|].
  destruct x; try discriminate. cbn [app existsb orb]. exact IH.
Qed.

Lemma send_error_forwards src fs e t : Forall (fun x => is_forward x = true) fs ->
  (forall a m, e <> ENoRoute a m) -> (forall a m, e <> EUnknown a m) ->
  send_error src (fs ++ e :: t) = SE_NONE.
Proof.
  intros F H1 H3. destruct F as [|x l Hx _].
  - cbn [app]. destruct e; try reflexivity.
    + exfalso. eapply H3. reflexivity.
    + exfalso. eapply H1. reflexivity.
  - destruct x; try discriminate. reflexivity.
Qed.

Section Traceroute.
  Variables (w0 : world) (src dst eph : bytes).
  Let w := with_listener w0 src eph.
  Let pm (h : nat) := origin_msg src eph dst svc_ping [] h.
  Let rm := origin_msg dst svc_ping src eph [] (w_maxhops w0).
  Let nm (i : nat) (at_ : node) := mk_notice w at_ P_EXPIRED (set_hops (pm i) 0).

  Hypothesis src_plain : is_localhost src = false.
  Hypothesis dst_plain : is_localhost dst = false.
  Hypothesis eph_plain : plain_svc eph = true.

  Variable ns : list node.            (* the route src .. dst *)
  Variable d : nat.
  Hypothesis route_ok : chain_ok w0 (pm 0) ns = true.
  Hypothesis route_hd : hd [] ns = src.
  Hypothesis route_len : length ns = S d.

  (* every node of the route before dst has a route back to src within maxhops *)
  Variable back : nat -> list node.
  Hypothesis back_ok : forall i, (i < d)%nat ->
    chain_ok w0 (nm i (nth i ns [])) (back i) = true
    /\ hd [] (back i) = nth i ns [] /\ (length (back i) <= S (w_maxhops w0))%nat.
  (* and so has dst *)
  Variable rs : list node.
  Hypothesis reply_ok : chain_ok w0 rm rs = true.
  Hypothesis reply_hd : hd [] rs = dst.
  Hypothesis reply_len : (length rs <= S (w_maxhops w0))%nat.

  Lemma canon_src_dst : canon src dst = dst.
  Proof. unfold canon. rewrite dst_plain. reflexivity. Qed.
  Lemma canon_dst_src : canon dst src = src.
  Proof. unfold canon. rewrite src_plain. reflexivity. Qed.

  Lemma route_ok_w h : chain_ok w (pm h) ns = true.
  Proof.
    unfold w. rewrite chain_ok_with_listener.
    rewrite (chain_ok_ext w0 (pm h) (pm 0) ns); [exact route_ok|reflexivity|reflexivity].
  Qed.

  Lemma eph_not_unreach : beq_bytes eph svc_unreach = false.
  Proof.
    unfold plain_svc in eph_plain. apply andb_true_iff in eph_plain as [_ P2].
    destruct (beq_bytes eph svc_unreach); [discriminate|reflexivity].
  Qed.
  Lemma eph_not_ping : beq_bytes eph svc_ping = false.
  Proof.
    unfold plain_svc in eph_plain. apply andb_true_iff in eph_plain as [P1 _].
    destruct (beq_bytes eph svc_ping); [discriminate|reflexivity].
  Qed.

  (* everything a ping with budget i < d causes *)
  Lemma walk_expired i : (i < d)%nat ->
    exists fs gs nmm,
      walk w src (pm i) i = fs ++ EExpired (nth i ns []) (set_hops (pm i) 0) :: gs ++ [EUnreach src nmm]
      /\ Forall (fun x => is_forward x = true) fs /\ Forall (fun x => is_forward x = true) gs
      /\ m_from nmm = nth i ns [] /\ m_data nmm = notice_data P_EXPIRED (set_hops (pm i) 0).
  Proof.
    intro Hi. unfold walk.
    pose proof (reach_trace w (pm i) ns i (route_ok_w i)) as RW. rewrite route_hd in RW. rewrite RW.
    destruct (chain_trace_expired w (pm i) ns i d route_len Hi) as (fs & E & F & Lf).
    rewrite E, (notices_last w fs _ F). cbn [notice_of].
    change (m_fsvc (set_hops (pm i) 0)) with eph. rewrite eph_not_unreach.
    cbn [flat_map fst snd]. rewrite app_nil_r. fold (nm i (nth i ns [])).
    destruct (back_ok i Hi) as (Bok & Bhd & Blen).
    assert (Bok' : chain_ok w (nm i (nth i ns [])) (back i) = true)
      by (unfold w; rewrite chain_ok_with_listener; exact Bok).
    pose proof (reach_trace w _ (back i) (w_maxhops w) Bok') as RB. rewrite Bhd in RB. rewrite RB.
    destruct (back i) as [|b0 br] eqn:EB; [discriminate|].
    destruct (chain_trace_reached w (nm i (nth i ns [])) (b0 :: br) (w_maxhops w) (length br))
      as (gs & E' & G & _); [reflexivity|unfold w; cbn [w_maxhops with_listener length] in *; lia|].
    rewrite E', (chain_ok_last w _ _ Bok').
    set (nmm := set_hops (nm i (nth i ns [])) (N.of_nat (w_maxhops w - length br))).
    assert (LD : local_dispatch w (m_to (nm i (nth i ns []))) nmm = EUnreach src nmm).
    { unfold local_dispatch, nmm, nm, mk_notice, set_hops. cbn [m_tsvc m_to m_from].
      rewrite beq_ping_unreach, beq_bytes_refl. reflexivity. }
    rewrite LD. exists fs, gs, nmm. rewrite <- app_assoc. cbn [app].
    repeat split; assumption || reflexivity.
  Qed.

  (* budget i < d: "message expired" from the i-th node of the route *)
  Lemma ping_expired i : (i < d)%nat -> ping w0 src dst eph i = PErr (nth i ns []) P_EXPIRED.
  Proof.
    intro Hi. unfold ping. fold w. unfold send. fold (pm i).
    destruct (walk_expired i Hi) as (fs & gs & nmm & E & F & G & Hf & Hd). rewrite E. cbv zeta.
    rewrite send_error_forwards by (try exact F; intros; discriminate). cbn [N.eqb SE_NONE negb].
    rewrite (find_ping_forwards fs _ F). cbn [find_ping]. rewrite (find_ping_forwards gs _ G). cbn [find_ping].
    rewrite (find_notice_forwards src eph fs _ F). cbn [find_notice].
    rewrite (find_notice_forwards src eph gs _ G). cbn [find_notice]. rewrite beq_bytes_refl, Hd, Hf.
    unfold notice_data, pm, origin_msg, set_hops. cbn [m_from m_fsvc m_to m_tsvc].
    rewrite app_assoc, prefixb_app. reflexivity.
  Qed.

  (* everything a ping with budget h >= d causes, and the reply *)
  Lemma walk_reached h : (d <= h)%nat ->
    exists fs pmm, walk w src (pm h) h = fs ++ [EPing dst pmm]
      /\ Forall (fun x => is_forward x = true) fs /\ m_from pmm = src /\ m_fsvc pmm = eph.
  Proof.
    intro Hd. unfold walk.
    pose proof (reach_trace w (pm h) ns h (route_ok_w h)) as RW. rewrite route_hd in RW. rewrite RW.
    destruct (chain_trace_reached w (pm h) ns h d route_len Hd) as (fs & E & F & Lf).
    rewrite E, (chain_ok_last w _ _ (route_ok_w h)).
    set (pmm := set_hops (pm h) (N.of_nat (h - d))).
    assert (LD : local_dispatch w (m_to (pm h)) pmm = EPing dst pmm).
    { unfold local_dispatch, pmm, pm, origin_msg, set_hops. cbn [m_tsvc m_to].
      rewrite beq_bytes_refl, canon_src_dst. reflexivity. }
    rewrite LD, (notices_last w fs _ F). cbn [notice_of flat_map]. rewrite app_nil_r.
    exists fs, pmm. repeat split; assumption || reflexivity.
  Qed.

  Lemma walk_reply : exists gs rmm, walk w dst rm (w_maxhops w0) = gs ++ [EDeliver src rmm]
      /\ Forall (fun x => is_forward x = true) gs /\ m_tsvc rmm = eph.
  Proof.
    unfold walk.
    assert (Rok : chain_ok w rm rs = true) by (unfold w; rewrite chain_ok_with_listener; exact reply_ok).
    pose proof (reach_trace w rm rs (w_maxhops w0) Rok) as RW. rewrite reply_hd in RW. rewrite RW.
    destruct rs as [|r0 rr] eqn:ER; [discriminate|].
    destruct (chain_trace_reached w rm (r0 :: rr) (w_maxhops w0) (length rr)) as (gs & E' & G & _);
      [reflexivity|cbn [length] in reply_len; lia|].
    rewrite E', (chain_ok_last w _ _ Rok).
    set (rmm := set_hops rm (N.of_nat (w_maxhops w0 - length rr))).
    assert (LR : local_dispatch w (m_to rm) rmm = EDeliver src rmm).
    { unfold local_dispatch, rmm, rm, origin_msg, set_hops. cbn [m_tsvc m_to].
      rewrite canon_dst_src, eph_not_ping, eph_not_unreach.
      unfold w. cbn [w_listen with_listener]. rewrite !beq_bytes_refl, orb_true_r. reflexivity. }
    rewrite LR, (notices_last w gs _ G). cbn [notice_of flat_map]. rewrite app_nil_r.
    exists gs, rmm. repeat split; assumption || reflexivity.
  Qed.

  (* budget h >= d: the reply of dst *)
  Lemma ping_reached h : (d <= h)%nat -> ping w0 src dst eph h = PReply dst.
  Proof.
    intro Hd. unfold ping. fold w. unfold send. fold (pm h).
    destruct (walk_reached h Hd) as (fs & pmm & E & F & Hf & Hs). rewrite E. cbv zeta.
    rewrite send_error_forwards by (try exact F; intros; discriminate). cbn [N.eqb SE_NONE negb].
    rewrite (find_ping_forwards fs _ F). cbn [find_ping]. rewrite Hs, Hf, eph_not_ping.
    change (w_maxhops w) with (w_maxhops w0). fold rm.
    destruct walk_reply as (gs & rmm & E' & G & Ht). rewrite E'.
    rewrite (has_deliver_forwards src eph gs _ G).
    unfold has_deliver_at. cbn [existsb]. rewrite Ht, !beq_bytes_refl. reflexivity.
  Qed.

  Lemma traceroute_from_route : forall k i n, (i + k = d)%nat -> (k < n)%nat ->
    traceroute_from w0 src dst eph i n
    = map (fun a => PErr a P_EXPIRED) (firstn k (skipn i ns)) ++ [PReply dst].
  Proof.
    induction k as [|k IH]; intros i n Hik Hn.
    - destruct n as [|n]; [lia|]. cbn [traceroute_from firstn map app].
      rewrite ping_reached by lia. reflexivity.
    - destruct n as [|n]; [lia|]. cbn [traceroute_from].
      rewrite ping_expired by lia. cbn [P_EXPIRED N.eqb Pos.eqb].
      rewrite (IH (S i) n) by lia.
      assert (Hlen : (i < length ns)%nat) by lia.
      assert (Sk : skipn i ns = nth i ns [] :: skipn (S i) ns).
      { clear -Hlen. revert i Hlen. induction ns as [|a l IHl]; intros i Hi; [cbn in Hi; lia|].
        destruct i; [reflexivity|]. cbn [skipn nth]. apply IHl. cbn [length] in Hi. lia. }
      rewrite Sk. reflexivity.
  Qed.

  (* traceroute lists the nodes of the route in order and ends with the target's reply *)
  Theorem traceroute_lists_path : (d <= w_maxhops w0)%nat ->
    traceroute w0 src dst eph = map (fun a => PErr a P_EXPIRED) (removelast ns) ++ [PReply dst].
  Proof.
    intro Hd. unfold traceroute. rewrite (traceroute_from_route d 0 (S (w_maxhops w0))) by lia.
    cbn [skipn]. do 2 f_equal.
    assert (G : forall (l : list node) k, length l = S k -> firstn k l = removelast l).
    { clear. induction l as [|a l IH]; intros k Hk; [discriminate|].
      destruct l as [|b l']; [cbn in Hk; injection Hk as <-; reflexivity|].
      destruct k; [discriminate|]. cbn [firstn]. change (removelast (a :: b :: l')) with (a :: removelast (b :: l')).
      f_equal. apply IH. cbn [length] in *. lia. }
    apply G, route_len.
  Qed.
End Traceroute.
