(* Proofs/Wire.v — lemmas about the wire codec model (Model/Wire.v). *)
From Coq Require Import String ZArith Lia ZifyN ZifyNat ZifyBool.
From Receptor Require Import Model.Wire.
Open Scope N_scope.

(* ---------- service names: pad / strip ---------- *)

Lemma strip_nul_app_zeros s k : strip_nul (s ++ repeat 0 k) = strip_nul s.
Proof.
  induction s as [|x s IH]; cbn [app strip_nul].
  - induction k as [|k IHk]; cbn [repeat strip_nul]; [reflexivity|].
    rewrite IHk. reflexivity.
  - rewrite IH. reflexivity.
Qed.

Lemma strip_nul_nonzero s :
  forallb (fun b => negb (b =? 0)) s = true -> strip_nul s = s.
Proof.
  induction s as [|x s IH]; cbn [forallb strip_nul]; intro H; [reflexivity|].
  apply andb_true_iff in H as [Hx Hs]. rewrite (IH Hs).
  destruct s as [|y s']; [|reflexivity].
  destruct (x =? 0); [discriminate|reflexivity].
Qed.

Lemma firstn_repeat_min {A} (a : A) n m : firstn n (repeat a m) = repeat a (Nat.min n m).
Proof.
  revert m; induction n as [|n IH]; intros [|m]; cbn [firstn repeat Nat.min]; try reflexivity.
  f_equal. apply IH.
Qed.

Lemma pad8_short s : (length s <= 8)%nat -> pad8 s = s ++ repeat 0 (8 - length s).
Proof.
  intro H. unfold pad8. rewrite firstn_app.
  rewrite firstn_all2 by lia. f_equal.
  rewrite firstn_repeat_min. f_equal. lia.
Qed.

Lemma pad8_length s : length (pad8 s) = 8%nat.
Proof.
  unfold pad8. rewrite firstn_length, app_length, repeat_length. lia.
Qed.

Lemma svc_ok_length s : svc_ok s = true -> (1 <= length s <= 8)%nat.
Proof. unfold svc_ok, blen. intro H. lia. Qed.

Lemma svc_ok_nonzero s : svc_ok s = true -> forallb (fun b => negb (b =? 0)) s = true.
Proof. unfold svc_ok. intro H. apply andb_true_iff in H as [_ H]. exact H. Qed.

(* the service name survives the 8-byte field *)
Lemma strip_pad_id s : svc_ok s = true -> strip_nul (pad8 s) = s.
Proof.
  intro H. rewrite pad8_short by (apply svc_ok_length in H; lia).
  rewrite strip_nul_app_zeros. apply strip_nul_nonzero, svc_ok_nonzero, H.
Qed.

(* stripping only removes zeros on the right *)
Lemma strip_nul_decomp x : exists k, x = strip_nul x ++ repeat 0 k.
Proof.
  induction x as [|a x [k IH]]; cbn [strip_nul].
  - exists 0%nat. reflexivity.
  - destruct (strip_nul x) as [|b r] eqn:E.
    + destruct (a =? 0) eqn:Ea.
      * exists (S k). cbn [app repeat]. apply N.eqb_eq in Ea. subst a. f_equal. exact IH.
      * exists k. cbn [app]. f_equal. exact IH.
    + exists k. cbn [app]. f_equal. exact IH.
Qed.

(* a received 8-byte field is reproduced exactly when the name is written again *)
Lemma pad_strip_id x : length x = 8%nat -> pad8 (strip_nul x) = x.
Proof.
  intro L. destruct (strip_nul_decomp x) as [k E].
  assert (Lk : (length (strip_nul x) + k = 8)%nat).
  { pose proof (f_equal (@length N) E) as EL. rewrite app_length, repeat_length in EL. lia. }
  unfold pad8. rewrite firstn_app, firstn_all2 by lia.
  rewrite firstn_repeat_min. replace (Nat.min (8 - length (strip_nul x)) 8) with k by lia.
  symmetry. exact E.
Qed.

(* the 8-byte boundary, and why NULs are excluded *)
Example svc_ok_eight : svc_ok (str "abcdefgh"%string) = true
                       /\ strip_nul (pad8 (str "abcdefgh"%string)) = str "abcdefgh"%string.
Proof. split; vm_compute; reflexivity. Qed.
Example svc_ok_one : svc_ok [255] = true /\ strip_nul (pad8 [255]) = [255].
Proof. split; vm_compute; reflexivity. Qed.
Example nine_bytes_cut : svc_ok (str "abcdefghi"%string) = false
                         /\ strip_nul (pad8 (str "abcdefghi"%string)) = str "abcdefgh"%string.
Proof. split; vm_compute; reflexivity. Qed.
Example trailing_nul_lost : svc_ok [97; 0] = false /\ strip_nul (pad8 [97; 0]) = [97].
Proof. split; vm_compute; reflexivity. Qed.
Example inner_nul_kept : strip_nul (pad8 [97; 0; 98]) = [97; 0; 98].
Proof. vm_compute. reflexivity. Qed.
Example empty_name_is_all_nul : pad8 [] = pad8 [0; 0] /\ strip_nul (pad8 [0; 0]) = [].
Proof. split; vm_compute; reflexivity. Qed.

(* ---------- big-endian integers ---------- *)

Fixpoint p256 (k : nat) : N := match k with O => 1 | S k' => 256 * p256 k' end.

Lemma p256_pos k : 0 < p256 k.
Proof. induction k; cbn [p256]; lia. Qed.

Lemma p256_8 : p256 8 = two64.
Proof. vm_compute. reflexivity. Qed.

Lemma be_enc_length k n : length (be_enc k n) = k.
Proof.
  revert n; induction k as [|k IH]; intro n; cbn [be_enc]; [reflexivity|].
  rewrite app_length, IH. cbn [length]. lia.
Qed.

Lemma be_dec_app a b acc : be_dec (a ++ b) acc = be_dec b (be_dec a acc).
Proof. revert acc; induction a as [|x a IH]; intro acc; cbn [app be_dec]; [reflexivity|apply IH]. Qed.

Lemma be_dec_enc k n acc : be_dec (be_enc k n) acc = acc * p256 k + n mod p256 k.
Proof.
  revert n acc; induction k as [|k IH]; intros n acc; cbn [be_enc p256].
  - cbn [be_dec]. rewrite N.mod_1_r. lia.
  - rewrite be_dec_app, IH. cbn [be_dec].
    pose proof (p256_pos k) as Hp.
    rewrite (N.mod_mul_r n 256 (p256 k)) by lia. lia.
Qed.

Lemma be_dec_enc8 n : be_dec (be_enc 8 n) 0 = n mod two64.
Proof. rewrite be_dec_enc, p256_8. lia. Qed.

Lemma bytes_ok_app a b : bytes_ok (a ++ b) = bytes_ok a && bytes_ok b.
Proof. unfold bytes_ok. apply forallb_app. Qed.

Lemma be_enc_dec b : bytes_ok b = true -> be_enc (length b) (be_dec b 0) = b.
Proof.
  induction b as [|x b IH] using rev_ind; intro H; [reflexivity|].
  rewrite bytes_ok_app in H. apply andb_true_iff in H as [Hb Hx].
  unfold bytes_ok in Hx. cbn [forallb] in Hx.
  assert (x < 256) by lia.
  rewrite app_length. cbn [length]. rewrite Nat.add_1_r. cbn [be_enc].
  rewrite be_dec_app. cbn [be_dec].
  replace ((be_dec b 0 * 256 + x) / 256) with (be_dec b 0).
  2:{ apply N.div_unique with (r := x); lia. }
  replace ((be_dec b 0 * 256 + x) mod 256) with x.
  2:{ apply N.mod_unique with (q := be_dec b 0); lia. }
  rewrite (IH Hb). reflexivity.
Qed.

Lemma be_enc8_dec x : length x = 8%nat -> bytes_ok x = true -> be_enc 8 (be_dec x 0) = x.
Proof. intros L H. rewrite <- L. apply be_enc_dec, H. Qed.

Lemma be_dec_lt b : bytes_ok b = true -> be_dec b 0 < p256 (length b).
Proof.
  induction b as [|x b IH] using rev_ind; intro H; [cbn; lia|].
  rewrite bytes_ok_app in H. apply andb_true_iff in H as [Hb Hx].
  unfold bytes_ok in Hx. cbn [forallb] in Hx.
  rewrite be_dec_app, app_length. cbn [be_dec length]. rewrite Nat.add_1_r. cbn [p256].
  specialize (IH Hb). lia.
Qed.

(* ---------- slicing a packet ---------- *)

Lemma firstn_app_exact {A} (a r : list A) n : length a = n -> firstn n (a ++ r) = a.
Proof.
  intro L. subst n. rewrite firstn_app, Nat.sub_diag. cbn [firstn].
  rewrite firstn_all, app_nil_r. reflexivity.
Qed.

Lemma skipn_app_exact {A} (a r : list A) n : length a = n -> skipn n (a ++ r) = r.
Proof.
  intro L. subst n. rewrite skipn_app, Nat.sub_diag, skipn_all. reflexivity.
Qed.

Lemma packet_fields (h a1 a2 a3 a4 d : bytes) :
  length h = 4%nat -> length a1 = 8%nat -> length a2 = 8%nat -> length a3 = 8%nat ->
  length a4 = 8%nat ->
  let b := h ++ a1 ++ a2 ++ a3 ++ a4 ++ d in
  firstn 8 (skipn 4 b) = a1 /\ firstn 8 (skipn 12 b) = a2 /\ firstn 8 (skipn 20 b) = a3 /\
  firstn 8 (skipn 28 b) = a4 /\ skipn 36 b = d /\ length b = (36 + length d)%nat.
Proof.
  intros Lh L1 L2 L3 L4 b. subst b. repeat split.
  - rewrite (skipn_app_exact h) by exact Lh. apply firstn_app_exact, L1.
  - rewrite (app_assoc h a1). rewrite skipn_app_exact by (rewrite app_length; lia).
    apply firstn_app_exact, L2.
  - rewrite (app_assoc h a1), (app_assoc (h ++ a1) a2).
    rewrite skipn_app_exact by (rewrite !app_length; lia). apply firstn_app_exact, L3.
  - rewrite (app_assoc h a1), (app_assoc (h ++ a1) a2), (app_assoc ((h ++ a1) ++ a2) a3).
    rewrite skipn_app_exact by (rewrite !app_length; lia). apply firstn_app_exact, L4.
  - rewrite (app_assoc h a1), (app_assoc (h ++ a1) a2), (app_assoc ((h ++ a1) ++ a2) a3),
      (app_assoc (((h ++ a1) ++ a2) ++ a3) a4).
    apply skipn_app_exact. rewrite !app_length. lia.
  - rewrite !app_length. lia.
Qed.

(* ---------- the localhost alias ---------- *)

Lemma canon_idem self name : canon self (canon self name) = canon self name.
Proof.
  unfold canon. destruct (is_localhost name) eqn:E.
  - destruct (is_localhost self); reflexivity.
  - rewrite E. reflexivity.
Qed.

Lemma canon_plain self name : is_localhost name = false -> canon self name = name.
Proof. unfold canon. intros ->. reflexivity. Qed.

Example localhost_spellings :
  is_localhost (str "localhost"%string) = true /\ is_localhost (str "LocalHOST"%string) = true /\
  is_localhost (hx "6c6f63616c686fc5bf74"%string) = true /\      (* "localhoſt", U+017F *)
  is_localhost (str "localhost1"%string) = false /\ is_localhost (str "localhos"%string) = false.
Proof. vm_compute. repeat split; reflexivity. Qed.

(* ---------- the hash table ---------- *)

Lemma lookup_app h t u :
  lookup h (t ++ u) = match lookup h t with Some v => Some v | None => lookup h u end.
Proof.
  induction t as [|[k v] t IH]; cbn [app lookup]; [reflexivity|].
  destruct (k =? h); [reflexivity|apply IH].
Qed.

Lemma lookup_In h t v : lookup h t = Some v -> In (h, v) t.
Proof.
  induction t as [|[k w] t IH]; cbn [lookup]; [discriminate|].
  destruct (k =? h) eqn:E.
  - intro H. injection H as ->. apply N.eqb_eq in E. subst. left. reflexivity.
  - intro H. right. apply IH, H.
Qed.

Section WithHash.
  Variable hash : bytes -> N.
  Notation hash64 := (hash64 hash).
  Notation add_name := (add_name hash).
  Notation encode_msg := (encode_msg hash).
  Notation tbl_wf := (tbl_wf hash).
  Notation hash_inj_on := (hash_inj_on hash).

  Lemma hash64_lt name : hash64 name < two64.
  Proof. unfold Wire.hash64. apply N.mod_lt. discriminate. Qed.

  Lemma tbl_wf_nil self : tbl_wf self [].
  Proof. intros h n []. Qed.

  (* AddNameHash keeps the table well formed ... *)
  Lemma tbl_wf_add self t name : tbl_wf self t -> tbl_wf self (snd (add_name self t name)).
  Proof.
    intros W h n. unfold Wire.add_name, add_hash. cbn [snd].
    destruct (lookup (hash64 (canon self name)) t); [apply W|].
    intro H. apply in_app_or in H as [H|H]; [apply W, H|].
    destruct H as [H|[]]. injection H as <- <-. split; [reflexivity|apply canon_idem].
  Qed.

  Lemma tbl_wf_add_names self names t : tbl_wf self t -> tbl_wf self (add_names hash self t names).
  Proof.
    revert t; induction names as [|n r IH]; intros t W; cbn [add_names]; [exact W|].
    apply IH, tbl_wf_add, W.
  Qed.

  (* ... never forgets or changes an entry (first entry wins) ... *)
  Lemma lookup_add_keep self t name h v :
    lookup h t = Some v -> lookup h (snd (add_name self t name)) = Some v.
  Proof.
    intro H. unfold Wire.add_name, add_hash. cbn [snd].
    destruct (lookup (hash64 (canon self name)) t); [exact H|].
    rewrite lookup_app, H. reflexivity.
  Qed.

  (* ... and afterwards the hash of the name resolves to something *)
  Lemma lookup_add_same self t name :
    exists v, lookup (hash64 (canon self name)) (snd (add_name self t name)) = Some v
              /\ (lookup (hash64 (canon self name)) t = None -> v = canon self name).
  Proof.
    unfold Wire.add_name, add_hash. cbn [snd].
    destruct (lookup (hash64 (canon self name)) t) as [v|] eqn:E.
    - exists v. split; [exact E|discriminate].
    - exists (canon self name). rewrite lookup_app, E. cbn [lookup]. rewrite N.eqb_refl.
      split; reflexivity.
  Qed.

  Lemma names_add self t name :
    incl (tbl_names (snd (add_name self t name))) (canon self name :: tbl_names t).
  Proof.
    unfold Wire.add_name, add_hash, tbl_names. cbn [snd].
    destruct (lookup (hash64 (canon self name)) t).
    - intros x Hx. right. exact Hx.
    - rewrite map_app. cbn [map snd]. intros x Hx. apply in_app_or in Hx as [Hx|[<-|[]]].
      + right. exact Hx.
      + left. reflexivity.
  Qed.

  (* a name that is in a well-formed, collision-free table is found under its hash *)
  Lemma lookup_known self t n :
    tbl_wf self t -> hash_inj_on (tbl_names t) -> In n (tbl_names t) ->
    lookup (hash64 n) t = Some n.
  Proof.
    induction t as [|[k v] t IH]; intros W I Hn; [destruct Hn|].
    cbn [lookup]. destruct (k =? hash64 n) eqn:E.
    - apply N.eqb_eq in E. destruct (W k v (or_introl eq_refl)) as [Hk _].
      f_equal. apply I; [left; reflexivity|exact Hn|]. rewrite <- Hk. exact E.
    - apply IH.
      + intros h m Hm. apply W. right. exact Hm.
      + intros a b Ha Hb. apply I; right; assumption.
      + destruct Hn as [Hn|Hn]; [|exact Hn]. cbn [snd] in Hn. subst v.
        destruct (W k n (or_introl eq_refl)) as [Hk _]. subst k. rewrite N.eqb_refl in E.
        discriminate.
  Qed.

  (* the table of a node that has added the names [ns] knows each of them, provided the hash
     does not collide on them *)
  Lemma add_names_known self ns :
    hash_inj_on (map (canon self) (self :: ns)) ->
    forall n, In n (self :: ns) ->
      lookup (hash64 (canon self n)) (add_names hash self (init_tbl hash self) ns) = Some (canon self n).
  Proof.
    intros I.
    assert (G : forall l t, (forall x, In x (tbl_names t) -> In x (map (canon self) (self :: ns))) ->
                tbl_wf self t -> incl l ns ->
                (forall x, In x (tbl_names (add_names hash self t l)) -> In x (map (canon self) (self :: ns)))
                /\ forall n, (In (canon self n) (tbl_names t) \/ In n l) ->
                     In (canon self n) (tbl_names (add_names hash self t l))).
    { induction l as [|a l IH]; intros t Ht W Hl; cbn [add_names].
      - split; [exact Ht|]. intros n [H|[]]. exact H.
      - assert (Ha : In a ns) by (apply Hl; left; reflexivity).
        destruct (IH (snd (add_name self t a))) as [G1 G2].
        + intros x Hx. apply names_add in Hx as [<-|Hx]; [|apply Ht, Hx].
          apply in_map. right. exact Ha.
        + apply tbl_wf_add, W.
        + intros x Hx. apply Hl. right. exact Hx.
        + split; [exact G1|]. intros n [H|[<-|H]].
          * apply G2. left.
            unfold Wire.add_name, add_hash, tbl_names. cbn [snd].
            destruct (lookup (hash64 (canon self a)) t); [exact H|].
            rewrite map_app. apply in_or_app. left. exact H.
          * apply G2. left.
            unfold Wire.add_name, add_hash, tbl_names. cbn [snd].
            destruct (lookup (hash64 (canon self a)) t) as [v|] eqn:E.
            -- apply lookup_In in E. destruct (W _ _ E) as [Hh Hc].
               assert (v = canon self a).
               { apply I; [apply Ht; apply (in_map snd) in E; exact E| |symmetry; exact Hh].
                 apply in_map. right. exact Ha. }
               subst v. apply (in_map snd) in E. exact E.
            -- rewrite map_app. apply in_or_app. right. left. reflexivity.
          * apply G2. right. exact H. }
    intros n Hn.
    assert (W0 : tbl_wf self (init_tbl hash self)) by (apply tbl_wf_add, tbl_wf_nil).
    assert (N0 : forall x, In x (tbl_names (init_tbl hash self)) -> In x (map (canon self) (self :: ns))).
    { intros x Hx. apply names_add in Hx as [<-|[]]. left. reflexivity. }
    destruct (G ns (init_tbl hash self) N0 W0 (incl_refl _)) as [G1 G2].
    apply (lookup_known self).
    - apply tbl_wf_add_names, W0.
    - intros a b Ha Hb. apply I; apply G1; assumption.
    - apply G2. destruct Hn as [<-|Hn]; [left|right; exact Hn].
      unfold init_tbl, Wire.add_name, add_hash, tbl_names. cbn. left. reflexivity.
  Qed.

  (* ---------- the codec ---------- *)

  Lemma encode_fields self m :
    let b := encode_msg self m in
    firstn 8 (skipn 4 b) = be_enc 8 (hash64 (canon self (m_from m))) /\
    firstn 8 (skipn 12 b) = be_enc 8 (hash64 (canon self (m_to m))) /\
    firstn 8 (skipn 20 b) = pad8 (m_fsvc m) /\ firstn 8 (skipn 28 b) = pad8 (m_tsvc m) /\
    skipn 36 b = m_data m /\ length b = (36 + length (m_data m))%nat.
  Proof.
    unfold Wire.encode_msg.
    apply (packet_fields [0; m_hops m; 0; 0]); try reflexivity;
      try apply be_enc_length; apply pad8_length.
  Qed.

  Theorem encode_len self m : length (encode_msg self m) = (36 + length (m_data m))%nat.
  Proof. apply encode_fields. Qed.

  (* what the sender wrote is what a receiver that knows the two names reads: for EVERY payload *)
  Theorem decode_encode self t m :
    lookup (hash64 (canon self (m_from m))) t = Some (canon self (m_from m)) ->
    lookup (hash64 (canon self (m_to m))) t = Some (canon self (m_to m)) ->
    svc_ok (m_fsvc m) = true -> svc_ok (m_tsvc m) = true ->
    decode_msg t (encode_msg self m) = DOk (canon_msg self m).
  Proof.
    intros Hf Ht Sf St.
    destruct (encode_fields self m) as (F1 & F2 & F3 & F4 & F5 & F6).
    unfold decode_msg, blen. rewrite F6.
    replace (N.of_nat (36 + length (m_data m)) <? 36) with false by lia.
    rewrite F1, F2, F3, F4, F5, !be_dec_enc8.
    rewrite !(N.mod_small _ two64) by apply hash64_lt.
    rewrite Hf, Ht, (strip_pad_id _ Sf), (strip_pad_id _ St).
    unfold canon_msg. reflexivity.
  Qed.

  (* the same for a receiver whose table was filled by AddNameHash of the mesh's names *)
  Theorem decode_encode_known sself rself ns m :
    hash_inj_on (map (canon rself) (rself :: ns)) ->
    In (m_from m) (rself :: ns) -> In (m_to m) (rself :: ns) ->
    is_localhost (m_from m) = false -> is_localhost (m_to m) = false ->
    svc_ok (m_fsvc m) = true -> svc_ok (m_tsvc m) = true ->
    decode_msg (add_names hash rself (init_tbl hash rself) ns) (encode_msg sself m) = DOk m.
  Proof.
    intros I Hf Ht Lf Lt Sf St.
    pose proof (add_names_known rself ns I _ Hf) as Kf.
    pose proof (add_names_known rself ns I _ Ht) as Kt.
    rewrite (canon_plain rself _ Lf) in Kf. rewrite (canon_plain rself _ Lt) in Kt.
    rewrite decode_encode; try assumption.
    - unfold canon_msg. rewrite (canon_plain sself _ Lf), (canon_plain sself _ Lt).
      destruct m; reflexivity.
    - rewrite (canon_plain sself _ Lf). exact Kf.
    - rewrite (canon_plain sself _ Lt). exact Kt.
  Qed.

  Lemma skipn_add {A} (l : list A) m n : skipn n (skipn m l) = skipn (m + n) l.
  Proof.
    revert l; induction m as [|m IH]; intro l; [reflexivity|].
    destruct l as [|x l]; [destruct n; reflexivity|]. cbn [skipn Nat.add]. apply IH.
  Qed.

  Lemma split_32 (r : bytes) :
    firstn 8 r ++ firstn 8 (skipn 8 r) ++ firstn 8 (skipn 16 r) ++ firstn 8 (skipn 24 r)
      ++ skipn 32 r = r.
  Proof.
    change (skipn 32 r) with (skipn (24 + 8) r). rewrite <- (skipn_add r 24 8), firstn_skipn.
    change (skipn 24 r) with (skipn (16 + 8) r). rewrite <- (skipn_add r 16 8), firstn_skipn.
    change (skipn 16 r) with (skipn (8 + 8) r). rewrite <- (skipn_add r 8 8), firstn_skipn.
    apply firstn_skipn.
  Qed.

  Lemma bytes_ok_firstn n b : bytes_ok b = true -> bytes_ok (firstn n b) = true.
  Proof.
    intro H. rewrite <- (firstn_skipn n b), bytes_ok_app in H.
    apply andb_true_iff in H as [H _]. exact H.
  Qed.

  Lemma bytes_ok_skipn n b : bytes_ok b = true -> bytes_ok (skipn n b) = true.
  Proof.
    intro H. rewrite <- (firstn_skipn n b), bytes_ok_app in H.
    apply andb_true_iff in H as [_ H]. exact H.
  Qed.

  (* forwardMessage re-encodes the decoded packet: whatever hop value it writes, every other
     byte of the packet it received is reproduced (header bytes 0, 2, 3 are zero in every packet
     made by translateDataFromMessage; byte 0 is the message type that led here) *)
  Theorem reencode_decoded self t b m k :
    tbl_wf self t -> bytes_ok b = true -> decode_msg t b = DOk m ->
    nth 0 b 0 = 0 -> nth 2 b 0 = 0 -> nth 3 b 0 = 0 ->
    encode_msg self (set_hops m k) = set_byte1 b k.
  Proof.
    intros W Hb D H0 H2 H3. unfold decode_msg in D.
    remember (firstn 8 (skipn 20 b)) as s3 eqn:E3. remember (firstn 8 (skipn 28 b)) as s4 eqn:E4.
    remember (skipn 36 b) as dd eqn:E5. remember (nth 1 b 0) as hh eqn:E6.
    destruct (blen b <? 36) eqn:EL; [discriminate|].
    destruct (lookup (be_dec (firstn 8 (skipn 4 b)) 0) t) as [f|] eqn:Ef; [|discriminate].
    destruct (lookup (be_dec (firstn 8 (skipn 12 b)) 0) t) as [to|] eqn:Et; [|discriminate].
    injection D as <-. unfold blen in EL.
    assert (L : (36 <= length b)%nat) by lia.
    apply lookup_In in Ef. apply lookup_In in Et.
    destruct (W _ _ Ef) as [Hf Cf]. destruct (W _ _ Et) as [Ht Ct].
    unfold Wire.encode_msg, set_hops.
    cbv beta iota delta [m_from m_to m_fsvc m_tsvc m_hops m_data].
    rewrite Cf, Ct, <- Hf, <- Ht.
    assert (L1 : length (firstn 8 (skipn 4 b)) = 8%nat) by (rewrite firstn_length, skipn_length; lia).
    assert (L2 : length (firstn 8 (skipn 12 b)) = 8%nat) by (rewrite firstn_length, skipn_length; lia).
    assert (L3 : length s3 = 8%nat) by (subst s3; rewrite firstn_length, skipn_length; lia).
    assert (L4 : length s4 = 8%nat) by (subst s4; rewrite firstn_length, skipn_length; lia).
    rewrite (be_enc8_dec _ L1) by (apply bytes_ok_firstn, bytes_ok_skipn, Hb).
    rewrite (be_enc8_dec _ L2) by (apply bytes_ok_firstn, bytes_ok_skipn, Hb).
    rewrite (pad_strip_id _ L3), (pad_strip_id _ L4). subst s3 s4 dd. clear E6.
    (* reassemble b *)
    destruct b as [|b0 [|b1 [|b2 [|b3 r]]]]; try (cbn [length] in L; lia).
    cbn [nth] in H0, H2, H3. subst b0 b2 b3. unfold set_byte1.
    change (skipn 4 (0 :: b1 :: 0 :: 0 :: r)) with r.
    change (skipn 12 (0 :: b1 :: 0 :: 0 :: r)) with (skipn 8 r).
    change (skipn 20 (0 :: b1 :: 0 :: 0 :: r)) with (skipn 16 r).
    change (skipn 28 (0 :: b1 :: 0 :: 0 :: r)) with (skipn 24 r).
    change (skipn 36 (0 :: b1 :: 0 :: 0 :: r)) with (skipn 32 r).
    cbn [app]. do 4 f_equal. apply split_32.
  Qed.

  (* ... in particular the forwarded packet is the received one with the hop byte decremented *)
  Corollary forward_preserves self t b m :
    tbl_wf self t -> bytes_ok b = true -> decode_msg t b = DOk m ->
    nth 0 b 0 = 0 -> nth 2 b 0 = 0 -> nth 3 b 0 = 0 ->
    set_byte1 (encode_msg self m) (m_hops m - 1) = set_byte1 b (nth 1 b 0 - 1).
  Proof.
    intros W Hb D H0 H2 H3.
    pose proof (reencode_decoded self t b m (m_hops m - 1) W Hb D H0 H2 H3) as E.
    assert (Hh : m_hops m = nth 1 b 0).
    { unfold decode_msg in D. destruct (blen b <? 36); [discriminate|].
      destruct (lookup _ t); [|discriminate]. destruct (lookup _ t); [|discriminate].
      injection D as <-. reflexivity. }
    rewrite <- Hh, <- E. unfold Wire.encode_msg, set_hops, set_byte1. reflexivity.
  Qed.
  (* ---------- the guard of SendMessageWithHopsToLive ---------- *)

  (* an over-long service name: refused, no packet *)
  Theorem first_hop_refused self m :
    (8 < blen (m_fsvc m) \/ 8 < blen (m_tsvc m)) -> first_hop_packet hash self m = None.
  Proof.
    intro H. unfold Wire.first_hop_packet, send_refused.
    replace ((8 <? blen (m_fsvc m)) || (8 <? blen (m_tsvc m))) with true by lia. reflexivity.
  Qed.

  (* a packet that is sent carries both service names whole: the 8-byte fields are the names
     followed by NULs only, nothing was cut *)
  Theorem first_hop_names_whole self m p :
    first_hop_packet hash self m = Some p ->
    firstn 8 (skipn 20 p) = m_fsvc m ++ repeat 0 (8 - length (m_fsvc m)) /\
    firstn 8 (skipn 28 p) = m_tsvc m ++ repeat 0 (8 - length (m_tsvc m)) /\
    skipn 36 p = m_data m.
  Proof.
    unfold Wire.first_hop_packet, send_refused, blen. intro H.
    destruct ((8 <? N.of_nat (length (m_fsvc m))) || (8 <? N.of_nat (length (m_tsvc m)))) eqn:G; [discriminate|].
    injection H as <-.
    assert (Lf : (length (m_fsvc m) <= 8)%nat) by lia.
    assert (Lt : (length (m_tsvc m) <= 8)%nat) by lia.
    destruct (encode_fields self m) as (_ & _ & F3 & F4 & F5 & _).
    unfold Wire.encode_msg in *. cbn [app set_byte1] in *.
    change (skipn 20 (0 :: (m_hops m - 1) :: ?r)) with (skipn 20 (0 :: m_hops m :: r)).
    rewrite <- (pad8_short _ Lf), <- (pad8_short _ Lt).
    repeat split; assumption.
  Qed.

  (* why the guard is needed: without it a longer name would travel as its first 8 bytes, i.e.
     as ANOTHER service's name *)
  Lemma pad8_long s : (8 <= length s)%nat -> pad8 s = firstn 8 s.
  Proof.
    intro L. unfold pad8. rewrite firstn_app.
    replace (8 - length s)%nat with 0%nat by lia. cbn [firstn]. apply app_nil_r.
  Qed.
End WithHash.



(* non-vacuity of the hypotheses of decode_encode_known: a toy injective hash on three names *)
Definition toy_hash (n : bytes) : N := be_dec n 0.
Example decode_encode_instance :
  let ns := [str "node-b"%string; str "c"%string] in
  let m := {| m_from := str "node-b"%string; m_fsvc := str "abcdefgh"%string;
              m_to := str "a"%string; m_tsvc := [1]; m_hops := 30; m_data := [0; 255; 0] |} in
  decode_msg (add_names toy_hash (str "a"%string) (init_tbl toy_hash (str "a"%string)) ns)
             (encode_msg toy_hash (str "node-b"%string) m) = DOk m.
Proof. vm_compute. reflexivity. Qed.

Example overlong_name_would_alias :
  pad8 (str "abcdefghi"%string) = pad8 (str "abcdefgh"%string)
  /\ first_hop_packet toy_hash (str "a"%string)
       {| m_from := str "a"%string; m_fsvc := str "src"%string; m_to := str "b"%string;
          m_tsvc := str "abcdefghi"%string; m_hops := 30; m_data := [] |} = None.
Proof. split; vm_compute; reflexivity. Qed.
