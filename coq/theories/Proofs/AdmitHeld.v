(* Proofs/AdmitHeld.v — lemmas over Model/AdmitHeld.v *)
From Coq Require Import String Arith PeanoNat.
From Receptor Require Import Model.AdmitHeld Proofs.Proto Proofs.Admit.
Open Scope list_scope.

(* every session registered under an ID — alive, or ended with its loop still busy — owns the
   entry of that ID *)
Definition held_inv (st : list (bytes * nat) * list hphase) : Prop :=
  forall i id a, nth_error (snd st) i = Some (HHolding id a) -> aget (fst st) id = Some i.

Lemma held_inv_init n : held_inv (held_init n).
Proof.
  intros i id a H. simpl in H. apply nth_error_In in H. apply repeat_spec in H. discriminate.
Qed.

Lemma held_inv_step st l : held_inv st -> held_inv (held_step false st l).
Proof.
  intro Hinv. destruct st as [conns ps]. unfold held_inv in *. simpl in Hinv.
  destruct l as [i id|i|i]; unfold held_step; cbn [fst snd].
  - destruct (nth_error ps i) as [[| | |]|] eqn:Hi; try exact Hinv.
    destruct (aget conns id) as [o|] eqn:Hg; cbn [owner_counts fst snd].
    + intros j id' a Hj. destruct (Nat.eq_dec i j) as [->|Hne].
      * erewrite nth_error_set_nth_same in Hj by eassumption. discriminate.
      * rewrite nth_error_set_nth_other in Hj by assumption. eapply Hinv; eassumption.
    + intros j id' a Hj. destruct (Nat.eq_dec i j) as [->|Hne].
      * erewrite nth_error_set_nth_same in Hj by eassumption. inversion Hj; subst. apply aget_aset_same.
      * rewrite nth_error_set_nth_other in Hj by assumption.
        pose proof (Hinv _ _ _ Hj) as Hown.
        rewrite aget_aset_other; [exact Hown|].
        apply beq_false_neq. intro; subst. congruence.
  - destruct (nth_error ps i) as [[|id [|]| |]|] eqn:Hi; try exact Hinv. cbn [fst snd].
    intros j id' a Hj. destruct (Nat.eq_dec i j) as [->|Hne].
    + erewrite nth_error_set_nth_same in Hj by eassumption. inversion Hj; subst. eapply Hinv; eassumption.
    + rewrite nth_error_set_nth_other in Hj by assumption. eapply Hinv; eassumption.
  - destruct (nth_error ps i) as [[|id [|]| |]|] eqn:Hi; try exact Hinv. cbn [fst snd].
    intros j id' a Hj. destruct (Nat.eq_dec i j) as [->|Hne].
    + erewrite nth_error_set_nth_same in Hj by eassumption. discriminate.
    + rewrite nth_error_set_nth_other in Hj by assumption.
      pose proof (Hinv _ _ _ Hj) as Hown.
      rewrite aget_adel_other; [exact Hown|].
      apply beq_false_neq. intro; subst.
      pose proof (Hinv _ _ _ Hi) as Hown'. congruence.
Qed.

Lemma held_inv_run ls : forall st, held_inv st -> held_inv (held_run false st ls).
Proof.
  induction ls as [|l ls IH]; intros st H; [exact H|]. simpl. apply IH. now apply held_inv_step.
Qed.

(* the code's test: whatever the schedule of handshakes, ends and clean-ups of n sessions, every
   session registered under an ID owns the entry — so no two are registered under one ID, and a
   registered session is always listed *)
Lemma strict_holder_owns_entry n ls i id a :
  let st := held_run false (held_init n) ls in
  nth_error (snd st) i = Some (HHolding id a) -> aget (fst st) id = Some i.
Proof. intros st H. exact (held_inv_run ls _ (held_inv_init n) i id a H). Qed.

Lemma strict_one_holder_per_id n ls i j id a b :
  let st := held_run false (held_init n) ls in
  nth_error (snd st) i = Some (HHolding id a) -> nth_error (snd st) j = Some (HHolding id b) -> i = j.
Proof.
  intros st Hi Hj.
  pose proof (strict_holder_owns_entry n ls i id a Hi) as H1.
  pose proof (strict_holder_owns_entry n ls j id b Hj) as H2.
  fold st in H1, H2. congruence.
Qed.

(* the lenient test: old session ends while its loop is busy, the peer reconnects, the old loop
   cleans up, a third session announces the ID: sessions 1 and 2 are both alive under the ID and
   s.connections has ONE entry; before the third handshake, session 1 is alive and NOT listed *)
Lemma lenient_test_refuted :
  let x := str "xray"%string in
  held_run true (held_init 3) [HHs 0 x; HEnd 0; HHs 1 x; HCleanup 0] = ([], [HGone; HHolding x true; HInit]) /\
  held_run true (held_init 3) [HHs 0 x; HEnd 0; HHs 1 x; HCleanup 0; HHs 2 x]
    = ([(x, 2%nat)], [HGone; HHolding x true; HHolding x true]).
Proof. vm_compute. split; reflexivity. Qed.

(* the same schedule under the code's test: the reconnecting session is refused while the ended
   one is still registered, the third one is admitted and listed *)
Lemma strict_same_schedule :
  let x := str "xray"%string in
  held_run false (held_init 3) [HHs 0 x; HEnd 0; HHs 1 x; HCleanup 0; HHs 2 x]
    = ([(x, 2%nat)], [HGone; HRejected; HHolding x true]).
Proof. vm_compute. reflexivity. Qed.
