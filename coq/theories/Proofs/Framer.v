(* Proofs/Framer.v — the framing of stream backends delivers exactly the messages, however the
   byte stream is cut into reads (Model/Framer.v). *)
From Coq Require Import ZArith Lia ZifyN ZifyNat ZifyBool.
From Receptor Require Import Model.Framer.
Open Scope N_scope.

Definition small (m : bytes) : Prop := flen m < 65536.

Lemma frame_length m : length (frame m) = S (S (length m)).
Proof. reflexivity. Qed.

Lemma frame_header m : small m -> flen m mod 256 + 256 * ((flen m / 256) mod 256) = flen m.
Proof.
  unfold small. intro H.
  rewrite (N.mod_small (flen m / 256)).
  - rewrite N.add_comm. symmetry. apply N.div_mod. discriminate.
  - apply N.div_lt_upper_bound; lia.
Qed.

(* GetMessage on a buffer that starts with a whole frame *)
Lemma pop_frame m rest : small m -> pop (frame m ++ rest) = Some (m, rest).
Proof.
  intro H. unfold frame. cbn [app pop]. rewrite (frame_header m H).
  unfold flen at 2. rewrite app_length.
  replace (flen m <=? N.of_nat (length m + length rest)) with true by (unfold flen; lia).
  unfold flen. rewrite Nat2N.id.
  rewrite firstn_app, Nat.sub_diag, firstn_all. cbn [firstn]. rewrite app_nil_r.
  rewrite skipn_app, Nat.sub_diag, skipn_all. reflexivity.
Qed.

Lemma pop_frame_exact m : small m -> pop (frame m) = Some (m, []).
Proof. intro H. pose proof (pop_frame m [] H) as P. rewrite app_nil_r in P. exact P. Qed.

(* ... and on a buffer that ends inside the first frame *)
Lemma pop_partial m buf l : small m -> frame m = buf ++ l -> l <> [] -> pop buf = None.
Proof.
  intros H E Hl. destruct buf as [|b0 [|b1 r]]; try reflexivity.
  unfold frame in E. cbn [app] in E. injection E as E0 E1 E2. subst b0 b1.
  cbn [pop]. rewrite (frame_header m H).
  replace (flen m <=? flen r) with false; [reflexivity|].
  assert (length m = (length r + length l)%nat) by (rewrite E2, app_length; reflexivity).
  assert (length l <> 0%nat) by (destruct l; [contradiction|discriminate]).
  unfold flen. lia.
Qed.

(* one Recv call on a stream that starts with frame m: either it returns m and leaves the rest
   of the stream, or the data ran out inside that frame *)
Lemma recv_one_gen chunks : forall buf tail m rest,
  small m -> (buf ++ concat chunks) ++ tail = frame m ++ rest ->
  match recv_one buf chunks with
  | Some (m', buf', cs') => m' = m /\ (buf' ++ concat cs') ++ tail = rest
  | None => exists l, l <> [] /\ frame m = (buf ++ concat chunks) ++ l
  end.
Proof.
  induction chunks as [|c cs IH]; intros buf tail m rest Hm E; cbn [recv_one concat] in *.
  - rewrite app_nil_r in *.
    destruct (app_eq_app _ _ _ _ E) as [l [[E1 E2]|[E1 E2]]].
    + subst buf. rewrite (pop_frame m l Hm). split; [reflexivity|]. rewrite app_nil_r. symmetry. exact E2.
    + destruct l as [|x l].
      * rewrite app_nil_r in E1. subst buf. rewrite (pop_frame_exact m Hm). split; [reflexivity|]. cbn [app concat] in *. congruence.
      * rewrite (pop_partial m buf (x :: l) Hm E1) by discriminate.
        exists (x :: l). split; [discriminate|exact E1].
  - rewrite <- app_assoc in E.
    destruct (app_eq_app _ _ _ _ E) as [l [[E1 E2]|[E1 E2]]].
    + subst buf. rewrite (pop_frame m l Hm). split; [reflexivity|].
      rewrite E2. cbn [concat]. rewrite <- !app_assoc. reflexivity.
    + destruct l as [|x l].
      * rewrite app_nil_r in E1. subst buf. rewrite (pop_frame_exact m Hm). split; [reflexivity|]. cbn [app concat] in *. congruence.
      * rewrite (pop_partial m buf (x :: l) Hm E1) by discriminate.
        unfold feed. specialize (IH (buf ++ c) tail m rest Hm).
        rewrite <- !app_assoc in IH. rewrite <- !app_assoc in E. specialize (IH E).
        destruct (recv_one (buf ++ c) cs) as [[[m' buf'] cs']|]; [exact IH|].
        destruct IH as [l' [Hl' El']]. exists l'. split; [exact Hl'|].
        rewrite El'. cbn [concat]. rewrite <- !app_assoc. reflexivity.
Qed.

Lemma recv_one_complete chunks buf m rest :
  small m -> buf ++ concat chunks = frame m ++ rest ->
  exists buf' cs', recv_one buf chunks = Some (m, buf', cs') /\ buf' ++ concat cs' = rest.
Proof.
  intros Hm E. pose proof (recv_one_gen chunks buf [] m rest Hm) as G.
  rewrite app_nil_r in G. specialize (G E).
  destruct (recv_one buf chunks) as [[[m' buf'] cs']|].
  - destruct G as [-> G]. rewrite app_nil_r in G. exists buf', cs'. split; [reflexivity|exact G].
  - destruct G as [l [Hl El]]. exfalso.
    apply (f_equal (@length N)) in El. apply (f_equal (@length N)) in E.
    rewrite !app_length in *. destruct l; [contradiction|]. cbn [length] in El. lia.
Qed.

Lemma recv_one_empty chunks buf : buf ++ concat chunks = [] -> recv_one buf chunks = None.
Proof.
  revert buf; induction chunks as [|c cs IH]; intros buf E; cbn [recv_one concat] in *.
  - rewrite app_nil_r in E. subst buf. reflexivity.
  - apply app_eq_nil in E as [-> E]. cbn [pop]. apply IH. exact E.
Qed.

(* every chunking of the framed stream yields exactly the messages *)
Lemma recv_loop_all msgs : forall buf chunks fuel,
  Forall small msgs -> buf ++ concat chunks = stream msgs -> (length msgs < fuel)%nat ->
  recv_loop fuel buf chunks = msgs.
Proof.
  induction msgs as [|m ms IH]; intros buf chunks fuel Hs E Hf.
  - destruct fuel as [|f]; [reflexivity|]. cbn [recv_loop].
    rewrite recv_one_empty by exact E. reflexivity.
  - destruct fuel as [|f]; [cbn [length] in Hf; lia|]. cbn [recv_loop].
    inversion Hs as [|? ? Hm Hms]; subst.
    unfold stream in E. cbn [map concat] in E.
    destruct (recv_one_complete chunks buf m _ Hm E) as (buf' & cs' & R & E').
    rewrite R. f_equal. apply IH; [exact Hms|exact E'|cbn [length] in Hf; lia].
Qed.

Theorem framer_any_chunking msgs chunks :
  Forall small msgs -> concat chunks = stream msgs ->
  recv_loop (S (length msgs)) [] chunks = msgs.
Proof. intros Hs E. apply recv_loop_all; [exact Hs|exact E|lia]. Qed.

(* a stream that ends inside a frame yields exactly the messages before that frame *)
Lemma recv_loop_cut ms1 : forall buf chunks fuel m2 p l,
  Forall small ms1 -> small m2 -> frame m2 = p ++ l -> l <> [] ->
  buf ++ concat chunks = stream ms1 ++ p -> (length ms1 < fuel)%nat ->
  recv_loop fuel buf chunks = ms1.
Proof.
  induction ms1 as [|m ms IH]; intros buf chunks fuel m2 p l Hs H2 Ep Hl E Hf.
  - destruct fuel as [|f]; [reflexivity|]. cbn [recv_loop].
    unfold stream in E. cbn [map concat app] in E.
    pose proof (recv_one_gen chunks buf l m2 [] H2) as G.
    rewrite E, app_nil_r in G. specialize (G (eq_sym Ep)).
    destruct (recv_one buf chunks) as [[[m' buf'] cs']|]; [|reflexivity].
    destruct G as [_ G]. apply app_eq_nil in G as [_ G]. contradiction.
  - destruct fuel as [|f]; [cbn [length] in Hf; lia|]. cbn [recv_loop].
    inversion Hs as [|? ? Hm Hms]; subst.
    unfold stream in E. cbn [map concat] in E. rewrite <- app_assoc in E.
    destruct (recv_one_complete chunks buf m _ Hm E) as (buf' & cs' & R & E').
    rewrite R. f_equal.
    apply (IH buf' cs' f m2 p l); try assumption. cbn [length] in Hf. lia.
Qed.

Theorem framer_cut ms1 m2 p l chunks :
  Forall small ms1 -> small m2 -> frame m2 = p ++ l -> l <> [] ->
  concat chunks = stream ms1 ++ p ->
  recv_loop (S (length ms1)) [] chunks = ms1.
Proof. intros. eapply recv_loop_cut; eauto. Qed.

Lemma stream_app a b : stream (a ++ b) = stream a ++ stream b.
Proof. unfold stream. rewrite map_app, concat_app. reflexivity. Qed.

(* every cut point of the stream is either the end or lies inside some frame *)
Lemma cut_decompose msgs : forall k,
  firstn k (stream msgs) = stream msgs \/
  exists ms1 m2 ms3 p l, msgs = ms1 ++ m2 :: ms3 /\ firstn k (stream msgs) = stream ms1 ++ p
                         /\ frame m2 = p ++ l /\ l <> [].
Proof.
  induction msgs as [|m ms IH]; intro k.
  - left. unfold stream. cbn. apply firstn_nil.
  - change (stream (m :: ms)) with (frame m ++ stream ms). rewrite firstn_app.
    destruct (Nat.lt_ge_cases k (length (frame m))) as [Hk|Hk].
    + right. exists [], m, ms, (firstn k (frame m)), (skipn k (frame m)).
      replace (k - length (frame m))%nat with 0%nat by lia. cbn [firstn]. rewrite app_nil_r.
      repeat split.
      * symmetry. apply firstn_skipn.
      * intro E. apply (f_equal (@length N)) in E. rewrite skipn_length in E. cbn [length] in E. lia.
    + rewrite firstn_all2 by lia.
      destruct (IH (k - length (frame m))%nat) as [E|(ms1 & m2 & ms3 & p & l & E1 & E2 & E3 & E4)].
      * left. rewrite E. reflexivity.
      * right. exists (m :: ms1), m2, ms3, p, l. repeat split; try assumption.
        -- rewrite E1. reflexivity.
        -- rewrite E2. change (stream (m :: ms1)) with (frame m ++ stream ms1).
           rewrite app_assoc. reflexivity.
Qed.

(* the stream cut ANYWHERE: a prefix of the messages is delivered, nothing else *)
Theorem framer_stream_cut msgs chunks k :
  Forall small msgs -> concat chunks = firstn k (stream msgs) ->
  exists j, recv_loop (S (length msgs)) [] chunks = firstn j msgs.
Proof.
  intros Hs E. destruct (cut_decompose msgs k) as [E1|(ms1 & m2 & ms3 & p & l & E1 & E2 & E3 & E4)].
  - exists (length msgs). rewrite firstn_all. apply framer_any_chunking; [exact Hs|].
    rewrite E, E1. reflexivity.
  - exists (length ms1). subst msgs. rewrite firstn_app, Nat.sub_diag, firstn_all.
    cbn [firstn]. rewrite app_nil_r.
    apply Forall_app in Hs as [Hs1 Hs2]. inversion Hs2; subst.
    eapply recv_loop_cut with (m2 := m2) (p := p) (l := l); try eassumption.
    + cbn [app]. rewrite E, E2. reflexivity.
    + rewrite app_length. cbn [length]. lia.
Qed.

(* non-vacuity: a 300-byte message, a header split between two reads, two frames in one read *)
Example chunking_instance :
  let m1 := repeat 7 300 in let m2 := [] in let m3 := [1; 2; 3] in
  let s := stream [m1; m2; m3] in
  recv_loop 4 [] [firstn 1 s; firstn 302 (skipn 1 s); skipn 303 s] = [m1; m2; m3]
  /\ recv_loop 4 [] (map (fun b => [b]) s) = [m1; m2; m3]
  /\ recv_loop 4 [] [firstn 305 s] = [m1; m2].
Proof. vm_compute. repeat split; reflexivity. Qed.

(* outside the hypothesis: SendData truncates the length of a message of 65536 bytes or more *)
Example frame_truncates m : flen m = 65536 -> firstn 2 (frame m) = [0; 0].
Proof. intro H. unfold frame. rewrite H. reflexivity. Qed.

(* ---------- the 16-bit header against the model's unbounded arithmetic ---------- *)

(* for every message shorter than 2^16 the two header bytes are bytes and spell the exact
   length: nothing wraps anywhere on the property's whole range 0 .. 65535 *)
Theorem frame_header_exact m : small m ->
  exists b0 b1, frame m = b0 :: b1 :: m /\ b0 < 256 /\ b1 < 256 /\ b0 + 256 * b1 = flen m
                /\ b0 + 256 * b1 + 2 <= 65537.
Proof.
  intro H. exists (flen m mod 256), ((flen m / 256) mod 256).
  split; [reflexivity|]. split; [apply N.mod_lt; discriminate|]. split; [apply N.mod_lt; discriminate|].
  rewrite (frame_header m H). unfold small in H. lia.
Qed.

(* whatever the header says (any two bytes, 0 .. 65535 announced), a message that GetMessage
   returns lies inside the buffer: buffer = header ++ message ++ rest, and the message has
   exactly the announced length — the slice bounds of "f.buffer[2 : msgSize+2]" are always valid *)
Theorem pop_in_bounds buf m rest : pop buf = Some (m, rest) ->
  exists b0 b1, buf = b0 :: b1 :: m ++ rest /\ flen m = b0 + 256 * b1.
Proof.
  destruct buf as [|b0 [|b1 r]]; try discriminate. cbn [pop].
  remember (b0 + 256 * b1) as n eqn:En.
  destruct (n <=? flen r) eqn:E; [|discriminate]. intro H. injection H as <- <-.
  exists b0, b1. rewrite firstn_skipn. split; [reflexivity|]. rewrite <- En.
  apply N.leb_le in E. unfold flen in *. rewrite firstn_length.
  rewrite Nat.min_l by lia. apply N2Nat.id.
Qed.

(* ... and it is not ready before all announced bytes are there *)
Theorem pop_none_iff b0 b1 r : pop (b0 :: b1 :: r) = None <-> flen r < b0 + 256 * b1.
Proof.
  cbn [pop]. destruct (b0 + 256 * b1 <=? flen r) eqn:E; split; intro H; try discriminate; try reflexivity; lia.
Qed.

(* in general the header is the length modulo 2^16 ... *)
Theorem frame_header_wraps m :
  exists b0 b1, frame m = b0 :: b1 :: m /\ b0 + 256 * b1 = flen m mod 65536.
Proof.
  exists (flen m mod 256), ((flen m / 256) mod 256). split; [reflexivity|].
  change 65536 with (256 * 256). rewrite (N.mod_mul_r (flen m) 256 256) by lia. reflexivity.
Qed.

(* ... so from 65536 bytes on the framing is lost (what pkg/framer does as well: SendData does
   not refuse, it truncates the length): a 65536-byte message is received as an empty message
   followed by its own bytes taken for the next frames *)
Theorem oversize_frame_garbled m : flen m = 65536 -> pop (frame m) = Some ([], m).
Proof.
  intro H. unfold frame. rewrite H.
  change (65536 mod 256) with 0. change ((65536 / 256) mod 256) with 0. cbn [pop].
  replace (0 + 256 * 0 <=? flen m) with true by lia. reflexivity.
Qed.
