(* Proofs/Ctl.v — lemmas for property C08 over Model/Ctl.v.  Everything is proved for arbitrary
   oracles (JSON decoder, ToLower, ParseDuration, unit-ID generator). *)
From Coq Require Import String.
From Receptor Require Import Model.Ctl.
Open Scope N_scope.

(* a node description is well formed when every "foreign" path really has a path character *)
Definition foreign_ok (nd : node) : bool := forallb (fun p => bad_unit_id (fst p)) (n_foreign nd).

(* ---------- the lock ---------- *)

(* the repaired findUnit takes and releases the lock in balanced, non-nested sections *)
Lemma find_ops_repaired_ok a b c : lock_run lock_free (find_ops repaired a b c) = LOk lock_free.
Proof. destruct a, b, c; reflexivity. Qed.

(* the pinned one asks for the write lock while holding the read lock as soon as a unit found on
   disk has to be registered *)
Lemma find_ops_pinned_blocks : lock_run lock_free (find_ops pinned false true true) = LBlock.
Proof. reflexivity. Qed.

Lemma find_ops_pinned_else_ok a b :
  lock_run lock_free (find_ops pinned true a b) = LOk lock_free /\
  lock_run lock_free (find_ops pinned false a false) = LOk lock_free.
Proof. destruct a, b; split; reflexivity. Qed.

Section CtlProofs.
Variable parse : bytes -> option jobj.
Variable lower : bytes -> bytes.
Variable ttl_ok : bytes -> bool.
Variable fresh : node -> bytes.

Notation exec_line := (exec_line parse lower ttl_ok fresh).
Notation run_cmd := (run_cmd lower ttl_ok fresh).
Notation run_work := (run_work lower ttl_ok fresh).
Notation run_submit := (run_submit lower ttl_ok fresh).
Notation valid_line := (valid_line parse lower).
Notation session := (session parse lower ttl_ok fresh).
Notation run_lines := (run_lines parse lower ttl_ok fresh).

Definition total (o : line_outcome) : Prop := exists nd rs, o = LReplies nd rs.

(* the node fields no command touches *)
Definition same_static (a b : node) : Prop :=
  n_self a = n_self b /\ n_unix a = n_unix b /\ n_foreign a = n_foreign b /\
  n_worktypes a = n_worktypes b /\ n_tls a = n_tls b /\ n_reach a = n_reach b.

Lemma same_static_refl a : same_static a a.
Proof. repeat split. Qed.
Lemma same_static_with_units nd i d : same_static nd (with_units nd i d).
Proof. repeat split. Qed.
Lemma same_static_trans a b c : same_static a b -> same_static b c -> same_static a c.
Proof. unfold same_static. intuition congruence. Qed.

Lemma assoc_foreign_bad nd id nm :
  foreign_ok nd = true -> assoc_b id (n_foreign nd) = Some nm -> bad_unit_id id = true.
Proof.
  unfold foreign_ok. induction (n_foreign nd) as [|[k v] l IH]; simpl; [discriminate|].
  intro H. apply andb_true_iff in H as [H1 H2].
  destruct (beq_bytes k id) eqn:E.
  - apply beq_bytes_eq in E. subst. auto.
  - now apply IH.
Qed.

(* findUnit of the repaired tree: found (perhaps loading the unit from disk), or not found with
   the node unchanged; never blocked *)
Lemma find_unit_repaired nd id :
  foreign_ok nd = true ->
  (exists nd', find_unit repaired nd id = Found nd' /\ same_static nd nd') \/
  find_unit repaired nd id = NotFound nd.
Proof.
  intro Hf. unfold find_unit.
  destruct (mem_b id (n_index nd)).
  - rewrite find_ops_repaired_ok. left. exists nd. split; [reflexivity|apply same_static_refl].
  - rewrite find_ops_repaired_ok. simpl f_path.
    destruct (bad_unit_id id) eqn:Hb; simpl.
    + right. reflexivity.
    + destruct (mem_b id (n_disk nd)).
      * left. eexists. split; [reflexivity|apply same_static_with_units].
      * destruct (assoc_b id (n_foreign nd)) as [nm|] eqn:Ea; [|right; reflexivity].
        apply (assoc_foreign_bad nd id nm Hf) in Ea. congruence.
Qed.

Lemma of_found_total nd id k :
  foreign_ok nd = true ->
  (forall nd', same_static nd nd' -> total (k nd')) ->
  total (of_found (find_unit repaired nd id) k).
Proof.
  intros Hf Hk. destruct (find_unit_repaired nd id Hf) as [[nd' [-> Hs]] | -> ]; simpl.
  - now apply Hk.
  - now exists nd, [RErr].
Qed.

Lemma foreign_ok_static a b : same_static a b -> foreign_ok a = foreign_ok b.
Proof. intros (_ & _ & H & _). unfold foreign_ok. now rewrite H. Qed.

Lemma run_submit_total nd fl : total (run_submit nd fl).
Proof.
  unfold Ctl.run_submit.
  repeat match goal with |- context[if ?c then _ else _] => destruct c end; now eexists _, _.
Qed.

Lemma run_work_total nd sub p : foreign_ok nd = true -> total (run_work repaired nd sub p).
Proof.
  intro Hf. unfold Ctl.run_work.
  destruct (beq_bytes sub s_submit); [apply run_submit_total|].
  destruct (beq_bytes sub s_list).
  { destruct (wp_unitid p); [|now eexists _, _].
    apply of_found_total; [exact Hf|]. intros; now eexists _, _. }
  destruct (beq_bytes sub s_status).
  { destruct (wp_unitid p); [|now eexists _, _].
    apply of_found_total; [exact Hf|]. intros; now eexists _, _. }
  destruct (beq_bytes sub s_cancel || beq_bytes sub s_release || beq_bytes sub s_frelease).
  { destruct (wp_unitid p); [|now eexists _, _].
    apply of_found_total; [exact Hf|]. intros nd' _.
    repeat match goal with |- context[if ?c then _ else _] => destruct c end; now eexists _, _. }
  destruct (beq_bytes sub s_results); [|now eexists _, _].
  destruct (wp_unitid p); [|now eexists _, _].
  apply of_found_total; [exact Hf|]. intros nd' Hs.
  destruct (negb (isnil (opt_nil (wp_signature p)))); [now eexists _, _|].
  apply of_found_total; [now rewrite <- (foreign_ok_static nd nd' Hs)|]. intros; now eexists _, _.
Qed.

Lemma run_cmd_total nd c : foreign_ok nd = true -> total (run_cmd repaired nd c).
Proof.
  intro Hf. destruct c; simpl; try (now eexists _, _).
  - repeat match goal with |- context[if ?c then _ else _] => destruct c end; now eexists _, _.
  - now apply run_work_total.
Qed.

(* no Init of the repaired tree panics *)
Lemma init_string_no_panic cmd params pt : init_string lower cmd params <> Some (IPanic pt).
Proof.
  unfold init_string.
  repeat match goal with |- context[if ?c then _ else _] => destruct c end; try discriminate.
  - unfold init_ping_s. destruct (isnil params); discriminate.
  - unfold init_status_s. destruct (isnil params); discriminate.
  - unfold init_connect_s. destruct (split_all params) as [|a [|b [|c [|d l]]]]; discriminate.
  - unfold init_traceroute_s. destruct (isnil params); discriminate.
  - unfold init_work_s.
    repeat match goal with
           | |- context[if ?c then _ else _] => destruct c
           | |- context[match ?l with [] => _ | _ :: _ => _ end] => destruct l
           end; discriminate.
Qed.

Lemma init_json_no_panic cmd m pt : init_json lower repaired cmd m <> Some (IPanic pt).
Proof.
  unfold init_json.
  repeat match goal with |- context[if ?c then _ else _] => destruct c end; try discriminate.
  - unfold init_ping_j. destruct (jget s_target m) as [v|]; [destruct (as_str v)|]; discriminate.
  - unfold init_status_j. destruct (jget s_reqf m) as [v|]; [|discriminate].
    destruct (as_arr v) as [l|]; [destruct (all_strs l)|]; simpl; discriminate.
  - unfold init_connect_j.
    repeat match goal with
           | |- context[match jget ?k ?m with Some _ => _ | None => _ end] => destruct (jget k m)
           | |- context[match as_str ?v with Some _ => _ | None => _ end] => destruct (as_str v)
           end; discriminate.
  - unfold init_traceroute_j. destruct (jget s_target m) as [v|]; [destruct (as_str v)|]; discriminate.
  - unfold init_work_j.
    destruct (str_from m s_subcommand); [|discriminate].
    repeat match goal with
           | |- context[if ?c then _ else _] => destruct c
           | |- context[match str_fields ?m with Some _ => _ | None => _ end] => destruct (str_fields m)
           | |- context[match sget ?k ?m with Some _ => _ | None => _ end] => destruct (sget k m)
           | |- context[match str_from ?m ?k with Some _ => _ | None => _ end] => destruct (str_from m k)
           end; discriminate.
Qed.

Lemma after_init_total nd i :
  foreign_ok nd = true -> (forall pt, i <> Some (IPanic pt)) -> total (after_init lower ttl_ok fresh repaired nd i).
Proof.
  intros Hf Hp. destruct i as [[c| |pt]|]; simpl; try (now eexists _, _).
  - now apply run_cmd_total.
  - now destruct (Hp pt).
Qed.

Lemma exec_line_total nd line : foreign_ok nd = true -> total (exec_line repaired nd line).
Proof.
  intro Hf. unfold Ctl.exec_line. destruct line as [|b l]; [now eexists _, _|].
  destruct (b =? 123).
  - destruct (parse (b :: l)) as [m|]; [|now eexists _, _].
    destruct (jget s_command m) as [v|]; [|now eexists _, _].
    destruct (as_str v) as [cmd|]; [|now eexists _, _].
    apply after_init_total; [exact Hf|]. intro pt. apply init_json_no_panic.
  - destruct (split_sp (b :: l)) as [w p].
    apply after_init_total; [exact Hf|]. intro pt. apply init_string_no_panic.
Qed.

(* the static part of the node survives every line, so well-formedness does *)
Lemma find_unit_static fx nd id nd' :
  (find_unit fx nd id = Found nd' \/ find_unit fx nd id = NotFound nd') -> same_static nd nd'.
Proof.
  unfold find_unit.
  repeat match goal with
         | |- context[if ?c then _ else _] => destruct c
         | |- context[match ?x with LOk _ => _ | LBlock => _ | LFatal => _ end] => destruct x
         | |- context[match ?x with Some _ => _ | None => _ end] => destruct x
         end; intros [H|H]; inversion H; subst;
    try apply same_static_refl; apply same_static_with_units.
Qed.

Lemma of_found_static fx nd id k nd' rs :
  (forall n1 n2 r, same_static nd n1 -> k n1 = LReplies n2 r -> same_static nd n2) ->
  of_found (find_unit fx nd id) k = LReplies nd' rs -> same_static nd nd'.
Proof.
  intros Hk. destruct (find_unit fx nd id) as [n1|n1| |] eqn:E; simpl; try discriminate.
  - intro H. eapply Hk; [|exact H]. eapply find_unit_static; eauto.
  - intro H. inversion H; subst. eapply find_unit_static; eauto.
Qed.

Lemma run_cmd_static fx nd c nd' rs : run_cmd fx nd c = LReplies nd' rs -> same_static nd nd'.
Proof.
  destruct c; simpl; try (intro H; inversion H; subst; apply same_static_refl).
  - repeat match goal with |- context[if ?c then _ else _] => destruct c end;
      intro H; inversion H; subst; apply same_static_refl.
  - unfold Ctl.run_work.
    destruct (beq_bytes sub s_submit).
    { unfold Ctl.run_submit.
      repeat match goal with |- context[if ?c then _ else _] => destruct c end;
        intro H; inversion H; subst; try apply same_static_refl; apply same_static_with_units. }
    destruct (beq_bytes sub s_list).
    { destruct (wp_unitid p); [|intro H; inversion H; subst; apply same_static_refl].
      apply of_found_static. intros n1 n2 r Hs H; inversion H; subst; exact Hs. }
    destruct (beq_bytes sub s_status).
    { destruct (wp_unitid p); [|intro H; inversion H; subst; apply same_static_refl].
      apply of_found_static. intros n1 n2 r Hs H; inversion H; subst; exact Hs. }
    destruct (beq_bytes sub s_cancel || beq_bytes sub s_release || beq_bytes sub s_frelease).
    { destruct (wp_unitid p); [|intro H; inversion H; subst; apply same_static_refl].
      apply of_found_static. intros n1 n2 r Hs.
      repeat match goal with |- context[if ?c then _ else _] => destruct c end;
        intro H; inversion H; subst; exact Hs. }
    destruct (beq_bytes sub s_results); [|intro H; inversion H; subst; apply same_static_refl].
    destruct (wp_unitid p); [|intro H; inversion H; subst; apply same_static_refl].
    apply of_found_static. intros n1 n2 r Hs.
    destruct (negb (isnil (opt_nil (wp_signature p)))); [intro H; inversion H; subst; exact Hs|].
    intro H. eapply same_static_trans; [exact Hs|].
    eapply of_found_static; [|exact H]. intros n3 n4 r' Hs' H'; inversion H'; subst; exact Hs'.
Qed.

Lemma exec_line_static fx nd line nd' rs : exec_line fx nd line = LReplies nd' rs -> same_static nd nd'.
Proof.
  unfold Ctl.exec_line, after_init.
  repeat match goal with
         | |- context[match ?x with [] => _ | _ :: _ => _ end] => destruct x
         | |- context[if ?c then _ else _] => destruct c
         | |- context[match ?x with Some _ => _ | None => _ end] => destruct x
         | |- context[let '(_, _) := ?x in _] => destruct x
         | |- context[match ?x with IOk _ => _ | IErr => _ | IPanic _ => _ end] => destruct x
         end; try (intro H; inversion H; subst; apply same_static_refl); try discriminate;
    apply run_cmd_static.
Qed.

(* ---------- ctl_total ---------- *)

Lemma run_lines_total ls : forall nd, foreign_ok nd = true ->
  exists nd' rs, run_lines repaired nd ls = SReplies nd' rs.
Proof.
  induction ls as [|l r IH]; intros nd Hf; simpl; [now eexists _, _|].
  destruct (exec_line_total nd l Hf) as (nd1 & rs & E). rewrite E.
  destruct (ends_stream rs); [now eexists _, _|].
  assert (foreign_ok nd1 = true) as Hf1.
  { rewrite <- (foreign_ok_static nd nd1); [exact Hf|]. eapply exec_line_static; eauto. }
  destruct (IH nd1 Hf1) as (nd2 & rs2 & E2). rewrite E2. simpl. now eexists _, _.
Qed.

(* whatever bytes a client sends, with or without a final half-close: the session produces
   replies; it neither panics nor blocks on the unit-index lock *)
Theorem ctl_total nd input eof : foreign_ok nd = true ->
  exists nd' rs, session repaired nd input eof = SReplies nd' rs.
Proof.
  intro Hf. unfold Ctl.session. destruct (lines_of input []) as [ls tl].
  now apply run_lines_total.
Qed.

(* and so for any number of sessions in any interleaving of their lines *)
Fixpoint run_schedule (fx : fixes) (nd : node) (ls : list bytes) : option node :=
  match ls with
  | [] => Some nd
  | l :: r => match exec_line fx nd l with LReplies nd' _ => run_schedule fx nd' r | _ => None end
  end.

Theorem ctl_total_interleaved ls : forall nd, foreign_ok nd = true ->
  exists nd', run_schedule repaired nd ls = Some nd'.
Proof.
  induction ls as [|l r IH]; intros nd Hf; simpl; [now eexists|].
  destruct (exec_line_total nd l Hf) as (nd1 & rs & E). rewrite E. apply IH.
  rewrite <- (foreign_ok_static nd nd1); [exact Hf|]. eapply exec_line_static; eauto.
Qed.

(* ---------- ctl_error_reply and isolation ---------- *)

(* a non-empty line that is not a valid command: the first reply line is an ERROR line, and the
   node is exactly as before *)
Theorem ctl_error_reply nd line :
  line <> [] -> valid_line repaired line = false ->
  exists rs, exec_line repaired nd line = LReplies nd (RErr :: rs).
Proof.
  intros Hne Hv. unfold Ctl.exec_line, Ctl.valid_line in *.
  destruct line as [|b l]; [congruence|].
  destruct (b =? 123).
  - destruct (parse (b :: l)) as [m|]; [|now exists [RErr]].
    destruct (jget s_command m) as [v|]; [|now exists [RErr]].
    destruct (as_str v) as [cmd|]; [|now exists [RErr]].
    destruct (init_json lower repaired cmd m) as [[c| |pt]|] eqn:E; simpl;
      [discriminate Hv|now exists []| |now exists []].
    now destruct (init_json_no_panic cmd m pt).
  - destruct (split_sp (b :: l)) as [w p].
    destruct (init_string lower (lower w) (opt_nil p)) as [[c| |pt]|] eqn:E; simpl;
      [discriminate Hv|now exists []| |now exists []].
    now destruct (init_string_no_panic (lower w) (opt_nil p) pt).
Qed.

(* the command a line stands for, if it names one *)
Definition line_cmd (line : bytes) : option ires :=
  match line with
  | [] => None
  | b :: _ =>
    if b =? 123 then
      match parse line with
      | None => None
      | Some m => match jget s_command m with
                  | Some v => match as_str v with Some cmd => init_json lower repaired cmd m | None => None end
                  | None => None
                  end
      end
    else let '(w, p) := split_sp line in init_string lower (lower w) (opt_nil p)
  end.

(* the node changes only through a valid `work` command *)
Theorem ctl_session_isolated nd line nd' rs :
  exec_line repaired nd line = LReplies nd' rs -> nd' <> nd ->
  valid_line repaired line = true /\ exists sub p, line_cmd line = Some (IOk (PWork sub p)).
Proof.
  unfold Ctl.exec_line, Ctl.valid_line, line_cmd.
  destruct line as [|b l]; [intros H Hn; inversion H; congruence|].
  destruct (b =? 123).
  - destruct (parse (b :: l)) as [m|]; [|intros H Hn; inversion H; congruence].
    destruct (jget s_command m) as [v|]; [|intros H Hn; inversion H; congruence].
    destruct (as_str v) as [cmd|]; [|intros H Hn; inversion H; congruence].
    destruct (init_json lower repaired cmd m) as [[c| |pt]|]; simpl;
      try (intros H Hn; inversion H; congruence).
    destruct c; simpl; try (intros H Hn; inversion H; congruence).
    + repeat match goal with |- context[if ?c then _ else _] => destruct c end;
        intros H Hn; inversion H; congruence.
    + intros _ _. split; [reflexivity|eauto].
  - destruct (split_sp (b :: l)) as [w p].
    destruct (init_string lower (lower w) (opt_nil p)) as [[c| |pt]|]; simpl;
      try (intros H Hn; inversion H; congruence).
    destruct c; simpl; try (intros H Hn; inversion H; congruence).
    + repeat match goal with |- context[if ?c then _ else _] => destruct c end;
        intros H Hn; inversion H; congruence.
    + intros _ _. split; [reflexivity|eauto].
Qed.

(* a unit ID that names nothing (not indexed, not on disk) — path characters or not — is
   answered with an error and changes nothing *)
Theorem unknown_unit_no_effect nd id :
  foreign_ok nd = true -> mem_b id (n_index nd) = false -> mem_b id (n_disk nd) = false ->
  find_unit repaired nd id = NotFound nd.
Proof.
  intros Hf Hi Hd. unfold find_unit. rewrite Hi, find_ops_repaired_ok. simpl f_path.
  destruct (bad_unit_id id) eqn:Hb; simpl; [reflexivity|]. rewrite Hd.
  destruct (assoc_b id (n_foreign nd)) as [nm|] eqn:Ea; [|reflexivity].
  apply (assoc_foreign_bad nd id nm Hf) in Ea. congruence.
Qed.

End CtlProofs.

(* ---------- the reload section ---------- *)

Lemma rl_mutex_le1 evs : forall k, (k <= 1)%nat -> exists k', rl_run true k evs = Some k' /\ (k' <= 1)%nat.
Proof.
  induction evs as [|e r IH]; intros k Hk; simpl; [eauto|].
  destruct e.
  - destruct k as [|k']; [apply IH; auto|]. apply IH; exact Hk.
  - apply IH. destruct k; simpl; auto with arith.
Qed.

(* with the mutex no schedule of concurrent reloads is fatal *)
Theorem reload_serialized evs : exists k, rl_run true 0 evs = Some k.
Proof. destruct (rl_mutex_le1 evs 0) as (k & H & _); eauto with arith. Qed.

Theorem reload_pinned_refuted : rl_run false 0 [Enter; Enter] = None.
Proof. reflexivity. Qed.

(* ---------- index lock vs. status lock ---------- *)

(* listing (or status) against release, listing against listing, release against release (of two
   units: the status locks differ, modelled by the index lock alone being shared is subsumed by
   the same-unit case): every interleaving completes *)
Theorem list_release_no_deadlock :
  lk_explore 20 (lk_init list_ops release_ops) = true /\
  lk_explore 20 (lk_init release_ops list_ops) = true /\
  lk_explore 20 (lk_init list_ops list_ops) = true /\
  lk_explore 20 (lk_init release_ops release_ops) = true.
Proof. vm_compute. repeat split. Qed.

(* reading a unit's status inside the index read section inverts the order Release uses: some
   interleaving ends with both goroutines waiting for each other *)
Theorem list_release_nested_refuted : lk_explore 20 (lk_init list_ops_nested release_ops) = false.
Proof. vm_compute. reflexivity. Qed.

(* the interleaving itself: release takes the status lock, list takes the index read lock, and
   then neither the status read lock nor the index write lock can be had *)
Lemma nested_deadlock_witness :
  exists s1 s2, thread_step (lk_init list_ops_nested release_ops) true = Some s1 /\
                thread_step s1 false = Some s2 /\
                thread_step s2 false = None /\ thread_step s2 true = None /\
                lk_p0 s2 <> [] /\ lk_p1 s2 <> [].
Proof. eexists. eexists. repeat split; try (vm_compute; reflexivity); vm_compute; discriminate. Qed.

(* ---------- the historical tree, refuted ---------- *)

Definition ex_node : node :=
  mknode (str "n") false [str "u1"] [str "d1"] [(str "../o/f1", str "f1")] [str "cat"] []
         [(str "n", str "control")].

Definition ex_parse (l : bytes) : option jobj :=
  if beq_bytes l (str "{""command"":""status"",""requested_fields"":""NodeID""}")
  then Some [(str "command", JStr (str "status")); (str "requested_fields", JStr (str "NodeID"))]
  else None.
Definition ex_lower (b : bytes) : bytes := map ascii_lower b.

Lemma ex_node_ok : foreign_ok ex_node = true.
Proof. reflexivity. Qed.

(* 1. status with requested_fields of non-list type panics the pinned tree *)
Theorem pinned_status_refuted :
  exec_line ex_parse ex_lower (fun _ => true) (fun _ => []) pinned ex_node
            (str "{""command"":""status"",""requested_fields"":""NodeID""}") = LPanic P_REQUESTED_FIELDS.
Proof. vm_compute. reflexivity. Qed.

(* 2. a unit present only on disk dead-locks the pinned tree *)
Theorem pinned_lock_refuted :
  exec_line ex_parse ex_lower (fun _ => true) (fun _ => []) pinned ex_node (str "work status d1") = LDeadlock.
Proof. vm_compute. reflexivity. Qed.

(* 3. with the first two repairs only, an ID that leads out of the data directory is answered
      "unknown work unit" and yet the foreign unit is in the index afterwards *)
Theorem path_escape_refuted :
  exists nd', exec_line ex_parse ex_lower (fun _ => true) (fun _ => []) (mkfix true true false) ex_node
                        (str "work status ../o/f1") = LReplies nd' [RErr]
              /\ n_index nd' = [str "u1"; str "f1"].
Proof. eexists. split; vm_compute; reflexivity. Qed.

(* the same three inputs on the repaired tree *)
Lemma repaired_on_witnesses :
  exec_line ex_parse ex_lower (fun _ => true) (fun _ => []) repaired ex_node
            (str "{""command"":""status"",""requested_fields"":""NodeID""}") = LReplies ex_node [RErr] /\
  (exists nd', exec_line ex_parse ex_lower (fun _ => true) (fun _ => []) repaired ex_node (str "work status d1")
               = LReplies nd' [ROk] /\ n_index nd' = [str "u1"; str "d1"] /\ n_disk nd' = []) /\
  exec_line ex_parse ex_lower (fun _ => true) (fun _ => []) repaired ex_node (str "work status ../o/f1")
    = LReplies ex_node [RErr].
Proof. split; [|split]; [vm_compute; reflexivity| eexists; repeat split; vm_compute; reflexivity | vm_compute; reflexivity]. Qed.

(* a session: CR dropped, empty lines skipped, several commands, an unterminated tail executed at
   the half-close *)
Lemma example_session :
  session ex_parse ex_lower (fun _ => true) (fun _ => []) repaired ex_node
          (str "ping n" ++ [13; 10; 10] ++ str "bogus" ++ [10] ++ str "{oops" ++ [10] ++ str "work status d1" ++ [10] ++ str "work list") true
  = SReplies (with_units ex_node [str "u1"; str "d1"] []) [ROk; RErr; RErr; RErr; ROk; ROk].
Proof. vm_compute. reflexivity. Qed.
