(* Proofs/Sig.v — lemmas for property C15 over Model/Sig.v.  Everything is proved for an
   arbitrary JWT oracle [jwt] and both settings of [key_ok]. *)
From Coq Require Import ZArith Lia.
From Receptor Require Import Model.Sig.
Open Scope N_scope.

Section SigProofs.
Variable jwt : bytes -> jwt_result.
Variable key_ok : bool.

Notation authorize := (authorize jwt key_ok).
Notation exec := (exec jwt key_ok).

Lemma isnil_true b : isnil b = true <-> b = [].
Proof. destruct b; simpl; split; congruence. Qed.
Lemma isnil_false b : isnil b = false <-> b <> [].
Proof. destruct b; simpl; split; congruence. Qed.

(* exactly when processSignature lets a command through *)
Lemma authorize_allow_iff k c tok :
  authorize k c tok = Allow <->
  (should_verify k = false /\ tok = []) \/
  (should_verify k = true /\ (c = Unix \/ (tok <> [] /\ key_ok = true /\ jwt tok = JValid))).
Proof.
  unfold Sig.authorize, verify_signature.
  destruct (should_verify k); simpl.
  - destruct c; simpl.
    + split; [intros _; right; auto|reflexivity].
    + destruct tok as [|b tok]; simpl.
      * split; [discriminate|]. intros [[H _]|[_ [H|[H _]]]]; congruence.
      * destruct key_ok; simpl.
        -- destruct (jwt (b :: tok)); split; try discriminate; try (intros _; right; split; [reflexivity|right; repeat split; congruence]);
             intros [[H _]|[_ [H|(_ & _ & H)]]]; congruence.
        -- split; [discriminate|]. intros [[H _]|[_ [H|(_ & H & _)]]]; congruence.
    + destruct tok as [|b tok]; simpl.
      * split; [discriminate|]. intros [[H _]|[_ [H|[H _]]]]; congruence.
      * destruct key_ok; simpl.
        -- destruct (jwt (b :: tok)); split; try discriminate; try (intros _; right; split; [reflexivity|right; repeat split; congruence]);
             intros [[H _]|[_ [H|(_ & _ & H)]]]; congruence.
        -- split; [discriminate|]. intros [[H _]|[_ [H|(_ & H & _)]]]; congruence.
  - destruct tok as [|b tok]; simpl.
    + split; [intros _; left; auto|reflexivity].
    + split; [discriminate|]. intros [[_ H]|[H _]]; congruence.
Qed.

(* a token where none is expected is refused on every kind of connection, the unix socket included *)
Lemma authorize_unexpected k c tok :
  should_verify k = false -> tok <> [] -> authorize k c tok = Refuse E_UNEXPECTED.
Proof.
  intros Hv Ht. unfold Sig.authorize. rewrite Hv. destruct tok; [congruence|reflexivity].
Qed.

(* a protected command that is not let through changes nothing and answers with an error *)
Lemma exec_refused st c tok m k e :
  protected m = true -> deciding_kind st m = Some k -> authorize k c tok = Refuse e ->
  exists e', exec st c tok m = (st, RError e', []).
Proof.
  intros Hp Hk Ha. destruct m as [newid k0 rem sw|id|id f|id|id|]; simpl in *; try discriminate.
  - inversion Hk; subst k0. destruct (lookup newid st); [eauto|]. rewrite Ha. eauto.
  - destruct (lookup id st) as [u|]; [|discriminate]. inversion Hk; subst. rewrite Ha. eauto.
  - destruct (lookup id st) as [u|]; [|discriminate]. inversion Hk; subst. rewrite Ha. eauto.
  - destruct (lookup id st) as [u|]; [|discriminate]. inversion Hk; subst. rewrite Ha. eauto.
Qed.

(* without a deciding work type (the addressed unit does not exist) nothing happens either *)
Lemma exec_no_unit st c tok m :
  protected m = true -> deciding_kind st m = None ->
  exists e', exec st c tok m = (st, RError e', []).
Proof.
  intros Hp Hk. destruct m as [newid k0 rem sw|id|id f|id|id|]; simpl in *; try discriminate;
    destruct (lookup id st); try discriminate; eauto.
Qed.

Lemma decision_cases (d : decision) : d = Allow \/ exists e, d = Refuse e.
Proof. destruct d; eauto. Qed.

Theorem effect_requires_authorization st c tok m st' r effs :
  exec st c tok m = (st', r, effs) -> protected m = true ->
  (effs <> [] \/ st' <> st) ->
  exists k, deciding_kind st m = Some k /\
    (c = Unix \/
     (should_verify k = false /\ tok = []) \/
     (tok <> [] /\ key_ok = true /\ jwt tok = JValid)).
Proof.
  intros He Hp Heff.
  destruct (deciding_kind st m) as [k|] eqn:Hk.
  - exists k. split; [reflexivity|].
    destruct (decision_cases (authorize k c tok)) as [Ha|[e Ha]].
    + apply authorize_allow_iff in Ha. destruct Ha as [[H1 H2]|[H1 [H2|H2]]]; auto.
    + destruct (exec_refused st c tok m k e Hp Hk Ha) as [e' H]. rewrite H in He.
      inversion He; subst. destruct Heff as [H1|H1]; congruence.
  - destruct (exec_no_unit st c tok m Hp Hk) as [e' H]. rewrite H in He.
    inversion He; subst. destruct Heff as [H1|H1]; congruence.
Qed.

(* the same fact read the other way: over anything but the unix socket, with a verifying work
   type, a token that is not valid (absent, empty, malformed, wrong algorithm or key, expired,
   other audience — whatever the oracle says except JValid) or no configured key: state
   unchanged, no effect, error reply *)
Theorem unauthorized_refused st c tok m k :
  protected m = true -> deciding_kind st m = Some k ->
  should_verify k = true -> c <> Unix ->
  (tok = [] \/ key_ok = false \/ jwt tok <> JValid) ->
  exists e, exec st c tok m = (st, RError e, []).
Proof.
  intros Hp Hk Hv Hc Ht.
  destruct (decision_cases (authorize k c tok)) as [Ha|[e Ha]].
  - apply authorize_allow_iff in Ha. destruct Ha as [[H1 _]|[_ [H2|(H2 & H3 & H4)]]]; try congruence.
    destruct Ht as [Ht|[Ht|Ht]]; congruence.
  - eapply exec_refused; eauto.
Qed.

Theorem unexpected_token_refused st c tok m k :
  protected m = true -> deciding_kind st m = Some k ->
  should_verify k = false -> tok <> [] ->
  exists e, exec st c tok m = (st, RError e, []).
Proof.
  intros Hp Hk Hv Ht. eapply exec_refused; eauto. now apply authorize_unexpected.
Qed.

(* all five protected commands consult the same decision: when it allows (and the unit / work
   type exists) the effect is the command's own *)
Lemma allowed_effect st c tok id u :
  lookup id st = Some u -> authorize (u_kind u) c tok = Allow ->
  snd (exec st c tok (Cancel id)) = [EStopped id] /\
  (forall f, snd (exec st c tok (Release id f)) = [ERemoved id]) /\
  snd (exec st c tok (Results id)) = [ERead id].
Proof. intros Hl Ha. simpl. rewrite Hl, Ha. auto. Qed.

(* status and list never consult the verifier and never change anything *)
Lemma unprotected_pure st c tok m :
  protected m = false -> fst (fst (exec st c tok m)) = st /\ snd (exec st c tok m) = [].
Proof.
  destruct m as [newid k0 rem sw|id|id f|id|id|]; simpl; try discriminate; intros _;
    try destruct (lookup id st); auto.
Qed.

(* The decision is taken for the type the unit is created with: a local submit that creates a
   unit was let through by [authorize] on the very class [classify] gives the submitted name,
   and the unit carries that class (a local "remote" unit records signwork = false). *)
Theorem decision_for_created_type (r : registry) st c tok newid name signwork st' rp :
  exec_submit_name jwt key_ok r st c tok newid name false signwork = (st', rp, [ECreated newid]) ->
  authorize (classify r name signwork) c tok = Allow /\
  st' = st ++ [(newid, mkunit (match classify r name signwork with WRemote _ => WRemote false | k => k end) false)].
Proof.
  unfold exec_submit_name. simpl.
  destruct (lookup newid st); [discriminate|].
  destruct (authorize (classify r name signwork) c tok) eqn:Ea; [|discriminate].
  unfold submit_kind. destruct (classify r name signwork); intro H; inversion H; auto.
Qed.

(* hence: a unit of a verifying work type comes into being only over the unix socket or with a
   token the oracle calls valid — whatever spelling was submitted *)
Theorem verifying_unit_needs_token (r : registry) st c tok newid name signwork st' rp :
  exec_submit_name jwt key_ok r st c tok newid name false signwork = (st', rp, [ECreated newid]) ->
  reg_lookup name r = Some true -> name <> s_remote ->
  c = Unix \/ (tok <> [] /\ key_ok = true /\ jwt tok = JValid).
Proof.
  intros He Hr Hn. apply decision_for_created_type in He as [Ha _].
  unfold classify in Ha. destruct (beq_bytes name s_remote) eqn:E; [apply beq_bytes_eq in E; congruence|].
  rewrite Hr in Ha. apply authorize_allow_iff in Ha. simpl in Ha.
  destruct Ha as [[H _]|[_ H]]; [discriminate|exact H].
Qed.

(* a name that is not registered (any other spelling of a registered one included) creates nothing locally *)
Theorem unknown_name_creates_nothing (r : registry) st c tok newid name signwork :
  reg_lookup name r = None -> name <> s_remote ->
  exists e, exec_submit_name jwt key_ok r st c tok newid name false signwork = (st, RError e, []).
Proof.
  intros Hr Hn. unfold exec_submit_name, classify.
  destruct (beq_bytes name s_remote) eqn:E; [apply beq_bytes_eq in E; congruence|].
  rewrite Hr. simpl. destruct (lookup newid st); [eauto|].
  destruct (authorize WUnknown c tok); eauto.
Qed.

End SigProofs.

(* ---------- non-vacuity: a concrete oracle and node ---------- *)

Definition ex_jwt (tok : bytes) : jwt_result :=
  match tok with [1] => JValid | [2] => JExpired | [3] => JBadKey | _ => JMalformed end.
Definition ex_state : state := [(1, mkunit WVerify false); (2, mkunit WPlain false); (3, mkunit (WRemote true) false)].

Lemma example_sig :
  (* valid token over TCP: the verifying unit is stopped *)
  exec ex_jwt true ex_state Tcp [1] (Cancel 1)
    = ([(1, mkunit WVerify true); (2, mkunit WPlain false); (3, mkunit (WRemote true) false)], ROk, [EStopped 1]) /\
  (* expired token over a mesh stream: refused *)
  exec ex_jwt true ex_state Mesh [2] (Release 1 true) = (ex_state, RError E_INVALID, []) /\
  (* no token over TCP on a signed remote unit: refused *)
  exec ex_jwt true ex_state Tcp [] (Results 3) = (ex_state, RError E_EMPTY, []) /\
  (* valid token, but to a unit that does not expect one: refused, even on the unix socket *)
  exec ex_jwt true ex_state Unix [1] (Cancel 2) = (ex_state, RError E_UNEXPECTED, []) /\
  (* the unix socket needs no token *)
  snd (exec ex_jwt true ex_state Unix [] (Results 1)) = [ERead 1] /\
  (* no key configured: even a well-formed token is refused *)
  exec ex_jwt false ex_state Tcp [1] (Cancel 3) = (ex_state, RError E_NOKEY, []).
Proof. vm_compute. repeat split. Qed.

(* ---------- the signing side ---------- *)

(* a token made with the key the target verifies with, for that target, is valid exactly until
   its expiration *)
Lemma signed_token_valid k target expiration elapsed t :
  create_signature (Some k) target expiration = Some t ->
  jwt_of k target elapsed t = (if (expiration <=? elapsed)%Z then JExpired else JValid).
Proof.
  intro H. inversion H; subst. unfold jwt_of. simpl.
  rewrite N.eqb_refl, beq_bytes_refl. simpl. destruct (expiration <=? elapsed)%Z; reflexivity.
Qed.

Lemma other_key_token_invalid k k' target expiration elapsed t :
  k <> k' -> create_signature (Some k) target expiration = Some t -> jwt_of k' target elapsed t = JBadKey.
Proof.
  intros Hne H. inversion H; subst. unfold jwt_of. simpl.
  destruct (k =? k') eqn:E; [apply N.eqb_eq in E; congruence|reflexivity].
Qed.

Lemma other_target_token_invalid k target node expiration elapsed t :
  target <> node -> (elapsed < expiration)%Z ->
  create_signature (Some k) target expiration = Some t -> jwt_of k node elapsed t = JWrongAud.
Proof.
  intros Hne Hlt H. inversion H; subst. unfold jwt_of. simpl. rewrite N.eqb_refl. simpl.
  destruct (expiration <=? elapsed)%Z eqn:E; [apply Z.leb_le in E; lia|].
  destruct (beq_bytes target node) eqn:E2; [apply beq_bytes_eq in E2; congruence|reflexivity].
Qed.

(* End to end: a remote submission to a VERIFYING work type is let through at the target iff the
   submitter signs (signwork), has the key the target verifies with, and the token has not expired. *)
Theorem remote_submit_to_verifying_type sk expiration elapsed signwork vk r target name :
  reg_lookup name r = Some true -> name <> s_remote ->
  (remote_submit_decision sk expiration elapsed signwork vk r target name = Some Allow <->
   signwork = true /\ sk = Some vk /\ (elapsed < expiration)%Z).
Proof.
  intros Hr Hn. unfold remote_submit_decision, classify.
  destruct (beq_bytes name s_remote) eqn:E; [apply beq_bytes_eq in E; congruence|]. rewrite Hr.
  destruct signwork.
  - destruct sk as [k|]; simpl; [|split; [discriminate|intros (_ & H & _); discriminate]].
    unfold authorize, verify_signature, jwt_of. simpl.
    destruct (k =? vk) eqn:Ek; simpl.
    + apply N.eqb_eq in Ek; subst. rewrite beq_bytes_refl. simpl.
      destruct (expiration <=? elapsed)%Z eqn:El; simpl.
      * apply Z.leb_le in El. split; [discriminate|intros (_ & _ & H); lia].
      * apply Z.leb_gt in El. split; auto.
    + split; [discriminate|]. intros (_ & H & _). inversion H. subst. rewrite N.eqb_refl in Ek. discriminate.
  - simpl. unfold authorize, verify_signature. simpl. split; [discriminate|intros [H _]; discriminate].
Qed.

(* to a work type that does not verify, the signed submission is the one that is refused *)
Theorem remote_submit_to_plain_type sk expiration elapsed signwork vk r target name :
  reg_lookup name r = Some false -> name <> s_remote ->
  (remote_submit_decision sk expiration elapsed signwork vk r target name = Some Allow <-> signwork = false).
Proof.
  intros Hr Hn. unfold remote_submit_decision, classify.
  destruct (beq_bytes name s_remote) eqn:E; [apply beq_bytes_eq in E; congruence|]. rewrite Hr.
  destruct signwork.
  - destruct sk as [k|]; simpl; split; discriminate.
  - simpl. split; reflexivity.
Qed.

(* ---------- the local-socket test looks at the whole network name ---------- *)
Theorem network_name_decides : forall c node suffix,
  conn_is_unix (net_of c node suffix) = is_unix c.
Proof. intros [| |] node suffix; reflexivity. Qed.

Theorem contains_unix_refuted :
  let node := [109; 117; 110; 105; 120; 49] (* "munix1" *) in
  conn_is_unix (net_of Mesh node []) = false /\
  conn_contains_unix (net_of Mesh node []) = true /\
  ~ (forall c node suffix, conn_contains_unix (net_of c node suffix) = is_unix c).
Proof.
  split; [reflexivity|]. split; [reflexivity|].
  intro H. specialize (H Mesh [109; 117; 110; 105; 120; 49] []). vm_compute in H. discriminate.
Qed.
