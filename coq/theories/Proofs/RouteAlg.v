(* Proofs/RouteAlg.v — the label-correcting loop of updateRoutingTable, for EVERY pop order:
   whenever the queue is empty the cost map passes the certificate conditions of Proofs/Route.v
   (hence equals the least costs), the prev-chain next hop is a least-cost next hop, and every
   execution is finite. *)
From Coq Require Import ZArith Lia ZifyN ZifyNat ZifyBool.
From Receptor Require Import Model.Route Proofs.Route Proofs.FloodWorld.
Open Scope N_scope.

(* a <= b with None = infinity *)
Definition ole (a b : option N) : Prop :=
  match b with
  | None => True
  | Some y => match a with Some x => x <= y | None => False end
  end.

Lemma ole_refl a : ole a a.
Proof. destruct a; simpl; auto. lia. Qed.
Lemma ole_trans a b c : ole a b -> ole b c -> ole a c.
Proof. destruct a, b, c; simpl; try tauto; lia. Qed.

Lemma cost_of_aset_same cs v c : cost_of (aset v (Some c) cs) v = Some c.
Proof. unfold cost_of. now rewrite aget_aset_same. Qed.
Lemma cost_of_aset_other cs v x c : x <> v -> cost_of (aset v c cs) x = cost_of cs x.
Proof. intro H. unfold cost_of. now rewrite aget_aset_other. Qed.

Section Alg.
Variables (g : graph) (self : node).
Hypothesis Hwf : graph_wf g = true.
Hypothesis Hpos : positive g.

Definition cst (st : rstate) (v : node) : option N := cost_of (r_cost st) v.
Definition queued (st : rstate) (v : node) : Prop := In v (r_queue st).

(* the invariant; [busy] is the node whose out-edges are being relaxed (exempt from I3) *)
Record Inv (busy : option node) (st : rstate) : Prop := {
  i_self : is_key g self = true -> cst st self = Some 0;
  i_nonkey : forall v, is_key g v = false -> cst st v = None;
  i_prev : forall v c, v <> self -> cst st v = Some c ->
             exists p w cp, aget v (r_prev st) = Some p /\ edge g p v = Some w /\
                            cst st p = Some cp /\ cp + w <= c;
  i_prev_self : aget self (r_prev st) = None;
  i_prev_dom : forall v p, aget v (r_prev st) = Some p -> cst st v <> None;
  i_edges : forall u v w cu, ~ queued st u -> busy <> Some u -> edge g u v = Some w ->
              cst st u = Some cu -> exists cv, cst st v = Some cv /\ cv <= cu + w;
  i_unreached : forall v, cst st v = None -> v <> self \/ is_key g self = false
}.

(* one edge relaxation *)
Definition relax1 (u : node) (cu : N) (v : node) (w : N) (st : rstate) : rstate :=
  if is_key g v then
    if match cost_of (r_cost st) v with Some cv => cu + w <? cv | None => true end
    then {| r_cost := aset v (Some (cu + w)) (r_cost st);
            r_prev := aset v u (r_prev st);
            r_queue := if mem_N v (r_queue st) then r_queue st else r_queue st ++ [v] |}
    else st
  else st.

Lemma relax_edges_cons u cu v w r st :
  relax_edges g u cu ((v, w) :: r) st = relax_edges g u cu r (relax1 u cu v w st).
Proof. reflexivity. Qed.

Lemma relax1_spec u cu v w st :
  Inv (Some u) st -> cst st u = Some cu -> edge g u v = Some w ->
  let st' := relax1 u cu v w st in
  Inv (Some u) st' /\ cst st' u = Some cu /\
  (forall x, ole (cst st' x) (cst st x)) /\
  (forall x, queued st x -> queued st' x) /\
  (forall x, queued st' x -> queued st x \/ (x = v /\ cst st' x <> cst st x)) /\
  (exists cv, cst st' v = Some cv /\ cv <= cu + w).
Proof.
  intros I Hu He. destruct (edge_keys _ _ _ _ He) as [Hku Hkv].
  pose proof (Hpos _ _ _ He) as Hw.
  unfold relax1. rewrite Hkv. cbv zeta.
  destruct (match cost_of (r_cost st) v with Some cv => cu + w <? cv | None => true end) eqn:Eb.
  2:{ (* no improvement *)
    split; [exact I|]. split; [exact Hu|]. split; [intro; apply ole_refl|].
    split; [auto|]. split; [auto|].
    fold (cst st v) in Eb. destruct (cst st v) as [cv|] eqn:Ev; [|discriminate].
    exists cv. split; [reflexivity|lia]. }
  (* improvement: v <> u (a self-loop cannot improve) and v <> self when self is reached at 0 *)
  fold (cst st v) in Eb.
  assert (Himp : match cst st v with Some cv => cu + w < cv | None => True end).
  { destruct (cst st v); [lia|exact Logic.I]. }
  assert (Hvu : v <> u).
  { intro; subst v. rewrite Hu in Eb. lia. }
  assert (Hvs : v <> self).
  { intro; subst v. rewrite (i_self _ _ I Hkv) in Eb. lia. }
  set (st' := {| r_cost := aset v (Some (cu + w)) (r_cost st); r_prev := aset v u (r_prev st);
                 r_queue := if mem_N v (r_queue st) then r_queue st else r_queue st ++ [v] |}).
  assert (Hc_v : cst st' v = Some (cu + w)) by apply cost_of_aset_same.
  assert (Hc_o : forall x, x <> v -> cst st' x = cst st x) by (intros; now apply cost_of_aset_other).
  assert (Hq : forall x, queued st x -> queued st' x).
  { intros x Hx. unfold queued, st'. cbn [r_queue]. destruct (mem_N v (r_queue st)); [exact Hx|].
    apply in_or_app. now left. }
  assert (Hqv : queued st' v).
  { unfold queued, st'. cbn [r_queue]. destruct (mem_N v (r_queue st)) eqn:E.
    - now apply mem_N_In. - apply in_or_app. right. now left. }
  assert (Hq' : forall x, queued st' x -> queued st x \/ x = v).
  { intros x Hx. unfold queued, st' in Hx. cbn [r_queue] in Hx.
    destruct (mem_N v (r_queue st)); [now left|]. apply in_app_or in Hx as [Hx|[<-|[]]]; auto. }
  assert (Hdec : forall x, ole (cst st' x) (cst st x)).
  { intro x. destruct (N.eq_dec x v) as [->|Hx]; [|rewrite Hc_o by assumption; apply ole_refl].
    rewrite Hc_v. destruct (cst st v) as [cv|]; simpl; [lia|exact Logic.I]. }
  split; [|split; [rewrite Hc_o by congruence; exact Hu|split; [exact Hdec|split; [exact Hq|split]]]].
  - constructor.
    + intro Hk. rewrite Hc_o by congruence. now apply (i_self _ _ I).
    + intros x Hx. rewrite Hc_o; [now apply (i_nonkey _ _ I)|]. intro; subst x. congruence.
    + intros x c Hxs Hcx. destruct (N.eq_dec x v) as [->|Hxv].
      * rewrite Hc_v in Hcx. inversion Hcx; subst c.
        exists u, w, cu. unfold st'. cbn [r_prev]. rewrite aget_aset_same.
        repeat split; auto; [rewrite Hc_o by congruence; exact Hu|lia].
      * rewrite Hc_o in Hcx by assumption.
        destruct (i_prev _ _ I x c Hxs Hcx) as [p [w' [cp [Hp [He' [Hcp Hle]]]]]].
        unfold st'. cbn [r_prev]. rewrite aget_aset_other by assumption.
        pose proof (Hdec p) as Hd. rewrite Hcp in Hd. destruct (cst st' p) as [cp'|] eqn:Ecp'; [|destruct Hd].
        exists p, w', cp'. repeat split; auto. simpl in Hd. lia.
    + unfold st'. cbn [r_prev]. rewrite aget_aset_other by congruence. apply (i_prev_self _ _ I).
    + intros x p Hp. unfold st' in Hp. cbn [r_prev] in Hp. destruct (N.eq_dec x v) as [->|Hxv].
      * rewrite Hc_v. discriminate.
      * rewrite aget_aset_other in Hp by assumption. rewrite Hc_o by assumption.
        eapply (i_prev_dom _ _ I); eauto.
    + intros a b w' ca Hnq Hbusy He' Hca.
      assert (Hav : a <> v) by (intro; subst a; contradiction).
      rewrite Hc_o in Hca by assumption.
      assert (Hnq0 : ~ queued st a) by (intro Hx; apply Hnq; now apply Hq).
      destruct (i_edges _ _ I a b w' ca Hnq0 Hbusy He' Hca) as [cb [Hcb Hle]].
      pose proof (Hdec b) as Hd. rewrite Hcb in Hd. destruct (cst st' b) as [cb'|]; [|destruct Hd].
      exists cb'. split; [reflexivity|]. simpl in Hd. lia.
    + intros x Hx. destruct (N.eq_dec x v) as [->|Hxv]; [rewrite Hc_v in Hx; discriminate|].
      rewrite Hc_o in Hx by assumption. now apply (i_unreached _ _ I).
  - intros x Hx. destruct (Hq' x Hx) as [H|H]; [now left|]. subst x. right. split; [reflexivity|].
    rewrite Hc_v. destruct (cst st v) as [cv|]; [intro E; inversion E; lia|discriminate].
  - exists (cu + w). split; [exact Hc_v|lia].
Qed.

Lemma ole_antisym a b : ole a b -> ole b a -> a = b.
Proof. destruct a, b; simpl; try tauto; intros; f_equal; lia. Qed.

(* relaxing all out-edges of u *)
Lemma relax_edges_spec u cu : forall adj st,
  (forall v w, In (v, w) adj -> is_key g v = true -> edge g u v = Some w) ->
  Inv (Some u) st -> cst st u = Some cu ->
  let st' := relax_edges g u cu adj st in
  Inv (Some u) st' /\ cst st' u = Some cu /\
  (forall x, ole (cst st' x) (cst st x)) /\
  (forall x, queued st x -> queued st' x) /\
  (forall x, queued st' x -> queued st x \/ cst st' x <> cst st x) /\
  (forall v w, In (v, w) adj -> is_key g v = true -> exists cv, cst st' v = Some cv /\ cv <= cu + w).
Proof.
  induction adj as [|[v w] r IH]; intros st Hadj I Hu; cbv zeta.
  - cbn [relax_edges]. split; [exact I|]. split; [exact Hu|]. split; [intro; apply ole_refl|].
    split; [auto|]. split; [auto|]. intros v w [].
  - rewrite relax_edges_cons.
    destruct (is_key g v) eqn:Hkv.
    + assert (He : edge g u v = Some w) by (apply Hadj; [now left|exact Hkv]).
      destruct (relax1_spec u cu v w st I Hu He) as [I1 [Hu1 [Hd1 [Hq1 [Hq1' Hv1]]]]].
      destruct (IH (relax1 u cu v w st) (fun a b Hin => Hadj a b (or_intror Hin)) I1 Hu1)
        as [I2 [Hu2 [Hd2 [Hq2 [Hq2' Hv2]]]]].
      split; [exact I2|]. split; [exact Hu2|].
      split; [intro x; eapply ole_trans; [apply Hd2|apply Hd1]|].
      split; [auto|]. split.
      * intros x Hx. destruct (Hq2' x Hx) as [Hm|Hne].
        -- destruct (Hq1' x Hm) as [H0|[-> Hne]]; [now left|]. right.
           intro E. apply Hne. apply ole_antisym; [apply Hd1|]. rewrite <- E. apply Hd2.
        -- right. intro E. apply Hne. apply ole_antisym; [apply Hd2|]. rewrite E. apply Hd1.
      * intros a b [E|Hin] Hka.
        -- inversion E; subst a b. destruct Hv1 as [cv [Hcv Hle]].
           pose proof (Hd2 v) as Hd. rewrite Hcv in Hd.
           destruct (cst (relax_edges g u cu r (relax1 u cu v w st)) v) as [cv'|]; [|destruct Hd].
           exists cv'. split; [reflexivity|]. simpl in Hd. lia.
        -- now apply Hv2.
    + (* a neighbour that is not a key is skipped *)
      assert (Hid : relax1 u cu v w st = st) by (unfold relax1; now rewrite Hkv).
      rewrite Hid.
      destruct (IH st (fun a b Hin => Hadj a b (or_intror Hin)) I Hu) as [I2 [Hu2 [Hd2 [Hq2 [Hq2' Hv2]]]]].
      split; [exact I2|]. split; [exact Hu2|]. split; [exact Hd2|]. split; [exact Hq2|]. split; [exact Hq2'|].
      intros a b [E|Hin] Hka; [inversion E; subst; congruence|now apply Hv2].
Qed.

Lemma filter_neq_In (u x : node) l : In x (filter (fun y => negb (y =? u)) l) <-> In x l /\ x <> u.
Proof.
  rewrite filter_In. split; intros [H1 H2]; split; auto.
  - intro; subst. rewrite N.eqb_refl in H2. discriminate.
  - destruct (x =? u) eqn:E; [apply N.eqb_eq in E; contradiction|reflexivity].
Qed.

(* one pop preserves the invariant, never raises a cost, and re-queues only improved nodes *)
Lemma pop_spec u st : Inv None st -> queued st u ->
  let st' := pop g u st in
  Inv None st' /\ (forall x, ole (cst st' x) (cst st x)) /\
  ~ queued st' u /\
  (forall x, queued st' x -> (queued st x /\ x <> u) \/ cst st' x <> cst st x) /\
  (forall x, queued st x -> x <> u -> queued st' x).
Proof.
  intros I Hq. cbv zeta. unfold pop.
  set (st0 := {| r_cost := r_cost st; r_prev := r_prev st;
                 r_queue := filter (fun x => negb (x =? u)) (r_queue st) |}).
  assert (Hq0 : forall x, queued st0 x <-> queued st x /\ x <> u) by (intro; apply filter_neq_In).
  assert (I0 : Inv (Some u) st0).
  { destruct I as [A B C D E F G]. constructor; auto.
    intros a b w ca Hnq Hb He Hca. apply (F a b w ca); auto.
    - intro Hx. apply Hnq. apply Hq0. split; [exact Hx|congruence].
    - discriminate. }
  assert (I0' : cst st u = None \/ aget u g = None -> Inv None st0).
  { intro Hc. destruct I as [A B C D E F G]. constructor; auto.
    intros a b w ca Hnq _ He Hca. destruct (N.eq_dec a u) as [->|Hau].
    - exfalso. destruct Hc as [Hc|Hc]; [unfold cst, st0 in *; cbn [r_cost] in *; congruence|].
      unfold edge in He. now rewrite Hc in He.
    - apply (F a b w ca); auto; [|discriminate].
      intro Hx. apply Hnq. apply Hq0. auto. }
  destruct (aget u g) as [adj|] eqn:Ea.
  2:{ split; [apply I0'; now right|]. split; [intro; apply ole_refl|].
      split; [intro Hx; apply Hq0 in Hx; tauto|]. split; [intros x Hx; left; now apply Hq0|].
      intros x Hx Hne. apply Hq0. auto. }
  destruct (cost_of (r_cost st) u) as [cu|] eqn:Ec.
  2:{ split; [apply I0'; now left|]. split; [intro; apply ole_refl|].
      split; [intro Hx; apply Hq0 in Hx; tauto|]. split; [intros x Hx; left; now apply Hq0|].
      intros x Hx Hne. apply Hq0. auto. }
  assert (Hadj : forall v w, In (v, w) adj -> is_key g v = true -> edge g u v = Some w)
    by (intros; eapply adj_In_edge; eauto).
  destruct (relax_edges_spec u cu adj st0 Hadj I0 Ec) as [I1 [Hu1 [Hd1 [Hq1 [Hq1' Hv1]]]]].
  set (st' := relax_edges g u cu adj st0) in *.
  assert (Hnqu : ~ queued st' u).
  { intro Hx. destruct (Hq1' u Hx) as [H0|Hne]; [apply Hq0 in H0; tauto|].
    apply Hne. rewrite Hu1. symmetry. exact Ec. }
  split; [|split; [exact Hd1|split; [exact Hnqu|split]]].
  - destruct I1 as [A B C D E F G]. constructor; auto.
    intros a b w ca Hnq _ He Hca. destruct (N.eq_dec a u) as [->|Hau].
    + (* u itself: all its out-edges have just been relaxed *)
      unfold cst in Hca, Hu1. rewrite Hu1 in Hca. inversion Hca; subst ca.
      destruct (edge_keys _ _ _ _ He) as [_ Hkb].
      unfold edge in He. rewrite Ea, Hkb in He. apply (Hv1 b w); [now apply aget_In|exact Hkb].
    + apply (F a b w ca); auto. congruence.
  - intros x Hx. destruct (Hq1' x Hx) as [H0|Hne]; [left; now apply Hq0|now right].
  - intros x Hx Hne. apply Hq1. apply Hq0. auto.
Qed.

(* ---------- the initial state ---------- *)
Lemma aget_map_keys {V W} (f : N -> W) (m : amap V) v :
  aget v (map (fun p => (fst p, f (fst p))) m) = if amem v m then Some (f v) else None.
Proof.
  unfold amem. induction m as [|[k x] r IH]; simpl; [reflexivity|].
  destruct (k =? v) eqn:E; [apply N.eqb_eq in E; now subst|exact IH].
Qed.

Lemma init_cst v : cst (r_init g self) v = if is_key g v && (v =? self) then Some 0 else None.
Proof.
  unfold cst, cost_of, r_init. cbn [r_cost].
  rewrite (aget_map_keys (fun k => if k =? self then Some 0 else None) g v). unfold is_key.
  destruct (amem v g); [|reflexivity]. simpl. destruct (v =? self); reflexivity.
Qed.

Lemma init_inv : Inv None (r_init g self).
Proof.
  constructor.
  - intro Hk. rewrite init_cst, Hk, N.eqb_refl. reflexivity.
  - intros v Hk. now rewrite init_cst, Hk.
  - intros v c Hne Hc. rewrite init_cst in Hc. destruct (v =? self) eqn:E; [lia|].
    rewrite andb_false_r in Hc. discriminate.
  - reflexivity.
  - intros v p H. discriminate.
  - intros u v w cu Hnq _ He _. exfalso. apply Hnq. destruct (edge_keys _ _ _ _ He) as [Hk _].
    unfold queued, r_init. cbn [r_queue]. right. apply amem_aget in Hk as [adj Ha].
    apply in_map_iff. exists (u, adj). split; [reflexivity|now apply aget_In].
  - intros v Hc. rewrite init_cst in Hc. destruct (is_key g v) eqn:Hk; simpl in Hc.
    + destruct (v =? self) eqn:E; [discriminate|]. left. lia.
    + destruct (N.eq_dec v self) as [->|]; [right; exact Hk|now left].
Qed.

Lemma star_inv a b : relax_star g a b -> Inv None a -> Inv None b.
Proof.
  intro H. induction H as [|a b c Hab Hbc IH]; [auto|].
  intro I. apply IH. inversion Hab; subst. now apply pop_spec.
Qed.

(* THE ALGORITHM IS CORRECT FOR EVERY POP ORDER: whenever the queue is empty, the cost map
   satisfies the certificate conditions, hence (Proofs/Route.v) holds exactly the least costs *)
Theorem relax_terminal_cert st :
  relax_star g (r_init g self) st -> r_queue st = [] -> cert g self (r_cost st).
Proof.
  intros Hs Hq. pose proof (star_inv _ _ Hs init_inv) as I.
  assert (Hnq : forall x, ~ queued st x) by (intros x Hx; unfold queued in Hx; now rewrite Hq in Hx).
  constructor.
  - intros c Hk Hc. pose proof (i_self _ _ I Hk) as H0. unfold cst in H0. congruence.
  - intros Hk Hc. pose proof (i_self _ _ I Hk) as H0. unfold cst in H0. congruence.
  - intros v c Hk Hne Hc.
    destruct (i_prev _ _ I v c Hne Hc) as [p [w [cp [_ [He [Hcp Hle]]]]]].
    destruct (i_edges _ _ I p v w cp (Hnq p) ltac:(discriminate) He Hcp) as [cv [Hcv Hle2]].
    unfold cst in *. rewrite Hc in Hcv. inversion Hcv; subst cv.
    exists p, w, cp. repeat split; auto. lia.
  - intros u v w cu He Hcu. apply (i_edges _ _ I u v w cu (Hnq u)); auto. discriminate.
Qed.

Corollary relax_terminal_costs st v :
  relax_star g (r_init g self) st -> r_queue st = [] -> is_key g v = true ->
  (forall c, cost_of (r_cost st) v = Some c -> is_dist g self v c) /\
  (cost_of (r_cost st) v = None -> unreachable g self v).
Proof.
  intros Hs Hq Hk. apply costs_sound; auto. now apply relax_terminal_cert.
Qed.

(* ---------- the prev-chain next hop at termination ---------- *)
Section Terminal.
Variable st : rstate.
Hypothesis Hs : relax_star g (r_init g self) st.
Hypothesis Hq : r_queue st = [].

Lemma terminal_tight x q : aget x (r_prev st) = Some q ->
  x <> self /\ exists w cq, edge g q x = Some w /\ cst st q = Some cq /\ cst st x = Some (cq + w).
Proof.
  intro Hp. pose proof (star_inv _ _ Hs init_inv) as I.
  assert (Hxs : x <> self).
  { intro; subst x. rewrite (i_prev_self _ _ I) in Hp. discriminate. }
  split; [exact Hxs|].
  destruct (cst st x) as [cx|] eqn:Ecx; [|exfalso; eapply (i_prev_dom _ _ I); eauto].
  destruct (i_prev _ _ I x cx Hxs Ecx) as [p [w [cp [Hp' [He [Hcp Hle]]]]]].
  rewrite Hp in Hp'. inversion Hp'; subst p.
  assert (Hnq : ~ queued st q) by (unfold queued; rewrite Hq; intros []).
  destruct (i_edges _ _ I q x w cp Hnq ltac:(discriminate) He Hcp) as [cx' [Hcx' Hle2]].
  rewrite Ecx in Hcx'. inversion Hcx'; subst cx'.
  exists w, cp. repeat split; auto. f_equal. lia.
Qed.

Lemma hop_of_chain : forall fuel x h, hop_of fuel self (r_prev st) x = Some h ->
  aget h (r_prev st) = Some self /\
  exists c2 ch, walk g h x c2 /\ cst st h = Some ch /\ cst st x = Some (ch + c2).
Proof.
  induction fuel as [|f IH]; intros x h H; simpl in H.
  - destruct (aget x (r_prev st)) as [q|] eqn:Ep; [|discriminate].
    destruct (q =? self) eqn:E; [|discriminate]. inversion H; subst h. apply N.eqb_eq in E. subst q.
    split; [exact Ep|]. destruct (terminal_tight _ _ Ep) as [_ [w [cq [_ [_ Hcx]]]]].
    exists 0, (cq + w). split; [apply walk_nil|]. split; [exact Hcx|]. rewrite Hcx. f_equal. lia.
  - destruct (aget x (r_prev st)) as [q|] eqn:Ep; [|discriminate].
    destruct (q =? self) eqn:E.
    + inversion H; subst h. apply N.eqb_eq in E. subst q.
      split; [exact Ep|]. destruct (terminal_tight _ _ Ep) as [_ [w [cq [_ [_ Hcx]]]]].
      exists 0, (cq + w). split; [apply walk_nil|]. split; [exact Hcx|]. rewrite Hcx. f_equal. lia.
    + destruct (IH q h H) as [Hh [c2 [ch [W [Hch Hcq]]]]].
      split; [exact Hh|]. destruct (terminal_tight _ _ Ep) as [_ [w [cq [He [Hcq' Hcx]]]]].
      rewrite Hcq in Hcq'. inversion Hcq'; subst cq.
      exists (c2 + w), ch. split; [eapply walk_snoc; eauto|]. split; [exact Hch|]. rewrite Hcx. f_equal. lia.
Qed.

(* every entry of the table built from the prev-chains names a direct neighbour on a least-cost
   path, for every pop order *)
Theorem relax_terminal_table d h : In (d, h) (table_of g self st) ->
  is_key g d = true /\
  exists w c2, edge g self h = Some w /\ walk g h d c2 /\ is_dist g self d (w + c2).
Proof.
  unfold table_of. rewrite in_flat_map. intros [[k adj] [Hin Hd]]. cbn [fst] in Hd.
  destruct (hop_of (length g) self (r_prev st) k) as [h'|] eqn:Eh; [|destruct Hd].
  destruct Hd as [E|[]]. inversion E; subst k h'.
  assert (Hk : is_key g d = true).
  { apply amem_aget. unfold graph_wf in Hwf. apply andb_true_iff in Hwf as [Hsg _].
    exists adj. eapply sorted_In_aget; eauto. }
  split; [exact Hk|].
  destruct (hop_of_chain _ _ _ Eh) as [Hh [c2 [ch [W [Hch Hcd]]]]].
  destruct (terminal_tight _ _ Hh) as [_ [w [c0 [He [Hc0 Hch']]]]].
  destruct (edge_keys _ _ _ _ He) as [Hks _].
  pose proof (star_inv _ _ Hs init_inv) as I.
  rewrite (i_self _ _ I Hks) in Hc0. inversion Hc0; subst c0.
  rewrite Hch in Hch'. inversion Hch'; subst ch.
  exists w, c2. split; [exact He|]. split; [exact W|].
  destruct (relax_terminal_costs st d Hs Hq Hk) as [S _]. apply S.
  exact Hcd.
Qed.
End Terminal.
End Alg.

(* ---------- termination: every execution is finite, whatever the pop order ---------- *)
From Coq Require Import Wellfounded.Lexicographic_Product Relations.Relation_Operators Wellfounded.Inclusion Wellfounded.Inverse_Image.

Lemma sorted_from_NoDup {V} (m : amap V) : forall lo, sorted_from lo m = true -> NoDup (map fst m).
Proof.
  induction m as [|[k v] r IH]; intros lo H; simpl; [constructor|].
  simpl in H. apply andb_true_iff in H as [_ H]. constructor; [|eapply IH; eauto].
  intro Hin. apply in_map_iff in Hin as [[k' v'] [E Hin]]. simpl in E. subst k'.
  pose proof (sorted_from_lb r k k v' H Hin). lia.
Qed.

Section Termination.
Variable g : graph.
Hypothesis Hwf : graph_wf g = true.

Definition keys : list node := map fst g.

Lemma keys_NoDup : NoDup keys.
Proof.
  unfold graph_wf in Hwf. apply andb_true_iff in Hwf as [H _]. eapply sorted_from_NoDup; eauto.
Qed.

Lemma key_in_keys v : is_key g v = true -> In v keys.
Proof.
  intro H. apply amem_aget in H as [adj Ha]. apply aget_In in Ha.
  apply in_map_iff. exists (v, adj). auto.
Qed.

Definition val (cs : costs) (k : node) : N := match cost_of cs k with Some c => c | None => 0 end.
Definition isnone (cs : costs) (k : node) : bool := match cost_of cs k with None => true | _ => false end.
Definition total (cs : costs) (l : list node) : N := fold_right (fun k acc => val cs k + acc) 0 l.
Definition nones (cs : costs) (l : list node) : nat := length (filter (isnone cs) l).

Lemma val_other cs v c k : k <> v -> val (aset v c cs) k = val cs k.
Proof. intro H. unfold val. now rewrite cost_of_aset_other. Qed.
Lemma val_same cs v c : val (aset v (Some c) cs) v = c.
Proof. unfold val. now rewrite cost_of_aset_same. Qed.
Lemma isnone_other cs v c k : k <> v -> isnone (aset v c cs) k = isnone cs k.
Proof. intro H. unfold isnone. now rewrite cost_of_aset_other. Qed.
Lemma isnone_same cs v c : isnone (aset v (Some c) cs) v = false.
Proof. unfold isnone. now rewrite cost_of_aset_same. Qed.

Lemma total_other cs v c l : ~ In v l -> total (aset v c cs) l = total cs l.
Proof.
  induction l as [|k r IH]; intro H; [reflexivity|].
  cbn [total fold_right]. fold (total (aset v c cs) r). fold (total cs r).
  rewrite val_other by (intro; subst; apply H; now left).
  rewrite IH; [reflexivity|]. intro; apply H; now right.
Qed.

Lemma nones_other cs v c l : ~ In v l -> nones (aset v c cs) l = nones cs l.
Proof.
  intro H. unfold nones. f_equal. apply filter_ext_in. intros k Hk.
  apply isnone_other. intro; subst; contradiction.
Qed.

Lemma total_update cs v c l : NoDup l -> In v l ->
  total (aset v (Some c) cs) l + val cs v = total cs l + c.
Proof.
  induction l as [|k r IH]; intros Hnd Hin; [destruct Hin|].
  inversion Hnd as [|? ? Hnk Hnd']; subst.
  cbn [total fold_right]. fold (total (aset v (Some c) cs) r). fold (total cs r).
  destruct Hin as [->|Hin].
  - rewrite val_same, total_other by assumption. lia.
  - assert (k <> v) by (intro; subst; contradiction).
    rewrite val_other by assumption. specialize (IH Hnd' Hin). lia.
Qed.

Lemma nones_cons cs k r : nones cs (k :: r) = ((if isnone cs k then 1 else 0) + nones cs r)%nat.
Proof. unfold nones. cbn [filter]. destruct (isnone cs k); reflexivity. Qed.

Lemma nones_update cs v c l : NoDup l -> In v l ->
  (nones (aset v (Some c) cs) l + (if isnone cs v then 1 else 0) = nones cs l)%nat.
Proof.
  induction l as [|k r IH]; intros Hnd Hin; [destruct Hin|].
  inversion Hnd as [|? ? Hnk Hnd']; subst. rewrite !nones_cons.
  destruct Hin as [->|Hin].
  - rewrite isnone_same, nones_other by assumption. destruct (isnone cs v); lia.
  - assert (k <> v) by (intro; subst; contradiction).
    rewrite isnone_other by assumption. specialize (IH Hnd' Hin). destruct (isnone cs k); lia.
Qed.

Definition phi (st : rstate) : nat * N :=
  (nones (r_cost st) keys, 2 * total (r_cost st) keys + N.of_nat (length (r_queue st))).

Definition plt (a b : nat * N) : Prop :=
  (fst a < fst b)%nat \/ (fst a = fst b /\ snd a < snd b).
Definition ple (a b : nat * N) : Prop := plt a b \/ a = b.

Lemma plt_wf : well_founded plt.
Proof.
  apply (wf_incl _ _ (slexprod nat N lt N.lt)).
  - intros [a1 a2] [b1 b2] [H|[H1 H2]]; simpl in *; [now apply left_slex|subst; now apply right_slex].
  - apply wf_slexprod; [apply lt_wf|apply N.lt_wf_0].
Qed.

Lemma ple_plt_trans a b c : ple a b -> plt b c -> plt a c.
Proof.
  intros H H2. destruct H as [H|H]; [|subst; exact H2].
  unfold plt in *. destruct a, b, c; simpl in *. lia.
Qed.
Lemma ple_trans a b c : ple a b -> ple b c -> ple a c.
Proof.
  intros H H2. destruct H as [H|H]; [|subst; exact H2].
  destruct H2 as [H2|H2]; [|subst; now left].
  left. unfold plt in *. destruct a, b, c; simpl in *. lia.
Qed.

Lemma relax1_phi u cu v w st : ple (phi (relax1 g u cu v w st)) (phi st).
Proof.
  unfold relax1. destruct (is_key g v) eqn:Hk; [|now right].
  destruct (cost_of (r_cost st) v) as [cv|] eqn:Ec.
  - destruct (cu + w <? cv) eqn:Eb; [|now right]. left. right. unfold phi. cbn [fst snd r_cost r_queue].
    pose proof (nones_update (r_cost st) v (cu + w) keys keys_NoDup (key_in_keys v Hk)) as Hn.
    pose proof (total_update (r_cost st) v (cu + w) keys keys_NoDup (key_in_keys v Hk)) as Ht.
    unfold isnone in Hn. unfold val in Ht. rewrite Ec in Hn, Ht.
    split; [lia|]. destruct (mem_N v (r_queue st)); rewrite ?app_length; cbn [length]; lia.
  - left. left. unfold phi. cbn [fst r_cost].
    pose proof (nones_update (r_cost st) v (cu + w) keys keys_NoDup (key_in_keys v Hk)) as Hn.
    unfold isnone in Hn. rewrite Ec in Hn. lia.
Qed.

Lemma relax_edges_phi u cu : forall adj st, ple (phi (relax_edges g u cu adj st)) (phi st).
Proof.
  induction adj as [|[v w] r IH]; intro st; [now right|].
  rewrite relax_edges_cons. eapply ple_trans; [apply IH|apply relax1_phi].
Qed.

Lemma filter_remove_lt (u : node) l : In u l ->
  (length (filter (fun x => negb (N.eqb x u)) l) < length l)%nat.
Proof.
  induction l as [|y r IH]; intro Hin; [destruct Hin|]. cbn [filter length].
  destruct (N.eq_dec y u) as [->|Hne].
  - rewrite N.eqb_refl. cbn [negb]. cbv iota.
    apply Nat.lt_succ_r. apply filter_len_le.
  - destruct Hin as [E|Hin]; [congruence|]. specialize (IH Hin).
    destruct (N.eqb y u) eqn:E; [apply N.eqb_eq in E; congruence|]. cbn [negb length]. lia.
Qed.

Lemma pop_phi u st : In u (r_queue st) -> plt (phi (pop g u st)) (phi st).
Proof.
  intro Hin. unfold pop.
  pose proof (filter_remove_lt u (r_queue st) Hin) as Hlt.
  assert (H0 : plt (phi {| r_cost := r_cost st; r_prev := r_prev st;
                           r_queue := filter (fun x => negb (x =? u)) (r_queue st) |}) (phi st)).
  { right. unfold phi. cbn [fst snd r_cost r_queue]. split; [reflexivity|]. unfold node in *. lia. }
  destruct (aget u g) as [adj|]; [|exact H0].
  destruct (cost_of (r_cost st) u) as [cu|]; [|exact H0].
  eapply ple_plt_trans; [apply relax_edges_phi|exact H0].
Qed.

(* REBUILD TERMINATES: the relation "b is obtained from a by popping some queued node" is
   well-founded — there is no infinite execution, for any pop order, from any state *)
Theorem rebuild_terminates : well_founded (fun b a => relax g a b).
Proof.
  apply (wf_incl _ _ (fun b a => plt (phi b) (phi a))).
  - intros b a H. inversion H; subst. now apply pop_phi.
  - apply (wf_inverse_image _ _ plt phi). exact plt_wf.
Qed.
End Termination.

(* ---------- an executable instance and a concrete run (non-vacuity) ---------- *)
Lemma run_head_star g : forall fuel st st',
  run_head fuel g st = Some st' -> relax_star g st st' /\ r_queue st' = [].
Proof.
  induction fuel as [|f IH]; intros st st' H; simpl in H.
  - destruct (r_queue st) eqn:E; [inversion H; subst; split; [constructor|exact E]|discriminate].
  - destruct (r_queue st) as [|u q] eqn:E; [inversion H; subst; split; [constructor|exact E]|].
    destruct (IH _ _ H) as [Hs Hq]. split; [|exact Hq].
    eapply rs_step; [|exact Hs]. constructor. rewrite E. now left.
Qed.

(* square 1-2-3-4 with a chord: self = 1 *)
Definition ex_g : graph :=
  [(1, [(2, 1); (4, 5)]); (2, [(1, 1); (3, 1)]); (3, [(2, 1); (4, 1)]); (4, [(1, 5); (3, 1)]); (9, [(1, 1)])].

Example ex_route :
  exists st, run_head 20 ex_g (r_init ex_g 1) = Some st /\
             r_cost st = [(1, Some 0); (2, Some 1); (3, Some 2); (4, Some 3); (9, None)] /\
             table_of ex_g 1 st = [(2, 2); (3, 2); (4, 2)] /\
             route_check ex_g 1 (r_cost st) (table_of ex_g 1 st) = true.
Proof. eexists. vm_compute. repeat split; reflexivity. Qed.
