(* Proofs/Bridge.v — lemmas about Model/Bridge.v (property C03). *)
From Receptor Require Import Model.Bridge.
Open Scope N_scope.

(* ---------- the relay is its cut ---------- *)
Lemma bridge_half_cut : forall rs ws,
  bridge_half rs ws = map (fun r => CWrite (r_data r)) (fst (cut rs ws))
                      ++ (if snd (cut rs ws) then [CClose] else []).
Proof.
  induction rs as [|r rs IH]; intros ws; [reflexivity|]. cbn [bridge_half cut].
  destruct (isnil (r_data r)).
  - destruct (r_stops r); [reflexivity | apply IH].
  - destruct (r_stops r || negb (w_ok match ws with [] => WOk | w :: _ => w end)); [reflexivity|].
    rewrite IH. destruct (cut rs (tl ws)) as [p c]. reflexivity.
Qed.

Lemma writes_of_app : forall a b, writes_of (a ++ b) = writes_of a ++ writes_of b.
Proof. intros. unfold writes_of. apply flat_map_app. Qed.
Lemma closes_of_app : forall a b, closes_of (a ++ b) = (closes_of a + closes_of b)%nat.
Proof. intros. unfold closes_of. rewrite filter_app. apply app_length. Qed.
Lemma writes_of_map : forall p, writes_of (map (fun r => CWrite (r_data r)) p) = data_of p.
Proof. induction p as [|r p IH]; [reflexivity|]. cbn. unfold writes_of in IH. now rewrite IH. Qed.
Lemma closes_of_map : forall p, closes_of (map (fun r => CWrite (r_data r)) p) = 0%nat.
Proof. induction p as [|r p IH]; [reflexivity|]. exact IH. Qed.

(* bytes written to the far side = the data of the reads up to the first error or failed write,
   in order; then exactly one Close, and nothing after it; no Close while the relay is running *)
Theorem bridge_exact : forall rs ws,
  writes_of (bridge_half rs ws) = data_of (fst (cut rs ws)) /\
  closes_of (bridge_half rs ws) = (if snd (cut rs ws) then 1 else 0)%nat /\
  exists pre, bridge_half rs ws = pre ++ (if snd (cut rs ws) then [CClose] else []) /\ closes_of pre = 0%nat.
Proof.
  intros rs ws. rewrite bridge_half_cut. split; [|split].
  - rewrite writes_of_app, writes_of_map. destruct (snd (cut rs ws)); cbn; now rewrite app_nil_r.
  - rewrite closes_of_app, closes_of_map. now destruct (snd (cut rs ws)).
  - eexists. split; [reflexivity | apply closes_of_map].
Qed.

(* when every write succeeds the relay is the identity on the stream: it writes exactly the bytes
   read before (and with) the first error, whatever the chunking and wherever the error is *)
Lemma cut_clean : forall rs, data_of (fst (cut rs [])) = fst (stream_of rs) /\
                             snd (cut rs []) = match snd (stream_of rs) with ROk => false | _ => true end.
Proof.
  induction rs as [|r rs [IH1 IH2]]; [split; reflexivity|]. cbn [cut stream_of tl].
  destruct (r_data r) as [|b t] eqn:D; cbn [isnil].
  - unfold r_stops. destruct (r_stat r); cbn.
    + destruct (stream_of rs) as [d e]. cbn in *. split; assumption.
    + split; reflexivity.
    + split; reflexivity.
  - unfold r_stops. destruct (r_stat r); cbn.
    + destruct (cut rs []) as [p c]. destruct (stream_of rs) as [d e]. cbn in *. rewrite D. cbn.
      split; [now rewrite IH1 | assumption].
    + rewrite D. cbn. split; [now rewrite app_nil_r | reflexivity].
    + rewrite D. cbn. split; [now rewrite app_nil_r | reflexivity].
Qed.

Theorem relay_is_identity : forall rs,
  writes_of (bridge_half rs []) = fst (stream_of rs) /\
  closes_of (bridge_half rs []) = match snd (stream_of rs) with ROk => 0%nat | _ => 1%nat end.
Proof.
  intros rs. destruct (bridge_exact rs []) as (H1 & H2 & _). destruct (cut_clean rs) as [C1 C2].
  rewrite H1, H2, C1, C2. split; [reflexivity|]. now destruct (snd (stream_of rs)).
Qed.

(* with failing writes, what is written is a prefix of the stream (never more, never reordered) *)
Lemma cut_prefix : forall rs ws, exists rest, fst (stream_of rs) = data_of (fst (cut rs ws)) ++ rest.
Proof.
  induction rs as [|r rs IH]; intros ws; [exists []; reflexivity|]. cbn [cut stream_of].
  destruct (r_data r) as [|b t] eqn:D; cbn [isnil].
  - unfold r_stops. destruct (r_stat r); cbn.
    + destruct (IH ws) as [rest E]. destruct (stream_of rs) as [d e]. cbn in *. now exists rest.
    + now exists [].
    + now exists [].
  - unfold r_stops. destruct (r_stat r); cbn [orb].
    + destruct (negb (w_ok match ws with [] => WOk | w :: _ => w end)).
      * destruct (stream_of rs) as [d e]. cbn. rewrite D. exists d. cbn. now rewrite app_nil_r.
      * destruct (IH (tl ws)) as [rest E]. destruct (cut rs (tl ws)) as [p c]. destruct (stream_of rs) as [d e].
        cbn in *. rewrite D. exists rest. rewrite E. cbn. now rewrite app_assoc.
    + cbn. rewrite D. exists []. cbn. now rewrite !app_nil_r.
    + cbn. rewrite D. exists []. cbn. now rewrite !app_nil_r.
Qed.

Theorem bridge_prefix : forall rs ws, exists rest, fst (stream_of rs) = writes_of (bridge_half rs ws) ++ rest.
Proof. intros rs ws. destruct (bridge_exact rs ws) as (H & _). rewrite H. apply cut_prefix. Qed.

(* the calls of a relay are well formed: nothing after the Close *)
Fixpoint wf_calls (cs : list call) : bool :=
  match cs with [] => true | CClose :: r => isnil r | CWrite _ :: r => wf_calls r end.

Lemma wf_bridge_half : forall rs ws, wf_calls (bridge_half rs ws) = true.
Proof.
  induction rs as [|r rs IH]; intros ws; [reflexivity|]. cbn [bridge_half].
  destruct (isnil (r_data r)).
  - destruct (r_stops r); [reflexivity | apply IH].
  - cbn [wf_calls]. destruct (r_stops r || _); [reflexivity | apply IH].
Qed.

(* ---------- the marker ---------- *)
Theorem marker_transparent : forall rs d e,
  stream_of rs = (0 :: d, e) -> exists rest, accept_stream rs = Accepted rest /\ stream_of rest = (d, e).
Proof.
  induction rs as [|r rs IH]; intros d e H; [discriminate|]. cbn [stream_of accept_stream] in *.
  destruct (r_stat r) eqn:S.
  - destruct (stream_of rs) as [d' e'] eqn:R. destruct (r_data r) as [|b t] eqn:D.
    + cbn in H. unfold r_stops. rewrite S. apply IH. exact H.
    + cbn in H. inversion H; subst. cbn. eexists. split; [reflexivity|]. cbn [stream_of r_stat r_data]. now rewrite R.
  - inversion H as [[D E]]. rewrite D. cbn. eexists. split; [reflexivity|]. reflexivity.
  - inversion H as [[D E]]. rewrite D. cbn. eexists. split; [reflexivity|]. reflexivity.
Qed.

Theorem marker_refuses_other_first_byte : forall rs b d e,
  stream_of rs = (b :: d, e) -> (b =? 0) = false -> accept_stream rs = Refused.
Proof.
  induction rs as [|r rs IH]; intros b d e H Hb; [discriminate|]. cbn [stream_of accept_stream] in *.
  destruct (r_stat r) eqn:S.
  - destruct (stream_of rs) as [d' e'] eqn:R. destruct (r_data r) as [|b' t] eqn:D.
    + cbn in H. unfold r_stops. rewrite S. now apply (IH b d e).
    + cbn in H. inversion H; subst. now rewrite Hb.
  - inversion H as [[D E]]. rewrite D. now rewrite Hb.
  - inversion H as [[D E]]. rewrite D. now rewrite Hb.
Qed.

(* a stream that carries no byte at all (ended or not) is never accepted *)
Theorem marker_refuses_empty_stream : forall rs e, stream_of rs = ([], e) -> accept_stream rs = Refused.
Proof.
  induction rs as [|r rs IH]; intros e H; [reflexivity|]. cbn [stream_of accept_stream] in *.
  destruct (r_stat r) eqn:S.
  - destruct (stream_of rs) as [d' e'] eqn:R. destruct (r_data r) as [|b t] eqn:D.
    + cbn in H. unfold r_stops. rewrite S. now apply (IH e).
    + cbn in H. discriminate.
  - inversion H as [[D E]]. rewrite D. unfold r_stops. now rewrite S.
  - inversion H as [[D E]]. rewrite D. unfold r_stops. now rewrite S.
Qed.

Lemma writes_of_dial : forall app, writes_of (dial_calls app) = 0 :: writes_of app.
Proof. reflexivity. Qed.
Lemma closes_of_dial : forall app, closes_of (dial_calls app) = closes_of app.
Proof. reflexivity. Qed.
Lemma wf_dial : forall app, wf_calls (dial_calls app) = wf_calls app.
Proof. reflexivity. Qed.

(* ---------- end to end, given QUIC ---------- *)
Definition ended (e : rstat) : bool := match e with ROk => false | _ => true end.
Definition eof_if_closed (cs : list call) : rstat := if Nat.eqb (closes_of cs) 0 then ROk else REof.

(* THE hypothesis about quic-go (DESIGN section 8, C03): over a substrate that delivers datagrams
   intact or not at all, possibly duplicated, delayed and reordered, with loss bounded within the
   idle timeout - a fault schedule [sc] with [fair sc = true] - each direction of a stream
   delivers exactly the written bytes in order, followed by end-of-stream iff the writer closed *)
Definition quic_ok {sched : Type} (fair : sched -> bool) (quic : sched -> list call -> list rd) : Prop :=
  forall sc calls, fair sc = true -> wf_calls calls = true ->
    stream_of (quic sc calls) = (writes_of calls, eof_if_closed calls).

Section EndToEnd.
  Variable sched : Type.
  Variable fair : sched -> bool.
  Variable quic_stream : sched -> list call -> list rd.
  Hypothesis quic_stream_ok : quic_ok fair quic_stream.

  (* application to application, dialler -> acceptor: the acceptor's application reads exactly
     what the dialler's application wrote, then end-of-stream iff it closed; the marker is invisible *)
  Theorem stream_dialler_to_acceptor : forall sc app,
    fair sc = true -> wf_calls app = true ->
    exists rest, accept_stream (quic_stream sc (dial_calls app)) = Accepted rest /\
                 stream_of rest = (writes_of app, eof_if_closed app).
  Proof.
    intros sc app F W. apply marker_transparent.
    rewrite quic_stream_ok by (try assumption; now rewrite wf_dial). reflexivity.
  Qed.

  Theorem stream_acceptor_to_dialler : forall sc app,
    fair sc = true -> wf_calls app = true ->
    stream_of (quic_stream sc app) = (writes_of app, eof_if_closed app).
  Proof. intros. now apply quic_stream_ok. Qed.

  Lemma eof_if_closed_relay : forall rs,
    eof_if_closed (bridge_half rs []) = if ended (snd (stream_of rs)) then REof else ROk.
  Proof.
    intros rs. unfold eof_if_closed. destruct (relay_is_identity rs) as [_ H]. rewrite H.
    now destruct (snd (stream_of rs)).
  Qed.

  (* TCP client -> inbound proxy -> stream -> outbound proxy -> TCP server (and the control
     service's connect): [rs] are the reads from the client; the calls made on the server's
     connection carry exactly the client's bytes up to its end, then one Close iff it ended *)
  Theorem relay_stream_relay : forall sc rs,
    fair sc = true ->
    exists rest, accept_stream (quic_stream sc (dial_calls (bridge_half rs []))) = Accepted rest /\
      writes_of (bridge_half rest []) = fst (stream_of rs) /\
      closes_of (bridge_half rest []) = (if ended (snd (stream_of rs)) then 1 else 0)%nat.
  Proof.
    intros sc rs F.
    destruct (stream_dialler_to_acceptor sc (bridge_half rs []) F (wf_bridge_half rs [])) as [rest [A S]].
    exists rest. split; [assumption|].
    destruct (relay_is_identity rest) as [W C]. rewrite W, C, S. cbn [fst snd].
    destruct (relay_is_identity rs) as [W1 _]. rewrite W1. split; [reflexivity|].
    rewrite eof_if_closed_relay. now destruct (ended (snd (stream_of rs))).
  Qed.

  (* the other direction of the same connection: server -> outbound proxy -> stream -> inbound
     proxy -> client; no marker *)
  Theorem relay_stream_relay_back : forall sc rs,
    fair sc = true ->
    writes_of (bridge_half (quic_stream sc (bridge_half rs [])) []) = fst (stream_of rs) /\
    closes_of (bridge_half (quic_stream sc (bridge_half rs [])) []) = (if ended (snd (stream_of rs)) then 1 else 0)%nat.
  Proof.
    intros sc rs F.
    pose proof (stream_acceptor_to_dialler sc (bridge_half rs []) F (wf_bridge_half rs [])) as S.
    destruct (relay_is_identity (quic_stream sc (bridge_half rs []))) as [W C]. rewrite W, C, S. cbn [fst snd].
    destruct (relay_is_identity rs) as [W1 _]. rewrite W1. split; [reflexivity|].
    rewrite eof_if_closed_relay. now destruct (ended (snd (stream_of rs))).
  Qed.
End EndToEnd.

(* ---------- a connection ended abruptly by the writer ---------- *)
Lemma is_prefix_app : forall a b, is_prefix a b = true <-> exists rest, b = a ++ rest.
Proof.
  induction a as [|x a IH]; intros b; cbn [is_prefix].
  - split; [intros _; now exists b | reflexivity].
  - destruct b as [|y b]; [split; [discriminate | intros [rest H]; discriminate]|].
    rewrite andb_true_iff, N.eqb_eq, IH. split.
    + intros [-> [rest ->]]. now exists rest.
    + intros [rest H]. inversion H; subst. split; [reflexivity | now exists rest].
Qed.

(* what the oracle accepts is, for every way the connection ended, a prefix of the written bytes *)
Theorem abort_ok_prefix : forall written read, abort_ok written read = true ->
  exists rest, writes_of written = fst (stream_of read) ++ rest.
Proof.
  intros w r. unfold abort_ok. destruct (stream_of r) as [d e]. cbn [fst].
  destruct e; intros H; try (now apply is_prefix_app).
  apply andb_true_iff in H as [H _]. apply beq_bytes_eq in H. exists []. now rewrite app_nil_r.
Qed.

(* end-of-stream is never early: a reader that was told end-of-stream has every written byte,
   and the writer had closed *)
Theorem abort_ok_eof_complete : forall written read, abort_ok written read = true ->
  snd (stream_of read) = REof ->
  fst (stream_of read) = writes_of written /\ closes_of written <> 0%nat.
Proof.
  intros w r. unfold abort_ok. destruct (stream_of r) as [d e]. cbn [fst snd]. intros H ->.
  apply andb_true_iff in H as [H1 H2]. apply beq_bytes_eq in H1. split; [assumption|].
  destruct (closes_of w); [discriminate H2 | discriminate].
Qed.

(* the undisturbed outcome (that of quic_ok) is among the accepted ones, and an early
   end-of-stream is not *)
Theorem abort_ok_of_exact : forall written read,
  stream_of read = (writes_of written, eof_if_closed written) -> abort_ok written read = true.
Proof.
  intros w r H. unfold abort_ok. rewrite H. unfold eof_if_closed.
  destruct (Nat.eqb (closes_of w) 0) eqn:E.
  - apply is_prefix_app. exists []. now rewrite app_nil_r.
  - now rewrite beq_bytes_refl.
Qed.
Example abort_examples :
  abort_ok [CWrite [1; 2; 3]; CClose] [mkrd [1] ROk; mkrd [] RErr] = true /\
  abort_ok [CWrite [1; 2; 3]; CClose] [mkrd [] RErr] = true /\
  abort_ok [CWrite [1; 2; 3]; CClose] [mkrd [1; 2] ROk; mkrd [3] REof] = true /\
  abort_ok [CWrite [1; 2; 3]; CClose] [mkrd [1] ROk; mkrd [] REof] = false /\
  abort_ok [CWrite [1; 2; 3]; CClose] [mkrd [] REof] = false /\
  abort_ok [CWrite [1; 2; 3]] [mkrd [1; 2; 3] ROk; mkrd [] REof] = false /\
  abort_ok [CWrite [1; 2; 3]; CClose] [mkrd [1; 3] ROk; mkrd [] RErr] = false.
Proof. repeat split; reflexivity. Qed.

(* the hypothesis is satisfiable: a perfect stream that hands over everything in one read *)
Definition perfect_stream (_ : unit) (cs : list call) : list rd :=
  [mkrd (writes_of cs) (eof_if_closed cs)].
Lemma perfect_stream_ok : quic_ok (fun _ : unit => true) perfect_stream.
Proof.
  intros sc calls _ _. unfold perfect_stream. cbn [stream_of r_stat r_data].
  unfold eof_if_closed. destruct (Nat.eqb (closes_of calls) 0); cbn; now rewrite ?app_nil_r.
Qed.

(* non-vacuity of the relay theorems: chunks, an empty read, data arriving together with EOF, and
   a write that fails in the middle *)
Example bridge_examples :
  bridge_half [mkrd [1; 2] ROk; mkrd [] ROk; mkrd [3] ROk; mkrd [4; 5] REof; mkrd [6] ROk] []
  = [CWrite [1; 2]; CWrite [3]; CWrite [4; 5]; CClose] /\
  bridge_half [mkrd [1; 2] ROk; mkrd [3] ROk; mkrd [4] ROk] [WOk; WShort]
  = [CWrite [1; 2]; CWrite [3]; CClose] /\
  bridge_half [mkrd [1] ROk; mkrd [] RErr] [] = [CWrite [1]; CClose] /\
  bridge_half [mkrd [1] ROk] [] = [CWrite [1]].
Proof. repeat split; reflexivity. Qed.
