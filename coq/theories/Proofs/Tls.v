(* Proofs/Tls.v — property C09 over Model/Tls.v: the verifier accepts exactly when every stated
   condition holds; each single failure refuses; what the client and server configurations
   built by receptor demand of a handshake; the stream listener binds the client certificate
   to the claimed source node (repaired tree) and the two historical defects as refutations;
   and the C20 clause: a certificate issued for node IDs [ids] verifies exactly as those IDs. *)
From Coq Require Import String.
From Coq Require Import ZArith Lia ZifyN ZifyNat ZifyBool.
From Receptor Require Import Model.Tls Proofs.San.
Open Scope N_scope.

(* ---------- the pin loop ---------- *)
Definition legal_len (n : N) : bool := (n =? 28) || (n =? 32) || (n =? 48) || (n =? 64).

(* the pin equals the digest that has its length *)
Definition pin_matches (f : facts) (p : bytes) : bool :=
  ((blen p =? 28) && beq_bytes p (f_d224 f)) || ((blen p =? 32) && beq_bytes p (f_d256 f))
  || ((blen p =? 48) && beq_bytes p (f_d384 f)) || ((blen p =? 64) && beq_bytes p (f_d512 f)).

Definition has_len (tbl : list (N * bytes)) (p : bytes) : bool :=
  existsb (fun e => blen p =? fst e) tbl.
Definition tbl_match (tbl : list (N * bytes)) (p : bytes) : bool :=
  existsb (fun e => (blen p =? fst e) && beq_bytes p (snd e)) tbl.

Lemma pin_inner_spec tbl p : forall found ok,
  pin_inner tbl p found ok = (found || has_len tbl p, ok || tbl_match tbl p).
Proof.
  induction tbl as [|[n s] tbl IH]; intros found ok; cbn [pin_inner has_len tbl_match existsb fst snd].
  - now rewrite !orb_false_r.
  - destruct (blen p =? n) eqn:E; cbn [andb orb].
    + destruct (beq_bytes p s) eqn:B.
      * now rewrite !orb_true_r.
      * rewrite IH. cbn [orb]. now rewrite orb_true_r.
    + apply IH.
Qed.

Lemma pin_loop_spec tbl pins : forall ok,
  pin_loop tbl pins ok =
  if forallb (has_len tbl) pins then Some (ok || existsb (tbl_match tbl) pins) else None.
Proof.
  induction pins as [|p r IH]; intro ok; cbn [pin_loop forallb existsb].
  - now rewrite orb_false_r.
  - rewrite pin_inner_spec. cbn [orb].
    destruct (has_len tbl p); cbn [negb andb]; [|reflexivity].
    rewrite IH. destruct (forallb (has_len tbl) r); [|reflexivity].
    now rewrite orb_assoc.
Qed.

Lemma has_len_table f p : has_len (sum_table f) p = legal_len (blen p).
Proof. unfold has_len, sum_table, legal_len. cbn [existsb fst]. now rewrite orb_false_r, !orb_assoc. Qed.

Lemma tbl_match_table f p : tbl_match (sum_table f) p = pin_matches f p.
Proof. unfold tbl_match, sum_table, pin_matches. cbn [existsb fst snd]. now rewrite orb_false_r, !orb_assoc. Qed.

Lemma forallb_ext' {A} (g h : A -> bool) l : (forall x, g x = h x) -> forallb g l = forallb h l.
Proof. intro H. induction l as [|x l IH]; cbn; [reflexivity|]. now rewrite H, IH. Qed.
Lemma existsb_ext' {A} (g h : A -> bool) l : (forall x, g x = h x) -> existsb g l = existsb h l.
Proof. intro H. induction l as [|x l IH]; cbn; [reflexivity|]. now rewrite H, IH. Qed.

(* the pin condition of the property *)
Definition pins_ok (pins : list bytes) (f : facts) : Prop :=
  pins = [] \/
  ((forall p, In p pins -> legal_len (blen p) = true) /\
   exists p, In p pins /\ pin_matches f p = true).

Lemma pins_step_accept pins f : pins_step pins f = Accept <-> pins_ok pins f.
Proof.
  unfold pins_step, pins_ok. destruct pins as [|p0 r]; [tauto|].
  rewrite pin_loop_spec. cbn [orb].
  rewrite (forallb_ext' _ _ _ (has_len_table f)), (existsb_ext' _ _ _ (tbl_match_table f)).
  destruct (forallb (fun p => legal_len (blen p)) (p0 :: r)) eqn:A.
  - rewrite forallb_forall in A.
    destruct (existsb (pin_matches f) (p0 :: r)) eqn:B.
    + apply existsb_exists in B. split; [intros _; right; split; assumption|reflexivity].
    + split; [discriminate|]. intros [H|[_ [p [Hi Hm]]]]; [discriminate|].
      assert (existsb (pin_matches f) (p0 :: r) = true) by (apply existsb_exists; eauto). congruence.
  - split; [discriminate|]. intros [H|[Hall _]]; [discriminate|].
    assert (forallb (fun p => legal_len (blen p)) (p0 :: r) = true) by (now apply forallb_forall).
    congruence.
Qed.

Lemma pins_step_cases pins f :
  pins_step pins f = Accept \/ pins_step pins f = Refuse R_PINLEN \/ pins_step pins f = Refuse R_PINMISS.
Proof.
  unfold pins_step. destruct pins; [tauto|].
  destruct (pin_loop _ _ _) as [[|]|]; tauto.
Qed.

(* which refusal: an illegal length anywhere in the list wins over a mismatch, and is raised even
   when an earlier (or later) pin matches *)
Lemma pins_step_pinlen pins f :
  pins_step pins f = Refuse R_PINLEN <-> exists p, In p pins /\ legal_len (blen p) = false.
Proof.
  unfold pins_step. destruct pins as [|p0 r].
  - split; [discriminate|]. intros [p [[] _]].
  - rewrite pin_loop_spec. rewrite (forallb_ext' _ _ _ (has_len_table f)).
    destruct (forallb (fun p => legal_len (blen p)) (p0 :: r)) eqn:A.
    + rewrite forallb_forall in A. split.
      * destruct (false || _); discriminate.
      * intros [p [Hi Hl]]. rewrite (A _ Hi) in Hl. discriminate.
    + split; [intros _|reflexivity].
      destruct (forallb_forall (fun p => legal_len (blen p)) (p0 :: r)) as [_ Hb].
      destruct (existsb (fun p => negb (legal_len (blen p))) (p0 :: r)) eqn:E.
      * apply existsb_exists in E as [p [Hi Hn]]. exists p. split; [assumption|].
        now destruct (legal_len (blen p)).
      * exfalso. assert (forallb (fun p => legal_len (blen p)) (p0 :: r) = true); [|congruence].
        apply Hb. intros p Hi. destruct (legal_len (blen p)) eqn:L; [reflexivity|].
        assert (existsb (fun p => negb (legal_len (blen p))) (p0 :: r) = true); [|congruence].
        apply existsb_exists. exists p. now rewrite L.
Qed.

(* ---------- ReceptorVerifyFunc ---------- *)
Definition x509_ok (c : config) (r : role) (f : facts) (now : N) : Prop :=
  chain_ok r f = true /\ time_ok f now = true /\ eku_ok r f = true /\
  (c_htype c = HOST_DNS -> c_expected c <> [] -> f_dns f (c_expected c) = true).

Definition name_ok (c : config) (f : facts) : Prop :=
  c_htype c = HOST_RECEPTOR -> exists names, f_names f = Ok names /\ In (c_expected c) names.

Lemma existsb_beq_in x l : existsb (beq_bytes x) l = true <-> In x l.
Proof.
  rewrite existsb_exists. split.
  - intros [y [Hi He]]. apply beq_bytes_eq in He. now subst.
  - intro Hi. exists x. split; [assumption|apply beq_bytes_refl].
Qed.

Lemma isnil_false_iff (b : bytes) : isnil b = false <-> b <> [].
Proof. destruct b; cbn; split; congruence. Qed.

Lemma x509_verify_iff c r f now :
  x509_verify r (dns_name_of c) f now = true <-> x509_ok c r f now.
Proof.
  unfold x509_verify, x509_ok, dns_ok, dns_name_of. rewrite !andb_true_iff.
  destruct (c_htype c =? HOST_DNS) eqn:H; cbn [andb].
  - apply N.eqb_eq in H. destruct (c_expected c) as [|b e] eqn:E; cbn [isnil negb].
    + intuition congruence.
    + assert (b :: e <> []) by discriminate. intuition.
  - apply N.eqb_neq in H. cbn [isnil]. intuition congruence.
Qed.

Lemma names_step_iff c f : names_step c f = Accept <-> name_ok c f.
Proof.
  unfold names_step, name_ok. destruct (c_htype c =? HOST_RECEPTOR) eqn:H.
  - apply N.eqb_eq in H. destruct (f_names f) as [names| |].
    + destruct (existsb (beq_bytes (c_expected c)) names) eqn:E.
      * apply existsb_beq_in in E. split; [intros _ _; eauto|reflexivity].
      * split; [discriminate|]. intro Hn. destruct (Hn H) as [ns [Heq Hi]]. inversion Heq; subst.
        apply existsb_beq_in in Hi. congruence.
    + split; [discriminate|]. intro Hn. destruct (Hn H) as [ns [Heq _]]. discriminate.
    + split; [discriminate|]. intro Hn. destruct (Hn H) as [ns [Heq _]]. discriminate.
  - apply N.eqb_neq in H. split; [intros _ ?; contradiction|reflexivity].
Qed.

Theorem verify_ok_iff_proof c f now :
  verify c f now = Accept <->
  f_present f = true /\ f_parses f = true /\ pins_ok (c_pins c) f /\
  (exists r, role_of (c_vtype c) = Some r /\ x509_ok c r f now) /\ name_ok c f.
Proof.
  unfold verify.
  destruct (f_present f); cbn [negb]; [|split; [discriminate|intros [? _]; discriminate]].
  destruct (f_parses f); cbn [negb]; [|split; [discriminate|intros (_ & ? & _); discriminate]].
  destruct (role_of (c_vtype c)) as [r|];
    [|split; [discriminate|intros (_ & _ & _ & [r [? _]] & _); discriminate]].
  pose proof (pins_step_accept (c_pins c) f) as HP.
  destruct (pins_step (c_pins c) f) as [|w].
  - pose proof (x509_verify_iff c r f now) as HX.
    destruct (x509_verify r (dns_name_of c) f now); cbn [negb].
    + rewrite names_step_iff. split.
      * intro Hn. repeat split; try tauto. exists r. tauto.
      * tauto.
    + split; [discriminate|]. intros (_ & _ & _ & [r' [Hr Hx]] & _).
      inversion Hr; subst r'. apply HX in Hx. discriminate.
  - split; [discriminate|]. intros (_ & _ & Hp & _). apply HP in Hp. discriminate.
Qed.

Corollary verify_refuses_or_accepts c f now : verify c f now = Accept \/ exists w, verify c f now = Refuse w.
Proof. destruct (verify c f now); eauto. Qed.

(* each condition's failure, alone, refuses *)
Theorem single_failure_refuses_proof c f now :
  (f_present f = false -> verify c f now <> Accept) /\
  (f_parses f = false -> verify c f now <> Accept) /\
  (role_of (c_vtype c) = None -> verify c f now <> Accept) /\
  ((exists p, In p (c_pins c) /\ legal_len (blen p) = false) -> verify c f now <> Accept) /\
  (c_pins c <> [] -> (forall p, In p (c_pins c) -> pin_matches f p = false) -> verify c f now <> Accept) /\
  (forall r, role_of (c_vtype c) = Some r -> chain_ok r f = false -> verify c f now <> Accept) /\
  (time_ok f now = false -> verify c f now <> Accept) /\
  (forall r, role_of (c_vtype c) = Some r -> eku_ok r f = false -> verify c f now <> Accept) /\
  (c_htype c = HOST_DNS -> c_expected c <> [] -> f_dns f (c_expected c) = false -> verify c f now <> Accept) /\
  (c_htype c = HOST_RECEPTOR -> (forall names, f_names f = Ok names -> ~ In (c_expected c) names) ->
   verify c f now <> Accept).
Proof.
  repeat split; intros;
    (intro Hv; apply verify_ok_iff_proof in Hv;
     destruct Hv as (Hp & Hq & Hpins & [r0 [Hr (Hc & Ht & He & Hd)]] & Hn)).
  - congruence.
  - congruence.
  - congruence.
  - destruct H as [p [Hi Hl]]. destruct Hpins as [E|[Hall _]].
    + rewrite E in Hi. destruct Hi.
    + rewrite (Hall _ Hi) in Hl. discriminate.
  - destruct Hpins as [E|[_ [p [Hi Hm]]]]; [contradiction|]. rewrite (H0 _ Hi) in Hm. discriminate.
  - rewrite H in Hr. inversion Hr; subst. congruence.
  - congruence.
  - rewrite H in Hr. inversion Hr; subst. congruence.
  - rewrite (Hd H H0) in H1. discriminate.
  - destruct (Hn H) as [names [Hok Hi]]. exact (H0 _ Hok Hi).
Qed.

(* the refusal class follows the order of the Go function *)
Lemma verify_class_nocert c f now : f_present f = false -> verify c f now = Refuse R_NOCERT.
Proof. intro H. unfold verify. now rewrite H. Qed.

Lemma verify_class_pinlen c f r now :
  f_present f = true -> f_parses f = true -> role_of (c_vtype c) = Some r ->
  (exists p, In p (c_pins c) /\ legal_len (blen p) = false) -> verify c f now = Refuse R_PINLEN.
Proof.
  intros Hp Hq Hr He. unfold verify. rewrite Hp, Hq, Hr. cbn [negb].
  apply (pins_step_pinlen _ f) in He. now rewrite He.
Qed.

(* ---------- the time of the call ---------- *)
(* outside the validity window the verifier refuses whatever else holds ... *)
Theorem verify_outside_window_refuses c f now :
  now < f_not_before f \/ f_not_after f < now -> verify c f now <> Accept.
Proof.
  intros H Hv. apply verify_ok_iff_proof in Hv.
  destruct Hv as (_ & _ & _ & [r [_ (_ & Ht & _)]] & _).
  unfold time_ok in Ht. lia.
Qed.

(* ... and the verdict depends on the time of the call only through "inside the window or not":
   nothing else about the moment the verifier (or the TLS config) was built or called matters *)
Theorem verify_time_only_through_window c f now1 now2 :
  time_ok f now1 = time_ok f now2 -> verify c f now1 = verify c f now2.
Proof. intro H. unfold verify, x509_verify. now rewrite H. Qed.

(* the same verifier, the same certificate, two calls: accepted inside the window, refused once the
   window has passed (expiry), and refused before it opens, accepted after (not yet valid) *)
Theorem verify_follows_the_clock c f t1 t2 :
  verify c f t1 = Accept -> f_not_after f < t2 -> verify c f t2 = Refuse R_X509.
Proof.
  intros Hv Ht. pose proof Hv as Hi. apply verify_ok_iff_proof in Hi.
  destruct Hi as (Hp & Hq & Hpins & [r [Hr (Hc & Hw & He & Hd)]] & _).
  unfold verify in *. rewrite Hp, Hq, Hr in *. cbn [negb] in *.
  apply pins_step_accept in Hpins. rewrite Hpins.
  unfold x509_verify, time_ok. destruct (t2 <=? f_not_after f) eqn:E; [lia|].
  repeat (rewrite andb_false_r || rewrite andb_false_l). reflexivity.
Qed.

(* ---------- non-vacuity: a good certificate, and each condition broken alone ---------- *)
Definition ex_d224 : bytes := repeat 1 28.
Definition ex_d256 : bytes := repeat 2 32.
Definition ex_d384 : bytes := repeat 3 48.
Definition ex_d512 : bytes := repeat 4 64.
Definition ex_facts : facts :=
  mkFacts true true ex_d224 ex_d256 ex_d384 ex_d512 true true 50 200 true true
          (dns_in [str "host.example"%string]) (Ok [str "node-a"%string; str "node-b"%string]).
Definition ex_now : N := 100.
Definition ex_cfg : config := mkCfg VERIFY_SERVER HOST_RECEPTOR (str "node-b"%string) [repeat 9 32; ex_d512].

Example verify_nonvacuous :
  verify ex_cfg ex_facts ex_now = Accept
  /\ verify (mkCfg VERIFY_CLIENT HOST_DNS (str "host.example"%string) [ex_d224]) ex_facts ex_now = Accept
  /\ verify (mkCfg VERIFY_SERVER HOST_RECEPTOR (str "node-c"%string) []) ex_facts ex_now = Refuse R_NAME
  /\ verify (mkCfg VERIFY_SERVER HOST_DNS (str "other.example"%string) []) ex_facts ex_now = Refuse R_X509
  /\ verify (mkCfg 0 HOST_RECEPTOR (str "node-a"%string) []) ex_facts ex_now = Refuse R_VTYPE
  /\ verify (mkCfg VERIFY_SERVER HOST_RECEPTOR (str "node-a"%string) [repeat 9 32]) ex_facts ex_now = Refuse R_PINMISS
  /\ verify (mkCfg VERIFY_SERVER HOST_RECEPTOR (str "node-a"%string) [ex_d256; repeat 9 31]) ex_facts ex_now = Refuse R_PINLEN
  /\ verify (mkCfg VERIFY_SERVER HOST_RECEPTOR (str "node-a"%string) [repeat 9 31; ex_d256]) ex_facts ex_now = Refuse R_PINLEN.
Proof. vm_compute. repeat split; reflexivity. Qed.

(* ---------- the pin is about the peer's own certificate ---------- *)
(* with no other certificate presented the two verifiers are the same function ... *)
Theorem verify_any_alone_proof c f now : verify_any c f [] now = verify c f now.
Proof.
  unfold verify_any, verify, pins_step_any.
  destruct (negb (f_present f)); [reflexivity|]. destruct (negb (f_parses f)); [reflexivity|].
  destruct (role_of (c_vtype c)); [|reflexivity].
  destruct (pins_step (c_pins c) f) as [|w]; [reflexivity|].
  cbn [existsb]. now rewrite andb_false_r.
Qed.

(* ... but a peer whose own certificate matches no pin is accepted as soon as it appends a pinned
   certificate to its certificate message *)
Definition stranger_facts : facts :=
  mkFacts true true (repeat 5 28) (repeat 6 32) (repeat 7 48) (repeat 8 64) true true 50 200 true true
          (dns_in []) (Ok [str "somebody-else"%string]).

Theorem pin_any_certificate_refuted_proof :
  let c := mkCfg VERIFY_SERVER HOST_RECEPTOR (str "node-a"%string) [repeat 6 32] in
  verify c ex_facts ex_now = Refuse R_PINMISS /\
  ~ pins_ok (c_pins c) ex_facts /\
  verify_any c ex_facts [stranger_facts] ex_now = Accept.
Proof.
  cbv zeta. split; [vm_compute; reflexivity|]. split; [|vm_compute; reflexivity].
  rewrite <- pins_step_accept. vm_compute. discriminate.
Qed.

(* ---------- the configuration layer: fingerprints ---------- *)
Lemma decode_fingerprint_len s b : decode_fingerprint s = Some b -> legal_len (blen b) = true.
Proof.
  unfold decode_fingerprint, legal_len. destruct (hex_decode (strip_colons s)) as [x|]; [|discriminate].
  destruct ((blen x =? 32) || (blen x =? 64)) eqn:E; [|discriminate].
  intro H. inversion H; subst. apply orb_true_iff in E as [E|E]; rewrite E; cbn; now rewrite ?orb_true_r.
Qed.

(* every pin a configuration entry can produce has a legal length ... *)
Theorem configured_pins_legal_proof l pins :
  decode_fingerprints l = Some pins -> forall p, In p pins -> legal_len (blen p) = true.
Proof.
  revert pins. induction l as [|s r IH]; intros pins H p Hi; cbn [decode_fingerprints] in H.
  - inversion H; subst. destruct Hi.
  - destruct (decode_fingerprint s) as [b|] eqn:E; [|discriminate].
    destruct (decode_fingerprints r) as [t|]; [|discriminate].
    inversion H; subst. destruct Hi as [<-|Hi]; [now apply (decode_fingerprint_len s)|now apply (IH t)].
Qed.

Lemma verify_pinlen_from_pins c f now :
  verify c f now = Refuse R_PINLEN -> pins_step (c_pins c) f = Refuse R_PINLEN.
Proof.
  unfold verify. destruct (f_present f); cbn [negb]; [|discriminate].
  destruct (f_parses f); cbn [negb]; [|discriminate].
  destruct (role_of (c_vtype c)); [|discriminate].
  destruct (pins_step_cases (c_pins c) f) as [H|[H|H]]; rewrite H; try congruence.
  destruct (x509_verify _ _ _ _); cbn [negb]; [|discriminate].
  unfold names_step. destruct (c_htype c =? HOST_RECEPTOR); [|discriminate].
  destruct (f_names f) as [ns| |]; try discriminate. destruct (existsb _ ns); discriminate.
Qed.

(* ... so with pins that came through the configuration the verifier never stops at the length
   error: a configured pin list is either matched or not *)
Theorem configured_pins_never_length_error_proof l c f now :
  decode_fingerprints l = Some (c_pins c) -> verify c f now <> Refuse R_PINLEN.
Proof.
  intros Hd Hv. apply verify_pinlen_from_pins in Hv. apply pins_step_pinlen in Hv as [p [Hi Hl]].
  rewrite (configured_pins_legal_proof _ _ Hd _ Hi) in Hl. discriminate.
Qed.

(* spelling: case of the hex digits and ':' separators do not matter; anything else is refused *)
Example decode_fingerprint_spellings :
  decode_fingerprint (str "AB:cd:Ef:01:23:45:67:89:ab:cd:ef:01:23:45:67:89:ab:cd:ef:01:23:45:67:89:ab:cd:ef:01:23:45:67:89"%string)
  = decode_fingerprint (str "abcdef0123456789abcdef0123456789abcdef0123456789abcdef0123456789"%string)
  /\ decode_fingerprint (str "abcdef0123456789abcdef0123456789abcdef0123456789abcdef0123456789"%string) <> None
  /\ decode_fingerprint (str "abcd"%string) = None
  /\ decode_fingerprint (str "zz"%string) = None
  /\ decode_fingerprint (str "abc"%string) = None.
Proof. vm_compute. repeat split; try reflexivity; discriminate. Qed.

(* ---------- GetClientTLSConfig ---------- *)
Theorem client_config_shape p expected htype :
  (p_skip p = true ->
     client_config (Found p) expected htype = Ok (Some (mkClient None true (p_server_name p)))) /\
  (p_skip p = false -> htype = HOST_RECEPTOR ->
     client_config (Found p) expected htype =
     Ok (Some (mkClient (Some (mkCfg VERIFY_SERVER HOST_RECEPTOR expected (p_pins p))) true (p_server_name p)))) /\
  (p_skip p = false -> htype = HOST_DNS ->
     client_config (Found p) expected htype =
     Ok (Some (mkClient (Some (mkCfg VERIFY_SERVER HOST_DNS expected (p_pins p))) false expected))).
Proof.
  unfold client_config. repeat split; intros.
  - now rewrite H.
  - rewrite H. subst. reflexivity.
  - rewrite H. subst. reflexivity.
Qed.

(* a client built by GetClientTLSConfig from a verifying profile completes a handshake only with
   a server certificate the verifier accepts *)
Theorem client_handshake_sound p expected htype tc f now :
  p_skip p = false ->
  client_config (Found p) expected htype = Ok (Some tc) ->
  client_handshake tc f now = true ->
  verify (mkCfg VERIFY_SERVER htype expected (p_pins p)) f now = Accept.
Proof.
  intros Hs Hc Hh. unfold client_config in Hc. rewrite Hs in Hc.
  assert (Hv : tc_verifier tc = Some (mkCfg VERIFY_SERVER htype expected (p_pins p))).
  { destruct (htype =? HOST_DNS); [|destruct (htype =? HOST_RECEPTOR)]; inversion Hc; reflexivity. }
  unfold client_handshake in Hh. apply andb_true_iff in Hh as [_ Hh].
  rewrite Hv in Hh. cbn [verifier_ok] in Hh.
  destruct (verify _ f now); [reflexivity|discriminate].
Qed.

(* in receptor-name mode nothing but the verifier decides; in DNS mode crypto/tls' own check
   (same pool, same usage, same host name) is conjoined: it never admits more *)
Theorem client_handshake_receptor_iff p expected tc f now :
  p_skip p = false ->
  client_config (Found p) expected HOST_RECEPTOR = Ok (Some tc) ->
  client_handshake tc f now = true <->
  verify (mkCfg VERIFY_SERVER HOST_RECEPTOR expected (p_pins p)) f now = Accept.
Proof.
  intros Hs Hc. unfold client_config in Hc. rewrite Hs in Hc. cbn in Hc. inversion Hc; subst tc; clear Hc.
  unfold client_handshake. cbn [tc_skip_default tc_verifier verifier_ok andb].
  destruct (verify _ f now); cbn [accepts]; split; congruence.
Qed.

(* ---------- PrepareTLSServerConfig ---------- *)
Theorem server_handshake_sound sp f now :
  (sp_require sp = true \/ sp_cas sp = true) ->
  server_handshake (server_config sp) f now = true ->
  verify (mkCfg VERIFY_CLIENT HOST_DNS [] (sp_pins sp)) f now = Accept.
Proof.
  intros Hm Hh. unfold server_config, server_handshake in Hh.
  destruct (sp_require sp) eqn:R; [|destruct (sp_cas sp) eqn:C; [|destruct Hm; discriminate]];
    cbn [ts_auth ts_verifiers forallb] in Hh;
    apply andb_true_iff in Hh as [_ Hh]; rewrite andb_true_r in Hh;
    destruct (verify _ f now); try reflexivity; discriminate.
Qed.

(* ---------- the stream listener ---------- *)
Definition no_colon (b : bytes) : bool := forallb (fun x => negb (x =? COLON)) b.

Lemma before_colon_app n s : no_colon n = true -> before_colon (n ++ COLON :: s) = n.
Proof.
  induction n as [|b n IH]; intro H; cbn [app before_colon].
  - now rewrite N.eqb_refl.
  - cbn [no_colon forallb] in H. apply andb_true_iff in H as [H1 H2].
    destruct (b =? COLON); [discriminate|]. f_equal. now apply IH.
Qed.

(* repaired tree: the name demanded is the claimed source node, whatever bytes it contains *)
Theorem listener_name_is_source a : listener_name a = a_node a.
Proof. reflexivity. Qed.

(* pinned tree: true for node IDs without ':' ... *)
Theorem listener_split_partial_proof a :
  no_colon (a_node a) = true -> listener_name_split a = a_node a.
Proof. intro H. unfold listener_name_split, addr_string. now apply before_colon_app. Qed.

(* ... and false otherwise: node "a:b" is checked against the name "a" *)
Theorem listener_split_refuted_proof :
  exists a, listener_name_split a <> a_node a /\
            listener_name_split a = str "a"%string /\ a_node a = str "a:b"%string.
Proof.
  exists (mkAddr (str "a:b"%string) (str "svc"%string)). vm_compute. repeat split; try reflexivity. discriminate.
Qed.

Lemma forallb_app_true {A} (g : A -> bool) l1 l2 :
  forallb g (l1 ++ l2) = true -> forallb g l1 = true /\ forallb g l2 = true.
Proof. rewrite forallb_app, andb_true_iff. tauto. Qed.

(* a listener that requires client certificates accepts a stream only if the client certificate
   passes the configured verification (pins included) AND names the claimed source node *)
Theorem listener_binds_claimed_source_proof sp remote f now :
  sp_require sp = true ->
  server_handshake (listener_config (server_config sp) remote) f now = true ->
  verify (mkCfg VERIFY_CLIENT HOST_DNS [] (sp_pins sp)) f now = Accept /\
  verify (name_verifier (a_node remote)) f now = Accept /\
  exists names, f_names f = Ok names /\ In (a_node remote) names.
Proof.
  intros R Hh. unfold server_config in Hh. rewrite R in Hh.
  unfold listener_config, server_handshake in Hh. cbn [ts_auth ts_verifiers app forallb] in Hh.
  apply andb_true_iff in Hh as [_ Hh]. apply andb_true_iff in Hh as [H1 H2].
  rewrite andb_true_r in H2. unfold listener_name in H2.
  assert (V1 : verify (mkCfg VERIFY_CLIENT HOST_DNS [] (sp_pins sp)) f now = Accept)
    by (destruct (verify _ f now); [reflexivity|discriminate]).
  assert (V2 : verify (name_verifier (a_node remote)) f now = Accept)
    by (destruct (verify (name_verifier _) f now); [reflexivity|discriminate]).
  repeat split; try assumption.
  apply verify_ok_iff_proof in V2. destruct V2 as (_ & _ & _ & _ & Hn). now apply Hn.
Qed.

(* hence no node can use another node's identity: if the certificate names only [other], a dial
   claiming to come from [node] is refused *)
Corollary listener_refuses_foreign_identity sp node service f names now :
  sp_require sp = true -> f_names f = Ok names -> ~ In node names ->
  server_handshake (listener_config (server_config sp) (mkAddr node service)) f now = false.
Proof.
  intros R Hn Hni. destruct (server_handshake _ f now) eqn:E; [|reflexivity].
  destruct (listener_binds_claimed_source_proof sp _ f now R E) as (_ & _ & ns & Hok & Hi).
  cbn [a_node] in Hi. rewrite Hn in Hok. inversion Hok; subst. contradiction.
Qed.

(* the pinned tree violates it: node "a:b" is accepted with a certificate that names only "a" *)
Definition ex_client_facts (names : list bytes) : facts :=
  mkFacts true true ex_d224 ex_d256 ex_d384 ex_d512 false true 50 200 false true (dns_in []) (Ok names).

Theorem listener_binds_claimed_source_refuted_proof :
  exists sp remote f names now,
    sp_require sp = true /\ f_names f = Ok names /\ ~ In (a_node remote) names /\
    server_handshake (listener_config_pinned (server_config sp) remote) f now = true.
Proof.
  exists (mkSProfile true true []), (mkAddr (str "a:b"%string) (str "svc"%string)),
         (ex_client_facts [str "a"%string]), [str "a"%string], ex_now.
  repeat split; try reflexivity.
  intros [H|[]]. vm_compute in H. discriminate.
Qed.

(* and it drops the pinned client certificates of the profile *)
Theorem listener_pins_refuted_proof :
  exists sp remote f now,
    sp_require sp = true /\ sp_pins sp <> [] /\ ~ pins_ok (sp_pins sp) f /\
    server_handshake (listener_config_pinned (server_config sp) remote) f now = true.
Proof.
  exists (mkSProfile true true [repeat 9 32]), (mkAddr (str "cli"%string) (str "svc"%string)),
         (ex_client_facts [str "cli"%string]), ex_now.
  repeat split; try reflexivity; try discriminate.
  intros [H|[_ [p [[Hp|[]] Hm]]]]; [discriminate|]. subst p. vm_compute in Hm. discriminate.
Qed.

Theorem listener_keeps_pins_proof sp remote f now :
  sp_require sp = true ->
  server_handshake (listener_config (server_config sp) remote) f now = true ->
  pins_ok (sp_pins sp) f.
Proof.
  intros R Hh. destruct (listener_binds_claimed_source_proof sp remote f now R Hh) as (V & _).
  apply verify_ok_iff_proof in V. tauto.
Qed.

(* non-vacuity of the listener theorem: the proper certificate of node "a:b" is accepted *)
Example listener_accepts_own_identity :
  server_handshake (listener_config (server_config (mkSProfile true true [ex_d256]))
                                    (mkAddr (str "a:b"%string) (str "svc"%string)))
                   (ex_client_facts [str "a:b"%string]) ex_now = true
  /\ server_handshake (listener_config_pinned (server_config (mkSProfile true true [ex_d256]))
                                    (mkAddr (str "a:b"%string) (str "svc"%string)))
                   (ex_client_facts [str "a:b"%string]) ex_now = false.
Proof. vm_compute. split; reflexivity. Qed.

(* ---------- C20: issued certificates verify as exactly the requested node IDs ---------- *)
Theorem verify_accepts_exactly_requested dns ips ids v vt r pins x f now :
  san_ok dns ips ids = true -> forallb utf8_valid ids = true ->
  make_san dns ips ids = Ok v ->
  f_names f = names_of_san (Some v) ->
  f_present f = true -> f_parses f = true -> role_of vt = Some r ->
  chain_ok r f = true -> time_ok f now = true -> eku_ok r f = true -> pins_ok pins f ->
  (verify (mkCfg vt HOST_RECEPTOR x pins) f now = Accept <-> In x ids).
Proof.
  intros Hok Hu Hm Hn Hp Hq Hr Hc Ht He Hpins.
  cbn [names_of_san] in Hn. rewrite (san_roundtrip _ _ _ _ Hok Hu Hm) in Hn.
  rewrite verify_ok_iff_proof. cbn [c_pins c_vtype c_htype c_expected].
  unfold x509_ok, name_ok. cbn [c_htype c_expected]. split.
  - intros (_ & _ & _ & _ & Hname). destruct (Hname eq_refl) as [names [Heq Hi]].
    rewrite Hn in Heq. inversion Heq; subst. assumption.
  - intro Hi. repeat split; try assumption.
    + exists r. repeat split; try assumption. intro Hd. vm_compute in Hd. discriminate.
    + intros _. exists ids. split; assumption.
Qed.
