(* Proofs/CrashMirror.v — see Model/CrashMirror.v *)
From Coq Require Import List NArith Bool Lia.
From Receptor Require Import Base.Hex Model.Status Model.Crash Model.CrashMirror Proofs.Status.
Import ListNotations.
Open Scope N_scope.

(* A started remote unit with an intact record — in ANY state, the complete ones included, and
   whatever its output file holds — is monitored again by the restarted daemon, its record is
   answered unchanged, and with the executing node holding the whole output the output mirror
   brings the stored bytes up to the recorded size: `work results` ends with all of it. *)
Theorem output_behind_record_recovered_thm : forall types x s,
  uf_dir x = true -> uf_status x = Some (encode s) ->
  kind_of types (s_wtype s) = KRemote -> started s = true ->
  let v := snd (recover types x) in
  v_listed v = true /\ v_status v = s /\ v_monitored v = true /\
  forall stored remote_len, s_size s <= remote_len ->
    results_end v (stored_in_the_end v stored remote_len) = true.
Proof.
  intros types x s Hd Hs Hk Hst. rewrite (recover_intact types x s Hd Hs), Hk, Hst.
  cbn [snd v_listed v_status v_monitored]. repeat split.
  intros stored rl Hle. unfold results_end, stored_in_the_end. cbn [v_monitored v_status].
  apply N.leb_le. lia.
Qed.

(* the command unit's rule on a remote unit: a complete record with fewer bytes stored than
   recorded stays so for ever, `work results` never ends *)
Theorem skip_complete_refuted_thm : forall types x s stored remote_len,
  uf_dir x = true -> uf_status x = Some (encode s) -> st_complete (s_state s) = true ->
  kind_of types (s_wtype s) = KRemote -> started s = true -> stored < s_size s ->
  let v := snd (recover_skip_complete types x) in
  v_status v = s /\ stored_in_the_end v stored remote_len = stored /\
  results_end v (stored_in_the_end v stored remote_len) = false.
Proof.
  intros types x s stored rl Hd Hs Hc Hk Hst Hlt. unfold recover_skip_complete.
  rewrite (recover_intact types x s Hd Hs), Hk, Hst. cbn [v_status]. rewrite Hc.
  cbn [snd v_status]. unfold results_end, stored_in_the_end. cbn [v_monitored v_status].
  repeat split. apply N.leb_gt. exact Hlt.
Qed.

Example skip_complete_instance :
  let s := mkStatus S_SUCCEEDED 60000 remote_name (XRemote [98] [101] [117] true) in
  let x := mkU true (Some (encode s)) (Some []) (Some []) (Some (repeat 0 100%nat)) in
  results_end (snd (recover_skip_complete [[101]] x)) (stored_in_the_end (snd (recover_skip_complete [[101]] x)) 100 60000) = false
  /\ results_end (snd (recover [[101]] x)) (stored_in_the_end (snd (recover [[101]] x)) 100 60000) = true.
Proof. vm_compute. split; reflexivity. Qed.
