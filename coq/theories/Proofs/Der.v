(* Proofs/Der.v — decoding inverts encoding for every TLV whose content is shorter than 2^31
   bytes (the bound Go's parseTagAndLength itself enforces: "length too large"). *)
From Coq Require Import ZArith Lia ZifyN ZifyNat ZifyBool.
From Receptor Require Import Model.Der.
Open Scope N_scope.
Ltac Zify.zify_post_hook ::= Z.div_mod_to_equations.

Lemma be_digits_acc fuel : forall n acc, be_digits fuel n acc = be_digits fuel n [] ++ acc.
Proof.
  induction fuel as [|f IH]; intros n acc; simpl; [reflexivity|].
  destruct (n =? 0); [reflexivity|].
  rewrite (IH (n / 256) (n mod 256 :: acc)), (IH (n / 256) [n mod 256]).
  now rewrite <- app_assoc.
Qed.

Lemma be_digits_snoc f n : n <> 0 ->
  be_digits (S f) n [] = be_digits f (n / 256) [] ++ [n mod 256].
Proof.
  intro Hn. simpl. destruct (n =? 0) eqn:E; [apply N.eqb_eq in E; contradiction|].
  apply be_digits_acc.
Qed.

Lemma read_len_split k1 : forall k2 l acc,
  read_len (k1 + k2) l acc =
  match read_len k1 l acc with
  | Ok (a', r') => read_len k2 r' a'
  | Err e => Err e
  | Unsup => Unsup
  end.
Proof.
  induction k1 as [|k1 IH]; intros k2 l acc; simpl; [reflexivity|].
  destruct l as [|b r]; [reflexivity|].
  destruct (8388608 <=? acc); [reflexivity|].
  destruct (acc * 256 + b =? 0); [reflexivity|]. apply IH.
Qed.

Lemma read_len_digits fuel : forall n r,
  n < 2147483648 -> n < 256 ^ N.of_nat fuel ->
  read_len (length (be_digits fuel n [])) (be_digits fuel n [] ++ r) 0 = Ok (n, r).
Proof.
  induction fuel as [|f IH]; intros n r Hb Hf.
  - simpl in *. assert (n = 0) by lia. now subst.
  - destruct (N.eq_dec n 0) as [->|Hn]; [reflexivity|].
    rewrite be_digits_snoc by assumption.
    rewrite app_length, <- app_assoc, read_len_split.
    rewrite IH.
    + cbn [length read_len app].
      destruct (8388608 <=? n / 256) eqn:E1; [lia|].
      destruct (n / 256 * 256 + n mod 256 =? 0) eqn:E2; [lia|].
      f_equal. f_equal. lia.
    + lia.
    + rewrite Nat2N.inj_succ, N.pow_succ_r' in Hf. lia.
Qed.

Lemma base256_nonempty n : n <> 0 -> base256 n <> [].
Proof.
  intros Hn. unfold base256. rewrite be_digits_snoc by assumption.
  destruct (be_digits 7 (n / 256) []); discriminate.
Qed.

Lemma parse_tl_enc id n r :
  id mod 32 <> 31 -> n < 2147483648 ->
  parse_tl (id :: enc_len n ++ r) = Ok (id, n, r).
Proof.
  intros Hid Hn. unfold parse_tl, enc_len.
  destruct (id mod 32 =? 31) eqn:E; [lia|].
  destruct (n <? 128) eqn:E1.
  - cbn [app]. rewrite E1. reflexivity.
  - cbn [app].
    pose proof (base256_nonempty n ltac:(lia)) as Hne.
    set (d := base256 n) in *.
    destruct (128 + N.of_nat (length d) <? 128) eqn:E2; [lia|].
    replace (128 + N.of_nat (length d) - 128) with (N.of_nat (length d)) by lia.
    destruct (N.of_nat (length d) =? 0) eqn:E3.
    { destruct d; [contradiction|]. cbn [length] in E3. lia. }
    rewrite Nat2N.id. subst d. unfold base256.
    rewrite read_len_digits; [|assumption| change (256 ^ N.of_nat 8) with 18446744073709551616; lia].
    cbn [bind]. rewrite E1. reflexivity.
Qed.

Lemma blen_app a b : blen (a ++ b) = blen a + blen b.
Proof. unfold blen. rewrite app_length. lia. Qed.

Lemma parse_tlv_tlv id c rest :
  id mod 32 <> 31 -> blen c < 2147483648 ->
  parse_tlv (tlv id c ++ rest) =
  Ok ({| e_id := id; e_content := c; e_full := tlv id c |}, rest).
Proof.
  intros Hid Hc. unfold parse_tlv, tlv.
  cbn [app]. rewrite <- app_assoc.
  rewrite parse_tl_enc by assumption. cbn [bind].
  destruct (blen c <=? blen (c ++ rest)) eqn:E; [|rewrite blen_app in E; lia].
  assert (Hn : N.to_nat (blen c) = length c) by (unfold blen; lia).
  rewrite Hn.
  assert (Hf : firstn (length c) (c ++ rest) = c).
  { rewrite firstn_app, Nat.sub_diag, firstn_all, firstn_O, app_nil_r. reflexivity. }
  assert (Hs : skipn (length c) (c ++ rest) = rest).
  { rewrite skipn_app, Nat.sub_diag, skipn_all, skipn_O. reflexivity. }
  rewrite Hf, Hs.
  f_equal. f_equal. f_equal.
  set (h := enc_len (blen c)).
  replace (length (id :: h ++ c ++ rest) - length rest)%nat with (length (id :: h ++ c)).
  - change (id :: h ++ c ++ rest) with ((id :: h) ++ c ++ rest).
    rewrite app_assoc. change ((id :: h) ++ c) with (id :: h ++ c).
    rewrite firstn_app, Nat.sub_diag, firstn_all, firstn_O, app_nil_r. reflexivity.
  - cbn [length]. rewrite !app_length. lia.
Qed.

Lemma parse_tlv_tlv_nil id c :
  id mod 32 <> 31 -> blen c < 2147483648 ->
  parse_tlv (tlv id c) = Ok ({| e_id := id; e_content := c; e_full := tlv id c |}, []).
Proof. intros. rewrite <- (app_nil_r (tlv id c)) at 1. now apply parse_tlv_tlv. Qed.

Lemma tlv_len_ge id c : blen c + 2 <= blen (tlv id c).
Proof.
  unfold tlv, blen. cbn [length]. rewrite app_length.
  unfold enc_len. destruct (_ <? 128); cbn [length]; lia.
Qed.

Lemma tlv_not_nil id c : tlv id c <> [].
Proof. discriminate. Qed.

(* a SEQUENCE OF body built from well-formed TLVs parses back element by element *)
Lemma parse_elems_concat (l : list (N * bytes)) : forall fuel,
  Forall (fun p => fst p mod 32 <> 31 /\ blen (snd p) < 2147483648) l ->
  (length l <= fuel)%nat ->
  parse_elems fuel (concat (map (fun p => tlv (fst p) (snd p)) l)) =
  Ok (map (fun p => {| e_id := fst p; e_content := snd p; e_full := tlv (fst p) (snd p) |}) l).
Proof.
  induction l as [|[id c] l IH]; intros fuel Hall Hf.
  - destruct fuel; reflexivity.
  - inversion Hall as [|? ? [H1 H2] Hall']; subst. cbn [fst snd] in *.
    cbn [map concat].
    destruct fuel as [|f]; [cbn [length] in Hf; lia|].
    cbn [parse_elems]. unfold tlv at 1. cbn [app]. fold (tlv id c).
    change (id :: enc_len (blen c) ++ c) with (tlv id c).
    change ((id :: (enc_len (blen c) ++ c)) ++ concat (map (fun p => tlv (fst p) (snd p)) l))
      with (tlv id c ++ concat (map (fun p => tlv (fst p) (snd p)) l)).
    rewrite parse_tlv_tlv by assumption. cbn [bind].
    rewrite IH; [reflexivity|assumption|cbn [length] in Hf; lia].
Qed.
