(* Proofs/FloodConc.v — with the atomic filter at most one thread per update ID gets through, for every
   number of threads, every assignment of IDs and every interleaving; exactly one when all have finished
   and the ID was new; none when it had been seen.  The split filter lets two through. *)
From Coq Require Import Lia.
From Receptor Require Import Model.FloodConc Proofs.Flood.
Open Scope N_scope.

Lemma passes_cons x t r : passes x (t :: r) = ((if passed x t then 1 else 0) + passes x r)%nat.
Proof. unfold passes. simpl. destruct (passed x t); reflexivity. Qed.

(* one atomic step of one thread: the seen set only grows, and a pass count grows by one only for an ID
   that was new and is seen from then on *)
Lemma step_atomic_spec seen t seen' t' :
  step_atomic seen t = (seen', t') ->
  (forall x, mem_N x seen = true -> mem_N x seen' = true) /\
  (forall x, (if passed x t' then 1 else 0) = (if passed x t then 1 else 0) \/
             (passed x t = false /\ passed x t' = true /\ mem_N x seen = false /\ mem_N x seen' = true))%nat.
Proof.
  destruct t as [i p]. unfold step_atomic. simpl.
  destruct p as [|b|b]; simpl; try (intros E; inversion E; subst; split; [auto|intros x; left; reflexivity]).
  destruct (mem_N i seen) eqn:M; simpl; intros E; inversion E; subst; clear E.
  - split; [auto|]. intros x. left. unfold passed. simpl. now rewrite !Bool.andb_false_r.
  - split; [intros x Hx; now apply mem_sadd_mono|].
    intros x. unfold passed. simpl. destruct (i =? x) eqn:E; simpl; [|left; reflexivity].
    right. apply N.eqb_eq in E. subst x. repeat split; auto. apply mem_sadd_same.
Qed.

Lemma step_at_atomic_spec : forall ts k seen seen' ts',
  step_at step_atomic k seen ts = (seen', ts') ->
  (forall x, mem_N x seen = true -> mem_N x seen' = true) /\
  (forall x, passes x ts' = passes x ts \/
             (passes x ts' = S (passes x ts) /\ mem_N x seen = false /\ mem_N x seen' = true)).
Proof.
  induction ts as [|t r IH]; intros k seen seen' ts' E; cbn [step_at] in E.
  - inversion E; subst. split; [auto|intros x; left; reflexivity].
  - destruct k as [|k].
    + destruct (step_atomic seen t) as [s1 t1] eqn:E1. inversion E; subst; clear E.
      destruct (step_atomic_spec _ _ _ _ E1) as [Hm Hp]. split; [exact Hm|]. intros x. rewrite !passes_cons.
      destruct (Hp x) as [E|(E2 & E3 & E4 & E5)].
      * left. lia.
      * right. rewrite E2, E3. repeat split; auto.
    + destruct (step_at step_atomic k seen r) as [s1 r1] eqn:E1. inversion E; subst; clear E.
      destruct (IH _ _ _ _ E1) as [Hm Hp]. split; [exact Hm|]. intros x. rewrite !passes_cons.
      destruct (Hp x) as [E|(E2 & E3 & E4)]; [left; lia|right; repeat split; auto; lia].
Qed.

Definition FInv (seen : list N) (ts : list thread) : Prop :=
  forall x, (passes x ts <= 1)%nat /\ (passes x ts = 1%nat -> mem_N x seen = true).

Lemma step_at_atomic_inv k seen ts :
  FInv seen ts -> FInv (fst (step_at step_atomic k seen ts)) (snd (step_at step_atomic k seen ts)).
Proof.
  intros I. destruct (step_at step_atomic k seen ts) as [s' ts'] eqn:Est.
  destruct (step_at_atomic_spec _ _ _ _ _ Est) as [Hm Hp]. simpl.
  intros x. destruct (I x) as [I1 I2]. destruct (Hp x) as [E|(E1 & E2 & E3)].
  - rewrite E. split; [exact I1|]. intros P. apply Hm, I2, P.
  - assert (passes x ts = 0%nat) as Z.
    { destruct (passes x ts) as [|[|n]] eqn:P; [reflexivity| |lia].
      rewrite I2 in E2 by reflexivity. discriminate. }
    rewrite E1, Z. split; [lia|]. intros _. exact E3.
Qed.

Lemma run_sched_atomic_inv : forall sched seen ts,
  FInv seen ts -> FInv (fst (run_sched step_atomic seen ts sched)) (snd (run_sched step_atomic seen ts sched)).
Proof.
  induction sched as [|k sched IH]; intros seen ts I; simpl; [exact I|].
  pose proof (step_at_atomic_inv k seen ts I) as I'.
  destruct (step_at step_atomic k seen ts) as [s' ts']. apply IH. exact I'.
Qed.

Lemma passes_fresh x ids : passes x (fresh_threads ids) = 0%nat.
Proof.
  induction ids as [|i r IH]; [reflexivity|]. unfold fresh_threads in *. simpl. rewrite passes_cons, IH.
  unfold passed. simpl. now rewrite Bool.andb_false_r.
Qed.

Lemma FInv_fresh seen ids : FInv seen (fresh_threads ids).
Proof. intros x. rewrite passes_fresh. split; [lia|discriminate]. Qed.

(* every update ID gets through the atomic filter at most once *)
Lemma atomic_at_most_once ids seen sched x :
  (passes x (snd (run_sched step_atomic seen (fresh_threads ids) sched)) <= 1)%nat.
Proof. apply (run_sched_atomic_inv sched seen _ (FInv_fresh seen ids)). Qed.

(* an ID seen before never gets through *)
Lemma step_at_atomic_seen_blocked : forall ts k seen x,
  mem_N x seen = true ->
  passes x (snd (step_at step_atomic k seen ts)) = passes x ts.
Proof.
  intros ts k seen x M. destruct (step_at step_atomic k seen ts) as [s' ts'] eqn:Est.
  destruct (step_at_atomic_spec _ _ _ _ _ Est) as [_ Hp]. simpl.
  destruct (Hp x) as [E|(_ & E & _)]; [exact E|]. rewrite M in E. discriminate.
Qed.

Lemma atomic_seen_never_passes : forall sched seen x ts,
  mem_N x seen = true ->
  passes x (snd (run_sched step_atomic seen ts sched)) = passes x ts.
Proof.
  induction sched as [|k sched IH]; intros seen x ts M; simpl; [reflexivity|].
  pose proof (step_at_atomic_seen_blocked ts k seen x M) as E.
  destruct (step_at step_atomic k seen ts) as [s' ts'] eqn:Est.
  destruct (step_at_atomic_spec _ _ _ _ _ Est) as [Hm _]. simpl in E.
  rewrite (IH s' x ts' (Hm x M)). exact E.
Qed.

(* when every thread has finished, an ID that was new and that some thread delivered got through *)
Lemma step_atomic_done_or_seen seen t seen' t' :
  step_atomic seen t = (seen', t') ->
  fst t' = fst t /\
  (match snd t, snd t' with
   | Start, Done b => mem_N (fst t) seen' = true
   | Start, _ => False
   | p, p' => p' = p /\ seen' = seen end).
Proof.
  destruct t as [i p]. unfold step_atomic. simpl. destruct p; simpl; intros E; inversion E; subst; simpl; auto.
  destruct (mem_N i seen) eqn:M; inversion E; subst; simpl; split; auto. apply mem_sadd_same.
Qed.

(* a finished thread whose ID did not get through (by anyone) implies the ID was seen at the start;
   stated as: all threads done, nobody passed x, some thread carries x  ->  x was seen initially.
   Proved through the invariant "a Done false thread's ID is in the seen set, and the seen set is the
   initial one plus the IDs that passed". *)
Definition DInv (seen0 seen : list N) (ts : list thread) : Prop :=
  (forall x, mem_N x seen = true -> mem_N x seen0 = true \/ (passes x ts >= 1)%nat) /\
  (forall t, In t ts -> snd t = Done false -> mem_N (fst t) seen = true).

Lemma passes_ge_in x ts : (passes x ts >= 1)%nat <-> exists t, In t ts /\ passed x t = true.
Proof.
  unfold passes. split.
  - intros H. destruct (filter (passed x) ts) as [|t r] eqn:F; [simpl in H; lia|].
    exists t. apply filter_In. rewrite F. now left.
  - intros (t & I & P). assert (In t (filter (passed x) ts)) as F by (apply filter_In; auto).
    destruct (filter (passed x) ts); [destruct F|simpl; lia].
Qed.

(* the threads after a step: all the old ones except possibly one, which took a step *)
Lemma step_at_In_old : forall ts k seen s' ts' t',
  step_at step_atomic k seen ts = (s', ts') -> In t' ts' ->
  In t' ts \/ exists t, In t ts /\ step_atomic seen t = (s', t').
Proof.
  induction ts as [|t r IH]; intros k seen s' ts' t' E I; cbn [step_at] in E.
  - inversion E; subst. destruct I.
  - destruct k as [|k].
    + destruct (step_atomic seen t) as [s1 t1] eqn:E1. inversion E; subst; clear E. destruct I as [I|I].
      * right. exists t. subst t1. split; [now left|exact E1].
      * left. now right.
    + destruct (step_at step_atomic k seen r) as [s1 r1] eqn:E1. inversion E; subst; clear E.
      destruct I as [I|I]; [left; now left|].
      destruct (IH _ _ _ _ _ E1 I) as [J|(t0 & J1 & J2)]; [left; now right|].
      right. exists t0. split; [now right|exact J2].
Qed.

Lemma step_at_keeps_passed : forall ts k seen x,
  (passes x ts <= passes x (snd (step_at step_atomic k seen ts)))%nat.
Proof.
  intros ts k seen x. destruct (step_at step_atomic k seen ts) as [s' ts'] eqn:Est.
  destruct (step_at_atomic_spec _ _ _ _ _ Est) as [_ Hp]. simpl.
  destruct (Hp x) as [E|(E & _)]; lia.
Qed.

Lemma step_at_seen_origin : forall ts k seen x,
  mem_N x (fst (step_at step_atomic k seen ts)) = true ->
  mem_N x seen = true \/ (passes x (snd (step_at step_atomic k seen ts)) >= 1)%nat.
Proof.
  induction ts as [|t r IH]; intros k seen x M; simpl in *; [left; exact M|].
  destruct k as [|k].
  - destruct t as [i p]. unfold step_atomic in *. simpl in *.
    destruct p; simpl in *; try (left; exact M).
    destruct (mem_N i seen) eqn:Mi; simpl in *; [left; exact M|].
    apply mem_N_In, sadd_In in M. destruct M as [M|M]; [|left; now apply mem_N_In].
    right. subst x. rewrite passes_cons. unfold passed at 1. simpl. rewrite N.eqb_refl. simpl. lia.
  - specialize (IH k seen x). destruct (step_at step_atomic k seen r) as [s' r']. simpl in *.
    destruct (IH M) as [J|J]; [left; exact J|right]. rewrite passes_cons. lia.
Qed.

Lemma step_at_DInv seen0 k seen ts :
  DInv seen0 seen ts -> DInv seen0 (fst (step_at step_atomic k seen ts)) (snd (step_at step_atomic k seen ts)).
Proof.
  intros [D1 D2]. split.
  - intros x M. destruct (step_at_seen_origin ts k seen x M) as [J|J]; [|right; exact J].
    destruct (D1 x J) as [K|K]; [left; exact K|right].
    pose proof (step_at_keeps_passed ts k seen x). lia.
  - destruct (step_at step_atomic k seen ts) as [s' ts'] eqn:Est. simpl. intros t' I F.
    destruct (step_at_atomic_spec _ _ _ _ _ Est) as [Hm _].
    destruct (step_at_In_old _ _ _ _ _ _ Est I) as [J|(t0 & J1 & J2)].
    + apply Hm, D2; auto.
    + destruct (step_atomic_done_or_seen _ _ _ _ J2) as (E1 & E2). rewrite F in E2. rewrite E1.
      destruct (snd t0) eqn:P.
      * exact E2.
      * destruct E2 as [E2 _]. discriminate.
      * destruct E2 as [E2 _]. apply Hm, D2; auto. rewrite P. congruence.
Qed.

Lemma run_sched_DInv : forall sched seen0 seen ts,
  DInv seen0 seen ts ->
  DInv seen0 (fst (run_sched step_atomic seen ts sched)) (snd (run_sched step_atomic seen ts sched)).
Proof.
  induction sched as [|k sched IH]; intros seen0 seen ts D; simpl; [exact D|].
  pose proof (step_at_DInv seen0 k seen ts D) as D'.
  destruct (step_at step_atomic k seen ts) as [s' ts']. apply IH. exact D'.
Qed.

Lemma run_sched_ids : forall sched seen ts,
  map fst (snd (run_sched step_atomic seen ts sched)) = map fst ts.
Proof.
  assert (forall ts k seen, map fst (snd (step_at step_atomic k seen ts)) = map fst ts) as S1.
  { induction ts as [|t r IH]; intros k seen; simpl; [reflexivity|]. destruct k as [|k].
    - destruct (step_atomic seen t) as [s' t'] eqn:E1.
      simpl. destruct (step_atomic_done_or_seen _ _ _ _ E1) as [E _]. now rewrite E.
    - specialize (IH k seen). destruct (step_at step_atomic k seen r) as [s' r']. simpl in *. now rewrite IH. }
  induction sched as [|k sched IH]; intros seen ts; simpl; [reflexivity|].
  specialize (S1 ts k seen). destruct (step_at step_atomic k seen ts) as [s' ts']. simpl in S1.
  rewrite IH. exact S1.
Qed.

(* exactly once: all threads finished, the ID was new, some thread delivered it *)
Lemma atomic_exactly_once ids seen sched x :
  mem_N x seen = false -> In x ids ->
  all_done (snd (run_sched step_atomic seen (fresh_threads ids) sched)) = true ->
  passes x (snd (run_sched step_atomic seen (fresh_threads ids) sched)) = 1%nat.
Proof.
  intros M I A.
  pose proof (atomic_at_most_once ids seen sched x) as Le.
  assert (DInv seen seen (fresh_threads ids)) as D0.
  { split; [intros y My; left; exact My|]. intros t It F. unfold fresh_threads in It.
    apply in_map_iff in It. destruct It as (i & <- & _). discriminate. }
  pose proof (run_sched_DInv sched seen seen _ D0) as [D1 D2].
  pose proof (run_sched_ids sched seen (fresh_threads ids)) as Ids.
  set (ts' := snd (run_sched step_atomic seen (fresh_threads ids) sched)) in *.
  assert (In x (map fst ts')) as Ix.
  { rewrite Ids. unfold fresh_threads. rewrite map_map. simpl. now rewrite map_id. }
  apply in_map_iff in Ix. destruct Ix as (t & Et & It).
  unfold all_done in A. rewrite forallb_forall in A. specialize (A t It).
  destruct (snd t) as [| |b] eqn:P; try discriminate.
  destruct b.
  - assert (passes x ts' >= 1)%nat; [|lia]. apply passes_ge_in. exists t. split; [exact It|].
    unfold passed. rewrite Et, N.eqb_refl, P. reflexivity.
  - specialize (D2 t It P). rewrite Et in D2. destruct (D1 x D2) as [K|K]; [rewrite M in K; discriminate|lia].
Qed.

(* the split filter (look-up and insert in separate critical sections) lets two threads through *)
Lemma split_filter_passes_twice :
  passes 7 (snd (run_sched step_split [] (fresh_threads [7; 7]) [0; 1; 0; 1]%nat)) = 2%nat.
Proof. vm_compute. reflexivity. Qed.
