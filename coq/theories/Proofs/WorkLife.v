(* Proofs/WorkLife.v — C13 over Model/WorkLife.v. *)
From Coq Require Import ZArith Lia ZifyN ZifyNat ZifyBool PeanoNat.
From Receptor Require Import Model.Lock Model.WorkLife.
Open Scope N_scope.

(* ---------- the transition relation is a preorder ---------- *)

Lemma stage_cases s : stage s = 0 /\ s = 0 \/ stage s = 1 /\ s = 1 \/ stage s = 2 /\ s <> 0 /\ s <> 1.
Proof.
  unfold stage. destruct (s =? 0) eqn:E0; [left; split; auto; lia|].
  destruct (s =? 1) eqn:E1; [right; left; split; auto; lia|]. right; right. repeat split; lia.
Qed.

Lemma rec_eqb_eq a b : rec_eqb a b = true <-> a = b.
Proof.
  destruct a as [s z], b as [s' z']; unfold rec_eqb; simpl. split.
  - intro H. apply andb_true_iff in H as (H1 & H2). apply N.eqb_eq in H1, H2. now subst.
  - intro H. inversion H; subst. now rewrite !N.eqb_refl.
Qed.

Lemma rec_eqb_refl a : rec_eqb a a = true.
Proof. now apply rec_eqb_eq. Qed.

Lemma allowed_spec o n : allowed o n = true <->
  stage (st o) <= stage (st n) /\
  (st o = Succeeded -> st n = Succeeded /\ sz n = sz o) /\
  (stage (st n) <= 1 -> sz o <= sz n).
Proof.
  unfold allowed, Succeeded. split.
  - intro H. apply andb_true_iff in H as (H & H3). apply andb_true_iff in H as (H1 & H2).
    repeat split; try lia.
  - intros (H1 & H2 & H3). apply andb_true_iff; split; [apply andb_true_iff; split|].
    + lia.
    + destruct (st o =? 2) eqn:E; simpl; auto. destruct H2; lia.
    + destruct (stage (st n) <=? 1) eqn:E; simpl; auto. lia.
Qed.

Lemma allowed_refl r : allowed r r = true.
Proof. apply allowed_spec. repeat split; auto; lia. Qed.

Lemma allowed_trans a b c : allowed a b = true -> allowed b c = true -> allowed a c = true.
Proof.
  rewrite !allowed_spec. intros (A1 & A2 & A3) (B1 & B2 & B3). split; [lia|]. split.
  - intro H. destruct (A2 H) as (E1 & E2). destruct (B2 E1) as (E3 & E4). split; [assumption|lia].
  - intro H. assert (H0 : stage (st b) <= 1) by lia. specialize (A3 H0). specialize (B3 H). lia.
Qed.

(* ---------- logs: from pairwise allowed + chain to statements about the whole history ---------- *)

Definition last_rec (r0 : rec) (log : list entry) : rec := fold_left (fun _ e => snd e) log r0.

Lemma last_rec_snoc r0 log e : last_rec r0 (log ++ [e]) = snd e.
Proof. unfold last_rec. now rewrite fold_left_app. Qed.

Lemma chain_snoc log : forall r0 e,
  chain r0 (log ++ [e]) = chain r0 log && rec_eqb (last_rec r0 log) (snd (fst e)).
Proof.
  induction log as [|[[[b k] o] n] l IH]; intros r0 [[[b' k'] o'] n']; simpl.
  - now rewrite andb_true_r.
  - rewrite IH. simpl. now rewrite andb_assoc.
Qed.

Lemma history_snoc r0 log e : history r0 (log ++ [e]) = history r0 log ++ [snd e].
Proof. unfold history. now rewrite map_app. Qed.

(* every record of the history is an allowed successor of every earlier one *)
Lemma history_allowed log : forall r0,
  chain r0 log = true -> forallb entry_allowed log = true ->
  forall i j ri rj, (i <= j)%nat ->
  nth_error (history r0 log) i = Some ri -> nth_error (history r0 log) j = Some rj ->
  allowed ri rj = true.
Proof.
  induction log as [|[[[b k] o] n] l IH]; intros r0 Hc Ha i j ri rj Hij Hi Hj.
  - destruct i as [|i], j as [|j]; simpl in *; try lia.
    + inversion Hi; inversion Hj; subst. apply allowed_refl.
    + destruct j; discriminate.
    + destruct i; discriminate.
  - simpl in Hc, Ha. apply andb_true_iff in Hc as (He & Hc). apply andb_true_iff in Ha as (Hon & Ha).
    apply rec_eqb_eq in He. subst o.
    change (history r0 ((b, k, r0, n) :: l)) with (r0 :: history n l) in *.
    destruct i as [|i], j as [|j]; simpl in Hi, Hj; try lia.
    + inversion Hi; inversion Hj; subst. apply allowed_refl.
    + inversion Hi; subst ri. apply allowed_trans with n; auto.
      apply (IH n Hc Ha 0%nat j n rj); auto; lia.
    + apply (IH n Hc Ha i j ri rj); auto; lia.
Qed.

Definition h0 : rec := mkRec Pending 0.

Theorem log_ok_history pinned log : log_ok pinned log = true ->
  forall i j ri rj, (i <= j)%nat ->
  nth_error (history h0 log) i = Some ri -> nth_error (history h0 log) j = Some rj ->
  stage (st ri) <= stage (st rj) /\
  (st ri = Succeeded -> st rj = Succeeded /\ sz rj = sz ri) /\
  (stage (st rj) <= 1 -> sz ri <= sz rj).
Proof.
  unfold log_ok. intros H i j ri rj Hij Hi Hj.
  apply andb_true_iff in H as (H & Ha). apply andb_true_iff in H as (Hc & _).
  apply allowed_spec. eapply history_allowed; eauto.
Qed.

Lemma log_snoc pinned log b k o n :
  log_ok pinned log = true -> last_rec h0 log = o ->
  write_ok pinned (b, k, o, n) = true -> allowed o n = true ->
  log_ok pinned (log ++ [(b, k, o, n)]) = true /\ last_rec h0 (log ++ [(b, k, o, n)]) = n.
Proof.
  unfold log_ok. intros H Hl Hw Ha.
  apply andb_true_iff in H as (H & H3). apply andb_true_iff in H as (H1 & H2).
  split; [|apply last_rec_snoc].
  rewrite chain_snoc, !forallb_app, H1, H2, H3.
  change (forallb (write_ok pinned) [(b, k, o, n)]) with (write_ok pinned (b, k, o, n) && true).
  change (forallb entry_allowed [(b, k, o, n)]) with (allowed o n && true).
  change (snd (fst (b, k, o, n))) with o.
  fold h0. rewrite Hl, rec_eqb_refl, Hw, Ha. reflexivity.
Qed.

(* ---------- invariant of the model without daemon restart ---------- *)

Definition gone (r : rphase) : bool := match r with RGone _ => true | _ => false end.
Definition pre_final (r : rphase) : bool :=
  match r with RStart | RInit | RLoop | RKill | REscalate | RFin _ => true | _ => false end.
Definition pre_spawn (s : spc) : bool :=
  match s with SNew | SWait | SStarting | SLaunch | SStartErr => true | _ => false end.
Definition fresh_sub (s : spc) : bool :=
  match s with SNew | SWait | SStarting | SLaunch => true | _ => false end.
Definition norunner (r : rphase) : bool := match r with RNone | RGone _ => true | _ => false end.
Definition canc_ok (run : rphase) (c : canc) : Prop :=
  match k_pc c with
  | CSignal | CWait => run <> RNone
  | CWrite => gone run = true
  | CRmDir | CDelIdx | CEnd => run = RNone \/ gone run = true   (* Cancel is over: no runner *)
  | CCheck => True
  end.

Record SInv (w : world) : Prop := mkSInv {
  i_norestart : w_restarted w = false /\ w_dload w = None;
  i_none : w_run w = RNone ->
           w_pidset w = false /\ (st (w_file w) = Pending \/ st (w_file w) = Failed) /\
           (fresh_sub (w_sub w) = true -> w_file w = h0);
  i_start : w_run w = RStart -> w_file w = h0;
  i_prefinal : pre_final (w_run w) = true -> stage (st (w_file w)) <= 1;
  i_size : sz (w_file w) <= w_out w;
  i_canc : Forall (canc_ok (w_run w)) (w_cancels w);
  i_sub : pre_spawn (w_sub w) = true -> w_run w = RNone;
  i_spawned : w_sub w = SSpawned -> w_run w <> RNone;
  i_pid : w_pidset w || norunner (w_run w) || launching (w_sub w) = true;
  i_log : log_ok false (w_log w) = true /\ last_rec h0 (w_log w) = w_file w }.

Lemma sinv0 : SInv world0.
Proof.
  constructor; simpl; auto; try discriminate; try lia.
Qed.

(* the allowed transitions the writers make *)
Lemma allowed_p0 : allowed h0 (wf_pending0 h0) = true.
Proof. reflexivity. Qed.

Lemma allowed_to_final o n : st o <> Succeeded -> stage (st n) = 2 -> allowed o n = true.
Proof.
  intros H1 H2. apply allowed_spec. pose proof (stage_cases (st o)). repeat split; try lia; intro; try lia; contradiction.
Qed.

Lemma allowed_tick o z : stage (st o) <= 1 -> sz o <= z -> allowed o (mkRec Running z) = true.
Proof.
  intros H1 H2. apply allowed_spec. simpl. pose proof (stage_cases (st o)). unfold Succeeded.
  repeat split; try (change (stage Running) with 1; lia); intro; try lia.
Qed.

Lemma allowed_cancel o : allowed o (wf_cancel o) = true.
Proof.
  unfold wf_cancel. destruct (st o =? Succeeded) eqn:E; [apply allowed_refl|].
  apply allowed_to_final; [unfold Succeeded in *; lia|reflexivity].
Qed.

Lemma stage_le1_not_succ s : stage s <= 1 -> s <> Succeeded.
Proof. intros H ->. vm_compute in H. contradiction. Qed.

Lemma canc_mono r r' cs :
  (r <> RNone -> r' <> RNone) -> (gone r = true -> gone r' = true) ->
  (r = RNone \/ gone r = true -> r' = RNone \/ gone r' = true) ->
  Forall (canc_ok r) cs -> Forall (canc_ok r') cs.
Proof.
  intros H1 H2 H3 H. eapply Forall_impl; [|exact H].
  intros c Hc. unfold canc_ok in *. destruct (k_pc c); auto.
Qed.

Ltac wlog_tac := apply log_snoc; auto; try apply rec_eqb_refl.
Ltac mono := eapply canc_mono; [| | |eassumption]; simpl; intros; try discriminate; try congruence; auto;
  try match goal with H : _ \/ _ |- _ => destruct H; try discriminate; try congruence; auto end.

Lemma inv_submit fail w : SInv w -> SInv (step false (ASubmit fail) w).
Proof.
  intros [Hr Hn Hs Hp Hz Hc Hsub Hsp Hpd [Hl Hlast]].
  destruct w as [file pidset out sub run child sig wdone cancels restarted dload dir indexed log]; simpl in *.
  destruct sub; simpl; try (constructor; simpl; auto; fail);
    try (specialize (Hsub eq_refl); subst run; destruct (Hn eq_refl) as (Hpid & Hst & Hf)).
  - (* SNew *) specialize (Hf eq_refl). rewrite Hf in *.
    unfold W; simpl. destruct dir; simpl; constructor; simpl; auto; try discriminate; try lia.
    wlog_tac.
  - (* SWait *) specialize (Hf eq_refl). rewrite Hf in *.
    destruct fail; unfold W; simpl; destruct dir; simpl; constructor; simpl; auto; try discriminate; try lia;
      try (intros _; repeat split; auto; discriminate); wlog_tac.
  - (* SStarting *) specialize (Hf eq_refl). rewrite Hf in *.
    unfold W; simpl. destruct dir; simpl; constructor; simpl; auto; try discriminate; try lia.
    wlog_tac.
  - (* SLaunch *) specialize (Hf eq_refl). rewrite Hf in *.
    destruct fail; unfold W, ctx_cancelled; simpl.
    + destruct dir; simpl; constructor; simpl; auto; try discriminate; try lia;
        try (intros _; repeat split; auto; discriminate).
      wlog_tac.
    + destruct cancels as [|c0 cs]; simpl; constructor; simpl; auto; try discriminate; try lia;
        try (intros _; repeat split; auto; discriminate).
  - (* SStartErr *)
    unfold W; simpl. destruct dir; simpl; constructor; simpl; auto; try discriminate; try lia;
      try (intros _; repeat split; auto; discriminate).
    wlog_tac. apply allowed_to_final; [|reflexivity]. destruct Hst as [E|E]; rewrite E; discriminate.
  - (* SSpawned *)
    specialize (Hsp eq_refl).
    unfold W; simpl. destruct dir; simpl; constructor; simpl; auto; try discriminate; try lia;
      try (intro; contradiction).
    wlog_tac. apply allowed_refl.
Qed.

Lemma leb_of_le a b : a <= b -> (a <=? b) = true.
Proof. intro. now apply N.leb_le. Qed.

Lemma inv_runner choice w : SInv w -> SInv (step false (ARunner choice) w).
Proof.
  intros [Hr Hn Hs Hp Hz Hc Hsub Hsp Hpd [Hl Hlast]].
  destruct w as [file pidset out sub run child sig wdone cancels restarted dload dir indexed log]; simpl in *.
  assert (Hnps : run <> RNone -> pre_spawn sub = true -> False) by (intros A B; apply A; auto).
  destruct run; simpl; try (constructor; simpl; auto; fail).
  - (* RStart *) rewrite (Hs eq_refl) in *.
    unfold W; simpl. destruct dir; simpl; constructor; simpl; auto; try discriminate; try lia;
      try (intros; discriminate); try (intro B; exfalso; apply Hnps; [discriminate|exact B]); try mono.
    all: try (vm_compute; discriminate).
    wlog_tac.
  - (* RInit *)
    destruct (choice =? 0); simpl; constructor; simpl; auto; try discriminate; try lia;
      try (intros; discriminate); try (intro B; exfalso; apply Hnps; [discriminate|exact B]); try mono.
  - (* RLoop *)
    specialize (Hp eq_refl).
    destruct (choice =? 0); [|destruct (choice =? 1); [destruct child|destruct sig]]; simpl;
      try (constructor; simpl; auto; fail).
    + unfold W; simpl. destruct dir; simpl; constructor; simpl; auto; try discriminate; try lia;
      try (intros; discriminate); try (intro B; exfalso; apply Hnps; [discriminate|exact B]); try mono.
      all: try (vm_compute; discriminate).
      wlog_tac. * simpl. rewrite rec_eqb_refl. simpl. now apply leb_of_le. * now apply allowed_tick.
    + constructor; simpl; auto; try discriminate; try lia;
      try (intros; discriminate); try (intro B; exfalso; apply Hnps; [discriminate|exact B]); try mono.
    + constructor; simpl; auto; try discriminate; try lia;
      try (intros; discriminate); try (intro B; exfalso; apply Hnps; [discriminate|exact B]); try mono.
  - (* RKill *)
    specialize (Hp eq_refl).
    destruct (choice =? 0); simpl.
    + unfold W; simpl. destruct dir; simpl; constructor; simpl; auto; try discriminate; try lia;
        try (intros; discriminate); try (intro B; exfalso; apply Hnps; [discriminate|exact B]); try mono.
      wlog_tac. * simpl. rewrite rec_eqb_refl. simpl. now apply leb_of_le.
      * apply allowed_to_final; [now apply stage_le1_not_succ|reflexivity].
    + constructor; simpl; auto; try discriminate; try lia;
        try (intros; discriminate); try (intro B; exfalso; apply Hnps; [discriminate|exact B]); try mono.
  - (* REscalate *)
    specialize (Hp eq_refl).
    unfold W; simpl. destruct dir; simpl; constructor; simpl; auto; try discriminate; try lia;
      try (intros; discriminate); try (intro B; exfalso; apply Hnps; [discriminate|exact B]); try mono.
    wlog_tac. * simpl. rewrite rec_eqb_refl. simpl. now apply leb_of_le.
    * apply allowed_to_final; [now apply stage_le1_not_succ|reflexivity].
  - (* RFin *)
    specialize (Hp eq_refl).
    unfold W; simpl. destruct dir; simpl; constructor; simpl; auto; try discriminate; try lia;
      try (intros; discriminate); try (intro B; exfalso; apply Hnps; [discriminate|exact B]); try mono.
    wlog_tac. * simpl. destruct ok; simpl; rewrite ?rec_eqb_refl, ?orb_true_r; simpl; now apply leb_of_le.
    * apply allowed_to_final; [now apply stage_le1_not_succ|destruct ok; reflexivity].
  - (* RWrote *)
    constructor; simpl; auto; try discriminate; try lia;
      try (intros; discriminate); try (intro B; exfalso; apply Hnps; [discriminate|exact B]); try mono.
Qed.

Ltac close Hnps := constructor; simpl; auto; try discriminate; try lia;
      try (intros; discriminate);
      try (let B := fresh "B" in intro B; exfalso; apply Hnps; [discriminate|exact B]); try mono.

Lemma inv_env a w : (match a with AGrow _ | AExit _ | AReap | ACancelNew _ => True | _ => False end) ->
  SInv w -> SInv (step false a w).
Proof.
  intros Ha [Hr Hn Hs Hp Hz Hc Hsub Hsp Hpd [Hl Hlast]].
  destruct w as [file pidset out sub run child sig wdone cancels restarted dload dir indexed log]; simpl in *.
  assert (Hnps : run <> RNone -> pre_spawn sub = true -> False) by (intros A B; apply A; auto).
  destruct a; try contradiction; simpl.
  - destruct child; simpl; constructor; simpl; auto; lia.
  - destruct child; simpl; constructor; simpl; auto.
  - destruct run as [| | | | | | | |[|]]; simpl; try (constructor; simpl; auto; fail);
    close Hnps.
  - destruct indexed; simpl; [|constructor; simpl; auto; fail].
    constructor; simpl; auto.
    apply Forall_app; split; auto.
Qed.

Lemma inv_waiter w : SInv w -> SInv (step false AWaiter w).
Proof.
  intros [Hr Hn Hs Hp Hz Hc Hsub Hsp Hpd [Hl Hlast]].
  destruct w as [file pidset out sub run child sig wdone cancels restarted dload dir indexed log]; simpl in *.
  destruct run as [| | | | | | | |[|]]; simpl; try (constructor; simpl; auto; fail).
  destruct sub; simpl; try (constructor; simpl; auto; fail).
  destruct (restarted || wdone); simpl; try (constructor; simpl; auto; fail).
  unfold W; simpl. destruct dir; simpl; constructor; simpl; auto; try discriminate.
  wlog_tac. apply allowed_refl.
Qed.

Lemma Forall_set_nth {A} (P : A -> Prop) l : forall i x, Forall P l -> P x -> Forall P (set_nth i x l).
Proof.
  induction l as [|h t IH]; intros [|i] x H Hx; simpl; auto; inversion H; subst; constructor; auto.
Qed.

Lemma sz_wf_cancel r : sz (wf_cancel r) = sz r.
Proof. unfold wf_cancel. destruct (st r =? Succeeded); reflexivity. Qed.

Lemma inv_cancel i w : SInv w -> SInv (step false (ACancel i) w).
Proof.
  intros [Hr Hn Hs Hp Hz Hc Hsub Hsp Hpd [Hl Hlast]].
  destruct w as [file pidset out sub run child sig wdone cancels restarted dload dir indexed log]; simpl in *.
  assert (Hnps : run <> RNone -> pre_spawn sub = true -> False) by (intros A B; apply A; auto).
  unfold step_cancel; simpl.
  destruct (nth_error cancels i) as [c|] eqn:Hi; [|constructor; simpl; auto].
  assert (Hci : canc_ok run c) by (rewrite Forall_forall in Hc; apply Hc; eapply nth_error_In; eauto).
  destruct Hr as (-> & ->).
  unfold canc_ok in Hci.
  destruct c as [kind pc]; simpl in *.
  assert (Hafter : forall r, r = RNone \/ gone r = true -> canc_ok r (mkCanc kind (after_cancel kind)))
    by (intros r Hr'; unfold canc_ok, after_cancel; simpl; destruct (kind =? 0); simpl; exact Hr').
  assert (Hnr : norunner run = true -> run = RNone \/ gone run = true)
    by (destruct run; simpl; intro; try discriminate; auto).
  destruct pc; simpl.
  - (* CCheck *)
    destruct (launching sub) eqn:Hla; simpl; [constructor; simpl; auto; rewrite Hla, ?orb_true_r; auto|].
    destruct pidset eqn:Hpid; simpl; constructor; simpl; auto; try (rewrite Hla; auto); apply Forall_set_nth; auto.
    + unfold canc_ok; simpl. intro E. destruct (Hn E) as (F & _). discriminate.
    + apply Hafter, Hnr. simpl in Hpd. rewrite ?Hla, ?orb_false_r in Hpd. exact Hpd.
  - (* CSignal *)
    destruct run as [| | | | | | | |[|]]; simpl; try contradiction.
    all: try (close Hnps; apply Forall_set_nth; auto; try (unfold canc_ok; simpl; discriminate);
              try (apply Hafter; simpl; auto); try mono; fail).
  - (* CWait *)
    destruct run as [| | | | | | | |b]; simpl; try (constructor; simpl; auto; fail).
    close Hnps. apply Forall_set_nth; auto. reflexivity.
  - (* CWrite *)
    destruct run as [| | | | | | | |b]; simpl in Hci; try discriminate.
    unfold W; simpl. destruct dir; simpl; close Hnps; try (apply Forall_set_nth; auto; apply Hafter; simpl; auto).
    + now rewrite sz_wf_cancel.
    + wlog_tac. apply allowed_cancel.
  - (* CRmDir *) close Hnps. apply Forall_set_nth; auto.
  - (* CDelIdx *) close Hnps. apply Forall_set_nth; auto.
  - (* CEnd *) constructor; simpl; auto.
Qed.

Lemma step_sinv a w : is_restart a = false -> SInv w -> SInv (step false a w).
Proof.
  intros Ha H. destruct a; try discriminate.
  - now apply inv_submit.
  - now apply inv_runner.
  - apply inv_env; auto.
  - apply inv_env; auto.
  - apply inv_env; auto.
  - now apply inv_waiter.
  - apply inv_env; auto.
  - now apply inv_cancel.
Qed.

Lemma run_sinv sched : forall w, no_restart sched = true -> SInv w -> SInv (run false sched w).
Proof.
  unfold run, no_restart. induction sched as [|a s IH]; intros w Hn H; simpl; auto.
  simpl in Hn. apply andb_true_iff in Hn as (Ha & Hs).
  apply IH; auto. apply step_sinv; auto. now destruct (is_restart a).
Qed.

(* every status log the model produces without daemon restart is a log the checker accepts *)
Theorem model_log_ok sched : no_restart sched = true ->
  log_ok false (w_log (run false sched world0)) = true /\
  last_rec h0 (w_log (run false sched world0)) = w_file (run false sched world0).
Proof. intro H. exact (i_log _ (run_sinv sched world0 H sinv0)). Qed.

(* C13 along every interleaving of the writers (no daemon restart) *)
Theorem life_cycle_forward sched : no_restart sched = true ->
  let h := history h0 (w_log (run false sched world0)) in
  forall i j ri rj, (i <= j)%nat -> nth_error h i = Some ri -> nth_error h j = Some rj ->
  stage (st ri) <= stage (st rj) /\
  (st ri = Succeeded -> st rj = Succeeded /\ sz rj = sz ri) /\
  (stage (st rj) <= 1 -> sz ri <= sz rj).
Proof.
  intros H h. destruct (model_log_ok sched H) as (Hl & _). exact (log_ok_history false _ Hl).
Qed.

Theorem stage_monotone sched : no_restart sched = true ->
  let h := history h0 (w_log (run false sched world0)) in
  forall i j ri rj, (i <= j)%nat -> nth_error h i = Some ri -> nth_error h j = Some rj ->
  stage (st ri) <= stage (st rj).
Proof. intros H h i j ri rj Hij Hi Hj. exact (proj1 (life_cycle_forward sched H i j ri rj Hij Hi Hj)). Qed.

Theorem succeeded_absorbing sched : no_restart sched = true ->
  let h := history h0 (w_log (run false sched world0)) in
  forall i j ri rj, (i <= j)%nat -> nth_error h i = Some ri -> nth_error h j = Some rj ->
  st ri = Succeeded -> st rj = Succeeded /\ sz rj = sz ri.
Proof. intros H h i j ri rj Hij Hi Hj. exact (proj1 (proj2 (life_cycle_forward sched H i j ri rj Hij Hi Hj))). Qed.

Theorem size_monotone_while_running sched : no_restart sched = true ->
  let h := history h0 (w_log (run false sched world0)) in
  forall i j ri rj, (i <= j)%nat -> nth_error h i = Some ri -> nth_error h j = Some rj ->
  stage (st rj) <= 1 -> sz ri <= sz rj.
Proof. intros H h i j ri rj Hij Hi Hj. exact (proj2 (proj2 (life_cycle_forward sched H i j ri rj Hij Hi Hj))). Qed.

(* every write of the model is an atomic read-modify-write in the sense of C14: the stored
   record afterwards is the update function applied to the stored record before *)
Lemma W_is_atomic_update b k f w : w_dir w = true ->
  FRec (w_file (W b k f w)) =
  a_file (atomic_op (mkA (FRec (w_file w)) [w_file w] []) (0%nat, OUpd f)).
Proof. intro H. unfold W. rewrite H. reflexivity. Qed.

(* ---------- release removes the unit ---------- *)

Definition rel_ok (dir indexed : bool) (c : canc) : Prop :=
  match k_pc c with
  | CDelIdx => dir = false
  | CEnd => k_kind c = 0 \/ (dir = false /\ indexed = false)
  | _ => True
  end.

Definition RInv (w : world) : Prop := Forall (rel_ok (w_dir w) (w_indexed w)) (w_cancels w).

Lemma W_dir b k f w : w_dir (W b k f w) = w_dir w /\ w_indexed (W b k f w) = w_indexed w /\ w_cancels (W b k f w) = w_cancels w.
Proof. unfold W. destruct (w_dir w) eqn:E; simpl; auto. Qed.

Lemma rel_mono d x d' x' cs : (d = false -> d' = false) -> (x = false -> x' = false) ->
  Forall (rel_ok d x) cs -> Forall (rel_ok d' x') cs.
Proof.
  intros H1 H2 H. eapply Forall_impl; [|exact H]. intros c Hc. unfold rel_ok in *.
  destruct (k_pc c); auto. destruct Hc as [E|(E1 & E2)]; auto.
Qed.

Lemma rel_step p a w : RInv w -> RInv (step p a w).
Proof.
  unfold RInv. intro H.
  destruct w as [file pidset out sub run child sig wdone cancels restarted dload dir indexed log]; simpl in *.
  destruct a; simpl.
  - destruct sub; try destruct fail; simpl; unfold W, ctx_cancelled; simpl; destruct dir; simpl; auto; destruct cancels; simpl; auto.
  - destruct run; simpl; auto; unfold W; simpl;
      repeat match goal with |- context [if ?b then _ else _] => destruct b; simpl; auto end;
      try (destruct child; simpl; auto).
  - destruct child; simpl; auto.
  - destruct child; simpl; auto.
  - destruct run as [| | | | | | | |[|]]; simpl; auto.
  - destruct run as [| | | | | | | |[|]]; simpl; auto. destruct sub; simpl; auto.
    destruct (restarted || wdone); simpl; auto. unfold W; simpl. destruct dir; simpl; auto.
  - destruct indexed; simpl; auto. apply Forall_app; split; auto. constructor; auto. exact I.
  - unfold step_cancel; simpl. destruct (nth_error cancels i) as [c|] eqn:Hi; simpl; auto.
    assert (Hci : rel_ok dir indexed c) by (rewrite Forall_forall in H; apply H; eapply nth_error_In; eauto).
    destruct c as [kind pc]; unfold rel_ok in Hci; simpl in *.
    assert (Hafter : forall d x, rel_ok d x (mkCanc kind (after_cancel kind))).
    { intros d x. unfold rel_ok, after_cancel; simpl. destruct (kind =? 0) eqn:E; simpl; auto. left. lia. }
    destruct pc; simpl; auto.
    + destruct (launching sub); simpl; auto. destruct pidset; simpl; apply Forall_set_nth; auto; exact I.
    + destruct run as [| | | | | | | |[|]]; simpl; apply Forall_set_nth; auto; exact I.
    + destruct restarted; simpl; [apply Forall_set_nth; auto; exact I|].
      destruct run; simpl; auto; apply Forall_set_nth; auto; exact I.
    + unfold W; simpl. destruct dir; simpl; apply Forall_set_nth; auto.
    + apply Forall_set_nth; [eapply rel_mono; [| |exact H]; auto|]. reflexivity.
    + apply Forall_set_nth; [eapply rel_mono; [| |exact H]; auto|]. unfold rel_ok; simpl. right. auto.
  - destruct (dir && indexed); simpl; auto.
  - destruct dload as [s|]; simpl; auto. destruct (s =? Pending); simpl; auto. unfold W; simpl. destruct dir; simpl; auto.
Qed.

Lemma rel_run p sched : forall w, RInv w -> RInv (run p sched w).
Proof.
  unfold run. induction sched as [|a s IH]; intros w H; simpl; auto. apply IH. now apply rel_step.
Qed.

(* when a release / force-release has run to its end, the directory and the index entry are gone
   - for every schedule, with or without daemon restarts, on the fixed and on the pinned tree *)
Theorem release_removes p sched i c :
  nth_error (w_cancels (run p sched world0)) i = Some c ->
  k_kind c <> 0 -> k_pc c = CEnd ->
  w_dir (run p sched world0) = false /\ w_indexed (run p sched world0) = false.
Proof.
  intros Hi Hk Hpc.
  assert (H : RInv (run p sched world0)) by (apply rel_run; constructor).
  unfold RInv in H. rewrite Forall_forall in H. specialize (H c (nth_error_In _ _ Hi)).
  unfold rel_ok in H. rewrite Hpc in H. destruct H as [E|H]; [contradiction|exact H].
Qed.

(* ... and nothing brings them back: the unit stays unknown (no new cancel/release can even
   start) and no later write recreates its files *)
Lemma gone_step p a w : (w_dir w = false -> w_dir (step p a w) = false) /\
                        (w_indexed w = false -> w_indexed (step p a w) = false).
Proof.
  destruct w as [file pidset out sub run child sig wdone cancels restarted dload dir indexed log]; simpl.
  destruct a; simpl.
  - destruct sub; try destruct fail; simpl; unfold W, ctx_cancelled; simpl; destruct dir; simpl; auto; destruct cancels; simpl; auto.
  - destruct run; simpl; auto; unfold W; simpl;
      repeat match goal with |- context [if ?b then _ else _] => destruct b; simpl; auto end;
      try (destruct child; simpl; auto).
  - destruct child; simpl; auto.
  - destruct child; simpl; auto.
  - destruct run as [| | | | | | | |[|]]; simpl; auto.
  - destruct run as [| | | | | | | |[|]]; simpl; auto. destruct sub; simpl; auto.
    destruct (restarted || wdone); simpl; auto. unfold W; simpl. destruct dir; simpl; auto.
  - destruct indexed; simpl; auto.
  - unfold step_cancel; simpl. destruct (nth_error cancels i) as [[kind pc]|]; simpl; auto.
    destruct pc; simpl; auto.
    + destruct (launching sub); simpl; auto. destruct pidset; simpl; auto.
    + destruct run as [| | | | | | | |[|]]; simpl; auto.
    + destruct restarted; simpl; auto. destruct run; simpl; auto.
    + unfold W; simpl. destruct dir; simpl; auto.
  - destruct (dir && indexed); simpl; auto.
  - destruct dload as [s|]; simpl; auto. destruct (s =? Pending); simpl; auto. unfold W; simpl. destruct dir; simpl; auto.
Qed.

Theorem released_stays_released p sched : forall w,
  w_dir w = false -> w_indexed w = false ->
  w_dir (run p sched w) = false /\ w_indexed (run p sched w) = false /\
  w_file (run p sched w) = w_file w.
Proof.
  unfold run. induction sched as [|a s IH]; intros w Hd Hx; simpl; auto.
  destruct (gone_step p a w) as (G1 & G2).
  destruct (IH (step p a w) (G1 Hd) (G2 Hx)) as (A & B & C). repeat split; auto.
  rewrite C. clear - Hd.
  destruct w as [file pidset out sub run child sig wdone cancels restarted dload dir indexed log]; simpl in *. subst dir.
  destruct a; simpl; auto.
  - destruct sub; try destruct fail; simpl; auto; unfold ctx_cancelled; simpl; destruct cancels; simpl; auto.
  - destruct run; simpl; auto;
      repeat match goal with |- context [if ?b then _ else _] => destruct b; simpl; auto end;
      try (destruct child; simpl; auto).
  - destruct child; simpl; auto.
  - destruct child; simpl; auto.
  - destruct run as [| | | | | | | |[|]]; simpl; auto.
  - destruct run as [| | | | | | | |[|]]; simpl; auto. destruct sub; simpl; auto.
    destruct (restarted || wdone); simpl; auto.
  - destruct indexed; simpl; auto.
  - unfold step_cancel; simpl. destruct (nth_error cancels i) as [[kind pc]|]; simpl; auto.
    destruct pc; simpl; auto.
    + destruct (launching sub); simpl; auto. destruct pidset; simpl; auto.
    + destruct run as [| | | | | | | |[|]]; simpl; auto.
    + destruct restarted; simpl; auto. destruct run; simpl; auto.
  - destruct dload as [s|]; simpl; auto. destruct (s =? Pending); simpl; auto.
Qed.

(* ---------- what the faithful model refutes ---------- *)

Definition submit5 : list action := [ASubmit false; ASubmit false; ASubmit false; ASubmit false; ASubmit false].

(* cancel arrives after the runner has seen its command exit and before it has written:
   the SIGINT is ignored, the runner writes Succeeded and exits, Cancel stops waiting and writes *)
Definition cancel_race_sched : list action :=
  submit5 ++ [ARunner 0; ARunner 0; AGrow 4; AExit true; ARunner 1; ACancelNew 0;
              ACancel 0%nat; ACancel 0%nat; ARunner 0; ARunner 0; ACancel 0%nat; ACancel 0%nat].

(* pinned tree (Cancel writes Canceled unconditionally): Succeeded is overwritten, no restart needed *)
Theorem succeeded_absorbing_pinned_refuted :
  no_restart cancel_race_sched = true /\
  let h := history h0 (w_log (run true cancel_race_sched world0)) in
  nth_error h 6 = Some (mkRec Succeeded 4) /\ nth_error h 7 = Some (mkRec Canceled 4) /\
  log_ok true (w_log (run true cancel_race_sched world0)) = false.
Proof. vm_compute. auto. Qed.

(* the repaired Cancel on the same schedule *)
Example cancel_race_fixed :
  let h := history h0 (w_log (run false cancel_race_sched world0)) in
  nth_error h 6 = Some (mkRec Succeeded 4) /\ nth_error h 7 = Some (mkRec Succeeded 4).
Proof. vm_compute. auto. Qed.

(* daemon restarted while the unit runs: Cancel does not wait for the runner (not its child),
   writes Canceled, and the runner's next tick writes Running *)
Definition restart_cancel_sched : list action :=
  submit5 ++ [ARunner 0; ARunner 0; AGrow 2; ARunner 0; ARestart; ARestartWrite; ACancelNew 0;
              ACancel 0%nat; ACancel 0%nat; ACancel 0%nat; ACancel 0%nat; ARunner 0; ARunner 2; ARunner 0].

(* daemon restarted before the runner's first tick: "Pending at restart", then the runner goes on *)
Definition restart_pending_sched : list action :=
  submit5 ++ [ARunner 0; ARestart; ARestartWrite; ARunner 0; AGrow 2; ARunner 0; AExit true; ARunner 1; ARunner 0].

Theorem stage_monotone_restart_refuted :
  (let h := history h0 (w_log (run false restart_cancel_sched world0)) in
   nth_error h 7 = Some (mkRec Canceled 2) /\ nth_error h 8 = Some (mkRec Running 2)) /\
  (let h := history h0 (w_log (run false restart_pending_sched world0)) in
   nth_error h 6 = Some (mkRec Failed 0) /\ nth_error h 7 = Some (mkRec Running 2)) /\
  stage Running < stage Canceled /\ stage Running < stage Failed.
Proof. vm_compute. auto. Qed.

(* ---------- unit IDs ---------- *)

Lemma mem_false_not_in x l : mem x l = false <-> ~ In x l.
Proof.
  unfold mem. split.
  - intros H Hin. assert (E : existsb (N.eqb x) l = true) by (apply existsb_exists; exists x; split; auto; apply N.eqb_refl).
    congruence.
  - intro H. destruct (existsb (N.eqb x) l) eqn:E; auto.
    apply existsb_exists in E as (y & Hy & Exy). apply N.eqb_eq in Exy. subst. contradiction.
Qed.

Lemma nodup_ids_spec l : nodup_ids l = true <-> NoDup l.
Proof.
  induction l as [|x r IH]; simpl; split; intro H; auto using NoDup_nil.
  - apply andb_true_iff in H as (H1 & H2). constructor; [|now apply IH].
    apply mem_false_not_in. now destruct (mem x r).
  - inversion H; subst. apply andb_true_iff; split; [|now apply IH].
    apply mem_false_not_in in H2. now rewrite H2.
Qed.

(* the ID handed out is neither in the index nor a directory on disk *)
Lemma gen_id_fresh fuel cands : forall pos index disk x pos',
  gen_id true fuel cands pos index disk = Some (x, pos') ->
  mem x index = false /\ mem x disk = false.
Proof.
  induction fuel as [|f IH]; intros pos index disk x pos' H; simpl in H; [discriminate|].
  destruct (mem (cands pos) index) eqn:E1; simpl in H; [now apply IH in H|].
  destruct (mem (cands pos) disk) eqn:E2; simpl in H; [now apply IH in H|].
  inversion H; subst. auto.
Qed.

Lemma remove_id_nodup x l : NoDup l -> NoDup (remove_id x l).
Proof. intro H. unfold remove_id. now apply NoDup_filter. Qed.

(* no two units in the index share an ID (hence a directory), for every candidate stream and
   every interleaving of allocations (successful or failing after mkdir) and releases *)
Theorem ids_unique fuel cands acts : forall s,
  nodup_ids (i_index s) = true -> nodup_ids (i_index (id_run true fuel cands acts s)) = true.
Proof.
  unfold id_run. induction acts as [|a r IH]; intros s H; simpl; auto.
  apply IH. destruct a; simpl.
  - destruct (gen_id true fuel cands (i_pos s) (i_index s) (i_disk s)) as [[x pos']|] eqn:G; auto.
    destruct fails; simpl; auto.
    apply gen_id_fresh in G as (G1 & _). rewrite G1. simpl. exact H.
  - destruct (mem x (i_index s)); simpl; auto.
  - destruct (mem x (i_disk s)); simpl; auto.
    apply nodup_ids_spec. apply remove_id_nodup. now apply nodup_ids_spec.
Qed.

(* ... and every ID ever returned was, at that moment, no directory on disk *)
Theorem alloc_returns_fresh_id fuel cands s fails :
  forall x, i_given (id_step true fuel cands (IAlloc fails) s) = x :: i_given s ->
  mem x (i_index s) = false /\ mem x (i_disk s) = false.
Proof.
  intros x H. simpl in H.
  destruct (gen_id true fuel cands (i_pos s) (i_index s) (i_disk s)) as [[y pos']|] eqn:G.
  - destruct fails; simpl in H.
    + exfalso. clear - H. induction (i_given s) as [|h t IHt]; [discriminate|]. inversion H; subst. auto.
    + inversion H; subst. eapply gen_id_fresh; eauto.
  - exfalso. clear - H. induction (i_given s) as [|h t IHt]; [discriminate|]. inversion H; subst. auto.
Qed.

(* the mutation "generateUnitID does not look at the disk": the directory left by a failed
   allocation is handed out again *)
Theorem ids_without_disk_check_refuted :
  let cands := fun _ : nat => 7 in
  let s1 := id_step false 3 cands (IAlloc true) (mkIds [] [] 0 []) in
  let s2 := id_step false 3 cands (IAlloc false) s1 in
  mem 7 (i_disk s1) = true /\ i_given s2 = [7] /\
  i_given (id_step true 3 cands (IAlloc false) (id_step true 3 cands (IAlloc true) (mkIds [] [] 0 []))) = [].
Proof. vm_compute. auto. Qed.

(* ---------- cancel stops the unit's process ---------- *)

(* the command runs only while its runner is in the monitoring loop or terminating it *)
Definition child_ok (w : world) : Prop :=
  (w_child w = CRun -> w_run w = RLoop \/ w_run w = RKill \/ w_run w = REscalate) /\
  (pre_spawn (w_sub w) = true -> w_run w = RNone).

Ltac kfin H1 H2 :=
  split;
  [ first [ exact H1
          | let E := fresh "E" in intro E;
            first [ discriminate E
                  | let A := fresh "A" in destruct (H1 E) as [A|[A|A]];
                    first [ discriminate A | (rewrite A; auto) | auto ]
                  | auto ] ]
  | first [ exact H2 | let B := fresh "B" in intro B; first [ discriminate B | (specialize (H2 B); first [discriminate H2 | auto]) ] ] ].

Lemma child_step p a w : child_ok w -> child_ok (step p a w).
Proof.
  unfold child_ok.
  destruct w as [file pidset out sub run child sig wdone cancels restarted dload dir indexed log]; simpl.
  intros (H1 & H2). destruct a; simpl.
  - destruct sub; try destruct fail; simpl; unfold W, ctx_cancelled; simpl; try destruct dir; simpl; try (split; assumption); try kfin H1 H2;
      try (destruct cancels; simpl; try kfin H1 H2).
    all: try (exfalso; specialize (H2 eq_refl); congruence).
    all: try (split; [exact H1|intro B; discriminate B || (apply H2; reflexivity)]).
  - destruct run; simpl; try (split; assumption); unfold W; simpl;
      repeat match goal with |- context [if ?b then _ else _] => destruct b; simpl end;
      try (destruct child; simpl); try (split; assumption); kfin H1 H2.
  - destruct child; simpl; split; assumption.
  - destruct child; simpl; try (split; assumption). kfin H1 H2.
  - destruct run as [| | | | | | | |[|]]; simpl; try (split; assumption). kfin H1 H2.
  - destruct run as [| | | | | | | |[|]]; simpl; try (split; assumption). destruct sub; simpl; try (split; assumption).
    destruct (restarted || wdone); simpl; try (split; assumption). unfold W; simpl. destruct dir; simpl; split; assumption.
  - destruct indexed; simpl; split; assumption.
  - unfold step_cancel; simpl. destruct (nth_error cancels i) as [[kind pc]|]; simpl; try (split; assumption).
    destruct pc; simpl; try (split; assumption).
    + destruct (launching sub); simpl; try (split; assumption). destruct pidset; simpl; split; assumption.
    + destruct run as [| | | | | | | |[|]]; simpl; try (split; assumption); kfin H1 H2.
    + destruct restarted; simpl; try (split; assumption). destruct run; simpl; split; assumption.
    + unfold W; simpl. destruct dir; simpl; split; assumption.
  - destruct (dir && indexed); simpl; try (split; assumption). kfin H1 H2.
  - destruct dload as [s|]; simpl; try (split; assumption). destruct (s =? Pending); simpl; try (split; assumption).
    unfold W; simpl. destruct dir; simpl; split; assumption.
Qed.

Lemma child_run p sched : forall w, child_ok w -> child_ok (run p sched w).
Proof.
  unfold run. induction sched as [|a s IH]; intros w H; simpl; auto. apply IH. now apply child_step.
Qed.

Lemma gone_step_run p a w : child_ok w -> gone (w_run w) = true -> gone (w_run (step p a w)) = true.
Proof.
  unfold child_ok.
  destruct w as [file pidset out sub run child sig wdone cancels restarted dload dir indexed log]; simpl.
  intros (_ & H2).
  destruct run as [| | | | | | | |b]; simpl; try discriminate. intros _.
  destruct a; simpl; auto.
  - destruct sub; try (specialize (H2 eq_refl); discriminate); try destruct fail; simpl; unfold W; simpl; destruct dir; simpl; auto.
  - destruct child; simpl; auto.
  - destruct child; simpl; auto.
  - destruct b; simpl; auto.
  - destruct b; simpl; auto. destruct sub; simpl; auto.
    destruct (restarted || wdone); simpl; auto. unfold W; simpl. destruct dir; simpl; auto.
  - destruct indexed; simpl; auto.
  - unfold step_cancel; simpl. destruct (nth_error cancels i) as [[kind pc]|]; simpl; auto.
    destruct pc; simpl; auto.
    + destruct (launching sub); simpl; auto. destruct pidset; simpl; auto.
    + destruct b; simpl; auto.
    + destruct restarted; simpl; auto.
    + unfold W; simpl. destruct dir; simpl; auto.
  - destruct (dir && indexed); simpl; auto.
  - destruct dload as [s|]; simpl; auto. destruct (s =? Pending); simpl; auto. unfold W; simpl. destruct dir; simpl; auto.
Qed.

Lemma gone_run p sched : forall w, child_ok w -> gone (w_run w) = true -> gone (w_run (run p sched w)) = true.
Proof.
  unfold run. induction sched as [|a s IH]; intros w Hk H; simpl; auto.
  apply IH; [now apply child_step|now apply gone_step_run].
Qed.

(* whenever the runner process is gone, the unit's command is not running - every schedule,
   restarts included: the runner never exits while its command lives (SIGINT, then SIGKILL) *)
Theorem runner_gone_command_gone p sched :
  gone (w_run (run p sched world0)) = true -> w_child (run p sched world0) <> CRun.
Proof.
  intros Hg E.
  assert (H : child_ok (run p sched world0)) by (apply child_run; split; intro A; [discriminate|reflexivity]).
  destruct H as (H & _). destruct (H E) as [A|[A|A]]; rewrite A in Hg; discriminate.
Qed.

(* Cancel (without daemon restart) records Canceled and answers only when the runner is gone, hence
   the command too - and neither ever comes back *)
Theorem cancel_stops_process sched i c : no_restart sched = true ->
  nth_error (w_cancels (run false sched world0)) i = Some c -> k_pc c = CWrite ->
  forall sched', let w' := run false sched' (run false sched world0) in
  gone (w_run w') = true /\ w_child w' <> CRun.
Proof.
  intros Hn Hi Hpc sched' w'.
  pose proof (i_canc _ (run_sinv sched world0 Hn sinv0)) as Hc.
  rewrite Forall_forall in Hc. specialize (Hc c (nth_error_In _ _ Hi)).
  unfold canc_ok in Hc. rewrite Hpc in Hc.
  assert (Hg : gone (w_run w') = true).
  { apply gone_run; [|exact Hc]. apply child_run. split; intro A; [discriminate|reflexivity]. }
  split; auto.
  unfold w', run in *. rewrite <- fold_left_app in *.
  apply (runner_gone_command_gone false (sched ++ sched')). exact Hg.
Qed.

(* the command that ignores SIGINT: the runner escalates, and only then exits *)
Example ignoring_command_is_killed :
  let w := run false (submit5 ++ [ARunner 0; ARunner 0; ACancelNew 0; ACancel 0%nat; ACancel 0%nat;
                                  ARunner 2; ARunner 1; ACancel 0%nat]) world0 in
  w_run w = REscalate /\ w_child w = CRun /\
  nth_error (w_cancels w) 0 = Some (mkCanc 0 CWait) /\
  let w2 := run false [ARunner 0; ACancel 0%nat; ACancel 0%nat] w in
  w_run w2 = RGone false /\ w_child w2 = CDone false /\ st (w_file w2) = Canceled.
Proof. vm_compute. repeat split; reflexivity. Qed.

Lemma set_nth_nonempty {A} i (x : A) l : l <> [] -> set_nth i x l <> [].
Proof. destruct l, i; simpl; congruence. Qed.

(* a unit that has been cancelled before its runner was launched is never launched (no restart) *)
Lemma rnone_stays p a w : is_restart a = false ->
  w_run w = RNone -> w_cancels w <> [] ->
  w_run (step p a w) = RNone /\ w_cancels (step p a w) <> [].
Proof.
  destruct w as [file pidset out sub run child sig wdone cancels restarted dload dir indexed log]; simpl.
  intros Ha -> Hc. destruct a; try discriminate; simpl.
  - destruct sub; try destruct fail; simpl; unfold W, ctx_cancelled; simpl; try destruct dir; simpl; auto;
      destruct cancels; simpl; auto; congruence.
  - auto.
  - destruct child; simpl; auto.
  - destruct child; simpl; auto.
  - auto.
  - auto.
  - destruct indexed; simpl; auto. split; auto. destruct cancels; simpl; congruence.
  - unfold step_cancel; simpl. destruct (nth_error cancels i) as [[kind pc]|]; simpl; auto.
    destruct pc; simpl; auto; try (split; auto; apply set_nth_nonempty; auto; fail).
    + destruct (launching sub); simpl; auto. destruct pidset; simpl; split; auto; apply set_nth_nonempty; auto.
    + destruct restarted; simpl; split; auto; apply set_nth_nonempty; auto.
    + unfold W; simpl. destruct dir; simpl; split; auto; apply set_nth_nonempty; auto.
Qed.

Lemma rnone_run p sched : forall w, no_restart sched = true ->
  w_run w = RNone -> w_cancels w <> [] -> w_run (run p sched w) = RNone.
Proof.
  unfold run, no_restart. induction sched as [|a s IH]; intros w Hn Hr Hc; simpl; auto.
  simpl in Hn. apply andb_true_iff in Hn as (Ha & Hs).
  assert (Ha' : is_restart a = false) by (destruct (is_restart a); auto; discriminate).
  destruct (rnone_stays p a w Ha' Hr Hc). apply IH; auto.
Qed.

(* EVERY Cancel / Release that has done its part (no daemon restart) leaves the unit without a
   runner, for good: either no runner was ever launched and none will be, or it is gone - and so is
   the command *)
Theorem cancel_always_stops_process sched i c : no_restart sched = true ->
  nth_error (w_cancels (run false sched world0)) i = Some c ->
  (k_pc c = CRmDir \/ k_pc c = CDelIdx \/ k_pc c = CEnd) ->
  forall sched', no_restart sched' = true ->
  let w' := run false sched' (run false sched world0) in
  (w_run w' = RNone \/ gone (w_run w') = true) /\ w_child w' <> CRun.
Proof.
  intros Hn Hi Hpc sched' Hn' w'.
  pose proof (i_canc _ (run_sinv sched world0 Hn sinv0)) as Hc.
  rewrite Forall_forall in Hc. specialize (Hc c (nth_error_In _ _ Hi)).
  unfold canc_ok in Hc.
  assert (Hst : w_run (run false sched world0) = RNone \/ gone (w_run (run false sched world0)) = true)
    by (destruct Hpc as [E|[E|E]]; rewrite E in Hc; exact Hc).
  assert (Hk : child_ok (run false sched world0)) by (apply child_run; split; intro A; [discriminate|reflexivity]).
  assert (Hk' : child_ok w') by (apply child_run; exact Hk).
  assert (Hne : w_cancels (run false sched world0) <> []) by (intro E; rewrite E in Hi; destruct i; discriminate).
  assert (Hfin : w_run w' = RNone \/ gone (w_run w') = true).
  { destruct Hst as [E|E]; [left; apply rnone_run; auto|right; apply gone_run; auto]. }
  split; auto. intro Ec. destruct Hk' as (Hk1 & _). destruct (Hk1 Ec) as [A|[A|A]]; rewrite A in Hfin; destruct Hfin; discriminate.
Qed.

(* ---------- a remote unit cancelled before it was started is never submitted ---------- *)

Lemma rem_cancelled_step a r :
  r_cancelled r = true -> r_started r = false -> r_job r = false ->
  r_cancelled (rem_step true a r) = true /\ r_started (rem_step true a r) = false /\ r_job (rem_step true a r) = false.
Proof.
  destruct r as [j re s c st]; simpl. intros -> -> ->. destruct a; simpl; auto.
Qed.

Lemma rem_cancelled_run acts : forall r,
  r_cancelled r = true -> r_started r = false -> r_job r = false ->
  r_started (rem_run true acts r) = false /\ r_job (rem_run true acts r) = false.
Proof.
  unfold rem_run. induction acts as [|a l IH]; intros r H1 H2 H3; simpl; auto.
  destruct (rem_cancelled_step a r H1 H2 H3) as (A & B & C). apply IH; auto.
Qed.

(* after a Cancel or Release of a unit whose remote work had not started, no later step submits it:
   whatever happens afterwards (the node becomes reachable, further cancels, releases) *)
Theorem remote_cancel_stops_job a before after :
  a = RmCancel \/ a = RmRelease ->
  r_started (rem_run true before rem0) = false ->
  let r := rem_run true after (rem_step true a (rem_run true before rem0)) in
  r_started r = false /\ r_job r = false.
Proof.
  intros Ha Hs r. apply rem_cancelled_run.
  - destruct Ha as [-> | ->]; simpl; rewrite Hs; reflexivity.
  - destruct Ha as [-> | ->]; simpl; rewrite Hs; reflexivity.
  - destruct Ha as [-> | ->]; simpl; rewrite Hs; reflexivity.
Qed.

(* a Cancel that leaves the job alone (seeded mutation): the node comes back and the cancelled unit
   is submitted, while its record says Failed *)
Theorem remote_cancel_without_stopping_refuted :
  let r := rem_run false [RmCancel; RmReach true; RmTry] rem0 in
  r_cancelled r = true /\ r_state r = Failed /\ r_started r = true.
Proof. vm_compute. auto. Qed.
