(* Proofs/Route.v — soundness of the certificate checker [route_check] of Model/Route.v against
   the specification (weights of walks): a cost map and routing table accepted by the checker
   ARE the least costs and least-cost next hops; and next hops of nodes whose tables are all
   accepted for the same topology never loop. *)
From Coq Require Import ZArith Lia ZifyN ZifyNat ZifyBool.
From Receptor Require Import Model.Route.
Open Scope N_scope.

(* ---------- association lists ---------- *)
Lemma aget_In {V} (m : amap V) k v : aget k m = Some v -> In (k, v) m.
Proof.
  induction m as [|[k' v'] r IH]; simpl; [discriminate|].
  destruct (k' =? k) eqn:E; [intro H; inversion H; apply N.eqb_eq in E; subst; now left|].
  intro H. right. now apply IH.
Qed.

Lemma sorted_from_lb {V} (m : amap V) : forall lo k v,
  sorted_from (Some lo) m = true -> In (k, v) m -> lo < k.
Proof.
  induction m as [|[k' v'] r IH]; intros lo k v Hs Hin; [destruct Hin|].
  simpl in Hs. apply andb_true_iff in Hs as [H1 H2].
  destruct Hin as [E|Hin]; [inversion E; subst; lia|].
  specialize (IH k' k v H2 Hin). lia.
Qed.

Lemma sorted_In_aget {V} (m : amap V) : forall lo k v,
  sorted_from lo m = true -> In (k, v) m -> aget k m = Some v.
Proof.
  induction m as [|[k' v'] r IH]; intros lo k v Hs Hin; [destruct Hin|].
  simpl in Hs. apply andb_true_iff in Hs as [H1 H2]. simpl.
  destruct Hin as [E|Hin].
  - inversion E; subst. now rewrite N.eqb_refl.
  - pose proof (sorted_from_lb r k' k v H2 Hin).
    destruct (k' =? k) eqn:E; [lia|]. eapply IH; eauto.
Qed.

Lemma amem_aget {V} (m : amap V) k : amem k m = true <-> exists v, aget k m = Some v.
Proof.
  unfold amem. destruct (aget k m) as [v|]; split; intro H; eauto; try discriminate.
  destruct H as [v H]. discriminate.
Qed.

(* ---------- edges and walks ---------- *)
Lemma edge_keys g u v w : edge g u v = Some w -> is_key g u = true /\ is_key g v = true.
Proof.
  unfold edge, is_key. destruct (aget u g) as [adj|] eqn:E; [|discriminate].
  destruct (amem v g) eqn:Ev; [|discriminate]. intros _. split; [|reflexivity].
  apply amem_aget. eauto.
Qed.

Lemma walk_app g s u v c1 c2 : walk g s u c1 -> walk g u v c2 -> walk g s v (c1 + c2).
Proof.
  intros H1 H2. induction H2 as [|x y c w H2 IH He].
  - now rewrite N.add_0_r.
  - rewrite N.add_assoc. eapply walk_snoc; eauto.
Qed.

Lemma walk_edge g u v w : edge g u v = Some w -> walk g u v w.
Proof. intro H. rewrite <- (N.add_0_l w). eapply walk_snoc; [apply walk_nil|exact H]. Qed.

Lemma is_dist_unique g s v c1 c2 : is_dist g s v c1 -> is_dist g s v c2 -> c1 = c2.
Proof. intros [W1 M1] [W2 M2]. specialize (M1 _ W2). specialize (M2 _ W1). lia. Qed.

(* ---------- what the boolean checker establishes ---------- *)
Record cert (g : graph) (self : node) (cs : costs) : Prop := {
  cert_self : forall c, is_key g self = true -> cost_of cs self = Some c -> c = 0;
  cert_self_reached : is_key g self = true -> cost_of cs self <> None;
  cert_tight : forall v c, is_key g v = true -> v <> self -> cost_of cs v = Some c ->
                 exists p w cp, edge g p v = Some w /\ cost_of cs p = Some cp /\ cp + w = c;
  cert_edges : forall u v w cu, edge g u v = Some w -> cost_of cs u = Some cu ->
                 exists cv, cost_of cs v = Some cv /\ cv <= cu + w
}.

Lemma has_tight_pred_spec g0 cs v c : forall g,
  has_tight_pred g0 g cs v c = true ->
  exists p w cp, edge g0 p v = Some w /\ cost_of cs p = Some cp /\ cp + w = c.
Proof.
  induction g as [|[p adj] r IH]; simpl; [discriminate|].
  intro H. apply orb_true_iff in H as [H|H]; [|now apply IH].
  destruct (edge g0 p v) as [w|] eqn:E; [|discriminate].
  destruct (cost_of cs p) as [cp|] eqn:Ec; [|discriminate].
  exists p, w, cp. repeat split; auto. lia.
Qed.

Lemma edges_ok_spec g0 cs u cu : forall adj,
  edges_ok g0 cs u cu adj = true ->
  forall v w, In (v, w) adj -> is_key g0 v = true ->
  exists cv, cost_of cs v = Some cv /\ cv <= cu + w.
Proof.
  induction adj as [|[y wy] r IH]; simpl; intros H v w Hin Hk; [destruct Hin|].
  apply andb_true_iff in H as [H1 H2].
  destruct Hin as [E|Hin]; [|eapply IH; eauto].
  inversion E; subst. rewrite Hk in H1.
  destruct (cost_of cs v) as [cv|]; [|discriminate]. exists cv. split; [reflexivity|lia].
Qed.

Lemma costs_ok_cert g self cs : costs_ok g self cs = true -> cert g self cs.
Proof.
  unfold costs_ok. rewrite !andb_true_iff. intros [[_ _] H]. rewrite forallb_forall in H.
  assert (Hkey : forall v, is_key g v = true -> exists adj, In (v, adj) g /\ aget v g = Some adj).
  { intros v Hk. apply amem_aget in Hk as [adj Ha]. exists adj. split; [now apply aget_In|exact Ha]. }
  constructor.
  - intros c Hk Hc. destruct (Hkey self Hk) as [adj [Hin _]]. specialize (H _ Hin). cbn [fst snd] in H.
    rewrite Hc, N.eqb_refl in H. apply andb_true_iff in H as [H _]. lia.
  - intros Hk Hc. destruct (Hkey self Hk) as [adj [Hin _]]. specialize (H _ Hin). cbn [fst snd] in H.
    rewrite Hc, N.eqb_refl in H. discriminate.
  - intros v c Hk Hne Hc. destruct (Hkey v Hk) as [adj [Hin _]]. specialize (H _ Hin). cbn [fst snd] in H.
    rewrite Hc in H. destruct (v =? self) eqn:E; [lia|].
    apply andb_true_iff in H as [H _]. now apply has_tight_pred_spec in H.
  - intros u v w cu He Hc. destruct (edge_keys _ _ _ _ He) as [Hku Hkv].
    unfold edge in He. destruct (aget u g) as [adj|] eqn:Ea; [|discriminate].
    rewrite Hkv in He. pose proof (aget_In _ _ _ Ea) as Hin. specialize (H _ Hin). cbn [fst snd] in H.
    rewrite Hc in H. apply andb_true_iff in H as [_ H].
    eapply edges_ok_spec; eauto. now apply aget_In.
Qed.

(* ---------- soundness of the cost map ---------- *)
Section Sound.
Variables (g : graph) (self : node) (cs : costs).
Hypothesis Hpos : positive g.
Hypothesis Hcert : cert g self cs.

(* every walk from self is at least as heavy as the reported cost of its end point *)
Lemma cost_lower_bound v c' : walk g self v c' -> is_key g v = true ->
  exists cv, cost_of cs v = Some cv /\ cv <= c'.
Proof.
  intro W. induction W as [|u v c w W IH He]; intro Hk.
  - destruct (cost_of cs self) as [c|] eqn:E.
    + exists c. split; [reflexivity|]. rewrite (cert_self _ _ _ Hcert c Hk E). lia.
    + exfalso. now apply (cert_self_reached _ _ _ Hcert Hk).
  - destruct (edge_keys _ _ _ _ He) as [Hku _].
    destruct (IH Hku) as [cu [Hcu Hle]].
    destruct (cert_edges _ _ _ Hcert u v w cu He Hcu) as [cv [Hcv Hle2]].
    exists cv. split; [exact Hcv|lia].
Qed.

(* every reported cost is the weight of a real walk *)
Lemma cost_is_walk : forall c v, is_key g v = true -> cost_of cs v = Some c -> walk g self v c.
Proof.
  intro c. induction c as [c IH] using (well_founded_induction N.lt_wf_0). intros v Hk Hc.
  destruct (N.eq_dec v self) as [->|Hne].
  - rewrite (cert_self _ _ _ Hcert c Hk Hc). apply walk_nil.
  - destruct (cert_tight _ _ _ Hcert v c Hk Hne Hc) as [p [w [cp [He [Hcp Hsum]]]]].
    pose proof (Hpos _ _ _ He) as Hw. destruct (edge_keys _ _ _ _ He) as [Hkp _].
    rewrite <- Hsum. eapply walk_snoc; [|exact He]. apply IH; [lia|exact Hkp|exact Hcp].
Qed.

Theorem costs_sound v : is_key g v = true ->
  (forall c, cost_of cs v = Some c -> is_dist g self v c) /\
  (cost_of cs v = None -> unreachable g self v).
Proof.
  intro Hk. split.
  - intros c Hc. split; [now apply cost_is_walk|].
    intros c' W. destruct (cost_lower_bound v c' W Hk) as [cv [Hcv Hle]]. congruence.
  - intros Hn c W. destruct (cost_lower_bound v c W Hk) as [cv [Hcv _]]. congruence.
Qed.
End Sound.

(* ---------- next hops ---------- *)
Lemma fold_sadd_In (l : list node) : forall acc y,
  In y (fold_left (fun a x => sadd x a) l acc) <-> In y acc \/ In y l.
Proof.
  induction l as [|x r IH]; intros acc y; simpl; [tauto|].
  rewrite IH, sadd_In. split; intros H; intuition (subst; auto).
Qed.

Section Hops.
Variables (g : graph) (self : node) (cs : costs).
Hypothesis Hwf : graph_wf g = true.

Lemma adj_In_edge x adj y w : aget x g = Some adj -> In (y, w) adj -> is_key g y = true ->
  edge g x y = Some w.
Proof.
  intros Ha Hin Hk. unfold edge. rewrite Ha, Hk.
  unfold graph_wf in Hwf. apply andb_true_iff in Hwf as [_ H]. rewrite forallb_forall in H.
  specialize (H _ (aget_In _ _ _ Ha)). cbn [snd] in H. eapply sorted_In_aget; eauto.
Qed.

(* a tight successor: an edge x -> y with cost y = cost x + w *)
Lemma tight_succs_spec x y : In y (tight_succs g cs x) ->
  exists w cx, edge g x y = Some w /\ cost_of cs x = Some cx /\ cost_of cs y = Some (cx + w).
Proof.
  unfold tight_succs. destruct (aget x g) as [adj|] eqn:Ea; [|intros []].
  destruct (cost_of cs x) as [cx|] eqn:Ec; [|intros []].
  rewrite in_flat_map. intros [[y' w] [Hin Hy]]. cbn [fst snd] in Hy.
  destruct (cost_of cs y') as [cy|] eqn:Ey; [|destruct Hy].
  destruct (is_key g y' && (cx + w =? cy)) eqn:Eb; [|destruct Hy].
  destruct Hy as [<-|[]]. apply andb_true_iff in Eb as [Hk Heq].
  exists w, cx. repeat split; auto; [eapply adj_In_edge; eauto|]. rewrite Ey. f_equal. lia.
Qed.

(* everything the search reaches lies on a tight walk from h *)
Definition tight_from (h : node) (ch : N) (x : node) : Prop :=
  exists c2, walk g h x c2 /\ cost_of cs x = Some (ch + c2).

Lemma tight_reach_sound h ch : forall fuel from d,
  (forall x, In x from -> tight_from h ch x) ->
  tight_reach fuel g cs from d = true -> tight_from h ch d.
Proof.
  induction fuel as [|f IH]; intros from d Hfrom H; simpl in H.
  - apply orb_true_iff in H as [H|H]; [|discriminate]. apply Hfrom. now apply mem_N_In.
  - apply orb_true_iff in H as [H|H]; [apply Hfrom; now apply mem_N_In|].
    eapply IH; [|exact H]. intros x Hx. apply fold_sadd_In in Hx as [Hx|Hx]; [now apply Hfrom|].
    apply in_flat_map in Hx as [x0 [Hx0 Hs]]. destruct (Hfrom x0 Hx0) as [c2 [W Hc]].
    destruct (tight_succs_spec _ _ Hs) as [w [cx [He [Hcx Hcy]]]].
    rewrite Hc in Hcx. inversion Hcx; subst cx.
    exists (c2 + w). split; [eapply walk_snoc; eauto|]. rewrite Hcy. f_equal. lia.
Qed.

Lemma hop_ok_sound d h : hop_ok g self cs d h = true ->
  exists w c2, edge g self h = Some w /\ walk g h d c2 /\ cost_of cs d = Some (w + c2).
Proof.
  unfold hop_ok. destruct (edge g self h) as [w|] eqn:He; [|discriminate].
  destruct (cost_of cs h) as [ch|] eqn:Ec; [|discriminate].
  intro H. apply andb_true_iff in H as [H1 H2]. apply N.eqb_eq in H1. subst ch.
  assert (Hb : forall x, In x [h] -> tight_from h w x).
  { intros x [<-|[]]. exists 0. split; [apply walk_nil|]. rewrite Ec. f_equal. lia. }
  destruct (tight_reach_sound h w _ _ _ Hb H2) as [c2 [W Hc]]. eauto.
Qed.
End Hops.

(* THE CHECKER IS SOUND: what it accepts is exactly the reachable nodes, each with its least
   cost and a directly connected next hop on a least-cost path; unreachable nodes are absent. *)
Theorem route_check_sound g self cs t :
  graph_wf g = true -> all_pos g = true -> route_check g self cs t = true ->
  forall d, is_key g d = true ->
    (forall c, cost_of cs d = Some c -> is_dist g self d c) /\
    (cost_of cs d = None -> unreachable g self d /\ aget d t = None) /\
    (forall h, aget d t = Some h ->
       d <> self /\
       exists w c2, edge g self h = Some w /\ walk g h d c2 /\ is_dist g self d (w + c2)) /\
    (aget d t = None -> d = self \/ unreachable g self d).
Proof.
  intros Hwf Hp H d Hk. unfold route_check in H. apply andb_true_iff in H as [Hc Ht].
  assert (Hpos : positive g).
  { clear - Hp. intros u v w He. unfold edge in He.
    destruct (aget u g) as [adj|] eqn:Ea; [|discriminate]. destruct (is_key g v); [|discriminate].
    apply aget_In in Ea. apply aget_In in He.
    assert (Ha : all_pos_adj adj = true).
    { revert Ea Hp. clear. induction g as [|[k a] r IH]; simpl; [tauto|].
      intros [E|E] H; apply andb_true_iff in H as [H1 H2]; [inversion E; subst; exact H1|auto]. }
    revert He Ha. clear. induction adj as [|[k c] r IH]; simpl; [tauto|].
    intros [E|E] H; apply andb_true_iff in H as [H1 H2]; [inversion E; subst; lia|auto]. }
  pose proof (costs_ok_cert _ _ _ Hc) as Hcert.
  destruct (costs_sound g self cs Hpos Hcert d Hk) as [S1 S2].
  unfold table_ok in Ht. apply andb_true_iff in Ht as [Ht _]. rewrite forallb_forall in Ht.
  apply amem_aget in Hk as [adj Ha]. specialize (Ht _ (aget_In _ _ _ Ha)). cbn [fst] in Ht.
  split; [exact S1|]. split; [|split].
  - intro Hn. split; [now apply S2|]. rewrite Hn in Ht. destruct (aget d t); [discriminate|reflexivity].
  - intros h Hh. rewrite Hh in Ht. destruct (cost_of cs d) as [c|] eqn:Ecd; [|discriminate].
    apply andb_true_iff in Ht as [Hne Hhop]. split; [lia|].
    destruct (hop_ok_sound g self cs Hwf d h Hhop) as [w [c2 [He [W Hcd]]]].
    exists w, c2. split; [exact He|]. split; [exact W|]. rewrite Ecd in Hcd. inversion Hcd; subst. now apply S1.
  - intro Hn. rewrite Hn in Ht. destruct (cost_of cs d) as [c|] eqn:Ecd.
    + left. lia.
    + right. now apply S2.
Qed.

(* ---------- loop freedom across the mesh ---------- *)
(* every node u has a table accepted by the checker for the SAME topology g *)
Section Mesh.
Variable g : graph.
Variable cs_of : node -> costs.
Variable t_of : node -> table.
Hypothesis Hwf : graph_wf g = true.
Hypothesis Hp : all_pos g = true.
Hypothesis Hall : forall u, is_key g u = true -> route_check g u (cs_of u) (t_of u) = true.

Lemma positive_g : positive g.
Proof.
  intros u v w He. unfold edge in He.
  destruct (aget u g) as [adj|] eqn:Ea; [|discriminate]. destruct (is_key g v); [|discriminate].
  apply aget_In in Ea. apply aget_In in He.
  assert (Ha : all_pos_adj adj = true).
  { revert Ea Hp. clear. induction g as [|[k a] r IH]; simpl; [tauto|].
    intros [E|E] H; apply andb_true_iff in H as [H1 H2]; [inversion E; subst; exact H1|auto]. }
  revert He Ha. clear. induction adj as [|[k c] r IH]; simpl; [tauto|].
  intros [E|E] H; apply andb_true_iff in H as [H1 H2]; [inversion E; subst; lia|auto].
Qed.

(* one hop: from u <> d at distance c the table names a neighbour h strictly closer to d *)
Lemma next_hop_closer u d c : is_key g u = true -> is_key g d = true -> u <> d ->
  is_dist g u d c ->
  exists h w c2, aget d (t_of u) = Some h /\ edge g u h = Some w /\ 0 < w /\
                 is_dist g h d c2 /\ c = w + c2.
Proof.
  intros Hku Hkd Hne Hd.
  destruct (route_check_sound g u (cs_of u) (t_of u) Hwf Hp (Hall u Hku) d Hkd) as [S1 [S2 [S3 S4]]].
  destruct (aget d (t_of u)) as [h|] eqn:Eh.
  - destruct (S3 h eq_refl) as [_ [w [c2 [He [W Hdist]]]]].
    assert (c = w + c2) by (eapply is_dist_unique; eauto). subst c.
    exists h, w, c2. repeat split; auto; [eapply positive_g; eauto|].
    intros c' W'. destruct Hd as [_ Hmin].
    specialize (Hmin (w + c') (walk_app _ _ _ _ _ _ (walk_edge _ _ _ _ He) W')). lia.
  - exfalso. destruct (S4 eq_refl) as [E|Hun]; [congruence|]. destruct Hd as [W _]. exact (Hun _ W).
Qed.

(* following next hops from u towards d: the list of nodes visited after u *)
Inductive follows (d : node) : node -> list node -> Prop :=
| follows_here : follows d d []
| follows_hop u h l : u <> d -> aget d (t_of u) = Some h -> follows d h l -> follows d u (h :: l).

Lemma follows_functional d u l1 : follows d u l1 -> forall l2, follows d u l2 -> l1 = l2.
Proof.
  intro H1. induction H1 as [|u h l Hne Hh Hf IH]; intros l2 H2.
  - inversion H2 as [|u' h' l' Hne' Hh' Hf' E]; subst; [reflexivity|congruence].
  - inversion H2 as [|u' h' l' Hne' Hh' Hf' E]; subst; [congruence|].
    rewrite Hh in Hh'. inversion Hh'; subst h'. f_equal. now apply IH.
Qed.

(* LOOP FREEDOM: from every node u that can reach d, following the next hops of the (possibly
   differently tie-broken) tables reaches d; the distance to d strictly decreases at every hop,
   hence no node is visited twice. *)
Theorem next_hops_reach_without_loop : forall c u d,
  is_key g u = true -> is_key g d = true -> is_dist g u d c ->
  exists l, follows d u l /\
            (forall x, In x l -> exists cx, is_dist g x d cx /\ cx < c \/ (x = d /\ c = c)) /\
            (forall x, In x l -> exists cx, is_dist g x d cx /\ (u <> d -> cx < c)).
Proof.
  intro c. induction c as [c IH] using (well_founded_induction N.lt_wf_0). intros u d Hku Hkd Hd.
  destruct (N.eq_dec u d) as [->|Hne].
  - exists []. split; [constructor|]. split; intros x [].
  - destruct (next_hop_closer u d c Hku Hkd Hne Hd) as [h [w [c2 [Hh [He [Hw [Hd2 Hc]]]]]]].
    destruct (edge_keys _ _ _ _ He) as [_ Hkh].
    destruct (IH c2 ltac:(lia) h d Hkh Hkd Hd2) as [l [Hf [_ Hl]]].
    exists (h :: l). split; [econstructor; eauto|]. split.
    + intros x [<-|Hx].
      * exists c2. left. split; [exact Hd2|lia].
      * destruct (Hl x Hx) as [cx [Hcx Hlt]]. exists cx. left. split; [exact Hcx|].
        destruct (N.eq_dec h d) as [->|Hhd].
        -- inversion Hf; subst; [destruct Hx|congruence].
        -- specialize (Hlt Hhd). lia.
    + intros x [<-|Hx].
      * exists c2. split; [exact Hd2|intros _; lia].
      * destruct (Hl x Hx) as [cx [Hcx Hlt]]. exists cx. split; [exact Hcx|]. intros _.
        destruct (N.eq_dec h d) as [->|Hhd].
        -- inversion Hf; subst; [destruct Hx|congruence].
        -- specialize (Hlt Hhd). lia.
Qed.

(* no node twice: u itself is not revisited, and the visited nodes are pairwise distinct *)
Theorem next_hops_no_repeat : forall c u d l,
  is_key g u = true -> is_key g d = true -> is_dist g u d c -> follows d u l -> NoDup (u :: l).
Proof.
  intro c. induction c as [c IH] using (well_founded_induction N.lt_wf_0). intros u d l Hku Hkd Hd Hf.
  inversion Hf as [|u' h l' Hne Hh Hf' E1]; subst.
  - constructor; [intros []|constructor].
  - destruct (next_hop_closer u d c Hku Hkd Hne Hd) as [h' [w [c2 [Hh' [He [Hw [Hd2 Hc]]]]]]].
    rewrite Hh in Hh'. inversion Hh'; subst h'.
    destruct (edge_keys _ _ _ _ He) as [_ Hkh].
    pose proof (IH c2 ltac:(lia) h d l' Hkh Hkd Hd2 Hf') as Hnd.
    constructor; [|exact Hnd].
    (* u cannot reappear: everything after it is strictly closer to d *)
    intro Hin.
    destruct (next_hops_reach_without_loop c2 h d Hkh Hkd Hd2) as [l2 [Hf2 [_ Hl2]]].
    assert (l2 = l') by (eapply follows_functional; eauto).
    subst l2.
    destruct Hin as [E|Hin].
    + subst h. pose proof (is_dist_unique _ _ _ _ _ Hd Hd2). lia.
    + destruct (Hl2 u Hin) as [cx [Hcx Hlt]].
      pose proof (is_dist_unique _ _ _ _ _ Hd Hcx). subst cx.
      destruct (N.eq_dec h d) as [->|Hhd]; [inversion Hf'; subst; [destruct Hin|congruence]|].
      specialize (Hlt Hhd). lia.
Qed.
End Mesh.
