(* Proofs/Flood.v — C06: routing knowledge never regresses; updates are applied and relayed at
   most once, never back; self-origin updates are never accepted. *)
From Coq Require Import ZArith Lia ZifyN ZifyNat ZifyBool.
From Receptor Require Import Model.Flood.
Open Scope N_scope.

(* ---------- order on stored pairs ---------- *)

Definition pair_le (a b : option (N * N)) : bool :=
  match a, b with
  | None, _ => true
  | Some _, None => false
  | Some x, Some y => lex_le x y
  end.

Lemma lex_le_refl p : lex_le p p = true.
Proof. destruct p; unfold lex_le; simpl. lia. Qed.

Lemma lex_le_trans a b c : lex_le a b = true -> lex_le b c = true -> lex_le a c = true.
Proof. destruct a, b, c; unfold lex_le; simpl. lia. Qed.

Lemma lex_not_le_lt a b : lex_le a b = false -> lex_le b a = true.
Proof. destruct a, b; unfold lex_le; simpl. lia. Qed.

Lemma pair_le_refl a : pair_le a a = true.
Proof. destruct a; simpl; [apply lex_le_refl|reflexivity]. Qed.

Lemma pair_le_trans a b c : pair_le a b = true -> pair_le b c = true -> pair_le a c = true.
Proof.
  destruct a, b, c; simpl; try discriminate; try reflexivity. apply lex_le_trans.
Qed.

Definition info_of (st : nstate) (o : node) := aget o (ns_info st).

(* ---------- sets ---------- *)

Lemma mem_sadd_same x l : mem_N x (sadd x l) = true.
Proof. apply mem_N_In, sadd_In. now left. Qed.

Lemma mem_sadd_mono x y l : mem_N x l = true -> mem_N x (sadd y l) = true.
Proof. rewrite !mem_N_In, sadd_In. now right. Qed.

(* ---------- relays ---------- *)

Definition is_relay (a : action) : bool := match a with Relay _ _ => true | _ => false end.

Lemma relay_obs_nil_iff acts : relay_obs acts = [] <-> forall c u, ~ In (Relay c u) acts.
Proof.
  induction acts as [|a r IH]; simpl; [split; auto|].
  destruct a; simpl; split; intro H.
  - discriminate.
  - exfalso. eapply H. left. reflexivity.
  - intros c u [E|E]; [discriminate|]. now apply IH in E.
  - apply IH. intros c u E. apply (H c u). now right.
  - intros c u [E|E]; [discriminate|]. now apply IH in E.
  - apply IH. intros c u E. apply (H c u). now right.
  - intros c u [E|E]; [discriminate|]. now apply IH in E.
  - apply IH. intros c u E. apply (H c u). now right.
Qed.

Lemma relays_spec st u recv c u' :
  In (Relay c u') (relays st u recv) ->
  c <> recv /\ In c (ns_conns st) /\ u_fwd u' = ns_self st /\ u_id u' = u_id u
  /\ u_origin u' = u_origin u /\ u_epoch u' = u_epoch u /\ u_seq u' = u_seq u
  /\ u_conns u' = u_conns u /\ u_susp u' = u_susp u.
Proof.
  unfold relays. rewrite in_map_iff. intros [c' [E Hin]]. inversion E; subst; clear E.
  apply filter_In in Hin as [Hin Hne]. simpl.
  repeat split; auto. intro; subst. rewrite N.eqb_refl in Hne. discriminate.
Qed.

Lemma relays_no_relay_obs_other st u recv :
  forall a, In a (relays st u recv) -> exists c u', a = Relay c u'.
Proof.
  unfold relays. intros a. rewrite in_map_iff. intros [c [E _]]. eauto.
Qed.

Lemma in_app_relay (c : node) (u' : upd) (l1 l2 l3 : list action) :
  (forall a, In a l1 -> is_relay a = false) -> (forall a, In a l2 -> is_relay a = false) ->
  In (Relay c u') (l1 ++ l2 ++ l3) -> In (Relay c u') l3.
Proof.
  intros H1 H2 H. apply in_app_or in H as [H|H]; [apply H1 in H; discriminate|].
  apply in_app_or in H as [H|H]; [apply H2 in H; discriminate|]. exact H.
Qed.

(* every relay produced by a step: not to the sender, to a real connection, forwarder rewritten *)
Theorem relay_never_back st u recv c u' :
  In (Relay c u') (snd (handle_update st u recv)) ->
  c <> recv /\ In c (ns_conns st) /\ u_fwd u' = ns_self st /\ u_id u' = u_id u
  /\ u_origin u' = u_origin u.
Proof.
  unfold handle_update.
  destruct (u_origin u =? 0); [simpl; tauto|].
  destruct (negb (conns_pos (u_conns u))); [simpl; tauto|].
  destruct (u_origin u =? ns_self st).
  { destruct (u_epoch u =? ns_epoch st); [simpl; tauto|].
    destruct (u_susp u =? ns_epoch st); [simpl; tauto|].
    destruct (ns_epoch st <? u_epoch u); [|simpl; tauto].
    destruct (ns_conns st); simpl; [tauto|]. intros [H|[]]. discriminate. }
  destruct (mem_N (u_id u) (ns_seen st)); [simpl; tauto|].
  destruct (negb (u_susp u =? 0)).
  { simpl. intro H. apply relays_spec in H. simpl in H. tauto. }
  destruct (match aget (u_origin u) (ns_info st) with Some p => lex_le (u_epoch u, u_seq u) p | None => false end);
    [simpl; tauto|].
  cbn [snd]. intro H. apply in_app_relay in H.
  - apply relays_spec in H. simpl in H. tauto.
  - intros a Ha. destruct (negb (amem (u_origin u) (ns_info st))); simpl in Ha; [|tauto].
    destruct Ha as [<-|[]]. reflexivity.
  - intros a Ha. destruct (negb (conns_equal (u_conns u) (aget (u_origin u) (ns_known st)))); simpl in Ha; [|tauto].
    destruct Ha as [<-|[]]. reflexivity.
Qed.

(* ---------- what a step may change ---------- *)

(* the picture = knownNodeInfo + knownConnectionCosts *)
Definition same_picture (a b : nstate) : Prop := ns_info a = ns_info b /\ ns_known a = ns_known b.

(* a replayed update ID changes nothing and is not relayed *)
Theorem replayed_id_no_effect st u recv :
  mem_N (u_id u) (ns_seen st) = true ->
  same_picture (fst (handle_update st u recv)) st /\ relay_obs (snd (handle_update st u recv)) = [].
Proof.
  intro Hseen. unfold handle_update, same_picture.
  destruct (u_origin u =? 0); [simpl; auto|].
  destruct (negb (conns_pos (u_conns u))); [simpl; auto|].
  destruct (u_origin u =? ns_self st).
  { destruct (u_epoch u =? ns_epoch st); [simpl; auto|].
    destruct (u_susp u =? ns_epoch st); [simpl; auto|].
    destruct (ns_epoch st <? u_epoch u); [|simpl; auto].
    destruct (ns_conns st); simpl; auto. }
  rewrite Hseen. simpl. auto.
Qed.

(* an ordinary update older than or equal to the stored pair changes nothing, is not relayed *)
Theorem stale_update_no_effect st u recv p :
  u_susp u = 0 -> aget (u_origin u) (ns_info st) = Some p -> lex_le (u_epoch u, u_seq u) p = true ->
  same_picture (fst (handle_update st u recv)) st /\ relay_obs (snd (handle_update st u recv)) = [].
Proof.
  intros Hs Hp Hle. unfold handle_update, same_picture.
  destruct (u_origin u =? 0); [simpl; auto|].
  destruct (negb (conns_pos (u_conns u))); [simpl; auto|].
  destruct (u_origin u =? ns_self st).
  { destruct (u_epoch u =? ns_epoch st); [simpl; auto|].
    destruct (u_susp u =? ns_epoch st); [simpl; auto|].
    destruct (ns_epoch st <? u_epoch u); [|simpl; auto].
    destruct (ns_conns st); simpl; auto. }
  destruct (mem_N (u_id u) (ns_seen st)); [simpl; auto|].
  rewrite Hs. change (negb (0 =? 0)) with false. cbv iota.
  rewrite Hp, Hle. simpl. auto.
Qed.

(* an update naming the node itself never changes its picture and is never relayed; one from
   its own current run changes nothing at all *)
Theorem self_origin_never_accepted st u recv :
  u_origin u = ns_self st ->
  same_picture (fst (handle_update st u recv)) st /\ relay_obs (snd (handle_update st u recv)) = []
  /\ (u_epoch u = ns_epoch st -> handle_update st u recv = (st, [])).
Proof.
  intro Ho. unfold handle_update, same_picture. rewrite Ho.
  destruct (ns_self st =? 0); [simpl; auto|].
  destruct (negb (conns_pos (u_conns u))); [simpl; auto|].
  rewrite N.eqb_refl.
  destruct (u_epoch u =? ns_epoch st) eqn:E; [simpl; auto|].
  assert (u_epoch u <> ns_epoch st) by lia.
  destruct (u_susp u =? ns_epoch st); [simpl; intuition|].
  destruct (ns_epoch st <? u_epoch u); [|simpl; intuition].
  destruct (ns_conns st); simpl; intuition.
Qed.

(* the stored (epoch, sequence) of every origin is non-decreasing across an ordinary update *)
Theorem info_monotone_step st u recv o :
  u_susp u = 0 ->
  pair_le (info_of st o) (info_of (fst (handle_update st u recv)) o) = true.
Proof.
  intro Hs. unfold handle_update, info_of.
  destruct (u_origin u =? 0); [apply pair_le_refl|].
  destruct (negb (conns_pos (u_conns u))); [apply pair_le_refl|].
  destruct (u_origin u =? ns_self st).
  { destruct (u_epoch u =? ns_epoch st); [apply pair_le_refl|].
    destruct (u_susp u =? ns_epoch st); [apply pair_le_refl|].
    destruct (ns_epoch st <? u_epoch u); [|apply pair_le_refl].
    destruct (ns_conns st); apply pair_le_refl. }
  destruct (mem_N (u_id u) (ns_seen st)); [apply pair_le_refl|].
  rewrite Hs. change (negb (0 =? 0)) with false. cbv iota.
  destruct (aget (u_origin u) (ns_info st)) as [p|] eqn:Hp.
  - destruct (lex_le (u_epoch u, u_seq u) p) eqn:Hle; [apply pair_le_refl|].
    cbn [fst ns_info set_state].
    destruct (N.eq_dec o (u_origin u)) as [->|Hne].
    + rewrite Hp, aget_aset_same. simpl. now apply lex_not_le_lt.
    + rewrite aget_aset_other by assumption. apply pair_le_refl.
  - cbn [fst ns_info set_state].
    destruct (N.eq_dec o (u_origin u)) as [->|Hne].
    + rewrite Hp. reflexivity.
    + rewrite aget_aset_other by assumption. apply pair_le_refl.
Qed.

Lemma adel_notin {V} k (m : amap V) : amem k m = false -> adel k m = m.
Proof.
  unfold amem. induction m as [|[k' v] r IH]; simpl; [reflexivity|].
  destruct (k' =? k); [discriminate|]. intro H. f_equal. now apply IH.
Qed.

Lemma aget_prune self origin listed k c :
  aget c (prune self origin listed k) =
  match aget c k with
  | Some adj => Some (if (c =? self) || amem c listed then adj else adel origin adj)
  | None => None
  end.
Proof.
  induction k as [|[c' adj] r IH]; simpl; [reflexivity|].
  destruct (c' =? c) eqn:E; [|exact IH].
  apply N.eqb_eq in E. subst c'. reflexivity.
Qed.

(* an accepted ordinary update is recorded exactly: the stored pair is the update's, and the
   node's picture of the origin's connections is what the update lists *)
Theorem fresh_update_recorded st u recv :
  u_susp u = 0 -> u_origin u <> 0 -> conns_pos (u_conns u) = true -> u_origin u <> ns_self st ->
  mem_N (u_id u) (ns_seen st) = false ->
  pair_le (Some (u_epoch u, u_seq u)) (info_of st (u_origin u)) = false ->
  let st' := fst (handle_update st u recv) in
  info_of st' (u_origin u) = Some (u_epoch u, u_seq u)
  /\ (aget (u_origin u) (ns_known st') = Some (conns_of (u_conns u))
      \/ (u_conns u = None /\ aget (u_origin u) (ns_known st) = None /\ ns_known st' = ns_known st)
      \/ (exists a, u_conns u = Some a /\ conns_equal (Some a) (aget (u_origin u) (ns_known st)) = true
                    /\ ns_known st' = ns_known st)).
Proof.
  intros Hs H0 Hpos Hself Hseen Hnew. unfold handle_update, info_of in *.
  destruct (u_origin u =? 0) eqn:E0; [lia|]. rewrite Hpos. cbn [negb].
  destruct (u_origin u =? ns_self st) eqn:E1; [lia|].
  rewrite Hseen, Hs. change (negb (0 =? 0)) with false. cbv iota.
  assert (Hst : match aget (u_origin u) (ns_info st) with
                | Some p => lex_le (u_epoch u, u_seq u) p | None => false end = false).
  { destruct (aget (u_origin u) (ns_info st)); simpl in Hnew; auto. }
  rewrite Hst. cbn [fst ns_info ns_known set_state]. split; [apply aget_aset_same|].
  destruct (negb (conns_equal (u_conns u) (aget (u_origin u) (ns_known st)))) eqn:Ec.
  - left. rewrite aget_prune, aget_aset_same. f_equal.
    destruct ((u_origin u =? ns_self st) || amem (u_origin u) (conns_of (u_conns u))) eqn:Em; [reflexivity|].
    apply adel_notin. apply orb_false_iff in Em. tauto.
  - right. apply negb_false_iff in Ec.
    destruct (u_conns u) as [a|] eqn:Eu.
    + right. exists a. auto.
    + left. unfold conns_equal in Ec. destruct (aget (u_origin u) (ns_known st)); [discriminate|]. auto.
Qed.

(* the duplicate-node notice is the one deliberate exception to monotonicity: it rewrites the
   stored pair of its origin only when it names the stored epoch, and never touches the
   connection picture *)
Theorem notice_only_rewrites_named_epoch st u recv o :
  u_susp u <> 0 ->
  let st' := fst (handle_update st u recv) in
  ns_known st' = ns_known st /\
  (info_of st' o <> info_of st o ->
   o = u_origin u /\ exists s, info_of st o = Some (u_susp u, s)
                    /\ info_of st' o = Some (u_epoch u, u_seq u)).
Proof.
  intro Hs. unfold handle_update, info_of.
  destruct (u_origin u =? 0); [simpl; tauto|].
  destruct (negb (conns_pos (u_conns u))); [simpl; tauto|].
  destruct (u_origin u =? ns_self st).
  { destruct (u_epoch u =? ns_epoch st); [simpl; tauto|].
    destruct (u_susp u =? ns_epoch st); [simpl; tauto|].
    destruct (ns_epoch st <? u_epoch u); [|simpl; tauto].
    destruct (ns_conns st); simpl; tauto. }
  destruct (mem_N (u_id u) (ns_seen st)); [simpl; tauto|].
  destruct (u_susp u =? 0) eqn:E; [lia|]. cbn [negb]. cbv iota.
  cbn [fst ns_known ns_info set_state]. split; [reflexivity|].
  destruct (aget (u_origin u) (ns_info st)) as [[e s]|] eqn:Hp; [|tauto].
  destruct (e =? u_susp u) eqn:Ee; [|tauto].
  apply N.eqb_eq in Ee. subst e.
  destruct (N.eq_dec o (u_origin u)) as [->|Hne].
  - intros _. split; [reflexivity|]. exists s. rewrite Hp, aget_aset_same. auto.
  - rewrite aget_aset_other by assumption. tauto.
Qed.

(* ---------- histories ---------- *)

Definition ordinary (e : event) : Prop :=
  match e with Recv u _ => u_susp u = 0 | Expire _ => True | Lost _ => True end.

Lemma expire_info st id : ns_info (expire st id) = ns_info st.
Proof. reflexivity. Qed.

(* along EVERY history of ordinary updates and expiries — any order, duplication, loss — the
   stored pair of every origin only moves forward *)
Theorem flood_info_monotone h : forall st o,
  Forall ordinary h ->
  pair_le (info_of st o) (info_of (fst (run st h)) o) = true.
Proof.
  induction h as [|e r IH]; intros st o Hall; [apply pair_le_refl|].
  inversion Hall as [|? ? He Hr]; subst.
  cbn [run]. destruct (step st e) as [st' a] eqn:Es.
  specialize (IH st' o Hr). destruct (run st' r) as [st'' as_]. cbn [fst] in *.
  eapply pair_le_trans; [|exact IH].
  destruct e as [u rc|id|c]; simpl in Es.
  - pose proof (info_monotone_step st u rc o He) as H. rewrite Es in H. exact H.
  - inversion Es; subst. apply pair_le_refl.
  - inversion Es; subst. apply pair_le_refl.
Qed.

(* relays carrying update ID x in one step's actions *)
Definition relays_id (x : N) (acts : list action) : bool :=
  existsb (fun a => match a with Relay _ u => u_id u =? x | _ => false end) acts.

Definition no_expire (x : N) (e : event) : Prop :=
  match e with Expire id => id <> x | Recv _ _ => True | Lost _ => True end.

Lemma relays_id_true x acts : relays_id x acts = true -> exists c u, In (Relay c u) acts /\ u_id u = x.
Proof.
  unfold relays_id. rewrite existsb_exists. intros [a [Hin Ha]].
  destruct a; try discriminate. apply N.eqb_eq in Ha. eauto.
Qed.

(* a step that relays x had not seen x before and has seen it afterwards *)
Lemma relay_marks_seen st u recv x :
  relays_id x (snd (handle_update st u recv)) = true ->
  mem_N x (ns_seen st) = false /\ mem_N x (ns_seen (fst (handle_update st u recv))) = true.
Proof.
  intro H. apply relays_id_true in H as [c [u' [Hin Hx]]].
  pose proof (relay_never_back _ _ _ _ _ Hin) as [_ [_ [_ [Hid _]]]].
  assert (Hxu : x = u_id u) by congruence. rewrite Hxu. clear Hxu Hx Hid x.
  destruct (mem_N (u_id u) (ns_seen st)) eqn:Hseen.
  - exfalso. destruct (replayed_id_no_effect st u recv Hseen) as [_ Hn].
    rewrite relay_obs_nil_iff in Hn. exact (Hn _ _ Hin).
  - split; [reflexivity|]. revert Hin. unfold handle_update.
    destruct (u_origin u =? 0); [simpl; tauto|].
    destruct (negb (conns_pos (u_conns u))); [simpl; tauto|].
    destruct (u_origin u =? ns_self st).
    { destruct (u_epoch u =? ns_epoch st); [simpl; tauto|].
      destruct (u_susp u =? ns_epoch st); [simpl; tauto|].
      destruct (ns_epoch st <? u_epoch u); [|simpl; tauto].
      destruct (ns_conns st); simpl; [tauto|]. intros [H|[]]. discriminate. }
    rewrite Hseen.
    destruct (negb (u_susp u =? 0)); [intros _; simpl; apply mem_sadd_same|].
    destruct (match aget (u_origin u) (ns_info st) with Some p => lex_le (u_epoch u, u_seq u) p | None => false end);
      [simpl; tauto|].
    intros _. simpl. apply mem_sadd_same.
Qed.

Lemma seen_mono_step st e x :
  no_expire x e -> mem_N x (ns_seen st) = true -> mem_N x (ns_seen (fst (step st e))) = true.
Proof.
  intros Hne Hx. destruct e as [u rc|id|c]; simpl; [| |exact Hx].
  - unfold handle_update.
    destruct (u_origin u =? 0); [exact Hx|].
    destruct (negb (conns_pos (u_conns u))); [exact Hx|].
    destruct (u_origin u =? ns_self st).
    { destruct (u_epoch u =? ns_epoch st); [exact Hx|].
      destruct (u_susp u =? ns_epoch st); [exact Hx|].
      destruct (ns_epoch st <? u_epoch u); [|exact Hx].
      destruct (ns_conns st); exact Hx. }
    destruct (mem_N (u_id u) (ns_seen st)); [exact Hx|].
    destruct (negb (u_susp u =? 0)); [simpl; now apply mem_sadd_mono|].
    destruct (match aget (u_origin u) (ns_info st) with Some p => lex_le (u_epoch u, u_seq u) p | None => false end);
      simpl; now apply mem_sadd_mono.
  - simpl in Hne. apply mem_N_In. apply mem_N_In in Hx. apply filter_In. split; [exact Hx|].
    destruct (x =? id) eqn:E; [apply N.eqb_eq in E; congruence|reflexivity].
Qed.

Fixpoint count_relay_steps (x : N) (ass : list (list action)) : nat :=
  match ass with
  | [] => 0
  | a :: r => (if relays_id x a then 1 else 0) + count_relay_steps x r
  end.

Lemma seen_never_relayed h : forall st x,
  Forall (no_expire x) h -> mem_N x (ns_seen st) = true ->
  count_relay_steps x (snd (run st h)) = 0%nat.
Proof.
  induction h as [|e r IH]; intros st x Hall Hx; [reflexivity|].
  inversion Hall as [|? ? He Hr]; subst.
  cbn [run]. destruct (step st e) as [st' a] eqn:Es.
  pose proof (seen_mono_step st e x He Hx) as Hx'. rewrite Es in Hx'. cbn [fst] in Hx'.
  specialize (IH st' x Hr Hx'). destruct (run st' r) as [st'' as_]. cbn [snd] in *.
  cbn [count_relay_steps]. rewrite IH.
  destruct (relays_id x a) eqn:Er; [|reflexivity].
  destruct e as [u rc|id|c]; simpl in Es.
  - pose proof (relay_marks_seen st u rc x) as H. rewrite Es in H. cbn [fst snd] in H.
    destruct (H Er) as [Hf _]. congruence.
  - inversion Es; subst. discriminate.
  - inversion Es; subst. discriminate.
Qed.

(* between expiries of its ID, every update is relayed by a node in at most one step of ANY
   history, however often and in whatever order it is delivered *)
Theorem relay_at_most_once h : forall st x,
  Forall (no_expire x) h ->
  (count_relay_steps x (snd (run st h)) <= 1)%nat.
Proof.
  induction h as [|e r IH]; intros st x Hall; [simpl; lia|].
  inversion Hall as [|? ? He Hr]; subst.
  cbn [run]. destruct (step st e) as [st' a] eqn:Es.
  pose proof (IH st' x Hr) as IH'.
  pose proof (seen_never_relayed r st' x Hr) as Hz.
  destruct (run st' r) as [st'' as_]. cbn [snd] in *. cbn [count_relay_steps].
  destruct (relays_id x a) eqn:Er; [|lia].
  destruct e as [u rc|id|c]; simpl in Es.
  - pose proof (relay_marks_seen st u rc x) as H. rewrite Es in H. cbn [fst snd] in H.
    destruct (H Er) as [_ Ht]. rewrite (Hz Ht). lia.
  - inversion Es; subst. discriminate.
  - inversion Es; subst. discriminate.
Qed.

(* the node's own row of the connection picture (what it knows first-hand about its own links) is never
   changed by a received update, whatever the update says *)
Theorem own_row_untouched st u recv :
  aget (ns_self st) (ns_known (fst (handle_update st u recv))) = aget (ns_self st) (ns_known st).
Proof.
  unfold handle_update.
  destruct (u_origin u =? 0); [reflexivity|].
  destruct (negb (conns_pos (u_conns u))); [reflexivity|].
  destruct (u_origin u =? ns_self st) eqn:Es.
  { destruct (u_epoch u =? ns_epoch st); [reflexivity|].
    destruct (u_susp u =? ns_epoch st); [reflexivity|].
    destruct (ns_epoch st <? u_epoch u); reflexivity. }
  destruct (mem_N (u_id u) (ns_seen st)); [reflexivity|].
  destruct (negb (u_susp u =? 0)); [reflexivity|].
  destruct (match aget (u_origin u) (ns_info st) with Some p => lex_le (u_epoch u, u_seq u) p | None => false end);
    [reflexivity|].
  cbn [fst ns_known set_state].
  destruct (negb (conns_equal (u_conns u) (aget (u_origin u) (ns_known st)))); [|reflexivity].
  rewrite aget_prune. apply N.eqb_neq in Es.
  rewrite aget_aset_other by (intro E; apply Es; symmetry; exact E).
  destruct (aget (ns_self st) (ns_known st)); [|reflexivity].
  now rewrite N.eqb_refl.
Qed.

(* losing a connection forgets nothing the node has learned: the stored pairs and the seen IDs are untouched *)
Theorem conn_lost_keeps_knowledge st c :
  ns_info (conn_lost st c) = ns_info st /\ ns_seen (conn_lost st c) = ns_seen st.
Proof. split; reflexivity. Qed.
