(* Proofs/Unreach.v — lemmas about Model/Unreach.v (property C16). *)
From Coq Require Import String Lia.
From Receptor Require Import Model.Unreach.
Open Scope N_scope.

(* ---------- names that survive JSON ---------- *)
Lemma json_rt_valid_len : forall n l, (length l <= n)%nat -> utf8_valid l = true -> json_rt l = l.
Proof.
  induction n as [|n IH]; intros l Hl Hv.
  - destruct l; [reflexivity | simpl in Hl; lia].
  - destruct l as [|b0 r0]; [reflexivity|].
    cbn [json_rt utf8_valid] in *. simpl in Hl.
    destruct (b0 <? 128).
    { rewrite IH; [reflexivity | lia | assumption]. }
    destruct r0 as [|b1 r1]; [discriminate|]. simpl in Hl.
    destruct (inr 194 223 b0).
    { apply andb_true_iff in Hv as [H1 H2]. rewrite H1, IH; [reflexivity | lia | assumption]. }
    destruct r1 as [|b2 r2]; [discriminate|]. simpl in Hl.
    destruct (b0 =? 224).
    { apply andb_true_iff in Hv as [H1 H2]. rewrite H1, IH; [reflexivity | lia | assumption]. }
    destruct (inr 225 236 b0 || inr 238 239 b0).
    { apply andb_true_iff in Hv as [H1 H2]. rewrite H1, IH; [reflexivity | lia | assumption]. }
    destruct (b0 =? 237).
    { apply andb_true_iff in Hv as [H1 H2]. rewrite H1, IH; [reflexivity | lia | assumption]. }
    destruct r2 as [|b3 r3]; [discriminate|]. simpl in Hl.
    destruct (b0 =? 240).
    { apply andb_true_iff in Hv as [H1 H2]. rewrite H1, IH; [reflexivity | lia | assumption]. }
    destruct (inr 241 243 b0).
    { apply andb_true_iff in Hv as [H1 H2]. rewrite H1, IH; [reflexivity | lia | assumption]. }
    destruct (b0 =? 244); [|discriminate].
    apply andb_true_iff in Hv as [H1 H2]. rewrite H1, IH; [reflexivity | lia | assumption].
Qed.

Lemma json_rt_valid : forall l, utf8_valid l = true -> json_rt l = l.
Proof. intros l. apply (json_rt_valid_len (length l)). lia. Qed.

(* ---------- small facts ---------- *)
Lemma beq_true a b : beq_bytes a b = true -> a = b.
Proof. apply beq_bytes_eq. Qed.

Lemma find_node_some : forall w a n, find_node w a = Some n -> nd_id n = a /\ In n w.
Proof.
  induction w as [|m w IH]; intros a n H; [discriminate|]. cbn [find_node] in H.
  destruct (beq_bytes (nd_id m) a) eqn:E.
  - inversion H; subst. split; [now apply beq_true | now left].
  - destruct (IH _ _ H) as [H1 H2]. split; [assumption | now right].
Qed.

Lemma wf_world_node : forall w a n, wf_world w = true -> find_node w a = Some n -> wf_node n = true.
Proof.
  intros w a n Hw Hf. apply find_node_some in Hf as [_ Hin].
  unfold wf_world in Hw. apply andb_true_iff in Hw as [Hw _].
  rewrite forallb_forall in Hw. now apply Hw.
Qed.

Lemma wf_node_not_reserved : forall n s, wf_node n = true -> In s (nd_bound n) -> reserved s = false.
Proof.
  intros n s Hw Hin. unfold wf_node in Hw. apply andb_true_iff in Hw as [Hw _].
  rewrite forallb_forall in Hw. apply Hw in Hin. now apply negb_true_iff in Hin.
Qed.

Lemma mem_In : forall s l, mem s l = true <-> In s l.
Proof.
  intros s l. unfold mem. rewrite existsb_exists. split.
  - intros [x [Hin Hb]]. apply beq_true in Hb. now subst.
  - intros Hin. exists s. split; [assumption | apply beq_bytes_refl].
Qed.

Lemma filter_single : forall s l, nodupb l = true -> mem s l = true ->
  filter (fun t => beq_bytes s t) l = [s].
Proof.
  induction l as [|x l IH]; intros Hn Hm; [discriminate|].
  cbn [nodupb] in Hn. apply andb_true_iff in Hn as [Hx Hn]. apply negb_true_iff in Hx.
  cbn [filter]. destruct (beq_bytes s x) eqn:E.
  - apply beq_true in E. subst x. f_equal.
    clear IH Hn Hm. induction l as [|y l IHl]; [reflexivity|].
    cbn [mem existsb] in Hx. apply orb_false_iff in Hx as [Hy Hx]. cbn [filter]. rewrite Hy. now apply IHl.
  - unfold mem in Hm. cbn [existsb] in Hm. rewrite E in Hm. now apply IH.
Qed.

Lemma filter_none : forall s l, mem s l = false -> filter (fun t => beq_bytes s t) l = [].
Proof.
  induction l as [|x l IH]; intros Hm; [reflexivity|].
  unfold mem in Hm. cbn [existsb] in Hm. apply orb_false_iff in Hm as [E Hm].
  cbn [filter]. rewrite E. now apply IH.
Qed.

Lemma unreach_not_ping : beq_bytes S_UNREACH S_PING = false.
Proof. reflexivity. Qed.
Lemma json_ping : json_rt S_PING = S_PING.
Proof. reflexivity. Qed.
Lemma reserved_ping : reserved S_PING = true.
Proof. reflexivity. Qed.

(* ---------- who is told ---------- *)
Lemma receivers_sound : forall n y nd s x, In (nd, s, x) (receivers n y) ->
  nd = nd_id n /\ x = y /\ In s (nd_bound n) /\ nt_fs y = s /\ nt_fn y = nd_id n.
Proof.
  intros n y nd s x H. unfold receivers in H.
  destruct (beq_bytes (nt_fn y) (nd_id n)) eqn:E; [|contradiction].
  apply in_map_iff in H as [t [Ht Hin]]. inversion Ht; subst.
  apply filter_In in Hin as [Hin Hb]. apply beq_true in Hb. apply beq_true in E. auto.
Qed.

Lemma notify_sound : forall w rt mh a p pb nd s x, In (nd, s, x) (notify w rt mh a p pb) ->
  x = notif_of a p pb /\ nd = json_rt (p_fn p) /\ s = json_rt (p_fs p) /\
  exists n, find_node w nd = Some n /\ In s (nd_bound n).
Proof.
  intros w rt mh a p pb nd s x H. unfold notify in H.
  destruct (travel w (rt a (p_fn p)) mh true (notice_pkt a p)); try contradiction.
  destruct (find_node w at_) as [n|] eqn:Hf; [|contradiction].
  apply receivers_sound in H as (H1 & H2 & H3 & H4 & H5). subst x. cbn in H4, H5.
  destruct (find_node_some _ _ _ Hf) as [Hid _].
  repeat split; try congruence.
  exists n. split; [|assumption]. now rewrite H1, Hid.
Qed.

(* every entry of o_recv comes from one call of notify: either about the packet itself, or about
   the reply of a ping service *)
Lemma send_recv_origin : forall fixed w rt mh hops p f r,
  In r (o_recv (send_gen fixed w rt mh hops p f)) ->
  (exists a pb, In r (notify w rt mh a p pb)) \/
  (exists a a2 pb, In r (notify w rt mh a2 (mkpkt a S_PING (p_fn p) (p_fs p)) pb)).
Proof.
  intros fixed w rt mh hops p f r H. unfold send_gen in H.
  destruct (too_long (p_fs p) || too_long (p_ts p)); [cbn in H; contradiction|].
  destruct (travel w (rt (p_fn p) (p_tn p)) hops true p) eqn:T; unfold quiet in H;
    cbn -[S_PING] in H; try contradiction.
  - destruct f; cbn in H; [contradiction|]. unfold after_wait, quiet in H.
    destruct fixed; cbn in H; [|contradiction].
    destruct (beq_bytes (p_fn p) at_); cbn in H; [contradiction|]. left; eauto.
  - left; eauto.
  - right. exists at_.
    match type of H with context [match ?t with TNothing => _ | _ => _ end] => destruct t end;
      cbn in H; try contradiction.
    eauto.
Qed.

Theorem notice_to_sender_only : forall fixed w rt mh hops p f nd s x,
  wf_world w = true ->
  utf8_valid (p_fn p) = true -> utf8_valid (p_fs p) = true ->
  utf8_valid (p_tn p) = true -> utf8_valid (p_ts p) = true ->
  In (nd, s, x) (o_recv (send_gen fixed w rt mh hops p f)) ->
  nd = p_fn p /\ s = p_fs p /\
  (exists n, find_node w nd = Some n /\ In s (nd_bound n)) /\
  nt_fn x = p_fn p /\ nt_tn x = p_tn p /\ nt_fs x = p_fs p /\ nt_ts x = p_ts p.
Proof.
  intros fixed w rt mh hops p f nd s x Hw U1 U2 U3 U4 H.
  apply send_recv_origin in H as [[a [pb H]] | [a [a2 [pb H]]]].
  - apply notify_sound in H as (Hx & Hnd & Hs & Hb). subst x.
    rewrite (json_rt_valid _ U1) in Hnd. rewrite (json_rt_valid _ U2) in Hs.
    cbn. rewrite !json_rt_valid by assumption. subst. repeat split; auto.
  - exfalso. apply notify_sound in H as (_ & _ & Hs & [n [Hf Hin]]). cbn [p_fs] in Hs.
    rewrite json_ping in Hs. subst s.
    pose proof (wf_node_not_reserved _ _ (wf_world_node _ _ _ Hw Hf) Hin) as R.
    rewrite reserved_ping in R. discriminate.
Qed.

(* ---------- packets that get through ---------- *)
Lemma travel_transit : forall w mid hops first p last rest,
  transit_ok w mid hops p = true ->
  exists h', travel w (mid ++ last :: rest) hops first p
             = travel w (last :: rest) h' (first && match mid with [] => true | _ => false end) p.
Proof.
  intros w mid. induction mid as [|a r IH]; intros hops first p last rest H.
  - exists hops. now rewrite andb_true_r.
  - cbn [transit_ok] in H. destruct (find_node w a) as [nd|] eqn:Hf; [|discriminate].
    destruct (handle nd hops p) eqn:Hh; try discriminate.
    destruct (IH (hops - 1) false p last rest H) as [h' E].
    exists h'. cbn [app travel]. rewrite Hf, Hh, andb_false_r.
    assert (Hne : r ++ last :: rest <> []) by (destruct r; discriminate).
    destruct (r ++ last :: rest) eqn:Er; [contradiction|]. exact E.
Qed.

Lemma handle_at_dest : forall d h p,
  fw_eval (nd_fw d) p = FwAccept -> beq_bytes (p_tn p) (nd_id d) = true ->
  reserved (p_ts p) = false ->
  handle d h p = if mem (p_ts p) (nd_bound d) then HDeliver
                 else if beq_bytes (p_fn p) (nd_id d) then HSyncUnknown else HNotice PUnknown.
Proof.
  intros d h p Hfw Ht Hr. unfold handle. rewrite Hfw, Ht.
  unfold reserved in Hr. apply orb_false_iff in Hr as [R1 R2]. now rewrite R1, R2.
Qed.

Lemma handle_publish : forall n h q,
  fw_eval (nd_fw n) q = FwAccept -> p_ts q = S_UNREACH -> beq_bytes (p_tn q) (nd_id n) = true ->
  handle n h q = HPublish.
Proof.
  intros n h q Hfw Hts Ht. unfold handle. rewrite Hts, Hfw, Ht, unreach_not_ping.
  now rewrite beq_bytes_refl.
Qed.

Lemma handle_drop : forall nd h p, fw_eval (nd_fw nd) p = FwDrop -> handle nd h p = HNothing.
Proof. intros nd h p H. unfold handle. now rewrite H. Qed.

Lemma notify_complete : forall w rt mh a p pb back n,
  wf_world w = true ->
  rt a (p_fn p) = back ++ [p_fn p] -> transit_ok w back mh (notice_pkt a p) = true ->
  find_node w (p_fn p) = Some n -> fw_eval (nd_fw n) (notice_pkt a p) = FwAccept ->
  mem (json_rt (p_fs p)) (nd_bound n) = true -> json_rt (p_fn p) = p_fn p ->
  notify w rt mh a p pb = [(p_fn p, json_rt (p_fs p), notif_of a p pb)].
Proof.
  intros w rt mh a p pb back n Hw Hrt Htr Hf Hfw Hm Hj. unfold notify. rewrite Hrt.
  destruct (travel_transit w back mh true (notice_pkt a p) (p_fn p) [] Htr) as [h' E]. rewrite E.
  destruct (find_node_some _ _ _ Hf) as [Hid _].
  cbn [travel]. rewrite Hf.
  rewrite handle_publish; [|assumption|reflexivity|cbn; rewrite Hid; apply beq_bytes_refl].
  rewrite Hf. unfold receivers. cbn [nt_fn nt_fs notif_of]. rewrite Hj, Hid, beq_bytes_refl.
  pose proof (wf_world_node _ _ _ Hw Hf) as Hn. unfold wf_node in Hn. apply andb_true_iff in Hn as [_ Hn].
  rewrite filter_single by assumption. reflexivity.
Qed.

(* a datagram that reaches a live node on which nothing listens on the addressed service, with a
   notice that can travel back: exactly the sending socket is told, with the original fields *)
Theorem unknown_service_is_reported : forall w rt mh hops p f mid back d n,
  wf_world w = true ->
  utf8_valid (p_fn p) = true -> utf8_valid (p_fs p) = true ->
  beq_bytes (p_fn p) (p_tn p) = false ->
  too_long (p_fs p) || too_long (p_ts p) = false ->
  rt (p_fn p) (p_tn p) = mid ++ [p_tn p] -> transit_ok w mid hops p = true ->
  find_node w (p_tn p) = Some d -> fw_eval (nd_fw d) p = FwAccept ->
  reserved (p_ts p) = false -> mem (p_ts p) (nd_bound d) = false ->
  rt (p_tn p) (p_fn p) = back ++ [p_fn p] -> transit_ok w back mh (notice_pkt (p_tn p) p) = true ->
  find_node w (p_fn p) = Some n -> fw_eval (nd_fw n) (notice_pkt (p_tn p) p) = FwAccept ->
  mem (p_fs p) (nd_bound n) = true ->
  send w rt mh hops p f = mkout SNone None false [(p_fn p, p_fs p, notif_of (p_tn p) p PUnknown)].
Proof.
  intros w rt mh hops p f mid back d n Hw U1 U2 Hne Hl Hrt Htr Hfd Hfw Hres Hunb Hback Htrb Hfn Hfwn Hb.
  unfold send, send_gen. rewrite Hl, Hrt.
  destruct (travel_transit w mid hops true p (p_tn p) [] Htr) as [h' E]. rewrite E.
  destruct (find_node_some _ _ _ Hfd) as [Hid _].
  cbn [travel]. rewrite Hfd.
  rewrite handle_at_dest; [|assumption|rewrite Hid; apply beq_bytes_refl|assumption].
  rewrite Hunb, Hid, Hne.
  rewrite (notify_complete w rt mh (p_tn p) p PUnknown back n); try assumption.
  - now rewrite (json_rt_valid _ U2).
  - now rewrite (json_rt_valid _ U2).
  - now apply json_rt_valid.
Qed.

(* the same when the socket existed but was closed while the datagram was waiting to be read *)
Theorem closed_while_waiting_is_reported : forall w rt mh hops p mid back d n,
  wf_world w = true ->
  utf8_valid (p_fn p) = true -> utf8_valid (p_fs p) = true ->
  beq_bytes (p_fn p) (p_tn p) = false ->
  too_long (p_fs p) || too_long (p_ts p) = false ->
  rt (p_fn p) (p_tn p) = mid ++ [p_tn p] -> transit_ok w mid hops p = true ->
  find_node w (p_tn p) = Some d -> fw_eval (nd_fw d) p = FwAccept ->
  reserved (p_ts p) = false -> mem (p_ts p) (nd_bound d) = true ->
  rt (p_tn p) (p_fn p) = back ++ [p_fn p] -> transit_ok w back mh (notice_pkt (p_tn p) p) = true ->
  find_node w (p_fn p) = Some n -> fw_eval (nd_fw n) (notice_pkt (p_tn p) p) = FwAccept ->
  mem (p_fs p) (nd_bound n) = true ->
  send w rt mh hops p FClosedWaiting
  = mkout SNone None false [(p_fn p, p_fs p, notif_of (p_tn p) p PUnknown)].
Proof.
  intros w rt mh hops p mid back d n Hw U1 U2 Hne Hl Hrt Htr Hfd Hfw Hres Hbd Hback Htrb Hfn Hfwn Hb.
  unfold send, send_gen. rewrite Hl, Hrt.
  destruct (travel_transit w mid hops true p (p_tn p) [] Htr) as [h' E]. rewrite E.
  destruct (find_node_some _ _ _ Hfd) as [Hid _].
  cbn [travel]. rewrite Hfd.
  rewrite handle_at_dest; [|assumption|rewrite Hid; apply beq_bytes_refl|assumption].
  rewrite Hbd. unfold after_wait. rewrite Hne.
  rewrite (notify_complete w rt mh (p_tn p) p PUnknown back n); try assumption.
  - now rewrite (json_rt_valid _ U2).
  - now rewrite (json_rt_valid _ U2).
  - now apply json_rt_valid.
Qed.

(* a service name that does not fit the wire format: nothing is sent, the caller gets the error *)
Theorem too_long_name_is_refused : forall fixed w rt mh hops p f,
  too_long (p_fs p) || too_long (p_ts p) = true ->
  send_gen fixed w rt mh hops p f = mkout STooLong None false [].
Proof. intros. unfold send_gen. now rewrite H. Qed.

(* ---------- policy drops ---------- *)
Theorem drop_is_silent : forall fixed w rt mh hops p f mid d rest nd,
  too_long (p_fs p) || too_long (p_ts p) = false ->
  rt (p_fn p) (p_tn p) = mid ++ d :: rest -> transit_ok w mid hops p = true ->
  find_node w d = Some nd -> fw_eval (nd_fw nd) p = FwDrop ->
  send_gen fixed w rt mh hops p f = quiet.
Proof.
  intros fixed w rt mh hops p f mid d rest nd Hl Hrt Htr Hf Hfw. unfold send_gen. rewrite Hl, Hrt.
  destruct (travel_transit w mid hops true p d rest Htr) as [h' E]. rewrite E.
  cbn [travel]. rewrite Hf, handle_drop by assumption. reflexivity.
Qed.

Corollary dropped_dial_is_not_cancelled : forall w rt mh p f mid d rest nd,
  too_long (p_fs p) || too_long (p_ts p) = false ->
  rt (p_fn p) (p_tn p) = mid ++ d :: rest -> transit_ok w mid mh p = true ->
  find_node w d = Some nd -> fw_eval (nd_fw nd) p = FwDrop ->
  dial w rt mh p f = DTimesOut.
Proof.
  intros. unfold dial, send. erewrite drop_is_silent by eassumption. reflexivity.
Qed.

(* ---------- dials ---------- *)
Lemma monitor_match_spec : forall p nd s x, monitor_match p (nd, s, x) = true <->
  nd = p_fn p /\ s = p_fs p /\ nt_pb x = PUnknown /\ nt_tn x = p_tn p /\ nt_ts x = p_ts p.
Proof.
  intros p nd s x. unfold monitor_match. rewrite !andb_true_iff, !beq_bytes_eq.
  unfold is_unknown. destruct (nt_pb x); intuition congruence.
Qed.

(* a notification concerns only the connection whose remote address it names: whatever packet
   [p] caused it, a monitor for connection [p'] on the notified socket fires only if [p'] has the
   same four addresses as [p] *)
Theorem monitor_only_own_connection : forall fixed w rt mh hops p f nd s x p',
  wf_world w = true ->
  utf8_valid (p_fn p) = true -> utf8_valid (p_fs p) = true ->
  utf8_valid (p_tn p) = true -> utf8_valid (p_ts p) = true ->
  In (nd, s, x) (o_recv (send_gen fixed w rt mh hops p f)) ->
  monitor_match p' (nd, s, x) = true ->
  p_fn p' = p_fn p /\ p_fs p' = p_fs p /\ p_tn p' = p_tn p /\ p_ts p' = p_ts p.
Proof.
  intros fixed w rt mh hops p f nd s x p' Hw U1 U2 U3 U4 Hin Hm.
  destruct (notice_to_sender_only fixed w rt mh hops p f nd s x Hw U1 U2 U3 U4 Hin) as (A & B & _ & _ & C & _ & D).
  apply monitor_match_spec in Hm as (E1 & E2 & _ & E3 & E4). repeat split; congruence.
Qed.

Theorem dial_cancelled_by_notice : forall w rt mh p f,
  dial w rt mh p f = DCancelled <->
  o_sync (send w rt mh mh p f) = SNone /\
  exists x, In (p_fn p, p_fs p, x) (o_recv (send w rt mh mh p f)) /\
            nt_pb x = PUnknown /\ nt_tn x = p_tn p /\ nt_ts x = p_ts p.
Proof.
  intros w rt mh p f. unfold dial. split.
  - destruct (o_sync (send w rt mh mh p f)); try discriminate.
    destruct (existsb (monitor_match p) (o_recv (send w rt mh mh p f))) eqn:E.
    + intros _. split; [reflexivity|]. apply existsb_exists in E as [[[nd s] x] [Hin Hm]].
      apply monitor_match_spec in Hm as (-> & -> & H3 & H4 & H5). eauto.
    + destruct (o_deliv (send w rt mh mh p f)); discriminate.
  - intros [Hs [x [Hin (H3 & H4 & H5)]]]. rewrite Hs.
    assert (E : existsb (monitor_match p) (o_recv (send w rt mh mh p f)) = true).
    { apply existsb_exists. exists (p_fn p, p_fs p, x). split; [assumption|].
      apply monitor_match_spec. auto. }
    now rewrite E.
Qed.

Corollary dial_to_unbound_service_is_cancelled : forall w rt mh p f mid back d n,
  wf_world w = true ->
  utf8_valid (p_fn p) = true -> utf8_valid (p_fs p) = true ->
  utf8_valid (p_tn p) = true -> utf8_valid (p_ts p) = true ->
  beq_bytes (p_fn p) (p_tn p) = false ->
  too_long (p_fs p) || too_long (p_ts p) = false ->
  rt (p_fn p) (p_tn p) = mid ++ [p_tn p] -> transit_ok w mid mh p = true ->
  find_node w (p_tn p) = Some d -> fw_eval (nd_fw d) p = FwAccept ->
  reserved (p_ts p) = false -> mem (p_ts p) (nd_bound d) = false ->
  rt (p_tn p) (p_fn p) = back ++ [p_fn p] -> transit_ok w back mh (notice_pkt (p_tn p) p) = true ->
  find_node w (p_fn p) = Some n -> fw_eval (nd_fw n) (notice_pkt (p_tn p) p) = FwAccept ->
  mem (p_fs p) (nd_bound n) = true ->
  dial w rt mh p f = DCancelled.
Proof.
  intros w rt mh p f mid back d n Hw U1 U2 U3 U4 Hne Hl Hrt Htr Hfd Hfw Hres Hunb Hback Htrb Hfn Hfwn Hb.
  apply dial_cancelled_by_notice.
  rewrite (unknown_service_is_reported w rt mh mh p f mid back d n) by assumption.
  split; [reflexivity|]. eexists. split; [left; reflexivity|].
  cbn. rewrite !json_rt_valid by assumption. auto.
Qed.

(* ---------- the two defects, as checked facts ---------- *)
Definition ex_rt : routing := line_route [str "a"; str "b"].
Definition ex_world (bound_b : list name) : list node :=
  [mknode (str "a") [str "src"; str "other"] []; mknode (str "b") bound_b []].
Definition ex_pkt : pkt := mkpkt (str "a") (str "src") (str "b") (str "tgt").

(* pinned tree: the socket is closed while the datagram waits; nobody read it, nobody is told *)
Theorem closed_while_waiting_pinned_refuted :
  wf_world (ex_world [str "tgt"]) = true /\
  send_pinned (ex_world [str "tgt"]) ex_rt 30 30 ex_pkt FClosedWaiting = quiet /\
  send (ex_world [str "tgt"]) ex_rt 30 30 ex_pkt FClosedWaiting
  = mkout SNone None false [(str "a", str "src", notif_of (str "b") ex_pkt PUnknown)].
Proof. vm_compute. auto. Qed.

(* a sending service whose name is not valid UTF-8: its own socket is told nothing and the socket
   bound to the replacement-character spelling of the name is told instead *)
Definition bad_name : name := [255; 254].
Definition twin_name : name := json_rt bad_name.
Theorem non_utf8_sender_refuted :
  let w := [mknode (str "a") [bad_name; twin_name] []; mknode (str "b") [] []] in
  let p := mkpkt (str "a") bad_name (str "b") (str "tgt") in
  wf_world w = true /\ utf8_valid bad_name = false /\
  exists x, o_recv (send w ex_rt 30 30 p FRead) = [(str "a", twin_name, x)] /\ twin_name <> bad_name.
Proof. vm_compute. repeat split; try reflexivity. eexists. split; [reflexivity | discriminate]. Qed.

(* a destination service whose name is not valid UTF-8: the notification arrives but names
   another service, and the dial it belongs to is not cancelled *)
Theorem non_utf8_target_dial_refuted :
  let w := [mknode (str "a") [str "eph"] []; mknode (str "b") [] []] in
  let p := mkpkt (str "a") (str "eph") (str "b") [110; 111; 255] in
  wf_world w = true /\ dial w ex_rt 30 p FRead = DTimesOut.
Proof. vm_compute. auto. Qed.

(* non-vacuity of the hypotheses of unknown_service_is_reported on a three-node line with an
   unrelated socket everywhere *)
Example unknown_service_hypotheses_hold :
  let w := [mknode (str "a") [str "src"; str "x"] []; mknode (str "m") [str "y"] [mkrule None None None (Some (str "blk")) FwDrop];
            mknode (str "b") [str "z"] []] in
  let rt := line_route [str "a"; str "m"; str "b"] in
  let p := mkpkt (str "a") (str "src") (str "b") (str "tgt") in
  wf_world w = true /\ rt (p_fn p) (p_tn p) = [str "a"; str "m"] ++ [p_tn p] /\
  transit_ok w [str "a"; str "m"] 30 p = true /\
  rt (p_tn p) (p_fn p) = [str "b"; str "m"] ++ [p_fn p] /\
  transit_ok w [str "b"; str "m"] 30 (notice_pkt (p_tn p) p) = true /\
  send w rt 30 30 p FRead = mkout SNone None false [(str "a", str "src", notif_of (str "b") p PUnknown)].
Proof. vm_compute. repeat split; reflexivity. Qed.
