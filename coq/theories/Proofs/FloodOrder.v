(* Proofs/FloodOrder.v — C06: whatever the delivery order, the newest update wins.  For every history of
   genuine ordinary updates with distinct fresh IDs (any order, from any neighbours), the pair the node
   ends up recording for an origin is at least every delivered pair of that origin, and it is the initial
   pair or one of the delivered ones: so for a new origin it is exactly the maximum.  Together with the
   linearizability check of the harness (Model/FloodCases.v [seq_check]) this covers concurrent delivery
   of different updates of one origin. *)
From Coq Require Import ZArith Lia ZifyN ZifyNat ZifyBool.
From Receptor Require Import Model.Flood Model.FloodCases Proofs.Flood.
Open Scope N_scope.

Definition genuine (self : node) (u : upd) : Prop :=
  u_susp u = 0 /\ u_origin u <> 0 /\ conns_pos (u_conns u) = true /\ u_origin u <> self.

Lemma handle_self st u recv : ns_self (fst (handle_update st u recv)) = ns_self st.
Proof.
  unfold handle_update.
  destruct (u_origin u =? 0); [reflexivity|].
  destruct (negb (conns_pos (u_conns u))); [reflexivity|].
  destruct (u_origin u =? ns_self st).
  { destruct (u_epoch u =? ns_epoch st); [reflexivity|].
    destruct (u_susp u =? ns_epoch st); [reflexivity|].
    destruct (ns_epoch st <? u_epoch u); reflexivity. }
  destruct (mem_N (u_id u) (ns_seen st)); [reflexivity|].
  destruct (negb (u_susp u =? 0)); [reflexivity|].
  destruct (match aget (u_origin u) (ns_info st) with Some p => lex_le (u_epoch u, u_seq u) p | None => false end);
    reflexivity.
Qed.

(* the seen set after one delivery: what was seen, plus possibly the delivered ID *)
Lemma seen_after st u recv i :
  mem_N i (ns_seen (fst (handle_update st u recv))) = true -> i = u_id u \/ mem_N i (ns_seen st) = true.
Proof.
  unfold handle_update.
  destruct (u_origin u =? 0); [auto|].
  destruct (negb (conns_pos (u_conns u))); [auto|].
  destruct (u_origin u =? ns_self st).
  { destruct (u_epoch u =? ns_epoch st); [auto|].
    destruct (u_susp u =? ns_epoch st); [auto|].
    destruct (ns_epoch st <? u_epoch u); auto. }
  destruct (mem_N (u_id u) (ns_seen st)); [auto|].
  assert (mem_N i (sadd (u_id u) (ns_seen st)) = true -> i = u_id u \/ mem_N i (ns_seen st) = true) as K.
  { intro H. apply mem_N_In, sadd_In in H. destruct H as [H|H]; [now left|right; now apply mem_N_In]. }
  destruct (negb (u_susp u =? 0)); [exact K|].
  destruct (match aget (u_origin u) (ns_info st) with Some p => lex_le (u_epoch u, u_seq u) p | None => false end);
    exact K.
Qed.

(* one delivery of a genuine update with a fresh ID: afterwards the recorded pair covers it *)
Lemma delivered_is_covered st u recv :
  genuine (ns_self st) u -> mem_N (u_id u) (ns_seen st) = false ->
  pair_le (Some (u_epoch u, u_seq u)) (info_of (fst (handle_update st u recv)) (u_origin u)) = true.
Proof.
  intros (Hs & H0 & Hp & Hself) Hseen.
  destruct (pair_le (Some (u_epoch u, u_seq u)) (info_of st (u_origin u))) eqn:E.
  - eapply pair_le_trans; [exact E|]. now apply info_monotone_step.
  - destruct (fresh_update_recorded st u recv Hs H0 Hp Hself Hseen E) as [R _].
    rewrite R. apply pair_le_refl.
Qed.

(* one delivery changes the recorded pair of an origin only by recording the delivered pair *)
Lemma info_after st u recv o :
  u_susp u = 0 ->
  info_of (fst (handle_update st u recv)) o = info_of st o
  \/ (o = u_origin u /\ info_of (fst (handle_update st u recv)) o = Some (u_epoch u, u_seq u)).
Proof.
  intro Hs. unfold handle_update, info_of.
  destruct (u_origin u =? 0); [now left|].
  destruct (negb (conns_pos (u_conns u))); [now left|].
  destruct (u_origin u =? ns_self st).
  { destruct (u_epoch u =? ns_epoch st); [now left|].
    destruct (u_susp u =? ns_epoch st); [now left|].
    destruct (ns_epoch st <? u_epoch u); now left. }
  destruct (mem_N (u_id u) (ns_seen st)); [now left|].
  rewrite Hs. change (negb (0 =? 0)) with false. cbv iota.
  destruct (match aget (u_origin u) (ns_info st) with Some p => lex_le (u_epoch u, u_seq u) p | None => false end);
    [now left|].
  cbn [fst ns_info set_state].
  destruct (N.eq_dec o (u_origin u)) as [->|Hne].
  - right. split; [reflexivity|apply aget_aset_same].
  - left. now apply aget_aset_other.
Qed.

Definition recvs (h : list (upd * node)) : list event := map (fun x => Recv (fst x) (snd x)) h.

Lemma run_self h : forall st, ns_self (fst (run st (recvs h))) = ns_self st.
Proof.
  induction h as [|[u r] h IH]; intros st; [reflexivity|].
  cbn [recvs map run fst snd step]. destruct (handle_update st u r) as [st' a] eqn:E.
  specialize (IH st'). unfold recvs in IH. destruct (run st' (map _ h)) as [st'' as_]. cbn [fst] in *.
  rewrite IH. pose proof (handle_self st u r) as H. rewrite E in H. exact H.
Qed.

Lemma recvs_ordinary h : Forall (fun x => u_susp (fst x) = 0) h -> Forall ordinary (recvs h).
Proof. induction 1; constructor; auto. Qed.

(* EVERY delivery order: the final pair covers every delivered update *)
Theorem newest_wins h : forall st,
  Forall (fun x => genuine (ns_self st) (fst x)) h ->
  NoDup (map (fun x => u_id (fst x)) h) ->
  (forall x, In x h -> mem_N (u_id (fst x)) (ns_seen st) = false) ->
  forall x, In x h ->
    pair_le (Some (u_epoch (fst x), u_seq (fst x))) (info_of (fst (run st (recvs h))) (u_origin (fst x))) = true.
Proof.
  induction h as [|[u r] h IH]; intros st Hg Hnd Hfresh x Hin; [destruct Hin|].
  inversion Hg as [|? ? Hgu Hgr]; subst. inversion Hnd as [|? ? Hni Hnd']; subst.
  cbn [recvs map run fst snd step]. destruct (handle_update st u r) as [st' a] eqn:E.
  assert (Est : st' = fst (handle_update st u r)) by now rewrite E.
  assert (Hself : ns_self st' = ns_self st) by (rewrite Est; apply handle_self).
  assert (Hg' : Forall (fun y => genuine (ns_self st') (fst y)) h) by now rewrite Hself.
  assert (Hfresh' : forall y, In y h -> mem_N (u_id (fst y)) (ns_seen st') = false).
  { intros y Hy. destruct (mem_N (u_id (fst y)) (ns_seen st')) eqn:M; [|reflexivity].
    rewrite Est in M. apply seen_after in M. destruct M as [M|M].
    - exfalso. apply Hni. simpl. rewrite <- M. now apply (in_map (fun z => u_id (fst z))).
    - rewrite (Hfresh y (or_intror Hy)) in M. discriminate. }
  specialize (IH st' Hg' Hnd' Hfresh').
  assert (Hord : Forall ordinary (recvs h)).
  { apply recvs_ordinary. eapply Forall_impl; [|exact Hgr]. intros y Hy. apply Hy. }
  pose proof (flood_info_monotone (recvs h) st') as Hm.
  unfold recvs in *. destruct (run st' (map _ h)) as [st'' as_] eqn:Er. cbn [fst] in *.
  destruct Hin as [<-|Hin].
  - cbn [fst]. eapply pair_le_trans; [|apply (Hm (u_origin u) Hord)].
    rewrite Est. apply delivered_is_covered; [exact Hgu|]. apply (Hfresh (u, r)). now left.
  - apply IH. exact Hin.
Qed.

(* ... and it is the initial pair or the pair of a delivered update *)
Theorem final_pair_is_delivered h : forall st o,
  Forall (fun x => u_susp (fst x) = 0) h ->
  info_of (fst (run st (recvs h))) o = info_of st o
  \/ exists x, In x h /\ u_origin (fst x) = o
               /\ info_of (fst (run st (recvs h))) o = Some (u_epoch (fst x), u_seq (fst x)).
Proof.
  induction h as [|[u r] h IH]; intros st o Hs; [now left|].
  inversion Hs as [|? ? Hsu Hsr]; subst.
  cbn [recvs map run fst snd step]. destruct (handle_update st u r) as [st' a] eqn:E.
  specialize (IH st' o Hsr). unfold recvs in *. destruct (run st' (map _ h)) as [st'' as_]. cbn [fst] in *.
  destruct IH as [IH|(x & Hx & Ho & Hi)].
  - rewrite IH. pose proof (info_after st u r o Hsu) as H. rewrite E in H. cbn [fst] in H.
    destruct H as [H|[Ho H]]; [now left|].
    right. exists (u, r). split; [now left|]. split; [now symmetry|exact H].
  - right. exists x. split; [now right|]. auto.
Qed.

(* corollary: a batch of updates of one NEW origin, delivered in any order, leaves exactly the newest pair *)
Corollary new_origin_any_order h st o :
  Forall (fun x => genuine (ns_self st) (fst x)) h ->
  NoDup (map (fun x => u_id (fst x)) h) ->
  (forall x, In x h -> mem_N (u_id (fst x)) (ns_seen st) = false) ->
  (forall x, In x h -> u_origin (fst x) = o) ->
  info_of st o = None -> h <> [] ->
  exists x, In x h /\ info_of (fst (run st (recvs h))) o = Some (u_epoch (fst x), u_seq (fst x))
            /\ forall y, In y h -> lex_le (u_epoch (fst y), u_seq (fst y)) (u_epoch (fst x), u_seq (fst x)) = true.
Proof.
  intros Hg Hnd Hfresh Ho Hnone Hne.
  assert (Hs : Forall (fun x => u_susp (fst x) = 0) h).
  { eapply Forall_impl; [|exact Hg]. intros y Hy. apply Hy. }
  pose proof (newest_wins h st Hg Hnd Hfresh) as Hw.
  destruct (final_pair_is_delivered h st o Hs) as [H|(x & Hx & Hxo & Hi)].
  - exfalso. destruct h as [|y h']; [congruence|].
    specialize (Hw y (or_introl eq_refl)). rewrite (Ho y (or_introl eq_refl)), H, Hnone in Hw. discriminate.
  - exists x. split; [exact Hx|]. split; [exact Hi|]. intros y Hy.
    specialize (Hw y Hy). rewrite (Ho y Hy), Hi in Hw. exact Hw.
Qed.

(* what the harness's linearizability check means *)
From Coq Require Import Permutation.
Lemma seq_check_exact c :
  seq_check c = true <-> exists p, Permutation (q_batch c) p /\ seq_explains c p = true.
Proof.
  unfold seq_check. rewrite existsb_exists. split.
  - intros (p & Hp & H). exists p. split; [now apply perms_sound|exact H].
  - intros (p & Hp & H). exists p. split; [now apply perms_complete|exact H].
Qed.
