(* Proofs/FloodWorld.v — flooding terminates: in a mesh where no new updates are issued, every
   execution (any delivery order, any loss) is finite, and the number of relays sent is at most
   the sum of the node degrees per update ID. *)
From Coq Require Import ZArith Lia ZifyN ZifyNat ZifyBool.
From Receptor Require Import Model.FloodWorld Proofs.Flood.
Open Scope N_scope.

Lemma remove_nth_len {A} (l : list A) : forall k x,
  nth_error l k = Some x -> (length (remove_nth k l) + 1 = length l)%nat.
Proof.
  induction l as [|y r IH]; intros [|k] x H; simpl in *; try discriminate; [lia|].
  specialize (IH k x H). lia.
Qed.

Lemma remove_nth_In {A} (l : list A) : forall k y, In y (remove_nth k l) -> In y l.
Proof.
  induction l as [|z r IH]; intros [|k] y H; simpl in *; auto.
  destruct H as [H|H]; auto. right. eapply IH. exact H.
Qed.

Lemma nodes_weight_update ids (ns : list nstate) : forall k st st',
  nth_error ns k = Some st ->
  (nodes_weight ids (update_nth k st' ns) + weight ids st = nodes_weight ids ns + weight ids st')%nat.
Proof.
  induction ns as [|s r IH]; intros [|k] st st' H; simpl in *; try discriminate.
  - inversion H; subst. lia.
  - specialize (IH k st st' H). lia.
Qed.

(* a step never changes the connections *)
Lemma handle_update_conns st u recv : ns_conns (fst (handle_update st u recv)) = ns_conns st.
Proof.
  unfold handle_update.
  destruct (u_origin u =? 0); [reflexivity|].
  destruct (negb (conns_pos (u_conns u))); [reflexivity|].
  destruct (u_origin u =? ns_self st).
  { destruct (u_epoch u =? ns_epoch st); [reflexivity|].
    destruct (u_susp u =? ns_epoch st); [reflexivity|].
    destruct (ns_epoch st <? u_epoch u); reflexivity. }
  destruct (mem_N (u_id u) (ns_seen st)); [reflexivity|].
  destruct (negb (u_susp u =? 0)); [reflexivity|].
  destruct (match aget (u_origin u) (ns_info st) with Some p => lex_le (u_epoch u, u_seq u) p | None => false end);
    reflexivity.
Qed.

Lemma unseen_mono ids st st' :
  (forall x, mem_N x (ns_seen st) = true -> mem_N x (ns_seen st') = true) ->
  (unseen ids st' <= unseen ids st)%nat.
Proof.
  intro H. unfold unseen. induction ids as [|x r IH]; simpl; [lia|].
  destruct (mem_N x (ns_seen st)) eqn:E.
  - rewrite (H x E). simpl. exact IH.
  - simpl. destruct (mem_N x (ns_seen st')); simpl; lia.
Qed.

Lemma unseen_strict ids st st' x :
  NoDup ids -> In x ids ->
  (forall y, mem_N y (ns_seen st) = true -> mem_N y (ns_seen st') = true) ->
  mem_N x (ns_seen st) = false -> mem_N x (ns_seen st') = true ->
  (unseen ids st' + 1 <= unseen ids st)%nat.
Proof.
  intros Hnd Hin Hm Hf Ht. unfold unseen.
  induction ids as [|y r IH]; [destruct Hin|].
  inversion Hnd as [|? ? Hny Hnd']; subst. simpl.
  destruct Hin as [->|Hin].
  - rewrite Hf, Ht. simpl.
    pose proof (unseen_mono r st st' Hm) as Hle. unfold unseen in Hle. lia.
  - specialize (IH Hnd' Hin).
    destruct (mem_N y (ns_seen st)) eqn:E.
    + rewrite (Hm y E). simpl. exact IH.
    + simpl. destruct (mem_N y (ns_seen st')); simpl; lia.
Qed.

Lemma relay_msgs_len self acts : length (relay_msgs self acts) = length (relay_obs acts).
Proof.
  unfold relay_msgs, relay_obs. induction acts as [|a r IH]; simpl; [reflexivity|].
  destruct a; simpl; rewrite ?app_length; simpl; lia.
Qed.

Lemma filter_len_le {A} (f : A -> bool) l : (length (filter f l) <= length l)%nat.
Proof. induction l as [|x r IH]; simpl; [lia|]. destruct (f x); simpl; lia. Qed.

Lemma relays_len st u recv : (length (relays st u recv) <= length (ns_conns st))%nat.
Proof.
  unfold relays. rewrite map_length. apply filter_len_le.
Qed.

Lemma relay_obs_relays st u recv : length (relay_obs (relays st u recv)) = length (relays st u recv).
Proof.
  unfold relays. induction (filter (fun c => negb (c =? recv)) (ns_conns st)) as [|c r IH];
    simpl; [reflexivity|]. now rewrite IH.
Qed.

Lemma relay_obs_app a b : relay_obs (a ++ b) = relay_obs a ++ relay_obs b.
Proof. unfold relay_obs. apply flat_map_app. Qed.

Lemma relays_len' st' u recv n :
  length (ns_conns st') = n -> (length (relay_obs (relays st' u recv)) <= n)%nat.
Proof. intros <-. rewrite relay_obs_relays. apply relays_len. Qed.

(* number of relays of one step is bounded by the degree *)
Lemma step_relays_bound st u recv :
  (length (relay_obs (snd (handle_update st u recv))) <= length (ns_conns st))%nat.
Proof.
  unfold handle_update.
  destruct (u_origin u =? 0); [simpl; lia|].
  destruct (negb (conns_pos (u_conns u))); [simpl; lia|].
  destruct (u_origin u =? ns_self st).
  { destruct (u_epoch u =? ns_epoch st); [simpl; lia|].
    destruct (u_susp u =? ns_epoch st); [simpl; lia|].
    destruct (ns_epoch st <? u_epoch u); [|simpl; lia].
    destruct (ns_conns st); simpl; lia. }
  destruct (mem_N (u_id u) (ns_seen st)); [simpl; lia|].
  destruct (negb (u_susp u =? 0)).
  { cbn [snd]. apply relays_len'. reflexivity. }
  destruct (match aget (u_origin u) (ns_info st) with Some p => lex_le (u_epoch u, u_seq u) p | None => false end);
    [simpl; lia|].
  cbn [snd]. rewrite !relay_obs_app, !app_length.
  match goal with |- (length (relay_obs ?a) + (length (relay_obs ?b) + _) <= _)%nat =>
    assert (relay_obs a = []) as ->; [|assert (relay_obs b = []) as ->] end.
  - destruct (negb (amem (u_origin u) (ns_info st))); reflexivity.
  - destruct (negb (conns_equal (u_conns u) (aget (u_origin u) (ns_known st)))); reflexivity.
  - cbn [length Nat.add]. apply relays_len'. reflexivity.
Qed.

Lemma relay_obs_pos_relays_id acts :
  (0 < length (relay_obs acts))%nat -> exists x, relays_id x acts = true.
Proof.
  induction acts as [|a r IH]; simpl; [lia|].
  destruct a as [c u| | |]; simpl.
  - intros _. exists (u_id u). unfold relays_id. simpl. now rewrite N.eqb_refl.
  - intro H. destruct (IH H) as [x Hx]. exists x. exact Hx.
  - intro H. destruct (IH H) as [x Hx]. exists x. exact Hx.
  - intro H. destruct (IH H) as [x Hx]. exists x. exact Hx.
Qed.

(* the heart: one node step pays for its relays out of its own weight *)
Lemma node_step_weight ids st u recv :
  NoDup ids -> In (u_id u) ids ->
  (weight ids (fst (handle_update st u recv)) + length (relay_obs (snd (handle_update st u recv)))
   <= weight ids st)%nat.
Proof.
  intros Hnd Hin.
  pose proof (handle_update_conns st u recv) as Hc.
  pose proof (step_relays_bound st u recv) as Hb.
  pose proof (fun x => seen_mono_step st (Recv u recv) x I) as Hm. cbn [step] in Hm.
  pose proof (relay_marks_seen st u recv) as Hs.
  assert (Hid : forall c u', In (Relay c u') (snd (handle_update st u recv)) -> u_id u' = u_id u).
  { intros c u' H. apply relay_never_back in H. tauto. }
  destruct (handle_update st u recv) as [st' acts]. cbn [fst snd] in *.
  unfold weight. rewrite Hc.
  destruct (length (relay_obs acts)) as [|r] eqn:Er.
  - pose proof (unseen_mono ids st st' Hm). nia.
  - assert (Hpos : (0 < length (relay_obs acts))%nat) by lia.
    destruct (relay_obs_pos_relays_id _ Hpos) as [x Hx].
    assert (x = u_id u).
    { pose proof Hx as Hx2. apply relays_id_true in Hx2 as [c [u' [Hin' Hx']]].
      rewrite <- Hx'. eapply Hid. exact Hin'. }
    subst x. destruct (Hs (u_id u) Hx) as [Hf Ht].
    pose proof (unseen_strict ids st st' (u_id u) Hnd Hin Hm Hf Ht). nia.
Qed.

Lemma relay_msgs_ids self acts m :
  In m (relay_msgs self acts) -> exists c, In (Relay c (m_upd m)) acts.
Proof.
  unfold relay_msgs. rewrite in_flat_map. intros [a [Ha Hm]].
  destruct a; simpl in Hm; try tauto. destruct Hm as [<-|[]]. simpl. eauto.
Qed.

(* every enabled step strictly lowers the potential, by at least one, and keeps the invariant;
   the messages it creates are paid for by the nodes' weight *)
Lemma wstep_potential ids w l w' n :
  flight_ids_in ids w -> wstep w l = Some (w', n) ->
  flight_ids_in ids w'
  /\ (potential ids w' + 1 <= potential ids w)%nat
  /\ (nodes_weight ids (w_nodes w') + n <= nodes_weight ids (w_nodes w))%nat.
Proof.
  intros [Hnd Hfl] Hstep. unfold potential. destruct l as [k|k]; simpl in Hstep.
  - destruct (nth_error (w_flight w) k) as [m|] eqn:Em; [|discriminate].
    assert (Hmin : In m (w_flight w)) by (eapply nth_error_In; eauto).
    pose proof (remove_nth_len _ _ _ Em) as Hlen.
    destruct (nth_error (w_nodes w) (N.to_nat (m_to m))) as [st|] eqn:En.
    + pose proof (node_step_weight ids st (m_upd m) (m_from m) Hnd (Hfl m Hmin)) as Hw.
      assert (Hid : forall c u', In (Relay c u') (snd (handle_update st (m_upd m) (m_from m))) ->
                                 u_id u' = u_id (m_upd m)).
      { intros c u' H. apply relay_never_back in H. tauto. }
      destruct (handle_update st (m_upd m) (m_from m)) as [st' acts]. cbn [fst snd] in *.
      inversion Hstep; subst; clear Hstep. cbn [w_nodes w_flight].
      pose proof (nodes_weight_update ids (w_nodes w) _ st st' En) as Hu.
      rewrite app_length, relay_msgs_len. repeat split.
      * exact Hnd.
      * intros m' Hm'. apply in_app_or in Hm' as [Hm'|Hm'].
        -- apply Hfl. eapply remove_nth_In; eauto.
        -- apply relay_msgs_ids in Hm' as [c Hc]. rewrite (Hid _ _ Hc). now apply Hfl.
      * lia.
      * lia.
    + inversion Hstep; subst; clear Hstep. cbn [w_nodes w_flight]. repeat split; auto; try lia.
      intros m' Hm'. apply Hfl. eapply remove_nth_In; eauto.
  - destruct (nth_error (w_flight w) k) as [m|] eqn:Em; [|discriminate].
    pose proof (remove_nth_len _ _ _ Em) as Hlen.
    inversion Hstep; subst; clear Hstep. cbn [w_nodes w_flight]. repeat split; auto; try lia.
    intros m' Hm'. apply Hfl. eapply remove_nth_In; eauto.
Qed.

(* FLOODING TERMINATES.  From any world whose in-flight update IDs are among [ids], every
   execution — any delivery order, any loss — has at most [potential] steps, and the total
   number of relay messages ever created is at most the sum over the nodes of
   degree x (number of those IDs the node has not seen): at most sum-of-degrees per update ID. *)
Theorem flooding_terminates ids : forall ls w w' n,
  flight_ids_in ids w -> wrun w ls = Some (w', n) ->
  (length ls + potential ids w' <= potential ids w)%nat
  /\ (n + nodes_weight ids (w_nodes w') <= nodes_weight ids (w_nodes w))%nat
  /\ flight_ids_in ids w'.
Proof.
  induction ls as [|l r IH]; intros w w' n Hinv Hrun; simpl in Hrun.
  - inversion Hrun; subst. cbn [length]. split; [lia|]. split; [lia|]. exact Hinv.
  - destruct (wstep w l) as [[w1 n1]|] eqn:Es; [|discriminate].
    destruct (wrun w1 r) as [[w2 n2]|] eqn:Er; [|discriminate].
    inversion Hrun; subst; clear Hrun.
    destruct (wstep_potential ids w l w1 n1 Hinv Es) as [Hinv1 [Hp Hn]].
    destruct (IH w1 w' n2 Hinv1 Er) as [Hp2 [Hn2 Hinv2]].
    cbn [length]. split; [lia|]. split; [lia|]. exact Hinv2.
Qed.

Corollary flooding_bound ids ls w w' n :
  flight_ids_in ids w -> wrun w ls = Some (w', n) ->
  (length ls <= potential ids w)%nat /\ (n <= nodes_weight ids (w_nodes w))%nat.
Proof.
  intros H1 H2. destruct (flooding_terminates ids ls w w' n H1 H2) as [A [B _]]. lia.
Qed.

(* when nothing is enabled any more the network is empty *)
Lemma stuck_iff_empty w : (forall l, wstep w l = None) <-> w_flight w = [].
Proof.
  split.
  - intro H. destruct (w_flight w) as [|m r] eqn:E; [reflexivity|].
    specialize (H (Drop 0)). simpl in H. rewrite E in H. discriminate.
  - intros E l. destruct l as [k|k]; simpl; rewrite E; destruct k; reflexivity.
Qed.
