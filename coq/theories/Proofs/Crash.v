(* Proofs/Crash.v — property C04 for every crash point of the daemon outside the truncate->write
   windows: invariant of the interleaved histories of daemon and producer, analysis of the cut
   operation, recovery of an intact record, the producer's run to its end, and repeated
   restart cycles. *)
From Coq Require Import ZArith Lia ZifyN ZifyNat ZifyBool.
From Receptor Require Import Model.Crash Proofs.Status.
Open Scope N_scope.

(* ---------- what the producer has appended ---------- *)
Definition appended (op : list mstep) : bytes :=
  match op with
  | [MOp (UAppend FStdout b)] => b
  | _ => []
  end.
Definition stdout_of_ops (ops : list (list mstep)) : bytes := flat_map appended ops.

Lemma stdout_of_ops_app a b : stdout_of_ops (a ++ b) = stdout_of_ops a ++ stdout_of_ops b.
Proof. apply flat_map_app. Qed.

Lemma stdout_of_ticks acc chunks rem : stdout_of_ops (ticks acc chunks rem) = concat chunks.
Proof.
  revert acc; induction chunks as [|c r IH]; intro acc; [reflexivity|].
  simpl. now rewrite IH.
Qed.

(* shapes of the producer's operations *)
Inductive rshape (sc : scenario) : list mstep -> Prop :=
| RS_first : rshape sc (upd_op (UBasic S_PENDING (SzConst 0)))
| RS_create : rshape sc (fs_op (UOpenCreate FStdout))
| RS_append c : rshape sc (fs_op (UAppend FStdout c))
| RS_tick sz : rshape sc (upd_op (UBasic S_RUNNING sz)).

Lemma ticks_shape sc acc chunks rem op : In op (ticks acc chunks rem) -> rshape sc op.
Proof.
  revert acc; induction chunks as [|c r IH]; intros acc H; [contradiction|].
  simpl in H. destruct H as [<-|[<-|H]]; [constructor|constructor|now apply (IH _ H)].
Qed.

Definition final_op (sc : scenario) : list mstep :=
  upd_op (UBasic (final_state sc)
                 (if is_remote sc then SzConst (N.of_nat (length (sc_output sc))) else SzStdout)).

Definition r_body (sc : scenario) : list (list mstep) :=
  if is_remote sc then ticks 0 (sc_chunks sc) true
  else upd_op (UBasic S_PENDING (SzConst 0)) :: fs_op (UOpenCreate FStdout) :: ticks 0 (sc_chunks sc) false.

Lemma r_prog_split sc : r_prog sc = r_body sc ++ [final_op sc].
Proof. unfold r_prog, r_body, final_op. destruct (is_remote sc); reflexivity. Qed.

Lemma r_body_shape sc op : In op (r_body sc) -> rshape sc op.
Proof.
  unfold r_body. destruct (is_remote sc); intro H.
  - now apply (ticks_shape sc _ _ _ _ H).
  - destruct H as [<-|[<-|H]]; [constructor|constructor|now apply (ticks_shape sc _ _ _ _ H)].
Qed.

Lemma r_body_stdout sc : stdout_of_ops (r_body sc) = sc_output sc.
Proof.
  unfold r_body, sc_output. destruct (is_remote sc); simpl; apply stdout_of_ticks.
Qed.

Lemma r_prog_length sc : length (r_prog sc) = S (length (r_body sc)).
Proof. rewrite r_prog_split, app_length. simpl. lia. Qed.

(* the m-th operation of the producer: the final one exactly at the last index *)
Lemma r_prog_nth sc m op : nth_error (r_prog sc) m = Some op ->
  (S m < length (r_prog sc))%nat /\ rshape sc op \/
  (S m = length (r_prog sc) /\ op = final_op sc).
Proof.
  intro H. rewrite r_prog_split in H. rewrite r_prog_length.
  destruct (Nat.lt_ge_cases m (length (r_body sc))) as [Hl|Hl].
  - left. split; [lia|]. rewrite nth_error_app1 in H by exact Hl.
    apply r_body_shape. eapply nth_error_In; eassumption.
  - right. rewrite nth_error_app2 in H by exact Hl.
    destruct (m - length (r_body sc))%nat as [|k] eqn:E.
    + simpl in H. inversion H. split; [lia|reflexivity].
    + simpl in H. destruct k; discriminate.
Qed.

Lemma firstn_snoc {A} (l : list A) m x : nth_error l m = Some x -> firstn (S m) l = firstn m l ++ [x].
Proof.
  revert m; induction l as [|y l IH]; intros [|m] H; simpl in *; try discriminate.
  - now inversion H.
  - f_equal. now apply IH.
Qed.

Lemma firstn_r_body sc : firstn (length (r_body sc)) (r_prog sc) = r_body sc.
Proof. rewrite r_prog_split, firstn_app, Nat.sub_diag, firstn_all. simpl. apply app_nil_r. Qed.

(* ---------- the invariant of histories of whole operations ---------- *)
Definition ext_ok (sc : scenario) (n : nat) (e : extra) : Prop :=
  match sc_remote sc with
  | None => e = XNone \/ exists pid, e = XCmd pid
  | Some (node, rtype) =>
    exists nd rt ru st, e = XRemote nd rt ru st /\
      ((3 <= n)%nat -> nd = node /\ rt = rtype) /\ (st = true <-> (9 <= n)%nat)
  end.

Record rec_ok (sc : scenario) (strict : bool) (n m : nat) (s : status) : Prop := mkRecOk {
  ro_wtype : s_wtype s = sc_wtype sc;
  ro_ext : ext_ok sc n (s_extra s);
  ro_complete : strict = true -> st_complete (s_state s) = true -> m = length (r_prog sc);
  ro_pending : strict = true -> m = 0%nat -> s_state s = S_PENDING;
  ro_final : m = length (r_prog sc) ->
             s_state s = final_state sc /\ s_size s = N.of_nat (length (sc_output sc))
}.

Record J (sc : scenario) (strict : bool) (g : gstate) : Prop := mkJ {
  j_mem : (g_dn g <= 1)%nat -> g_dmem g = init_status sc;
  j_dir : (1 <= g_dn g)%nat -> uf_dir (g_fs g) = true;
  j_spawn : (1 <= g_rn g)%nat -> (d_spawn sc <= g_dn g)%nat;
  j_bound : (g_rn g <= length (r_prog sc))%nat;
  j_rec : (2 <= g_dn g)%nat ->
          exists s, uf_status (g_fs g) = Some (encode s) /\ rec_ok sc strict (g_dn g) (g_rn g) s;
  j_out : stdout_content (g_fs g) = stdout_of_ops (firstn (g_rn g) (r_prog sc))
}.

Lemma J_weaken sc g : J sc true g -> J sc false g.
Proof.
  intros [A B C D E F]. constructor; auto.
  intro H. destruct (E H) as [s [Hs [R1 R2 R3 R4 R5]]]. exists s. split; [exact Hs|].
  constructor; auto; discriminate.
Qed.

Lemma J0 sc strict : J sc strict (g0 sc).
Proof.
  constructor; simpl; intros; try lia; try reflexivity.
Qed.

Lemma r_prog_pos sc : (1 <= length (r_prog sc))%nat.
Proof. rewrite r_prog_length. lia. Qed.

Lemma d_spawn_ge sc : (8 <= d_spawn sc)%nat.
Proof. unfold d_spawn. destruct (is_remote sc); lia. Qed.

Lemma apply_upd_wtype x f s : s_wtype (apply_upd x f s) = s_wtype s.
Proof. destruct f; reflexivity. Qed.

Lemma save_op_full x m :
  exec_steps (mkP x m false) save_op = mkP (with_status x (encode m)) m false.
Proof.
  unfold save_op, exec_steps. cbn [fold_left]. rewrite !exec_op, exec_store.
  unfold uapply. cbn [uget uset uf_dir uf_status uf_lock uf_stdin uf_stdout].
  now rewrite write_at_nil.
Qed.

(* a daemon-side rewrite of an intact record: what matters of the update *)
Inductive dupd_ok (sc : scenario) (n : nat) : upd -> Prop :=
| DU_pending : (3 <= n)%nat -> (S (S n) <= d_spawn sc)%nat -> dupd_ok sc n (UBasic S_PENDING (SzConst 0))
| DU_pid pid : sc_remote sc = None -> dupd_ok sc n (USetPid pid)
| DU_clear : sc_remote sc = None -> dupd_ok sc n UClearExtra
| DU_bind node rtype : sc_remote sc = Some (node, rtype) -> n = 2%nat -> dupd_ok sc n (URemoteBind node rtype)
| DU_runit id : sc_remote sc <> None -> n = 7%nat -> dupd_ok sc n (URemoteUnit id)
| DU_started : sc_remote sc <> None -> n = 8%nat -> dupd_ok sc n URemoteStarted.

Lemma J_dupd sc strict g f da ra :
  J sc strict g -> (2 <= g_dn g)%nat -> dupd_ok sc (g_dn g) f ->
  let p := exec_steps (mkP (g_fs g) (g_dmem g) false) (upd_op f) in
  J sc strict (mkG (p_fs p) (p_mem p) (g_rmem g) (S (g_dn g)) (g_rn g) da ra).
Proof.
  intros HJ Hn Hf. destruct (j_rec _ _ _ HJ Hn) as [s [Hs Hr]].
  cbv zeta. rewrite (upd_op_full _ _ f s Hs). cbn [p_fs p_mem].
  constructor; cbn [g_dn g_rn g_fs g_dmem]; try lia.
  - intros _. cbn [with_status uf_dir]. apply (j_dir _ _ _ HJ). lia.
  - intro H. pose proof (j_spawn _ _ _ HJ H). lia.
  - exact (j_bound _ _ _ HJ).
  - intros _. eexists. split; [reflexivity|].
    destruct Hr as [R1 R2 R3 R4 R5].
    assert (Hm0 : (S (g_dn g) <= d_spawn sc)%nat -> g_rn g = 0%nat).
    { intro H. destruct (g_rn g) eqn:E; [reflexivity|].
      pose proof (j_spawn _ _ _ HJ ltac:(lia)). lia. }
    pose proof (r_prog_pos sc) as Hp.
    constructor.
    + now rewrite apply_upd_wtype.
    + unfold ext_ok in *. inversion Hf; subst; cbn [apply_upd s_extra].
      * (* pending: extra unchanged; the binding facts only grow with n *)
        destruct (sc_remote sc) as [[node rtype]|] eqn:Er; [|exact R2].
        destruct R2 as [nd [rt [ru [st [E [B S]]]]]]. exists nd, rt, ru, st. split; [exact E|].
        assert (Hsp : d_spawn sc = 9%nat) by (unfold d_spawn, is_remote; now rewrite Er).
        split; [intro; apply B; lia|]. split; intro X; [apply S in X; lia|lia].
      * rewrite H. right. now exists pid.
      * rewrite H. now left.
      * rewrite H in *. destruct R2 as [nd [rt [ru [st [E [B S]]]]]]. rewrite E.
        exists node, rtype, ru, st. split; [reflexivity|]. split; [auto|].
        split; intro X; [apply S in X; lia|lia].
      * destruct (sc_remote sc) as [[node rtype]|]; [|congruence].
        destruct R2 as [nd [rt [ru [st [E [B S]]]]]]. rewrite E.
        exists nd, rt, id, st. split; [reflexivity|]. split; [intro; apply B; lia|].
        split; intro X; [apply S in X; lia|lia].
      * destruct (sc_remote sc) as [[node rtype]|]; [|congruence].
        destruct R2 as [nd [rt [ru [st [E [B S]]]]]]. rewrite E.
        exists nd, rt, ru, true. split; [reflexivity|]. split; [intro; apply B; lia|].
        split; intro X; [lia|reflexivity].
    + intros Hst Hc. inversion Hf; subst; cbn [apply_upd s_state] in Hc; try (now apply R3).
    + intros Hst Hm. inversion Hf; subst; cbn [apply_upd s_state]; try (now apply R4). reflexivity.
    + intro Hm. inversion Hf; subst; cbn [apply_upd s_state s_size]; try (now apply R5).
      specialize (Hm0 ltac:(lia)). lia.
  - cbn [with_status stdout_content uf_stdout]. exact (j_out _ _ _ HJ).
Qed.

(* ---------- the daemon's operations ---------- *)
Inductive dshape (sc : scenario) (n : nat) : list mstep -> Prop :=
| DS_mkdir : n = 0%nat -> dshape sc n (fs_op UMkdir)
| DS_save : n = 1%nat -> dshape sc n save_op
| DS_stdin o : (2 <= n)%nat -> (sc_remote sc <> None -> (3 <= n <= 6)%nat) ->
               (o = UOpenCreate FStdin \/ exists b, o = UAppend FStdin b) -> dshape sc n (fs_op o)
| DS_spawn : (2 <= n)%nat -> sc_remote sc = None -> dshape sc n []
| DS_upd f : (2 <= n)%nat -> dupd_ok sc n f -> dshape sc n (upd_op f).

Lemma d_prog_nth sc n op : nth_error (d_prog sc) n = Some op -> dshape sc n op.
Proof.
  unfold d_prog. destruct (sc_remote sc) as [[node rtype]|] eqn:Er; intro H.
  - assert (Hsp : d_spawn sc = 9%nat) by (unfold d_spawn, is_remote; now rewrite Er).
    assert (Hne : sc_remote sc <> None) by (rewrite Er; discriminate).
    destruct n as [|[|[|[|[|[|[|n]]]]]]]; [simpl in H; inversion H; subst op..|].
    + now constructor.
    + now constructor.
    + apply DS_upd; [lia|]. now apply DU_bind.
    + apply DS_stdin; [lia|lia|now left].
    + apply DS_upd; [lia|]. apply DU_pending; lia.
    + apply DS_stdin; [lia|lia|right; eauto].
    + apply DS_upd; [lia|]. apply DU_pending; lia.
    + simpl in H. destruct (sc_reach sc); simpl in H.
      * destruct n as [|[|n]]; [simpl in H; inversion H; subst op..|].
        -- apply DS_upd; [lia|]. now apply DU_runit.
        -- apply DS_upd; [lia|]. now apply DU_started.
        -- destruct n; discriminate.
      * destruct n; discriminate.
  - assert (Hsp : d_spawn sc = 8%nat) by (unfold d_spawn, is_remote; now rewrite Er).
    destruct n as [|[|[|[|[|[|[|[|[|[|n]]]]]]]]]]; [simpl in H; inversion H; subst op..|].
    + now constructor.
    + now constructor.
    + apply DS_stdin; [lia|congruence|now left].
    + apply DS_upd; [lia|]. apply DU_pending; lia.
    + apply DS_stdin; [lia|congruence|right; eauto].
    + apply DS_upd; [lia|]. apply DU_pending; lia.
    + apply DS_upd; [lia|]. apply DU_pending; lia.
    + apply DS_spawn; [lia|exact Er].
    + apply DS_upd; [lia|]. now apply DU_pid.
    + apply DS_upd; [lia|]. now apply DU_clear.
    + destruct n; discriminate.
Qed.

Lemma d_next_nth sc g op : d_next sc g = Some op -> nth_error (d_prog sc) (g_dn g) = Some op.
Proof.
  unfold d_next. destruct (negb (g_dalive g)); [discriminate|].
  destruct (is_remote sc); [auto|].
  destruct (Nat.eqb (g_dn g) d_wait && g_ralive g && negb (r_finished sc g)); [discriminate|auto].
Qed.

Lemma ext_ok_step sc n e :
  ext_ok sc n e -> (sc_remote sc <> None -> (3 <= n <= 6)%nat) -> ext_ok sc (S n) e.
Proof.
  unfold ext_ok. destruct (sc_remote sc) as [[node rtype]|]; [|auto].
  intros [nd [rt [ru [st [E [B S]]]]]] H. specialize (H ltac:(discriminate)).
  exists nd, rt, ru, st. split; [exact E|]. split; [intro; apply B; lia|].
  split; intro X; [apply S in X; lia|lia].
Qed.

(* an operation that does not touch the record or stdout *)
Lemma J_dother sc strict g x' da ra :
  J sc strict g -> (2 <= g_dn g)%nat ->
  (sc_remote sc <> None -> (3 <= g_dn g <= 6)%nat) ->
  uf_dir x' = uf_dir (g_fs g) -> uf_status x' = uf_status (g_fs g) -> uf_stdout x' = uf_stdout (g_fs g) ->
  J sc strict (mkG x' (g_dmem g) (g_rmem g) (S (g_dn g)) (g_rn g) da ra).
Proof.
  intros HJ Hn Hrem Hd Hs Ho.
  constructor; cbn [g_dn g_rn g_fs g_dmem]; try lia.
  - intros _. rewrite Hd. apply (j_dir _ _ _ HJ). lia.
  - intro H. pose proof (j_spawn _ _ _ HJ H). lia.
  - exact (j_bound _ _ _ HJ).
  - intros _. destruct (j_rec _ _ _ HJ Hn) as [s [Es [R1 R2 R3 R4 R5]]]. exists s.
    split; [now rewrite Hs|]. constructor; auto. now apply ext_ok_step.
  - unfold stdout_content. rewrite Ho. exact (j_out _ _ _ HJ).
Qed.

Lemma J_gstep_d sc strict g : J sc strict g -> J sc strict (gstep sc g true).
Proof.
  intro HJ. unfold gstep. destruct (d_next sc g) as [op|] eqn:E; [|exact HJ].
  apply d_next_nth, d_prog_nth in E.
  destruct E as [Hn|Hn|o Hn Hrem Ho|Hn Hloc|f Hn Hf].
  - (* mkdir *)
    unfold fs_op, exec_steps. cbn [fold_left]. rewrite exec_op. cbn [p_fs p_mem].
    constructor; cbn [g_dn g_rn g_fs g_dmem]; rewrite ?Hn; try lia.
    + intros _. apply (j_mem _ _ _ HJ). lia.
    + intros _. reflexivity.
    + intro H. pose proof (j_spawn _ _ _ HJ H). pose proof (d_spawn_ge sc). lia.
    + exact (j_bound _ _ _ HJ).
    + exact (j_out _ _ _ HJ).
  - (* Save *)
    rewrite save_op_full. cbn [p_fs p_mem].
    assert (Hm : g_dmem g = init_status sc) by (apply (j_mem _ _ _ HJ); lia).
    assert (Hm0 : g_rn g = 0%nat).
    { destruct (g_rn g) eqn:E; [reflexivity|]. pose proof (j_spawn _ _ _ HJ ltac:(lia)).
      pose proof (d_spawn_ge sc). lia. }
    pose proof (r_prog_pos sc) as Hp.
    constructor; cbn [g_dn g_rn g_fs g_dmem]; rewrite ?Hn; try lia.
    + intros _. cbn [with_status uf_dir]. apply (j_dir _ _ _ HJ). lia.
    + intros _. eexists. split; [reflexivity|]. rewrite Hm.
      constructor; unfold init_status; cbn [s_wtype s_extra s_state s_size].
      * reflexivity.
      * unfold ext_ok, is_remote. destruct (sc_remote sc) as [[node rtype]|].
        -- exists [], [], [], false. split; [reflexivity|]. split; [lia|]. split; [discriminate|lia].
        -- right. now exists 0.
      * discriminate.
      * reflexivity.
      * lia.
    + cbn [with_status stdout_content uf_stdout]. exact (j_out _ _ _ HJ).
  - (* stdin *)
    unfold fs_op, exec_steps. cbn [fold_left]. rewrite exec_op. cbn [p_fs p_mem].
    apply J_dother; auto; destruct Ho as [->|[b ->]]; unfold uapply; cbn [uget];
      destruct (uf_stdin (g_fs g)); reflexivity.
  - (* the runner is started: no step *)
    unfold exec_steps. cbn [fold_left p_fs p_mem].
    apply J_dother; auto. intro H. congruence.
  - now apply J_dupd.
Qed.

(* ---------- the producer's operations ---------- *)
Lemma r_next_nth sc g op : r_next sc g = Some op ->
  (d_spawn sc <= g_dn g)%nat /\ nth_error (r_prog sc) (g_rn g) = Some op.
Proof.
  unfold r_next, r_spawned. destruct (Nat.leb (d_spawn sc) (g_dn g)) eqn:E; [|discriminate].
  apply Nat.leb_le in E. cbn [negb].
  destruct (is_remote sc); [destruct (g_dalive g)|destruct (g_ralive g)]; try discriminate; auto.
Qed.

Lemma appended_upd f : appended (upd_op f) = [].
Proof. reflexivity. Qed.

Lemma stdout_snoc sc m op : nth_error (r_prog sc) m = Some op ->
  stdout_of_ops (firstn (S m) (r_prog sc)) = stdout_of_ops (firstn m (r_prog sc)) ++ appended op.
Proof.
  intro H. rewrite (firstn_snoc _ _ _ H), stdout_of_ops_app. unfold stdout_of_ops at 3. simpl.
  now rewrite app_nil_r.
Qed.

(* a producer-side rewrite of an intact record, by whichever process and in-memory record *)
Lemma J_rupd sc strict g mem st sz dm' rm' da ra :
  J sc strict g -> (d_spawn sc <= g_dn g)%nat ->
  nth_error (r_prog sc) (g_rn g) = Some (upd_op (UBasic st sz)) ->
  ((S (g_rn g) < length (r_prog sc))%nat /\ st_complete st = false \/
   S (g_rn g) = length (r_prog sc) /\ upd_op (UBasic st sz) = final_op sc) ->
  let p := exec_steps (mkP (g_fs g) mem false) (upd_op (UBasic st sz)) in
  J sc strict (mkG (p_fs p) dm' rm' (g_dn g) (S (g_rn g)) da ra).
Proof.
  intros HJ Hsp Hnth Hcase. pose proof (d_spawn_ge sc) as Hge.
  destruct (j_rec _ _ _ HJ ltac:(lia)) as [s [Hs [R1 R2 R3 R4 R5]]].
  cbv zeta. rewrite (upd_op_full _ _ _ s Hs). cbn [p_fs p_mem].
  assert (Hlt : (g_rn g < length (r_prog sc))%nat) by (apply nth_error_Some; congruence).
  constructor; cbn [g_dn g_rn g_fs g_dmem]; try lia.
  - intros _. cbn [with_status uf_dir]. apply (j_dir _ _ _ HJ). lia.
  - intros _. eexists. split; [reflexivity|].
    constructor; cbn [apply_upd s_wtype s_extra s_state s_size]; auto.
    + intros Hst Hc. destruct Hcase as [[_ Hn]|[Hl _]]; [congruence|exact Hl].
    + intros _ H. lia.
    + intro Hl. destruct Hcase as [[Hl' _]|[_ Hf]]; [lia|].
      unfold final_op in Hf. inversion Hf; subst st. split; [reflexivity|].
      destruct (is_remote sc); subst sz; [reflexivity|].
      unfold stdout_size. rewrite (j_out _ _ _ HJ).
      assert (Hm : g_rn g = length (r_body sc)) by (rewrite r_prog_length in Hl; lia).
      now rewrite Hm, firstn_r_body, r_body_stdout.
  - cbn [with_status stdout_content uf_stdout]. rewrite (stdout_snoc _ _ _ Hnth), appended_upd, app_nil_r.
    exact (j_out _ _ _ HJ).
Qed.

(* a producer-side operation on stdout only *)
Lemma J_rout sc strict g x' c dm' rm' da ra op :
  J sc strict g -> (d_spawn sc <= g_dn g)%nat ->
  nth_error (r_prog sc) (g_rn g) = Some op -> (S (g_rn g) < length (r_prog sc))%nat ->
  appended op = c ->
  uf_dir x' = uf_dir (g_fs g) -> uf_status x' = uf_status (g_fs g) ->
  stdout_content x' = stdout_content (g_fs g) ++ c ->
  J sc strict (mkG x' dm' rm' (g_dn g) (S (g_rn g)) da ra).
Proof.
  intros HJ Hsp Hnth Hlt Hc Hd Hs Ho. pose proof (d_spawn_ge sc) as Hge.
  constructor; cbn [g_dn g_rn g_fs g_dmem]; try lia.
  - intros _. rewrite Hd. apply (j_dir _ _ _ HJ). lia.
  - intros _. destruct (j_rec _ _ _ HJ ltac:(lia)) as [s [Es [R1 R2 R3 R4 R5]]]. exists s.
    split; [now rewrite Hs|]. constructor; auto.
    + intros Hst Hcomp. specialize (R3 Hst Hcomp). lia.
    + intros _ H. lia.
    + intro H. lia.
  - rewrite Ho, (stdout_snoc _ _ _ Hnth), Hc. now rewrite (j_out _ _ _ HJ).
Qed.

Lemma J_gstep_r sc strict g : J sc strict g -> J sc strict (gstep sc g false).
Proof.
  intro HJ. unfold gstep. destruct (r_next sc g) as [op|] eqn:E; [|exact HJ].
  apply r_next_nth in E as [Hsp Hnth].
  assert (Hgoal : forall mem dm' rm' da ra,
             J sc strict (mkG (p_fs (exec_steps (mkP (g_fs g) mem false) op)) dm' rm'
                              (g_dn g) (S (g_rn g)) da ra)).
  { intros mem dm' rm' da ra.
    destruct (r_prog_nth _ _ _ Hnth) as [[Hlt Hsh]|[Hl Hop]].
    - destruct Hsh as [| |c|sz].
      + apply J_rupd; auto.
      + unfold fs_op, exec_steps. cbn [fold_left]. rewrite exec_op. cbn [p_fs].
        eapply (J_rout _ _ _ _ []); eauto; try reflexivity;
          unfold uapply; cbn [uget]; destruct (uf_stdout (g_fs g)) eqn:Eo;
          try reflexivity; unfold stdout_content; cbn [uset uf_stdout]; rewrite ?Eo; now rewrite ?app_nil_r.
      + unfold fs_op, exec_steps. cbn [fold_left]. rewrite exec_op. cbn [p_fs].
        eapply (J_rout _ _ _ _ c); eauto; try reflexivity;
          unfold uapply; cbn [uget]; destruct (uf_stdout (g_fs g)) eqn:Eo;
          try reflexivity; unfold stdout_content; cbn [uset uf_stdout]; rewrite ?Eo; reflexivity.
      + apply J_rupd; auto.
    - subst op. unfold final_op in *. apply J_rupd; auto. }
  destruct (is_remote sc); apply Hgoal.
Qed.

Lemma J_gstep sc strict g who : J sc strict g -> J sc strict (gstep sc g who).
Proof. destruct who; [apply J_gstep_d|apply J_gstep_r]. Qed.

Lemma J_grun sc strict sched : forall g, J sc strict g -> J sc strict (grun sc g sched).
Proof.
  induction sched as [|w r IH]; intros g H; [exact H|]. simpl. apply IH. now apply J_gstep.
Qed.

(* ---------- bookkeeping of runs ---------- *)
Lemma gstep_flags sc g w :
  g_dalive (gstep sc g w) = g_dalive g /\ g_ralive (gstep sc g w) = g_ralive g.
Proof.
  unfold gstep. destruct w.
  - destruct (d_next sc g); auto.
  - destruct (r_next sc g); auto. destruct (is_remote sc); auto.
Qed.

Lemma gstep_counters sc g w :
  (g_dn g <= g_dn (gstep sc g w))%nat /\ (g_rn g <= g_rn (gstep sc g w))%nat.
Proof.
  unfold gstep. destruct w.
  - destruct (d_next sc g); simpl; lia.
  - destruct (r_next sc g); [destruct (is_remote sc)|]; simpl; lia.
Qed.

Lemma grun_cons sc g w r : grun sc g (w :: r) = grun sc (gstep sc g w) r.
Proof. reflexivity. Qed.

Lemma grun_flags sc sched : forall g,
  g_dalive (grun sc g sched) = g_dalive g /\ g_ralive (grun sc g sched) = g_ralive g.
Proof.
  induction sched as [|w r IH]; intro g; [auto|]. rewrite grun_cons.
  destruct (IH (gstep sc g w)) as [A B]. destruct (gstep_flags sc g w) as [C D].
  split; congruence.
Qed.

Lemma grun_counters sc sched : forall g,
  (g_dn g <= g_dn (grun sc g sched))%nat /\ (g_rn g <= g_rn (grun sc g sched))%nat.
Proof.
  induction sched as [|w r IH]; intro g; [simpl; lia|]. rewrite grun_cons.
  destruct (IH (gstep sc g w)). destruct (gstep_counters sc g w). lia.
Qed.

Lemma gstep_r_idle sc g : r_next sc g = None -> gstep sc g false = g.
Proof. intro H. unfold gstep. now rewrite H. Qed.

Lemma grun_r_idle sc g k : r_next sc g = None -> grun sc g (repeat false k) = g.
Proof.
  intro H. induction k as [|k IH]; [reflexivity|].
  change (repeat false (S k)) with (false :: repeat false k).
  now rewrite grun_cons, (gstep_r_idle _ _ H).
Qed.

Lemma gstep_r_progress sc g op : r_next sc g = Some op ->
  g_dn (gstep sc g false) = g_dn g /\ g_rn (gstep sc g false) = S (g_rn g).
Proof. intro H. unfold gstep. rewrite H. destruct (is_remote sc); auto. Qed.

Definition r_enabled (sc : scenario) (g : gstate) : Prop :=
  r_spawned sc g = true /\ (if is_remote sc then g_dalive g = true else g_ralive g = true).

Lemma r_next_some sc g : r_enabled sc g -> (g_rn g < length (r_prog sc))%nat ->
  exists op, r_next sc g = Some op.
Proof.
  intros [Hs Ha] Hl. unfold r_next. rewrite Hs. cbn [negb].
  destruct (nth_error (r_prog sc) (g_rn g)) as [op|] eqn:E.
  - exists op. destruct (is_remote sc); now rewrite Ha.
  - apply nth_error_None in E. lia.
Qed.

Lemma r_enabled_step sc g : r_enabled sc g -> r_enabled sc (gstep sc g false).
Proof.
  intros [Hs Ha]. destruct (gstep_flags sc g false) as [A B].
  destruct (gstep_counters sc g false) as [C _]. split.
  - unfold r_spawned in *. apply Nat.leb_le. apply Nat.leb_le in Hs. lia.
  - destruct (is_remote sc); congruence.
Qed.

(* the producer, left alone, runs to the end of its program *)
Lemma grun_r_complete sc k : forall g,
  r_enabled sc g -> (g_rn g <= length (r_prog sc))%nat -> (length (r_prog sc) - g_rn g <= k)%nat ->
  g_rn (grun sc g (repeat false k)) = length (r_prog sc) /\
  g_dn (grun sc g (repeat false k)) = g_dn g.
Proof.
  induction k as [|k IH]; intros g He Hb Hk.
  - simpl. split; [lia|reflexivity].
  - change (repeat false (S k)) with (false :: repeat false k). rewrite grun_cons.
    destruct (Nat.eq_dec (g_rn g) (length (r_prog sc))) as [Heq|Hne].
    + assert (Hn : r_next sc g = None).
      { unfold r_next. destruct (negb (r_spawned sc g)); [reflexivity|].
        assert (nth_error (r_prog sc) (g_rn g) = None) by (apply nth_error_None; lia).
        destruct (is_remote sc); [destruct (g_dalive g)|destruct (g_ralive g)]; auto. }
      rewrite (gstep_r_idle _ _ Hn), (grun_r_idle _ _ _ Hn). split; [exact Heq|reflexivity].
    + destruct (r_next_some sc g He ltac:(lia)) as [op Hop].
      destruct (gstep_r_progress _ _ _ Hop) as [Hd Hr].
      destruct (IH (gstep sc g false) (r_enabled_step _ _ He) ltac:(lia) ltac:(lia)) as [A B].
      split; [exact A|congruence].
Qed.

(* ---------- the invariant does not see the lock file, the flags or the runner's memory ---------- *)
Lemma J_core sc strict g x' dm' rm' da ra :
  J sc strict g -> core x' = core (g_fs g) -> ((g_dn g <= 1)%nat -> dm' = g_dmem g) ->
  J sc strict (mkG x' dm' rm' (g_dn g) (g_rn g) da ra).
Proof.
  intros [A B C D E F] Hc Hm. unfold core in Hc. inversion Hc as [[H1 H2 H3 H4]].
  constructor; cbn [g_dn g_rn g_fs g_dmem]; auto.
  - intro H. rewrite (Hm H). auto.
  - rewrite H1. auto.
  - rewrite H2. auto.
  - unfold stdout_content. rewrite H4. exact F.
Qed.

Lemma window_upd f : window_cut (upd_op f) = Some 5%nat.
Proof. reflexivity. Qed.

(* ---------- the crash of the daemon outside the windows ---------- *)
Definition outside_window (sc : scenario) (g : gstate) (cut : nat) : Prop :=
  match snd (victim_next sc g false) with
  | Some o => match window_cut o with Some k => Nat.eqb cut k | None => false end
  | None => false
  end = false.

Lemma cut_core sc g cut op mem :
  J sc true g -> (d_ack sc <= g_dn g)%nat ->
  (d_next sc g = Some op \/ r_next sc g = Some op) ->
  Nat.leb (length op) cut = false ->
  match window_cut op with Some k => Nat.eqb cut k | None => false end = false ->
  core (p_fs (exec_steps (mkP (g_fs g) mem false) (firstn cut op))) = core (g_fs g).
Proof.
  intros HJ Hack Hop Hlen Hwin. apply Nat.leb_gt in Hlen.
  assert (Hn2 : (2 <= g_dn g)%nat) by (unfold d_ack in Hack; destruct (is_remote sc); lia).
  destruct (j_rec _ _ _ HJ Hn2) as [s [Hs _]].
  assert (Hupd : forall f, op = upd_op f ->
            core (p_fs (exec_steps (mkP (g_fs g) mem false) (firstn cut op))) = core (g_fs g)).
  { intros f ->. rewrite window_upd in Hwin. apply Nat.eqb_neq in Hwin.
    simpl in Hlen. apply (upd_op_cut _ _ _ s); [exact Hs|lia]. }
  assert (Hone : forall o, op = fs_op o ->
            core (p_fs (exec_steps (mkP (g_fs g) mem false) (firstn cut op))) = core (g_fs g)).
  { intros o ->. simpl in Hlen. assert (cut = 0%nat) by lia. subst cut. reflexivity. }
  destruct Hop as [Hd|Hr].
  - apply d_next_nth, d_prog_nth in Hd.
    destruct Hd as [Hn|Hn|o Hn Hrem Ho|Hn Hloc|f Hn Hf].
    + unfold d_ack in Hack. destruct (is_remote sc); lia.
    + unfold d_ack in Hack. destruct (is_remote sc); lia.
    + now apply (Hone o).
    + simpl in Hlen. lia.
    + now apply (Hupd f).
  - apply r_next_nth in Hr as [_ Hnth].
    destruct (r_prog_nth _ _ _ Hnth) as [[_ Hsh]|[_ ->]].
    + destruct Hsh; [eapply Hupd|eapply Hone|eapply Hone|eapply Hupd]; reflexivity.
    + eapply Hupd. reflexivity.
Qed.

Lemma gcrash_daemon sc g cut :
  J sc true g -> g_ralive g = true -> (d_ack sc <= g_dn g)%nat -> outside_window sc g cut ->
  let g2 := gcrash sc g false cut in
  J sc true g2 /\ g_dalive g2 = false /\ g_ralive g2 = true /\
  (g_dn g <= g_dn g2)%nat /\ (g_rn g <= g_rn g2)%nat.
Proof.
  intros HJ Hra Hack Hwin. unfold gcrash. cbn [andb].
  unfold outside_window in Hwin.
  destruct (victim_next sc g false) as [who [op|]] eqn:Ev; cbn [snd] in Hwin.
  - destruct (Nat.leb (length op) cut) eqn:El.
    + (* the operation is completed *)
      unfold kill. cbn [g_fs g_dmem g_rmem g_dn g_rn g_dalive g_ralive].
      destruct (gstep_flags sc g who) as [_ B]. destruct (gstep_counters sc g who) as [C D].
      pose proof (J_gstep sc true g who HJ) as HJ'.
      split; [|split; [reflexivity|split; [congruence|split; lia]]].
      apply (J_core sc true (gstep sc g who)); auto.
    + (* it is cut *)
      unfold kill. cbn [g_fs g_dmem g_rmem g_dn g_rn g_dalive g_ralive].
      split; [|split; [reflexivity|split; [exact Hra|split; lia]]].
      apply (J_core sc true g); auto.
      apply (cut_core sc g cut op); auto.
      unfold victim_next in Ev. cbn [andb] in Ev.
      destruct (is_remote sc && Nat.leb (d_spawn sc) (g_dn g)); inversion Ev; auto.
  - unfold kill. cbn [g_fs g_dmem g_rmem g_dn g_rn g_dalive g_ralive].
    split; [|split; [reflexivity|split; [exact Hra|split; lia]]]. apply (J_core sc true g); auto.
Qed.

(* ---------- the experiment, piece by piece ---------- *)
Definition g1of (sc : scenario) (cp : crashpoint) : gstate := grun sc (g0 sc) (cp_sched cp).
Definition g2of (sc : scenario) (cp : crashpoint) : gstate :=
  gcrash sc (g1of sc cp) (cp_runner cp) (cp_cut cp).
Definition g3of (sc : scenario) (cp : crashpoint) : gstate :=
  grun sc (g2of sc cp) (repeat (cp_runner cp) (cp_gap cp)).
Definition g4of (sc : scenario) (cp : crashpoint) (x4 : ufiles) (v : view) : gstate :=
  mkG x4 (v_status v) (g_rmem (g3of sc cp)) (g_dn (g3of sc cp)) (g_rn (g3of sc cp))
      (is_remote sc && v_monitored v) (g_ralive (g3of sc cp) && negb (is_remote sc)).
Definition g5of (sc : scenario) (cp : crashpoint) (x4 : ufiles) (v : view) : gstate :=
  if is_remote sc && negb (is_remote sc && v_monitored v) then g4of sc cp x4 v
  else grun sc (g4of sc cp x4 v) (rest_sched sc).
Definition vfof (sc : scenario) (cp : crashpoint) (x4 : ufiles) (v : view) : view :=
  if is_remote sc
  then (if is_remote sc && v_monitored v
        then mkView true true (follow (g_fs (g5of sc cp x4 v)) (v_status v)) true else v)
  else if v_monitored v
       then mkView (v_listed v) (v_known v) (follow (g_fs (g5of sc cp x4 v)) (v_status v)) true
       else v.
Definition beforeof (sc : scenario) (cp : crashpoint) : option status :=
  match record_of (g_fs (g2of sc cp)) with
  | Some r => Some r
  | None => record_of (g_fs (g1of sc cp))
  end.

Lemma experiment_eq sc cp x4 v :
  recover (sc_types sc) (g_fs (g3of sc cp)) = (x4, v) ->
  experiment sc cp =
  mkOut (Nat.leb (d_ack sc) (g_dn (g1of sc cp))) (r_spawned sc (g2of sc cp)) (beforeof sc cp)
        v (vfof sc cp x4 v) (g_fs (g5of sc cp x4 v))
        (snd (recover (sc_types sc) (g_fs (g5of sc cp x4 v)))).
Proof.
  intro H. unfold experiment. cbv zeta.
  fold (g1of sc cp). fold (g2of sc cp). fold (g3of sc cp). rewrite H. reflexivity.
Qed.

Lemma experiment_acked sc cp :
  o_acked (experiment sc cp) = Nat.leb (d_ack sc) (g_dn (g1of sc cp)).
Proof.
  destruct (recover (sc_types sc) (g_fs (g3of sc cp))) as [x4 v] eqn:E.
  now rewrite (experiment_eq _ _ _ _ E).
Qed.

(* ---------- [holds] from its clauses ---------- *)
Lemma beq_extra_refl e : beq_extra e e = true.
Proof.
  destruct e as [|p|n t u s]; simpl; [reflexivity|apply N.eqb_refl|].
  rewrite !beq_bytes_refl. now destruct s.
Qed.

Lemma beq_status_refl s : beq_status s s = true.
Proof. unfold beq_status. now rewrite !N.eqb_refl, beq_bytes_refl, beq_extra_refl. Qed.

Lemma holds_intro sc cp :
  let o := experiment sc cp in
  (o_acked o = true ->
   (v_listed (o_restart o) = true /\ s_wtype (v_status (o_restart o)) = sc_wtype sc /\
    extra_ok sc (o_before o) (o_restart o) = true) /\
   (forall b, o_before o = Some b -> st_complete (s_state b) = true ->
      (s_state (v_status (o_restart o)) = s_state b /\ s_size (v_status (o_restart o)) = s_size b) /\
      (s_state (v_status (o_final o)) = s_state b /\ s_size (v_status (o_final o)) = s_size b) /\
      stdout_content (o_final_fs o) = sc_output sc) /\
   (finished_before o = false -> producing sc cp o = true ->
      st_complete (s_state (v_status (o_final o))) = true /\
      s_size (v_status (o_final o)) = N.of_nat (length (sc_output sc)) /\
      stdout_content (o_final_fs o) = sc_output sc) /\
   (finished_before o = false -> producing sc cp o = false ->
      s_state (v_status (o_final o)) = S_FAILED) /\
   (st_complete (s_state (v_status (o_final o))) = true ->
      v_status (o_again o) = v_status (o_final o) /\ v_known (o_again o) = v_known (o_final o))) ->
  holds sc cp = true.
Proof.
  intros o H. unfold holds. fold o. destruct (o_acked o); [|reflexivity]. cbn [negb].
  destruct (H eq_refl) as [[I1 [I2 I3]] [F [P [N A]]]].
  unfold identity_ok. rewrite I1, I2, beq_bytes_refl, I3. cbn [andb].
  apply andb_true_iff. split.
  - destruct (finished_before o) eqn:Ef.
    + unfold finished_before in Ef. destruct (o_before o) as [b|] eqn:Eb; [|discriminate].
      destruct (F b eq_refl Ef) as [[R1 R2] [[F1 F2] O]].
      unfold same_outcome. now rewrite R1, R2, F1, F2, O, !N.eqb_refl, beq_bytes_refl.
    + destruct (producing sc cp o) eqn:Ep.
      * destruct (P eq_refl eq_refl) as [C [S O]]. now rewrite C, S, O, N.eqb_refl, beq_bytes_refl.
      * rewrite (N eq_refl eq_refl). reflexivity.
  - destruct (st_complete (s_state (v_status (o_final o)))) eqn:Ec; [|reflexivity].
    destruct (A eq_refl) as [A1 A2]. rewrite A1, A2, beq_status_refl. now destruct (v_known (o_final o)).
Qed.

Lemma grun_r_dn sc k : forall g, g_dn (grun sc g (repeat false k)) = g_dn g.
Proof.
  induction k as [|k IH]; intro g; [reflexivity|].
  change (repeat false (S k)) with (false :: repeat false k). rewrite grun_cons, IH.
  destruct (r_next sc g) as [op|] eqn:E.
  - now destruct (gstep_r_progress _ _ _ E).
  - now rewrite (gstep_r_idle _ _ E).
Qed.

Lemma kind_local sc : wf_scenario sc = true -> sc_remote sc = None ->
  kind_of (sc_types sc) (sc_wtype sc) = KCmd.
Proof.
  unfold wf_scenario, is_remote, kind_of. intros H E. rewrite E in H.
  apply andb_true_iff in H as [H1 H2]. apply negb_true_iff in H2. now rewrite H2, H1.
Qed.

Lemma kind_remote sc : wf_scenario sc = true -> sc_remote sc <> None ->
  kind_of (sc_types sc) (sc_wtype sc) = KRemote.
Proof.
  unfold wf_scenario, is_remote, kind_of. intros H E.
  destruct (sc_remote sc); [|congruence]. now rewrite H.
Qed.

Lemma record_of_intact x s : uf_status x = Some (encode s) -> record_of x = Some s.
Proof. intro H. unfold record_of, status_content. now rewrite H, parse_encode. Qed.

Lemma follow_intact x s m : uf_status x = Some (encode s) -> follow x m = s.
Proof. intro H. unfold follow, status_content. now rewrite H, parse_encode. Qed.

(* the state of affairs when the daemon comes back *)
Record setup (sc : scenario) (cp : crashpoint) : Prop := mkSetup {
  su_j2 : J sc true (g2of sc cp);
  su_j3 : J sc true (g3of sc cp);
  su_d3 : g_dalive (g3of sc cp) = false;
  su_r3 : g_ralive (g3of sc cp) = true;
  su_dn : g_dn (g3of sc cp) = g_dn (g2of sc cp);
  su_rn : (g_rn (g2of sc cp) <= g_rn (g3of sc cp))%nat;
  su_ack : (d_ack sc <= g_dn (g2of sc cp))%nat;
  su_d2 : g_dalive (g2of sc cp) = false
}.

Lemma crash_setup sc cp :
  cp_runner cp = false -> in_window sc cp = false ->
  Nat.leb (d_ack sc) (g_dn (g1of sc cp)) = true -> setup sc cp.
Proof.
  intros Hr Hw Ha. apply Nat.leb_le in Ha.
  assert (HJ1 : J sc true (g1of sc cp)) by (apply J_grun, J0).
  destruct (grun_flags sc (cp_sched cp) (g0 sc)) as [_ Hra1].
  assert (Hout : outside_window sc (g1of sc cp) (cp_cut cp)).
  { unfold outside_window. unfold in_window in Hw. rewrite Hr in Hw. exact Hw. }
  destruct (gcrash_daemon sc (g1of sc cp) (cp_cut cp) HJ1 Hra1 Ha Hout) as [HJ2 [Hd2 [Hr2 [Hn2 Hm2]]]].
  assert (E2 : gcrash sc (g1of sc cp) false (cp_cut cp) = g2of sc cp) by (unfold g2of; now rewrite Hr).
  rewrite E2 in *.
  assert (E3 : g3of sc cp = grun sc (g2of sc cp) (repeat false (cp_gap cp))) by (unfold g3of; now rewrite Hr).
  destruct (grun_flags sc (repeat false (cp_gap cp)) (g2of sc cp)) as [F1 F2].
  destruct (grun_counters sc (repeat false (cp_gap cp)) (g2of sc cp)) as [_ C2].
  constructor; rewrite ?E3; auto.
  - now apply J_grun.
  - congruence.
  - congruence.
  - apply grun_r_dn.
  - lia.
Qed.

Lemma final_complete sc : st_complete (final_state sc) = true.
Proof. unfold final_state. now destruct (sc_ok sc). Qed.

Lemma final_not_pending sc : final_state sc =? S_PENDING = false.
Proof. unfold final_state. now destruct (sc_ok sc). Qed.

Lemma stdout_full sc : stdout_of_ops (firstn (length (r_prog sc)) (r_prog sc)) = sc_output sc.
Proof.
  rewrite firstn_all, r_prog_split, stdout_of_ops_app, r_body_stdout.
  unfold stdout_of_ops, final_op. simpl. now rewrite app_nil_r.
Qed.

(* the record replaced by another acceptable one (recovery marking the unit failed) *)
Lemma J_replace sc g r dm' rm' da ra :
  J sc true g -> (2 <= g_dn g)%nat -> rec_ok sc false (g_dn g) (g_rn g) r ->
  J sc false (mkG (with_status (g_fs g) (encode r)) dm' rm' (g_dn g) (g_rn g) da ra).
Proof.
  intros HJ Hn Hr. constructor; cbn [g_dn g_rn g_fs g_dmem]; try lia.
  - intros _. cbn [with_status uf_dir]. apply (j_dir _ _ _ HJ). lia.
  - exact (j_spawn _ _ _ HJ).
  - exact (j_bound _ _ _ HJ).
  - intros _. exists r. split; [reflexivity|exact Hr].
  - cbn [with_status stdout_content uf_stdout]. exact (j_out _ _ _ HJ).
Qed.

(* the producer runs to its end after the restart: what is then on disk *)
Lemma completes sc g4 :
  J sc false g4 -> r_enabled sc g4 -> (2 <= g_dn g4)%nat ->
  let g5 := grun sc g4 (rest_sched sc) in
  exists s5, uf_status (g_fs g5) = Some (encode s5) /\ uf_dir (g_fs g5) = true /\
             s_wtype s5 = sc_wtype sc /\ s_state s5 = final_state sc /\
             s_size s5 = N.of_nat (length (sc_output sc)) /\
             stdout_content (g_fs g5) = sc_output sc.
Proof.
  intros HJ He Hn. cbv zeta. unfold rest_sched.
  destruct (grun_r_complete sc (length (r_prog sc)) g4 He (j_bound _ _ _ HJ) ltac:(lia)) as [Hm Hd].
  pose proof (J_grun sc false (repeat false (length (r_prog sc))) g4 HJ) as HJ5.
  set (g5 := grun sc g4 (repeat false (length (r_prog sc)))) in *.
  destruct (j_rec _ _ _ HJ5 ltac:(lia)) as [s5 [Hs [R1 _ _ _ R5]]].
  destruct (R5 Hm) as [F1 F2].
  exists s5. repeat split; auto.
  - apply (j_dir _ _ _ HJ5). lia.
  - rewrite (j_out _ _ _ HJ5), Hm. apply stdout_full.
Qed.

Lemma same_record x a b : uf_status x = Some (encode a) -> uf_status x = Some (encode b) -> a = b.
Proof.
  intros Ha Hb. rewrite Ha in Hb. assert (E : encode a = encode b) by congruence.
  apply (f_equal parse) in E. rewrite !parse_encode in E. congruence.
Qed.

Lemma recover_complete_local sc x s :
  wf_scenario sc = true -> sc_remote sc = None ->
  uf_dir x = true -> uf_status x = Some (encode s) -> s_wtype s = sc_wtype sc ->
  st_complete (s_state s) = true ->
  recover (sc_types sc) x = (locked x, mkView true true s false).
Proof.
  intros Hwf Hl Hd Hs Hw Hc. rewrite (recover_intact _ _ s Hd Hs), Hw, (kind_local sc Hwf Hl).
  now rewrite Hc.
Qed.

Section Local.
Variables (sc : scenario) (cp : crashpoint).
Hypothesis Hwf : wf_scenario sc = true.
Hypothesis Hloc : sc_remote sc = None.
Hypothesis Hrun : cp_runner cp = false.
Hypothesis SU : setup sc cp.

Local Notation g2 := (g2of sc cp).
Local Notation g3 := (g3of sc cp).
Local Notation x3 := (g_fs (g3of sc cp)).

Lemma L_rem : is_remote sc = false.
Proof. unfold is_remote. now rewrite Hloc. Qed.

Lemma L_n2 : (4 <= g_dn g2)%nat.
Proof. pose proof (su_ack _ _ SU) as H. unfold d_ack in H. rewrite L_rem in H. exact H. Qed.

Lemma L_n3 : (4 <= g_dn g3)%nat.
Proof. rewrite (su_dn _ _ SU). exact L_n2. Qed.

Lemma L_sp8 : d_spawn sc = 8%nat.
Proof. unfold d_spawn. now rewrite L_rem. Qed.

Lemma L_rec2 : exists s2, uf_status (g_fs g2) = Some (encode s2) /\ rec_ok sc true (g_dn g2) (g_rn g2) s2.
Proof. apply (j_rec _ _ _ (su_j2 _ _ SU)). pose proof L_n2. lia. Qed.

Lemma L_rec3 : exists s3, uf_status x3 = Some (encode s3) /\ rec_ok sc true (g_dn g3) (g_rn g3) s3.
Proof. apply (j_rec _ _ _ (su_j3 _ _ SU)). pose proof L_n3. lia. Qed.

Lemma L_dir3 : uf_dir x3 = true.
Proof. apply (j_dir _ _ _ (su_j3 _ _ SU)). pose proof L_n3. lia. Qed.

Lemma L_extra v : extra_ok sc (beforeof sc cp) v = true.
Proof. unfold extra_ok. now rewrite Hloc. Qed.

Lemma L_spawned3 : r_spawned sc g3 = r_spawned sc g2.
Proof. unfold r_spawned. now rewrite (su_dn _ _ SU). Qed.

(* a finished unit: nothing moves any more *)
Lemma L_idle_finished g : g_rn g = length (r_prog sc) -> r_next sc g = None.
Proof.
  intro H. unfold r_next. destruct (negb (r_spawned sc g)); [reflexivity|].
  assert (E : nth_error (r_prog sc) (g_rn g) = None) by (apply nth_error_None; lia).
  rewrite E, L_rem. now destruct (g_ralive g).
Qed.

Lemma L_fin s2 : uf_status (g_fs g2) = Some (encode s2) -> rec_ok sc true (g_dn g2) (g_rn g2) s2 ->
  st_complete (s_state s2) = true -> g3 = g2.
Proof.
  intros Hs [_ _ C _ _] Hc. unfold g3of. rewrite Hrun. apply grun_r_idle, L_idle_finished.
  now apply C.
Qed.

Lemma L_idle5 x4 v : r_spawned sc g2 = false -> g5of sc cp x4 v = g4of sc cp x4 v.
Proof.
  intro Hns. unfold g5of. rewrite L_rem. cbn [andb]. apply grun_r_idle.
  unfold r_next. assert (E : r_spawned sc (g4of sc cp x4 v) = false).
  { unfold r_spawned, g4of. cbn [g_dn]. rewrite <- Hns. apply L_spawned3. }
  now rewrite E.
Qed.

Lemma L_run5 x4 v : r_spawned sc g2 = true -> J sc false (g4of sc cp x4 v) ->
  exists s5, uf_status (g_fs (g5of sc cp x4 v)) = Some (encode s5) /\
             uf_dir (g_fs (g5of sc cp x4 v)) = true /\
             s_wtype s5 = sc_wtype sc /\ s_state s5 = final_state sc /\
             s_size s5 = N.of_nat (length (sc_output sc)) /\
             stdout_content (g_fs (g5of sc cp x4 v)) = sc_output sc.
Proof.
  intros Hsp HJ4. unfold g5of. rewrite L_rem. cbn [andb]. apply completes; auto.
  - split.
    + unfold g4of. unfold r_spawned at 1. cbn [g_dn]. fold (r_spawned sc g3). now rewrite L_spawned3.
    + rewrite L_rem. unfold g4of. cbn [g_ralive]. now rewrite (su_r3 _ _ SU), L_rem.
  - unfold g4of. cbn [g_dn]. pose proof L_n3. lia.
Qed.

Lemma L_before s2 : uf_status (g_fs g2) = Some (encode s2) -> beforeof sc cp = Some s2.
Proof. intro H. unfold beforeof. now rewrite (record_of_intact _ _ H). Qed.

Lemma L_recover s3 : uf_status x3 = Some (encode s3) -> s_wtype s3 = sc_wtype sc ->
  recover (sc_types sc) x3 =
  if st_complete (s_state s3) then (locked x3, mkView true true s3 false)
  else if s_state s3 =? S_PENDING
       then (with_status x3 (encode (failed_rec x3 s3)), mkView true true (failed_rec x3 s3) true)
       else (locked x3, mkView true true s3 true).
Proof.
  intros Hs Hw. rewrite (recover_intact _ _ s3 L_dir3 Hs), Hw, (kind_local sc Hwf Hloc). reflexivity.
Qed.

Lemma L_vf_unmon x4 s : vfof sc cp x4 (mkView true true s false) = mkView true true s false.
Proof. unfold vfof. now rewrite L_rem. Qed.

Lemma L_vf_mon x4 s : vfof sc cp x4 (mkView true true s true) =
  mkView true true (follow (g_fs (g5of sc cp x4 (mkView true true s true))) s) true.
Proof. unfold vfof. now rewrite L_rem. Qed.

Lemma L_producing o : producing sc cp o = o_spawned o.
Proof. unfold producing. rewrite L_rem, Hrun. cbn [negb]. apply andb_true_r. Qed.

(* case 1: the record found at the restart is a finished one *)
Lemma L_case_complete s2 s3 :
  uf_status (g_fs g2) = Some (encode s2) -> rec_ok sc true (g_dn g2) (g_rn g2) s2 ->
  uf_status x3 = Some (encode s3) -> rec_ok sc true (g_dn g3) (g_rn g3) s3 ->
  st_complete (s_state s3) = true ->
  let o := experiment sc cp in
  (v_listed (o_restart o) = true /\ s_wtype (v_status (o_restart o)) = sc_wtype sc /\
   extra_ok sc (o_before o) (o_restart o) = true) /\
  (forall b, o_before o = Some b -> st_complete (s_state b) = true ->
     (s_state (v_status (o_restart o)) = s_state b /\ s_size (v_status (o_restart o)) = s_size b) /\
     (s_state (v_status (o_final o)) = s_state b /\ s_size (v_status (o_final o)) = s_size b) /\
     stdout_content (o_final_fs o) = sc_output sc) /\
  (finished_before o = false -> producing sc cp o = true ->
     st_complete (s_state (v_status (o_final o))) = true /\
     s_size (v_status (o_final o)) = N.of_nat (length (sc_output sc)) /\
     stdout_content (o_final_fs o) = sc_output sc) /\
  (finished_before o = false -> producing sc cp o = false ->
     s_state (v_status (o_final o)) = S_FAILED) /\
  (st_complete (s_state (v_status (o_final o))) = true ->
     v_status (o_again o) = v_status (o_final o) /\ v_known (o_again o) = v_known (o_final o)).
Proof.
  intros Hs2 R2 Hs3 R3 Ec3. cbv zeta.
  pose proof (L_recover s3 Hs3 (ro_wtype _ _ _ _ _ R3)) as Hrec. rewrite Ec3 in Hrec.
  rewrite (experiment_eq _ _ _ _ Hrec).
  cbn [o_acked o_before o_restart o_final o_final_fs o_again o_spawned].
  pose proof (ro_complete _ _ _ _ _ R3 eq_refl Ec3) as Hm3.
  destruct (ro_final _ _ _ _ _ R3 Hm3) as [Fs Fz].
  assert (E5 : g5of sc cp (locked x3) (mkView true true s3 false) = g4of sc cp (locked x3) (mkView true true s3 false)).
  { unfold g5of. rewrite L_rem. cbn [andb]. apply grun_r_idle, L_idle_finished.
    unfold g4of. cbn [g_rn]. exact Hm3. }
  rewrite L_vf_unmon, E5. unfold g4of. cbn [g_fs v_status v_listed v_known].
  assert (Hout : stdout_content (locked x3) = sc_output sc).
  { change (stdout_content (locked x3)) with (stdout_content x3).
    rewrite (j_out _ _ _ (su_j3 _ _ SU)), Hm3. apply stdout_full. }
  assert (Hagain : recover (sc_types sc) (locked x3) = (locked (locked x3), mkView true true s3 false)).
  { apply recover_complete_local; auto. apply L_dir3. apply (ro_wtype _ _ _ _ _ R3). }
  rewrite Hagain. cbn [snd v_status v_known].
  split; [split; [reflexivity|split; [apply (ro_wtype _ _ _ _ _ R3)|apply L_extra]]|].
  split; [|split; [|split; [|auto]]].
  - intros b Hb Hcb. rewrite (L_before s2 Hs2) in Hb. inversion Hb; subst b.
    pose proof (L_fin s2 Hs2 R2 Hcb) as E32. rewrite E32 in Hs3.
    assert (s3 = s2) by (apply (same_record _ _ _ Hs3 Hs2)). subst s3. auto.
  - intros _ _. rewrite Ec3, Fz. auto.
  - intros _ Hnp. exfalso. rewrite L_producing in Hnp. cbn [o_spawned] in Hnp.
    rewrite <- L_spawned3 in Hnp.
    pose proof (j_spawn _ _ _ (su_j3 _ _ SU)) as Hs.
    unfold r_spawned in Hnp. apply Nat.leb_gt in Hnp. pose proof (r_prog_pos sc). lia.
Qed.

(* if the record found at the restart is not a finished one, the unit had not finished before *)
Lemma L_not_finished s2 s3 :
  uf_status (g_fs g2) = Some (encode s2) -> rec_ok sc true (g_dn g2) (g_rn g2) s2 ->
  uf_status x3 = Some (encode s3) -> st_complete (s_state s3) = false ->
  st_complete (s_state s2) = false.
Proof.
  intros Hs2 R2 Hs3 Ec3. destruct (st_complete (s_state s2)) eqn:E; [|reflexivity].
  pose proof (L_fin s2 Hs2 R2 E) as E32. rewrite E32 in Hs3.
  assert (s3 = s2) by (apply (same_record _ _ _ Hs3 Hs2)). subst s3. congruence.
Qed.

(* case 2: Pending at the restart — marked failed, and followed if a runner lives *)
Lemma L_case_pending s2 s3 :
  uf_status (g_fs g2) = Some (encode s2) -> rec_ok sc true (g_dn g2) (g_rn g2) s2 ->
  uf_status x3 = Some (encode s3) -> rec_ok sc true (g_dn g3) (g_rn g3) s3 ->
  st_complete (s_state s3) = false -> (s_state s3 =? S_PENDING) = true ->
  let o := experiment sc cp in
  (v_listed (o_restart o) = true /\ s_wtype (v_status (o_restart o)) = sc_wtype sc /\
   extra_ok sc (o_before o) (o_restart o) = true) /\
  (forall b, o_before o = Some b -> st_complete (s_state b) = true ->
     (s_state (v_status (o_restart o)) = s_state b /\ s_size (v_status (o_restart o)) = s_size b) /\
     (s_state (v_status (o_final o)) = s_state b /\ s_size (v_status (o_final o)) = s_size b) /\
     stdout_content (o_final_fs o) = sc_output sc) /\
  (finished_before o = false -> producing sc cp o = true ->
     st_complete (s_state (v_status (o_final o))) = true /\
     s_size (v_status (o_final o)) = N.of_nat (length (sc_output sc)) /\
     stdout_content (o_final_fs o) = sc_output sc) /\
  (finished_before o = false -> producing sc cp o = false ->
     s_state (v_status (o_final o)) = S_FAILED) /\
  (st_complete (s_state (v_status (o_final o))) = true ->
     v_status (o_again o) = v_status (o_final o) /\ v_known (o_again o) = v_known (o_final o)).
Proof.
  intros Hs2 R2 Hs3 R3 Ec3 Ep3. cbv zeta.
  pose proof (L_recover s3 Hs3 (ro_wtype _ _ _ _ _ R3)) as Hrec. rewrite Ec3, Ep3 in Hrec.
  set (fr := failed_rec x3 s3) in *.
  rewrite (experiment_eq _ _ _ _ Hrec).
  cbn [o_acked o_before o_restart o_final o_final_fs o_again o_spawned].
  pose proof (L_not_finished s2 s3 Hs2 R2 Hs3 Ec3) as Hnf2.
  assert (HJ4 : J sc false (g4of sc cp (with_status x3 (encode fr)) (mkView true true fr true))).
  { unfold g4of. apply (J_replace sc g3); [exact (su_j3 _ _ SU)|pose proof L_n3; lia|].
    destruct R3 as [W3 X3 C3 P3 F3].
    constructor; unfold fr, failed_rec; cbn [s_wtype s_extra s_state s_size]; auto; try discriminate.
    intro Hm. destruct (F3 Hm) as [Fs _]. rewrite Fs, final_not_pending in Ep3. discriminate. }
  rewrite L_vf_mon. cbn [v_status v_listed v_known].
  split; [split; [reflexivity|split; [apply (ro_wtype _ _ _ _ _ R3)|apply L_extra]]|].
  split; [|split; [|split]].
  - intros b Hb Hcb. rewrite (L_before s2 Hs2) in Hb. inversion Hb; subst b. congruence.
  - intros _ Hp. rewrite L_producing in Hp. cbn [o_spawned] in Hp.
    destruct (L_run5 _ _ Hp HJ4) as [s5 [H5 [D5 [W5 [S5 [Z5 O5]]]]]].
    rewrite (follow_intact _ _ _ H5), S5, Z5. repeat split; auto. apply final_complete.
  - intros _ Hp. rewrite L_producing in Hp. cbn [o_spawned] in Hp.
    rewrite (L_idle5 _ _ Hp). unfold g4of. cbn [g_fs]. now rewrite (follow_intact _ fr).
  - intro Hc. destruct (r_spawned sc g2) eqn:Hsp.
    + destruct (L_run5 _ _ Hsp HJ4) as [s5 [H5 [D5 [W5 [S5 [Z5 O5]]]]]].
      rewrite (follow_intact _ _ _ H5).
      rewrite (recover_complete_local sc _ s5 Hwf Hloc D5 H5 W5); [auto|].
      rewrite S5. apply final_complete.
    + rewrite (L_idle5 _ _ Hsp). unfold g4of. cbn [g_fs]. rewrite (follow_intact _ fr) by reflexivity.
      rewrite (recover_complete_local sc _ fr Hwf Hloc); auto.
      * apply L_dir3.
      * apply (ro_wtype _ _ _ _ _ R3).
Qed.

(* case 3: Running at the restart — followed to the runner's last record *)
Lemma L_case_running s2 s3 :
  uf_status (g_fs g2) = Some (encode s2) -> rec_ok sc true (g_dn g2) (g_rn g2) s2 ->
  uf_status x3 = Some (encode s3) -> rec_ok sc true (g_dn g3) (g_rn g3) s3 ->
  st_complete (s_state s3) = false -> (s_state s3 =? S_PENDING) = false ->
  let o := experiment sc cp in
  (v_listed (o_restart o) = true /\ s_wtype (v_status (o_restart o)) = sc_wtype sc /\
   extra_ok sc (o_before o) (o_restart o) = true) /\
  (forall b, o_before o = Some b -> st_complete (s_state b) = true ->
     (s_state (v_status (o_restart o)) = s_state b /\ s_size (v_status (o_restart o)) = s_size b) /\
     (s_state (v_status (o_final o)) = s_state b /\ s_size (v_status (o_final o)) = s_size b) /\
     stdout_content (o_final_fs o) = sc_output sc) /\
  (finished_before o = false -> producing sc cp o = true ->
     st_complete (s_state (v_status (o_final o))) = true /\
     s_size (v_status (o_final o)) = N.of_nat (length (sc_output sc)) /\
     stdout_content (o_final_fs o) = sc_output sc) /\
  (finished_before o = false -> producing sc cp o = false ->
     s_state (v_status (o_final o)) = S_FAILED) /\
  (st_complete (s_state (v_status (o_final o))) = true ->
     v_status (o_again o) = v_status (o_final o) /\ v_known (o_again o) = v_known (o_final o)).
Proof.
  intros Hs2 R2 Hs3 R3 Ec3 Ep3. cbv zeta.
  pose proof (L_recover s3 Hs3 (ro_wtype _ _ _ _ _ R3)) as Hrec. rewrite Ec3, Ep3 in Hrec.
  rewrite (experiment_eq _ _ _ _ Hrec).
  cbn [o_acked o_before o_restart o_final o_final_fs o_again o_spawned].
  pose proof (L_not_finished s2 s3 Hs2 R2 Hs3 Ec3) as Hnf2.
  (* a record that is neither Pending nor finished exists only once the runner has run *)
  assert (Hsp : r_spawned sc g2 = true).
  { destruct (r_spawned sc g2) eqn:H; [reflexivity|exfalso].
    rewrite <- L_spawned3 in H. unfold r_spawned in H. apply Nat.leb_gt in H.
    assert (Hm0 : g_rn g3 = 0%nat).
    { destruct (g_rn g3) eqn:E; [reflexivity|].
      pose proof (j_spawn _ _ _ (su_j3 _ _ SU)) as Hs. rewrite E in Hs. lia. }
    rewrite (ro_pending _ _ _ _ _ R3 eq_refl Hm0) in Ep3. discriminate. }
  assert (HJ4 : J sc false (g4of sc cp (locked x3) (mkView true true s3 true))).
  { unfold g4of. apply J_weaken. apply (J_core sc true g3); [exact (su_j3 _ _ SU)|reflexivity|].
    intro. pose proof L_n3. lia. }
  rewrite L_vf_mon. cbn [v_status v_listed v_known].
  destruct (L_run5 _ _ Hsp HJ4) as [s5 [H5 [D5 [W5 [S5 [Z5 O5]]]]]].
  rewrite (follow_intact _ _ _ H5).
  split; [split; [reflexivity|split; [apply (ro_wtype _ _ _ _ _ R3)|apply L_extra]]|].
  split; [|split; [|split]].
  - intros b Hb Hcb. rewrite (L_before s2 Hs2) in Hb. inversion Hb; subst b. congruence.
  - intros _ _. rewrite S5, Z5. repeat split; auto. apply final_complete.
  - intros _ Hp. rewrite L_producing in Hp. cbn [o_spawned] in Hp. congruence.
  - intros _. rewrite (recover_complete_local sc _ s5 Hwf Hloc D5 H5 W5); [auto|].
    rewrite S5. apply final_complete.
Qed.

Lemma L_all :
  let o := experiment sc cp in
  (v_listed (o_restart o) = true /\ s_wtype (v_status (o_restart o)) = sc_wtype sc /\
   extra_ok sc (o_before o) (o_restart o) = true) /\
  (forall b, o_before o = Some b -> st_complete (s_state b) = true ->
     (s_state (v_status (o_restart o)) = s_state b /\ s_size (v_status (o_restart o)) = s_size b) /\
     (s_state (v_status (o_final o)) = s_state b /\ s_size (v_status (o_final o)) = s_size b) /\
     stdout_content (o_final_fs o) = sc_output sc) /\
  (finished_before o = false -> producing sc cp o = true ->
     st_complete (s_state (v_status (o_final o))) = true /\
     s_size (v_status (o_final o)) = N.of_nat (length (sc_output sc)) /\
     stdout_content (o_final_fs o) = sc_output sc) /\
  (finished_before o = false -> producing sc cp o = false ->
     s_state (v_status (o_final o)) = S_FAILED) /\
  (st_complete (s_state (v_status (o_final o))) = true ->
     v_status (o_again o) = v_status (o_final o) /\ v_known (o_again o) = v_known (o_final o)).
Proof.
  destruct L_rec2 as [s2 [Hs2 R2]]. destruct L_rec3 as [s3 [Hs3 R3]].
  destruct (st_complete (s_state s3)) eqn:Ec3.
  - now apply (L_case_complete s2 s3).
  - destruct (s_state s3 =? S_PENDING) eqn:Ep3.
    + now apply (L_case_pending s2 s3).
    + now apply (L_case_running s2 s3).
Qed.

End Local.

Theorem partial_local sc cp :
  wf_scenario sc = true -> sc_remote sc = None ->
  cp_runner cp = false -> in_window sc cp = false -> holds sc cp = true.
Proof.
  intros Hwf Hloc Hrun Hwin. apply holds_intro. cbv zeta. intro Hack.
  rewrite experiment_acked in Hack.
  apply (L_all sc cp Hwf Hloc Hrun (crash_setup sc cp Hrun Hwin Hack)).
Qed.

(* the producer runs to its end, with the binding of the record it leaves *)
Lemma completes_ext sc g4 :
  J sc false g4 -> r_enabled sc g4 -> (2 <= g_dn g4)%nat ->
  let g5 := grun sc g4 (rest_sched sc) in
  exists s5, uf_status (g_fs g5) = Some (encode s5) /\ uf_dir (g_fs g5) = true /\
             s_wtype s5 = sc_wtype sc /\ s_state s5 = final_state sc /\
             s_size s5 = N.of_nat (length (sc_output sc)) /\
             stdout_content (g_fs g5) = sc_output sc /\ ext_ok sc (g_dn g4) (s_extra s5).
Proof.
  intros HJ He Hn. cbv zeta. unfold rest_sched.
  destruct (grun_r_complete sc (length (r_prog sc)) g4 He (j_bound _ _ _ HJ) ltac:(lia)) as [Hm Hd].
  pose proof (J_grun sc false (repeat false (length (r_prog sc))) g4 HJ) as HJ5.
  set (g5 := grun sc g4 (repeat false (length (r_prog sc)))) in *.
  destruct (j_rec _ _ _ HJ5 ltac:(lia)) as [s5 [Hs [R1 R2 _ _ R5]]].
  destruct (R5 Hm) as [F1 F2].
  exists s5. repeat split; auto.
  - apply (j_dir _ _ _ HJ5). lia.
  - rewrite (j_out _ _ _ HJ5), Hm. apply stdout_full.
  - now rewrite <- Hd.
Qed.

Section Remote.
Variables (sc : scenario) (cp : crashpoint) (node rtype : bytes).
Hypothesis Hwf : wf_scenario sc = true.
Hypothesis Hrem : sc_remote sc = Some (node, rtype).
Hypothesis Hrun : cp_runner cp = false.
Hypothesis SU : setup sc cp.

Local Notation g2 := (g2of sc cp).
Local Notation g3 := (g3of sc cp).
Local Notation x2 := (g_fs (g2of sc cp)).

Lemma R_rem : is_remote sc = true.
Proof. unfold is_remote. now rewrite Hrem. Qed.

Lemma R_ne : sc_remote sc <> None.
Proof. rewrite Hrem. discriminate. Qed.

Lemma R_n2 : (5 <= g_dn g2)%nat.
Proof. pose proof (su_ack _ _ SU) as H. unfold d_ack in H. rewrite R_rem in H. exact H. Qed.

Lemma R_sp9 : d_spawn sc = 9%nat.
Proof. unfold d_spawn. now rewrite R_rem. Qed.

(* with the daemon dead nobody mirrors: nothing moves while the node is down *)
Lemma R_g3 : g3 = g2.
Proof.
  unfold g3of. rewrite Hrun. apply grun_r_idle. unfold r_next.
  destruct (negb (r_spawned sc g2)); [reflexivity|]. now rewrite R_rem, (su_d2 _ _ SU).
Qed.

Lemma R_rec2 : exists s2, uf_status x2 = Some (encode s2) /\ rec_ok sc true (g_dn g2) (g_rn g2) s2.
Proof. apply (j_rec _ _ _ (su_j2 _ _ SU)). pose proof R_n2. lia. Qed.

Lemma R_dir2 : uf_dir x2 = true.
Proof. apply (j_dir _ _ _ (su_j2 _ _ SU)). pose proof R_n2. lia. Qed.

Lemma R_ext s n : ext_ok sc n (s_extra s) -> (3 <= n)%nat ->
  exists ru st, s_extra s = XRemote node rtype ru st /\ (st = true <-> (9 <= n)%nat).
Proof.
  unfold ext_ok. rewrite Hrem. intros [nd [rt [ru [st [E [B S]]]]]] Hn.
  destruct (B Hn) as [-> ->]. now exists ru, st.
Qed.

Lemma R_extra_ok s2 v : ext_ok sc (g_dn g2) (s_extra s2) -> s_extra (v_status v) = s_extra s2 ->
  extra_ok sc (Some s2) v = true.
Proof.
  intros Hx Hv. destruct (R_ext s2 _ Hx ltac:(pose proof R_n2; lia)) as [ru [st [E _]]].
  unfold extra_ok. rewrite Hrem, Hv, E, !beq_bytes_refl. cbn [andb].
  destruct ru; [reflexivity|apply beq_bytes_refl].
Qed.

Lemma R_before s2 : uf_status x2 = Some (encode s2) -> beforeof sc cp = Some s2.
Proof. intro H. unfold beforeof. now rewrite (record_of_intact _ _ H). Qed.

Lemma R_recover s2 : uf_status x2 = Some (encode s2) -> s_wtype s2 = sc_wtype sc ->
  recover (sc_types sc) (g_fs g3) =
  if started s2 then (locked x2, mkView true true s2 true)
  else (with_status x2 (encode (failed_rec x2 s2)), mkView true true (failed_rec x2 s2) false).
Proof.
  intros Hs Hw. rewrite R_g3, (recover_intact _ _ s2 R_dir2 Hs), Hw, (kind_remote sc Hwf R_ne). reflexivity.
Qed.

Lemma R_producing o : producing sc cp o = match o_before o with Some b => started b | None => false end.
Proof. unfold producing. now rewrite R_rem. Qed.

Lemma R_started s n : ext_ok sc n (s_extra s) -> (3 <= n)%nat -> (started s = true <-> (9 <= n)%nat).
Proof.
  intros Hx Hn. destruct (R_ext s n Hx Hn) as [ru [st [E S]]]. unfold started. now rewrite E.
Qed.

Definition clauses (o : outcome) : Prop :=
  (v_listed (o_restart o) = true /\ s_wtype (v_status (o_restart o)) = sc_wtype sc /\
   extra_ok sc (o_before o) (o_restart o) = true) /\
  (forall b, o_before o = Some b -> st_complete (s_state b) = true ->
     (s_state (v_status (o_restart o)) = s_state b /\ s_size (v_status (o_restart o)) = s_size b) /\
     (s_state (v_status (o_final o)) = s_state b /\ s_size (v_status (o_final o)) = s_size b) /\
     stdout_content (o_final_fs o) = sc_output sc) /\
  (finished_before o = false -> producing sc cp o = true ->
     st_complete (s_state (v_status (o_final o))) = true /\
     s_size (v_status (o_final o)) = N.of_nat (length (sc_output sc)) /\
     stdout_content (o_final_fs o) = sc_output sc) /\
  (finished_before o = false -> producing sc cp o = false ->
     s_state (v_status (o_final o)) = S_FAILED) /\
  (st_complete (s_state (v_status (o_final o))) = true ->
     v_status (o_again o) = v_status (o_final o) /\ v_known (o_again o) = v_known (o_final o)).

(* the remote unit had not been recorded as started: failed, for good *)
Lemma R_case_unstarted s2 :
  uf_status x2 = Some (encode s2) -> rec_ok sc true (g_dn g2) (g_rn g2) s2 ->
  started s2 = false -> clauses (experiment sc cp).
Proof.
  intros Hs2 R2 Hst. unfold clauses.
  pose proof (R_recover s2 Hs2 (ro_wtype _ _ _ _ _ R2)) as Hrec. rewrite Hst in Hrec.
  set (fr := failed_rec x2 s2) in *.
  rewrite (experiment_eq _ _ _ _ Hrec).
  cbn [o_acked o_before o_restart o_final o_final_fs o_again o_spawned].
  rewrite (R_before s2 Hs2).
  assert (E5 : g5of sc cp (with_status x2 (encode fr)) (mkView true true fr false) =
               g4of sc cp (with_status x2 (encode fr)) (mkView true true fr false))
    by (unfold g5of; now rewrite R_rem).
  assert (Evf : vfof sc cp (with_status x2 (encode fr)) (mkView true true fr false) = mkView true true fr false)
    by (unfold vfof; now rewrite R_rem).
  rewrite Evf, E5. unfold g4of. cbn [g_fs v_status v_listed v_known].
  (* not started: the mirror has never run, the record says Pending *)
  assert (Hn9 : (g_dn g2 < 9)%nat).
  { destruct (R_started s2 _ (ro_ext _ _ _ _ _ R2) ltac:(pose proof R_n2; lia)) as [_ H].
    destruct (Nat.lt_ge_cases (g_dn g2) 9) as [L|L]; [exact L|]. rewrite (H L) in Hst. discriminate. }
  assert (Hm0 : g_rn g2 = 0%nat).
  { destruct (g_rn g2) eqn:E; [reflexivity|].
    pose proof (j_spawn _ _ _ (su_j2 _ _ SU)) as Hs. rewrite E, R_sp9 in Hs. lia. }
  pose proof (ro_pending _ _ _ _ _ R2 eq_refl Hm0) as Hp.
  split; [split; [reflexivity|split; [apply (ro_wtype _ _ _ _ _ R2)|]]|].
  { apply R_extra_ok; [apply (ro_ext _ _ _ _ _ R2)|reflexivity]. }
  split; [|split; [|split]].
  - intros b Hb Hcb. inversion Hb; subst b. rewrite Hp in Hcb. discriminate.
  - intros _ Hpr. rewrite R_producing in Hpr. cbn [o_before] in Hpr. congruence.
  - intros _ _. reflexivity.
  - intros _.
    assert (Hs4 : uf_status (with_status x2 (encode fr)) = Some (encode fr)) by reflexivity.
    rewrite (recover_intact _ (with_status x2 (encode fr)) fr R_dir2 Hs4).
    assert (Hw : s_wtype fr = sc_wtype sc) by apply (ro_wtype _ _ _ _ _ R2).
    rewrite Hw, (kind_remote sc Hwf R_ne).
    assert (Hsf : started fr = false) by exact Hst. rewrite Hsf. cbn [snd v_status v_known].
    split; reflexivity.
Qed.

(* recorded as started: mirrored again, to the end *)
Lemma R_case_started s2 :
  uf_status x2 = Some (encode s2) -> rec_ok sc true (g_dn g2) (g_rn g2) s2 ->
  started s2 = true -> clauses (experiment sc cp).
Proof.
  intros Hs2 R2 Hst. unfold clauses.
  pose proof (R_recover s2 Hs2 (ro_wtype _ _ _ _ _ R2)) as Hrec. rewrite Hst in Hrec.
  rewrite (experiment_eq _ _ _ _ Hrec).
  cbn [o_acked o_before o_restart o_final o_final_fs o_again o_spawned].
  rewrite (R_before s2 Hs2).
  assert (Hn9 : (9 <= g_dn g2)%nat)
    by (apply (R_started s2 _ (ro_ext _ _ _ _ _ R2) ltac:(pose proof R_n2; lia)); exact Hst).
  set (v := mkView true true s2 true).
  assert (E5 : g5of sc cp (locked x2) v = grun sc (g4of sc cp (locked x2) v) (rest_sched sc))
    by (unfold g5of, v; now rewrite R_rem).
  assert (Evf : vfof sc cp (locked x2) v = mkView true true (follow (g_fs (g5of sc cp (locked x2) v)) s2) true)
    by (unfold vfof, v; now rewrite R_rem).
  rewrite Evf. cbn [v_status v_listed v_known].
  assert (HJ4 : J sc true (g4of sc cp (locked x2) v)).
  { unfold g4of. rewrite R_g3. apply (J_core sc true g2); [exact (su_j2 _ _ SU)|reflexivity|].
    intro. lia. }
  assert (He4 : r_enabled sc (g4of sc cp (locked x2) v)).
  { split.
    - unfold r_spawned, g4of. cbn [g_dn]. rewrite R_g3, R_sp9. now apply Nat.leb_le.
    - rewrite R_rem. unfold g4of, v. cbn [g_dalive v_monitored]. now rewrite R_rem. }
  split; [split; [reflexivity|split; [apply (ro_wtype _ _ _ _ _ R2)|]]|].
  { apply R_extra_ok; [apply (ro_ext _ _ _ _ _ R2)|reflexivity]. }
  destruct (st_complete (s_state s2)) eqn:Ec.
  - (* finished already: the mirror has nothing left to do *)
    pose proof (ro_complete _ _ _ _ _ R2 eq_refl Ec) as Hm.
    assert (Eidle : g5of sc cp (locked x2) v = g4of sc cp (locked x2) v).
    { rewrite E5. apply grun_r_idle. unfold r_next.
      destruct (negb (r_spawned sc (g4of sc cp (locked x2) v))); [reflexivity|].
      assert (En : nth_error (r_prog sc) (g_rn (g4of sc cp (locked x2) v)) = None).
      { apply nth_error_None. unfold g4of. cbn [g_rn]. rewrite R_g3. lia. }
      rewrite En, R_rem. now destruct (g_dalive (g4of sc cp (locked x2) v)). }
    rewrite Eidle. unfold g4of. cbn [g_fs].
    assert (Hsl : uf_status (locked x2) = Some (encode s2)) by exact Hs2.
    rewrite (follow_intact _ _ _ Hsl).
    assert (Hout : stdout_content (locked x2) = sc_output sc).
    { change (stdout_content (locked x2)) with (stdout_content x2).
      rewrite (j_out _ _ _ (su_j2 _ _ SU)), Hm. apply stdout_full. }
    split; [|split; [|split]].
    + intros b Hb _. inversion Hb; subst b. auto.
    + intros Hnf _. unfold finished_before in Hnf. cbn [o_before] in Hnf. congruence.
    + intros _ Hpr. rewrite R_producing in Hpr. cbn [o_before] in Hpr. congruence.
    + intros _. rewrite (recover_intact _ (locked x2) s2 R_dir2 Hsl), (ro_wtype _ _ _ _ _ R2), (kind_remote sc Hwf R_ne), Hst.
      cbn [snd v_status v_known]. split; reflexivity.
  - (* still being produced on the remote node: followed to the end *)
    destruct (completes_ext sc _ (J_weaken _ _ HJ4) He4 ltac:(unfold g4of; cbn [g_dn]; rewrite R_g3; lia))
      as [s5 [H5 [D5 [W5 [S5 [Z5 [O5 X5]]]]]]].
    rewrite <- E5 in *. rewrite (follow_intact _ _ _ H5).
    split; [|split; [|split]].
    + intros b Hb Hcb. inversion Hb; subst b. congruence.
    + intros _ _. rewrite S5, Z5. repeat split; auto. apply final_complete.
    + intros _ Hpr. rewrite R_producing in Hpr. cbn [o_before] in Hpr. congruence.
    + intros _. rewrite (recover_intact _ _ s5 D5 H5), W5, (kind_remote sc Hwf R_ne).
      assert (Hst5 : started s5 = true).
      { apply (R_started s5 _ X5); unfold g4of; cbn [g_dn]; rewrite R_g3; lia. }
      rewrite Hst5. cbn [snd v_status v_known]. split; reflexivity.
Qed.

Lemma R_all : clauses (experiment sc cp).
Proof.
  destruct R_rec2 as [s2 [Hs2 R2]]. destruct (started s2) eqn:E.
  - now apply (R_case_started s2).
  - now apply (R_case_unstarted s2).
Qed.

End Remote.

Theorem partial_remote sc cp node rtype :
  wf_scenario sc = true -> sc_remote sc = Some (node, rtype) ->
  cp_runner cp = false -> in_window sc cp = false -> holds sc cp = true.
Proof.
  intros Hwf Hrem Hrun Hwin. apply holds_intro. cbv zeta. intro Hack.
  rewrite experiment_acked in Hack.
  apply (R_all sc cp node rtype Hwf Hrem Hrun (crash_setup sc cp Hrun Hwin Hack)).
Qed.

(* C04_partial: every crash point of the daemon outside the truncate->write windows *)
Theorem C04_partial_thm : forall sc cp,
  wf_scenario sc = true -> cp_runner cp = false -> in_window sc cp = false -> holds sc cp = true.
Proof.
  intros sc cp Hwf Hrun Hwin. destruct (sc_remote sc) as [[node rtype]|] eqn:E.
  - now apply (partial_remote sc cp node rtype).
  - now apply partial_local.
Qed.

(* ---------- repeated crash/restart cycles of a unit at rest ---------- *)
(* k restarts in a row (the daemon killed again each time, nothing else touching the unit) *)
Fixpoint cycles (types : list bytes) (x : ufiles) (k : nat) : ufiles :=
  match k with
  | O => x
  | S k' => fst (recover types (cycles types x k'))
  end.

Definition same_answer (a b : view) : Prop :=
  v_listed a = v_listed b /\ v_known a = v_known b /\ v_status a = v_status b.

Definition has_record (x : ufiles) : Prop := uf_dir x = true /\ exists s, uf_status x = Some (encode s).

Lemma failed_rec_idem x c s : failed_rec (with_status x c) (failed_rec x s) = failed_rec x s.
Proof. reflexivity. Qed.

(* one restart of a unit with an intact record leaves an intact record, and a second restart
   answers what the first one answered *)
Lemma recover_stable types x : has_record x ->
  has_record (fst (recover types x)) /\
  same_answer (snd (recover types (fst (recover types x)))) (snd (recover types x)).
Proof.
  intros [Hd [s Hs]]. rewrite (recover_intact types x s Hd Hs).
  assert (Hl : uf_status (locked x) = Some (encode s)) by exact Hs.
  assert (Hf : forall r, uf_status (with_status x (encode r)) = Some (encode r)) by reflexivity.
  destruct (kind_of types (s_wtype s)) eqn:Ek.
  - cbn [fst snd]. split; [split; [exact Hd|now exists s]|].
    rewrite (recover_intact types (locked x) s Hd Hl), Ek. repeat split.
  - destruct (st_complete (s_state s)) eqn:Ec.
    + cbn [fst snd]. split; [split; [exact Hd|now exists s]|].
      rewrite (recover_intact types (locked x) s Hd Hl), Ek, Ec. repeat split.
    + destruct (s_state s =? S_PENDING) eqn:Ep; cbn [fst snd].
      * split; [split; [exact Hd|eexists; apply Hf]|].
        rewrite (recover_intact types (with_status x (encode (failed_rec x s))) (failed_rec x s) Hd (Hf _)).
        change (s_wtype (failed_rec x s)) with (s_wtype s). rewrite Ek.
        change (st_complete (s_state (failed_rec x s))) with true. repeat split.
      * split; [split; [exact Hd|now exists s]|].
        rewrite (recover_intact types (locked x) s Hd Hl), Ek, Ec, Ep. repeat split.
  - destruct (started s) eqn:Est; cbn [fst snd].
    + split; [split; [exact Hd|now exists s]|].
      rewrite (recover_intact types (locked x) s Hd Hl), Ek, Est. repeat split.
    + split; [split; [exact Hd|eexists; apply Hf]|].
      rewrite (recover_intact types (with_status x (encode (failed_rec x s))) (failed_rec x s) Hd (Hf _)).
      change (s_wtype (failed_rec x s)) with (s_wtype s). rewrite Ek.
      change (started (failed_rec x s)) with (started s). rewrite Est. repeat split.
Qed.

(* an emptied record (the truncate->write window): the first restart writes a record — without
   the work type — and from then on the unit has an intact record *)
Lemma recover_emptied types x : uf_dir x = true -> uf_status x = Some [] ->
  has_record (fst (recover types x)).
Proof.
  intros Hd Hs. unfold recover. rewrite Hd. cbn [negb].
  fold (locked x). assert (Hl : uf_status (locked x) = Some []) by exact Hs.
  unfold status_content. rewrite Hl. cbn [parse].
  set (k := kind_of types []).
  assert (Hload : forall m, exec_steps (mkP (locked x) m false) load_op = mkP (locked x) m true).
  { intro m. unfold load_op, exec_steps. cbn [fold_left]. rewrite exec_op.
    fold (locked (locked x)). rewrite locked_idem. now destruct (exec_load_empty (locked x) m Hl). }
  rewrite Hload. cbn [p_err p_fs p_mem].
  (* UpdateBasicStatus on the empty file: the in-memory record is written *)
  assert (Hmf : forall m, mark_failed (mkP (locked x) m true) =
                          mkP (with_status x (encode (failed_rec x m))) (failed_rec x m) false).
  { intro m. unfold mark_failed, upd_op, exec_steps. cbn [fold_left p_fs p_mem].
    rewrite !exec_op. fold (locked (locked x)). rewrite locked_idem.
    assert (E2 : uapply (locked x) (UOpenCreate FStatus) = locked x)
      by (unfold uapply; cbn [uget]; now rewrite Hl).
    rewrite E2. destruct (exec_load_empty (locked x) m Hl) as [E _]. rewrite E.
    rewrite exec_apply, exec_op, exec_store.
    f_equal. unfold uapply at 2. cbn [uget]. rewrite Hl. cbn [uset].
    unfold uapply. cbn [uget uset uf_dir uf_status uf_lock uf_stdin uf_stdout].
    now rewrite write_at_nil. }
  rewrite Hmf. cbn [p_fs p_mem p_err].
  assert (Hrec : forall r, has_record (with_status x (encode r)))
    by (intro r; split; [exact Hd|now exists r]).
  destruct k.
  - cbn [fst]. apply Hrec.
  - (* Restart of a command unit: Load again, now a finished (Failed) record *)
    rewrite (load_op_full (with_status x (encode (failed_rec x (worker_init KCmd [])))) _ (failed_rec x (worker_init KCmd [])) eq_refl).
    cbn [p_err p_fs p_mem]. change (st_complete (s_state (failed_rec x (worker_init KCmd [])))) with true.
    cbn [fst]. split; [exact Hd|]. eexists. reflexivity.
  - change (started (failed_rec x (worker_init KRemote []))) with false. cbv iota.
    rewrite (mark_failed_intact (with_status x (encode (failed_rec x (worker_init KRemote [])))) _ (failed_rec x (worker_init KRemote [])) eq_refl).
    cbn [p_fs fst]. split; [exact Hd|]. eexists. reflexivity.
Qed.

Lemma cycles_record types x k : has_record x -> has_record (cycles types x k).
Proof.
  intro H. induction k as [|k IH]; [exact H|]. simpl. now apply recover_stable.
Qed.

Lemma same_answer_trans a b c : same_answer a b -> same_answer b c -> same_answer a c.
Proof. intros [A1 [A2 A3]] [B1 [B2 B3]]. repeat split; congruence. Qed.

(* crash_recovery_idempotent: after the first restart, any number of further kill/restart
   cycles answers the same — for a unit with an intact record and for one whose record was
   emptied in the window (whose first restart already is the loss) *)
Theorem crash_recovery_idempotent_thm : forall types x k,
  uf_dir x = true -> (exists s, uf_status x = Some (encode s)) \/ uf_status x = Some [] ->
  same_answer (snd (recover types (cycles types x (S k)))) (snd (recover types (cycles types x 1))).
Proof.
  intros types x k Hd Hx.
  assert (H1 : has_record (cycles types x 1)).
  { simpl. destruct Hx as [Hs|He].
    - apply recover_stable. now split.
    - now apply recover_emptied. }
  induction k as [|k IH]; [repeat split|].
  eapply same_answer_trans; [|exact IH].
  change (cycles types x (S (S k))) with (fst (recover types (cycles types x (S k)))).
  apply recover_stable.
  change (cycles types x (S k)) with (cycles types (cycles types x 1) k) || idtac.
  clear IH. induction k as [|k IHk]; [exact H1|].
  change (cycles types x (S (S k))) with (fst (recover types (cycles types x (S k)))).
  now apply recover_stable.
Qed.


(* ---------- final states are fixed points of recovery ---------- *)
(* A unit at rest in a final state — Succeeded, Failed or Canceled — with an intact record is left
   exactly as it is by a restart (Restart of a command unit returns at once for a complete state
   and only watches a cancelled one; a started remote unit is only watched; an unknown unit is
   never touched): no file but the lock file changes and the daemon answers the record. *)
Theorem final_states_fixed_thm : forall types x s,
  uf_dir x = true -> uf_status x = Some (encode s) -> st_final (s_state s) = true ->
  (kind_of types (s_wtype s) = KRemote -> started s = true) ->
  exists known mon,
    recover types x = (locked x, mkView true known s mon) /\ core (locked x) = core x.
Proof.
  intros types x s Hd Hs Hf Hrem. rewrite (recover_intact types x s Hd Hs).
  destruct (kind_of types (s_wtype s)) eqn:Ek.
  - now exists false, false.
  - unfold st_final in Hf. destruct (st_complete (s_state s)) eqn:Ec.
    + now exists true, false.
    + cbn [orb] in Hf. apply N.eqb_eq in Hf. rewrite Hf. cbn. now exists true, true.
  - rewrite (Hrem eq_refl). now exists true, true.
Qed.

(* ... and so by any number of restarts *)
Theorem final_states_fixed_cycles_thm : forall types x s k,
  uf_dir x = true -> uf_status x = Some (encode s) -> st_final (s_state s) = true ->
  (kind_of types (s_wtype s) = KRemote -> started s = true) ->
  core (cycles types x k) = core x /\ v_status (snd (recover types (cycles types x k))) = s.
Proof.
  intros types x s k Hd Hs Hf Hrem.
  assert (Hstep : forall y, core y = core x ->
            exists kn mn, recover types y = (locked y, mkView true kn s mn) /\ core (locked y) = core y).
  { intros y Hy. unfold core in Hy. inversion Hy as [[E1 E2 E3 E4]].
    apply final_states_fixed_thm; try congruence; auto. }
  assert (H : core (cycles types x k) = core x).
  { induction k as [|k IH]; [reflexivity|]. simpl.
    destruct (Hstep _ IH) as [kn [mn [E C]]]. rewrite E. cbn [fst]. now rewrite C. }
  split; [exact H|]. destruct (Hstep _ H) as [kn [mn [E C]]]. now rewrite E.
Qed.

(* a remote unit that never started and is Failed (time to live over, cancelled locally, failed at an
   earlier restart): every restart marks it Failed again — state and recorded size stay what they
   were (only the free-text detail, which the model does not carry, is rewritten) *)
Theorem failed_unstarted_remote_fixed_thm : forall types x s,
  uf_dir x = true -> uf_status x = Some (encode s) ->
  kind_of types (s_wtype s) = KRemote -> started s = false ->
  s_state s = S_FAILED -> s_size s = stdout_size x ->
  snd (recover types x) = mkView true true s false /\
  uf_status (fst (recover types x)) = Some (encode s) /\ core (fst (recover types x)) = core x.
Proof.
  intros types x s Hd Hs Hk Hst Hf Hz. rewrite (recover_intact types x s Hd Hs), Hk, Hst.
  assert (E : failed_rec x s = s).
  { unfold failed_rec. rewrite <- Hf, <- Hz. now destruct s. }
  rewrite E. cbn [fst snd]. split; [reflexivity|]. split; [reflexivity|].
  unfold core, with_status. cbn [uf_dir uf_status uf_stdin uf_stdout]. now rewrite Hs.
Qed.
(* ---------- the start-up scan over the whole data directory ---------- *)

(* what the scan does with (and answers for) the entry of a name is what it does with that entry
   alone: nothing else in the directory — no other entry's presence, content or failure, no
   position in the directory order — enters into it *)
Theorem scan_independent_thm : forall types d n,
  dlookup n (scan_dir types d) = option_map (scan_entry types) (dlookup n d).
Proof.
  intros types d n. unfold dlookup, scan_dir.
  induction d as [|[m e] r IH]; [reflexivity|]. simpl.
  destruct (m =? n); [reflexivity|exact IH].
Qed.

Theorem scan_other_entries_irrelevant_thm : forall types d1 d2 n,
  dlookup n d1 = dlookup n d2 ->
  dlookup n (scan_dir types d1) = dlookup n (scan_dir types d2).
Proof. intros types d1 d2 n H. now rewrite !scan_independent_thm, H. Qed.

(* entries put in front, behind or in between change nothing for a unit whose name they do not bear *)
Theorem scan_crowd_irrelevant_thm : forall types before after n x,
  dlookup n before = None ->
  dlookup n (scan_dir types (before ++ (n, DUnit x) :: after)) = Some (scan_entry types (DUnit x)).
Proof.
  intros types before after n x Hb. rewrite scan_independent_thm.
  unfold dlookup in *. induction before as [|[m e] r IH]; simpl in *.
  - now rewrite N.eqb_refl.
  - destruct (m =? n); [discriminate|]. now apply IH.
Qed.

(* a scan that stops at the first failing entry loses every unit behind it *)
Theorem scan_stop_refuted_thm : forall fails types n1 n2 e x,
  fails e = true -> n1 <> n2 ->
  dlookup n2 (scan_stop fails types [(n1, e); (n2, DUnit x)]) = None /\
  dlookup n2 (scan_dir types [(n1, e); (n2, DUnit x)]) = Some (scan_entry types (DUnit x)).
Proof.
  intros fails types n1 n2 e x Hf Hne. apply N.eqb_neq in Hne.
  unfold dlookup. simpl. rewrite Hf. simpl. rewrite Hne, N.eqb_refl. split; reflexivity.
Qed.
