(* Proofs/Crash.v — lemmas about Model/Fs.v, Model/Status.v, Model/Crash.v (property C04). *)
From Coq Require Import ZArith Lia ZifyN ZifyNat ZifyBool.
From Receptor Require Import Model.Crash.
Open Scope N_scope.

(* ====================================================================================== *)
(* A. the general file system, and the unit's record as a view of it                      *)
(* ====================================================================================== *)

Lemma beq_path_refl p : beq_path p p = true.
Proof. induction p as [|x p IH]; simpl; [reflexivity|]. now rewrite N.eqb_refl. Qed.

Lemma beq_path_eq p q : beq_path p q = true <-> p = q.
Proof.
  revert q; induction p as [|x p IH]; intros [|y q]; simpl; split; intro H;
    try reflexivity; try discriminate.
  - apply andb_true_iff in H as [H1 H2]. apply N.eqb_eq in H1. apply IH in H2. now subst.
  - inversion H; subst. rewrite N.eqb_refl. now apply IH.
Qed.

Lemma fs_get_set_same fs p n : fs_get (fs_set fs p n) p = Some n.
Proof.
  induction fs as [|[q m] r IH]; simpl.
  - now rewrite beq_path_refl.
  - destruct (beq_path q p) eqn:E; simpl.
    + now rewrite E.
    + now rewrite E.
Qed.

Lemma fs_get_set_other fs p n q : beq_path p q = false -> fs_get (fs_set fs p n) q = fs_get fs q.
Proof.
  intro H. induction fs as [|[a m] r IH]; simpl.
  - now rewrite H.
  - destruct (beq_path a p) eqn:E; simpl.
    + apply beq_path_eq in E. subst a. now rewrite H.
    + destruct (beq_path a q); [reflexivity|exact IH].
Qed.

(* an operation of unit u touches one path, which is [u] or below it *)
Lemma fsop_path_under u o : is_under (unitp u) (op_path (fsop_of u o)) = true.
Proof. destruct o; simpl; now rewrite N.eqb_refl. Qed.

Lemma under_neq p q r : is_under p q = true -> is_under p r = false -> beq_path q r = false.
Proof.
  revert q r; induction p as [|x p IH]; intros q r H1 H2; simpl in *; [discriminate|].
  destruct q as [|y q]; [discriminate|]. destruct r as [|z r]; [reflexivity|].
  simpl. apply andb_true_iff in H1 as [E1 H1]. apply N.eqb_eq in E1. subst y.
  destruct (x =? z) eqn:E; simpl in *; [|reflexivity]. now apply IH.
Qed.

(* frame: the operations of unit u leave every path outside u's directory as it was *)
Theorem fsop_frame : forall u o fs q,
  is_under (unitp u) q = false -> fs_get (apply_op fs (fsop_of u o)) q = fs_get fs q.
Proof.
  intros u o fs q Hq.
  assert (Hne : beq_path (op_path (fsop_of u o)) q = false)
    by (apply (under_neq (unitp u)); [apply fsop_path_under|exact Hq]).
  destruct o; simpl in *;
    repeat match goal with
           | |- context [match fs_get fs ?p with _ => _ end] => destruct (fs_get fs p) as [[|?]|]
           end; try reflexivity; now apply fs_get_set_other.
Qed.

(* the unit directory is a directory or absent, the unit's files are files or absent *)
Definition well_typed (u : N) (fs : fsstate) : Prop :=
  (fs_get fs (unitp u) = None \/ fs_get fs (unitp u) = Some Dir) /\
  forall f, fs_get fs (filep u f) = None \/ exists c, fs_get fs (filep u f) = Some (File c).

Lemma filep_neq u f g : f <> g -> beq_path (filep u f) (filep u g) = false.
Proof. intro H. destruct f, g; try congruence; simpl; now rewrite N.eqb_refl. Qed.

Lemma filep_unitp u f : beq_path (filep u f) (unitp u) = false.
Proof. simpl. now rewrite N.eqb_refl. Qed.

Lemma unitp_filep u f : beq_path (unitp u) (filep u f) = false.
Proof. simpl. now rewrite N.eqb_refl. Qed.

Lemma ufile_dec (f g : ufile) : {f = g} + {f <> g}.
Proof. decide equality. Qed.

Lemma content_set_same fs p c : file_content (fs_set fs p (File c)) p = Some c.
Proof. unfold file_content. now rewrite fs_get_set_same. Qed.

Lemma content_set_other fs p n q : beq_path p q = false ->
  file_content (fs_set fs p n) q = file_content fs q.
Proof. intro H. unfold file_content. now rewrite fs_get_set_other. Qed.

Lemma isdir_set_other fs p n q : beq_path p q = false -> is_dir (fs_set fs p n) q = is_dir fs q.
Proof. intro H. unfold is_dir. now rewrite fs_get_set_other. Qed.

(* setting file f of unit u in the general file system is [uset] on the record *)
Lemma project_set_file u fs f c :
  project u (fs_set fs (filep u f) (File c)) = uset (project u fs) f (Some c).
Proof.
  unfold project.
  rewrite (isdir_set_other _ _ _ _ (filep_unitp u f)).
  destruct f; simpl uset; f_equal;
    try apply content_set_same;
    try (apply content_set_other; apply filep_neq; discriminate).
Qed.

Lemma uget_project u fs f : uget (project u fs) f = file_content fs (filep u f).
Proof. destruct f; reflexivity. Qed.

Lemma uset_same x f : uset x f (uget x f) = x.
Proof. destruct x, f; reflexivity. Qed.

(* the steps of the unit model are the file-system operations they stand for *)
Theorem project_apply : forall u fs o,
  well_typed u fs ->
  project u (apply_op fs (fsop_of u o)) = uapply (project u fs) o /\
  well_typed u (apply_op fs (fsop_of u o)).
Proof.
  intros u fs o [Hd Hf].
  assert (Hset : forall f c, well_typed u (fs_set fs (filep u f) (File c))).
  { intros f c. split.
    - rewrite (fs_get_set_other _ _ _ _ (filep_unitp u f)). exact Hd.
    - intro g. destruct (ufile_dec f g) as [->|Hne].
      + right. exists c. apply fs_get_set_same.
      + rewrite (fs_get_set_other _ _ _ _ (filep_neq u f g Hne)). apply Hf. }
  destruct o as [|f|f|f|f off b|f b]; simpl fsop_of; simpl apply_op.
  - (* Mkdir *)
    destruct Hd as [Hd|Hd]; rewrite Hd.
    + split.
      * unfold project, uapply. simpl.
        unfold is_dir. rewrite fs_get_set_same.
        f_equal; apply content_set_other; apply unitp_filep.
      * split; [right; apply fs_get_set_same|].
        intro g. rewrite (fs_get_set_other _ _ _ _ (unitp_filep u g)). apply Hf.
    + split; [|split; [now right|exact Hf]].
      unfold project, uapply, is_dir. simpl. rewrite Hd. reflexivity.
  - (* OpenCreate *)
    unfold uapply. rewrite uget_project. unfold file_content.
    destruct (Hf f) as [E|[c E]]; rewrite E.
    + split; [apply project_set_file|apply Hset].
    + split; [reflexivity|split; [exact Hd|exact Hf]].
  - (* OpenTrunc *)
    unfold uapply.
    destruct (Hf f) as [E|[c E]]; rewrite E; (split; [apply project_set_file|apply Hset]).
  - (* Truncate *)
    unfold uapply. rewrite uget_project. unfold file_content.
    destruct (Hf f) as [E|[c E]]; rewrite E.
    + split; [reflexivity|split; [exact Hd|exact Hf]].
    + split; [apply project_set_file|apply Hset].
  - (* WriteAt *)
    unfold uapply. rewrite uget_project. unfold file_content.
    destruct (Hf f) as [E|[c E]]; rewrite E.
    + split; [reflexivity|split; [exact Hd|exact Hf]].
    + split; [apply project_set_file|apply Hset].
  - (* Append *)
    unfold uapply. rewrite uget_project. unfold file_content.
    destruct (Hf f) as [E|[c E]]; rewrite E; (split; [apply project_set_file|apply Hset]).
Qed.

Lemma well_typed_empty u : well_typed u [].
Proof. split; [now left|intro f; now left]. Qed.

(* ====================================================================================== *)
(* B. the encoding of the record                                                           *)
(* ====================================================================================== *)

Lemma take_bytes_enc b r : take_bytes (enc_bytes b ++ r) = Some (b, r).
Proof.
  unfold enc_bytes, take_bytes. simpl. rewrite Nat2N.id.
  assert (H : Nat.leb (length b) (length (b ++ r)) = true)
    by (apply Nat.leb_le; rewrite app_length; lia).
  rewrite H. f_equal. f_equal.
  - rewrite firstn_app, Nat.sub_diag, firstn_all. simpl. apply app_nil_r.
  - rewrite skipn_app, Nat.sub_diag, skipn_all. reflexivity.
Qed.

Lemma dec_extra_2 r : dec_extra (2 :: r) =
  match take_bytes r with
  | Some (n, r1) =>
    match take_bytes r1 with
    | Some (t, r2) =>
      match take_bytes r2 with
      | Some (u, st :: r3) =>
        if st =? 0 then Some (XRemote n t u false, r3)
        else if st =? 1 then Some (XRemote n t u true, r3) else None
      | _ => None
      end
    | None => None
    end
  | None => None
  end.
Proof. reflexivity. Qed.

Lemma dec_extra_enc e r : dec_extra (enc_extra e ++ r) = Some (e, r).
Proof.
  destruct e as [|pid|n t u st]; [reflexivity|reflexivity|].
  unfold enc_extra. rewrite <- !app_assoc.
  change ([2] ++ ?x) with (2 :: x).
  rewrite dec_extra_2, !take_bytes_enc.
  destruct st; reflexivity.
Qed.

Lemma parse_123 st sz r : parse (123 :: st :: sz :: r) =
  match take_bytes r with
  | Some (wt, r1) =>
    match dec_extra r1 with
    | Some (ex, [125; 10]) => Some (mkStatus st sz wt ex)
    | _ => None
    end
  | None => None
  end.
Proof. reflexivity. Qed.

Theorem parse_encode : forall s, parse (encode s) = Some s.
Proof.
  intros [st sz wt ex]. unfold encode. cbn [s_state s_size s_wtype s_extra].
  change ([123; st; sz] ++ ?x) with (123 :: st :: sz :: x).
  rewrite parse_123, take_bytes_enc, dec_extra_enc. reflexivity.
Qed.

Theorem parse_nil : parse [] = None.
Proof. reflexivity. Qed.

Lemma encode_not_nil s : encode s <> [].
Proof. discriminate. Qed.

(* a cut text is not a record either (computed on a record with every kind of field) *)
Example parse_cut :
  let e := encode (mkStatus 2 150 [101; 109; 105; 116] (XRemote [98] [101] [85; 49] true)) in
  forallb (fun k => match parse (firstn k e) with None => true | Some _ => false end)
          (seq 0 (length e)) = true.
Proof. vm_compute. reflexivity. Qed.

(* ====================================================================================== *)
(* C. the full statement does not hold of the code as it is                                *)
(* ====================================================================================== *)

Definition emit_t : bytes := [101; 109; 105; 116].

(* a local command that writes 3 and 2 bytes and succeeds *)
Definition witness_sc : scenario :=
  mkSc 7 emit_t None false [] [105; 10] [[1; 2; 3]; [4; 5]] true 4242 [emit_t].

(* the unit has FINISHED (Succeeded, 5 bytes); the daemon is killed between the truncation and
   the rewrite of the record in which it clears the runner's PID *)
Definition witness_cp : crashpoint := mkCp (repeat true 9 ++ repeat false 7) false 5 0.

Theorem C04_refuted_thm :
  wf_scenario witness_sc = true /\ cp_runner witness_cp = false /\
  in_window witness_sc witness_cp = true /\
  let o := experiment witness_sc witness_cp in
  o_acked o = true /\
  o_before o = Some (mkStatus S_SUCCEEDED 5 emit_t (XCmd 4242)) /\
  v_listed (o_restart o) = true /\ v_known (o_restart o) = false /\
  v_status (o_restart o) = mkStatus S_FAILED 5 [] XNone /\
  v_status (o_again o) = mkStatus S_FAILED 5 [] XNone /\
  holds witness_sc witness_cp = false.
Proof. vm_compute. repeat split; reflexivity. Qed.

Theorem C04_full_statement_refuted : ~ C04_full_statement.
Proof.
  intro H.
  assert (W : wf_scenario witness_sc = true) by (vm_compute; reflexivity).
  assert (R : cp_runner witness_cp = false) by reflexivity.
  specialize (H witness_sc witness_cp W R). clear W R.
  assert (E : holds witness_sc witness_cp = false) by (vm_compute; reflexivity).
  rewrite E in H. clear E. discriminate H.
Qed.

(* the same window while the unit has never been started: the work type is lost as well *)
Definition witness_cp_pending : crashpoint := mkCp (repeat true 5) false 5 0.

Theorem C04_refuted_pending_thm :
  in_window witness_sc witness_cp_pending = true /\
  let o := experiment witness_sc witness_cp_pending in
  o_acked o = true /\ s_wtype (v_status (o_restart o)) = [] /\ v_known (o_restart o) = false /\
  holds witness_sc witness_cp_pending = false.
Proof. vm_compute. repeat split; reflexivity. Qed.

(* a remote unit bound to node "b", started there: the binding is lost *)
Definition witness_remote : scenario :=
  mkSc 9 remote_name (Some ([98], emit_t)) true [85; 49] [105] [[]; [1; 2; 3]] true 0 [].
Definition witness_cp_remote : crashpoint := mkCp (repeat true 9 ++ [false]) false 5 0.

Theorem C04_refuted_remote_thm :
  wf_scenario witness_remote = true /\ in_window witness_remote witness_cp_remote = true /\
  let o := experiment witness_remote witness_cp_remote in
  o_acked o = true /\
  o_before o = Some (mkStatus S_PENDING 0 remote_name (XRemote [98] emit_t [85; 49] true)) /\
  v_status (o_restart o) = mkStatus S_FAILED 0 [] XNone /\
  holds witness_remote witness_cp_remote = false.
Proof. vm_compute. repeat split; reflexivity. Qed.

(* the runner is killed (anywhere, here between two of its rewrites): nobody completes the unit *)
Definition witness_cp_runner : crashpoint := mkCp (repeat true 9 ++ repeat false 4) true 0 1.

Theorem runner_killed_never_completes_thm :
  let o := experiment witness_sc witness_cp_runner in
  o_acked o = true /\ in_window witness_sc witness_cp_runner = false /\
  s_wtype (v_status (o_restart o)) = emit_t /\
  s_state (v_status (o_final o)) = S_RUNNING /\
  s_state (v_status (o_again o)) = S_RUNNING /\
  stdout_content (o_final_fs o) = [1; 2; 3].
Proof. vm_compute. repeat split; reflexivity. Qed.
