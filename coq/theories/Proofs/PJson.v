(* Proofs/PJson.v — facts about the encoding/json model of Model/PJson.v that the protocol
   proofs and the C07/C11 property statements use. *)
From Coq Require Import String Lia ZArith ZifyN ZifyNat ZifyBool.
From Receptor Require Import Model.PJson.
Open Scope list_scope.
Open Scope N_scope.

(* ---------- numbers ---------- *)

Lemma round53_exact n : N.size n <= 53 -> round53 n = n.
Proof. intro H. unfold round53. apply N.leb_le in H. now rewrite H. Qed.

Lemma num_uint_bound b x n : num_uint b x = JOk n -> n < b.
Proof.
  destruct x as [[|] m| |]; simpl; try discriminate.
  destruct (m <? b) eqn:E; [|discriminate]. intro H; inversion H; subst. now apply N.ltb_lt.
Qed.

Lemma dec_uint_bound b cur v n : cur < b -> dec_uint b cur v = JOk n -> n < b.
Proof.
  intros Hc. destruct v; simpl; try discriminate.
  - intro H; inversion H; now subst.
  - apply num_uint_bound.
Qed.

(* a negative, fractional or exponent literal never becomes an unsigned integer *)
Lemma num_uint_integer_literal b x n : num_uint b x = JOk n -> x = NInt false n.
Proof.
  destruct x as [[|] m| |]; simpl; try discriminate.
  destruct (m <? b); [|discriminate]. intro H; now inversion H.
Qed.

Lemma dy_eqb_refl d : dy_eqb d d = true.
Proof.
  unfold dy_eqb. rewrite eqb_reflx, !N.eqb_refl. reflexivity.
Qed.

(* ---------- kinds ---------- *)

Lemma dec_str_null cur : dec_str cur JNull = JOk cur.
Proof. reflexivity. Qed.

Lemma dec_str_mismatch cur v :
  (forall s t, v <> JStr s t) -> v <> JNull -> dec_str cur v = JErr.
Proof. destruct v; simpl; intros H1 H2; try reflexivity; [contradiction|exfalso; eapply H1; reflexivity]. Qed.

Lemma dec_uint_mismatch b cur v :
  (forall x, v <> JNum x) -> v <> JNull -> dec_uint b cur v = JErr.
Proof. destruct v; simpl; intros H1 H2; try reflexivity; [contradiction|exfalso; eapply H1; reflexivity]. Qed.

(* ---------- routingUpdate ---------- *)

(* anything but an object or null at top level is an error; null leaves the zero struct *)
Lemma decode_ru_toplevel j :
  match j with
  | JNull => decode_routing_update j = JOk ru_zero
  | JObj ms => decode_routing_update j = ru_members ms ru_zero
  | _ => decode_routing_update j = JErr
  end.
Proof. destruct j; reflexivity. Qed.

Definition ru_bounded (r : rupd) : Prop := ru_epoch r < two64 /\ ru_seq r < two64 /\ ru_dup r < two64.

Lemma ru_set_bounded r i x r' : ru_bounded r -> ru_set r i x = JOk r' -> ru_bounded r'.
Proof.
  intros (He & Hs & Hd) H. unfold ru_set in H.
  do 6 (destruct i as [|i]; [
    match type of H with
    | jbind ?e _ = _ => destruct e eqn:E; simpl in H; [|discriminate]
    end; inversion H; subst; unfold ru_bounded; cbn [ru_epoch ru_seq ru_dup];
    repeat split; try assumption; (eapply dec_uint_bound; [|exact E]; assumption) |]).
  match type of H with
  | jbind ?e _ = _ => destruct e eqn:E; simpl in H; [|discriminate]
  end; inversion H; subst; unfold ru_bounded; cbn [ru_epoch ru_seq ru_dup];
  repeat split; try assumption; (eapply dec_uint_bound; [|exact E]; assumption).
Qed.

Lemma ru_members_bounded ms : forall r r', ru_bounded r -> ru_members ms r = JOk r' -> ru_bounded r'.
Proof.
  induction ms as [|[k x] ms IH]; intros r r' Hb H; cbn [ru_members] in H.
  - inversion H; now subst.
  - destruct (field_index ru_names k 0) as [i|].
    + destruct (ru_set r i x) as [r1|] eqn:E; cbn [jbind] in H; [|discriminate].
      eapply IH; [|exact H]. eapply ru_set_bounded; eassumption.
    + eapply IH; eassumption.
Qed.

(* every uint64 field of a decoded update is below 2^64 *)
Lemma decode_ru_bounded j r : decode_routing_update j = JOk r -> ru_bounded r.
Proof.
  assert (Z : ru_bounded ru_zero) by (unfold ru_bounded, two64; simpl; lia).
  destruct j; simpl; try discriminate.
  - intro H; inversion H; now subst.
  - intro H. eapply ru_members_bounded; eassumption.
Qed.

(* ---------- serviceAdvertisementFull: the embedded pointer ---------- *)

Definition names_embedded (k : bytes) : bool :=
  match field_index ad_names k 0 with
  | Some i => Nat.ltb i 6
  | None => false
  end.

Lemma ad_set_present a i x a' : ad_set a i x = JOk a' ->
  ad_present a' = ad_present a || Nat.ltb i 6.
Proof.
  intro H. unfold ad_set in H.
  do 6 (destruct i as [|i]; [
    cbn [Nat.ltb Nat.leb] in H;
    match type of H with
    | jbind ?e _ = _ => destruct e eqn:E; cbn [jbind] in H; [|discriminate]
    end; inversion H; subst; cbn [ad_present ad_with Nat.ltb Nat.leb]; now rewrite orb_true_r |]).
  cbn [Nat.ltb Nat.leb] in H.
  match type of H with
  | jbind ?e _ = _ => destruct e eqn:E; cbn [jbind] in H; [|discriminate]
  end. inversion H; subst; cbn [ad_present Nat.ltb Nat.leb]; now rewrite orb_false_r.
Qed.

Lemma ad_members_present ms : forall a a', ad_members ms a = JOk a' ->
  ad_present a' = ad_present a || existsb (fun kv => names_embedded (fst kv)) ms.
Proof.
  induction ms as [|[k x] ms IH]; intros a a' H; cbn [ad_members] in H.
  - inversion H; subst. simpl. now rewrite orb_false_r.
  - cbn [existsb]. unfold names_embedded at 1. cbn [fst].
    destruct (field_index ad_names k 0) as [i|] eqn:Ef.
    + destruct (ad_set a i x) as [a1|] eqn:E; cbn [jbind] in H; [|discriminate].
      apply IH in H. apply ad_set_present in E. rewrite H, E. now rewrite orb_assoc.
    + apply IH in H. rewrite H. reflexivity.
Qed.

(* the embedded *ServiceAdvertisement is non-nil exactly when a member names one of its fields
   (whatever that member's value is, null included) *)
Lemma decode_advert_present j a : decode_advert j = JOk a ->
  ad_present a = match j with
                 | JObj ms => existsb (fun kv => names_embedded (fst kv)) ms
                 | _ => false
                 end.
Proof.
  destruct j; simpl; try discriminate.
  - intro H; inversion H; reflexivity.
  - intro H. apply ad_members_present in H. exact H.
Qed.

(* ---------- worked examples (member matching, null, duplicates, type errors) ---------- *)

Example ex_case_insensitive :
  decode_routing_update (JObj [(str "forwardingnode"%string, JStr (str "a"%string) None);
                               (str "NODEID"%string, JStr (str "b"%string) None)])
  = JOk {| ru_node := str "b"%string; ru_uid := []; ru_epoch := 0; ru_seq := 0; ru_conns := None;
           ru_fwd := str "a"%string; ru_dup := 0 |}.
Proof. reflexivity. Qed.

(* U+017F LATIN SMALL LETTER LONG S folds to 's': "Connectionſ" names the Connections field *)
Example ex_long_s :
  field_index ru_names (str "Connection"%string ++ [197; 191]) 0 = Some 4%nat.
Proof. reflexivity. Qed.

Example ex_null_map_value :
  decode_routing_update (JObj [(str "Connections"%string, JObj [(str "a"%string, JNull)])])
  = JOk {| ru_node := []; ru_uid := []; ru_epoch := 0; ru_seq := 0;
           ru_conns := Some [(str "a"%string, zero_dy)]; ru_fwd := []; ru_dup := 0 |}.
Proof. reflexivity. Qed.

Example ex_uint_fraction_is_error :
  decode_routing_update (JObj [(str "UpdateEpoch"%string, JNum (NFrac (Dy false 1 0)))]) = JErr.
Proof. reflexivity. Qed.

Example ex_uint_overflow_is_error :
  decode_routing_update (JObj [(str "UpdateEpoch"%string, JNum (NInt false two64))]) = JErr.
Proof. reflexivity. Qed.

Example ex_advert_cancel_only_nil :
  decode_advert (JObj [(str "Cancel"%string, JBool true)])
  = JOk {| ad_present := false; ad_node := []; ad_service := []; ad_time := None; ad_conntype := 0;
           ad_tags := None; ad_cmds := None; ad_cancel := true |}.
Proof. reflexivity. Qed.

Example ex_advert_null_field_allocates :
  jbind (decode_advert (JObj [(str "tags"%string, JNull)])) (fun a => JOk (ad_present a)) = JOk true.
Proof. reflexivity. Qed.
