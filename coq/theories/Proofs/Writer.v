(* Proofs/Writer.v — the in-process producer (STDoutWriter + finishing UpdateBasicStatus) keeps the
   producer's contract of Model/Results.v, for every sequence of writes, every number of bytes the
   file accepts, every error and every failing status save. *)
From Coq Require Import ZArith Lia ZifyN ZifyNat ZifyBool.
From Receptor Require Import Model.Writer Proofs.Results.
Open Scope N_scope.

Lemma rlen_firstn (p : bytes) (n : N) : n <= rlen p -> rlen (firstn (N.to_nat n) p) = n.
Proof.
  unfold rlen. intro H. rewrite firstn_length. lia.
Qed.

Lemma accepted_le p a : accepted p a <= rlen p.
Proof. unfold accepted. lia. Qed.

(* ---------- the invariant: Size() is the length of the file; the record is never ahead ---------- *)
Definition winv_w (s : wstate) : Prop :=
  ws_written s = rlen (ws_file s) /\ ws_recorded s <= rlen (ws_file s).

Lemma w_step_inv s o : winv_w s -> winv_w (w_step s o).
Proof.
  intros [Hw Hr]. destruct o as [p a e sv|st]; unfold w_step, w_step_with, w_write; simpl.
  - pose proof (accepted_le p a) as Hle.
    destruct (0 <? accepted p a) eqn:E; simpl; unfold winv_w; simpl;
      rewrite rlen_app, (rlen_firstn p _ Hle).
    + destruct sv; lia.
    + lia.
  - unfold winv_w. simpl. lia.
Qed.

Lemma w_steps_inv ops : forall s, winv_w s -> winv_w (fold_left w_step ops s).
Proof.
  induction ops as [|o r IH]; intros s H; [exact H|]. simpl. apply IH. now apply w_step_inv.
Qed.

Lemma winv_w0 : winv_w wstate0.
Proof. unfold winv_w. simpl. unfold rlen. simpl. lia. Qed.

Theorem writer_inv_thm : forall ops,
  ws_written (wrun ops) = rlen (ws_file (wrun ops)) /\
  ws_recorded (wrun ops) <= rlen (ws_file (wrun ops)).
Proof. intro ops. exact (w_steps_inv ops wstate0 winv_w0). Qed.

(* what one Write returns and does to the file: exactly the accepted prefix, nothing else *)
Theorem writer_write_thm : forall s p a e sv,
  let '(s', (n, _)) := w_write false s p a e sv in
  n <= rlen p /\ ws_file s' = ws_file s ++ firstn (N.to_nat n) p /\
  ws_written s' = ws_written s + n /\ ws_state s' = ws_state s.
Proof.
  intros s p a e sv. unfold w_write. pose proof (accepted_le p a) as Hle.
  destruct (0 <? accepted p a) eqn:E; simpl; repeat split; auto; lia.
Qed.

(* ---------- the trace it generates and the world of Model/Results.v ---------- *)
Definition wrel (s : wstate) (w : world) : Prop :=
  w_file w = Some (ws_file s) /\ w_state w = ws_state s /\ w_size w = ws_recorded s.

Lemma wrel_step s w o : wrel s w ->
  wrel (w_step s o) (fold_left env_step (w_events_with false s o) w).
Proof.
  intros [Hf [Hs Hz]]. destruct o as [p a e sv|st]; unfold w_step, w_step_with, w_events_with, w_write.
  - destruct (0 <? accepted p a) eqn:E; simpl.
    + destruct sv; simpl; unfold wrel, w_output, w_write; simpl; rewrite ?E, Hf; simpl; repeat split; auto.
    + unfold wrel; simpl. assert (accepted p a = 0) as -> by lia. simpl. rewrite app_nil_r. auto.
  - unfold wrel; simpl. auto.
Qed.

Lemma wrel_trace ops : forall s w, wrel s w ->
  wrel (fold_left w_step ops s) (fold_left env_step (wtrace_from false s ops) w).
Proof.
  induction ops as [|o r IH]; intros s w H; [exact H|].
  simpl. rewrite fold_left_app. apply IH. now apply wrel_step.
Qed.

Lemma wrel0 : wrel wstate0 (env_step world0 ECreate).
Proof. unfold wrel. simpl. auto. Qed.

Theorem writer_world_thm : forall ops,
  output_of (wtrace ops) = ws_file (wrun ops) /\
  w_state (world_after (wtrace ops)) = ws_state (wrun ops) /\
  w_size (world_after (wtrace ops)) = ws_recorded (wrun ops).
Proof.
  intro ops. unfold output_of, world_after, wtrace, wrun. simpl fold_left at 1 3 5.
  destruct (wrel_trace ops wstate0 _ wrel0) as [Hf [Hs Hz]].
  unfold w_output. change (env_step world0 ECreate) with (mkWorld (Some []) ST_PENDING 0) in *.
  rewrite Hf. auto.
Qed.

(* ---------- the contract ---------- *)
Lemma w_step_state_write s p a e sv : ws_state (w_step s (WWrite p a e sv)) = ws_state s.
Proof. unfold w_step, w_step_with, w_write. destruct (0 <? accepted p a); reflexivity. Qed.

Lemma writer_contract_from ops : forall s w,
  wrel s w -> winv_w s -> disciplined_from (results_done (ws_state s)) ops = true ->
  contract_from results_done w (wtrace_from false s ops) = true.
Proof.
  induction ops as [|o r IH]; intros s w Hrel Hinv Hd; [reflexivity|].
  cbn [wtrace_from]. rewrite contract_app. apply andb_true_iff. split.
  - destruct Hrel as [Hf [Hs Hz]]. destruct Hinv as [Hw Hr].
    destruct o as [p a e sv|st]; cbn [disciplined_from] in Hd; apply andb_true_iff in Hd as [Hfin _];
      apply negb_true_iff in Hfin; unfold w_events_with.
    + destruct (0 <? accepted p a) eqn:E; [|reflexivity].
      rewrite contract_cons. unfold cstep at 1. rewrite Hs, Hfin. simpl negb. rewrite andb_true_l.
      destruct sv; [|reflexivity].
      rewrite contract_cons. unfold cstep. cbn [env_step w_state]. rewrite Hs, Hfin. reflexivity.
    + rewrite contract_cons. unfold cstep. rewrite Hs, Hfin.
      destruct (results_done st) eqn:Est; [|reflexivity].
      simpl. rewrite andb_true_r. apply N.eqb_eq. unfold w_output. rewrite Hf. exact Hw.
  - apply IH.
    + now apply wrel_step.
    + now apply w_step_inv.
    + destruct o as [p a e sv|st]; cbn [disciplined_from] in Hd; apply andb_true_iff in Hd as [Hfin Hd].
      * change (w_step_with false s (WWrite p a e sv)) with (w_step s (WWrite p a e sv)).
        rewrite w_step_state_write. exact Hd.
      * exact Hd.
Qed.

Theorem writer_contract_thm : forall ops,
  disciplined ops = true -> contract (wtrace ops) = true.
Proof.
  intros ops Hd. unfold contract, wtrace. rewrite contract_cons. simpl cstep. rewrite andb_true_l.
  apply (writer_contract_from ops wstate0); [exact wrel0|exact winv_w0|exact Hd].
Qed.

(* the contract does not look at the reader's polls *)
Lemma contract_env_only fin tr : forall w,
  contract_from fin w (env_only tr) = contract_from fin w tr.
Proof.
  induction tr as [|e r IH]; intro w; [reflexivity|].
  destruct e; simpl; rewrite ?IH; reflexivity.
Qed.

(* results of a unit whose output comes through the writer, with the reader's polls placed
   anywhere between the producer's actions: always a prefix; and a stream that has ended has
   delivered exactly the file from the start offset, and only after the finishing status *)
Theorem writer_results_exact_thm : forall ops start tr,
  disciplined ops = true -> env_only tr = wtrace ops ->
  let '(cs, fin) := results_run start tr in
  is_prefix (concat cs) (skipn (N.to_nat start) (ws_file (wrun ops))) = true /\
  (fin = true ->
   concat cs = skipn (N.to_nat start) (ws_file (wrun ops)) /\
   results_done (ws_state (wrun ops)) = true).
Proof.
  intros ops start tr Hd He.
  assert (Hc : contract tr = true).
  { unfold contract. rewrite <- contract_env_only, He. now apply writer_contract_thm. }
  pose proof (results_exact_thm start tr Hc) as H.
  destruct (writer_world_thm ops) as [Ho [Hs _]].
  assert (Hout : output_of tr = ws_file (wrun ops)).
  { unfold output_of, world_after in *. rewrite <- world_after_env_only, He. exact Ho. }
  assert (Hst : w_state (world_after tr) = ws_state (wrun ops)).
  { unfold world_after in *. rewrite <- world_after_env_only, He. exact Hs. }
  destruct (results_run start tr) as [cs fin]. rewrite Hout, Hst in H. exact H.
Qed.

(* once the finishing status is recorded the stream ends *)
Theorem writer_results_terminate_thm : forall ops start polls,
  disciplined ops = true -> results_done (ws_state (wrun ops)) = true ->
  (length (ws_file (wrun ops)) + 4 <= length polls)%nat ->
  snd (results_run start (wtrace ops ++ map EPoll polls)) = true.
Proof.
  intros ops start polls Hd Hf Hl. destruct (writer_world_thm ops) as [Ho [Hs _]].
  apply results_terminates_thm.
  - now apply writer_contract_thm.
  - now rewrite Hs.
  - now rewrite Ho.
Qed.

(* ---------- non-vacuity: a history with short writes, errors and a failing save ---------- *)
Definition writer_example : list wop :=
  [WWrite [1; 2; 3] 3 false true; WWrite [4; 5; 6; 7] 2 true true; WWrite [6; 7] 0 true true;
   WWrite [6; 7] 9 false false; WStatus ST_RUNNING; WWrite [8] 1 false true; WStatus ST_SUCCEEDED].

Example writer_example_ok :
  disciplined writer_example = true /\
  ws_file (wrun writer_example) = [1; 2; 3; 4; 5; 6; 7; 8] /\
  ws_recorded (wrun writer_example) = 8 /\
  fst (wobs_run wstate0 writer_example) =
    [mkObs 3 false 3 3 0; mkObs 2 true 5 5 0; mkObs 0 true 5 5 0; mkObs 2 true 7 5 0;
     mkObs 0 false 7 7 1; mkObs 1 false 8 8 1; mkObs 0 false 8 8 2] /\
  results_run 2 (wtrace writer_example ++ repeat (EPoll 3) 8) = ([[3; 4; 5]; [6; 7; 8]], true).
Proof. repeat split; reflexivity. Qed.

(* ---------- the writer that counts what it was asked to write ---------- *)
Definition ph_within (w : world) (ph : rphase) : Prop :=
  match ph with
  | RWait => True
  | RRead pos | REof pos => pos <= rlen (w_output w)
  | RDone => False
  end.

Lemma slice_len_bound f pos n : rlen (slice f pos n) <= rlen f - pos.
Proof.
  unfold slice, rlen. rewrite firstn_length, skipn_length. lia.
Qed.

Lemma ahead_never_done d s w : rlen (w_output w) < w_size w -> w_file w <> None ->
  s <= rlen (w_output w) -> forall polls ph,
  ph_within w ph -> snd (fst (run_from d s w ph (map EPoll polls))) <> RDone.
Proof.
  intros Hsz Hfile Hs. induction polls as [|n r IH]; intros ph Hph.
  - simpl. destruct ph; simpl in Hph; try discriminate. contradiction.
  - simpl. destruct (reader_step d s w ph n) as [ph' c] eqn:Es.
    assert (Hph' : ph_within w ph').
    { destruct ph as [|pos|pos|]; simpl in Es, Hph.
      - destruct (w_file w); [inversion Es; subst; exact Hs|congruence].
      - pose proof (slice_len_bound (w_output w) pos (chunk n)) as Hb.
        destruct (slice (w_output w) pos (chunk n)) eqn:Esl; inversion Es; subst; simpl.
        + exact Hph.
        + assert (pos < rlen (w_output w)) by (eapply slice_cons_lt; exact Esl). lia.
      - assert (w_size w <=? pos = false) as E by lia. rewrite E, andb_false_r in Es.
        inversion Es; subst; exact Hph.
      - contradiction. }
    specialize (IH ph' Hph').
    destruct (run_from d s w ph' (map EPoll r)) as [[cs phf] wf]. exact IH.
Qed.

Definition asked_witness : list wop := [WWrite [1; 2; 3] 1 true true; WStatus ST_SUCCEEDED].

(* one short write: the real writer records 1 byte and the results end with that byte; the writer
   that counts len(p) records 3, a size the output never reaches, and the results of the finished
   unit never end, however long the client waits *)
Theorem writer_count_asked_refuted_thm :
  disciplined asked_witness = true /\
  ws_recorded (wrun asked_witness) = 1 /\ ws_file (wrun asked_witness) = [1] /\
  results_run 0 (wtrace asked_witness ++ repeat (EPoll 65536) 5) = ([[1]], true) /\
  world_after (wtrace_asked asked_witness) = mkWorld (Some [1]) ST_SUCCEEDED 3 /\
  contract (wtrace_asked asked_witness) = false /\
  (forall polls, snd (results_run 0 (wtrace_asked asked_witness ++ map EPoll polls)) = false).
Proof.
  repeat split; try reflexivity.
  intro polls. unfold results_run, results_run_with. rewrite run_from_app.
  change (run_from results_done 0 world0 RWait (wtrace_asked asked_witness))
    with (@nil bytes, RWait, mkWorld (Some [1]) ST_SUCCEEDED 3).
  cbv iota beta.
  pose proof (ahead_never_done results_done 0 (mkWorld (Some [1]) ST_SUCCEEDED 3)) as H.
  specialize (H ltac:(vm_compute; reflexivity) ltac:(discriminate) ltac:(vm_compute; discriminate)
                polls RWait I).
  destruct (run_from results_done 0 _ RWait (map EPoll polls)) as [[cs phf] wf].
  simpl in *. destruct phf; try reflexivity. congruence.
Qed.

(* ---------- the command runner keeps the contract ---------- *)
Definition rrel (s : rstate) (w : world) : Prop :=
  w_file w = Some (rs_file s) /\ w_state w = rs_state s.

Lemma rrel_step s w o : rrel s w -> rrel (r_step s o) (fold_left env_step (r_events s o) w).
Proof.
  intros [Hf Hs]. destruct o as [b|ok|st]; unfold rrel; simpl.
  - unfold w_output. rewrite Hf. auto.
  - destruct ok; simpl; auto.
  - auto.
Qed.

Lemma rrel_trace ops : forall s w, rrel s w ->
  rrel (fold_left r_step ops s) (fold_left env_step (rtrace_from s ops) w).
Proof.
  induction ops as [|o r IH]; intros s w H; [exact H|].
  simpl. rewrite fold_left_app. apply IH. now apply rrel_step.
Qed.

Lemma runner_contract_from ops : forall s w,
  rrel s w -> results_done (rs_state s) = false -> exits_last ops = true ->
  contract_from results_done w (rtrace_from s ops) = true.
Proof.
  induction ops as [|o r IH]; intros s w Hrel Hnf Hx; [reflexivity|].
  cbn [rtrace_from]. rewrite contract_app. apply andb_true_iff.
  pose proof Hrel as [Hf Hs]. destruct o as [b|ok|st]; cbn [exits_last] in Hx.
  - split.
    + simpl. rewrite Hs, Hnf. reflexivity.
    + apply IH; [now apply (rrel_step s w (RAppend b))|exact Hnf|exact Hx].
  - split.
    + destruct ok; [|reflexivity]. simpl. rewrite Hs, Hnf. reflexivity.
    + apply IH; [now apply (rrel_step s w (RTick ok))| |exact Hx].
      destruct ok; [reflexivity|exact Hnf].
  - apply andb_true_iff in Hx as [Hst Hr]. destruct r; [|discriminate]. split; [|reflexivity].
    simpl. rewrite Hst. rewrite andb_true_r. apply N.eqb_eq. unfold w_output. now rewrite Hf.
Qed.

Theorem runner_contract_thm : forall ops, exits_last ops = true -> contract (rtrace ops) = true.
Proof.
  intros ops Hx. unfold contract, rtrace. rewrite contract_cons. simpl cstep. rewrite andb_true_l.
  apply (runner_contract_from ops rstate0); [split; reflexivity|reflexivity|exact Hx].
Qed.

Theorem runner_world_thm : forall ops,
  output_of (rtrace ops) = rs_file (rrun ops) /\
  w_state (world_after (rtrace ops)) = rs_state (rrun ops).
Proof.
  intro ops. unfold output_of, world_after, rtrace, rrun. simpl fold_left at 1 3.
  destruct (rrel_trace ops rstate0 _ (conj eq_refl eq_refl : rrel rstate0 (env_step world0 ECreate)))
    as [Hf Hs].
  unfold w_output. change (env_step world0 ECreate) with (mkWorld (Some []) ST_PENDING 0) in *.
  rewrite Hf. auto.
Qed.

(* results of a command unit, with the reader's polls anywhere: exact, and ended only after the
   runner recorded the exit *)
Theorem runner_results_exact_thm : forall ops start tr,
  exits_last ops = true -> env_only tr = rtrace ops ->
  let '(cs, fin) := results_run start tr in
  is_prefix (concat cs) (skipn (N.to_nat start) (rs_file (rrun ops))) = true /\
  (fin = true ->
   concat cs = skipn (N.to_nat start) (rs_file (rrun ops)) /\
   results_done (rs_state (rrun ops)) = true).
Proof.
  intros ops start tr Hd He.
  assert (Hc : contract tr = true).
  { unfold contract. rewrite <- contract_env_only, He. now apply runner_contract_thm. }
  pose proof (results_exact_thm start tr Hc) as H.
  destruct (runner_world_thm ops) as [Ho Hs].
  assert (Hout : output_of tr = rs_file (rrun ops)).
  { unfold output_of, world_after in *. rewrite <- world_after_env_only, He. exact Ho. }
  assert (Hst : w_state (world_after tr) = rs_state (rrun ops)).
  { unfold world_after in *. rewrite <- world_after_env_only, He. exact Hs. }
  destruct (results_run start tr) as [cs fin]. rewrite Hout, Hst in H. exact H.
Qed.

Definition runner_example : list rop :=
  [RTick true; RAppend [1; 2]; RTick false; RAppend [3]; RTick true; RAppend [4; 5]; RExit ST_FAILED].

Example runner_example_ok :
  exits_last runner_example = true /\
  rtrace runner_example =
    [ECreate; ESetStatus ST_RUNNING 0; EAppend [1; 2]; EAppend [3]; ESetStatus ST_RUNNING 3;
     EAppend [4; 5]; ESetStatus ST_FAILED 5] /\
  results_run 1 (rtrace runner_example ++ repeat (EPoll 2) 7) = ([[2; 3]; [4; 5]], true).
Proof. repeat split; reflexivity. Qed.
