(* Proofs/TraceLoop.v — the traceroute loop ends after at most maxhops+1 probes; a byte counter
   does not when the hop limit is 255 and every probe expires. *)
From Coq Require Import ZArith Lia ZifyN ZifyNat ZifyBool.
From Receptor Require Import Model.TraceLoop.
Open Scope N_scope.

Lemma traceroute_from_is_trace_gen w src target eph : forall n i,
  traceroute_from w src target eph i n = trace_gen (ping w src target eph) i n.
Proof.
  induction n as [|n IH]; intro i; [reflexivity|].
  cbn [traceroute_from trace_gen]. unfold is_expired.
  destruct (ping w src target eph i) as [d|from p|cd|]; try reflexivity.
  destruct (p =? P_EXPIRED); [now rewrite IH|reflexivity].
Qed.

Theorem traceroute_is_trace_gen w src target eph :
  traceroute w src target eph = trace_gen (ping w src target eph) 0 (S (w_maxhops w)).
Proof. unfold traceroute. apply traceroute_from_is_trace_gen. Qed.

Lemma trace_gen_length pingf : forall n i, (length (trace_gen pingf i n) <= n)%nat.
Proof.
  induction n as [|n IH]; intro i; [apply le_n|].
  cbn [trace_gen]. destruct (is_expired (pingf i)); cbn [length].
  - specialize (IH (S i)). lia.
  - lia.
Qed.

(* every result but the last is "message expired" *)
Lemma trace_gen_all_but_last_expired pingf : forall n i,
  forallb is_expired (removelast (trace_gen pingf i n)) = true.
Proof.
  induction n as [|n IH]; intro i; [reflexivity|].
  cbn [trace_gen]. destruct (is_expired (pingf i)) eqn:E; [|reflexivity].
  specialize (IH (S i)).
  destruct (trace_gen pingf (S i) n) as [|x l] eqn:El; [reflexivity|].
  change (removelast (pingf i :: x :: l)) with (pingf i :: removelast (x :: l)).
  cbn [forallb]. now rewrite E, IH.
Qed.

(* the traceroute of Model/Forward.v: at most one probe per budget 0..maxhops, in every world *)
Theorem traceroute_bounded w src target eph :
  (length (traceroute w src target eph) <= S (w_maxhops w))%nat /\
  forallb is_expired (removelast (traceroute w src target eph)) = true.
Proof.
  rewrite traceroute_is_trace_gen. split; [apply trace_gen_length|apply trace_gen_all_but_last_expired].
Qed.

(* ---------- the byte counter ---------- *)
Lemma trace_byte_S pingf max i f :
  trace_byte pingf max i (S f) =
  if i <=? max then
    if is_expired (pingf (N.to_nat i)) then
      let '(l, ended) := trace_byte pingf max ((i + 1) mod 256) f in (pingf (N.to_nat i) :: l, ended)
    else ([pingf (N.to_nat i)], true)
  else ([], true).
Proof. reflexivity. Qed.

Lemma trace_byte_never_ends pingf :
  (forall i, is_expired (pingf i) = true) ->
  forall fuel i, i <= 255 -> snd (trace_byte pingf 255 i fuel) = false.
Proof.
  intros Hexp. induction fuel as [|f IH]; intros i Hi; [reflexivity|].
  rewrite trace_byte_S. assert (i <=? 255 = true) as -> by lia.
  rewrite Hexp.
  assert (Hn : (i + 1) mod 256 <= 255) by lia.
  specialize (IH ((i + 1) mod 256) Hn).
  destruct (trace_byte pingf 255 ((i + 1) mod 256) f) as [l e]. exact IH.
Qed.

(* below 255 the byte counter is the same loop *)
Lemma trace_byte_same pingf max : max < 255 ->
  forall n i, N.of_nat n + i = max + 1 ->
  trace_byte pingf max i (S n) = (trace_gen pingf (N.to_nat i) n, true).
Proof.
  intros Hm. induction n as [|n IH]; intros i Hi.
  - rewrite trace_byte_S. assert (i <=? max = false) as -> by lia. reflexivity.
  - rewrite trace_byte_S. assert (i <=? max = true) as -> by lia.
    cbn [trace_gen]. destruct (is_expired (pingf (N.to_nat i))) eqn:E; [|reflexivity].
    assert (Hmod : (i + 1) mod 256 = i + 1) by (apply N.mod_small; lia).
    rewrite Hmod, (IH (i + 1)) by lia.
    replace (N.to_nat (i + 1)) with (S (N.to_nat i)) by lia. reflexivity.
Qed.

Theorem trace_byte_same_below_255 pingf max : max < 255 ->
  trace_byte pingf max 0 (S (S (N.to_nat max))) = (trace_gen pingf 0 (S (N.to_nat max)), true).
Proof.
  intro Hm. apply (trace_byte_same pingf max Hm (S (N.to_nat max)) 0). lia.
Qed.

Theorem trace_byte_refuted pingf :
  (forall i, is_expired (pingf i) = true) ->
  (length (trace_gen pingf 0 256) = 256)%nat /\
  forall fuel, snd (trace_byte pingf 255 0 fuel) = false.
Proof.
  intro Hexp. split.
  - assert (H : forall n i, length (trace_gen pingf i n) = n).
    { induction n as [|n IH]; intro i; [reflexivity|]. cbn [trace_gen]. rewrite Hexp. cbn [length]. now rewrite IH. }
    apply H.
  - intro fuel. apply trace_byte_never_ends; [exact Hexp|lia].
Qed.

(* non-vacuity: a ping function whose probes all expire; the loop with hop limit 3 *)
Definition always_expired (i : nat) : ping_res := PErr [110] P_EXPIRED.
Example trace_loop_example :
  (forall i, is_expired (always_expired i) = true) /\
  length (trace_gen always_expired 0 4) = 4%nat /\
  snd (trace_byte always_expired 3 0 6) = true /\
  snd (trace_byte always_expired 255 0 2000) = false.
Proof. repeat split; vm_compute; reflexivity. Qed.
