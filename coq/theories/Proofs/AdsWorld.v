(* Proofs/AdsWorld.v — C18 convergence: when the owner's newest message about a service has been
   sent to its neighbours and the network has gone quiet, every node that can be reached lists
   exactly what that message says — for EVERY delivery order. *)
From Coq Require Import ZArith Lia ZifyN ZifyNat ZifyBool.
From Receptor Require Import Model.AdsWorld Proofs.Ads Proofs.FloodWorld.
Open Scope N_scope.

(* ---------- lists ---------- *)
Lemma nth_update_same {A} (l : list A) : forall k v x,
  nth_error l k = Some x -> nth_error (update_nth k v l) k = Some v.
Proof. induction l as [|y r IH]; intros [|k] v x H; simpl in *; try discriminate; eauto. Qed.

Lemma nth_update_other {A} (l : list A) : forall k k' v, k <> k' ->
  nth_error (update_nth k v l) k' = nth_error l k'.
Proof.
  induction l as [|y r IH]; intros [|k] [|k'] v H; simpl; try reflexivity; try congruence.
  apply IH. congruence.
Qed.

Lemma in_remove_nth {A} (l : list A) : forall k m x,
  nth_error l k = Some m -> In x l -> x = m \/ In x (remove_nth k l).
Proof.
  induction l as [|y r IH]; intros [|k] m x Hk Hin; simpl in *; try discriminate.
  - inversion Hk; subst. destruct Hin; auto.
  - destruct Hin as [->|Hin]; [right; now left|].
    destruct (IH k m x Hk Hin); auto.
Qed.

(* ---------- one step of one node, seen through [know] ---------- *)
Lemma handle_ad_frame st a recv :
  as_self (fst (handle_ad st a recv)) = as_self st /\ as_conns (fst (handle_ad st a recv)) = as_conns st.
Proof.
  unfold handle_ad.
  destruct (match get2 (a_node a) (a_svc a) (as_ads st) with Some (t, _) => negb (t <? a_time a) | None => false end);
    [auto|].
  destruct (match get2 (a_node a) (a_svc a) (as_tomb st) with Some t => negb (t <? a_time a) | None => false end);
    auto.
Qed.

Lemma handle_ad_relays st a recv : accepts st a = true ->
  snd (handle_ad st a recv) = map (fun c => (c, a)) (filter (fun c => negb (c =? recv)) (as_conns st)).
Proof.
  unfold accepts, handle_ad, listed, tomb_of. intro H. apply andb_true_iff in H as [H1 H2].
  destruct (get2 (a_node a) (a_svc a) (as_ads st)) as [[t b]|];
    destruct (get2 (a_node a) (a_svc a) (as_tomb st)) as [t'|];
    rewrite ?H1, ?H2; reflexivity.
Qed.

Lemma accepts_newer st a : accepts st a = true -> know st (a_node a) (a_svc a) < a_time a \/ a_time a = 0 /\ False \/ know st (a_node a) (a_svc a) = 0.
Proof.
  unfold accepts, know. intro H. apply andb_true_iff in H as [H1 H2].
  destruct (listed st (a_node a) (a_svc a)) as [[t b]|], (tomb_of st (a_node a) (a_svc a)); try lia.
Qed.

Lemma rejects_older st a : accepts st a = false -> a_time a <= know st (a_node a) (a_svc a).
Proof.
  unfold accepts, know. intro H. apply andb_false_iff in H as [H|H].
  - destruct (listed st (a_node a) (a_svc a)) as [[t b]|]; [|discriminate].
    destruct (tomb_of st (a_node a) (a_svc a)); lia.
  - destruct (tomb_of st (a_node a) (a_svc a)); [|discriminate].
    destruct (listed st (a_node a) (a_svc a)) as [[t b]|]; lia.
Qed.

Lemma know_after_accept st a recv : accepts st a = true ->
  know (fst (handle_ad st a recv)) (a_node a) (a_svc a) = a_time a.
Proof.
  intro Ea. destruct (handle_ad_accepted st a recv Ea) as [Hc [Hn _]]. unfold know.
  destruct (a_cancel a).
  - destruct (Hc eq_refl) as [-> ->]. lia.
  - destruct (Hn eq_refl) as [-> ->]. lia.
Qed.

Section Converge.
Variables (n s T : N) (M : ad) (o : node).
Hypothesis HM : a_node M = n /\ a_svc M = s /\ a_time M = T.
Hypothesis HT : 0 < T.

Definition iskey (a : ad) : Prop := a_node a = n /\ a_svc a = s.
Definition kn (w : aworld) (i : node) : N :=
  match node_at w i with Some st => know st n s | None => 0 end.

Definition reflects (st : astate) : Prop :=
  if a_cancel M then listed st n s = None /\ tomb_of st n s = Some T
  else listed st n s = Some (T, a_body M) /\ tomb_of st n s = None.

Record Inv (w : aworld) : Prop := {
  inv_topo : topo_ok w;
  inv_K : forall m, In m (aw_flight w) -> am_from m <> o -> iskey (am_ad m) ->
            a_time (am_ad m) <= kn w (am_from m);
  inv_J : forall v st w0, node_at w v = Some st -> In w0 (as_conns st) -> w0 <> o ->
            (v = o \/ T <= kn w v) ->
            T <= kn w w0 \/
            exists m, In m (aw_flight w) /\ am_from m = v /\ am_to m = w0 /\ iskey (am_ad m)
                      /\ T <= a_time (am_ad m);
  inv_U1 : forall i st, node_at w i = Some st -> know st n s <= T;
  inv_U2 : forall m, In m (aw_flight w) -> iskey (am_ad m) -> a_time (am_ad m) <= T;
  inv_Q1 : forall m, In m (aw_flight w) -> iskey (am_ad m) -> a_time (am_ad m) = T -> am_ad m = M;
  inv_Q2 : forall i st, node_at w i = Some st -> i <> o -> know st n s = T -> reflects st
}.

(* effect of a step of node v on the knowledge of (n, s) *)
Lemma step_know st a recv :
  let st' := fst (handle_ad st a recv) in
  know st n s <= know st' n s /\
  (know st' n s <> know st n s -> iskey a /\ accepts st a = true /\ know st' n s = a_time a) /\
  (know st' n s = know st n s -> accepts st a = false \/ ~ iskey a \/ know st n s = a_time a ->
     True).
Proof.
  cbv zeta. split; [apply know_step|]. split; [|auto].
  intro Hne. destruct (accepts st a) eqn:Ea.
  - destruct (N.eq_dec (a_node a) n) as [En|En]; [destruct (N.eq_dec (a_svc a) s) as [Es|Es]|].
    + split; [split; assumption|]. split; [reflexivity|]. rewrite <- En, <- Es. apply know_after_accept; assumption.
    + exfalso. apply Hne. destruct (handle_ad_accepted st a recv Ea) as [_ [_ Ho]].
      unfold know. destruct (Ho n s) as [-> ->]; [congruence|reflexivity].
    + exfalso. apply Hne. destruct (handle_ad_accepted st a recv Ea) as [_ [_ Ho]].
      unfold know. destruct (Ho n s) as [-> ->]; [congruence|reflexivity].
  - exfalso. apply Hne. rewrite handle_ad_rejected by assumption. reflexivity.
Qed.

Lemma step_state_frame st a recv :
  ~ (iskey a /\ accepts st a = true) ->
  listed (fst (handle_ad st a recv)) n s = listed st n s /\
  tomb_of (fst (handle_ad st a recv)) n s = tomb_of st n s.
Proof.
  intro H. destruct (accepts st a) eqn:Ea.
  - destruct (handle_ad_accepted st a recv Ea) as [_ [_ Ho]]. apply Ho.
    intro E. inversion E. apply H. split; [split; congruence|reflexivity].
  - rewrite handle_ad_rejected by assumption. auto.
Qed.

Lemma node_at_update w v st' x f : node_at w v = Some x ->
  forall i, node_at {| aw_nodes := update_nth (N.to_nat v) st' (aw_nodes w); aw_flight := f |} i
            = if i =? v then Some st' else node_at w i.
Proof.
  intros Hv i. unfold node_at in *. cbn [aw_nodes].
  destruct (i =? v) eqn:E.
  - apply N.eqb_eq in E. subst. eapply nth_update_same. exact Hv.
  - apply nth_update_other. apply N.eqb_neq in E. lia.
Qed.

Lemma in_ad_msgs self rel m :
  In m (ad_msgs self rel) <-> exists c a, In (c, a) rel /\ m = {| am_from := self; am_to := c; am_ad := a |}.
Proof.
  unfold ad_msgs. rewrite in_map_iff. split.
  - intros [[c a] [E H]]. exists c, a. simpl in E. auto.
  - intros [c [a [H E]]]. exists (c, a). simpl. auto.
Qed.

(* THE STEP LEMMA: delivering any message in flight preserves the invariant *)
Lemma awstep_inv w k w' : Inv w -> awstep w k = Some w' -> Inv w'.
Proof.
  intros I Hstep. destruct I as [Itopo IK IJ IU1 IU2 IQ1 IQ2].
  unfold awstep in Hstep.
  destruct (nth_error (aw_flight w) k) as [m|] eqn:Em; [|discriminate].
  assert (Hm_in : In m (aw_flight w)) by (eapply nth_error_In; eauto).
  assert (Hrest : forall x, In x (remove_nth k (aw_flight w)) -> In x (aw_flight w))
    by (intros; eapply remove_nth_In; eauto).
  destruct (node_at w (am_to m)) as [st|] eqn:Ev.
  2:{ (* addressed to nobody: dropped *)
    inversion Hstep; subst; clear Hstep.
    constructor; unfold kn, node_at in *; cbn [aw_nodes aw_flight] in *; auto.
    intros v st0 w0 Hv Hc Hno Hp.
    destruct (IJ v st0 w0 Hv Hc Hno Hp) as [Hl|[m0 [Hin [Hf [Ht Hk]]]]]; [now left|].
    destruct (in_remove_nth _ _ _ _ Em Hin) as [->|Hin']; [|right; eauto].
    exfalso. destruct (Itopo v st0 Hv) as [_ Hex]. destruct (Hex w0 Hc) as [st' [Hst' _]].
    unfold node_at in *. rewrite Ht in Ev. congruence. }
  set (v := am_to m) in *. set (x := am_from m) in *. set (a := am_ad m) in *.
  destruct (handle_ad st a x) as [st' rel] eqn:Eh.
  inversion Hstep; subst w'; clear Hstep.
  pose proof (handle_ad_frame st a x) as [Hself Hconns]. rewrite Eh in Hself, Hconns. cbn [fst] in *.
  destruct (Itopo v st Ev) as [Hsv Hnb].
  pose proof (step_know st a x) as [Hmono [Hchg _]]. rewrite Eh in Hmono, Hchg. cbn [fst] in *.
  set (w' := {| aw_nodes := update_nth (N.to_nat v) st' (aw_nodes w);
                aw_flight := remove_nth k (aw_flight w) ++ ad_msgs (as_self st) rel |}).
  assert (Hnode : forall i, node_at w' i = if i =? v then Some st' else node_at w i)
    by (apply node_at_update with (x := st); exact Ev).
  assert (Hkn_v : kn w' v = know st' n s) by (unfold kn; rewrite Hnode, N.eqb_refl; reflexivity).
  assert (Hkn_v0 : kn w v = know st n s) by (unfold kn; rewrite Ev; reflexivity).
  assert (Hkn_o : forall i, i <> v -> kn w' i = kn w i).
  { intros i Hi. unfold kn. rewrite Hnode. destruct (i =? v) eqn:E; [lia|reflexivity]. }
  assert (Hkn_mono : forall i, kn w i <= kn w' i).
  { intro i. destruct (N.eq_dec i v) as [->|Hi]; [rewrite Hkn_v, Hkn_v0; exact Hmono|rewrite Hkn_o by assumption; lia]. }
  (* the relays of this step *)
  assert (Hrel : forall c a', In (c, a') rel -> a' = a /\ c <> x /\ In c (as_conns st)).
  { intros c a' Hin. pose proof (ad_relay_never_back st a x c a') as H. rewrite Eh in H. cbn [snd] in H.
    destruct (H Hin) as [H1 [H2 H3]]. auto. }
  assert (Hflight' : forall m', In m' (aw_flight w') ->
            In m' (aw_flight w) \/ (am_from m' = v /\ am_ad m' = a /\ am_to m' <> x /\ In (am_to m') (as_conns st)
                                    /\ accepts st a = true)).
  { intros m' Hin. unfold w' in Hin. cbn [aw_flight] in Hin. apply in_app_or in Hin as [Hin|Hin]; [left; auto|].
    right. apply in_ad_msgs in Hin as [c [a' [Hin ->]]]. cbn. destruct (Hrel _ _ Hin) as [-> [H1 H2]].
    repeat split; auto.
    destruct (accepts st a) eqn:Ea; [reflexivity|].
    rewrite handle_ad_rejected in Eh by assumption. inversion Eh; subst. destruct Hin. }
  constructor.
  - (* topology *)
    intros i sti Hi. rewrite Hnode in Hi. destruct (i =? v) eqn:E.
    + apply N.eqb_eq in E. subst i. inversion Hi; subst sti. split; [congruence|].
      intros c Hc. rewrite Hconns in Hc. destruct (Hnb c Hc) as [stc [Hstc Hin]].
      rewrite Hnode. destruct (c =? v) eqn:E2.
      * apply N.eqb_eq in E2. subst c. exists st'. split; [reflexivity|].
        rewrite Ev in Hstc. inversion Hstc; subst. now rewrite Hconns.
      * eauto.
    + destruct (Itopo i sti Hi) as [H1 H2]. split; [exact H1|].
      intros c Hc. destruct (H2 c Hc) as [stc [Hstc Hin]].
      rewrite Hnode. destruct (c =? v) eqn:E2.
      * apply N.eqb_eq in E2. subst c. exists st'. split; [reflexivity|].
        rewrite Ev in Hstc. inversion Hstc; subst. now rewrite Hconns.
      * eauto.
  - (* K *)
    intros m' Hin Hfo Hk. destruct (Hflight' m' Hin) as [Hold|[Hf [Ha [_ [_ Hacc]]]]].
    + specialize (IK m' Hold Hfo Hk). pose proof (Hkn_mono (am_from m')). lia.
    + rewrite Hf, Hkn_v. rewrite Ha in Hk |- *.
      destruct Hk as [Hk1 Hk2]. rewrite <- Hk1, <- Hk2.
      rewrite <- (know_after_accept st a x Hacc). rewrite Eh. cbn [fst]. lia.
  - (* J *)
    intros v0 st0 w0 Hv0 Hc0 Hno Hp.
    (* did the premise hold before the step? *)
    assert (Hst0 : exists st00, node_at w v0 = Some st00 /\ as_conns st00 = as_conns st0).
    { rewrite Hnode in Hv0. destruct (v0 =? v) eqn:E.
      - apply N.eqb_eq in E. subst v0. inversion Hv0; subst st0. exists st. split; [exact Ev|now rewrite Hconns].
      - eauto. }
    destruct Hst0 as [st00 [Hv00 Hc00]]. rewrite <- Hc00 in Hc0.
    destruct (N.eq_dec v0 o) as [Hvo|Hvo]; [|destruct (N.le_gt_cases T (kn w v0)) as [Hbefore|Hbefore]].
    1,2: (* the premise held before: the old witness persists, or was just delivered *)
      (assert (Hp0 : v0 = o \/ T <= kn w v0) by auto;
       destruct (IJ v0 st00 w0 Hv00 Hc0 Hno Hp0) as [Hl|[m0 [Hin [Hf [Ht [Hk Hge]]]]]];
       [left; pose proof (Hkn_mono w0); lia|];
       destruct (in_remove_nth _ _ _ _ Em Hin) as [->|Hin'];
       [ left; (* the witness is the delivered message: w0 = v has now processed it *)
         fold v in Ht; fold a in Hk, Hge; subst w0; rewrite Hkn_v;
         destruct (accepts st a) eqn:Ea;
         [ destruct Hk as [Hk1 Hk2]; rewrite <- Hk1, <- Hk2;
           pose proof (know_after_accept st a x Ea) as Hka; rewrite Eh in Hka; cbn [fst] in Hka; lia
         | pose proof (rejects_older st a Ea) as Hro; destruct Hk as [Hk1 Hk2]; rewrite Hk1, Hk2 in Hro; lia ]
       | right; exists m0; split; [unfold w'; cbn [aw_flight]; apply in_or_app; now left|];
         split; [exact Hf|split; [exact Ht|split; [exact Hk|exact Hge]]] ]).
    (* the premise is new: v0 = v has just accepted a message about (n, s) that is at least T *)
    destruct Hp as [Hp|Hp]; [congruence|].
    assert (v0 = v).
    { destruct (N.eq_dec v0 v); [assumption|]. rewrite Hkn_o in Hp by assumption. lia. }
    subst v0. rewrite Hkn_v in Hp. rewrite Hkn_v0 in Hbefore.
    destruct Hchg as [Hk [Hacc Hka]]; [lia|].
    rewrite Ev in Hv00. inversion Hv00; subst st00.
    destruct (N.eq_dec w0 x) as [->|Hwx].
    + (* the sender itself: it knows at least as much (K) *)
      left. assert (Hx : a_time a <= kn w x) by (apply (IK m Hm_in); [exact Hno|exact Hk]).
      pose proof (Hkn_mono x). lia.
    + right. exists {| am_from := v; am_to := w0; am_ad := a |}. cbn [am_from am_to am_ad].
      split; [|split; [reflexivity|split; [reflexivity|split; [exact Hk|lia]]]].
      unfold w'. cbn [aw_flight]. apply in_or_app. right. rewrite Hsv. apply in_ad_msgs.
      exists w0, a. split; [|reflexivity].
      pose proof (handle_ad_relays st a x Hacc) as Hr. rewrite Eh in Hr. cbn [snd] in Hr. rewrite Hr.
      apply in_map_iff. exists w0. split; [reflexivity|]. apply filter_In. split; [exact Hc0|].
      destruct (w0 =? x) eqn:E; [apply N.eqb_eq in E; congruence|reflexivity].
  - (* U1 *)
    intros i sti Hi. rewrite Hnode in Hi. destruct (i =? v) eqn:E; [|eauto].
    inversion Hi; subst sti.
    destruct (N.eq_dec (know st' n s) (know st n s)) as [->|Hne]; [eauto|].
    destruct (Hchg Hne) as [Hk [_ ->]]. apply (IU2 m Hm_in Hk).
  - (* U2 *)
    intros m' Hin Hk. destruct (Hflight' m' Hin) as [Hold|[_ [Ha _]]]; [eauto|].
    rewrite Ha in Hk |- *. apply (IU2 m Hm_in Hk).
  - (* Q1 *)
    intros m' Hin Hk Ht. destruct (Hflight' m' Hin) as [Hold|[_ [Ha _]]]; [eauto|].
    rewrite Ha in Hk, Ht |- *. apply (IQ1 m Hm_in Hk Ht).
  - (* Q2 *)
    intros i sti Hi Hio Hkt. rewrite Hnode in Hi. destruct (i =? v) eqn:E; [|eauto].
    apply N.eqb_eq in E. subst i. inversion Hi; subst sti.
    destruct (N.eq_dec (know st' n s) (know st n s)) as [Heq|Hne].
    + (* knowledge unchanged: the entry for (n, s) is unchanged *)
      assert (Hfr : ~ (iskey a /\ accepts st a = true)).
      { intros [Hk Hacc]. destruct Hk as [Hk1 Hk2].
        pose proof (know_after_accept st a x Hacc) as Hka. rewrite Eh, Hk1, Hk2 in Hka. cbn [fst] in Hka.
        pose proof (accepts_newer st a Hacc) as Hnw. rewrite Hk1, Hk2 in Hnw.
        pose proof (IU2 m Hm_in (conj Hk1 Hk2)). fold a in H. lia. }
      pose proof (step_state_frame st a x Hfr) as [Hl Htb]. rewrite Eh in Hl, Htb. cbn [fst] in *.
      assert (Hr : reflects st) by (apply (IQ2 v st Ev Hio); lia).
      unfold reflects in *. rewrite Hl, Htb. exact Hr.
    + destruct (Hchg Hne) as [Hk [Hacc Hka]].
      assert (Ha : a = M) by (apply (IQ1 m Hm_in Hk); fold a; lia).
      destruct (handle_ad_accepted st a x Hacc) as [Hc [Hn _]]. rewrite Eh in Hc, Hn. cbn [fst] in *.
      destruct HM as [HM1 [HM2 HM3]]. unfold reflects. rewrite Ha in *.
      rewrite HM1, HM2, HM3 in *.
      destruct (a_cancel M); [apply Hc; reflexivity|apply Hn; reflexivity].
Qed.

Lemma awrun_inv ks : forall w w', Inv w -> awrun w ks = Some w' -> Inv w'.
Proof.
  induction ks as [|k r IH]; intros w w' I H; simpl in H; [inversion H; subst; exact I|].
  destruct (awstep w k) as [w1|] eqn:E; [|discriminate].
  eapply IH; [|exact H]. eapply awstep_inv; eauto.
Qed.

(* ADVERTISEMENTS CONVERGE.  In any world satisfying the invariant — in particular (lemma
   [originate_inv]) any world in which the owner o has just sent its newest message M about
   (n, s) to all its neighbours — once nothing is in flight any more, whatever the delivery
   order was, every node that can be reached from o lists (n, s) exactly as M says: with M's
   timestamp and content if M advertises it, not at all if M withdraws it. *)
Theorem ads_converge w u : Inv w -> aw_flight w = [] -> reach w o u -> u <> o ->
  exists st, node_at w u = Some st /\
             listed st n s = if a_cancel M then None else Some (T, a_body M).
Proof.
  intros I Hq Hr Huo.
  assert (P : u = o \/ (T <= kn w u /\ exists st, node_at w u = Some st)).
  { clear Huo. induction Hr as [|x u stx Hr IH Hx Hc]; [now left|].
    destruct (N.eq_dec u o) as [->|Huo]; [now left|]. right.
    destruct (inv_topo w I x stx Hx) as [_ Hnb]. destruct (Hnb u Hc) as [stu [Hu _]].
    split; [|eauto].
    assert (Hp : x = o \/ T <= kn w x) by (destruct IH as [->|[H _]]; auto).
    destruct (inv_J w I x stx u Hx Hc Huo Hp) as [H|[m [Hin _]]]; [exact H|].
    rewrite Hq in Hin. destruct Hin. }
  destruct P as [->|[Hge [st Hst]]]; [congruence|].
  exists st. split; [exact Hst|].
  pose proof (inv_U1 w I u st Hst) as Hle.
  assert (Hk : know st n s = T) by (unfold kn in Hge; rewrite Hst in Hge; lia).
  pose proof (inv_Q2 w I u st Hst Huo Hk) as Hrf. unfold reflects in Hrf.
  destruct (a_cancel M); tauto.
Qed.

(* the invariant holds right after the owner has sent M to all its neighbours, provided M is
   newer than anything any node knows about (n, s) and nothing about (n, s) is in flight *)
Lemma originate_inv w sto :
  topo_ok w -> node_at w o = Some sto ->
  aw_flight w = ad_msgs o (map (fun c => (c, M)) (as_conns sto)) ->
  (forall i st, node_at w i = Some st -> know st n s <= T /\ (i <> o -> know st n s < T)) ->
  Inv w.
Proof.
  intros Htopo Ho Hfl Hold.
  assert (Hmsg : forall m, In m (aw_flight w) -> am_from m = o /\ am_ad m = M /\ In (am_to m) (as_conns sto)).
  { intros m Hin. rewrite Hfl in Hin. apply in_ad_msgs in Hin as [c [a [Hin ->]]].
    apply in_map_iff in Hin as [c' [E Hc]]. inversion E; subst. cbn. auto. }
  destruct HM as [HM1 [HM2 HM3]].
  constructor.
  - exact Htopo.
  - intros m Hin Hfo _. destruct (Hmsg m Hin) as [Hf _]. congruence.
  - intros v st w0 Hv Hc Hno Hp. destruct (N.eq_dec v o) as [->|Hvo].
    + right. rewrite Ho in Hv. inversion Hv; subst st.
      exists {| am_from := o; am_to := w0; am_ad := M |}. cbn.
      split; [|split; [reflexivity|split; [reflexivity|split; [split; assumption|lia]]]].
      rewrite Hfl. apply in_ad_msgs. exists w0, M. split; [|reflexivity].
      apply in_map_iff. exists w0. auto.
    + exfalso. destruct Hp as [Hp|Hge]; [congruence|].
      unfold kn in Hge. rewrite Hv in Hge. destruct (Hold v st Hv) as [_ Hlt]. specialize (Hlt Hvo). lia.
  - intros i st Hi. apply (Hold i st Hi).
  - intros m Hin _. destruct (Hmsg m Hin) as [_ [-> _]]. lia.
  - intros m Hin _ _. apply (Hmsg m Hin).
  - intros i st Hi Hio Hk. destruct (Hold i st Hi) as [_ Hlt]. specialize (Hlt Hio). lia.
Qed.
End Converge.

(* ---------- a concrete instance (non-vacuity) ---------- *)
(* line 0 — 1 — 2; node 0 has just sent its advertisement of service 7 with timestamp 5 *)
Definition ex_node (i : node) (conns : list node) : astate :=
  {| as_self := i; as_conns := conns; as_ads := []; as_tomb := [] |}.
Definition ex_M : ad := mk 0 7 5 false.
Definition ex_world : aworld :=
  {| aw_nodes := [ex_node 0 [1]; ex_node 1 [0; 2]; ex_node 2 [1]];
     aw_flight := [{| am_from := 0; am_to := 1; am_ad := ex_M |}] |}.

Lemma ex_topo : topo_ok ex_world.
Proof.
  intros i st H. unfold node_at, ex_world in H. cbn [aw_nodes] in H.
  destruct (N.to_nat i) as [|[|[|k]]] eqn:E; simpl in H; inversion H; subst; clear H.
  - assert (i = 0) by lia. subst. split; [reflexivity|]. intros c [<-|[]].
    exists (ex_node 1 [0; 2]). split; [reflexivity|]. simpl. auto.
  - assert (i = 1) by lia. subst. split; [reflexivity|]. intros c [<-|[<-|[]]].
    + exists (ex_node 0 [1]). split; [reflexivity|]. simpl. auto.
    + exists (ex_node 2 [1]). split; [reflexivity|]. simpl. auto.
  - assert (i = 2) by lia. subst. split; [reflexivity|]. intros c [<-|[]].
    exists (ex_node 1 [0; 2]). split; [reflexivity|]. simpl. auto.
  - destruct k; discriminate.
Qed.

Lemma ex_inv : Inv 0 7 5 ex_M 0 ex_world.
Proof.
  apply originate_inv with (sto := ex_node 0 [1]).
  - repeat split; reflexivity.
  - lia.
  - exact ex_topo.
  - reflexivity.
  - reflexivity.
  - intros i st H. unfold node_at, ex_world in H. cbn [aw_nodes] in H.
    destruct (N.to_nat i) as [|[|[|k]]] eqn:E; simpl in H; inversion H; subst; clear H;
      try (vm_compute; split; [discriminate|intros _; reflexivity]).
    destruct k; discriminate.
Qed.

(* deliver the two messages; the network is then quiet and node 2 lists the service *)
Example ex_converged :
  exists w', awrun ex_world [0%nat; 0%nat] = Some w' /\ aw_flight w' = [] /\
             exists st, node_at w' 2 = Some st /\ listed st 0 7 = Some (5, 0).
Proof.
  destruct (awrun ex_world [0%nat; 0%nat]) as [w'|] eqn:E; [|vm_compute in E; discriminate].
  exists w'. split; [reflexivity|].
  assert (Hq : aw_flight w' = []) by (vm_compute in E; inversion E; reflexivity).
  split; [exact Hq|].
  pose proof (awrun_inv 0 7 5 ex_M 0 (conj eq_refl (conj eq_refl eq_refl)) ltac:(lia) _ _ _ ex_inv E) as I.
  assert (Hr : reach w' 0 2).
  { vm_compute in E. inversion E; subst w'.
    eapply reach_step with (x := 1); [eapply reach_step with (x := 0); [apply reach_refl| |]| |];
      try reflexivity; simpl; auto. }
  destruct (ads_converge 0 7 5 ex_M 0 (conj eq_refl (conj eq_refl eq_refl)) ltac:(lia) w' 2 I Hq Hr ltac:(lia))
    as [st [Hst Hl]].
  exists st. split; [exact Hst|exact Hl].
Qed.
