(* Proofs/Status.v — the encoding of the status record (Model/Status.v), the steps of the
   workceptor operations on an intact and on an emptied record (Model/Crash.v), and the
   machine-checked counterexamples to the full statement of property C04. *)
From Coq Require Import ZArith Lia ZifyN ZifyNat ZifyBool.
From Receptor Require Import Model.Crash.
Open Scope N_scope.

(* ====================================================================================== *)
(* B. the encoding of the record                                                           *)
(* ====================================================================================== *)

Lemma take_bytes_enc b r : take_bytes (enc_bytes b ++ r) = Some (b, r).
Proof.
  unfold enc_bytes, take_bytes. simpl. rewrite Nat2N.id.
  assert (H : Nat.leb (length b) (length (b ++ r)) = true)
    by (apply Nat.leb_le; rewrite app_length; lia).
  rewrite H. f_equal. f_equal.
  - rewrite firstn_app, Nat.sub_diag, firstn_all. simpl. apply app_nil_r.
  - rewrite skipn_app, Nat.sub_diag, skipn_all. reflexivity.
Qed.

Lemma dec_extra_2 r : dec_extra (2 :: r) =
  match take_bytes r with
  | Some (n, r1) =>
    match take_bytes r1 with
    | Some (t, r2) =>
      match take_bytes r2 with
      | Some (u, st :: r3) =>
        if st =? 0 then Some (XRemote n t u false, r3)
        else if st =? 1 then Some (XRemote n t u true, r3) else None
      | _ => None
      end
    | None => None
    end
  | None => None
  end.
Proof. reflexivity. Qed.

Lemma dec_extra_enc e r : dec_extra (enc_extra e ++ r) = Some (e, r).
Proof.
  destruct e as [|pid|n t u st]; [reflexivity|reflexivity|].
  unfold enc_extra. rewrite <- !app_assoc.
  change ([2] ++ ?x) with (2 :: x).
  rewrite dec_extra_2, !take_bytes_enc.
  destruct st; reflexivity.
Qed.

Lemma parse_123 st sz r : parse (123 :: st :: sz :: r) =
  match take_bytes r with
  | Some (wt, r1) =>
    match dec_extra r1 with
    | Some (ex, [125; 10]) => Some (mkStatus st sz wt ex)
    | _ => None
    end
  | None => None
  end.
Proof. reflexivity. Qed.

Theorem parse_encode : forall s, parse (encode s) = Some s.
Proof.
  intros [st sz wt ex]. unfold encode. cbn [s_state s_size s_wtype s_extra].
  change ([123; st; sz] ++ ?x) with (123 :: st :: sz :: x).
  rewrite parse_123, take_bytes_enc, dec_extra_enc. reflexivity.
Qed.

Theorem parse_nil : parse [] = None.
Proof. reflexivity. Qed.

Lemma encode_not_nil s : encode s <> [].
Proof. discriminate. Qed.

(* a cut text is not a record either (computed on a record with every kind of field) *)
Example parse_cut :
  let e := encode (mkStatus 2 150 [101; 109; 105; 116] (XRemote [98] [101] [85; 49] true)) in
  forallb (fun k => match parse (firstn k e) with None => true | Some _ => false end)
          (seq 0 (length e)) = true.
Proof. vm_compute. reflexivity. Qed.


(* ====================================================================================== *)
(* D. every crash point outside the truncate->write windows                                *)
(* ====================================================================================== *)

(* ---------- single steps ---------- *)
Lemma exec_op x m o : exec_step (mkP x m false) (MOp o) = mkP (uapply x o) m false.
Proof. reflexivity. Qed.
Lemma exec_apply x m f : exec_step (mkP x m false) (MApply f) = mkP x (apply_upd x f m) false.
Proof. reflexivity. Qed.
Lemma exec_store x m :
  exec_step (mkP x m false) MStore = mkP (uapply x (UWriteAt FStatus 0 (encode m))) m false.
Proof. reflexivity. Qed.

Lemma exec_load_record x m s strict : uf_status x = Some (encode s) ->
  exec_step (mkP x m false) (MLoad strict) = mkP x s false.
Proof.
  intro H. unfold exec_step. cbn [p_err p_fs p_mem]. unfold status_content. rewrite H.
  destruct (encode s) as [|b l] eqn:E; [exfalso; exact (encode_not_nil s E)|].
  rewrite <- E, parse_encode. reflexivity.
Qed.

Lemma exec_load_empty x m : uf_status x = Some [] ->
  exec_step (mkP x m false) (MLoad false) = mkP x m false /\
  exec_step (mkP x m false) (MLoad true) = mkP x m true.
Proof. intro H. unfold exec_step. cbn [p_err p_fs p_mem]. unfold status_content. now rewrite H. Qed.

Lemma write_at_nil b : write_at [] 0 b = b.
Proof. unfold write_at. simpl. rewrite skipn_nil. apply app_nil_r. Qed.

(* the unit's files without the lock file, which carries no information *)
Definition core (x : ufiles) := (uf_dir x, uf_status x, uf_stdin x, uf_stdout x).

Definition with_status (x : ufiles) (c : bytes) : ufiles :=
  mkU (uf_dir x) (Some c) (Some []) (uf_stdin x) (uf_stdout x).

Lemma apply_upd_stdout x y f s : uf_stdout x = uf_stdout y -> apply_upd x f s = apply_upd y f s.
Proof.
  intro H. destruct f as [st [| |]| | | | |]; simpl; try reflexivity.
  unfold stdout_size, stdout_content. now rewrite H.
Qed.

(* a whole UpdateFullStatus on an intact record *)
Lemma upd_op_full x m f s : uf_status x = Some (encode s) ->
  exec_steps (mkP x m false) (upd_op f) =
  mkP (with_status x (encode (apply_upd x f s))) (apply_upd x f s) false.
Proof.
  intro H. unfold upd_op, exec_steps. cbn [fold_left].
  rewrite exec_op.
  set (x1 := uapply x (UOpenTrunc FLock)).
  assert (H1 : uf_status x1 = Some (encode s)) by exact H.
  rewrite exec_op.
  assert (E2 : uapply x1 (UOpenCreate FStatus) = x1) by (unfold uapply; cbn [uget]; now rewrite H1).
  rewrite E2, (exec_load_record x1 m s false H1), exec_apply, exec_op, exec_store.
  assert (Ea : apply_upd x1 f s = apply_upd x f s) by (apply apply_upd_stdout; reflexivity).
  rewrite Ea. f_equal.
  unfold uapply at 2. cbn [uget]. rewrite H1. cbn [uset].
  unfold uapply. cbn [uget uset uf_dir uf_status uf_lock uf_stdin uf_stdout].
  rewrite write_at_nil. reflexivity.
Qed.

(* the same operation cut anywhere but in the window leaves the record alone *)
Lemma upd_op_cut x m f s k : uf_status x = Some (encode s) -> (k < 5)%nat ->
  core (p_fs (exec_steps (mkP x m false) (firstn k (upd_op f)))) = core x.
Proof.
  intros H Hk. unfold upd_op, exec_steps.
  destruct k as [|[|[|[|[|k]]]]]; try lia; cbn [firstn fold_left]; try reflexivity.
  all: rewrite exec_op; set (x1 := uapply x (UOpenTrunc FLock));
    assert (H1 : uf_status x1 = Some (encode s)) by exact H; try reflexivity.
  all: rewrite exec_op;
    assert (E2 : uapply x1 (UOpenCreate FStatus) = x1) by (unfold uapply; cbn [uget]; now rewrite H1);
    rewrite E2; try reflexivity.
  all: rewrite (exec_load_record x1 m s false H1); reflexivity.
Qed.

(* Load() on an intact record *)
Lemma load_op_full x m s : uf_status x = Some (encode s) ->
  exec_steps (mkP x m false) load_op = mkP (uapply x (UOpenTrunc FLock)) s false.
Proof.
  intro H. unfold load_op, exec_steps. cbn [fold_left]. rewrite exec_op.
  apply exec_load_record. exact H.
Qed.

(* ---------- recovery of an intact record ---------- *)
Definition locked (x : ufiles) : ufiles := uapply x (UOpenTrunc FLock).

Lemma locked_idem x : locked (locked x) = locked x.
Proof. reflexivity. Qed.
Lemma with_status_locked x c : with_status (locked x) c = with_status x c.
Proof. reflexivity. Qed.

Definition failed_rec (x : ufiles) (s : status) : status :=
  mkStatus S_FAILED (stdout_size x) (s_wtype s) (s_extra s).

Lemma mark_failed_intact x m s : uf_status x = Some (encode s) ->
  mark_failed (mkP x m false) = mkP (with_status x (encode (failed_rec x s))) (failed_rec x s) false.
Proof. intro H. unfold mark_failed. cbn [p_fs p_mem]. now rewrite (upd_op_full x m _ s H). Qed.

Lemma recover_intact types x s :
  uf_dir x = true -> uf_status x = Some (encode s) ->
  recover types x =
  match kind_of types (s_wtype s) with
  | KUnknown => (locked x, mkView true false s false)
  | KCmd =>
    if st_complete (s_state s) then (locked x, mkView true true s false)
    else if s_state s =? S_PENDING
         then (with_status x (encode (failed_rec x s)), mkView true true (failed_rec x s) true)
         else (locked x, mkView true true s true)
  | KRemote =>
    if started s then (locked x, mkView true true s true)
    else (with_status x (encode (failed_rec x s)), mkView true true (failed_rec x s) false)
  end.
Proof.
  intros Hd Hs. unfold recover. rewrite Hd. cbn [negb].
  fold (locked x).
  assert (H1 : uf_status (locked x) = Some (encode s)) by exact Hs.
  unfold status_content. rewrite H1, parse_encode.
  rewrite (load_op_full (locked x) _ s H1). fold (locked (locked x)). rewrite locked_idem.
  cbn [p_err p_fs p_mem].
  destruct (kind_of types (s_wtype s)).
  - reflexivity.
  - rewrite (load_op_full (locked x) _ s H1). fold (locked (locked x)). rewrite locked_idem.
    cbn [p_err p_fs p_mem].
    destruct (st_complete (s_state s)); [reflexivity|].
    destruct (s_state s =? S_PENDING); [|reflexivity].
    rewrite (mark_failed_intact (locked x) s s H1). cbn [p_fs p_mem]. reflexivity.
  - destruct (started s); [reflexivity|].
    rewrite (mark_failed_intact (locked x) s s H1). cbn [p_fs p_mem]. reflexivity.
Qed.

(* ====================================================================================== *)
(* C. the full statement does not hold of the code as it is                                *)
(* ====================================================================================== *)

Definition emit_t : bytes := [101; 109; 105; 116].

(* a local command that writes 3 and 2 bytes and succeeds *)
Definition witness_sc : scenario :=
  mkSc 7 emit_t None false [] [105; 10] [[1; 2; 3]; [4; 5]] true 4242 [emit_t] true.

(* the unit has FINISHED (Succeeded, 5 bytes); the daemon is killed between the truncation and
   the rewrite of the record in which it clears the runner's PID *)
Definition witness_cp : crashpoint := mkCp (repeat true 9 ++ repeat false 7) false 5 0.

Theorem C04_refuted_thm :
  wf_scenario witness_sc = true /\ cp_runner witness_cp = false /\
  in_window witness_sc witness_cp = true /\
  let o := experiment witness_sc witness_cp in
  o_acked o = true /\
  o_before o = Some (mkStatus S_SUCCEEDED 5 emit_t (XCmd 4242)) /\
  v_listed (o_restart o) = true /\ v_known (o_restart o) = false /\
  v_status (o_restart o) = mkStatus S_FAILED 5 [] XNone /\
  v_status (o_again o) = mkStatus S_FAILED 5 [] XNone /\
  holds witness_sc witness_cp = false.
Proof. vm_compute. repeat split; reflexivity. Qed.

Theorem C04_full_statement_refuted : ~ C04_full_statement.
Proof.
  intro H.
  assert (W : wf_scenario witness_sc = true) by (vm_compute; reflexivity).
  assert (R : cp_runner witness_cp = false) by reflexivity.
  specialize (H witness_sc witness_cp W R). clear W R.
  assert (E : holds witness_sc witness_cp = false) by (vm_compute; reflexivity).
  rewrite E in H. clear E. discriminate H.
Qed.

(* the same window while the unit has never been started: the work type is lost as well *)
Definition witness_cp_pending : crashpoint := mkCp (repeat true 5) false 5 0.

Theorem C04_refuted_pending_thm :
  in_window witness_sc witness_cp_pending = true /\
  let o := experiment witness_sc witness_cp_pending in
  o_acked o = true /\ s_wtype (v_status (o_restart o)) = [] /\ v_known (o_restart o) = false /\
  holds witness_sc witness_cp_pending = false.
Proof. vm_compute. repeat split; reflexivity. Qed.

(* a remote unit bound to node "b", started there: the binding is lost *)
Definition witness_remote : scenario :=
  mkSc 9 remote_name (Some ([98], emit_t)) true [85; 49] [105] [[]; [1; 2; 3]] true 0 [] true.
Definition witness_cp_remote : crashpoint := mkCp (repeat true 9 ++ [false]) false 5 0.

Theorem C04_refuted_remote_thm :
  wf_scenario witness_remote = true /\ in_window witness_remote witness_cp_remote = true /\
  let o := experiment witness_remote witness_cp_remote in
  o_acked o = true /\
  o_before o = Some (mkStatus S_PENDING 0 remote_name (XRemote [98] emit_t [85; 49] true)) /\
  v_status (o_restart o) = mkStatus S_FAILED 0 [] XNone /\
  holds witness_remote witness_cp_remote = false.
Proof. vm_compute. repeat split; reflexivity. Qed.

(* the runner is killed (anywhere, here between two of its rewrites): nobody completes the unit *)
Definition witness_cp_runner : crashpoint := mkCp (repeat true 9 ++ repeat false 4) true 0 1.

Theorem runner_killed_never_completes_thm :
  let o := experiment witness_sc witness_cp_runner in
  o_acked o = true /\ in_window witness_sc witness_cp_runner = false /\
  s_wtype (v_status (o_restart o)) = emit_t /\
  s_state (v_status (o_final o)) = S_RUNNING /\
  s_state (v_status (o_again o)) = S_RUNNING /\
  stdout_content (o_final_fs o) = [1; 2; 3].
Proof. vm_compute. repeat split; reflexivity. Qed.

(* a crash of the same operation one step later, after the rewrite: outside the window *)
Definition witness_cp_after : crashpoint := mkCp (repeat true 9 ++ repeat false 7) false 6 0.

Lemma nonvacuous_thm :
  wf_scenario witness_sc = true /\ cp_runner witness_cp_after = false /\
  in_window witness_sc witness_cp_after = false /\
  o_acked (experiment witness_sc witness_cp_after) = true /\
  v_status (o_restart (experiment witness_sc witness_cp_after)) = mkStatus S_SUCCEEDED 5 emit_t XNone.
Proof. vm_compute. repeat split; reflexivity. Qed.
