(* Proofs/Proto.v — the receive loop of Model/Proto.v: never Panic (repaired code), the pinned
   code does, what a datagram can and cannot change, when the node shuts down. *)
From Coq Require Import String Lia ZArith ZifyN ZifyNat ZifyBool.
From Receptor Require Import Model.Proto Proofs.PJson.
Open Scope list_scope.
Open Scope N_scope.

(* ---------- association lists keyed by byte strings ---------- *)

Lemma beq_bytes_sym a b : beq_bytes a b = beq_bytes b a.
Proof.
  destruct (beq_bytes a b) eqn:E1, (beq_bytes b a) eqn:E2; try reflexivity.
  - apply beq_bytes_eq in E1. subst. now rewrite beq_bytes_refl in E2.
  - apply beq_bytes_eq in E2. subst. now rewrite beq_bytes_refl in E1.
Qed.

Lemma beq_bytes_false_trans k k0 k' :
  beq_bytes k k0 = false -> beq_bytes k0 k' = true -> beq_bytes k k' = false.
Proof.
  intros H1 H2. apply beq_bytes_eq in H2. now subst.
Qed.

Lemma aget_adel_other {V} (m : list (bytes * V)) k k0 :
  beq_bytes k k0 = false -> aget (adel m k0) k = aget m k.
Proof.
  intro H. induction m as [|[k' v] m IH]; simpl; [reflexivity|].
  destruct (beq_bytes k0 k') eqn:E0.
  - rewrite (beq_bytes_false_trans _ _ _ H E0). exact IH.
  - simpl. destruct (beq_bytes k k'); [reflexivity|exact IH].
Qed.

Lemma aget_adel_same {V} (m : list (bytes * V)) k : aget (adel m k) k = None.
Proof.
  induction m as [|[k' v] m IH]; simpl; [reflexivity|].
  destruct (beq_bytes k k') eqn:E; [exact IH|]. simpl. now rewrite E.
Qed.

Lemma aget_aset_other {V} (m : list (bytes * V)) k k0 v :
  beq_bytes k k0 = false -> aget (aset m k0 v) k = aget m k.
Proof.
  intro H. induction m as [|[k' v'] m IH]; simpl.
  - now rewrite H.
  - destruct (beq_bytes k0 k') eqn:E0; simpl.
    + rewrite H. now rewrite (beq_bytes_false_trans _ _ _ H E0).
    + destruct (beq_bytes k k'); [reflexivity|exact IH].
Qed.

Lemma aget_aset_same {V} (m : list (bytes * V)) k v : aget (aset m k v) k = Some v.
Proof.
  induction m as [|[k' v'] m IH]; simpl.
  - now rewrite beq_bytes_refl.
  - destruct (beq_bytes k k') eqn:E; simpl.
    + now rewrite beq_bytes_refl.
    + now rewrite E.
Qed.

Lemma aget_app_other {V} (m : list (bytes * V)) k k0 v :
  beq_bytes k k0 = false -> aget (m ++ [(k0, v)]) k = aget m k.
Proof.
  intro H. induction m as [|[k' v'] m IH]; simpl.
  - now rewrite H.
  - destruct (beq_bytes k k'); [reflexivity|exact IH].
Qed.

Lemma aget_app_new {V} (m : list (bytes * V)) k v :
  aget m k = None -> aget (m ++ [(k, v)]) k = Some v.
Proof.
  induction m as [|[k' v'] m IH]; simpl; intro H.
  - now rewrite beq_bytes_refl.
  - destruct (beq_bytes k k'); [discriminate|now apply IH].
Qed.

(* ---------- what the helper functions leave alone ---------- *)

(* the part of the node that admission and routing of OTHER sessions depend on *)
Definition links_eq (n n' : node) : Prop :=
  n_conns n' = n_conns n /\ n_selfrow n' = n_selfrow n /\ n_id n' = n_id n /\ n_epoch n' = n_epoch n /\
  n_listeners n' = n_listeners n.

Lemma links_eq_refl n : links_eq n n.
Proof. repeat split. Qed.

Lemma add_hash_links E n nm : links_eq n (add_hash E n nm).
Proof. unfold add_hash. destruct (hget _ _); repeat split. Qed.

Lemma add_hash_down E n nm : n_down (add_hash E n nm) = n_down n.
Proof. unfold add_hash. destruct (hget _ _); reflexivity. Qed.

Lemma handle_ru_links E n ri : links_eq n (fst (handle_ru E n ri)).
Proof.
  unfold handle_ru.
  repeat match goal with
  | |- context [if ?c then _ else _] => destruct c
  | |- context [match aget ?m ?k with _ => _ end] => destruct (aget m k) as [[? ?]|]
  end; cbn [fst]; try apply links_eq_refl; try (repeat split; fail).
  all: try (eapply add_hash_links).
  all: destruct (add_hash_links E (set_known n (n_seen n ++ [ru_uid ri]) (aset (n_known n) (ru_node ri) (ru_epoch ri, ru_seq ri))) (ru_node ri)) as (A & B & C & D & F);
       repeat split; assumption.
Qed.

Lemma store_ad_links n a : links_eq n (store_ad n a).
Proof.
  unfold store_ad.
  repeat match goal with
  | |- context [if ?c then _ else _] => destruct c
  | |- context [match ads_get ?m ?a ?b with _ => _ end] => destruct (ads_get m a b)
  end; repeat split.
Qed.

Lemma store_ad_down n a : n_down (store_ad n a) = n_down n.
Proof.
  unfold store_ad.
  repeat match goal with
  | |- context [if ?c then _ else _] => destruct c
  | |- context [match ads_get ?m ?a ?b with _ => _ end] => destruct (ads_get m a b)
  end; reflexivity.
Qed.

(* ---------- never Panic ---------- *)

Lemma handle_ping_repaired n m : handle_ping repaired n m <> None.
Proof.
  unfold handle_ping. cbn [v_guard_ping repaired andb].
  destruct (beq_bytes (md_fromsvc m) sv_ping); [discriminate|].
  destruct (beq_bytes (md_from m) (n_id n)); [|discriminate].
  destruct (beq_bytes (md_fromsvc m) sv_unreach); [discriminate|].
  destruct (bmem (md_fromsvc m) (n_listeners n)); discriminate.
Qed.

Lemma data_events_repaired n m : data_events repaired n m <> None.
Proof.
  unfold data_events.
  destruct (beq_bytes (md_to m) (n_id n)); [|discriminate].
  destruct (beq_bytes (md_tosvc m) sv_ping); [apply handle_ping_repaired|].
  destruct (beq_bytes (md_tosvc m) sv_unreach); [discriminate|].
  destruct (bmem (md_tosvc m) (n_listeners n)); discriminate.
Qed.

Lemma step_advert_repaired n s j p : step_advert repaired n s j <> Panic p.
Proof.
  unfold step_advert. destruct (decode_advert j) as [a|]; [|discriminate].
  destruct (ad_present a); [discriminate|]. cbn [v_guard_nilad repaired]. discriminate.
Qed.

Lemma step_route_est_no_panic E n s ri p : step_route_est E n s ri <> Panic p.
Proof.
  unfold step_route_est.
  destruct (negb (beq_bytes (ru_fwd ri) (s_id s))); [discriminate|].
  destruct (beq_bytes (ru_node ri) (s_id s)).
  - destruct (aget _ (n_id n)) as [rc|].
    + destruct (negb (dy_eqb rc (s_cost s))); [discriminate|].
      destruct (handle_ru E n ri); discriminate.
    + destruct (s_rest s); discriminate.
  - destruct (handle_ru E n ri); discriminate.
Qed.

Theorem proto_step_never_panics E st d p : proto_step E st d <> Panic p.
Proof.
  unfold proto_step, proto_step_gen. destruct st as [n s]. destruct d as [|ty body].
  - cbn [v_guard_empty repaired]. discriminate.
  - destruct (s_est s).
    + destruct (ty =? 0).
      { destruct (decode_data n (ty :: body)) as [m|]; [|discriminate].
        destruct (data_events repaired n m) eqn:Ed; [discriminate|].
        exfalso. eapply data_events_repaired; eassumption. }
      destruct (ty =? 1).
      { destruct (tok E body) as [j|]; [|discriminate].
        destruct (decode_routing_update j) as [ri|]; [|discriminate].
        apply step_route_est_no_panic. }
      destruct (ty =? 2).
      { destruct (tok E body) as [j|]; [|discriminate]. apply step_advert_repaired. }
      destruct (ty =? 3); discriminate.
    + destruct (ty =? 1).
      { destruct (tok E body) as [j|]; [|discriminate].
        destruct (decode_routing_update j) as [ri|]; [|discriminate].
        destruct (admissible _ _ _ _ _); discriminate. }
      destruct (ty =? 3); discriminate.
Qed.

Lemma proto_run_gen_never_panics E ds : forall st acc p, proto_run_gen repaired E st ds acc <> RPanic p.
Proof.
  induction ds as [|d ds IH]; intros st acc p; simpl; [discriminate|].
  destruct (proto_step_gen repaired E st d) as [st' evs|n rej|q] eqn:Es.
  - apply IH.
  - discriminate.
  - exfalso. eapply proto_step_never_panics. exact Es.
Qed.

(* for every oracle, every node and session state (either phase) and every finite sequence of
   byte strings, the repaired loop never reaches a Go panic or unbounded recursion *)
Theorem proto_run_never_panics E st ds p : proto_run E st ds <> RPanic p.
Proof. apply proto_run_gen_never_panics. Qed.

(* ---------- the pinned code does ---------- *)

Definition ex_node : node :=
  {| n_id := str "victim"%string; n_epoch := 1000; n_conns := [(str "attacker"%string, Dy false 1 0)];
     n_selfrow := [(str "attacker"%string, Dy false 1 0)]; n_hashes := [(17, str "victim"%string)];
     n_listeners := []; n_seen := []; n_known := []; n_ads := []; n_wd := []; n_down := false |}.
Definition ex_bi : binfo := {| bi_cost := Dy false 1 0; bi_nodecost := []; bi_allowed := None |}.
Definition ex_sess_est : sess :=
  {| s_bi := ex_bi; s_est := true; s_rest := false; s_id := str "attacker"%string; s_cost := Dy false 1 0 |}.
Definition cancel_only : bytes := str "{""Cancel"":true}"%string.
Definition ex_env : env :=
  env_of [(cancel_only, JObj [(str "Cancel"%string, JBool true)])] [(str "victim"%string, 17)].
(* <victim>:ping -> <victim>:ping *)
Definition ping_loop_packet : bytes :=
  [0; 30; 0; 0] ++ [0; 0; 0; 0; 0; 0; 0; 17] ++ [0; 0; 0; 0; 0; 0; 0; 17] ++
  str "ping"%string ++ [0; 0; 0; 0] ++ str "ping"%string ++ [0; 0; 0; 0].

Theorem pinned_panics_on_empty_datagram E st : proto_step_pinned E st [] = Panic PEmptyDatagram.
Proof. destruct st. reflexivity. Qed.

Theorem pinned_panics_on_contentless_advert :
  proto_step_pinned ex_env (ex_node, ex_sess_est) (2 :: cancel_only) = Panic PNilAdvert.
Proof. vm_compute. reflexivity. Qed.

Theorem pinned_panics_on_ping_loop :
  proto_step_pinned ex_env (ex_node, ex_sess_est) ping_loop_packet = Panic PPingLoop.
Proof. vm_compute. reflexivity. Qed.

Theorem pinned_refuted :
  (exists E st ds p, proto_run_pinned E st ds = RPanic p /\ ds = [[]]) /\
  (exists E st ds p, proto_run_pinned E st ds = RPanic p /\ ds = [2 :: cancel_only]) /\
  (exists E st ds p, proto_run_pinned E st ds = RPanic p /\ ds = [ping_loop_packet]).
Proof.
  repeat split.
  - exists ex_env, (ex_node, sess_init ex_bi), [[]], PEmptyDatagram. split; reflexivity.
  - exists ex_env, (ex_node, ex_sess_est), [2 :: cancel_only], PNilAdvert. split; [vm_compute|]; reflexivity.
  - exists ex_env, (ex_node, ex_sess_est), [ping_loop_packet], PPingLoop. split; [vm_compute|]; reflexivity.
Qed.

(* the repaired loop on the same witnesses: ignored, state unchanged *)
Example repaired_ignores_witnesses :
  proto_run ex_env (ex_node, ex_sess_est) [[]; 2 :: cancel_only; ping_loop_packet] = RCont (ex_node, ex_sess_est) [].
Proof. vm_compute. reflexivity. Qed.

(* ---------- malformed datagrams are ignored: nothing changes ---------- *)

Theorem empty_ignored E st : proto_step E st [] = Cont st [].
Proof. destruct st. reflexivity. Qed.

Theorem unknown_type_ignored E st ty body : 4 <= ty -> proto_step E st (ty :: body) = Cont st [].
Proof.
  intro H. destruct st as [n s]. unfold proto_step, proto_step_gen.
  assert (ty =? 0 = false) as -> by (apply N.eqb_neq; lia).
  assert (ty =? 1 = false) as -> by (apply N.eqb_neq; lia).
  assert (ty =? 2 = false) as -> by (apply N.eqb_neq; lia).
  assert (ty =? 3 = false) as -> by (apply N.eqb_neq; lia).
  destruct (s_est s); reflexivity.
Qed.

Theorem invalid_json_ignored E st ty body :
  (ty = 1 \/ ty = 2) -> tok E body = None -> proto_step E st (ty :: body) = Cont st [].
Proof.
  intros Ht Hj. destruct st as [n s]. unfold proto_step, proto_step_gen. rewrite Hj.
  destruct Ht; subst ty; cbn [N.eqb Pos.eqb]; destruct (s_est s); reflexivity.
Qed.

Theorem undecodable_update_ignored E st body j :
  tok E body = Some j -> decode_routing_update j = JErr -> proto_step E st (1 :: body) = Cont st [].
Proof.
  intros Hj Hd. destruct st as [n s]. unfold proto_step, proto_step_gen. rewrite Hj, Hd.
  cbn [N.eqb Pos.eqb]. destruct (s_est s); reflexivity.
Qed.

Theorem undecodable_advert_ignored E st body j :
  tok E body = Some j ->
  (decode_advert j = JErr \/ exists a, decode_advert j = JOk a /\ ad_present a = false) ->
  proto_step E st (2 :: body) = Cont st [].
Proof.
  intros Hj Hd. destruct st as [n s]. unfold proto_step, proto_step_gen. rewrite Hj.
  cbn [N.eqb Pos.eqb]. destruct (s_est s); [|reflexivity].
  unfold step_advert. destruct Hd as [Hd|(a & Hd & Hp)]; rewrite Hd; [reflexivity|].
  rewrite Hp. reflexivity.
Qed.

Theorem short_data_ignored E st body :
  (List.length body < 35)%nat -> proto_step E st (0 :: body) = Cont st [].
Proof.
  intro H. destruct st as [n s]. unfold proto_step, proto_step_gen. cbn [N.eqb].
  destruct (s_est s); [|reflexivity].
  unfold decode_data.
  assert (Nat.ltb (List.length (0 :: body)) 36 = true) as ->; [|reflexivity].
  apply Nat.ltb_lt. simpl. lia.
Qed.

Theorem unknown_hash_ignored E n s d :
  s_est s = true -> nth 0 d 1 = 0 ->
  (hget (n_hashes n) (be (slice d 4 12)) = None \/ hget (n_hashes n) (be (slice d 12 20)) = None) ->
  proto_step E (n, s) d = Cont (n, s) [].
Proof.
  intros He H0 Hh. destruct d as [|ty body]; [reflexivity|]. simpl in H0. subst ty.
  unfold proto_step, proto_step_gen. rewrite He. cbn [N.eqb].
  unfold decode_data. destruct (Nat.ltb _ 36); [reflexivity|].
  destruct Hh as [Hh|Hh]; rewrite Hh; [reflexivity|].
  destruct (hget (n_hashes n) (be (slice (0 :: body) 4 12))); reflexivity.
Qed.

(* ---------- a datagram touches only its own session's link ---------- *)

Definition same_links_except (k0 : bytes) (n n' : node) : Prop :=
  (forall k, beq_bytes k k0 = false ->
     aget (n_conns n') k = aget (n_conns n) k /\ aget (n_selfrow n') k = aget (n_selfrow n) k) /\
  n_id n' = n_id n /\ n_epoch n' = n_epoch n /\ n_listeners n' = n_listeners n.

Lemma links_eq_same k0 n n' : links_eq n n' -> same_links_except k0 n n'.
Proof.
  intros (A & B & C & D & F). repeat split; try assumption; now (rewrite A || rewrite B).
Qed.

Lemma remove_conn_same n id : same_links_except id n (remove_conn n id).
Proof.
  unfold remove_conn. destruct (isnil id); [apply links_eq_same, links_eq_refl|].
  repeat split; cbn [set_conns n_conns n_selfrow]; now apply aget_adel_other.
Qed.

Lemma establish_same E n s id : same_links_except id n (fst (establish E n s id)).
Proof.
  unfold establish. cbn [fst].
  destruct (add_hash_links E (set_conns n (n_conns n ++ [(id, cost_for (s_bi s) id)])
                                        (aset (n_selfrow n) id (cost_for (s_bi s) id))) id)
    as (A & B & C & D & F).
  repeat split; try (rewrite A || rewrite B || rewrite C || rewrite D || rewrite F);
    cbn [set_conns n_conns n_selfrow n_id n_epoch n_listeners]; try reflexivity.
  - now apply aget_app_other.
  - now apply aget_aset_other.
Qed.

Lemma step_route_est_links E n s ri :
  match step_route_est E n s ri with
  | Cont (n', s') _ => same_links_except (s_id s) n n' /\ s_id s' = s_id s /\ s_est s' = s_est s
  | Stop n' _ => same_links_except (s_id s) n n'
  | Panic _ => False
  end.
Proof.
  unfold step_route_est.
  destruct (negb (beq_bytes (ru_fwd ri) (s_id s))); [apply remove_conn_same|].
  destruct (beq_bytes (ru_node ri) (s_id s)).
  - destruct (aget _ (n_id n)) as [rc|].
    + destruct (negb (dy_eqb rc (s_cost s))); [apply remove_conn_same|].
      pose proof (handle_ru_links E n ri) as L. destruct (handle_ru E n ri) as [n' evs].
      split; [apply links_eq_same; exact L|split; reflexivity].
    + destruct (s_rest s); [apply remove_conn_same|].
      split; [apply links_eq_same, links_eq_refl|split; reflexivity].
  - pose proof (handle_ru_links E n ri) as L. destruct (handle_ru E n ri) as [n' evs].
    split; [apply links_eq_same; exact L|split; reflexivity].
Qed.

(* Whatever the datagram: the connection entries and own-row cost edges of every OTHER remote
   ID are exactly what they were; the node's identity, epoch and listeners too.  (The entry the
   step may change is the one of the session's own remote ID: the ID it had, or the one it is
   admitted under.) *)
Theorem step_touches_only_own_link E n s d :
  match proto_step E (n, s) d with
  | Cont (n', s') _ => same_links_except (s_id s') n n'
  | Stop n' _ => same_links_except (s_id s) n n'
  | Panic _ => False
  end.
Proof.
  unfold proto_step, proto_step_gen. destruct d as [|ty body].
  - cbn [v_guard_empty repaired]. apply links_eq_same, links_eq_refl.
  - destruct (s_est s) eqn:He.
    + destruct (ty =? 0).
      { destruct (decode_data n (ty :: body)) as [m|]; [|apply links_eq_same, links_eq_refl].
        destruct (data_events repaired n m) eqn:Ed; [apply links_eq_same, links_eq_refl|].
        eapply data_events_repaired; eassumption. }
      destruct (ty =? 1).
      { destruct (tok E body) as [j|]; [|apply links_eq_same, links_eq_refl].
        destruct (decode_routing_update j) as [ri|]; [|apply links_eq_same, links_eq_refl].
        pose proof (step_route_est_links E n s ri) as L.
        destruct (step_route_est E n s ri) as [[n' s'] evs|n' rej|p]; [|exact L|exact L].
        destruct L as (L & Hid & _). now rewrite Hid. }
      destruct (ty =? 2).
      { destruct (tok E body) as [j|]; [|apply links_eq_same, links_eq_refl].
        unfold step_advert. destruct (decode_advert j) as [a|]; [|apply links_eq_same, links_eq_refl].
        destruct (ad_present a); [apply links_eq_same, store_ad_links|].
        cbn [v_guard_nilad repaired]. apply links_eq_same, links_eq_refl. }
      destruct (ty =? 3); [apply remove_conn_same|apply links_eq_same, links_eq_refl].
    + destruct (ty =? 1).
      { destruct (tok E body) as [j|]; [|apply links_eq_same, links_eq_refl].
        destruct (decode_routing_update j) as [ri|]; [|apply links_eq_same, links_eq_refl].
        destruct (admissible _ _ _ _ _); [|apply links_eq_same, links_eq_refl].
        pose proof (establish_same E n s (ru_fwd ri)) as L.
        destruct (establish E n s (ru_fwd ri)) as [n' s'] eqn:Ee.
        assert (s_id s' = ru_fwd ri) as -> by (unfold establish in Ee; inversion Ee; reflexivity).
        exact L. }
      destruct (ty =? 3); apply links_eq_same, links_eq_refl.
Qed.

(* ---------- when the node stops ---------- *)

(* a datagram that makes a running node call Shutdown() is a routing update, on an established
   session, that names the node itself as origin and carries the node's own epoch as
   SuspectedDuplicate (under a different UpdateEpoch): the duplicate-node notice *)
Definition duplicate_notice (E : env) (n : node) (d : bytes) : Prop :=
  exists body j ri, d = 1 :: body /\ tok E body = Some j /\ decode_routing_update j = JOk ri /\
    ru_node ri = n_id n /\ ru_dup ri = n_epoch n /\ ru_epoch ri <> n_epoch n.

Lemma handle_ru_down E n ri :
  n_down n = false -> n_down (fst (handle_ru E n ri)) = true ->
  ru_node ri = n_id n /\ ru_dup ri = n_epoch n /\ ru_epoch ri <> n_epoch n.
Proof.
  intros Hd. unfold handle_ru.
  destruct (isnil (ru_node ri)); [cbn [fst]; congruence|].
  destruct (nonpositive_cost ri); [cbn [fst]; congruence|].
  destruct (beq_bytes (ru_node ri) (n_id n)) eqn:Eid.
  - apply beq_bytes_eq in Eid.
    destruct (ru_epoch ri =? n_epoch n) eqn:Ee; [cbn [fst]; congruence|].
    destruct (ru_dup ri =? n_epoch n) eqn:Ed.
    + intros _. apply N.eqb_eq in Ed. apply N.eqb_neq in Ee. now repeat split.
    + destruct (n_epoch n <? ru_epoch ri); cbn [fst]; congruence.
  - destruct (bmem (ru_uid ri) (n_seen n)); [cbn [fst]; congruence|].
    destruct (negb (ru_dup ri =? 0)).
    + destruct (aget (n_known n) (ru_node ri)) as [[e q]|]; [destruct (e =? ru_dup ri)|];
        cbn [fst set_known n_down]; congruence.
    + destruct (aget (n_known n) (ru_node ri)) as [[e q]|].
      * destruct ((ru_epoch ri <? e) || ((ru_epoch ri =? e) && (ru_seq ri <=? q)));
          cbn [fst set_known n_down]; congruence.
      * cbn [fst]. rewrite add_hash_down. cbn [set_known n_down]. congruence.
Qed.

Theorem shutdown_only_by_duplicate_notice E n s d :
  n_down n = false ->
  (exists n' s' evs, proto_step E (n, s) d = Cont (n', s') evs /\ n_down n' = true) ->
  s_est s = true /\ duplicate_notice E n d.
Proof.
  intros Hd (n' & s' & evs & Hs & Hd').
  unfold proto_step, proto_step_gen in Hs. destruct d as [|ty body].
  - cbn [v_guard_empty repaired] in Hs. inversion Hs; subst. congruence.
  - destruct (s_est s) eqn:He.
    + split; [reflexivity|].
      destruct (ty =? 0) eqn:E0.
      { destruct (decode_data n (ty :: body)) as [m|]; [|inversion Hs; subst; congruence].
        destruct (data_events repaired n m); [inversion Hs; subst; congruence|discriminate]. }
      destruct (ty =? 1) eqn:E1.
      { apply N.eqb_eq in E1. subst ty.
        destruct (tok E body) as [j|] eqn:Ej; [|inversion Hs; subst; congruence].
        destruct (decode_routing_update j) as [ri|] eqn:Er; [|inversion Hs; subst; congruence].
        assert (G : ru_node ri = n_id n /\ ru_dup ri = n_epoch n /\ ru_epoch ri <> n_epoch n).
        { unfold step_route_est in Hs.
          destruct (negb (beq_bytes (ru_fwd ri) (s_id s))); [discriminate|].
          destruct (beq_bytes (ru_node ri) (s_id s)).
          - destruct (aget _ (n_id n)) as [rc|].
            + destruct (negb (dy_eqb rc (s_cost s))); [discriminate|].
              destruct (handle_ru E n ri) as [n1 ev1] eqn:Eh. inversion Hs; subst.
              apply (handle_ru_down E n ri Hd). now rewrite Eh.
            + destruct (s_rest s); [discriminate|]. inversion Hs; subst. congruence.
          - destruct (handle_ru E n ri) as [n1 ev1] eqn:Eh. inversion Hs; subst.
            apply (handle_ru_down E n ri Hd). now rewrite Eh. }
        destruct G as (G1 & G2 & G3). exists body, j, ri. repeat split; assumption || reflexivity. }
      destruct (ty =? 2).
      { destruct (tok E body) as [j|]; [|inversion Hs; subst; congruence].
        unfold step_advert in Hs. destruct (decode_advert j) as [a|]; [|inversion Hs; subst; congruence].
        destruct (ad_present a).
        - inversion Hs; subst. rewrite store_ad_down in Hd'. congruence.
        - cbn [v_guard_nilad repaired] in Hs. inversion Hs; subst. congruence. }
      destruct (ty =? 3); [discriminate|inversion Hs; subst; congruence].
    + exfalso.
      destruct (ty =? 1).
      { destruct (tok E body) as [j|]; [|inversion Hs; subst; congruence].
        destruct (decode_routing_update j) as [ri|]; [|inversion Hs; subst; congruence].
        destruct (admissible _ _ _ _ _); [|discriminate].
        unfold establish in Hs. inversion Hs; subst. rewrite add_hash_down in Hd'.
        cbn [set_conns n_down] in Hd'. congruence. }
      destruct (ty =? 3); [discriminate|inversion Hs; subst; congruence].
Qed.

(* ... and such a notice does stop the node: anybody who is (or relays through) a neighbour can
   forge it, the epoch being public.  This is the open finding C07-forged-duplicate-shutdown. *)
Definition forged_notice : bytes := str "{""NodeID"":""victim"",""SuspectedDuplicate"":1000,""ForwardingNode"":""attacker""}"%string.
Definition forged_env : env :=
  env_of [(forged_notice, JObj [(str "NodeID"%string, JStr (str "victim"%string) None);
                                (str "SuspectedDuplicate"%string, JNum (NInt false 1000));
                                (str "ForwardingNode"%string, JStr (str "attacker"%string) None)])] [].

Theorem forged_duplicate_notice_stops_the_node :
  exists n' s' evs, proto_step forged_env (ex_node, ex_sess_est) (1 :: forged_notice) = Cont (n', s') evs /\
                    n_down ex_node = false /\ n_down n' = true.
Proof.
  eexists _, _, _. split; [vm_compute; reflexivity|]. split; reflexivity.
Qed.

(* a sequence without duplicate notices leaves a running node running (and never panics) *)
Fixpoint no_notice (E : env) (self : bytes) (epoch : N) (ds : list bytes) : bool :=
  match ds with
  | [] => true
  | d :: r =>
    match d with
    | 1 :: body =>
      match tok E body with
      | Some j => match decode_routing_update j with
                  | JOk ri => negb (beq_bytes (ru_node ri) self && (ru_dup ri =? epoch) && negb (ru_epoch ri =? epoch))
                  | JErr => true
                  end
      | None => true
      end
    | _ => true
    end && no_notice E self epoch r
  end.

Lemma step_keeps_identity E n s d :
  match proto_step E (n, s) d with
  | Cont (n', _) _ => n_id n' = n_id n /\ n_epoch n' = n_epoch n
  | Stop n' _ => n_id n' = n_id n /\ n_epoch n' = n_epoch n
  | Panic _ => False
  end.
Proof.
  pose proof (step_touches_only_own_link E n s d) as H.
  destruct (proto_step E (n, s) d) as [[n' s'] evs|n' rej|p]; [| |exact H];
    destruct H as (_ & A & B & _); split; assumption.
Qed.

Lemma step_stop_down E n s d n' rej : proto_step E (n, s) d = Stop n' rej -> n_down n' = n_down n.
Proof.
  unfold proto_step, proto_step_gen. destruct d as [|ty body]; [discriminate|].
  assert (R : forall id, n_down (remove_conn n id) = n_down n)
    by (intro id; unfold remove_conn; destruct (isnil id); reflexivity).
  destruct (s_est s).
  - destruct (ty =? 0).
    { destruct (decode_data n (ty :: body)); [destruct (data_events repaired n m)|]; discriminate. }
    destruct (ty =? 1).
    { destruct (tok E body) as [j|]; [|discriminate].
      destruct (decode_routing_update j) as [ri|]; [|discriminate].
      unfold step_route_est.
      destruct (negb (beq_bytes (ru_fwd ri) (s_id s))); [intro H; inversion H; apply R|].
      destruct (beq_bytes (ru_node ri) (s_id s)).
      - destruct (aget _ (n_id n)) as [rc|].
        + destruct (negb (dy_eqb rc (s_cost s))); [intro H; inversion H; apply R|].
          destruct (handle_ru E n ri); discriminate.
        + destruct (s_rest s); [intro H; inversion H; apply R|discriminate].
      - destruct (handle_ru E n ri); discriminate. }
    destruct (ty =? 2).
    { destruct (tok E body) as [j|]; [|discriminate]. unfold step_advert.
      destruct (decode_advert j) as [a|]; [|discriminate].
      destruct (ad_present a); [discriminate|]. cbn [v_guard_nilad repaired]. discriminate. }
    destruct (ty =? 3); [intro H; inversion H; apply R|discriminate].
  - destruct (ty =? 1).
    { destruct (tok E body) as [j|]; [|discriminate].
      destruct (decode_routing_update j) as [ri|]; [|discriminate].
      destruct (admissible _ _ _ _ _); [discriminate|]. intro H; now inversion H. }
    destruct (ty =? 3); [intro H; now inversion H|discriminate].
Qed.

Definition result_node (r : run_result) : option node :=
  match r with RCont (n, _) _ => Some n | RStop n _ _ => Some n | RPanic _ => None end.

Theorem keeps_running_without_notice E ds : forall n s acc,
  n_down n = false -> no_notice E (n_id n) (n_epoch n) ds = true ->
  exists n', result_node (proto_run_gen repaired E (n, s) ds acc) = Some n' /\ n_down n' = false.
Proof.
  induction ds as [|d ds IH]; intros n s acc Hd Hn; cbn [proto_run_gen].
  - exists n. split; [reflexivity|assumption].
  - cbn [no_notice] in Hn. apply andb_true_iff in Hn as [Hn1 Hn2].
    pose proof (step_keeps_identity E n s d) as Hid.
    fold proto_step.
    destruct (proto_step E (n, s) d) as [[n1 s1] evs|n1 rej|p] eqn:Es.
    + destruct Hid as [Hi He]. destruct (n_down n1) eqn:Hd1.
      * exfalso.
        destruct (shutdown_only_by_duplicate_notice E n s d Hd) as (_ & body & j & ri & Hb & Hj & Hr & G1 & G2 & G3).
        { exists n1, s1, evs. split; assumption. }
        subst d. rewrite Hj, Hr in Hn1. rewrite G1, G2 in Hn1.
        rewrite beq_bytes_refl, N.eqb_refl in Hn1. apply N.eqb_neq in G3. rewrite G3 in Hn1. discriminate.
      * rewrite <- Hi, <- He in Hn2. apply IH; assumption.
    + cbn [result_node]. exists n1. split; [reflexivity|]. rewrite (step_stop_down _ _ _ _ _ _ Es). exact Hd.
    + contradiction.
Qed.

Theorem keeps_running_refuted :
  exists E n s d n' s' evs, s_est s = true /\ n_down n = false /\
    proto_step E (n, s) d = Cont (n', s') evs /\ n_down n' = true.
Proof.
  destruct forged_duplicate_notice_stops_the_node as (n' & s' & evs & H1 & H2 & H3).
  exists forged_env, ex_node, ex_sess_est, (1 :: forged_notice), n', s', evs.
  repeat split; assumption.
Qed.

Theorem keeps_running_partial E ds n s :
  n_down n = false -> no_notice E (n_id n) (n_epoch n) ds = true ->
  exists n', result_node (proto_run E (n, s) ds) = Some n' /\ n_down n' = false.
Proof. apply keeps_running_without_notice. Qed.

(* the hypothesis of keeps_running_partial is satisfiable by a non-trivial sequence *)
Example no_notice_example :
  no_notice ex_env (n_id ex_node) (n_epoch ex_node) [[]; 2 :: cancel_only; ping_loop_packet; [1; 123]; [3]] = true.
Proof. vm_compute. reflexivity. Qed.

(* ---------- framing ---------- *)

(* frame_pop returns exactly the announced number of bytes, taken from right behind the header,
   and leaves exactly what follows them; it waits (None) iff fewer have arrived *)
Theorem frame_pop_exact b m rest : frame_pop b = Some (m, rest) ->
  exists lo hi, b = lo :: hi :: m ++ rest /\ List.length m = N.to_nat (lo + 256 * hi).
Proof.
  unfold frame_pop. destruct b as [|lo [|hi r]]; try discriminate.
  destruct (Nat.leb (N.to_nat (lo + 256 * hi)) (List.length r)) eqn:E; [|discriminate].
  intro H. inversion H; subst. exists lo, hi. split.
  - now rewrite firstn_skipn.
  - apply Nat.leb_le in E. now rewrite firstn_length_le.
Qed.

Theorem frame_pop_waits lo hi r :
  frame_pop (lo :: hi :: r) = None <-> (List.length r < N.to_nat (lo + 256 * hi))%nat.
Proof.
  unfold frame_pop. destruct (Nat.leb (N.to_nat (lo + 256 * hi)) (List.length r)) eqn:E.
  - apply Nat.leb_le in E. split; intro H; [discriminate|exfalso; lia].
  - apply Nat.leb_gt in E. split; intro H; [exact E|reflexivity].
Qed.

(* the two headers a 16-bit sum would wrap on announce 65534 and 65535 bytes, not 0 and 1 *)
Example frame_pop_no_wrap :
  frame_pop [254; 255; 1; 2; 3] = None /\ frame_pop [255; 255; 1; 2; 3] = None /\
  frame_pop [0; 0; 1; 2; 3] = Some ([], [1; 2; 3]) /\ frame_pop [1; 0; 1; 2; 3] = Some ([1], [2; 3]).
Proof. vm_compute. repeat split. Qed.
