(* Proofs/Regex.v — the derivative matcher of Model/Regex.v decides the inductive language. *)
From Receptor Require Import Model.Regex.
Open Scope N_scope.

Lemma lang_null s : ~ lang RNull s.
Proof. intro H; inversion H. Qed.

Lemma lang_eps s : lang REps s -> s = [].
Proof. intro H; now inversion H. Qed.

(* ---------- smart constructors ---------- *)

Lemma mk_cat_fwd a b s1 s2 : lang a s1 -> lang b s2 -> lang (mk_cat a b) (s1 ++ s2).
Proof.
  intros Ha Hb. unfold mk_cat. destruct a.
  1: now inversion Ha.
  1: inversion Ha; subst; exact Hb.
  all: destruct b; try (now inversion Hb);
       try (inversion Hb; subst; rewrite app_nil_r; exact Ha); now constructor.
Qed.

Lemma mk_cat_inv a b s :
  lang (mk_cat a b) s -> exists s1 s2, s = s1 ++ s2 /\ lang a s1 /\ lang b s2.
Proof.
  unfold mk_cat. intro H. destruct a.
  1: now inversion H.
  1: exists [], s; repeat split; [constructor | exact H].
  all: destruct b; try (now inversion H);
       try (exists s, []; rewrite app_nil_r; repeat split; [exact H | constructor]);
       try (inversion H; subst; eexists; eexists; repeat split; eassumption).
Qed.

Lemma mk_alt_fwd a b s : lang a s \/ lang b s -> lang (mk_alt a b) s.
Proof.
  unfold mk_alt. intros [H|H].
  - destruct a; try (now inversion H);
      destruct b; try exact H; now apply LAltL.
  - destruct a; try exact H;
      destruct b; try (now inversion H); now apply LAltR.
Qed.

Lemma mk_alt_inv a b s : lang (mk_alt a b) s -> lang a s \/ lang b s.
Proof.
  unfold mk_alt. intro H.
  destruct a; try (now right);
    destruct b; try (now left); inversion H; subst; auto.
Qed.

(* ---------- nullable ---------- *)

Lemma nullable_fwd r : nullable r = true -> lang r [].
Proof.
  induction r; simpl; intro H; try discriminate.
  - constructor.
  - apply andb_true_iff in H as [H1 H2]. change (@nil N) with (@nil N ++ []). now constructor; auto.
  - apply orb_true_iff in H as [H|H]; [apply LAltL | apply LAltR]; auto.
  - constructor.
  - change (@nil N) with (@nil N ++ []). constructor; auto. constructor.
  - constructor.
  - constructor; auto.
Qed.

Lemma nullable_bwd r : lang r [] -> nullable r = true.
Proof.
  induction r; simpl; intro H; try reflexivity; try (now inversion H).
  - inversion H; subst.
    match goal with E : _ ++ _ = [] |- _ => apply app_eq_nil in E as [-> ->] end.
    now rewrite IHr1, IHr2.
  - inversion H; subst; [rewrite IHr1 | rewrite IHr2]; auto using orb_true_r.
  - inversion H; subst.
    match goal with E : _ ++ _ = [] |- _ => apply app_eq_nil in E as [-> ->] end. auto.
  - inversion H; subst; auto.
Qed.

Lemma nullable_spec r : nullable r = true <-> lang r [].
Proof. split; [apply nullable_fwd | apply nullable_bwd]. Qed.

(* ---------- derivatives ---------- *)

(* a non-empty text of a* starts with a non-empty text of a *)
Lemma star_cons a c s :
  lang (RStar a) (c :: s) ->
  exists s1 s2, s = s1 ++ s2 /\ lang a (c :: s1) /\ lang (RStar a) s2.
Proof.
  intro H. remember (RStar a) as r eqn:Er. remember (c :: s) as t eqn:Et.
  revert s Et. induction H; intros s0 Et; try discriminate.
  inversion Er; subst a0.
  destruct s1 as [|d s1].
  - simpl in Et. apply IHlang2; auto.
  - simpl in Et. inversion Et; subst. exists s1, s2. auto.
Qed.

Lemma deriv_fwd c r : forall s, lang (deriv c r) s -> lang r (c :: s).
Proof.
  induction r; simpl; intros s H.
  - now inversion H.
  - now inversion H.
  - destruct (cs_mem cs c) eqn:E; [|now inversion H].
    apply lang_eps in H; subst. now constructor.
  - destruct (nullable r1) eqn:En.
    + apply mk_alt_inv in H as [H|H].
      * apply mk_cat_inv in H as (s1 & s2 & -> & H1 & H2).
        change (c :: s1 ++ s2) with ((c :: s1) ++ s2). constructor; auto.
      * change (c :: s) with ([] ++ c :: s). constructor; auto. now apply nullable_fwd.
    + apply mk_cat_inv in H as (s1 & s2 & -> & H1 & H2).
      change (c :: s1 ++ s2) with ((c :: s1) ++ s2). constructor; auto.
  - apply mk_alt_inv in H as [H|H]; [apply LAltL | apply LAltR]; auto.
  - apply mk_cat_inv in H as (s1 & s2 & -> & H1 & H2).
    change (c :: s1 ++ s2) with ((c :: s1) ++ s2). constructor; auto.
  - apply mk_cat_inv in H as (s1 & s2 & -> & H1 & H2).
    change (c :: s1 ++ s2) with ((c :: s1) ++ s2). constructor; auto.
  - apply LOptS; auto.
  - constructor; auto.
Qed.

Lemma deriv_bwd c r : forall s, lang r (c :: s) -> lang (deriv c r) s.
Proof.
  induction r; simpl; intros s H.
  - now inversion H.
  - now inversion H.
  - inversion H; subst. match goal with E : cs_mem _ _ = true |- _ => rewrite E end. constructor.
  - inversion H as [| | ? ? s1 s2 Ha Hb | | | | | | | |]; subst.
    match goal with E : _ ++ _ = _ :: _ |- _ => rename E into Heq end.
    destruct s1 as [|d s1]; simpl in Heq.
    + subst s2. rewrite (nullable_bwd _ Ha). apply mk_alt_fwd. right. auto.
    + inversion Heq; subst.
      assert (Hc : lang (mk_cat (deriv c r1) r2) (s1 ++ s2)) by (apply mk_cat_fwd; auto).
      destruct (nullable r1); [apply mk_alt_fwd; now left | exact Hc].
  - inversion H; subst; apply mk_alt_fwd; [left | right]; auto.
  - apply star_cons in H as (s1 & s2 & -> & H1 & H2). apply mk_cat_fwd; auto.
  - inversion H as [| | | | | | | ? s1 s2 Ha Hb | | |]; subst.
    match goal with E : _ ++ _ = _ :: _ |- _ => rename E into Heq end.
    destruct s1 as [|d s1]; simpl in Heq.
    + subst s2. apply star_cons in Hb as (t1 & t2 & -> & H1 & H2). apply mk_cat_fwd; auto.
    + inversion Heq; subst. apply mk_cat_fwd; auto.
  - inversion H; subst. auto.
  - inversion H; subst. auto.
Qed.

Lemma deriv_spec c r s : lang (deriv c r) s <-> lang r (c :: s).
Proof. split; [apply deriv_fwd | apply deriv_bwd]. Qed.

(* ---------- the matcher ---------- *)

Theorem full_spec : forall r s, full r s = true <-> lang r s.
Proof.
  intros r s. revert r. induction s as [|c s IH]; intro r; simpl.
  - apply nullable_spec.
  - rewrite IH. apply deriv_spec.
Qed.

Corollary full_false r s : full r s = false <-> ~ lang r s.
Proof.
  rewrite <- full_spec. destruct (full r s); split; intro H.
  - discriminate.
  - now elim H.
  - intro; discriminate.
  - reflexivity.
Qed.

(* ---------- unanchored forms ---------- *)

Lemma all_lang s : lang r_all s.
Proof.
  unfold r_all. induction s as [|c s IH].
  - constructor.
  - change (c :: s) with ([c] ++ s). constructor; auto. now constructor.
Qed.

Lemma prefix_match_spec r s :
  prefix_match r s = true <-> exists p q, s = p ++ q /\ lang r p.
Proof.
  unfold prefix_match. rewrite full_spec. split.
  - intro H. inversion H; subst. eauto.
  - intros (p & q & -> & H). constructor; auto using all_lang.
Qed.

Lemma suffix_match_spec r s :
  suffix_match r s = true <-> exists p q, s = p ++ q /\ lang r q.
Proof.
  unfold suffix_match. rewrite full_spec. split.
  - intro H. inversion H; subst. eauto.
  - intros (p & q & -> & H). constructor; auto using all_lang.
Qed.

Lemma infix_match_spec r s :
  infix_match r s = true <-> exists p m q, s = p ++ m ++ q /\ lang r m.
Proof.
  unfold infix_match. rewrite full_spec. split.
  - intro H. inversion H as [| | ? ? s1 s2 Ha Hb | | | | | | | |]; subst.
    inversion Hb; subst. eauto.
  - intros (p & m & q & -> & H). constructor; auto using all_lang.
    constructor; auto using all_lang.
Qed.
