(* Proofs/Fs.v — the general file system of Model/Fs.v and the per-unit record of Model/Crash.v:
   each step of the unit model IS the file-system operation it stands for, and touches nothing
   outside the unit's directory (property C04). *)
From Coq Require Import ZArith Lia ZifyN ZifyNat ZifyBool.
From Receptor Require Import Model.Crash.
Open Scope N_scope.

(* ====================================================================================== *)
(* A. the general file system, and the unit's record as a view of it                      *)
(* ====================================================================================== *)

Lemma beq_path_refl p : beq_path p p = true.
Proof. induction p as [|x p IH]; simpl; [reflexivity|]. now rewrite N.eqb_refl. Qed.

Lemma beq_path_eq p q : beq_path p q = true <-> p = q.
Proof.
  revert q; induction p as [|x p IH]; intros [|y q]; simpl; split; intro H;
    try reflexivity; try discriminate.
  - apply andb_true_iff in H as [H1 H2]. apply N.eqb_eq in H1. apply IH in H2. now subst.
  - inversion H; subst. rewrite N.eqb_refl. now apply IH.
Qed.

Lemma fs_get_set_same fs p n : fs_get (fs_set fs p n) p = Some n.
Proof.
  induction fs as [|[q m] r IH]; simpl.
  - now rewrite beq_path_refl.
  - destruct (beq_path q p) eqn:E; simpl.
    + now rewrite E.
    + now rewrite E.
Qed.

Lemma fs_get_set_other fs p n q : beq_path p q = false -> fs_get (fs_set fs p n) q = fs_get fs q.
Proof.
  intro H. induction fs as [|[a m] r IH]; simpl.
  - now rewrite H.
  - destruct (beq_path a p) eqn:E; simpl.
    + apply beq_path_eq in E. subst a. now rewrite H.
    + destruct (beq_path a q); [reflexivity|exact IH].
Qed.

(* an operation of unit u touches one path, which is [u] or below it *)
Lemma fsop_path_under u o : is_under (unitp u) (op_path (fsop_of u o)) = true.
Proof. destruct o; simpl; now rewrite N.eqb_refl. Qed.

Lemma under_neq p q r : is_under p q = true -> is_under p r = false -> beq_path q r = false.
Proof.
  revert q r; induction p as [|x p IH]; intros q r H1 H2; simpl in *; [discriminate|].
  destruct q as [|y q]; [discriminate|]. destruct r as [|z r]; [reflexivity|].
  simpl. apply andb_true_iff in H1 as [E1 H1]. apply N.eqb_eq in E1. subst y.
  destruct (x =? z) eqn:E; simpl in *; [|reflexivity]. now apply IH.
Qed.

(* frame: the operations of unit u leave every path outside u's directory as it was *)
Theorem fsop_frame : forall u o fs q,
  is_under (unitp u) q = false -> fs_get (apply_op fs (fsop_of u o)) q = fs_get fs q.
Proof.
  intros u o fs q Hq.
  assert (Hne : beq_path (op_path (fsop_of u o)) q = false)
    by (apply (under_neq (unitp u)); [apply fsop_path_under|exact Hq]).
  destruct o; simpl in *;
    repeat match goal with
           | |- context [match fs_get fs ?p with _ => _ end] => destruct (fs_get fs p) as [[|?]|]
           end; try reflexivity; now apply fs_get_set_other.
Qed.

(* the unit directory is a directory or absent, the unit's files are files or absent *)
Definition well_typed (u : N) (fs : fsstate) : Prop :=
  (fs_get fs (unitp u) = None \/ fs_get fs (unitp u) = Some Dir) /\
  forall f, fs_get fs (filep u f) = None \/ exists c, fs_get fs (filep u f) = Some (File c).

Lemma filep_neq u f g : f <> g -> beq_path (filep u f) (filep u g) = false.
Proof. intro H. destruct f, g; try congruence; simpl; now rewrite N.eqb_refl. Qed.

Lemma filep_unitp u f : beq_path (filep u f) (unitp u) = false.
Proof. simpl. now rewrite N.eqb_refl. Qed.

Lemma unitp_filep u f : beq_path (unitp u) (filep u f) = false.
Proof. simpl. now rewrite N.eqb_refl. Qed.

Lemma ufile_dec (f g : ufile) : {f = g} + {f <> g}.
Proof. decide equality. Qed.

Lemma content_set_same fs p c : file_content (fs_set fs p (File c)) p = Some c.
Proof. unfold file_content. now rewrite fs_get_set_same. Qed.

Lemma content_set_other fs p n q : beq_path p q = false ->
  file_content (fs_set fs p n) q = file_content fs q.
Proof. intro H. unfold file_content. now rewrite fs_get_set_other. Qed.

Lemma isdir_set_other fs p n q : beq_path p q = false -> is_dir (fs_set fs p n) q = is_dir fs q.
Proof. intro H. unfold is_dir. now rewrite fs_get_set_other. Qed.

(* setting file f of unit u in the general file system is [uset] on the record *)
Lemma project_set_file u fs f c :
  project u (fs_set fs (filep u f) (File c)) = uset (project u fs) f (Some c).
Proof.
  unfold project.
  rewrite (isdir_set_other _ _ _ _ (filep_unitp u f)).
  destruct f; simpl uset; f_equal;
    try apply content_set_same;
    try (apply content_set_other; apply filep_neq; discriminate).
Qed.

Lemma uget_project u fs f : uget (project u fs) f = file_content fs (filep u f).
Proof. destruct f; reflexivity. Qed.

Lemma uset_same x f : uset x f (uget x f) = x.
Proof. destruct x, f; reflexivity. Qed.

(* the steps of the unit model are the file-system operations they stand for *)
Theorem project_apply : forall u fs o,
  well_typed u fs ->
  project u (apply_op fs (fsop_of u o)) = uapply (project u fs) o /\
  well_typed u (apply_op fs (fsop_of u o)).
Proof.
  intros u fs o [Hd Hf].
  assert (Hset : forall f c, well_typed u (fs_set fs (filep u f) (File c))).
  { intros f c. split.
    - rewrite (fs_get_set_other _ _ _ _ (filep_unitp u f)). exact Hd.
    - intro g. destruct (ufile_dec f g) as [->|Hne].
      + right. exists c. apply fs_get_set_same.
      + rewrite (fs_get_set_other _ _ _ _ (filep_neq u f g Hne)). apply Hf. }
  destruct o as [|f|f|f|f off b|f b]; simpl fsop_of; simpl apply_op.
  - (* Mkdir *)
    destruct Hd as [Hd|Hd]; rewrite Hd.
    + split.
      * unfold project, uapply. simpl.
        unfold is_dir. rewrite fs_get_set_same.
        f_equal; apply content_set_other; apply unitp_filep.
      * split; [right; apply fs_get_set_same|].
        intro g. rewrite (fs_get_set_other _ _ _ _ (unitp_filep u g)). apply Hf.
    + split; [|split; [now right|exact Hf]].
      unfold project, uapply, is_dir. simpl. rewrite Hd. reflexivity.
  - (* OpenCreate *)
    unfold uapply. rewrite uget_project. unfold file_content.
    destruct (Hf f) as [E|[c E]]; rewrite E.
    + split; [apply project_set_file|apply Hset].
    + split; [reflexivity|split; [exact Hd|exact Hf]].
  - (* OpenTrunc *)
    unfold uapply.
    destruct (Hf f) as [E|[c E]]; rewrite E; (split; [apply project_set_file|apply Hset]).
  - (* Truncate *)
    unfold uapply. rewrite uget_project. unfold file_content.
    destruct (Hf f) as [E|[c E]]; rewrite E.
    + split; [reflexivity|split; [exact Hd|exact Hf]].
    + split; [apply project_set_file|apply Hset].
  - (* WriteAt *)
    unfold uapply. rewrite uget_project. unfold file_content.
    destruct (Hf f) as [E|[c E]]; rewrite E.
    + split; [reflexivity|split; [exact Hd|exact Hf]].
    + split; [apply project_set_file|apply Hset].
  - (* Append *)
    unfold uapply. rewrite uget_project. unfold file_content.
    destruct (Hf f) as [E|[c E]]; rewrite E; (split; [apply project_set_file|apply Hset]).
Qed.

Lemma well_typed_empty u : well_typed u [].
Proof. split; [now left|intro f; now left]. Qed.

