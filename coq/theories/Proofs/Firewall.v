(* Proofs/Firewall.v — lemmas about Model/Firewall.v (property C12). *)
From Coq Require Import String.
From Receptor Require Import Model.Firewall Proofs.Regex.
Open Scope N_scope.

(* ================= evaluation: the first matching rule decides ================= *)

Lemma beq_text_eq a b : beq_text a b = true <-> a = b.
Proof. apply beq_bytes_eq. Qed.

Lemma matcher_ok_spec m v : matcher_ok full m v = true <-> matcher_spec m v.
Proof. destruct m; simpl; [apply beq_text_eq | apply full_spec]. Qed.

Lemma rule_matchb_spec r p : forallb (comp_match full p) (pr_comps r) = true <-> matches r p.
Proof.
  rewrite forallb_forall. unfold matches, comp_match. split.
  - intros H f m Hin. apply matcher_ok_spec. exact (H (f, m) Hin).
  - intros H [f m] Hin. apply matcher_ok_spec. simpl. auto.
Qed.

Lemma matches_dec r p : matches r p \/ ~ matches r p.
Proof.
  destruct (forallb (comp_match full p) (pr_comps r)) eqn:E.
  - left. now apply rule_matchb_spec.
  - right. intro H. apply rule_matchb_spec in H. congruence.
Qed.

Lemma decides_total rules p : exists d, decides rules p d.
Proof.
  induction rules as [|r rest [d IH]].
  - exists None. constructor.
  - destruct (matches_dec r p) as [H|H].
    + exists (Some r). now constructor.
    + exists d. now constructor.
Qed.

Lemma decides_unique rules p d1 d2 : decides rules p d1 -> decides rules p d2 -> d1 = d2.
Proof.
  intro H1. revert d2. induction H1; intros d2 H2; inversion H2; subst; auto; contradiction.
Qed.

(* who decides is the first rule that matches, and nobody before it does *)
Lemma decides_first rules p r :
  decides rules p (Some r) <->
  exists pre post, rules = pre ++ r :: post /\ matches r p /\ Forall (fun x => ~ matches x p) pre.
Proof.
  split.
  - intro H. remember (Some r) as d eqn:Ed. induction H.
    + discriminate.
    + inversion Ed; subst. exists [], rest. auto.
    + destruct (IHdecides Ed) as (pre & post & -> & Hm & Hf).
      exists (r0 :: pre), post. auto.
  - intros (pre & post & -> & Hm & Hf). induction pre as [|x pre IH]; simpl.
    + now constructor.
    + inversion Hf; subst. constructor; auto.
Qed.

Lemma decides_none rules p : decides rules p None <-> Forall (fun x => ~ matches x p) rules.
Proof.
  split.
  - intro H. remember None as d eqn:Ed. induction H; try discriminate; auto.
  - induction rules as [|x rest IH]; intro H; inversion H; subst; constructor; auto.
Qed.

Lemma rule_fn_match r p : matches r p -> rule_fn r p = result_of (pr_action r).
Proof.
  intro H. unfold rule_fn, rule_fn_with. apply rule_matchb_spec in H. now rewrite H.
Qed.

Lemma rule_fn_nomatch r p : ~ matches r p -> rule_fn r p = FwContinue.
Proof.
  intro H. unfold rule_fn, rule_fn_with.
  destruct (forallb (comp_match full p) (pr_comps r)) eqn:E; auto.
  apply rule_matchb_spec in E. contradiction.
Qed.

(* each returned FirewallRuleFunc answers its action exactly when the rule matches *)
Lemma rule_fn_spec r p :
  (matches r p -> rule_fn r p = result_of (pr_action r)) /\ (~ matches r p -> rule_fn r p = FwContinue).
Proof. split; [apply rule_fn_match | apply rule_fn_nomatch]. Qed.

Lemma fw_loop_spec rules p d : decides rules p d ->
  forall init, fw_loop rules p init =
    match d with
    | Some r => result_of (pr_action r)
    | None => match rules with [] => init | _ => FwContinue end
    end.
Proof.
  induction 1; intro init; simpl.
  - reflexivity.
  - fold (rule_fn r p). rewrite rule_fn_match by assumption. now destruct (pr_action r).
  - fold (rule_fn r p). rewrite rule_fn_nomatch by assumption.
    fold (fw_loop rest p FwContinue). rewrite IHdecides. destruct d; auto. now destruct rest.
Qed.

Lemma effective_result a : effective (result_of a) = a.
Proof. now destruct a. Qed.

Theorem eval_first_match rules p d : decides rules p d -> effective (eval rules p) = verdict d.
Proof.
  intro H. unfold eval, eval_with. fold (fw_loop rules p FwAccept). rewrite (fw_loop_spec _ _ _ H).
  destruct d; simpl; [apply effective_result | now destruct rules].
Qed.

(* the statement of the property, evaluation half *)
Theorem first_match_decides_thm : forall rules p,
  (exists d, decides rules p d) /\
  (forall d, decides rules p d -> effective (eval rules p) = verdict d).
Proof. intros; split; [apply decides_total | apply eval_first_match]. Qed.

(* in the vocabulary of positions: the first matching rule, nobody before it *)
Theorem first_match_positional : forall pre r post p,
  Forall (fun x => ~ matches x p) pre -> matches r p ->
  effective (eval (pre ++ r :: post) p) = pr_action r.
Proof.
  intros pre r post p Hf Hm.
  apply (eval_first_match _ _ (Some r)). apply decides_first. eauto.
Qed.

Theorem no_match_accepts : forall rules p,
  Forall (fun x => ~ matches x p) rules -> effective (eval rules p) = Accept.
Proof. intros rules p H. apply (eval_first_match _ _ None). now apply decides_none. Qed.

(* handleMessageData *)
Theorem handle_dictated rules p d : decides rules p d -> handle rules p = dictated (verdict d) p.
Proof.
  intro H. unfold handle, handle_with. fold (eval rules p).
  pose proof (eval_first_match _ _ _ H) as E. unfold dictated.
  destruct (eval rules p); simpl in E; rewrite <- E; reflexivity.
Qed.

Theorem reject_notice_unless_unreach rules p d :
  decides rules p d -> verdict d = Reject ->
  (p_fromservice p = svc_unreach -> handle rules p = DReject None) /\
  (p_fromservice p <> svc_unreach ->
   handle rules p = DReject (Some (mkU (p_fromnode p) (p_tonode p) (p_fromservice p) (p_toservice p) problem_rejected))).
Proof.
  intros H Hv. rewrite (handle_dictated _ _ _ H), Hv. simpl. split; intro Hs.
  - apply beq_text_eq in Hs. now rewrite Hs.
  - destruct (beq_text (p_fromservice p) svc_unreach) eqn:E; auto.
    apply beq_text_eq in E. contradiction.
Qed.

(* everything that leaves the firewall of a node *)
Theorem node_firewall_spec_thm : forall self rules p d,
  decides rules p d ->
  match verdict d with
  | Accept => node_handle self rules p = [(p, None)]
  | Drop => node_handle self rules p = []
  | Reject =>
    if beq_text (p_fromservice p) svc_unreach then node_handle self rules p = []
    else let u := mkU (p_fromnode p) (p_tonode p) (p_fromservice p) (p_toservice p) problem_rejected in
         forall d', decides rules (notice_pkt self u) d' ->
           node_handle self rules p =
           match verdict d' with Accept => [(notice_pkt self u, Some u)] | _ => [] end
  end.
Proof.
  intros self rules p d H. unfold node_handle, node_handle_with.
  fold (handle rules p). rewrite (handle_dictated _ _ _ H).
  destruct (verdict d); simpl; auto.
  destruct (beq_text (p_fromservice p) svc_unreach); auto.
  intros d' H'. fold (handle rules (notice_pkt self (mkU (p_fromnode p) (p_tonode p) (p_fromservice p) (p_toservice p) problem_rejected))).
  rewrite (handle_dictated _ _ _ H'). destruct (verdict d'); reflexivity.
Qed.

Lemma passes_spec rules p : passes rules p = true <-> (forall d, decides rules p d -> verdict d = Accept).
Proof.
  unfold passes, passes_with. fold (handle rules p). split.
  - intros Hp d H. rewrite (handle_dictated _ _ _ H) in Hp. destruct (verdict d); simpl in Hp; auto; discriminate.
  - intro Hall. destruct (decides_total rules p) as [d H].
    rewrite (handle_dictated _ _ _ H), (Hall d H). reflexivity.
Qed.

(* a packet crosses a line of nodes iff every node's first matching rule accepts it *)
Theorem chain_delivered_iff : forall rest visited p,
  chain visited rest p = Delivered <->
  Forall (fun n => forall d, decides (snd n) p d -> verdict d = Accept) rest.
Proof.
  induction rest as [|n rest IH]; intros visited p; simpl.
  - split; auto.
  - unfold chain in *. simpl. fold (handle (snd n) p).
    destruct (decides_total (snd n) p) as [d H]. rewrite (handle_dictated _ _ _ H).
    split.
    + intro Hc. destruct (verdict d) eqn:Ev; simpl in Hc.
      * constructor; [| now apply (IH (n :: visited))].
        intros d' H'. now rewrite (decides_unique _ _ _ _ H' H).
      * destruct (beq_text (p_fromservice p) svc_unreach); try discriminate.
        match type of Hc with (if ?c then _ else _) = _ => destruct c end; discriminate.
      * discriminate.
    + intro Hf. inversion Hf as [|? ? Hn Hr]; subst. rewrite (Hn d H). simpl.
      now apply (IH (n :: visited)).
Qed.

(* ================= parsing: bad rules are refused ================= *)

Lemma mem_text_In x l : mem_text x l = true <-> In x l.
Proof.
  unfold mem_text. rewrite existsb_exists. split.
  - intros (y & Hin & E). apply beq_text_eq in E. now subst.
  - intro H. exists x. split; auto. now apply beq_text_eq.
Qed.

Definition get_field (fr : frule) (lk : text) : text :=
  if beq_text lk kw_action then f_action fr
  else if beq_text lk kw_fromnode then f_fromnode fr
  else if beq_text lk kw_tonode then f_tonode fr
  else if beq_text lk kw_fromservice then f_fromservice fr
  else if beq_text lk kw_toservice then f_toservice fr
  else [].

Lemma set_get_same fr lk v fr' : set_field fr lk v = Some fr' -> get_field fr' lk = v.
Proof.
  unfold set_field, get_field.
  destruct (beq_text lk kw_action); [intro H; inversion H; reflexivity|].
  destruct (beq_text lk kw_fromnode); [intro H; inversion H; reflexivity|].
  destruct (beq_text lk kw_tonode); [intro H; inversion H; reflexivity|].
  destruct (beq_text lk kw_fromservice); [intro H; inversion H; reflexivity|].
  destruct (beq_text lk kw_toservice); [intro H; inversion H; reflexivity|].
  discriminate.
Qed.

Lemma kw_distinct :
  kw_action <> kw_fromnode /\ kw_action <> kw_tonode /\ kw_action <> kw_fromservice /\ kw_action <> kw_toservice
  /\ kw_fromnode <> kw_tonode /\ kw_fromnode <> kw_fromservice /\ kw_fromnode <> kw_toservice
  /\ kw_tonode <> kw_fromservice /\ kw_tonode <> kw_toservice /\ kw_fromservice <> kw_toservice.
Proof. repeat split; intro H; vm_compute in H; discriminate. Qed.

Lemma set_get_other fr lk v fr' lk' :
  set_field fr lk v = Some fr' -> lk' <> lk -> get_field fr' lk' = get_field fr lk'.
Proof.
  unfold set_field, get_field. intros H Hne.
  destruct kw_distinct as (D1 & D2 & D3 & D4 & D5 & D6 & D7 & D8 & D9 & D10).
  destruct (beq_text lk kw_action) eqn:A1;
    [|destruct (beq_text lk kw_fromnode) eqn:A2;
      [|destruct (beq_text lk kw_tonode) eqn:A3;
        [|destruct (beq_text lk kw_fromservice) eqn:A4;
          [|destruct (beq_text lk kw_toservice) eqn:A5; [|discriminate]]]]];
    inversion H; subst; clear H; simpl;
    repeat match goal with E : beq_text lk _ = true |- _ => apply beq_text_eq in E; subst lk end;
    destruct (beq_text lk' kw_action) eqn:B1; try (apply beq_text_eq in B1; congruence);
    destruct (beq_text lk' kw_fromnode) eqn:B2; try (apply beq_text_eq in B2; congruence);
    destruct (beq_text lk' kw_tonode) eqn:B3; try (apply beq_text_eq in B3; congruence);
    destruct (beq_text lk' kw_fromservice) eqn:B4; try (apply beq_text_eq in B4; congruence);
    destruct (beq_text lk' kw_toservice) eqn:B5; try (apply beq_text_eq in B5; congruence);
    reflexivity.
Qed.

Lemma set_field_known fr ks v fr' : set_field fr (lower ks) v = Some fr' -> known_key ks = true.
Proof.
  unfold set_field, known_key.
  destruct (beq_text (lower ks) kw_action); [reflexivity|].
  destruct (beq_text (lower ks) kw_fromnode); [reflexivity|].
  destruct (beq_text (lower ks) kw_tonode); [reflexivity|].
  destruct (beq_text (lower ks) kw_fromservice); [reflexivity|].
  destruct (beq_text (lower ks) kw_toservice); [reflexivity|].
  discriminate.
Qed.

Fixpoint keys_of (r : raw_rule) : list text :=
  match r with
  | [] => []
  | (KStr k, _) :: rest => lower k :: keys_of rest
  | (KOther, _) :: rest => keys_of rest
  end.

Lemma dup_keys_false_seen r : forall seen,
  dup_keys r seen = false -> forall x, In x seen -> ~ In x (keys_of r).
Proof.
  induction r as [|[k v] rest IH]; intros seen H x Hx; simpl; auto.
  destruct k as [ks|]; simpl in H.
  - apply orb_false_iff in H as [H1 H2]. intros [E|Hin].
    + subst x. apply mem_text_In in Hx. congruence.
    + apply (IH _ H2 x); auto. now right.
  - now apply (IH _ H x).
Qed.

Lemma fill_ok kvs : forall seen fr fr',
  fill_with true kvs seen fr = POk fr' ->
  Forall (fun kv => exists ks val, kv = (KStr ks, VStr val) /\ known_key ks = true
                                   /\ get_field fr' (lower ks) = val) kvs
  /\ dup_keys kvs seen = false
  /\ (forall lk, ~ In lk (keys_of kvs) -> get_field fr' lk = get_field fr lk).
Proof.
  induction kvs as [|[k v] rest IH]; intros seen fr fr' H; simpl in H.
  - inversion H; subst. repeat split; auto.
  - destruct v as [val|]; [|discriminate]. destruct k as [ks|]; [|discriminate].
    simpl in H. destruct (mem_text (lower ks) seen) eqn:Em; [discriminate|].
    destruct (set_field fr (lower ks) val) as [fr1|] eqn:Es; [|discriminate].
    destruct (IH _ _ _ H) as (Hall & Hdup & Hkeep).
    assert (Hnot : ~ In (lower ks) (keys_of rest)).
    { apply (dup_keys_false_seen _ _ Hdup). now left. }
    repeat split.
    + constructor; auto. exists ks, val. repeat split.
      * eapply set_field_known; eauto.
      * rewrite (Hkeep _ Hnot). eapply set_get_same; eauto.
    + simpl. rewrite Em, Hdup. reflexivity.
    + intros lk Hlk. simpl in Hlk. rewrite Hkeep by tauto.
      eapply set_get_other; eauto.
Qed.

Lemma fill_never_panics kvs : forall d seen fr, fill_with d kvs seen fr <> PPanic.
Proof.
  induction kvs as [|[k v] rest IH]; intros d seen fr; simpl; try discriminate.
  destruct v; try discriminate. destruct k; try discriminate.
  destruct (d && mem_text (lower k) seen); try discriminate.
  destruct (set_field fr (lower k) v); try discriminate. apply IH.
Qed.

Section Parser.
  Variable gp : text -> option re.

  Lemma build_comp_ok f v c : build_comp gp f v = POk c -> malformed_pattern gp v = false.
  Proof.
    unfold build_comp, malformed_pattern. destruct v as [|c0 rest]; auto.
    destruct (c0 =? slash); auto. cbn [andb].
    destruct (Nat.ltb (length (c0 :: rest)) 2); [discriminate|].
    destruct (negb (last (c0 :: rest) 0 =? slash)); [discriminate|].
    destruct (gp (inner (c0 :: rest))); [reflexivity | discriminate].
  Qed.

  Lemma build_comp_never_panics f v : build_comp gp f v <> PPanic.
  Proof.
    unfold build_comp. destruct v as [|c0 rest]; try discriminate.
    destruct (c0 =? slash); try discriminate.
    destruct (Nat.ltb (length (c0 :: rest)) 2); try discriminate.
    destruct (negb (last (c0 :: rest) 0 =? slash)); try discriminate.
    destruct (gp (inner (c0 :: rest))); discriminate.
  Qed.

  Lemma build_comps_ok fr comps :
    build_comps_with (build_comp gp) fr = POk comps ->
    malformed_pattern gp (f_fromnode fr) = false /\ malformed_pattern gp (f_tonode fr) = false
    /\ malformed_pattern gp (f_fromservice fr) = false /\ malformed_pattern gp (f_toservice fr) = false.
  Proof.
    unfold build_comps_with, bindp. intro H.
    destruct (build_comp gp FromNode (f_fromnode fr)) eqn:E1; try discriminate.
    destruct (build_comp gp ToNode (f_tonode fr)) eqn:E2; try discriminate.
    destruct (build_comp gp FromService (f_fromservice fr)) eqn:E3; try discriminate.
    destruct (build_comp gp ToService (f_toservice fr)) eqn:E4; try discriminate.
    repeat split; eapply build_comp_ok; eauto.
  Qed.

  Lemma parse_rule_never_panics raw : parse_rule gp raw <> PPanic.
  Proof.
    unfold parse_rule, parse_rule_with, fill, bindp.
    destruct (fill_with true raw [] frule0) eqn:E; try discriminate.
    - unfold build_comps_with, bindp.
      destruct (build_comp gp FromNode (f_fromnode a)) eqn:E1; try discriminate;
        [|exfalso; eapply build_comp_never_panics; eauto].
      destruct (build_comp gp ToNode (f_tonode a)) eqn:E2; try discriminate;
        [|exfalso; eapply build_comp_never_panics; eauto].
      destruct (build_comp gp FromService (f_fromservice a)) eqn:E3; try discriminate;
        [|exfalso; eapply build_comp_never_panics; eauto].
      destruct (build_comp gp ToService (f_toservice a)) eqn:E4; try discriminate;
        [|exfalso; eapply build_comp_never_panics; eauto].
      destruct (action_of (f_action a)); discriminate.
    - exfalso. eapply fill_never_panics; eauto.
  Qed.

  Lemma parse_rules_never_panics rules : parse_rules gp rules <> PPanic.
  Proof.
    induction rules as [|r rest IH]; simpl; try discriminate.
    unfold parse_rules in *. simpl. unfold bindp at 1.
    fold (parse_rule gp r). destruct (parse_rule gp r) eqn:E; try discriminate.
    - unfold bindp. destruct (parse_rules_with fill (build_comp gp) rest); try discriminate. exact IH.
    - exfalso. eapply parse_rule_never_panics; eauto.
  Qed.

  Lemma action_of_nil : action_of [] = None.
  Proof. reflexivity. Qed.

  (* a rule that is accepted contains nothing uninterpretable *)
  Lemma parse_rule_ok_not_bad raw x : parse_rule gp raw = POk x -> bad_rule gp raw = false.
  Proof.
    unfold parse_rule, parse_rule_with, fill, bindp. intro H.
    destruct (fill_with true raw [] frule0) as [fr| |] eqn:Ef; try discriminate.
    destruct (build_comps_with (build_comp gp) fr) as [comps| |] eqn:Eb; try discriminate.
    destruct (action_of (f_action fr)) as [a|] eqn:Ea; try discriminate.
    destruct (fill_ok _ _ _ _ Ef) as (Hall & Hdup & Hkeep).
    destruct (build_comps_ok _ _ Eb) as (M1 & M2 & M3 & M4).
    unfold bad_rule. rewrite Hdup, orb_false_r. apply orb_false_iff. split.
    - (* no bad element *)
      destruct (existsb (bad_element gp) raw) eqn:Ex; auto.
      apply existsb_exists in Ex as (kv & Hin & Hbad).
      rewrite Forall_forall in Hall. destruct (Hall _ Hin) as (ks & val & -> & Hk & Hg).
      simpl in Hbad. rewrite Hk in Hbad. simpl in Hbad.
      unfold get_field in Hg. unfold known_key in Hk.
      destruct (beq_text (lower ks) kw_action) eqn:A1.
      { subst val. now rewrite Ea in Hbad. }
      destruct (beq_text (lower ks) kw_fromnode); [subst val; congruence|].
      destruct (beq_text (lower ks) kw_tonode); [subst val; congruence|].
      destruct (beq_text (lower ks) kw_fromservice); [subst val; congruence|].
      destruct (beq_text (lower ks) kw_toservice); [subst val; congruence|].
      discriminate.
    - (* there is an action *)
      apply negb_false_iff.
      destruct (existsb (fun kv => is_action_key (fst kv)) raw) eqn:Ex; auto. exfalso.
      assert (Hn : ~ In kw_action (keys_of raw)).
      { intro Hin. clear - Hin Ex. induction raw as [|[k v] rest IH]; simpl in *; auto.
        apply orb_false_iff in Ex as [E1 E2]. destruct k as [ks|]; simpl in *; auto.
        destruct Hin as [E|Hin]; auto. rewrite E in E1. discriminate. }
      specialize (Hkeep _ Hn). unfold get_field in Hkeep. simpl in Hkeep.
      rewrite Hkeep in Ea. discriminate.
  Qed.

  Theorem bad_rule_refused raw : bad_rule gp raw = true -> exists e, parse_rule gp raw = PErr e.
  Proof.
    intro Hb. destruct (parse_rule gp raw) as [x|e|] eqn:E.
    - apply parse_rule_ok_not_bad in E. congruence.
    - eauto.
    - exfalso. eapply parse_rule_never_panics; eauto.
  Qed.

  Theorem bad_rules_refused_thm : forall rules,
    existsb (bad_rule gp) rules = true -> exists e, parse_rules gp rules = PErr e.
  Proof.
    induction rules as [|r rest IH]; simpl; intro H; [discriminate|].
    unfold parse_rules in *. simpl. fold (parse_rule gp r).
    destruct (parse_rule gp r) as [x|e|] eqn:E; simpl.
    - apply orb_true_iff in H as [H|H].
      + apply parse_rule_ok_not_bad in E. congruence.
      + destruct (IH H) as [e He]. rewrite He. simpl. eauto.
    - eauto.
    - exfalso. eapply parse_rule_never_panics; eauto.
  Qed.

  (* ... and a set that is accepted is accepted rule by rule: nothing is dropped or widened *)
  Theorem parse_rules_ok_all : forall rules rs,
    parse_rules gp rules = POk rs ->
    Forall2 (fun raw r => parse_rule gp raw = POk r) rules rs.
  Proof.
    induction rules as [|raw rest IH]; intros rs H.
    - inversion H. constructor.
    - unfold parse_rules in *. simpl in H. fold (parse_rule gp raw) in H.
      destruct (parse_rule gp raw) as [x| |] eqn:E; try discriminate. simpl in H.
      destruct (parse_rules_with fill (build_comp gp) rest) as [xs| |] eqn:E2; try discriminate.
      inversion H; subst. constructor; auto.
  Qed.
End Parser.

(* the compiled rule carries exactly the fields that were written: literal, /regex/, or absent *)
Definition field_of (gp : text -> option re) (f : field) (v : text) : list comp :=
  match v with
  | [] => []
  | c :: _ => if c =? slash then match gp (inner v) with Some r => [(f, MRe r)] | None => [] end
              else [(f, MLit v)]
  end.

Lemma build_comp_field gp f v c : build_comp gp f v = POk c -> opt_list c = field_of gp f v.
Proof.
  unfold build_comp, field_of. destruct v as [|c0 rest]; [intro H; inversion H; reflexivity|].
  destruct (c0 =? slash).
  - destruct (Nat.ltb (length (c0 :: rest)) 2); [discriminate|].
    destruct (negb (last (c0 :: rest) 0 =? slash)); [discriminate|].
    destruct (gp (inner (c0 :: rest))); [|discriminate]. intro H; inversion H; reflexivity.
  - intro H; inversion H; reflexivity.
Qed.

Theorem parse_rule_fields gp raw r :
  parse_rule gp raw = POk r ->
  exists fr, fill raw = POk fr /\ action_of (f_action fr) = Some (pr_action r) /\
    pr_comps r = field_of gp FromNode (f_fromnode fr) ++ field_of gp ToNode (f_tonode fr)
                 ++ field_of gp FromService (f_fromservice fr) ++ field_of gp ToService (f_toservice fr).
Proof.
  unfold parse_rule, parse_rule_with, bindp. intro H.
  destruct (fill raw) as [fr| |] eqn:Ef; try discriminate. exists fr. split; auto.
  unfold build_comps_with, bindp in H.
  destruct (build_comp gp FromNode (f_fromnode fr)) eqn:E1; try discriminate.
  destruct (build_comp gp ToNode (f_tonode fr)) eqn:E2; try discriminate.
  destruct (build_comp gp FromService (f_fromservice fr)) eqn:E3; try discriminate.
  destruct (build_comp gp ToService (f_toservice fr)) eqn:E4; try discriminate.
  destruct (action_of (f_action fr)) eqn:Ea; try discriminate.
  inversion H; subst; simpl. split; auto.
  now rewrite (build_comp_field _ _ _ _ E1), (build_comp_field _ _ _ _ E2),
    (build_comp_field _ _ _ _ E3), (build_comp_field _ _ _ _ E4).
Qed.

Theorem never_wider_thm : forall gp rules rs,
  parse_rules gp rules = POk rs ->
  Forall2 (fun raw r => exists fr, fill raw = POk fr /\ action_of (f_action fr) = Some (pr_action r) /\
    pr_comps r = field_of gp FromNode (f_fromnode fr) ++ field_of gp ToNode (f_tonode fr)
                 ++ field_of gp FromService (f_fromservice fr) ++ field_of gp ToService (f_toservice fr))
    rules rs.
Proof.
  intros gp rules rs H. apply parse_rules_ok_all in H.
  induction H; constructor; auto. now apply parse_rule_fields.
Qed.

Theorem rule_function_thm : forall r p,
  (matches r p <-> forallb (comp_match full p) (pr_comps r) = true) /\
  (matches r p -> rule_fn r p = result_of (pr_action r)) /\
  (~ matches r p -> rule_fn r p = FwContinue).
Proof.
  intros r p. split; [symmetry; apply rule_matchb_spec | apply rule_fn_spec].
Qed.

(* ================= rule installation histories (AddFirewallRules) ================= *)

Theorem install_after_clear : forall (A : Type) (h1 : list (list A * bool)) cur new h2,
  install_all cur (h1 ++ (new, true) :: h2) = install_all new h2.
Proof.
  intros A h1. induction h1 as [|[l c] h1 IH]; intros cur new h2; simpl.
  - reflexivity.
  - apply IH.
Qed.

Theorem install_appends : forall (A : Type) (h : list (list A * bool)) cur,
  forallb (fun x => negb (snd x)) h = true -> install_all cur h = cur ++ concat (map fst h).
Proof.
  intros A h. induction h as [|[l c] h IH]; intros cur H; simpl in *.
  - now rewrite app_nil_r.
  - apply andb_true_iff in H as [Hc H]. destruct c; [discriminate|].
    unfold install. rewrite IH by assumption. now rewrite app_assoc.
Qed.

(* replacing the rule set by the empty one leaves no rule in force: every packet is accepted *)
Theorem cleared_accepts_all : forall cur h1 self p,
  node_handle self (install_all cur (h1 ++ [([], true)])) p = [(p, None)].
Proof. intros. rewrite install_after_clear. reflexivity. Qed.

(* ================= everything that leaves a node went through its rules ================= *)

Lemma node_handle_passes self rules p q n :
  In (q, n) (node_handle self rules p) -> passes rules q = true.
Proof.
  unfold node_handle, node_handle_with, passes, passes_with.
  destruct (handle_with full rules p) as [| |[u|]] eqn:E; simpl; try tauto.
  - intros [H|[]]. inversion H; subst. now rewrite E.
  - destruct (handle_with full rules (notice_pkt self u)) eqn:E2; simpl; try tauto.
    intros [H|[]]. inversion H; subst. now rewrite E2.
Qed.

Lemma node_handle2_same self rules p :
  node_handle2_with full self rules rules p = node_handle self rules p.
Proof.
  unfold node_handle2_with, node_handle, node_handle_with, emit_with, passes_with.
  destruct (handle_with full rules p) as [| |[u|]]; auto.
  destruct (handle_with full rules (notice_pkt self u)); auto.
Qed.

Lemma emit_passes self rules u q n : In (q, n) (emit self rules u) -> passes rules q = true.
Proof.
  unfold emit, emit_with. fold (passes rules (notice_pkt self u)).
  destruct (passes rules (notice_pkt self u)) eqn:E; simpl; try tauto.
  intros [H|[]]. inversion H; subst. exact E.
Qed.

Theorem node_full_passes_thm : forall self rules p listening hops q n,
  In (q, n) (node_full self rules p listening hops) -> passes rules q = true.
Proof.
  intros self rules p listening hops q n. unfold node_full, node_full_with.
  fold (node_handle self rules p).
  destruct (handle_with full rules p) eqn:E; try apply node_handle_passes.
  assert (Hp : passes rules p = true) by (unfold passes, passes_with; now rewrite E).
  assert (Hself : In (q, n) [(p, @None unreach_msg)] -> passes rules q = true).
  { intros [H|[]]. inversion H; subst. exact Hp. }
  destruct (beq_text (p_tonode p) self).
  - destruct (beq_text (p_toservice p) svc_ping);
      [destruct (beq_text (p_fromservice p) svc_ping); [simpl; tauto | apply node_handle_passes]|].
    destruct (beq_text (p_toservice p) svc_unreach); auto.
    destruct listening; auto.
    destruct (beq_text (p_fromnode p) self); [simpl; tauto|]. apply emit_passes.
  - destruct hops; auto.
    destruct (beq_text (p_fromservice p) svc_unreach); [simpl; tauto|]. apply emit_passes.
Qed.

(* with a listener and hops left, and no reserved service involved, it is [node_handle] *)
Theorem node_full_plain : forall self rules p,
  beq_text (p_toservice p) svc_ping = false ->
  node_full self rules p true true = node_handle self rules p.
Proof.
  intros self rules p Hs. unfold node_full, node_full_with, node_handle, node_handle_with.
  destruct (handle_with full rules p); auto. rewrite Hs.
  destruct (beq_text (p_tonode p) self); auto.
  destruct (beq_text (p_toservice p) svc_unreach); auto.
Qed.

Theorem ping_self_spec : forall self eph rules,
  (ping_self self eph rules = PingReply <->
   passes rules (mkPkt self eph self svc_ping) = true /\ passes rules (mkPkt self svc_ping self eph) = true).
Proof.
  intros self eph rules. unfold ping_self, ping_self_with, passes, passes_with.
  destruct (handle_with full rules (mkPkt self eph self svc_ping)) as [| |[u|]]; simpl.
  - destruct (handle_with full rules (mkPkt self svc_ping self eph)); simpl; split;
      try tauto; try discriminate; intros [_ H]; discriminate.
  - split; [discriminate | intros [H _]; discriminate].
  - destruct (handle_with full rules (notice_pkt self u)); split; try discriminate; intros [H _]; discriminate.
  - split; [discriminate | intros [H _]; discriminate].
Qed.

(* ================= the pinned behaviour, refuted ================= *)

Definition re_a_or_b : re := RAlt (RSet (CsChar 97)) (RSet (CsChar 98)).
Definition gp_ab (s : text) : option re := if beq_text s (str "a|b") then Some re_a_or_b else None.

Definition raw_alt : list raw_rule :=
  [[(KStr (str "action"), VStr (str "reject")); (KStr (str "fromnode"), VStr (str "/a|b/"))]].
Definition pkt_abc : pkt := mkPkt (str "abc") (str "s") (str "z") (str "s").

(* row 6 of DESIGN §9: "^a|b$" — the packet from "abc" matches no rule, yet is rejected *)
Theorem hist_anchoring_refuted_thm :
  exists gp raw rules p,
    parse_rules_hist gp raw = POk rules /\ parse_rules gp raw = POk rules /\
    decides rules p None /\ effective (eval_hist rules p) = Reject /\ effective (eval rules p) = Accept.
Proof.
  exists gp_ab, raw_alt, [mkRule [(FromNode, MRe re_a_or_b)] Reject], pkt_abc.
  repeat split; try (vm_compute; reflexivity).
  apply decides_none. constructor; [|constructor].
  intro H. apply rule_matchb_spec in H. vm_compute in H. discriminate.
Qed.

Definition raw_badre : list raw_rule :=
  [[(KStr (str "action"), VStr (str "drop")); (KStr (str "tonode"), VStr (str "/(/"))]].
Definition raw_unterminated : list raw_rule :=
  [[(KStr (str "action"), VStr (str "drop")); (KStr (str "fromnode"), VStr (str "/abc"))]].
Definition gp_none (s : text) : option re := None.

(* row 7: the error of the pattern is thrown away, the field disappears, the rule matches all *)
Theorem hist_widening_refuted_thm :
  existsb (bad_rule gp_none) raw_badre = true /\ existsb (bad_rule gp_none) raw_unterminated = true /\
  parse_rules_hist gp_none raw_badre = POk [mkRule [] Drop] /\
  parse_rules_hist gp_none raw_unterminated = POk [mkRule [] Drop] /\
  (forall p, eval_hist [mkRule [] Drop] p = FwDrop).
Proof. repeat split. Qed.

Definition raw_lone_slash : list raw_rule :=
  [[(KStr (str "action"), VStr (str "accept")); (KStr (str "toservice"), VStr (str "/"))]].

(* row 7, second half: value[1:len(value)-1] on "/" *)
Theorem hist_lone_slash_panics_thm : forall gp, parse_rules_hist gp raw_lone_slash = PPanic.
Proof. reflexivity. Qed.

Definition raw_dup : list raw_rule :=
  [[(KStr (str "Action"), VStr (str "bogus")); (KStr (str "action"), VStr (str "accept"))]].

(* found while modelling: one key in two spellings — the later one (in map order!) wins *)
Theorem hist_dup_key_refuted_thm :
  existsb (bad_rule gp_none) raw_dup = true /\ parse_rules_hist gp_none raw_dup = POk [mkRule [] Accept].
Proof. split; reflexivity. Qed.

(* the same inputs on the repaired code *)
Theorem repaired_refuses_witnesses :
  (exists e, parse_rules gp_none raw_badre = PErr e) /\ (exists e, parse_rules gp_none raw_unterminated = PErr e) /\
  (exists e, parse_rules gp_none raw_lone_slash = PErr e) /\ (exists e, parse_rules gp_none raw_dup = PErr e).
Proof. repeat split; eexists; reflexivity. Qed.

(* ================= non-vacuity ================= *)

Definition ex_re : re := RCat (RSet (CsChar 97)) (RStar (RAlt (RSet (CsChar 98)) (RSet (CsSet false [(48, 57)])))).
Definition ex_gp (s : text) : option re := if beq_text s (str "a(?:b|[0-9])*") then Some ex_re else None.
Definition ex_raw : list raw_rule :=
  [[(KStr (str "ACTION"), VStr (str "Accept")); (KStr (str "FromService"), VStr (str "unreach"))];
   [(KStr (str "Action"), VStr (str "reject")); (KStr (str "ToNode"), VStr (str "/a(?:b|[0-9])*/")); (KStr (str "toservice"), VStr (str "control"))];
   [(KStr (str "action"), VStr (str "DROP"))]].
Definition ex_rules : list prule :=
  [mkRule [(FromService, MLit (str "unreach"))] Accept;
   mkRule [(ToNode, MRe ex_re); (ToService, MLit (str "control"))] Reject;
   mkRule [] Drop].
Definition ex_pkt : pkt := mkPkt (str "n1") (str "work") (str "ab7b") (str "control").

Lemma ex_nonvacuous :
  existsb (bad_rule ex_gp) ex_raw = false /\ parse_rules ex_gp ex_raw = POk ex_rules /\
  decides ex_rules ex_pkt (Some (mkRule [(ToNode, MRe ex_re); (ToService, MLit (str "control"))] Reject)) /\
  handle ex_rules ex_pkt = DReject (Some (mkU (str "n1") (str "ab7b") (str "work") (str "control") problem_rejected)) /\
  node_handle (str "ab7b") ex_rules ex_pkt =
    [(mkPkt (str "ab7b") svc_unreach (str "n1") svc_unreach,
      Some (mkU (str "n1") (str "ab7b") (str "work") (str "control") problem_rejected))].
Proof.
  repeat split; try (vm_compute; reflexivity).
  apply DecLater.
  - intro H. apply rule_matchb_spec in H. vm_compute in H. discriminate.
  - apply DecHere. apply rule_matchb_spec. vm_compute. reflexivity.
Qed.
